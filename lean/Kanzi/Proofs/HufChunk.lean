/-
Proofs for the Huffman codec, part 5: one chunk (`encodeChunk` / `decodeChunkV6`: four VarInt
sizes, four sub-streams, the tail bytes), the decoder's header (`readLengths`,
`buildDecodingTable`) against the encoder's `updateFrequencies`.
-/
import Kanzi.Model.Huffman
import Kanzi.Proofs.EntSmall
import Kanzi.Proofs.BitsIbs
import Kanzi.Proofs.HufHeader
import Kanzi.Proofs.HufCanon
import Kanzi.Proofs.HufEnc
import Kanzi.Proofs.HufDecM
import Kanzi.Proofs.HufUpdate

namespace Kanzi.Huffman
open Kanzi.Bits Kanzi.EntSmall

/-! ### the bytes of a sub-stream in the decoder's buffer -/

theorem toBytes_spec : ∀ (k : Nat) (F : Bits), F.length ≤ 8 * k →
    ofBytes (toBytes k F) = F ++ List.replicate (8 * k - F.length) false ∧
    (∀ b ∈ toBytes k F, b < 256) ∧ (toBytes k F).length = k := by
  intro k
  induction k with
  | zero =>
    intro F h
    have : F = [] := List.length_eq_zero_iff.mp (by omega)
    subst this
    exact ⟨rfl, fun _ hb => (by cases hb), rfl⟩
  | succ k ih =>
    intro F h
    simp only [toBytes]
    have hX : (F.take 8 ++ List.replicate (8 - (F.take 8).length) false).length = 8 := by
      rw [List.length_append, List.length_replicate, List.length_take]; omega
    obtain ⟨i1, i2, i3⟩ := ih (F.drop 8) (by rw [List.length_drop]; omega)
    refine ⟨?_, ?_, by rw [List.length_cons, i3]⟩
    · rw [Kanzi.EntSmall.ofBytes_cons, i1]
      have := Kanzi.BitsIbs.natBits_bitsNat (F.take 8 ++ List.replicate (8 - (F.take 8).length) false)
      rw [hX] at this
      rw [this, List.length_drop]
      by_cases h8 : 8 ≤ F.length
      · rw [show 8 - (F.take 8).length = 0 by rw [List.length_take]; omega]
        simp only [List.replicate_zero, List.append_nil]
        rw [← List.append_assoc, List.take_append_drop, show 8 * k - (F.length - 8) = 8 * (k + 1) - F.length by omega]
      · rw [List.take_of_length_le (by omega), List.drop_of_length_le (by omega)]
        simp only [List.nil_append, List.append_assoc, List.replicate_append_replicate]
        congr 2
        omega
    · intro b hb
      rcases List.mem_cons.mp hb with rfl | hb
      · have := bitsNat_lt (F.take 8 ++ List.replicate (8 - (F.take 8).length) false)
        rw [hX] at this
        simpa using this
      · exact i2 b hb

theorem readRegion_enc (stride : Nat) (junk : List Nat) (F rest : Bits) (h : (F.length + 7) / 8 ≤ stride) :
    readRegion stride F.length junk (F ++ rest)
      = some ((toBytes ((F.length + 7) / 8) F ++ List.replicate 8 0 ++ junk).toArray, rest) := by
  unfold readRegion
  rw [if_neg (by rw [List.length_append]; omega), if_neg (by omega),
    List.take_left' rfl, List.drop_left' rfl]

/-- the bits of a region start with the sub-stream -/
theorem region_bits (junk : List Nat) (F : Bits) :
    ∃ pad, ofBytes (toBytes ((F.length + 7) / 8) F ++ List.replicate 8 0 ++ junk) = F ++ pad := by
  obtain ⟨h1, _, _⟩ := toBytes_spec ((F.length + 7) / 8) F (by omega)
  exact ⟨_, by rw [Kanzi.EntSmall.ofBytes_append, Kanzi.EntSmall.ofBytes_append, h1, List.append_assoc, List.append_assoc]⟩

theorem region_bytes (junk : List Nat) (hj : ∀ b ∈ junk, b < 256) (F : Bits) :
    ∀ b ∈ (toBytes ((F.length + 7) / 8) F ++ List.replicate 8 0 ++ junk), b < 256 := by
  obtain ⟨_, h2, _⟩ := toBytes_spec ((F.length + 7) / 8) F (by omega)
  intro b hb
  rcases List.mem_append.mp hb with hb | hb
  · rcases List.mem_append.mp hb with hb | hb
    · exact h2 b hb
    · rw [(List.mem_replicate.mp hb).2]; decide
  · exact hj b hb

/-! ### one sub-stream -/

theorem codeBits_length_le (sizes codes l : List Nat) (h12 : ∀ b ∈ l, sizes.getD b 0 ≤ 12) :
    ∀ (frag : List Nat), (∀ b ∈ frag, b ∈ l) → (frag.flatMap (codeBits sizes codes)).length ≤ 12 * frag.length := by
  intro frag
  induction frag with
  | nil => intro _; simp
  | cons b bs ih =>
    intro hb
    have := ih (fun x hx => hb x (List.mem_cons_of_mem _ hx))
    have := h12 b (hb b List.mem_cons_self)
    simp only [List.flatMap_cons, List.length_append, List.length_cons]
    have hcb : (codeBits sizes codes b).length = sizes.getD b 0 := by
      simp only [codeBits]; exact Kanzi.EntSmall.natBits_length _ _
    rw [hcb]
    omega

/-- everything the two sides of a chunk share -/
structure ChunkCtx (arr : Array Nat) (tbl : List Nat) (sizes codes a : List Nat) : Prop where
  packed : Packed arr sizes codes a
  tblOk : TblOk tbl
  tblFor : TableFor sizes codes a tbl
  lt256 : ∀ s ∈ a, s < 256

theorem frag_roundtrip (arr : Array Nat) (tbl sizes codes a : List Nat) (ctx : ChunkCtx arr tbl sizes codes a)
    (junk : List Nat) (hj : ∀ b ∈ junk, b < 256) (frag : List Nat) (hf : ∀ b ∈ frag, b ∈ a) :
    decFrag tbl.toArray
      (toBytes (((encFrag arr frag).length + 7) / 8) (encFrag arr frag) ++ List.replicate 8 0 ++ junk).toArray
      frag.length = frag := by
  rw [decFrag_spec tbl ctx.tblOk _ (by simpa using region_bytes junk hj (encFrag arr frag))]
  obtain ⟨pad, hp⟩ := region_bits junk (encFrag arr frag)
  simp only [List.toList_toArray] at hp ⊢
  rw [hp, encFrag_eq arr sizes codes a ctx.packed frag hf]
  exact specDec_codes sizes codes a tbl ctx.tblFor ctx.lt256 ctx.packed.le12 ctx.packed.lt frag pad hf

theorem specLen_codes (sizes codes ord tbl : List Nat) (ht : TableFor sizes codes ord tbl)
    (hsz : ∀ s ∈ ord, sizes.getD s 0 ≤ 12) (hcode : ∀ s ∈ ord, codes.getD s 0 < 2 ^ sizes.getD s 0) :
    ∀ (syms : List Nat) (rest : Bits), (∀ b ∈ syms, b ∈ ord) →
      specLen tbl syms.length (syms.flatMap (codeBits sizes codes) ++ rest)
        = (syms.flatMap (codeBits sizes codes)).length := by
  intro syms
  induction syms with
  | nil => intros; rfl
  | cons b bs ih =>
    intro rest hb
    have hbo := hb b List.mem_cons_self
    simp only [List.flatMap_cons, List.length_cons, specLen, List.append_assoc, List.length_append]
    have hp := peek_code (codes.getD b 0) (sizes.getD b 0) (hsz b hbo) (hcode b hbo)
      (bs.flatMap (codeBits sizes codes) ++ rest)
    have he := ht b hbo
      (peek 12 (natBits (codes.getD b 0) (sizes.getD b 0) ++ (bs.flatMap (codeBits sizes codes) ++ rest)))
      (by rw [slotW]; exact hp.1) (by rw [slotW]; exact hp.2)
    have hes := entry_sym b (sizes.getD b 0) (by have := hsz b hbo; omega)
    have hcb : (codeBits sizes codes b).length = sizes.getD b 0 := by
      simp only [codeBits]; exact Kanzi.EntSmall.natBits_length _ _
    simp only [codeBits] at he hp hcb ⊢
    rw [he, hes.2, hcb]
    rw [List.drop_append_of_le_length (by simp [Kanzi.EntSmall.natBits_length]),
      List.drop_of_length_le (by simp [Kanzi.EntSmall.natBits_length]), List.nil_append]
    rw [ih rest (fun x hx => hb x (List.mem_cons_of_mem _ hx))]

/-- the reads of `readState` stay within 15 bytes of the end of the sub-stream -/
theorem frag_reads_ok (arr : Array Nat) (tbl sizes codes a : List Nat) (ctx : ChunkCtx arr tbl sizes codes a)
    (junk : List Nat) (hj : ∀ b ∈ junk, b < 256) (frag : List Nat) (hf : ∀ b ∈ frag, b ∈ a)
    (avail : Nat) (hav : ((encFrag arr frag).length + 56) / 8 + 8 ≤ avail) :
    readsOk tbl.toArray
      (toBytes (((encFrag arr frag).length + 7) / 8) (encFrag arr frag) ++ List.replicate 8 0 ++ junk).toArray
      frag.length avail = true := by
  unfold readsOk
  rw [List.all_eq_true]
  intro i hi
  have hbytes := region_bytes junk hj (encFrag arr frag)
  have := decFragReads_bound tbl ctx.tblOk _ (by simpa using hbytes) frag.length frag.length ⟨0, 0, 0⟩ 0
    ⟨rfl, Nat.zero_le _, by simp [peekAt_zero]⟩ i hi
  obtain ⟨pad, hp⟩ := region_bits junk (encFrag arr frag)
  simp only [List.drop_zero] at this
  rw [hp, encFrag_eq arr sizes codes a ctx.packed frag hf,
    specLen_codes sizes codes a tbl ctx.tblFor ctx.packed.le12 ctx.packed.lt frag pad hf,
    ← encFrag_eq arr sizes codes a ctx.packed frag hf] at this
  simp only [decide_eq_true_eq]
  omega

/-! ### `decodeChunkV6 ∘ encodeChunk` -/

theorem take_drop_quarters (c : List Nat) :
    c.take (c.length / 4) ++ (c.drop (c.length / 4)).take (c.length / 4)
      ++ (c.drop (2 * (c.length / 4))).take (c.length / 4)
      ++ (c.drop (3 * (c.length / 4))).take (c.length / 4) ++ c.drop (4 * (c.length / 4)) = c := by
  generalize c.length / 4 = q
  have e2 : c.drop (2 * q) = (c.drop q).drop q := by rw [List.drop_drop]; congr 1; omega
  have e3 : c.drop (3 * q) = ((c.drop q).drop q).drop q := by rw [List.drop_drop, List.drop_drop]; congr 1; omega
  have e4 : c.drop (4 * q) = (((c.drop q).drop q).drop q).drop q := by
    rw [List.drop_drop, List.drop_drop, List.drop_drop]; congr 1; omega
  rw [e2, e3, e4]
  simp only [List.append_assoc, List.take_append_drop]

/-- **one chunk.**  `stride` = the size of a region of the decoder's buffer. -/
theorem chunk_roundtrip (arr : Array Nat) (tbl sizes codes a : List Nat) (ctx : ChunkCtx arr tbl sizes codes a)
    (junk : List Nat) (hj : ∀ b ∈ junk, b < 256) (c : List Nat) (hc : ∀ b ∈ c, b ∈ a)
    (bufLen : Nat) (hs : 12 * (c.length / 4) + 128 ≤ 8 * (bufLen / 4)) (hlen : c.length < 2 ^ 28) (rest : Bits) :
    decodeChunk tbl.toArray bufLen c.length junk (encodeChunk arr c ++ rest) = some (c, rest) := by
  have hq : ∀ (frag : List Nat), (∀ b ∈ frag, b ∈ a) → frag.length ≤ c.length / 4 →
      (encFrag arr frag).length ≤ 12 * (c.length / 4) := by
    intro frag hf hl
    rw [encFrag_eq arr sizes codes a ctx.packed frag hf]
    have := codeBits_length_le sizes codes a ctx.packed.le12 frag hf
    omega
  have m0 : ∀ b ∈ c.take (c.length / 4), b ∈ a := fun b hb => hc b (List.mem_of_mem_take hb)
  have m1 : ∀ b ∈ (c.drop (c.length / 4)).take (c.length / 4), b ∈ a :=
    fun b hb => hc b (List.mem_of_mem_drop (List.mem_of_mem_take hb))
  have m2 : ∀ b ∈ (c.drop (2 * (c.length / 4))).take (c.length / 4), b ∈ a :=
    fun b hb => hc b (List.mem_of_mem_drop (List.mem_of_mem_take hb))
  have m3 : ∀ b ∈ (c.drop (3 * (c.length / 4))).take (c.length / 4), b ∈ a :=
    fun b hb => hc b (List.mem_of_mem_drop (List.mem_of_mem_take hb))
  have n0 : (c.take (c.length / 4)).length = c.length / 4 := by rw [List.length_take]; omega
  have n1 : ((c.drop (c.length / 4)).take (c.length / 4)).length = c.length / 4 := by
    rw [List.length_take, List.length_drop]; omega
  have n2 : ((c.drop (2 * (c.length / 4))).take (c.length / 4)).length = c.length / 4 := by
    rw [List.length_take, List.length_drop]; omega
  have n3 : ((c.drop (3 * (c.length / 4))).take (c.length / 4)).length = c.length / 4 := by
    rw [List.length_take, List.length_drop]; omega
  have q0 := hq _ m0 (by omega)
  have q1 := hq _ m1 (by omega)
  have q2 := hq _ m2 (by omega)
  have q3 := hq _ m3 (by omega)
  have f0 := frag_roundtrip arr tbl sizes codes a ctx junk hj _ m0
  have f1 := frag_roundtrip arr tbl sizes codes a ctx junk hj _ m1
  have f2 := frag_roundtrip arr tbl sizes codes a ctx junk hj _ m2
  have f3 := frag_roundtrip arr tbl sizes codes a ctx junk hj _ m3
  have k0 := frag_reads_ok arr tbl sizes codes a ctx junk hj _ m0 bufLen (by omega)
  have k1 := frag_reads_ok arr tbl sizes codes a ctx junk hj _ m1 (bufLen - bufLen / 4) (by omega)
  have k2 := frag_reads_ok arr tbl sizes codes a ctx junk hj _ m2 (bufLen - 2 * (bufLen / 4)) (by omega)
  have k3 := frag_reads_ok arr tbl sizes codes a ctx junk hj _ m3 (bufLen - 3 * (bufLen / 4)) (by omega)
  rw [n0] at f0 k0; rw [n1] at f1 k1; rw [n2] at f2 k2; rw [n3] at f3 k3
  have htail : ∀ b ∈ c.drop (4 * (c.length / 4)), b < 256 :=
    fun b hb => ctx.lt256 b (hc b (List.mem_of_mem_drop hb))
  have htl : (c.drop (4 * (c.length / 4))).length = c.length % 4 := by rw [List.length_drop]; omega
  unfold decodeChunk encodeChunk
  generalize encFrag arr (c.take (c.length / 4)) = F0 at *
  generalize encFrag arr ((c.drop (c.length / 4)).take (c.length / 4)) = F1 at *
  generalize encFrag arr ((c.drop (2 * (c.length / 4))).take (c.length / 4)) = F2 at *
  generalize encFrag arr ((c.drop (3 * (c.length / 4))).take (c.length / 4)) = F3 at *
  have hp : (2 : Nat) ^ 28 * 16 = 2 ^ 32 := by norm_num
  simp only [List.append_assoc]
  rw [varint_roundtrip _ (by omega)]
  simp only
  rw [varint_roundtrip _ (by omega)]
  simp only
  rw [varint_roundtrip _ (by omega)]
  simp only
  rw [varint_roundtrip _ (by omega)]
  simp only
  rw [readRegion_enc (bufLen / 4) junk F0 _ (by omega)]
  simp only
  rw [readRegion_enc (bufLen / 4) junk F1 _ (by omega)]
  simp only
  rw [readRegion_enc (bufLen / 4) junk F2 _ (by omega)]
  simp only
  rw [readRegion_enc (bufLen / 4) junk F3 _ (by omega)]
  simp only
  rw [k0, k1, k2, k3]
  simp only [and_self, not_true_eq_false, if_false]
  rw [← htl, readBytes_ofBytes _ rest htail]
  simp only
  have hq4 := take_drop_quarters c
  simp only [List.append_assoc] at hq4
  rw [f0, f1, f2, f3, hq4]

/-! ### the packed table of the encoder -/

theorem packCodes_spec (sizes : List Nat) : ∀ (a codes : List Nat), a.Nodup → (∀ s ∈ a, s < codes.length) →
    (packCodes sizes a codes).length = codes.length ∧
    (∀ x, x ∉ a → (packCodes sizes a codes).getD x 0 = codes.getD x 0) ∧
    (∀ s ∈ a, (packCodes sizes a codes).getD s 0 = (codes.getD s 0 ||| (sizes.getD s 0 <<< 12)) % 65536) := by
  intro a
  induction a with
  | nil => intro codes _ _; exact ⟨rfl, fun _ _ => rfl, fun _ h => by cases h⟩
  | cons s ss ih =>
    intro codes hnd hl
    have hnd' := List.nodup_cons.mp hnd
    have hs := hl s List.mem_cons_self
    simp only [packCodes, List.foldl_cons]
    have := ih (codes.set s ((codes.getD s 0 ||| (sizes.getD s 0 <<< 12)) % 65536)) hnd'.2
      (fun x hx => by rw [List.length_set]; exact hl x (List.mem_cons_of_mem _ hx))
    simp only [packCodes] at this
    obtain ⟨i1, i2, i3⟩ := this
    refine ⟨by rw [i1, List.length_set], ?_, ?_⟩
    · intro x hx
      rw [i2 x (fun h => hx (List.mem_cons_of_mem _ h))]
      exact getD_set_ne _ _ _ _ (fun h => hx (h ▸ List.mem_cons_self))
    · intro x hx
      rcases List.mem_cons.mp hx with rfl | hx
      · rw [i2 x hnd'.1, getD_set_self _ _ _ hs]
      · have hne : s ≠ x := fun h => hnd'.1 (h ▸ hx)
        rw [i3 x hx, getD_set_ne _ _ _ _ hne]

theorem packed_fields (c l : Nat) (hl : l ≤ 12) (hc : c < 2 ^ l) :
    ((c ||| (l <<< 12)) % 65536) >>> 12 = l ∧ ((c ||| (l <<< 12)) % 65536) &&& 0x0FFF = c := by
  have hc12 : c < 2 ^ 12 := Nat.lt_of_lt_of_le hc (Nat.pow_le_pow_right (by decide) hl)
  rw [or_shiftLeft c l 12 hc12]
  have hc' : c < 4096 := by simpa using hc12
  rw [Nat.mod_eq_of_lt (by omega)]
  constructor
  · rw [Nat.shiftRight_eq_div_pow]; omega
  · have := Nat.and_two_pow_sub_one_eq_mod (c + l * 2 ^ 12) 12
    simp only [Nat.reducePow, Nat.add_one_sub_one] at this
    rw [this]; omega

/-! ### the decoder's header and table -/

theorem Chain.weaken (sizes : List Nat) : ∀ (l : List Nat) (cur cur' : Nat), cur' ≤ cur →
    Chain sizes l cur → Chain sizes l cur' := by
  intro l cur cur' h hc
  cases l with
  | nil => trivial
  | cons s ss => exact ⟨by have := hc.1; omega, hc.2.1, hc.2.2⟩

theorem findSlot_mem (sizes : List Nat) : ∀ (ord : List Nat) (P w s : Nat),
    findSlot sizes ord P w = some s → s ∈ ord := by
  intro ord
  induction ord with
  | nil => intro P w s h; simp [findSlot] at h
  | cons x xs ih =>
    intro P w s h
    simp only [findSlot] at h
    split at h
    · split at h
      · simp only [Option.some.injEq] at h; subst h; exact List.mem_cons_self
      · cases h
    · exact List.mem_cons_of_mem _ (ih _ _ _ h)

theorem LensOk.congr {s1 s2 a : List Nat} (h : LensOk s1 a) (he : ∀ x ∈ a, s2.getD x 0 = s1.getD x 0) :
    LensOk s2 a := by
  refine ⟨h.nodup, h.lt256, fun s hs => by rw [he s hs]; exact h.range s hs, ?_⟩
  have : kraft12 s2 a = kraft12 s1 a := by
    unfold kraft12
    congr 1
    apply List.map_congr_left
    intro x hx
    simp only [slotW, he x hx]
  rw [this]; exact h.kraft

/-- what the decoder rebuilds from the header of a chunk with at least two symbols -/
theorem decoder_tables (sizes a : List Nat) (hs : a.Pairwise (· < ·)) (hlo : LensOk sizes a) (h2 : 2 ≤ a.length)
    (rest : Bits) :
    ∃ codes tbl,
      generateCanonicalCodes sizes (List.replicate 256 0) a = some (codes, canonOrder sizes a) ∧
      readLengths (encodeAlphabetBits a ++ encodeSizes sizes a 2 ++ rest)
        = some (⟨canonOrder sizes a, storeSizes sizes a (List.replicate 256 8), codes⟩, rest) ∧
      buildTable ⟨canonOrder sizes a, storeSizes sizes a (List.replicate 256 8), codes⟩ = some tbl ∧
      TblOk tbl ∧ TableFor sizes codes a tbl ∧ (∀ s ∈ a, codes.getD s 0 < 2 ^ sizes.getD s 0) ∧ codes.length = 256 ∧
      tbl.length = 4096 := by
  obtain ⟨codes, hg, hcl, hco, _⟩ := genCodes_ok sizes a hlo h2
  have hS : ∀ x ∈ a, (storeSizes sizes a (List.replicate 256 8)).getD x 0 = sizes.getD x 0 := by
    intro x hx
    rw [storeSizes_getD _ _ _ _ (by rw [List.length_replicate]; exact hlo.lt256 x hx), if_pos hx]
  have hgS : generateCanonicalCodes (storeSizes sizes a (List.replicate 256 8)) (List.replicate 256 0) a
      = some (codes, canonOrder sizes a) := by
    rw [genCodes_congr _ sizes a a (fun _ => Iff.rfl) rfl h2 hS, hg]
  have hperm := canonOrder_perm sizes a hlo.nodup hlo.lt256 hlo.range
  have hcoS : CodesOk (storeSizes sizes a (List.replicate 256 8)) codes (canonOrder sizes a) 0 := by
    have : ∀ (l : List Nat) (P : Nat), (∀ x ∈ l, x ∈ a) → CodesOk sizes codes l P →
        CodesOk (storeSizes sizes a (List.replicate 256 8)) codes l P := by
      intro l
      induction l with
      | nil => intros; trivial
      | cons x xs ih =>
        intro P hm hc
        have hx := hS x (hm x List.mem_cons_self)
        exact ⟨by rw [slotW, hx]; exact hc.1, by
          rw [slotW, hx]; exact ih _ (fun y hy => hm y (List.mem_cons_of_mem _ hy)) hc.2⟩
    exact this _ _ (fun x hx => hperm.mem_iff.mp hx) hco
  have hloS : LensOk (storeSizes sizes a (List.replicate 256 8)) a := hlo.congr hS
  have hchain := Chain.weaken _ _ _ 0 (Nat.zero_le _)
    (canonOrder_chain (storeSizes sizes a (List.replicate 256 8)) a hloS.range)
  rw [canonOrder_congr _ sizes a a (fun _ => Iff.rfl) hS] at hchain
  have hkS : 0 + kraft12 (storeSizes sizes a (List.replicate 256 8)) (canonOrder sizes a) ≤ 4096 := by
    rw [Nat.zero_add, kraft12_perm _ hperm]; exact hloS.kraft
  obtain ⟨t, ht, htl, htw⟩ := buildTableLoop_spec (storeSizes sizes a (List.replicate 256 8)) codes
    (canonOrder sizes a) 0 0 (List.replicate 4096 7) hchain (List.length_replicate ..) hkS hcoS
  refine ⟨codes, t, hg, ?_, ht, ?_, ?_, ?_, hcl, htl⟩
  · -- readLengths
    unfold readLengths
    rw [List.append_assoc, alphabet_roundtrip a hs hlo.lt256]
    simp only
    rw [if_neg (by omega), readSizes_enc sizes rest a 2 _ hlo.range (by omega)]
    simp only
    rw [hgS]
  · -- every entry has a length in 1..12
    intro w _
    rw [htw w]
    cases hf : findSlot (storeSizes sizes a (List.replicate 256 8)) (canonOrder sizes a) 0 w with
    | none =>
      simp only
      by_cases hw : w < 4096
      · rw [List.getD_eq_getElem?_getD, List.getElem?_replicate, if_pos hw]; decide
      · rw [List.getD_eq_getElem?_getD, List.getElem?_replicate, if_neg hw]
        exact absurd ‹w < 4096› hw
    | some s =>
      simp only
      have hsm := hperm.mem_iff.mp (findSlot_mem _ _ _ _ _ hf)
      have hr := hloS.range s hsm
      rw [(entry_sym s _ (by omega)).2]
      exact hr
  · -- tiles
    intro s hsm w h1 h2'
    rw [htw w]
    have hx := hS s hsm
    have := findSlot_hit (storeSizes sizes a (List.replicate 256 8)) codes s w (canonOrder sizes a) 0 hcoS
      (hperm.mem_iff.mpr hsm) (by rw [slotW, hx]; exact h1) (by rw [slotW, hx]; exact h2')
    rw [this]
    simp only
    rw [hx]
  · intro s hsm
    have := CodesOk_le sizes codes s (canonOrder sizes a) 0 hco (hperm.mem_iff.mpr hsm)
    rw [Nat.zero_add, kraft12_perm _ hperm] at this
    have hk := hlo.kraft
    exact code_lt_of_tile _ _ (hlo.range s hsm).2 (by rw [slotW] at this; omega)

end Kanzi.Huffman
