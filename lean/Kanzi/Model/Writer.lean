/-
Model of `io.Writer` (v2/io/CompressedStream.go: Write / Close / processBlock / GetWritten and the
lifecycle flags), as repaired by the fixes for findings F1 and F8.  Core Lean only.

What is modelled
* buffering: `Write` copies into `buffers[available / B][available % B]`; the 2·J block buffers
  are the flat memory `mem` (position p = buffers[p / B][p % B]); stale bytes stay where they are;
* `processBlock`: header on first use, task count from jobs / size hint / buffered blocks, task k
  takes `mem[k·B, k·B + min(available, B))`, `available` decreases; the blocks are *emitted* in id
  order (that every interleaving of the real tasks does emit them in id order, exactly once, is
  theorem `C04_schedule_independent`, proved for every N over `Model.Protocol`);
* lifecycle: `closing / finalized / closed`, the sticky error state (`blockID == -1`), retry of
  `Close` after a failed final flush, `streamCloser` closed once;
* sink failures as *annotations of the API call during which they happen* (`Fault`): the harness
  observes in the real run where the failing sink call came from (task / end marker / final flush
  / closer) and the model predicts every return value from there on.
What is a parameter: the per-block encoder — only the *length in bits* of an encoded block matters
to this layer (`Cfg.frameBits`), used by `GetWritten`.
-/
namespace Kanzi.Writer

inductive Err
  | closed        -- "Stream closed"
  | failedState   -- "Stream in error state after a previous write failure"
  | task          -- a block task failed (sink rejected a write, codec error)
  | io            -- sink error reported by the final flush / end marker / closer
deriving DecidableEq, Repr

/-- where a sink failure lands inside one API call (observed on the real run by the harness) -/
inductive Fault
  | none
  | task (batch : Nat)   -- a task of the `batch`-th processBlock (0-based) of this call fails
  | endMarker            -- the flush triggered by writing the end marker fails
  | finalFlush           -- the flush of `obs.Close()` fails (retryable)
  | closer               -- the wrapped `io.Closer` fails
deriving DecidableEq, Repr

structure Cfg where
  B : Nat                      -- block size (≥ 1; real: 1024 ≤ B ≤ 2^30, 16 | B)
  J : Nat                      -- jobs (1..64)
  nbIn : Nat                   -- min(⌈hint / B⌉, 63); 0 when no hint
  headless : Bool
  headerBits : Nat             -- length of the header in bits
  frameBits : List Nat → Nat   -- bits of one encoded block incl. its framing (5 + lw + payload)

structure St where
  mem : List Nat               -- flat view of the block buffers (length J·B)
  available : Nat
  initialized : Bool
  closing : Bool
  finalized : Bool
  closed : Bool
  failed : Bool                -- blockID == _CANCEL_TASKS_ID
  obsClosed : Bool
  closerClosed : Bool
  emitted : List (List Nat)    -- blocks handed to the shared stream, in order
  headerOut : Bool             -- header bits are in the stream
  endOut : Bool                -- end marker bits are in the stream
  bits : Nat                   -- obs.Written()

def init (c : Cfg) : St :=
  { mem := List.replicate (c.J * c.B) 0, available := 0, initialized := false, closing := false,
    finalized := false, closed := false, failed := false, obsClosed := false, closerClosed := false,
    emitted := [], headerOut := false, endOut := false, bits := 0 }

/-- overwrite `mem[pos, pos + src.length)` -/
def splice (mem : List Nat) (pos : Nat) (src : List Nat) : List Nat :=
  mem.take pos ++ src ++ mem.drop (pos + src.length)

def writeHeader (c : Cfg) (s : St) : St :=
  if c.headless ∨ s.initialized then s
  else { s with initialized := true, headerOut := true, bits := s.bits + c.headerBits }

def nbTasks (c : Cfg) (s : St) : Nat :=
  if c.J > 1 ∧ c.nbIn > 0 then min c.J (max c.nbIn ((s.available + c.B - 1) / c.B)) else c.J

/-- the task loop of processBlock: task `k` of `n` -/
def spawn (c : Cfg) : Nat → Nat → St → St
  | 0, _, s => s
  | fuel + 1, k, s =>
    let len := min s.available c.B
    if len = 0 then s
    else
      let blk := (s.mem.drop (k * c.B)).take len
      spawn c fuel (k + 1) { s with available := s.available - len, emitted := s.emitted ++ [blk],
                                    bits := s.bits + c.frameBits blk }

/-- `processBlock`; `fail = true`: some task of this batch fails -/
def processBlock (c : Cfg) (s : St) (fail : Bool) : St × Option Err :=
  if s.failed then (s, some .failedState)
  else
    let s1 := writeHeader c s
    if s1.available = 0 then (s1, none)
    else
      let s2 := spawn c (nbTasks c s1) 0 s1
      if fail then ({ s2 with failed := true }, some .task) else (s2, none)

/-- the copy loop of `Write`; `batch` counts processBlock calls of this API call -/
def writeLoop (c : Cfg) (flt : Fault) : Nat → List Nat → Nat → Nat → St → St × Nat × Option Err
  | 0, _, done, _, s => (s, done, none)
  | fuel + 1, rest, done, batch, s =>
    if rest.length = 0 then (s, done, none)
    else
      let bufOff := s.available % c.B
      let len := min rest.length (c.B - bufOff)
      let bufID := s.available / c.B
      let s1 := { s with mem := splice s.mem s.available (rest.take len), available := s.available + len }
      if bufOff + len ≥ c.B then
        if bufID + 1 < c.J then writeLoop c flt fuel (rest.drop len) (done + len) batch s1
        else
          let r := processBlock c s1 (flt = .task batch)
          match r.2 with
          | some e => (r.1, done + len, some e)
          | none => writeLoop c flt fuel (rest.drop len) (done + len) (batch + 1) r.1
      else writeLoop c flt fuel (rest.drop len) (done + len) batch s1

/-- `Write(block)`: returns (state, n, error) -/
def write (c : Cfg) (s : St) (block : List Nat) (flt : Fault) : St × Nat × Option Err :=
  if s.closed ∨ s.closing then (s, 0, some .closed)
  else if s.failed then (s, 0, some .failedState)
  else writeLoop c flt (block.length + 1) block 0 0 s

/-- `Close()` -/
def close (c : Cfg) (s : St) (flt : Fault) : St × Option Err :=
  if s.closed then (s, none)
  else
    -- phase 1: flush buffered blocks and write the end marker (once)
    let p1 : St × Option Err :=
      if s.finalized then (s, none)
      else if s.closing then (s, some .closed)      -- unreachable sequentially (kept as in the code)
      else
        let r := processBlock c { s with closing := true } (flt = .task 0)
        match r.2 with
        | some e => ({ r.1 with closing := false }, some e)
        | none =>
          if flt = .endMarker then ({ r.1 with closing := false, failed := true }, some .io)
          else ({ r.1 with finalized := true, endOut := true, bits := r.1.bits + 8 }, none)
    match p1.2 with
    | some e => (p1.1, some e)
    | none =>
      let s1 := p1.1
      -- phase 2: obs.Close() (retryable), closer, closed
      if ¬ s1.obsClosed ∧ flt = .finalFlush then (s1, some .io)
      else
        let s2 := { s1 with obsClosed := true }
        if ¬ s2.closerClosed ∧ flt = .closer then (s2, some .io)
        else ({ s2 with closerClosed := true, closed := true }, none)

/-- `GetWritten()` = ⌈bits / 8⌉ -/
def getWritten (s : St) : Nat := (s.bits + 7) / 8

inductive Op
  | write (data : List Nat) (flt : Fault)
  | close (flt : Fault)
  | getWritten
deriving Repr

inductive Out
  | wrote (n : Nat) (e : Option Err)
  | closedR (e : Option Err)
  | written (n : Nat)
deriving DecidableEq, Repr

def step (c : Cfg) (s : St) : Op → St × Out
  | .write d f => let r := write c s d f; (r.1, .wrote r.2.1 r.2.2)
  | .close f => let r := close c s f; (r.1, .closedR r.2)
  | .getWritten => (s, .written (getWritten s))

def run (c : Cfg) : St → List Op → St × List Out
  | s, [] => (s, [])
  | s, op :: ops => let r := step c s op; let q := run c r.1 ops; (q.1, r.2 :: q.2)

/-- a healthy program: any sequence of writes (any lengths incl. 0), then Close -/
def healthyProgram (parts : List (List Nat)) : List Op :=
  parts.map (fun d => Op.write d Fault.none) ++ [Op.close Fault.none]

/-- the bytes accepted by a program = what each Write reported as written -/
def accepted : List Op → List Out → List Nat
  | .write d _ :: ops, .wrote n _ :: outs => d.take n ++ accepted ops outs
  | _ :: ops, _ :: outs => accepted ops outs
  | _, _ => []

end Kanzi.Writer
