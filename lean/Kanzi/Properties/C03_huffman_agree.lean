/-
C03 / C12 (Huffman) — the TOTAL decoder model (`Kanzi/Model/HufDec.lean`: `HuffmanDecoder.Read` as the
Go code runs it on any input, ONE shared `this.buffer` with its real length and whatever earlier
chunks / earlier `Read`s left in it) agrees with the round-trip model of C12
(`Kanzi/Model/Huffman.lean`: private zero-padded region per sub-stream) on ENCODER OUTPUT: the round
trip `C12_huf_block` carries over to `HufDec.read`, for every decoder object the total model allows.
Property theorems only; proofs in `Kanzi/Proofs/HufDecAgree.lean`.  Nothing here is `_partial`.

Hypotheses (all explicit):
  * bytes of the block are `< 256`;
  * the decoder parameters come from the constructors (`mkParams`) with `bsVersion ≥ 6`
    (`decodeV6`); the encoder uses the same chunk size (`p.chunkSize`, 1024..16384);
  * the decoder object: `this.buffer` holds bytes (`∀ b ∈ s.buf.toList, b < 256`) — ANY length
    (shorter than `2*chunkSize`: reallocated by `Read`; longer: kept), ANY content.  This is the only
    state the total model reads before writing; the property is preserved by every successful
    `Read` on encoder output (last conjunct), so it holds along any sequence of such `Read`s from
    `fresh`.

Why stale content is harmless: the register machine of sub-stream `j`, started at `idx = j*stride`
in the shared buffer, is the plain table walk on the bits of the buffer from `8*j*stride`
(`C03_huf_substream_walk`, any content), these bits BEGIN with the sub-stream the encoder wrote
(the four `ReadArray` do not overlap because every sub-stream fits its region, the four `clear`
only touch bytes behind a payload), and a prefix-free walk over `count/4` codes never looks at what
follows them.
-/
import Kanzi.Model.HufDec
import Kanzi.Proofs.HufDecAgree
import Kanzi.Properties.C12_huffman

namespace Kanzi.C03
open Kanzi.Bits Kanzi.EntSmall Kanzi.HufDec

/-- **C03_huf_substream_walk** (decoder to decoder, ANY buffer content).  For every table whose
entries carry a length in 1..12 and every buffer of bytes, the register machine of `decodeChunkV6`
for the sub-stream that starts at byte `off` of the SHARED buffer (`readState` at absolute indices,
the `uint8` counters) decodes exactly what the plain walk `specDec` decodes from the bits of the
buffer from bit `8*off` on — payload, cleared bytes, the next region, stale bytes alike.
(`C12_huf_decoder_machine` is the case `off = 0` on a private region.) -/
theorem C03_huf_substream_walk (tbl : List Nat)
    (ht : ∀ w, w < 4096 → 1 ≤ tbl.getD w 0 % 256 ∧ tbl.getD w 0 % 256 ≤ 12)
    (buf : Array Nat) (hb : ∀ b ∈ buf.toList, b < 256) (off n : Nat) :
    Kanzi.Huffman.decFragLoop tbl.toArray buf n n ⟨0, off, 0⟩
      = Kanzi.Huffman.specDec tbl n ((ofBytes buf.toList).drop (8 * off)) :=
  Kanzi.Huffman.decFragLoop_spec tbl ht buf hb n n ⟨0, off, 0⟩ (8 * off) (by omega)
    ⟨rfl, Nat.zero_le _, by simp [Kanzi.Huffman.peekAt_zero]⟩

/-- **C03_huf_chunk_agrees** (one round of the chunk loop of `decodeV6`, total model).  For every
chunk `c` of 1..`chunkSize` bytes the encoder succeeds (`encodeOneChunk`, the same bits as in
`C12_huf_chunk`), and the total model, at ANY position `start` of a block of `total` bytes with
`min(chunkSize, total - start) = c.length`, with ANY buffer of bytes of at least `2*chunkSize` bytes
(any content) and any output array: goes on to the next chunk (`.next`: no error, no end of input,
no overrun, no fault), has consumed exactly the chunk, has written `c` at `out[start ..]` and nothing
else, and leaves a buffer of bytes of the same length. -/
theorem C03_huf_chunk_agrees (p : Params) (hcs : 1024 ≤ p.chunkSize ∧ p.chunkSize ≤ 16384)
    (c : List Nat) (hb : ∀ b ∈ c, b < 256) (hlen : 1 ≤ c.length ∧ c.length ≤ p.chunkSize) :
    ∃ e br, Kanzi.Huffman.encodeOneChunk c = some (e, br) ∧
      ∀ (rest : Bits) (start total : Nat) (out buf : Array Nat),
        min p.chunkSize (total - start) = c.length → (∀ b ∈ buf.toList, b < 256) → 2 * p.chunkSize ≤ buf.size →
        ∃ out' buf', stepV6 p start total out buf (e ++ rest) = .next (start + c.length) out' buf' rest ∧
          (∀ b ∈ buf'.toList, b < 256) ∧ buf'.size = buf.size ∧ out'.size = out.size ∧
          ∀ x, out'.getD x 0
            = if start ≤ x ∧ x < start + c.length ∧ x < out.size then c.getD (x - start) 0 else out.getD x 0 := by
  obtain ⟨e, br, he, hd⟩ := stepV6_enc p hcs c hb hlen
  refine ⟨e, br, he, fun rest start total out buf hmin hB hsz => ?_⟩
  obtain ⟨o, b, h1, h2, h3, h4, h5⟩ := hd rest start total out buf hmin (Bytes_of_mem buf hB) hsz
  exact ⟨o, b, h1, Bytes_mem b h2, h3, h4, h5⟩

/-- **C03_huf_agrees** (the round trip of C12 for the total decoder model).  For EVERY block of bytes
(hypotheses of `C12_huf_block`), decoder parameters the constructors yield with `bsVersion ≥ 6`, and
ANY decoder object whose `this.buffer` holds bytes (any length, any content: fresh, left by
earlier `Read`s of valid or of forged streams): `Write` with the same chunk size succeeds, and
`Read` of `blk.length` bytes on the written bits followed by ANY continuation `rest`
returns `(blk.length, nil)`, the bytes of the block, and leaves exactly `rest` in the bitstream;
the buffer it leaves holds bytes again. -/
theorem C03_huf_agrees (ca cv : Option Nat) (p : Params) (hp : mkParams ca cv = some p) (hv : 6 ≤ p.bsVersion)
    (s : St) (hs : ∀ b ∈ s.buf.toList, b < 256) (blk : List Nat) (hb : ∀ b ∈ blk, b < 256) :
    ∃ e, Kanzi.Huffman.encode blk p.chunkSize = some e ∧
      ∀ rest : Bits,
        (read p s (e ++ rest) blk.length).cls = .ret blk.length false ∧
        (read p s (e ++ rest) blk.length).out = blk ∧
        (read p s (e ++ rest) blk.length).rest = rest ∧
        (∀ b ∈ (read p s (e ++ rest) blk.length).st.buf.toList, b < 256) := by
  obtain ⟨h1, h2, _⟩ := mkParams_facts ca cv p hp
  obtain ⟨e, he, hd⟩ := read_enc p ⟨h1, h2⟩ (by omega) s (Bytes_of_mem _ hs) blk hb
  refine ⟨e, he, fun rest => ?_⟩
  obtain ⟨st', hr, hB⟩ := hd rest
  rw [hr]
  exact ⟨rfl, rfl, rfl, Bytes_mem _ hB⟩

/-- **C03_huf_agrees_decode.**  On encoder output the two decoder models return the same thing: the
total model (`HufDec.read`, shared buffer, any state) and the round-trip model of C12
(`Huffman.decode`, private regions, any `junk`). -/
theorem C03_huf_agrees_decode (ca cv : Option Nat) (p : Params) (hp : mkParams ca cv = some p) (hv : 6 ≤ p.bsVersion)
    (s : St) (hs : ∀ b ∈ s.buf.toList, b < 256) (blk : List Nat) (hb : ∀ b ∈ blk, b < 256)
    (junk : List Nat) (hj : ∀ b ∈ junk, b < 256) (e : Bits) (he : Kanzi.Huffman.encode blk p.chunkSize = some e)
    (rest : Bits) :
    (read p s (e ++ rest) blk.length).cls = .ret blk.length false ∧
    Kanzi.Huffman.decode (e ++ rest) blk.length p.chunkSize junk
      = some ((read p s (e ++ rest) blk.length).out, (read p s (e ++ rest) blk.length).rest) := by
  obtain ⟨h1, h2, _⟩ := mkParams_facts ca cv p hp
  obtain ⟨e1, he1, hd1⟩ := C03_huf_agrees ca cv p hp hv s hs blk hb
  obtain ⟨e2, he2, hd2⟩ := Kanzi.C12.C12_huf_block blk hb p.chunkSize
    (by simp only [Kanzi.Huffman.ctorOk, Bool.and_eq_true, decide_eq_true_eq]; exact ⟨h1, h2⟩) junk hj
  rw [he] at he1 he2
  simp only [Option.some.injEq] at he1 he2
  subst he1
  subst he2
  obtain ⟨r1, r2, r3, _⟩ := hd1 rest
  rw [r2, r3]
  exact ⟨r1, hd2 rest⟩

/-- two `Read`s on the same decoder object (the second one finds what the first one left in the
buffer): both blocks come back -/
theorem C03_huf_agrees_twice (ca cv : Option Nat) (p : Params) (hp : mkParams ca cv = some p) (hv : 6 ≤ p.bsVersion)
    (s : St) (hs : ∀ b ∈ s.buf.toList, b < 256) (b1 b2 : List Nat) (hb1 : ∀ b ∈ b1, b < 256) (hb2 : ∀ b ∈ b2, b < 256) :
    ∃ e1 e2, Kanzi.Huffman.encode b1 p.chunkSize = some e1 ∧ Kanzi.Huffman.encode b2 p.chunkSize = some e2 ∧
      ∀ rest : Bits,
        (read p s (e1 ++ (e2 ++ rest)) b1.length).out = b1 ∧
        (read p (read p s (e1 ++ (e2 ++ rest)) b1.length).st (read p s (e1 ++ (e2 ++ rest)) b1.length).rest b2.length).cls
          = .ret b2.length false ∧
        (read p (read p s (e1 ++ (e2 ++ rest)) b1.length).st (read p s (e1 ++ (e2 ++ rest)) b1.length).rest b2.length).out = b2 ∧
        (read p (read p s (e1 ++ (e2 ++ rest)) b1.length).st (read p s (e1 ++ (e2 ++ rest)) b1.length).rest b2.length).rest = rest := by
  obtain ⟨e1, he1, hd1⟩ := C03_huf_agrees ca cv p hp hv s hs b1 hb1
  obtain ⟨e2, he2, _⟩ := C03_huf_agrees ca cv p hp hv s hs b2 hb2
  refine ⟨e1, e2, he1, he2, fun rest => ?_⟩
  obtain ⟨_, r2, r3, r4⟩ := hd1 (e2 ++ rest)
  obtain ⟨e2', he2', hd2⟩ := C03_huf_agrees ca cv p hp hv _ r4 b2 hb2
  rw [he2] at he2'
  simp only [Option.some.injEq] at he2'
  subst he2'
  rw [r3]
  obtain ⟨q1, q2, q3, _⟩ := hd2 rest
  exact ⟨r2, q1, q2, q3⟩

/-- the hypotheses are satisfiable: the default constructor, a new decoder -/
example : mkParams none none = some ⟨16384, 6⟩ ∧ (∀ b ∈ fresh.buf.toList, b < 256) :=
  ⟨rfl, fun _ h => by cases h⟩

end Kanzi.C03

