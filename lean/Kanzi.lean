import Kanzi.Model.Normalize
import Kanzi.Model.Protocol
import Kanzi.Spec.Bits
import Kanzi.Properties.C16
import Kanzi.Properties.C07
import Kanzi.Properties.C03_facts
import Kanzi.Properties.C18_facts
