package main

// Fact table `Levels` (property C19, level table of the command-line tool).
//
// v2/app is `package main` and cannot be imported, so everything is extracted SYNTACTICALLY
// (go/parser + go/ast on the non-test files of v2/app, default build tags; no regex on raw text):
//
//   levels          the `switch level` of `func getTransformAndCodec(level int) string`: every
//                   `case <int,...>: return "<TRANSFORM>&<ENTROPY>"`  ->  (level, transform chain, entropy)
//   levelDefault    the `default:` answer of that switch, split the same way
//   levelBounds     every `if` condition (in any function of the package) with the disjuncts
//                   `level < A` and `level > B`: (function, A, B) = the accepted range A..B
//   defaultLevel    the constant argument of the calls `getTransformAndCodec(<const>)` (level used without -l)
//   blockSizeCases  the `switch level` in NewBlockCompressor whose clauses assign `<x>.blockSize`
//   blockSizeDefault, minBlockSize, maxBlockSize   (package constants evaluated syntactically)
//
// Splitting mirrors the callers (`strings.Split(s, "&")`, tokens[0] / tokens[1]): the transform is the
// text before the first '&', the entropy the text after it (a second '&' stays in the entropy name and
// makes it invalid; no '&' gives the entropy name "").
// Output: lean/Kanzi/Generated/Levels.lean; theorems: lean/Kanzi/Properties/C19_levels.lean.

import (
	"fmt"
	"go/ast"
	"go/parser"
	"go/token"
	"sort"
	"strconv"
	"strings"
)

func init() { registerFacts("Levels", genLevels) }

type levelRow struct {
	level     int64
	transform string
	entropy   string
}

type levelBound struct {
	fn     string
	lo, hi int64
}

type levelFacts struct {
	rows         []levelRow
	defTransform string
	defEntropy   string
	hasDefault   bool
	bounds       []levelBound
	defLevel     int64
	bsCases      [][2]int64 // (level, block size)
	bsDefault    int64
	bsMin, bsMax int64
}

func (f *levelFacts) lookup(level int64) (levelRow, bool) {
	for _, r := range f.rows {
		if r.level == level {
			return r, true
		}
	}
	return levelRow{}, false
}

func (f *levelFacts) blockSize(level int64) int64 {
	for _, c := range f.bsCases {
		if c[0] == level {
			return c[1]
		}
	}
	return f.bsDefault
}

// ---------------------------------------------------------------------------------------------
// package main of v2/app: parsed files, package-level constants, syntactic constant evaluation

type levelsPkg struct {
	fset   *token.FileSet
	files  []*ast.File
	names  []string
	consts map[string]ast.Expr
	funcs  map[string]*ast.FuncDecl // functions without receiver
	order  []string                 // declaration names (with receiver prefix) in file / source order
	decls  map[string]*ast.FuncDecl
}

func loadLevelsPkg(repo string) (*levelsPkg, error) {
	src, err := loadSources(repo, []string{"app"})
	if err != nil {
		return nil, err
	}
	sort.Slice(src, func(i, j int) bool { return src[i].rel < src[j].rel })
	return parseLevelsPkg(src)
}

func parseLevelsPkg(src []srcFile) (*levelsPkg, error) {
	p := &levelsPkg{fset: token.NewFileSet(), consts: map[string]ast.Expr{}, funcs: map[string]*ast.FuncDecl{},
		decls: map[string]*ast.FuncDecl{}}
	for _, s := range src {
		if strings.Count(s.rel, "/") != 1 { // only the package directory itself
			continue
		}
		f, err := parser.ParseFile(p.fset, s.rel, s.src, parser.ParseComments|parser.SkipObjectResolution)
		if err != nil {
			return nil, fmt.Errorf("parse %s: %v", s.rel, err)
		}
		if !buildOK(f) || f.Name.Name != "main" {
			continue
		}
		p.files = append(p.files, f)
		p.names = append(p.names, s.rel)
		for _, d := range f.Decls {
			switch x := d.(type) {
			case *ast.GenDecl:
				if x.Tok != token.CONST {
					continue
				}
				for _, sp := range x.Specs {
					vs := sp.(*ast.ValueSpec)
					for i, n := range vs.Names {
						if i < len(vs.Values) {
							p.consts[n.Name] = vs.Values[i]
						}
					}
				}
			case *ast.FuncDecl:
				if x.Body == nil {
					continue
				}
				name := declName(x)
				if _, dup := p.decls[name]; !dup {
					p.order = append(p.order, name)
					p.decls[name] = x
				}
				if x.Recv == nil {
					p.funcs[x.Name.Name] = x
				}
			}
		}
	}
	if len(p.files) == 0 {
		return nil, fmt.Errorf("no package main file found in v2/app")
	}
	return p, nil
}

// constInt evaluates an integer constant expression: literals, package constants, + - * / % << >> | &,
// unary + -, parentheses and conversions to an integer type.
func (p *levelsPkg) constInt(e ast.Expr, depth int) (int64, error) {
	if depth > 32 {
		return 0, fmt.Errorf("constant expression too deep")
	}
	switch x := e.(type) {
	case *ast.BasicLit:
		if x.Kind != token.INT && x.Kind != token.CHAR {
			return 0, fmt.Errorf("%s: not an integer literal: %s", p.fset.Position(x.Pos()), x.Value)
		}
		if x.Kind == token.CHAR {
			r, _, _, err := strconv.UnquoteChar(strings.Trim(x.Value, "'"), '\'')
			return int64(r), err
		}
		v, err := strconv.ParseInt(strings.ReplaceAll(x.Value, "_", ""), 0, 64)
		return v, err
	case *ast.ParenExpr:
		return p.constInt(x.X, depth+1)
	case *ast.Ident:
		v, ok := p.consts[x.Name]
		if !ok {
			return 0, fmt.Errorf("%s: %s is not a package-level constant with an explicit value", p.fset.Position(x.Pos()), x.Name)
		}
		return p.constInt(v, depth+1)
	case *ast.UnaryExpr:
		v, err := p.constInt(x.X, depth+1)
		if err != nil {
			return 0, err
		}
		switch x.Op {
		case token.SUB:
			return -v, nil
		case token.ADD:
			return v, nil
		}
		return 0, fmt.Errorf("%s: unsupported unary operator %s", p.fset.Position(x.Pos()), x.Op)
	case *ast.CallExpr:
		if id, ok := x.Fun.(*ast.Ident); ok && len(x.Args) == 1 {
			switch id.Name {
			case "int", "int8", "int16", "int32", "int64", "uint", "uint8", "uint16", "uint32", "uint64", "uintptr":
				return p.constInt(x.Args[0], depth+1)
			}
		}
		return 0, fmt.Errorf("%s: unsupported call in a constant expression", p.fset.Position(x.Pos()))
	case *ast.BinaryExpr:
		a, err := p.constInt(x.X, depth+1)
		if err != nil {
			return 0, err
		}
		b, err := p.constInt(x.Y, depth+1)
		if err != nil {
			return 0, err
		}
		switch x.Op {
		case token.ADD:
			return a + b, nil
		case token.SUB:
			return a - b, nil
		case token.MUL:
			return a * b, nil
		case token.QUO:
			if b == 0 {
				return 0, fmt.Errorf("division by zero")
			}
			return a / b, nil
		case token.REM:
			if b == 0 {
				return 0, fmt.Errorf("division by zero")
			}
			return a % b, nil
		case token.SHL:
			if b < 0 || b > 62 {
				return 0, fmt.Errorf("shift out of range")
			}
			return a << uint(b), nil
		case token.SHR:
			if b < 0 || b > 63 {
				return 0, fmt.Errorf("shift out of range")
			}
			return a >> uint(b), nil
		case token.OR:
			return a | b, nil
		case token.AND:
			return a & b, nil
		}
		return 0, fmt.Errorf("%s: unsupported operator %s", p.fset.Position(x.Pos()), x.Op)
	}
	return 0, fmt.Errorf("%s: unsupported constant expression", p.fset.Position(e.Pos()))
}

// ---------------------------------------------------------------------------------------------
// extraction

func splitLevelString(s string) (string, string) {
	if i := strings.IndexByte(s, '&'); i >= 0 {
		return s[:i], s[i+1:]
	}
	return s, ""
}

// the single `return "<literal>"` of a case clause
func clauseString(p *levelsPkg, cc *ast.CaseClause) (string, error) {
	if len(cc.Body) != 1 {
		return "", fmt.Errorf("%s: case body is not a single return statement", p.fset.Position(cc.Pos()))
	}
	ret, ok := cc.Body[0].(*ast.ReturnStmt)
	if !ok || len(ret.Results) != 1 {
		return "", fmt.Errorf("%s: case body is not `return <string literal>`", p.fset.Position(cc.Pos()))
	}
	lit, ok := unparen(ret.Results[0]).(*ast.BasicLit)
	if !ok || lit.Kind != token.STRING {
		return "", fmt.Errorf("%s: the returned value is not a string literal", p.fset.Position(ret.Pos()))
	}
	s, err := strconv.Unquote(lit.Value)
	if err != nil {
		return "", fmt.Errorf("%s: %v", p.fset.Position(lit.Pos()), err)
	}
	return s, nil
}

func extractLevelTable(p *levelsPkg, f *levelFacts) error {
	fn, ok := p.funcs["getTransformAndCodec"]
	if !ok {
		return fmt.Errorf("v2/app: function getTransformAndCodec not found")
	}
	if fn.Type.Params == nil || len(fn.Type.Params.List) != 1 || len(fn.Type.Params.List[0].Names) != 1 {
		return fmt.Errorf("getTransformAndCodec: expected exactly one parameter")
	}
	param := fn.Type.Params.List[0].Names[0].Name
	if len(fn.Body.List) != 1 {
		return fmt.Errorf("getTransformAndCodec: the body is not a single switch statement (%d statements)", len(fn.Body.List))
	}
	sw, ok := fn.Body.List[0].(*ast.SwitchStmt)
	if !ok || sw.Init != nil {
		return fmt.Errorf("getTransformAndCodec: the body is not a plain switch statement")
	}
	if id, ok := unparen(sw.Tag).(*ast.Ident); sw.Tag == nil || !ok || id.Name != param {
		return fmt.Errorf("getTransformAndCodec: the switch is not over the parameter %s", param)
	}
	seen := map[int64]bool{}
	for _, st := range sw.Body.List {
		cc := st.(*ast.CaseClause)
		s, err := clauseString(p, cc)
		if err != nil {
			return fmt.Errorf("getTransformAndCodec: %v", err)
		}
		t, e := splitLevelString(s)
		if cc.List == nil {
			f.defTransform, f.defEntropy, f.hasDefault = t, e, true
			continue
		}
		for _, le := range cc.List {
			v, err := p.constInt(le, 0)
			if err != nil {
				return fmt.Errorf("getTransformAndCodec: case label: %v", err)
			}
			if v < 0 {
				return fmt.Errorf("getTransformAndCodec: negative case label %d", v)
			}
			if seen[v] {
				return fmt.Errorf("getTransformAndCodec: duplicate case label %d", v)
			}
			seen[v] = true
			f.rows = append(f.rows, levelRow{v, t, e})
		}
	}
	if len(f.rows) == 0 {
		return fmt.Errorf("getTransformAndCodec: no case found")
	}
	if !f.hasDefault {
		return fmt.Errorf("getTransformAndCodec: no default clause found")
	}
	sort.SliceStable(f.rows, func(i, j int) bool { return f.rows[i].level < f.rows[j].level })
	return nil
}

func flattenOr(e ast.Expr, out []ast.Expr) []ast.Expr {
	e = unparen(e)
	if b, ok := e.(*ast.BinaryExpr); ok && b.Op == token.LOR {
		return flattenOr(b.Y, flattenOr(b.X, out))
	}
	return append(out, e)
}

// `level < A || level > B` (possibly among other disjuncts) in an if condition
func extractLevelBounds(p *levelsPkg, f *levelFacts) error {
	for _, name := range p.order {
		fd := p.decls[name]
		var ferr error
		ast.Inspect(fd.Body, func(n ast.Node) bool {
			is, ok := n.(*ast.IfStmt)
			if !ok || ferr != nil {
				return ferr == nil
			}
			var lo, hi *int64
			for _, d := range flattenOr(is.Cond, nil) {
				b, ok := d.(*ast.BinaryExpr)
				if !ok || (b.Op != token.LSS && b.Op != token.GTR) {
					continue
				}
				id, ok := unparen(b.X).(*ast.Ident)
				if !ok || id.Name != "level" {
					continue
				}
				v, err := p.constInt(b.Y, 0)
				if err != nil {
					ferr = fmt.Errorf("%s: bound of a level range check: %v", name, err)
					return false
				}
				if b.Op == token.LSS {
					lo = &v
				} else {
					hi = &v
				}
			}
			if lo != nil && hi != nil {
				f.bounds = append(f.bounds, levelBound{name, *lo, *hi})
			}
			return true
		})
		if ferr != nil {
			return ferr
		}
	}
	if len(f.bounds) == 0 {
		return fmt.Errorf("v2/app: no range check `level < A || level > B` found")
	}
	for _, b := range f.bounds {
		if b.lo < 0 || b.hi < b.lo {
			return fmt.Errorf("%s: level range check %d..%d is not a non-empty range of naturals", b.fn, b.lo, b.hi)
		}
	}
	return nil
}

// calls of getTransformAndCodec with a constant argument: the level used when no -l is given
func extractDefaultLevel(p *levelsPkg, f *levelFacts) error {
	vals := map[int64]bool{}
	var ferr error
	for _, name := range p.order {
		ast.Inspect(p.decls[name].Body, func(n ast.Node) bool {
			c, ok := n.(*ast.CallExpr)
			if !ok || len(c.Args) != 1 {
				return true
			}
			if id, ok := c.Fun.(*ast.Ident); !ok || id.Name != "getTransformAndCodec" {
				return true
			}
			if id, ok := unparen(c.Args[0]).(*ast.Ident); ok {
				if _, isConst := p.consts[id.Name]; !isConst {
					return true // a variable (the level given on the command line)
				}
			}
			v, err := p.constInt(c.Args[0], 0)
			if err != nil {
				ferr = fmt.Errorf("%s: argument of getTransformAndCodec: %v", name, err)
				return false
			}
			vals[v] = true
			return true
		})
		if ferr != nil {
			return ferr
		}
	}
	if len(vals) != 1 {
		return fmt.Errorf("v2/app: expected exactly one constant level passed to getTransformAndCodec, found %d", len(vals))
	}
	for v := range vals {
		if v < 0 {
			return fmt.Errorf("v2/app: negative default level %d", v)
		}
		f.defLevel = v
	}
	return nil
}

// the `switch level { case 6: this.blockSize = ... default: ... }` of NewBlockCompressor
func extractBlockSizes(p *levelsPkg, f *levelFacts) error {
	fn, ok := p.funcs["NewBlockCompressor"]
	if !ok {
		return fmt.Errorf("v2/app: function NewBlockCompressor not found")
	}
	isBlockSizeAssign := func(st ast.Stmt) (ast.Expr, bool) {
		as, ok := st.(*ast.AssignStmt)
		if !ok || as.Tok != token.ASSIGN || len(as.Lhs) != 1 || len(as.Rhs) != 1 {
			return nil, false
		}
		sel, ok := as.Lhs[0].(*ast.SelectorExpr)
		if !ok || sel.Sel.Name != "blockSize" {
			return nil, false
		}
		return as.Rhs[0], true
	}
	var found []*ast.SwitchStmt
	ast.Inspect(fn.Body, func(n ast.Node) bool {
		sw, ok := n.(*ast.SwitchStmt)
		if !ok || sw.Tag == nil {
			return true
		}
		if id, ok := unparen(sw.Tag).(*ast.Ident); !ok || id.Name != "level" {
			return true
		}
		for _, st := range sw.Body.List {
			cc := st.(*ast.CaseClause)
			if len(cc.Body) == 1 {
				if _, ok := isBlockSizeAssign(cc.Body[0]); ok {
					found = append(found, sw)
					return true
				}
			}
		}
		return true
	})
	if len(found) != 1 {
		return fmt.Errorf("NewBlockCompressor: expected exactly one `switch level` assigning blockSize, found %d", len(found))
	}
	hasDef := false
	seen := map[int64]bool{}
	for _, st := range found[0].Body.List {
		cc := st.(*ast.CaseClause)
		if len(cc.Body) != 1 {
			return fmt.Errorf("%s: block size clause is not a single assignment", p.fset.Position(cc.Pos()))
		}
		rhs, ok := isBlockSizeAssign(cc.Body[0])
		if !ok {
			return fmt.Errorf("%s: block size clause is not an assignment to blockSize", p.fset.Position(cc.Pos()))
		}
		v, err := p.constInt(rhs, 0)
		if err != nil {
			return fmt.Errorf("NewBlockCompressor: block size: %v", err)
		}
		if v < 0 {
			return fmt.Errorf("NewBlockCompressor: negative block size %d", v)
		}
		if cc.List == nil {
			f.bsDefault, hasDef = v, true
			continue
		}
		for _, le := range cc.List {
			l, err := p.constInt(le, 0)
			if err != nil {
				return fmt.Errorf("NewBlockCompressor: block size case label: %v", err)
			}
			if l < 0 || seen[l] {
				return fmt.Errorf("NewBlockCompressor: bad block size case label %d", l)
			}
			seen[l] = true
			f.bsCases = append(f.bsCases, [2]int64{l, v})
		}
	}
	if !hasDef {
		return fmt.Errorf("NewBlockCompressor: the block size switch has no default clause")
	}
	sort.SliceStable(f.bsCases, func(i, j int) bool { return f.bsCases[i][0] < f.bsCases[j][0] })
	var err error
	for _, c := range []struct {
		name string
		dst  *int64
	}{{"_COMP_MIN_BLOCK_SIZE", &f.bsMin}, {"_COMP_MAX_BLOCK_SIZE", &f.bsMax}} {
		e, ok := p.consts[c.name]
		if !ok {
			return fmt.Errorf("v2/app: constant %s not found", c.name)
		}
		if *c.dst, err = p.constInt(e, 0); err != nil {
			return err
		}
		if *c.dst < 0 {
			return fmt.Errorf("v2/app: constant %s is negative", c.name)
		}
	}
	return nil
}

func extractLevelFacts(p *levelsPkg) (*levelFacts, error) {
	f := &levelFacts{}
	if err := extractLevelTable(p, f); err != nil {
		return nil, err
	}
	if err := extractLevelBounds(p, f); err != nil {
		return nil, err
	}
	if err := extractDefaultLevel(p, f); err != nil {
		return nil, err
	}
	if err := extractBlockSizes(p, f); err != nil {
		return nil, err
	}
	return f, nil
}

func levelFactsOf(repo string) (*levelFacts, error) {
	p, err := loadLevelsPkg(repo)
	if err != nil {
		return nil, err
	}
	return extractLevelFacts(p)
}

// ---------------------------------------------------------------------------------------------
// Lean output

func renderLevels(f *levelFacts) string {
	var b strings.Builder
	b.WriteString(`/-
GENERATED by ` + "`kv facts -which Levels`" + ` (harness/cmd/kv/levels_facts.go) from the Go SYNTAX (go/parser, go/ast) of the
non-test files of v2/app (package main, default build tags).  DO NOT EDIT: regenerated on every check.

levels            getTransformAndCodec: ` + "`case <level>: return \"<TRANSFORM>&<ENTROPY>\"`" + `, sorted by level
                  (transform = text before the first '&', entropy = text after it, as the callers split it)
levelDefault      the ` + "`default:`" + ` answer of that switch
levelBounds       (function, A, B) for every ` + "`if … level < A || level > B …`" + ` of the package: accepted range A..B
defaultLevel      the constant level of the calls ` + "`getTransformAndCodec(<const>)`" + `: the level used when -l is not given
blockSizeCases    NewBlockCompressor: ` + "`switch level { case <level>: this.blockSize = <const expr> }`" + ` (value in bytes)
blockSizeDefault  the ` + "`default:`" + ` clause of that switch
minBlockSize, maxBlockSize   _COMP_MIN_BLOCK_SIZE, _COMP_MAX_BLOCK_SIZE
-/
namespace Kanzi.Generated.Levels

`)
	var rows []string
	for _, r := range f.rows {
		rows = append(rows, fmt.Sprintf("(%d, %s, %s)", r.level, namesLeanStr(r.transform), namesLeanStr(r.entropy)))
	}
	leanList(&b, "levels", "(Nat × String × String)", rows)
	fmt.Fprintf(&b, "def levelDefault : String × String := (%s, %s)\n\n", namesLeanStr(f.defTransform), namesLeanStr(f.defEntropy))
	rows = rows[:0]
	for _, x := range f.bounds {
		rows = append(rows, fmt.Sprintf("(%s, %d, %d)", namesLeanStr(x.fn), x.lo, x.hi))
	}
	leanList(&b, "levelBounds", "(String × Nat × Nat)", rows)
	fmt.Fprintf(&b, "def defaultLevel : Nat := %d\n\n", f.defLevel)
	rows = rows[:0]
	for _, c := range f.bsCases {
		rows = append(rows, fmt.Sprintf("(%d, %d)", c[0], c[1]))
	}
	leanList(&b, "blockSizeCases", "(Nat × Nat)", rows)
	fmt.Fprintf(&b, "def blockSizeDefault : Nat := %d\n\n", f.bsDefault)
	fmt.Fprintf(&b, "def minBlockSize : Nat := %d\n\n", f.bsMin)
	fmt.Fprintf(&b, "def maxBlockSize : Nat := %d\n\n", f.bsMax)
	b.WriteString("end Kanzi.Generated.Levels\n")
	return b.String()
}

func genLevels(repo string) (string, error) {
	f, err := levelFactsOf(repo)
	if err != nil {
		return "", err
	}
	return renderLevels(f), nil
}

// ---------------------------------------------------------------------------------------------
// self test (kv facts -which Levels -selftest): the extractor on a synthetic package

const levelsSelftestSrc = `package main

const (
	_BASE = 4 * 1024
	_MIN  = 1 << 10
	_COMP_MIN_BLOCK_SIZE = _MIN
	_COMP_MAX_BLOCK_SIZE = (1024) * 1024 * uint(1024)
)

type C struct{ blockSize uint }

func NewBlockCompressor(m map[string]any) (*C, error) {
	this := &C{}
	level := -1
	if lvl, ok := m["level"]; ok {
		level = lvl.(int)
		if level < 1 || (level > 3) {
			return nil, nil
		}
	}
	_ = getTransformAndCodec(level)
	_ = getTransformAndCodec((2))
	if _, ok := m["blockSize"]; !ok {
		switch level {
		case 3:
			this.blockSize = 2 * _BASE
		default:
			this.blockSize = _BASE
		}
	}
	switch level { // not a block size switch
	case 1:
		level = 2
	}
	return this, nil
}

func getTransformAndCodec(level int) string {
	switch level {
	case 2, 3:
		return "A+B&C"
	case 1:
		return ` + "`X`" + `
	default:
		return "U&V&W"
	}
}
`

func levelsSelftest() error {
	p, err := parseLevelsPkg([]srcFile{{rel: "app/x.go", src: levelsSelftestSrc}})
	if err != nil {
		return err
	}
	f, err := extractLevelFacts(p)
	if err != nil {
		return err
	}
	got := renderLevels(f)
	for _, want := range []string{
		"def levels : List (Nat × String × String) := [\n  (1, \"X\", \"\"),\n  (2, \"A+B\", \"C\"),\n  (3, \"A+B\", \"C\")\n]",
		"def levelDefault : String × String := (\"U\", \"V&W\")",
		"def levelBounds : List (String × Nat × Nat) := [\n  (\"NewBlockCompressor\", 1, 3)\n]",
		"def defaultLevel : Nat := 2",
		"def blockSizeCases : List (Nat × Nat) := [\n  (3, 8192)\n]",
		"def blockSizeDefault : Nat := 4096",
		"def minBlockSize : Nat := 1024",
		"def maxBlockSize : Nat := 1073741824",
	} {
		if !strings.Contains(got, want) {
			return fmt.Errorf("self test: expected fragment not found:\n%s\n--- in ---\n%s", want, got)
		}
	}
	// shapes that must be refused rather than silently mis-extracted
	for _, bad := range []struct{ what, from, to string }{
		{"computed return value", "return \"A+B&C\"", "return \"A+B&\" + \"C\""},
		{"two statements in a case", "return `X`", "level++\n\t\treturn `X`"},
		{"no default", "default:\n\t\treturn \"U&V&W\"", "case 9:\n\t\treturn \"U&V&W\""},
		{"switch over something else", "func getTransformAndCodec(level int) string {\n\tswitch level {", "func getTransformAndCodec(level int) string {\n\tswitch level + 1 {"},
		{"missing range check", "level < 1 || (level > 3)", "level > 3"},
		{"two different default levels", "getTransformAndCodec(level)", "getTransformAndCodec(1)"},
	} {
		src := strings.Replace(levelsSelftestSrc, bad.from, bad.to, 1)
		if src == levelsSelftestSrc {
			return fmt.Errorf("self test: mutation %q did not apply", bad.what)
		}
		p, err := parseLevelsPkg([]srcFile{{rel: "app/x.go", src: src}})
		if err != nil {
			return fmt.Errorf("self test: mutation %q does not parse: %v", bad.what, err)
		}
		if _, err := extractLevelFacts(p); err == nil {
			return fmt.Errorf("self test: mutation %q was accepted by the extractor", bad.what)
		}
	}
	return nil
}

func init() { registerFactsSelftest("Levels", levelsSelftest) }
