/-
Proofs for the `fsd` slice, part 1: the zigzag tables (closed forms, mutual inverses), the decoder step
lemmas (one token of the encoder is undone by one iteration of the Inverse loops) and totality of
`fsdInverse` on arbitrary input.
-/
import Kanzi.Model.FSD
import Kanzi.Proofs.RLTInv

namespace Kanzi.FSD
open Kanzi.RLT (Out Res wr)

/-! ## zigzag tables -/

/-- closed form of `_FSD_ZIGZAG1` -/
def zz1f (i : Nat) : Nat := if i < 127 then 253 - 2 * i else if i < 255 then 2 * (i - 127) else 255
/-- closed form of `_FSD_ZIGZAG2` -/
def zz2f (j : Nat) : Int := if j % 2 = 0 then ((j / 2 : Nat) : Int) else - (((j + 1) / 2 : Nat) : Int)

set_option maxRecDepth 100000 in
theorem ZIGZAG1_eq : ZIGZAG1.toList = (List.range 256).map zz1f := by decide +kernel
set_option maxRecDepth 100000 in
theorem ZIGZAG2_eq : ZIGZAG2.toList = (List.range 256).map zz2f := by decide +kernel

theorem zz1_eq (i : Nat) (h : i < 256) : zz1 i = zz1f i := by
  unfold zz1
  rw [Array.getD_eq_getD_getElem?, ← Array.getElem?_toList, ZIGZAG1_eq]
  simp [h]

theorem zz2_eq (i : Nat) (h : i < 256) : zz2 i = zz2f i := by
  unfold zz2
  rw [Array.getD_eq_getD_getElem?, ← Array.getElem?_toList, ZIGZAG2_eq]
  simp [h]

theorem zz1f_lt (i : Nat) : zz1f i < 256 := by
  unfold zz1f; repeat' split
  all_goals omega

/-- `_FSD_ZIGZAG1` and `_FSD_ZIGZAG2` (read as a byte, re-biased by 127) are mutually inverse
    bijections on bytes -/
theorem zigzag_inverse (i : Nat) (h : i < 256) :
    zz1 i < 256 ∧ ((zz2 (zz1 i) + 127) % 256).toNat = i ∧
    ((zz2 i + 127) % 256).toNat < 256 ∧ zz1 ((zz2 i + 127) % 256).toNat = i := by
  have h1 : zz1f i < 256 := zz1f_lt i
  have h2 : ((zz2f i + 127) % 256).toNat < 256 := by omega
  rw [zz1_eq i h, zz2_eq _ h1, zz2_eq i h, zz1_eq _ h2]
  unfold zz1f zz2f
  refine ⟨h1, ?_, h2, ?_⟩
  · repeat' split
    all_goals omega
  · repeat' split
    all_goals omega

/-- what Forward uses: for a biased delta `d < 255` the code is a byte other than the escape token
    and `_FSD_ZIGZAG2` maps it back to `d - 127` -/
theorem zz_delta (d : Nat) (h : d < 255) : zz1 d < 255 ∧ zz2 (zz1 d) = (d : Int) - 127 := by
  have h1 : zz1f d < 256 := zz1f_lt d
  rw [zz1_eq d (by omega), zz2_eq _ h1]
  unfold zz1f zz2f
  constructor
  · repeat' split
    all_goals omega
  · repeat' split
    all_goals omega

/-! ## decoder steps -/

theorem back_eq (out : Array Nat) (dist : Nat) (h1 : 1 ≤ dist) (h2 : dist ≤ out.size) :
    back out dist = some (out[out.size - dist]'(by omega)) := by
  unfold back
  rw [if_neg (by omega)]
  exact Array.getElem?_eq_getElem (by omega)

theorem deltaToken_bytes (x p : Nat) (hx : x < 256) (hp : p < 256) : ∀ y ∈ deltaToken x p, y < 256 := by
  intro y hy
  unfold deltaToken at hy
  simp only at hy
  split at hy
  · rename_i h
    simp only [List.mem_singleton] at hy
    have := (zz_delta (127 + (x : Int) - (p : Int)).toNat (by omega)).1
    omega
  · simp only [ESCAPE_TOKEN, List.mem_cons, List.mem_nil_iff, or_false] at hy
    rcases hy with hy | hy
    · omega
    · subst hy; exact Nat.xor_lt_two_pow (n := 8) hx hp

theorem deltaToken_length (x p : Nat) : 1 ≤ (deltaToken x p).length ∧ (deltaToken x p).length ≤ 2 := by
  unfold deltaToken
  simp only
  split <;> simp

theorem xor_cancel (x p : Nat) : (x ^^^ p) ^^^ p = x := by
  rw [Nat.xor_assoc, Nat.xor_self, Nat.xor_zero]

/-- one delta token is undone by one iteration of the delta loop of Inverse -/
theorem invDelta_token (dist n x p : Nat) (rest : List Nat) (out : Array Nat)
    (hx : x < 256) (hp : p < 256) (hn : out.size < n) (hb : back out dist = some p) :
    invDelta dist n (deltaToken x p ++ rest) out = invDelta dist n rest (out.push x) := by
  unfold deltaToken
  simp only
  split
  · rename_i h
    have hd : (127 + (x : Int) - (p : Int)).toNat < 255 := by omega
    have hz := zz_delta _ hd
    simp only [List.singleton_append]
    rw [invDelta]
    simp only [hn, if_true, hb]
    rw [if_pos (by unfold ESCAPE_TOKEN; omega), hz.2]
    congr 2
    omega
  · simp only [List.cons_append, List.nil_append]
    rw [invDelta]
    simp only [hn, if_true, hb, ESCAPE_TOKEN, ne_eq, not_true_eq_false, if_false, xor_cancel]

/-- one xor byte is undone by one iteration of the xor loop of Inverse -/
theorem invXor_token (dist n x p : Nat) (rest : List Nat) (out : Array Nat)
    (hn : out.size < n) (hb : back out dist = some p) :
    invXor dist n ((x ^^^ p) :: rest) out = invXor dist n rest (out.push x) := by
  rw [invXor]
  simp only [hn, if_true, hb, xor_cancel]

/-! ## Inverse never faults -/

theorem invDelta_ne_fault (dist n : Nat) (h1 : 1 ≤ dist) (e : String) :
    ∀ (k : Nat) (l : List Nat) (out : Array Nat), l.length ≤ k → dist ≤ out.size →
      invDelta dist n l out ≠ .fault e := by
  intro k
  induction k with
  | zero =>
    intro l out hl _
    have : l = [] := List.length_eq_zero_iff.mp (by omega)
    subst this; simp [invDelta]
  | succ k ih =>
    intro l out hl h2
    cases l with
    | nil => simp [invDelta]
    | cons x rest =>
      rw [invDelta]
      split
      · rw [back_eq out dist h1 h2]
        simp only
        split
        · exact ih _ _ (by simp at hl; omega) (by simp; omega)
        · cases rest with
          | nil => simp
          | cons y rest2 => exact ih _ _ (by simp at hl; omega) (by simp; omega)
      · simp

theorem invXor_ne_fault (dist n : Nat) (h1 : 1 ≤ dist) (e : String) :
    ∀ (l : List Nat) (out : Array Nat), dist ≤ out.size → invXor dist n l out ≠ .fault e := by
  intro l
  induction l with
  | nil => intro out _; simp [invXor]
  | cons x rest ih =>
    intro out h2
    rw [invXor]
    split
    · rw [back_eq out dist h1 h2]
      exact ih _ (by simp; omega)
    · simp

/-- `FSDCodec.Inverse` never indexes out of range, whatever the input and the destination size -/
theorem fsdInverse_ne_fault (src : List Nat) (n : Nat) (e : String) : fsdInverse src n ≠ .fault e := by
  unfold fsdInverse
  split
  · simp
  · match src with
    | [] => simp
    | [_] => simp
    | mode :: dist :: rest =>
      simp only
      split
      · simp
      · split
        · simp
        · split
          · simp
          · have hsz : dist ≤ (List.take dist rest).toArray.size := by
              simp; omega
            split
            · exact invDelta_ne_fault dist n (by omega) e _ _ _ (Nat.le_refl _) hsz
            · split
              · exact invXor_ne_fault dist n (by omega) e _ _ hsz
              · simp

end Kanzi.FSD
