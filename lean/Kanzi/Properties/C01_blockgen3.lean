/-
C01 for the GENERIC block codec, third instalment: H_codec ("the decoding task run on what the encoding task wrote
returns the block") is a THEOREM for every chain of 1..8 transforms over ALL NINETEEN transform kinds of kanzi —
the twelve of `C01_blockgen2` (NONE ZRLT MTFT RANK RLT SRT PACK DNA LZ LZX LZP MM), the six added here (UTF, EXE, ROLZ,
ROLZX, BWT, BWTS: models and round-trip theorems of the slices utf, exe, rolz, bwt, bwts) and an ABSTRACT TEXT
transform — and every entropy codec among NONE, ANS0, ANS1, RANGE, HUFFMAN; FPAQ, CM, TPAQ, TPAQX are conditional
instances (the decoder's own acceptance test `fits2`).  All ten CLI levels follow as named corollaries.
Property theorems only; proofs in `Kanzi/Proofs/BlockGen3.lean` (block, any list of lawful transforms),
`BlockGen3Kinds.lean` (the laws of the kinds, `TextLaw`), `BlockGen3Stream.lean` (headers, streams, TPAQ).

Model: `Kanzi/Model/BlockGen3.lean` — the kind universe `Kind3` and its adapters; encoder, decoder and stream image
are those of `BlockGen2` (`encodeTaskGen2`: real destination sizes, the `ctx["dataType"]` hint threaded through
the stages, the bound of fix F43).  Tied to /repo by the `imagegen3` stream: for chains over the eighteen concrete
kinds the bytes produced by the REAL Writer are `streamImageGen2` byte for byte.

RESIDUAL ASSUMPTIONS, stated once:
  * TEXT.  `text : TextImpl` is a parameter; every statement about a chain in which TEXT occurs has the hypothesis
    `TextLaw text` (`C01_textLaw_spelled_out`).  The text slice discharges it (`C13_text1`, `C13_text2`, …).  TextCodec.go
    inverts correctly only into destinations STRICTLY longer than the block (codec 1: finding of the text slice) and
    shorter than 2^39 bytes (a `uint32` computed from `len(dst)`), and `TextLaw` asks for no more; the sequence always
    provides the former, and the latter follows from the Reader's bound on a frame: for a chain WITH TEXT the decoding
    task is claimed to return the block for a payload of AT MOST 2^34 BITS (`(Kind3.text ∈ ks → p.length ≤ 2^34) → …`) —
    the Reader rejects longer frames ("Invalid block size") before any task sees them.  For entropy NONE the bound is
    proved (`C01_codec_chain3_none`); for the other codecs no output size bound is proved (as in `C01_blockgen2`).
  * BWT / BWTS FORWARD.  The real Forward of both is built on DivSufSort, which is not modelled.  In the model the
    forward BWT is its SPECIFICATION (`Kanzi.BWT.blockForward`: header of BWTBlockCodec + naive suffix sort with implicit
    end marker) and the forward BWTS is its SPECIFICATION (`bwtsSpecForward`: `bwtsSpec`, sorted rotations of the Lyndon
    factors).  "real Forward = specification" is TIED BY THE `bwt`, `bwts` AND `imagegen3` STREAMS (byte-exact comparison
    on generated blocks), NOT PROVED.  Both INVERSES are statement-level models proved against the specifications.
  * BWT job count: `.bwt jobs` carries `ctx["jobs"]` of the decoding task; the theorems need `1 ≤ jobs` (`Kind3.WF`:
    `NewBWTWithCtx` rejects 0, every task gets at least one job) and hold for every such count; the ENCODER does not
    look at it (`C01_chain3_encoder_jobs_independent`), so Writer and Reader may use different job counts.
  * FPAQ, CM, TPAQ, TPAQX: `fits2` on the block handed to the entropy coder, as in `C01_blockgen2`.  The way the block
    codec builds the TPAQ predictor (`tpaqEnt`: ctx entries entropy / blockSize / size / bsVersion) is NOT tied by a
    stream of this slice.
-/
import Kanzi.Model.BlockGen3
import Kanzi.Proofs.BlockGen3
import Kanzi.Proofs.BlockGen3Kinds
import Kanzi.Proofs.BlockGen3Stream
import Kanzi.Properties.C01_blockgen2

namespace Kanzi.C01gen
open Kanzi.Bits Kanzi.Block Kanzi.BlockGen Kanzi.BlockGen2 Kanzi.BlockGen3 Kanzi.TrSmall Kanzi.Header

/-! ## 1. the law of a TEXT implementation -/

/-- **TextLaw**, spelled out.  `t : TextImpl` = the four functions of a `transform.TextCodec` as the sequence sees it
(`forward dt src len(dst)`, `ctxWrite` = the `dataType` write-back, `inverse src len(dst)`, `maxEncodedLen`; results
`.ok` = nil error, `.err` = declined / failed, `.fault` = panic).  The law is exactly the shape of the C13 theorems
of the other transforms: `MaxEncodedLen(n) = n`; Inverse of nothing is nothing; an ACCEPTED Forward into a destination
of at least `MaxEncodedLen` bytes returns at most `MaxEncodedLen(len)` byte values which Inverse, into ANY destination
strictly longer than the block and shorter than 2^39 bytes, turns back into the block; Forward does not succeed into
a smaller non-empty destination; Forward never panics into a destination of at least `MaxEncodedLen` bytes. -/
theorem C01_textLaw_spelled_out (t : TextImpl) :
    TextLaw t ↔
      ((∀ n, t.maxEncodedLen n = n) ∧
       (∀ n, t.inverse [] n = .ok []) ∧
       (∀ (dt : Nat) (b y : List Nat) (dstLen : Nat), (∀ x ∈ b, x < 256) → b.length < 2 ^ 31 →
          t.maxEncodedLen b.length ≤ dstLen → t.forward dt b dstLen = .ok y →
            y.length ≤ t.maxEncodedLen b.length ∧ (∀ v ∈ y, v < 256) ∧
              ∀ n, b.length < n → n < 2 ^ 39 → t.inverse y n = .ok b) ∧
       (∀ (dt : Nat) (b y : List Nat) (dstLen : Nat), b ≠ [] → 0 < dstLen →
          dstLen < t.maxEncodedLen b.length → t.forward dt b dstLen ≠ .ok y) ∧
       (∀ (dt : Nat) (b : List Nat) (dstLen : Nat) (e : String), (∀ x ∈ b, x < 256) →
          t.maxEncodedLen b.length ≤ dstLen → t.forward dt b dstLen ≠ .fault e)) :=
  ⟨fun h => ⟨h.maxLen, h.inverse_nil, h.roundtrip, h.small_dst, h.no_fault⟩,
   fun h => ⟨h.1, h.2.1, h.2.2.1, h.2.2.2.1, h.2.2.2.2⟩⟩

/-- the law is satisfiable (a TEXT stage that accepts nothing but the empty block) -/
example : TextLaw idText := textLaw_idText

/-! ## 2. H_codec for every chain over the nineteen kinds and every entropy codec -/

/-- **C01_codec_chain3.**  `ks` = any chain of at most 8 kinds of `Kind3` (what `transform.New` builds for a transform
word over ALL nineteen names, for any setting of the constructor parameters), `ent` = NONE, ANS0, ANS1, RANGE or HUFFMAN
as the factory builds them, any checksum width `ck`, skipBlocks on or off, any length `obuf` of the task's output
buffer, a Writer of block size `B ≤ 2^30`, `b` a block of 1..B bytes: the encoding task succeeds and the decoding
task returns exactly the block with `decoded = |b|` — through the copy-block branch, every pattern of declined
stages (incl. the stages that decline because the block exceeds their size limit, section 4), every value of the
data type hint along the chain, the branch of fix F43, both layouts of the skip flags, every width of the length
field, the checksum field and its comparison.
Hypotheses on the chain: `hjobs` (the job count of every BWT stage is at least 1) and `htext` (`TextLaw text`, needed
ONLY IF TEXT occurs in the chain).  If TEXT occurs, the claim about the decoding task is for a payload within the
Reader's frame bound of 2^34 bits (see the file header).  Forward BWT / BWTS = their specifications (file header). -/
theorem C01_codec_chain3 (text : TextImpl) (ck : Nat) (ks : List Kind3) (ent : Ent) (sb : Bool) (B obuf : Nat)
    (b : List Nat) (hn : ks.length ≤ 8) (hjobs : ∀ k ∈ ks, k.WF) (htext : Kind3.text ∈ ks → TextLaw text)
    (hent : IsModelledEnt ent)
    (hbytes : ∀ x ∈ b, x < 256) (h0 : 0 < b.length) (hB : b.length ≤ B) (hmax : B ≤ 2 ^ 30) :
    ∃ p, encodeTaskGen2 ⟨ck, kind3Trs text ks, ent, sb, some B⟩ obuf b = .ok p ∧
      ((Kind3.text ∈ ks → p.length ≤ 2 ^ 34) →
        decodeTaskGen2 ⟨ck, kind3Trs text ks, ent, sb, some B⟩ B p = ⟨b.length, .ok b⟩) := by
  obtain ⟨p, h1, h2, _⟩ := block_roundtrip3 text ⟨ck, kind3Trs text ks, ent, sb, some B⟩ ks rfl hn hjobs htext B obuf b
    rfl (entLawAt_of_law _ _ (entLaw_modelled ent hent _) _) hbytes h0 hB hmax
  exact ⟨p, h1, h2⟩

/-- **C01_codec_chain3_no_text**: chains WITHOUT TEXT — the eighteen concrete kinds: no hypothesis about TEXT at all
(whatever `text` is), no condition on the payload. -/
theorem C01_codec_chain3_no_text (text : TextImpl) (ck : Nat) (ks : List Kind3) (ent : Ent) (sb : Bool) (B obuf : Nat)
    (b : List Nat) (hn : ks.length ≤ 8) (hjobs : ∀ k ∈ ks, k.WF) (hnt : Kind3.text ∉ ks) (hent : IsModelledEnt ent)
    (hbytes : ∀ x ∈ b, x < 256) (h0 : 0 < b.length) (hB : b.length ≤ B) (hmax : B ≤ 2 ^ 30) :
    ∃ p, encodeTaskGen2 ⟨ck, kind3Trs text ks, ent, sb, some B⟩ obuf b = .ok p ∧
      decodeTaskGen2 ⟨ck, kind3Trs text ks, ent, sb, some B⟩ B p = ⟨b.length, .ok b⟩ := by
  obtain ⟨p, h1, h2⟩ := C01_codec_chain3 text ck ks ent sb B obuf b hn hjobs (fun h => absurd h hnt) hent hbytes h0 hB
    hmax
  exact ⟨p, h1, h2 (fun h => absurd h hnt)⟩

/-- **C01_codec_chain3_none**: entropy NONE, any chain (TEXT included, under its law): the payload is at most
`48 + 64 + 8·maxTransformLength B` bits, within the frame bound: no condition on the payload. -/
theorem C01_codec_chain3_none (text : TextImpl) (ck : Nat) (ks : List Kind3) (sb : Bool) (B obuf : Nat)
    (b : List Nat) (hn : ks.length ≤ 8) (hjobs : ∀ k ∈ ks, k.WF) (htext : Kind3.text ∈ ks → TextLaw text)
    (hbytes : ∀ x ∈ b, x < 256) (h0 : 0 < b.length) (hB : b.length ≤ B) (hmax : B ≤ 2 ^ 30) :
    ∃ p, encodeTaskGen2 ⟨ck, kind3Trs text ks, noneEnt, sb, some B⟩ obuf b = .ok p ∧
      decodeTaskGen2 ⟨ck, kind3Trs text ks, noneEnt, sb, some B⟩ B p = ⟨b.length, .ok b⟩ := by
  obtain ⟨p, h1, h2, _⟩ := block_roundtrip3' text ⟨ck, kind3Trs text ks, noneEnt, sb, some B⟩ ks rfl hn hjobs htext
    (Or.inr rfl) B obuf b rfl (entLawAt_of_law _ _ (entLaw_none _) _) hbytes h0 hB hmax
  exact ⟨p, h1, h2⟩

/-- the old kinds are embedded unchanged: a chain of `C01_codec_chain` is a chain here -/
theorem C01_chain3_extends (text : TextImpl) (ks : List Kind) :
    kind3Trs text (ks.map Kind3.old) = kindTrs ks := by
  simp [kind3Trs, kindTrs, List.map_map, Function.comp_def, Kind3.tr]

/-- the generic form: ANY entropy codec that satisfies the exact-consumption law AT THE BLOCK HANDED TO IT -/
theorem C01_codec_chain3_ent (text : TextImpl) (ck : Nat) (ks : List Kind3) (ent : Ent) (sb : Bool) (B obuf : Nat)
    (b : List Nat) (hn : ks.length ≤ 8) (hjobs : ∀ k ∈ ks, k.WF) (htext : Kind3.text ∈ ks → TextLaw text)
    (hent : EntLawAt ent (maxTransformLength B) (postBlock (kind3Trs text ks) (some B) obuf b))
    (hbytes : ∀ x ∈ b, x < 256) (h0 : 0 < b.length) (hB : b.length ≤ B) (hmax : B ≤ 2 ^ 30) :
    ∃ p, encodeTaskGen2 ⟨ck, kind3Trs text ks, ent, sb, some B⟩ obuf b = .ok p ∧
      ((Kind3.text ∈ ks → p.length ≤ 2 ^ 34) →
        decodeTaskGen2 ⟨ck, kind3Trs text ks, ent, sb, some B⟩ B p = ⟨b.length, .ok b⟩) := by
  obtain ⟨p, h1, h2, _⟩ := block_roundtrip3 text ⟨ck, kind3Trs text ks, ent, sb, some B⟩ ks rfl hn hjobs htext B obuf b
    rfl hent hbytes h0 hB hmax
  exact ⟨p, h1, h2⟩

/-- **C01_codec_chain3_fpaq_partial / _cm_partial / _tpaq_partial**: FPAQ, CM, TPAQ (`extra = false`) and TPAQX (`extra =
true`) are CONDITIONAL instances: the hypothesis is the decoder's own acceptance test ("no chunk codes to twice its
size or more": `fFits2` / `fits2`, decidable by evaluation) on the block handed to the entropy coder.  It is not known
to hold for every block (an adversarial block for a fresh predictor exists for TPAQ: F36), hence `_partial`. -/
theorem C01_codec_chain3_fpaq_partial (text : TextImpl) (ck : Nat) (ks : List Kind3) (sb : Bool) (B obuf : Nat)
    (b : List Nat) (hn : ks.length ≤ 8) (hjobs : ∀ k ∈ ks, k.WF) (htext : Kind3.text ∈ ks → TextLaw text)
    (hf2 : Fpaq.fFits2 Fpaq.DEFAULT_CHUNK (postBlock (kind3Trs text ks) (some B) obuf b) = true)
    (hbytes : ∀ x ∈ b, x < 256) (h0 : 0 < b.length) (hB : b.length ≤ B) (hmax : B ≤ 2 ^ 30) :
    ∃ p, encodeTaskGen2 ⟨ck, kind3Trs text ks, fpaqEnt, sb, some B⟩ obuf b = .ok p ∧
      ((Kind3.text ∈ ks → p.length ≤ 2 ^ 34) →
        decodeTaskGen2 ⟨ck, kind3Trs text ks, fpaqEnt, sb, some B⟩ B p = ⟨b.length, .ok b⟩) :=
  C01_codec_chain3_ent text ck ks fpaqEnt sb B obuf b hn hjobs htext
    (entLawAt_fpaq _ (by unfold maxTransformLength; omega) _ hf2) hbytes h0 hB hmax

theorem C01_codec_chain3_cm_partial (text : TextImpl) (ck : Nat) (ks : List Kind3) (sb : Bool) (B obuf : Nat)
    (b : List Nat) (hn : ks.length ≤ 8) (hjobs : ∀ k ∈ ks, k.WF) (htext : Kind3.text ∈ ks → TextLaw text)
    (hf2 : BinEnt.fits2 cmPred BinEnt.MAX_CHUNK (CM.cmInit false) (postBlock (kind3Trs text ks) (some B) obuf b) = true)
    (hbytes : ∀ x ∈ b, x < 256) (h0 : 0 < b.length) (hB : b.length ≤ B) (hmax : B ≤ 2 ^ 30) :
    ∃ p, encodeTaskGen2 ⟨ck, kind3Trs text ks, cmEnt, sb, some B⟩ obuf b = .ok p ∧
      ((Kind3.text ∈ ks → p.length ≤ 2 ^ 34) →
        decodeTaskGen2 ⟨ck, kind3Trs text ks, cmEnt, sb, some B⟩ B p = ⟨b.length, .ok b⟩) :=
  C01_codec_chain3_ent text ck ks cmEnt sb B obuf b hn hjobs htext
    (entLawAt_cm _ (by unfold maxTransformLength; omega) _ hf2) hbytes h0 hB hmax

theorem C01_codec_chain3_tpaq_partial (extra : Bool) (text : TextImpl) (ck : Nat) (ks : List Kind3) (sb : Bool)
    (B obuf : Nat) (b : List Nat) (hn : ks.length ≤ 8) (hjobs : ∀ k ∈ ks, k.WF) (htext : Kind3.text ∈ ks → TextLaw text)
    (hf2 : tpaqFits extra B (postBlock (kind3Trs text ks) (some B) obuf b))
    (hbytes : ∀ x ∈ b, x < 256) (h0 : 0 < b.length) (hB : b.length ≤ B) (hmax : B ≤ 2 ^ 30) :
    ∃ p, encodeTaskGen2 ⟨ck, kind3Trs text ks, tpaqEnt extra B, sb, some B⟩ obuf b = .ok p ∧
      ((Kind3.text ∈ ks → p.length ≤ 2 ^ 34) →
        decodeTaskGen2 ⟨ck, kind3Trs text ks, tpaqEnt extra B, sb, some B⟩ B p = ⟨b.length, .ok b⟩) :=
  C01_codec_chain3_ent text ck ks (tpaqEnt extra B) sb B obuf b hn hjobs htext
    (entLawAt_tpaq extra B (by omega) _ (by unfold maxTransformLength; omega) _ hf2) hbytes h0 hB hmax

/-- `tpaqFits`, spelled out: the predictor the factory builds from the task ctx (entropy name, stream block size, `size`
= length of the block handed to the codec, bitstream version 6) exists, and the binary coder's acceptance test holds -/
theorem C01_tpaqFits_spelled_out (extra : Bool) (B : Nat) (y : List Nat) :
    tpaqFits extra B y ↔
      ∃ s0, TPAQ.tpaqNew (some { entropy := .str (if extra then "TPAQX" else "TPAQ"), blockSize := .uint B,
                                 size := .uint y.length, bsVersion := .uint 6 }) = .ok s0 ∧
        BinEnt.fits2 Kanzi.C12.tpaqPred BinEnt.MAX_CHUNK s0 y = true := Iff.rfl

/-! ## 3. the components -/

/-- the law every kind satisfies (for every data type hint `dt` and every non-empty destination), with its output
bound: a successful Forward of EXE adds at most `len/50` bytes, of BWT at most 33 (its header), of SRT and MM what
`C01_grow_spelled_out` says; every other transform returns at most `len` bytes -/
theorem C01_chain3_components (text : TextImpl) (k : Kind3) (hwf : k.WF) (ht : k = .text → TextLaw text)
    (dt : Nat) (x y : List Nat) (d : Nat) (hb : ∀ v ∈ x, v < 256) (hl : x.length < 2 ^ 31) (hd : 0 < d)
    (hf : (k.tr text).fwd dt x d = .ok y) :
    (∀ v ∈ y, v < 256) ∧ y.length ≤ k.grow x.length ∧
      ∀ n, x.length < n → n < 2 ^ 39 → (k.tr text).inv y n = .ok x := by
  obtain ⟨h1, h2, _, h4⟩ := (kind3_law text k hwf TextDst (fun h => ⟨ht h, fun _ hn => hn⟩)).rt dt x d y hb
    (by unfold lawLim; omega) hd hf
  exact ⟨h1, h2, h4⟩

/-- … and for every kind but TEXT into EVERY destination of at least the block length -/
theorem C01_chain3_components_concrete (text : TextImpl) (k : Kind3) (hwf : k.WF) (hk : k ≠ .text)
    (dt : Nat) (x y : List Nat) (d : Nat) (hb : ∀ v ∈ x, v < 256) (hl : x.length < 2 ^ 31) (hd : 0 < d)
    (hf : (k.tr text).fwd dt x d = .ok y) : ∀ n, x.length ≤ n → (k.tr text).inv y n = .ok x := by
  have hl' : x.length ≤ lawLim := by unfold lawLim; omega
  cases k with
  | old k => exact ((kind_law k).rt dt x d y hb hl' hd hf).2.2
  | utf => exact ((law_utf text).rt dt x d y hb hl' hd hf).2.2
  | exe => exact ((law_exe text).rt dt x d y hb hl' hd hf).2.2
  | rolz => exact ((law_rolz text).rt dt x d y hb hl' hd hf).2.2
  | rolzx => exact ((law_rolzx text).rt dt x d y hb hl' hd hf).2.2
  | bwt jobs => exact ((law_bwt text jobs hwf).rt dt x d y hb hl' hd hf).2.2
  | bwts => exact ((law_bwts text).rt dt x d y hb hl' hd hf).2.2
  | text => exact absurd rfl hk

theorem C01_grow3_spelled_out (a : Nat) :
    Kind3.exe.grow a = a + a / 50 ∧ (∀ j, (Kind3.bwt j).grow a = a + 33) ∧ Kind3.utf.grow a = a ∧
    Kind3.rolz.grow a = a ∧ Kind3.rolzx.grow a = a ∧ Kind3.bwts.grow a = a ∧ Kind3.text.grow a = a ∧
    (∀ k, (Kind3.old k).grow a = k.grow a) :=
  ⟨rfl, fun _ => rfl, rfl, rfl, rfl, rfl, rfl, fun _ => rfl⟩

/-- what the adapters are (definitional): the functions of the transform slices with the parameters of a stream of
bitstream version 6 -/
theorem C01_chain3_adapters (text : TextImpl) (dt : Nat) (x : List Nat) (d n jobs : Nat) :
    (Kind3.utf.tr text).fwd dt x d = ofRlt (UTF.utfForward dt x d) ∧
    (Kind3.utf.tr text).inv x n = ofRlt (UTF.utfInverse false x n) ∧
    (Kind3.exe.tr text).fwd dt x d = ofRlt (EXE.exeForward (some dt) x d) ∧
    (Kind3.exe.tr text).ctxw dt x d = EXE.exeCtxWrite (some dt) x d ∧
    (Kind3.exe.tr text).inv x n = ofRlt (EXE.exeInverse false x n) ∧
    (Kind3.rolz.tr text).fwd dt x d = ofRolzF (ROLZ.rolzForward ROLZ.CHUNK_SIZE ROLZ.LOG_POS_CHECKS1 true dt x d) ∧
    (Kind3.rolz.tr text).ctxw dt x d = ROLZ.rolzCtxWrite true dt x d ∧
    (Kind3.rolz.tr text).inv x n =
      ofRolzI (ROLZ.rolzInverse ROLZ.CHUNK_SIZE ROLZ.LOG_POS_CHECKS1 true 6 x (Array.replicate n 0)) ∧
    (Kind3.rolzx.tr text).fwd dt x d = ofRolzF (ROLZ.rolzxForward ROLZ.CHUNK_SIZE ROLZ.LOG_POS_CHECKS2 true dt x d) ∧
    (Kind3.rolzx.tr text).inv x n =
      ofRolzI (ROLZ.rolzxInverse ROLZ.CHUNK_SIZE ROLZ.LOG_POS_CHECKS2 6 x (Array.replicate n 0)) ∧
    ((Kind3.bwt jobs).tr text).fwd dt x d = ofBwtF (BWT.blockForward x d) ∧
    ((Kind3.bwt jobs).tr text).inv x n = ofBwtI (BWT.blockInverse #[] (List.replicate 8 0) jobs x.toArray n).1 ∧
    (Kind3.bwts.tr text).fwd dt x d = ofBwts (bwtsSpecForward x d) ∧
    (Kind3.bwts.tr text).inv x n = ofBwts (BWTS.bwtsInverse x n) ∧
    (Kind3.text.tr text).fwd dt x d = ofRlt (text.forward dt x d) ∧
    (Kind3.text.tr text).ctxw dt x d = text.ctxWrite dt x d ∧
    (Kind3.text.tr text).inv x n = ofRlt (text.inverse x n) :=
  ⟨rfl, rfl, rfl, rfl, rfl, rfl, rfl, rfl, rfl, rfl, rfl, rfl, rfl, rfl, rfl, rfl, rfl⟩

/-- C01_chain3_no_fault: the adapters turn a Go panic inside a Forward (`.fault` / `.hang` of the transform models)
into a declined stage; that case never arises: on a block of byte values no Forward of the new transforms panics,
whatever the data type hint and the destination size (TEXT: under its law, into a destination of at least
`MaxEncodedLen` bytes).  (The twelve old kinds: `C01_chain_no_fault`.) -/
theorem C01_chain3_no_fault (b : List Nat) (d : Nat) (hb : ∀ x ∈ b, x < 256) :
    (∀ dt e, UTF.utfForward dt b d ≠ .fault e) ∧
    (∀ dt e, EXE.exeForward dt b d ≠ .fault e) ∧
    (∀ hasCtx dt e, ROLZ.rolzForward ROLZ.CHUNK_SIZE ROLZ.LOG_POS_CHECKS1 hasCtx dt b d ≠ .fault e) ∧
    (∀ dt e, ROLZ.rolzxForward ROLZ.CHUNK_SIZE ROLZ.LOG_POS_CHECKS2 true dt b d ≠ .fault e) ∧
    (BWT.blockForward b d ≠ .fault ∧ BWT.blockForward b d ≠ .hang) ∧
    bwtsSpecForward b d ≠ .fault ∧
    (∀ (text : TextImpl), TextLaw text → ∀ dt e, text.maxEncodedLen b.length ≤ d → text.forward dt b d ≠ .fault e) :=
  ⟨fun dt e => utf_no_fault dt b d e hb, fun dt e => exe_no_fault dt b d e,
   fun _ _ e => Kanzi.C13.C13_rolz_forward_total (by decide) e, fun dt e => rolzx_no_fault dt b d e hb,
   bwt_no_fault b d, bwts_no_fault b d, fun text ht dt e hd => ht.no_fault dt b d e hb hd⟩

/-- **C01_chain3_encoder_jobs_independent**: the payload written by the encoding task does not depend on the job
counts of the BWT stages (Forward does not look at `ctx["jobs"]`): a Writer with any job count and a Reader with any
other (≥ 1) are covered by `C01_codec_chain3` applied to the Reader's chain. -/
theorem C01_chain3_encoder_jobs_independent (text : TextImpl) (ck j : Nat) (ks : List Kind3) (ent : Ent) (sb : Bool)
    (bs : Option Nat) (obuf : Nat) (b : List Nat) :
    encodeTaskGen2 ⟨ck, kind3Trs text ks, ent, sb, bs⟩ obuf b =
      encodeTaskGen2 ⟨ck, kind3Trs text (ks.map (Kind3.setJobs j)), ent, sb, bs⟩ obuf b :=
  encodeTaskGen2_encEq ck _ _ (kind3Trs_setJobs text j ks) ent sb bs obuf b

/-- Writer tasks with the job counts of `ks`, Reader task with `j ≥ 1` jobs for every BWT stage -/
theorem C01_codec_chain3_jobs (text : TextImpl) (ck j : Nat) (hj : 1 ≤ j) (ks : List Kind3) (ent : Ent) (sb : Bool)
    (B obuf : Nat) (b : List Nat) (hn : ks.length ≤ 8) (htext : Kind3.text ∈ ks → TextLaw text)
    (hent : IsModelledEnt ent)
    (hbytes : ∀ x ∈ b, x < 256) (h0 : 0 < b.length) (hB : b.length ≤ B) (hmax : B ≤ 2 ^ 30) :
    ∃ p, encodeTaskGen2 ⟨ck, kind3Trs text ks, ent, sb, some B⟩ obuf b = .ok p ∧
      ((Kind3.text ∈ ks → p.length ≤ 2 ^ 34) →
        decodeTaskGen2 ⟨ck, kind3Trs text (ks.map (Kind3.setJobs j)), ent, sb, some B⟩ B p = ⟨b.length, .ok b⟩) := by
  rw [C01_chain3_encoder_jobs_independent text ck j ks ent sb (some B) obuf b]
  have hmem : Kind3.text ∈ ks.map (Kind3.setJobs j) → Kind3.text ∈ ks := by
    intro h
    obtain ⟨k', hk', he⟩ := List.mem_map.mp h
    cases k' <;> first | exact hk' | cases he
  have hwf : ∀ k ∈ ks.map (Kind3.setJobs j), k.WF := by
    intro k hk
    obtain ⟨k', _, rfl⟩ := List.mem_map.mp hk
    cases k' <;> first | exact hj | trivial
  obtain ⟨p, h1, h2⟩ := C01_codec_chain3 text ck (ks.map (Kind3.setJobs j)) ent sb B obuf b (by simpa using hn) hwf
    (fun h => htext (hmem h)) hent hbytes h0 hB hmax
  exact ⟨p, h1, fun hp => h2 (fun h => hp (hmem h))⟩

/-! ## 4. the size limits of the transforms

A stage whose input is outside the sizes its Go code accepts DECLINES (the block goes on untransformed to the next
stage); `C01_codec_chain3` covers these branches.  The limits: -/

theorem C01_chain3_size_limits (text : TextImpl) (dt : Nat) (x : List Nat) (d : Nat) (hd : 0 < d) :
    (x.length > 2 ^ 28 - 1 → ∃ e, (Kind3.exe.tr text).fwd dt x d = .error e) ∧
    (x.length > 2 ^ 30 → ∃ e, (Kind3.rolz.tr text).fwd dt x d = .error e) ∧
    (x.length > 2 ^ 30 → ∃ e, (Kind3.rolzx.tr text).fwd dt x d = .error e) ∧
    (x.length > 2 ^ 30 → ∀ j, ∃ e, ((Kind3.bwt j).tr text).fwd dt x d = .error e) ∧
    (x.length > 2 ^ 30 → ∃ e, (Kind3.bwts.tr text).fwd dt x d = .error e) ∧
    (0 < x.length → x.length < 4096 → ∃ e, (Kind3.exe.tr text).fwd dt x d = .error e) ∧
    (0 < x.length → x.length < 1024 → ∃ e, (Kind3.utf.tr text).fwd dt x d = .error e) ∧
    (0 < x.length → x.length < 64 → ∃ e, (Kind3.rolz.tr text).fwd dt x d = .error e) ∧
    (0 < x.length → x.length < 64 → ∃ e, (Kind3.rolzx.tr text).fwd dt x d = .error e) := by
  refine ⟨fun h => ?_, fun h => ?_, fun h => ?_, fun h j => ?_, fun h => ?_, fun h0 h => ?_, fun h0 h => ?_,
    fun h0 h => ?_, fun h0 h => ?_⟩
  · show ∃ e, ofRlt (EXE.exeForward (some dt) x d) = .error e
    simp only [EXE.exeForward]
    rw [if_neg (by omega), if_neg (by simp only [EXE.MIN_BLOCK_SIZE]; omega),
      if_pos (by simp only [EXE.MAX_BLOCK_SIZE]; omega)]
    exact ⟨_, rfl⟩
  · show ∃ e, ofRolzF (ROLZ.rolzForward _ _ true dt x d) = .error e
    unfold ROLZ.rolzForward
    rw [if_neg (by omega), if_neg (by unfold ROLZ.MIN_BLOCK_SIZE; omega), if_pos (by unfold ROLZ.MAX_BLOCK_SIZE; omega)]
    exact ⟨_, rfl⟩
  · show ∃ e, ofRolzF (ROLZ.rolzxForward _ _ true dt x d) = .error e
    unfold ROLZ.rolzxForward
    rw [if_neg (by omega), if_neg (by unfold ROLZ.MIN_BLOCK_SIZE; omega), if_pos (by unfold ROLZ.MAX_BLOCK_SIZE; omega)]
    exact ⟨_, rfl⟩
  · show ∃ e, ofBwtF (BWT.blockForward x d) = .error e
    have hnf := bwt_no_fault x d
    cases hr : BWT.blockForward x d with
    | ok y =>
      exfalso
      have hlaw := (law_bwt text 1 (Nat.le_refl _)).rt dt x d y
      -- an accepted block is at most 2^30 bytes long: from the checks of Forward
      unfold BWT.blockForward at hr
      rw [if_neg (by omega)] at hr
      split at hr
      · cases hr
      · simp only at hr
        split at hr
        · cases hr
        · split at hr
          · cases hr
          · rw [if_pos (by unfold BWT.MAX_BLOCK_SIZE; omega)] at hr; cases hr
    | err e => exact ⟨e, rfl⟩
    | fault => exact absurd hr hnf.1
    | hang => exact absurd hr hnf.2
  · show ∃ e, ofBwts (bwtsSpecForward x d) = .error e
    unfold bwtsSpecForward
    rw [if_neg (by omega)]
    split
    · exact ⟨_, rfl⟩
    · rw [if_pos (by unfold BWTS.maxBlockSize; omega)]; exact ⟨_, rfl⟩
  · show ∃ e, ofRlt (EXE.exeForward (some dt) x d) = .error e
    simp only [EXE.exeForward]
    rw [if_neg (by omega), if_pos (by simp only [EXE.MIN_BLOCK_SIZE]; omega)]
    exact ⟨_, rfl⟩
  · show ∃ e, ofRlt (UTF.utfForward dt x d) = .error e
    unfold UTF.utfForward
    rw [if_neg (by omega), if_pos (by unfold UTF.MIN_BLOCKSIZE; omega)]
    exact ⟨_, rfl⟩
  · show ∃ e, ofRolzF (ROLZ.rolzForward _ _ true dt x d) = .error e
    unfold ROLZ.rolzForward
    rw [if_neg (by omega), if_pos (by unfold ROLZ.MIN_BLOCK_SIZE; omega)]
    exact ⟨_, rfl⟩
  · show ∃ e, ofRolzF (ROLZ.rolzxForward _ _ true dt x d) = .error e
    unfold ROLZ.rolzxForward
    rw [if_neg (by omega), if_pos (by unfold ROLZ.MIN_BLOCK_SIZE; omega)]
    exact ⟨_, rfl⟩

/-! ## 5. what a header announces -/

/-- C01_codec_of_header3: whatever a header announces over the nineteen transform names (`cfgOfHeader3 … = some c`) with
entropy NONE / HUFFMAN / RANGE / ANS0 / ANS1, the configuration the Reader derives from it (tasks with `jobs ≥ 1` jobs)
decodes what a Writer with the same parameters (skipBlocks on or off, any buffer history) encoded — if the transform
word names TEXT (token 10): under `TextLaw text`, for a payload within the frame bound. -/
theorem C01_codec_of_header3 (text : TextImpl) (jobs : Nat) (hj : 1 ≤ jobs) (h : Header) (sb : Bool) (c : Cfg2)
    (hc : cfgOfHeader3 text jobs h false = some c) (hE : uncondEntropy h.entropyType)
    (htext : (seqTokens h.transformType).contains 10 = true → TextLaw text)
    (obuf : Nat) (b : List Nat) (hbytes : ∀ x ∈ b, x < 256) (h0 : 0 < b.length) (hB : b.length ≤ h.blockSize)
    (hmax : h.blockSize ≤ 2 ^ 30) :
    ∃ p, encodeTaskGen2 { c with skipBlocks := sb } obuf b = .ok p ∧
      (((seqTokens h.transformType).contains 10 = true → p.length ≤ 2 ^ 34) →
        decodeTaskGen2 c h.blockSize p = ⟨b.length, .ok b⟩) := by
  obtain ⟨_, _, hbs, he, ks, hks, htrs, hn, hwf⟩ := cfgOfHeader3_spec text jobs hj h false c hc
  have htok : Kind3.text ∈ ks → (seqTokens h.transformType).contains 10 = true :=
    fun hm => newSeq3_text_token _ _ _ ks hks hm
  obtain ⟨p, h1, h2, _⟩ := block_roundtrip3 text { c with skipBlocks := sb } ks htrs hn hwf (fun hm => htext (htok hm))
    h.blockSize obuf b hbs
    (entLawAt_of_law _ _ (entLaw_modelled _ (entOf2_modelled _ _ he hE) _) _) hbytes h0 hB hmax
  exact ⟨p, h1, fun hp => h2 (fun hm => hp (htok hm))⟩

/-! ## 6. the CLI levels

All of them contain TEXT: the claim about the decoding task is for a payload within the Reader's frame bound of 2^34
bits (`p.length ≤ 2 ^ 34 → …`), except level 4 (entropy NONE), where that bound is proved. -/

/-- **C01_level3**: `kanzi -l 3` = TEXT+UTF+PACK+MM+LZX / HUFFMAN.  Residual hypotheses: `TextLaw text`; the claim about
the decoding task is for a payload of at most 2^34 bits. -/
theorem C01_level3 (text : TextImpl) (htext : TextLaw text) (ck : Nat) (sb : Bool) (B obuf : Nat) (b : List Nat)
    (hbytes : ∀ x ∈ b, x < 256) (h0 : 0 < b.length) (hB : b.length ≤ B) (hmax : B ≤ 2 ^ 30) :
    ∃ p, encodeTaskGen2 ⟨ck, kind3Trs text [.text, .utf, .old (Kind.alias false), .old .fsd, .old (.lz true)], hufEnt,
        sb, some B⟩ obuf b = .ok p ∧
      (p.length ≤ 2 ^ 34 →
        decodeTaskGen2 ⟨ck, kind3Trs text [.text, .utf, .old (Kind.alias false), .old .fsd, .old (.lz true)], hufEnt,
          sb, some B⟩ B p = ⟨b.length, .ok b⟩) := by
  obtain ⟨p, h1, h2⟩ := C01_codec_chain3 text ck [.text, .utf, .old (Kind.alias false), .old .fsd, .old (.lz true)]
    hufEnt sb B obuf b (by decide) (by decide) (fun _ => htext) (Or.inr (Or.inr (Or.inr (Or.inr rfl)))) hbytes h0 hB hmax
  exact ⟨p, h1, fun hp => h2 (fun _ => hp)⟩

/-- **C01_level4**: `kanzi -l 4` = TEXT+UTF+EXE+PACK+MM+ROLZ / NONE.  Residual hypothesis: `TextLaw text` only. -/
theorem C01_level4 (text : TextImpl) (htext : TextLaw text) (ck : Nat) (sb : Bool) (B obuf : Nat) (b : List Nat)
    (hbytes : ∀ x ∈ b, x < 256) (h0 : 0 < b.length) (hB : b.length ≤ B) (hmax : B ≤ 2 ^ 30) :
    ∃ p, encodeTaskGen2 ⟨ck, kind3Trs text [.text, .utf, .exe, .old (Kind.alias false), .old .fsd, .rolz], noneEnt, sb,
        some B⟩ obuf b = .ok p ∧
      decodeTaskGen2 ⟨ck, kind3Trs text [.text, .utf, .exe, .old (Kind.alias false), .old .fsd, .rolz], noneEnt, sb,
        some B⟩ B p = ⟨b.length, .ok b⟩ :=
  C01_codec_chain3_none text ck _ sb B obuf b (by decide) (by decide) (fun _ => htext) hbytes h0 hB hmax

/-- the job count of a BWT stage in a chain whose other stages need none -/
theorem wf5 (jobs : Nat) (hj : 1 ≤ jobs) (a b c d : Kind3) (ha : a.WF) (hb : b.WF) (hc : c.WF) (hd : d.WF) :
    (∀ k ∈ [a, b, Kind3.bwt jobs, c, d], k.WF) ∧ (∀ k ∈ [a, b, c, Kind3.bwt jobs, d], k.WF) := by
  constructor <;>
  · intro k hk
    simp only [List.mem_cons, List.mem_nil_iff, or_false] at hk
    rcases hk with rfl | rfl | rfl | rfl | rfl <;> first | exact hj | assumption

/-- **C01_level5**: `kanzi -l 5` = TEXT+UTF+BWT+RANK+ZRLT / ANS0, the decoding task with `jobs ≥ 1` jobs.  Residual
hypotheses: `TextLaw text`, payload of at most 2^34 bits (and: forward BWT = its specification). -/
theorem C01_level5 (text : TextImpl) (htext : TextLaw text) (jobs : Nat) (hj : 1 ≤ jobs) (ck : Nat) (sb : Bool)
    (B obuf : Nat) (b : List Nat)
    (hbytes : ∀ x ∈ b, x < 256) (h0 : 0 < b.length) (hB : b.length ≤ B) (hmax : B ≤ 2 ^ 30) :
    ∃ p, encodeTaskGen2 ⟨ck, kind3Trs text [.text, .utf, .bwt jobs, .old (.sbrt 2), .old .zrlt], ans0Ent, sb,
        some B⟩ obuf b = .ok p ∧
      (p.length ≤ 2 ^ 34 →
        decodeTaskGen2 ⟨ck, kind3Trs text [.text, .utf, .bwt jobs, .old (.sbrt 2), .old .zrlt], ans0Ent, sb,
          some B⟩ B p = ⟨b.length, .ok b⟩) := by
  obtain ⟨p, h1, h2⟩ := C01_codec_chain3 text ck [.text, .utf, .bwt jobs, .old (.sbrt 2), .old .zrlt] ans0Ent sb B obuf b
    (by simp) (wf5 jobs hj .text .utf (.old (.sbrt 2)) (.old .zrlt) (by decide) (by decide) (by decide) (by decide)).1 (fun _ => htext) (Or.inr (Or.inl rfl)) hbytes h0
    hB hmax
  exact ⟨p, h1, fun hp => h2 (fun _ => hp)⟩

/-- **C01_level6_partial**: `kanzi -l 6` = TEXT+UTF+BWT+SRT+ZRLT / FPAQ.  Residual hypotheses: `TextLaw text`, payload of
at most 2^34 bits, and `fFits2` (the FPAQ decoder's acceptance test) on the block handed to the entropy coder. -/
theorem C01_level6_partial (text : TextImpl) (htext : TextLaw text) (jobs : Nat) (hj : 1 ≤ jobs) (ck : Nat) (sb : Bool)
    (B obuf : Nat) (b : List Nat)
    (hf2 : Fpaq.fFits2 Fpaq.DEFAULT_CHUNK
      (postBlock (kind3Trs text [.text, .utf, .bwt jobs, .old .srt, .old .zrlt]) (some B) obuf b) = true)
    (hbytes : ∀ x ∈ b, x < 256) (h0 : 0 < b.length) (hB : b.length ≤ B) (hmax : B ≤ 2 ^ 30) :
    ∃ p, encodeTaskGen2 ⟨ck, kind3Trs text [.text, .utf, .bwt jobs, .old .srt, .old .zrlt], fpaqEnt, sb,
        some B⟩ obuf b = .ok p ∧
      (p.length ≤ 2 ^ 34 →
        decodeTaskGen2 ⟨ck, kind3Trs text [.text, .utf, .bwt jobs, .old .srt, .old .zrlt], fpaqEnt, sb,
          some B⟩ B p = ⟨b.length, .ok b⟩) := by
  obtain ⟨p, h1, h2⟩ := C01_codec_chain3_fpaq_partial text ck [.text, .utf, .bwt jobs, .old .srt, .old .zrlt] sb B obuf b
    (by simp) (wf5 jobs hj .text .utf (.old .srt) (.old .zrlt) (by decide) (by decide) (by decide) (by decide)).1 (fun _ => htext) hf2 hbytes h0 hB hmax
  exact ⟨p, h1, fun hp => h2 (fun _ => hp)⟩

/-- **C01_level7_partial**: `kanzi -l 7` = LZP+TEXT+UTF+BWT+LZP / CM.  Residual hypotheses: `TextLaw text`, payload of at
most 2^34 bits, `fits2`. -/
theorem C01_level7_partial (text : TextImpl) (htext : TextLaw text) (jobs : Nat) (hj : 1 ≤ jobs) (ck : Nat) (sb : Bool)
    (B obuf : Nat) (b : List Nat)
    (hf2 : BinEnt.fits2 cmPred BinEnt.MAX_CHUNK (CM.cmInit false)
      (postBlock (kind3Trs text [.old .lzp, .text, .utf, .bwt jobs, .old .lzp]) (some B) obuf b) = true)
    (hbytes : ∀ x ∈ b, x < 256) (h0 : 0 < b.length) (hB : b.length ≤ B) (hmax : B ≤ 2 ^ 30) :
    ∃ p, encodeTaskGen2 ⟨ck, kind3Trs text [.old .lzp, .text, .utf, .bwt jobs, .old .lzp], cmEnt, sb,
        some B⟩ obuf b = .ok p ∧
      (p.length ≤ 2 ^ 34 →
        decodeTaskGen2 ⟨ck, kind3Trs text [.old .lzp, .text, .utf, .bwt jobs, .old .lzp], cmEnt, sb,
          some B⟩ B p = ⟨b.length, .ok b⟩) := by
  obtain ⟨p, h1, h2⟩ := C01_codec_chain3_cm_partial text ck [.old .lzp, .text, .utf, .bwt jobs, .old .lzp] sb B obuf b
    (by simp) (wf5 jobs hj (.old .lzp) .text .utf (.old .lzp) (by decide) (by decide) (by decide) (by decide)).2 (fun _ => htext) hf2 hbytes h0 hB hmax
  exact ⟨p, h1, fun hp => h2 (fun _ => hp)⟩

/-- **C01_level8_partial**: `kanzi -l 8` = EXE+RLT+TEXT+UTF+DNA / TPAQ (RLT is not `fast` with TPAQ).  Residual
hypotheses: `TextLaw text`, payload of at most 2^34 bits, `tpaqFits false` (predictor construction + `fits2`). -/
theorem C01_level8_partial (text : TextImpl) (htext : TextLaw text) (ck : Nat) (sb : Bool) (B obuf : Nat) (b : List Nat)
    (hf2 : tpaqFits false B
      (postBlock (kind3Trs text [.exe, .old (.rlt false), .text, .utf, .old (Kind.alias true)]) (some B) obuf b))
    (hbytes : ∀ x ∈ b, x < 256) (h0 : 0 < b.length) (hB : b.length ≤ B) (hmax : B ≤ 2 ^ 30) :
    ∃ p, encodeTaskGen2 ⟨ck, kind3Trs text [.exe, .old (.rlt false), .text, .utf, .old (Kind.alias true)],
        tpaqEnt false B, sb, some B⟩ obuf b = .ok p ∧
      (p.length ≤ 2 ^ 34 →
        decodeTaskGen2 ⟨ck, kind3Trs text [.exe, .old (.rlt false), .text, .utf, .old (Kind.alias true)],
          tpaqEnt false B, sb, some B⟩ B p = ⟨b.length, .ok b⟩) := by
  obtain ⟨p, h1, h2⟩ := C01_codec_chain3_tpaq_partial false text ck
    [.exe, .old (.rlt false), .text, .utf, .old (Kind.alias true)] sb B obuf b (by decide) (by decide) (fun _ => htext) hf2
    hbytes h0 hB hmax
  exact ⟨p, h1, fun hp => h2 (fun _ => hp)⟩

/-- **C01_level9_partial**: `kanzi -l 9` = EXE+RLT+TEXT+UTF+DNA / TPAQX.  Residual hypotheses: `TextLaw text`, payload of
at most 2^34 bits, `tpaqFits true`. -/
theorem C01_level9_partial (text : TextImpl) (htext : TextLaw text) (ck : Nat) (sb : Bool) (B obuf : Nat) (b : List Nat)
    (hf2 : tpaqFits true B
      (postBlock (kind3Trs text [.exe, .old (.rlt false), .text, .utf, .old (Kind.alias true)]) (some B) obuf b))
    (hbytes : ∀ x ∈ b, x < 256) (h0 : 0 < b.length) (hB : b.length ≤ B) (hmax : B ≤ 2 ^ 30) :
    ∃ p, encodeTaskGen2 ⟨ck, kind3Trs text [.exe, .old (.rlt false), .text, .utf, .old (Kind.alias true)],
        tpaqEnt true B, sb, some B⟩ obuf b = .ok p ∧
      (p.length ≤ 2 ^ 34 →
        decodeTaskGen2 ⟨ck, kind3Trs text [.exe, .old (.rlt false), .text, .utf, .old (Kind.alias true)],
          tpaqEnt true B, sb, some B⟩ B p = ⟨b.length, .ok b⟩) := by
  obtain ⟨p, h1, h2⟩ := C01_codec_chain3_tpaq_partial true text ck
    [.exe, .old (.rlt false), .text, .utf, .old (Kind.alias true)] sb B obuf b (by decide) (by decide) (fun _ => htext) hf2
    hbytes h0 hB hmax
  exact ⟨p, h1, fun hp => h2 (fun _ => hp)⟩

/-- the chains and codecs of `C01_level3` … `C01_level9_partial` ARE what the level table of the tool
(`Generated/Levels.lean`, regenerated from v2/app on every check) selects, through `transform.GetType` /
`entropy.GetType` (model functions of `Names`), `transform.New` (`newSeq3`, for a task with any job count) and the
entropy factory (`entOf3`, for any block size).  Levels 0..2: `C01_levels_modelled`.  This REPLACES
`C01_levels_out_of_reach` of `C01_blockgen2` (which says that the twelve-kind model `newSeq2` has no sequence for
the levels 3..9): -/
theorem C01_levels_all_modelled :
    Generated.Levels.levels.length = 10 ∧
    Generated.Levels.levels.drop 3 =
      [(3, "TEXT+UTF+PACK+MM+LZX", "HUFFMAN"), (4, "TEXT+UTF+EXE+PACK+MM+ROLZ", "NONE"),
       (5, "TEXT+UTF+BWT+RANK+ZRLT", "ANS0"), (6, "TEXT+UTF+BWT+SRT+ZRLT", "FPAQ"),
       (7, "LZP+TEXT+UTF+BWT+LZP", "CM"), (8, "EXE+RLT+TEXT+UTF+DNA", "TPAQ"), (9, "EXE+RLT+TEXT+UTF+DNA", "TPAQX")] ∧
    Names.getType Generated.Names.transformTokens "TEXT+UTF+PACK+MM+LZX" = .ok (Names.chainType [10, 17, 18, 15, 16]) ∧
    Names.getType Generated.Names.transformTokens "TEXT+UTF+EXE+PACK+MM+ROLZ" =
      .ok (Names.chainType [10, 17, 9, 18, 15, 11]) ∧
    Names.getType Generated.Names.transformTokens "TEXT+UTF+BWT+RANK+ZRLT" = .ok (Names.chainType [10, 17, 1, 8, 6]) ∧
    Names.getType Generated.Names.transformTokens "TEXT+UTF+BWT+SRT+ZRLT" = .ok (Names.chainType [10, 17, 1, 13, 6]) ∧
    Names.getType Generated.Names.transformTokens "LZP+TEXT+UTF+BWT+LZP" = .ok (Names.chainType [14, 10, 17, 1, 14]) ∧
    Names.getType Generated.Names.transformTokens "EXE+RLT+TEXT+UTF+DNA" = .ok (Names.chainType [9, 5, 10, 17, 19]) ∧
    Names.entropyType Generated.Names.entropyTokens "HUFFMAN" = .ok 1 ∧
    Names.entropyType Generated.Names.entropyTokens "NONE" = .ok 0 ∧
    Names.entropyType Generated.Names.entropyTokens "ANS0" = .ok 5 ∧
    Names.entropyType Generated.Names.entropyTokens "FPAQ" = .ok 2 ∧
    Names.entropyType Generated.Names.entropyTokens "CM" = .ok 6 ∧
    Names.entropyType Generated.Names.entropyTokens "TPAQ" = .ok 7 ∧
    Names.entropyType Generated.Names.entropyTokens "TPAQX" = .ok 9 ∧
    (∀ jobs,
      newSeq3 (Names.chainType [10, 17, 18, 15, 16]) 1 jobs =
        some [.text, .utf, .old (Kind.alias false), .old .fsd, .old (.lz true)] ∧
      newSeq3 (Names.chainType [10, 17, 9, 18, 15, 11]) 0 jobs =
        some [.text, .utf, .exe, .old (Kind.alias false), .old .fsd, .rolz] ∧
      newSeq3 (Names.chainType [10, 17, 1, 8, 6]) 5 jobs = some [.text, .utf, .bwt jobs, .old (.sbrt 2), .old .zrlt] ∧
      newSeq3 (Names.chainType [10, 17, 1, 13, 6]) 2 jobs = some [.text, .utf, .bwt jobs, .old .srt, .old .zrlt] ∧
      newSeq3 (Names.chainType [14, 10, 17, 1, 14]) 6 jobs = some [.old .lzp, .text, .utf, .bwt jobs, .old .lzp] ∧
      newSeq3 (Names.chainType [9, 5, 10, 17, 19]) 7 jobs =
        some [.exe, .old (.rlt false), .text, .utf, .old (Kind.alias true)] ∧
      newSeq3 (Names.chainType [9, 5, 10, 17, 19]) 9 jobs =
        some [.exe, .old (.rlt false), .text, .utf, .old (Kind.alias true)]) ∧
    (∀ B, entOf3 B 1 = some hufEnt ∧ entOf3 B 0 = some noneEnt ∧ entOf3 B 5 = some ans0Ent ∧
      entOf3 B 2 = some fpaqEnt ∧ entOf3 B 6 = some cmEnt ∧ entOf3 B 7 = some (tpaqEnt false B) ∧
      entOf3 B 9 = some (tpaqEnt true B)) := by
  refine ⟨by decide, by decide, by decide +kernel, by decide +kernel, by decide +kernel, by decide +kernel,
    by decide +kernel, by decide +kernel, by decide +kernel, by decide +kernel, by decide +kernel, by decide +kernel,
    by decide +kernel, by decide +kernel, by decide +kernel, fun jobs => ?_, fun B => ?_⟩
  · exact ⟨rfl, rfl, rfl, rfl, rfl, rfl, rfl⟩
  · exact ⟨rfl, rfl, rfl, rfl, rfl, rfl, rfl⟩

/-- every name of a level is a name of the model; the twelve-kind model of `C01_blockgen2` is the restriction -/
theorem C01_newSeq3_extends (ft e jobs : Nat) (ks : List Kind) (h : newSeq2 ft e = some ks) :
    newSeq3 ft e jobs = some (ks.map Kind3.old) :=
  newSeq3_of_newSeq2 ft e jobs ks h

/-! ## 7. whole streams -/

/-- **C01_stream_image_chain3_partial.**  `cd` = the configuration the Reader derives from the header (tasks with `rj ≥
1` jobs), the Writer's tasks use the same with skipBlocks on or off, ANY job count `jobs` (the tasks' buffer lengths
are threaded by `streamImageGen2`).  If every payload respects the reader's `maxFrameLength` bound (`FrameFit`: an
explicit size condition — no size bound is proved for HUFFMAN / RANGE / ANS1 / ANS0 here), the image exists and
reading it back yields the header, exactly the blocks, and stops at the end marker.  Under `TextLaw text` if the
transform word names TEXT. -/
theorem C01_stream_image_chain3_partial (text : TextImpl) (rj : Nat) (hrj : 1 ≤ rj) (h : Header) (wf : WF h) (cd : Cfg2)
    (hcfg : cfgOfHeader3 text rj h false = some cd) (hE : uncondEntropy h.entropyType)
    (htext : (seqTokens h.transformType).contains 10 = true → TextLaw text)
    (sb : Bool) (jobs : Nat) (blocks : List (List Nat)) (hv : ValidBlocks h.blockSize blocks)
    (hfit : ∀ b ∈ blocks, ∀ obuf p, encodeTaskGen2 { cd with skipBlocks := sb } obuf b = .ok p →
      p.length ≤ maxFrameBits h.blockSize) :
    ∃ img, streamImageGen2 h { cd with skipBlocks := sb } jobs blocks = .ok img ∧
      parseImageGen3 text rj img = (some h, blocks, .endOfStream) := by
  apply parseImageGen3_streamImageGen2 text rj h wf _ cd jobs hcfg blocks
  intro b hb
  obtain ⟨h0, hB, hx⟩ := hv b hb
  refine ⟨fun obuf => ?_, h0, hB⟩
  obtain ⟨p, hp, hd⟩ := C01_codec_of_header3 text rj hrj h sb cd hcfg hE htext obuf b hx h0 hB wf.bsHi
  have hf := hfit b hb obuf p hp
  have h34 := maxFrameBits_lt h.blockSize
  have h8 : 8 ≤ p.length := by
    unfold encodeTaskGen2 at hp
    split at hp
    · obtain ⟨e, _, h8, _⟩ := encodeWith_shape _ _ _ _ _ _ _ _ hp; exact h8
    · obtain ⟨e, _, h8, _⟩ := encodeOf_shape _ _ _ _ _ _ _ hp; exact h8
  exact ⟨p, hp, hd (fun _ => by omega), by omega, Nat.lt_of_le_of_lt hf h34, hf⟩

/-- **C01_stream_image_chain3_none**: NO size hypothesis for entropy NONE — in particular for the streams of
`kanzi -l 4`: every well-formed header announcing entropy NONE and a transform word over the nineteen names, every list
of blocks of 1..blockSize bytes, any job counts, skipBlocks on or off: the image parses back to the blocks. -/
theorem C01_stream_image_chain3_none (text : TextImpl) (rj : Nat) (hrj : 1 ≤ rj) (h : Header) (wf : WF h)
    (hent : h.entropyType = 0) (cd : Cfg2) (hcfg : cfgOfHeader3 text rj h false = some cd)
    (htext : (seqTokens h.transformType).contains 10 = true → TextLaw text)
    (sb : Bool) (jobs : Nat) (blocks : List (List Nat)) (hv : ValidBlocks h.blockSize blocks) :
    ∃ img, streamImageGen2 h { cd with skipBlocks := sb } jobs blocks = .ok img ∧
      parseImageGen3 text rj img = (some h, blocks, .endOfStream) := by
  obtain ⟨_, _, hbs, he, ks, hks, htrs, hn, hwf⟩ := cfgOfHeader3_spec text rj hrj h false cd hcfg
  have ht : Kind3.text ∈ ks → TextLaw text := fun hm => htext (newSeq3_text_token _ _ _ ks hks hm)
  have hne : cd.ent = noneEnt := by
    have := he
    rw [hent] at this
    injection this with this
    exact this.symm
  apply parseImageGen3_streamImageGen2 text rj h wf _ cd jobs hcfg blocks
  intro b hb
  obtain ⟨h0, hB, hx⟩ := hv b hb
  refine ⟨fun obuf => ?_, h0, hB⟩
  obtain ⟨p, h1, h2, h3⟩ := block_roundtrip3' text { cd with skipBlocks := sb } ks htrs hn hwf ht (Or.inr hne)
    h.blockSize obuf b hbs
    (entLawAt_of_law _ _ (entLaw_modelled _ (entOf2_modelled _ _ he (Or.inl hent)) _) _) hx h0 hB wf.bsHi
  exact ⟨p, h1, h2, h3 hne⟩

/-! ## 8. the hypotheses are satisfiable; examples -/

/-- a header of level 5 without TEXT: XXHash32, ANS0, UTF+BWT+RANK+ZRLT, 4 MiB blocks; ROLZ next to ROLZX is built as
ROLZX; PACK after DNA as DNA -/
example : WF (mkHeader 1 5 (Names.chainType [17, 1, 8, 6]) 4194304 0) ∧
    newSeq3 (Names.chainType [17, 1, 8, 6]) 5 3 = some [.utf, .bwt 3, .old (.sbrt 2), .old .zrlt] ∧
    newSeq3 (Names.chainType [11, 12]) 0 1 = some [.rolzx, .rolzx] ∧
    newSeq3 (Names.chainType [11, 2]) 0 1 = some [.rolz, .bwts] ∧
    newSeq3 (Names.chainType [19, 18, 9]) 8 1 = some [.old (Kind.alias true), .old (Kind.alias true), .exe] := by decide

example : (∀ k ∈ [Kind3.utf, .bwt 3, .old (.sbrt 2), .old .zrlt], k.WF) ∧ Kind3.text ∉ [Kind3.utf, .bwt 3, .old .zrlt] := by
  decide

end Kanzi.C01gen
