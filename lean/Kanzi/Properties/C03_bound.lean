/-
C03 (work bound) — the decoder never allocates for, nor reads, a frame longer than what an encoder
can produce for the stream's block size (the fix for finding F25), in the model of the per-task frame
parser that is compared with the real Reader by the `image` stream (`imgx` ops).
-/
import Kanzi.Model.Block

namespace Kanzi.C03
open Kanzi.Bits Kanzi.Block

/-- C03_frame_bound: whatever the bits, a frame accepted by the task has a payload of at most
`maxFrameBits B` bits (a function of the block size only) and that payload was actually present in
the input: nothing is allocated or consumed beyond `5 + 34 + maxFrameBits B` bits per task. -/
theorem C03_frame_bound (B : Nat) (bs p rest : Bits) (h : parseFrame B bs = Container.Parsed.frame p rest) :
    p.length ≤ maxFrameBits B ∧ p.length ≤ 2 ^ 34 ∧ p.length + rest.length + 5 ≤ bs.length := by
  unfold parseFrame at h
  simp only [] at h
  split at h
  · cases h
  · split at h
    · cases h
    · split at h
      · cases h
      · split at h
        · cases h
        · split at h
          · cases h
          · rename_i h1 h2 h3 h4 h5
            injection h with hp hr
            subst hp; subst hr
            simp only [List.length_take, List.length_drop] at *
            omega

/-- the bound is linear in the block size: at most 9/8 · max(1.5·(B + max(512, B/16)), 256 KiB) + 64 bytes -/
theorem C03_frame_bound_linear (B : Nat) : maxFrameBits B ≤ (2 ^ 30 + 2 ^ 30 / 8 + 64) * 8 := by
  unfold maxFrameBits maxTransformLength
  simp only []
  omega

end Kanzi.C03
