/-
C13 for the run-length transform `transform.RLT` — property theorems only; proofs in
`Kanzi/Proofs/RLTInv.lean`, `RLTFwd.lean`, `RLT.lean`.  The model (`Kanzi/Model/RLT.lean`) mirrors
v2/transform/RLT.go (Forward, emitRunLength, Inverse, MaxEncodedLen, the escape selection and the
data type / entropy early declines) and is tied to /repo by the `rlt` correspondence stream.

Conventions: a block is a `List Nat` of byte values (hypothesis `∀ x ∈ b, x < 256`); the last argument
of `rltForward` / `rltInverse` is `len(dst)` of the Go call; `.ok t` is `dst[0:written]` with a nil
error, `.err c` a non-nil error (Forward declines / Inverse fails), `.fault` a Go run-time panic (index
out of range) or exhausted model fuel.  `dt` and `fast` are the two values Forward reads from the ctx of
`NewRLTWithCtx` (`dt = 0, fast = false` is `NewRLT()`); the theorems hold for all of them.
"Input left untouched on decline" is not a theorem here (values are immutable); it is an oracle of the
stream on the real code.
-/
import Kanzi.Model.RLT
import Kanzi.Proofs.RLT

namespace Kanzi.C13
open Kanzi.RLT

/-- C13_rlt: for every block of bytes, every data type hint and entropy hint, and every destination
at least as large as advertised by `MaxEncodedLen`: if Forward succeeds, its output is at most
`MaxEncodedLen(len)` bytes long (in fact shorter than the block: otherwise Forward declines with "no
compression") and Inverse into ANY destination of at least the original block length restores the
block exactly. -/
theorem C13_rlt (dt : Nat) (fast : Bool) (b t : List Nat) (dstLen : Nat)
    (hb : ∀ x ∈ b, x < 256) (hdst : rltMaxEncodedLen b.length ≤ dstLen)
    (h : rltForward dt fast b dstLen = .ok t) :
    t.length ≤ rltMaxEncodedLen b.length ∧ ∀ n, b.length ≤ n → rltInverse t n = .ok b :=
  ⟨(rlt_roundtrip dt fast b t dstLen hb hdst h).1, (rlt_roundtrip dt fast b t dstLen hb hdst h).2.2⟩

/-- C13_rlt_total: neither direction ever indexes out of range (the model marks every slice access
of the Go code that would panic, and exhausted loop fuel, as `.fault`): Forward on any block into any
destination of at least `MaxEncodedLen(len)` bytes, with any hints; Inverse on ANY input (forged,
truncated, not produced by Forward) into a destination of ANY size.  Inverse therefore always returns
a block or a clean error. -/
theorem C13_rlt_total :
    (∀ (dt : Nat) (fast : Bool) (b : List Nat) (dstLen : Nat) (e : String),
      rltMaxEncodedLen b.length ≤ dstLen → rltForward dt fast b dstLen ≠ .fault e) ∧
    (∀ (src : List Nat) (n : Nat) (e : String), rltInverse src n ≠ .fault e) :=
  ⟨fun dt fast b dstLen e hdst => rltForward_ne_fault dt fast b dstLen hdst e,
   fun src n e => rltInverse_ne_fault src n e⟩

/-- C13_rlt_bytes: the encoded block consists of byte values -/
theorem C13_rlt_bytes (dt : Nat) (fast : Bool) (b t : List Nat) (dstLen : Nat)
    (hb : ∀ x ∈ b, x < 256) (hdst : rltMaxEncodedLen b.length ≤ dstLen)
    (h : rltForward dt fast b dstLen = .ok t) : ∀ y ∈ t, y < 256 :=
  (rlt_roundtrip dt fast b t dstLen hb hdst h).2.1

/-- a successful Forward really compresses: the output is strictly shorter than the block (for a
non-empty block), so it also fits the `MaxEncodedLen` of blocks above 512 bytes, which is `len` -/
theorem C13_rlt_shorter (dt : Nat) (fast : Bool) (b t : List Nat) (dstLen : Nat)
    (hb : ∀ x ∈ b, x < 256) (hdst : rltMaxEncodedLen b.length ≤ dstLen) (hne : b ≠ [])
    (h : rltForward dt fast b dstLen = .ok t) : t.length < b.length :=
  rlt_shorter dt fast b t dstLen hb hdst hne h

/-- the hypotheses are satisfiable: accepted blocks (default escape / computed escape, a run of the
escape symbol, a run that ends 5 bytes before the end), their inverse, and declined blocks -/
example : rltForward 0 true [7, 7, 7, 7, 7, 7, 7, 7, 7, 7, 7, 7, 7, 1, 2, 3, 4, 5] 50
    = .ok [0xFB, 7, 7, 0xFB, 9, 1, 2, 3, 4, 5] := by decide
example : rltInverse [0xFB, 7, 7, 0xFB, 9, 1, 2, 3, 4, 5] 18
    = .ok [7, 7, 7, 7, 7, 7, 7, 7, 7, 7, 7, 7, 7, 1, 2, 3, 4, 5] := by decide
example : rltForward 0 true [0xFB, 0xFB, 0xFB, 0xFB, 0xFB, 0xFB, 0xFB, 0xFB, 0xFB, 0xFB, 0xFB, 1, 2, 3, 4, 5] 48
    = .ok [0xFB, 0xFB, 0, 0xFB, 0, 0xFB, 7, 1, 2, 3, 4, 5] := by decide
example : rltForward 0 true [1, 2, 3, 4, 5, 6, 7, 8, 9, 10, 11, 12, 13, 14, 15, 16] 48 = .err "nocomp" := by decide
example : rltForward 0 true [1, 2, 3] 35 = .err "small" := by decide
example : rltForward 6 false [1, 2, 3, 4, 5, 6, 7, 8, 9, 10, 11, 12, 13, 14, 15, 16] 48 = .err "type" := by decide
/-- escape selection: the first symbol with frequency 0, else the first least frequent symbol -/
example : selectEscape #[3, 1, 0, 5] = 2 := by decide
example : selectEscape #[0, 1, 0, 5] = 0 := by decide
example : rltInverse [9] 5 = .err "data" := by decide
example : rltInverse [9, 9, 1] 5 = .err "starts-run" := by decide
example : rltInverse [9, 5, 9, 0xFF, 0xFF, 0xFF] 100 = .err "run" := by decide

end Kanzi.C13
