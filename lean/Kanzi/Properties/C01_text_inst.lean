/-
The instantiation of `TextLaw` with the TEXT model of the text slice.
-/
import Kanzi.Properties.C01_blockgen3
import Kanzi.Properties.C13_text

namespace Kanzi.C01gen
open Kanzi.BlockGen3 Kanzi.Text Kanzi.C13

/-- `transform.newToken` for TEXT: codec 1 or 2 (`tc2` = ctx `textcodec` is 2), hash table of `hsz` entries -/
def textImpl (tc2 : Bool) (hsz : Nat) : TextImpl :=
  ⟨textForward tc2 hsz, textCtxWrite tc2, textInverse tc2 false hsz, textMaxEncodedLen⟩

theorem textLaw_text (tc2 : Bool) (hsz lh : Nat) (hh : hsz = 2 ^ lh) (h6 : 6 ≤ lh) (h32 : lh ≤ 32) :
    TextLaw (textImpl tc2 hsz) :=
  ⟨C13_text_maxlen, C13_text_inverse_nil tc2 false hsz,
   fun dt b y d hb _ hd h =>
     ⟨by cases tc2
         · exact (C13_text1 hsz lh dt hh h6 h32 b y d hb hd h).1
         · exact (C13_text2 hsz lh dt hh h6 h32 b y d hb hd h).1,
      C13_text_bytes tc2 hsz lh dt hh h6 h32 b y d hb hd h,
      fun n hn h39 => by
        cases tc2
        · exact (C13_text1 hsz lh dt hh h6 h32 b y d hb hd h).2 n (Nat.le_of_lt hn) h39 (fun _ => hn)
        · exact (C13_text2 hsz lh dt hh h6 h32 b y d hb hd h).2 n (Nat.le_of_lt hn) h39⟩,
   C13_text_small_dst tc2 hsz,
   fun dt b d e _ _ => C13_text_no_fault tc2 hsz dt (by rw [hh]; exact Nat.two_pow_pos lh) b d e⟩

/-- **C01_level4_closed**: level 4 of the CLI (TEXT+UTF+EXE+PACK+MM+ROLZ / NONE) with the real TEXT model (codec 1 or 2 as
the factory picks: here codec 2, any hash size 2^lh with 6 ≤ lh ≤ 32 — Go uses 13..27): NO residual hypothesis. -/
theorem C01_level4_closed (lh : Nat) (h6 : 6 ≤ lh) (h32 : lh ≤ 32) (ck : Nat) (sb : Bool) (B obuf : Nat) (b : List Nat)
    (hbytes : ∀ x ∈ b, x < 256) (h0 : 0 < b.length) (hB : b.length ≤ B) (hmax : B ≤ 2 ^ 30) :
    ∃ p, BlockGen2.encodeTaskGen2 ⟨ck, kind3Trs (textImpl true (2 ^ lh))
        [.text, .utf, .exe, .old (BlockGen2.Kind.alias false), .old .fsd, .rolz], BlockGen.noneEnt, sb, some B⟩ obuf b = .ok p ∧
      BlockGen2.decodeTaskGen2 ⟨ck, kind3Trs (textImpl true (2 ^ lh))
        [.text, .utf, .exe, .old (BlockGen2.Kind.alias false), .old .fsd, .rolz], BlockGen.noneEnt, sb, some B⟩ B p =
          ⟨b.length, .ok b⟩ :=
  C01_level4 (textImpl true (2 ^ lh)) (textLaw_text true (2 ^ lh) lh rfl h6 h32) ck sb B obuf b hbytes h0 hB hmax

/-- **C01_level3_closed**: level 3 (TEXT+UTF+PACK+MM+LZX / HUFFMAN) with the real TEXT model: the only residual condition is
the Reader's frame bound on the payload (2^34 bits), which no size bound on the Huffman output is proved for. -/
theorem C01_level3_closed (tc2 : Bool) (lh : Nat) (h6 : 6 ≤ lh) (h32 : lh ≤ 32) (ck : Nat) (sb : Bool) (B obuf : Nat) (b : List Nat)
    (hbytes : ∀ x ∈ b, x < 256) (h0 : 0 < b.length) (hB : b.length ≤ B) (hmax : B ≤ 2 ^ 30) :
    ∃ p, BlockGen2.encodeTaskGen2 ⟨ck, kind3Trs (textImpl tc2 (2 ^ lh))
        [.text, .utf, .old (BlockGen2.Kind.alias false), .old .fsd, .old (.lz true)], BlockGen2.hufEnt, sb, some B⟩ obuf b = .ok p ∧
      (p.length ≤ 2 ^ 34 →
        BlockGen2.decodeTaskGen2 ⟨ck, kind3Trs (textImpl tc2 (2 ^ lh))
          [.text, .utf, .old (BlockGen2.Kind.alias false), .old .fsd, .old (.lz true)], BlockGen2.hufEnt, sb, some B⟩ B p =
            ⟨b.length, .ok b⟩) :=
  C01_level3 (textImpl tc2 (2 ^ lh)) (textLaw_text tc2 (2 ^ lh) lh rfl h6 h32) ck sb B obuf b hbytes h0 hB hmax

/-- **C01_level5_closed**: level 5 (TEXT+UTF+BWT+RANK+ZRLT / ANS0) with the real TEXT model, for every BWT job count; the
forward BWT is its specification (tied to the real suffix sort by the bwt stream, not proved). -/
theorem C01_level5_closed (tc2 : Bool) (lh : Nat) (h6 : 6 ≤ lh) (h32 : lh ≤ 32) (jobs : Nat) (hj : 1 ≤ jobs) (ck : Nat) (sb : Bool)
    (B obuf : Nat) (b : List Nat)
    (hbytes : ∀ x ∈ b, x < 256) (h0 : 0 < b.length) (hB : b.length ≤ B) (hmax : B ≤ 2 ^ 30) :
    ∃ p, BlockGen2.encodeTaskGen2 ⟨ck, kind3Trs (textImpl tc2 (2 ^ lh))
        [.text, .utf, .bwt jobs, .old (.sbrt 2), .old .zrlt], BlockGen.ans0Ent, sb, some B⟩ obuf b = .ok p ∧
      (p.length ≤ 2 ^ 34 →
        BlockGen2.decodeTaskGen2 ⟨ck, kind3Trs (textImpl tc2 (2 ^ lh))
          [.text, .utf, .bwt jobs, .old (.sbrt 2), .old .zrlt], BlockGen.ans0Ent, sb, some B⟩ B p = ⟨b.length, .ok b⟩) :=
  C01_level5 (textImpl tc2 (2 ^ lh)) (textLaw_text tc2 (2 ^ lh) lh rfl h6 h32) jobs hj ck sb B obuf b hbytes h0 hB hmax

end Kanzi.C01gen
