/-
Proofs for the `fsd` slice, part 3: `fsdForward` as a whole.  The sampling phase only decides WHICH
`(mode, dist)` is handed to `fsdEncode`; all that is needed from it is `dist ∈ {1,2,3,4,8,16}` (the
quick exit `ent[minIdx] >= ent[0]` excludes index 0) and `mode ∈ {0,1}`; the round trip then is
`fsdEncode_roundtrip`, which holds for every such pair.
-/
import Kanzi.Proofs.FSDFwd

namespace Kanzi.FSD
open Kanzi.RLT (Out Res wr)

theorem maxLen_ge (n : Nat) : n + 64 ≤ fsdMaxEncodedLen n := by
  unfold fsdMaxEncodedLen
  have := Nat.le_max_right (n >>> 4) 64
  omega

/-! ## the selection -/

theorem minFold_lt (ent : List Nat) (L : Nat) :
    ∀ (l : List Nat) (m : Nat), (∀ i ∈ l, i < L) → m < L →
      l.foldl (fun m i => if ent.getD i 0 < ent.getD m 0 then i else m) m < L := by
  intro l
  induction l with
  | nil => intro m _ hm; simpa using hm
  | cons x rest ih =>
    intro m hl hm
    simp only [List.foldl_cons]
    apply ih
    · intro i hi; exact hl i (List.mem_cons_of_mem _ hi)
    · split
      · exact hl x List.mem_cons_self
      · exact hm

theorem minIndex_lt (ent : List Nat) (h : 0 < ent.length) : minIndex ent < ent.length := by
  unfold minIndex
  apply minFold_lt ent ent.length _ 0 _ h
  intro i hi
  exact List.mem_range.mp hi

theorem dist_of_idx (m : Nat) (h1 : 1 ≤ m) (h7 : m < 7) :
    distances.getD m 0 = 1 ∨ distances.getD m 0 = 2 ∨ distances.getD m 0 = 3 ∨ distances.getD m 0 = 4 ∨
      distances.getD m 0 = 8 ∨ distances.getD m 0 = 16 := by
  have : m = 1 ∨ m = 2 ∨ m = 3 ∨ m = 4 ∨ m = 5 ∨ m = 6 := by omega
  rcases this with rfl | rfl | rfl | rfl | rfl | rfl <;> simp [distances]

/-- the sampling phase never faults on a block of at least 1024 bytes; its index is one of the seven
    candidates, and not the first one unless Forward takes the quick exit -/
theorem fsdSample_ok (a : Array Nat) (h1024 : 1024 ≤ a.size) :
    ∃ c, fsdSample a = .ok c ∧ c.minIdx < 7 ∧ (c.entMin < c.ent0 → 1 ≤ c.minIdx) := by
  unfold fsdSample
  simp only
  obtain ⟨h, eh⟩ := sampleLoop_ok a (2 * (a.size / 10)) (2 * (a.size / 10) - a.size / 10) (a.size / 10)
    emptyHist (by omega) (by omega)
  rw [eh]
  simp only [Kanzi.RLT.Out.bind_ok]
  refine ⟨_, rfl, ?_, ?_⟩
  · have := minIndex_lt (entropies (3 * (a.size / 10)) h) (by simp [entropies])
    simpa [entropies] using this
  · simp only
    intro hlt
    rcases Nat.eq_zero_or_pos (minIndex (entropies (3 * (a.size / 10)) h)) with h0 | h0
    · rw [h0] at hlt; omega
    · exact h0

theorem fsdMode_ok (a : Array Nat) (dist : Nat) (h1024 : 1024 ≤ a.size) (hd : dist ≤ 16) :
    ∃ mode, fsdMode a dist = .ok mode ∧ (mode = DELTA_CODING ∨ mode = XOR_CODING) := by
  unfold fsdMode
  simp only
  obtain ⟨v, ev⟩ := largeDeltas_ok a dist (2 * (a.size / 10)) (2 * (2 * (a.size / 10))) 0 (by omega) (by omega)
  rw [ev]
  simp only [Kanzi.RLT.Out.bind_ok]
  refine ⟨_, rfl, ?_⟩
  split
  · exact Or.inr rfl
  · exact Or.inl rfl

/-! ## the early declines -/

theorem fsdEarly_none (dt : Nat) (src : List Nat) (n : Nat) (h : fsdEarly dt src n = none) :
    1024 ≤ src.length ∧ fsdMaxEncodedLen src.length ≤ n := by
  unfold fsdEarly at h
  repeat' split at h
  all_goals first | (simp at h; done) | (simp only [MIN_BLOCK_LENGTH] at *; omega)

theorem fsdEarly_some (dt : Nat) (src : List Nat) (n : Nat) (r : Res) (h : fsdEarly dt src n = some r) :
    (r = .ok [] ∧ (src.length = 0 ∨ n = 0)) ∨ ∃ e, r = .err e := by
  unfold fsdEarly at h
  repeat' split at h
  all_goals first | (simp at h; done) | skip
  all_goals simp only [Option.some.injEq] at h
  all_goals subst h
  · left; exact ⟨rfl, by assumption⟩
  all_goals right; exact ⟨_, rfl⟩

/-! ## Forward -/

/-- Forward succeeded: the output fits in `MaxEncodedLen`, consists of bytes, and Inverse into any
    destination of at least the block length restores the block -/
theorem fsd_roundtrip (dt : Nat) (src t : List Nat) (dstLen : Nat)
    (hb : ∀ x ∈ src, x < 256) (hdst : fsdMaxEncodedLen src.length ≤ dstLen)
    (h : fsdForward dt src dstLen = .ok t) :
    t.length ≤ fsdMaxEncodedLen src.length ∧ (∀ y ∈ t, y < 256) ∧
      ∀ n, src.length ≤ n → fsdInverse t n = .ok src := by
  have hml := maxLen_ge src.length
  unfold fsdForward at h
  split at h
  · rename_i r hr
    rcases fsdEarly_some dt src dstLen r hr with ⟨hr0, hz⟩ | ⟨e, he⟩
    · rw [hr0] at h
      simp only [Out.ok.injEq] at h
      subst h
      have : src = [] := List.length_eq_zero_iff.mp (by omega)
      subst this
      simp [fsdInverse]
    · rw [he] at h; simp at h
  · rename_i hnone
    obtain ⟨h1024, _⟩ := fsdEarly_none dt src dstLen hnone
    have hsz : src.toArray.size = src.length := by simp
    obtain ⟨c, ec, hc7, hc1⟩ := fsdSample_ok src.toArray (by omega)
    simp only at h
    rw [ec] at h
    simp only [Kanzi.RLT.Out.bind_ok] at h
    split at h
    · simp at h
    · rename_i hlt
      have hdist := dist_of_idx c.minIdx (hc1 (by omega)) hc7
      obtain ⟨mode, em, hmode⟩ := fsdMode_ok src.toArray (distances.getD c.minIdx 0) (by omega) (by omega)
      rw [em] at h
      simp only [Kanzi.RLT.Out.bind_ok] at h
      obtain ⟨r, er, h⟩ := (Out.bind_eq_ok _ _ _).mp h
      split at h
      · simp at h
      · rename_i hr1
        have hr1 : r.1 = src.toArray.size := by omega
        obtain ⟨h0, _, h⟩ := (Out.bind_eq_ok _ _ _).mp h
        split at h
        · simp at h
        · simp only [Out.ok.injEq] at h
          subst h
          have hbytes : ∀ (i : Nat) (hi : i < src.toArray.size), src.toArray[i] < 256 := by
            intro i hi
            exact hb _ (by simp)
          have hrt := fsdEncode_roundtrip src.toArray mode _ _ dstLen hmode hdist (by omega) (by omega)
            hbytes r er hr1
          have hsize := fsdEncode_size src.toArray mode _ _ dstLen (by omega) (by omega)
            (by rw [hsz]; omega) r er hr1
          refine ⟨?_, hrt.1, ?_⟩
          · rw [Array.length_toList]; rw [hsz] at hsize; exact hsize.1
          · intro n hn
            have := hrt.2 n (by omega)
            simpa using this

/-- Forward never indexes out of range when the destination has at least `MaxEncodedLen(len)` bytes -/
theorem fsdForward_ne_fault (dt : Nat) (src : List Nat) (dstLen : Nat) (e : String)
    (hdst : fsdMaxEncodedLen src.length ≤ dstLen) : fsdForward dt src dstLen ≠ .fault e := by
  have hml := maxLen_ge src.length
  unfold fsdForward
  split
  · rename_i r hr
    rcases fsdEarly_some dt src dstLen r hr with ⟨hr0, _⟩ | ⟨e', he⟩
    · rw [hr0]; simp
    · rw [he]; simp
  · rename_i hnone
    obtain ⟨h1024, _⟩ := fsdEarly_none dt src dstLen hnone
    have hsz : src.toArray.size = src.length := by simp
    obtain ⟨c, ec, hc7, hc1⟩ := fsdSample_ok src.toArray (by omega)
    simp only
    rw [ec]
    simp only [Kanzi.RLT.Out.bind_ok]
    split
    · simp
    · rename_i hlt
      have hdist := dist_of_idx c.minIdx (hc1 (by omega)) hc7
      obtain ⟨mode, em, hmode⟩ := fsdMode_ok src.toArray (distances.getD c.minIdx 0) (by omega) (by omega)
      rw [em]
      simp only [Kanzi.RLT.Out.bind_ok]
      cases hE : fsdEncode src.toArray mode (distances.getD c.minIdx 0) (fsdMaxEncodedLen src.toArray.size) dstLen with
      | fault e' =>
        exact absurd hE (fsdEncode_ne_fault src.toArray mode _ _ dstLen (by omega) (by rw [hsz]; exact hdst)
          (by rw [hsz]; omega) e')
      | err e' => simp [Out.bind]
      | ok r =>
        simp only [Kanzi.RLT.Out.bind_ok]
        split
        · simp
        · rename_i hr1
          have hr1 : r.1 = src.toArray.size := by omega
          have hsize := fsdEncode_size src.toArray mode _ _ dstLen (by omega) (by omega)
            (by rw [hsz]; omega) r hE hr1
          obtain ⟨h0, eh0⟩ := finalHisto_ok r.2 (2 * (src.toArray.size / 10)) (src.toArray.size / 10) 0
            (Array.replicate 256 0) (by omega)
          rw [eh0]
          simp only [Kanzi.RLT.Out.bind_ok]
          split <;> simp

end Kanzi.FSD
