/-
C03 (the decoder is total) for `rolzCodec1.Inverse`: the link between the model `rolzInverse`
(`Kanzi/Model/ROLZ1.lean`), whose four `ANSRangeDecoder.Read` calls per chunk are the Option-valued functions
`ansLitDecode` / `ans0DecodeB` (chunk loops `ans0ChunksB`, `ans1ChunksB`; header loop `decFreqChunks`), and the
total model of the same Go function on arbitrary input, `Kanzi.AnsDec.read` (`Kanzi/Model/AnsDec.lean`,
`Properties/C03_ans.lean`).  Property theorems only; proofs in `Kanzi/Proofs/RolzAnsLink.lean`.

What `C03_rolz_terminates_partial` lacked: the Option-valued functions carry fuel of their own (`count` units
for the chunk loop of `Read`, `len(alphabet)` for the frequency-group loop of `decodeHeader`), and when it runs
out they return `some` of a SHORT result, silently.  `C03_rolz_ans_fuel` proves that this never happens: every
one of these loops is fuel independent from the given fuel on, for every input, so the functions compute the
fuel-free loops of the Go code.  With it every fuelled loop reachable from `rolzInverse` has a proved
sufficient bound (`C03_rolz_terminates`).

What is NOT proved, and is FALSE as an unconditional statement (`C03_rolz_ans_stale_witness`): equality of
results between `ans0DecodeB` and `AnsDec.read` on every input.  `decodeChunkV2` clears only 64 bytes after the
payload (`clear(this.buffer[sz:min(sz+64, len)])`); a forged chunk whose announced payload is shorter than what
its states consume reads on into bytes left in `this.buffer` by an earlier chunk or an earlier `Read` on the same
decoder object (`mDec` is read three times per chunk).  `AnsDec.read` has this (`C03_ans0_loop_agrees` is stated
on the real buffer contents); `ans0DecodeChunk` of `Model/EntSmall.lean`, which `ans0ChunksB` calls, reads zeros
there.  The two agree when nothing stale is in reach (new buffer, or consumption within `sz + 64`); the raw path
(`count ≤ 32`) agrees always: `C03_rolz_ans_link_partial`.
-/
import Kanzi.Proofs.RolzAnsLink
import Kanzi.Properties.C03_rolz

namespace Kanzi.C03
open Kanzi.ROLZ Kanzi.Bits

/-- **C03_rolz_ans_fuel.**  Fuel is never the reason of a result of the ANS decoder functions that `rolzInverse`
calls, on ANY input bits, block length, buffer length, bitstream generation (`old`) and literal order:
  1. `ans0DecodeB` (the three `mDec.Read` calls, chunk size 32768, and order-0 literals) is its raw path for
     `count ≤ 32` and otherwise the chunk loop with ANY fuel `count + k`;
  2. `ansLitDecode` (the `litDec.Read` call: order 0 with chunk size 16384 / 32768, order 1 with 256 times that)
     likewise;
  3. the frequency-group loop inside `decodeHeader` (shared by both orders through `decodeFreqTable`), given
     `len(alphabet)` units for `len(alphabet) - 1` frequencies in groups of 6 or 8, likewise.
(`k = 0` is the model as written.)  The remaining loops of these functions are structural recursions: `ReadVarInt`
(at most 5 bytes), `DecodeAlphabet` (32 mask bytes), the `len/4` rounds of four `decodeSymbol`, the `len%4` tail. -/
theorem C03_rolz_ans_fuel (k : Nat) :
    (∀ (bs : Bits) (count buf : Nat), ans0DecodeB bs count 32768 buf =
      if count ≤ 32 then (Kanzi.EntSmall.readBytes count bs).map (fun p => (p.1, p.2, buf))
      else ans0ChunksB (count + k) 32768 count buf bs) ∧
    (∀ (litOrder : Nat) (old : Bool) (bs : Bits) (n : Nat), ansLitDecode litOrder old bs n =
      if litOrder = 0 then
        if n ≤ 32 then (Kanzi.EntSmall.readBytes n bs).map (fun p => (p.1, p.2))
        else (ans0ChunksB (n + k) (if old then 32768 else 16384) n 0 bs).map (fun p => (p.1, p.2.1))
      else if n ≤ 32 then Kanzi.EntSmall.readBytes n bs
      else ans1ChunksB (n + k) ((if old then 32768 else 16384) * 256) n Kanzi.Ans1.freshTables 0 bs) ∧
    (∀ (a : List Nat) (lr : Nat) (bs : Bits),
      Kanzi.EntSmall.decFreqChunks (a.length + k) (Kanzi.EntSmall.chkSizeOf a.length) (Kanzi.EntSmall.llrOf lr)
          (2 ^ lr) (2 ^ lr) (a.length - 1) bs
        = Kanzi.EntSmall.decFreqChunks a.length (Kanzi.EntSmall.chkSizeOf a.length) (Kanzi.EntSmall.llrOf lr)
          (2 ^ lr) (2 ^ lr) (a.length - 1) bs) :=
  ⟨fun bs count buf => ans0DecodeB_fuel (by decide) bs count buf k,
   fun litOrder old bs n => ansLitDecode_fuel litOrder old bs n k,
   fun a lr bs => decodeFreqTable_fuel a lr k bs⟩

/-- the chunk loops themselves, for every positive chunk size and every decoder state (payload buffer length,
previous order-1 tables): all fuels `≥ count` give the same result -/
theorem C03_rolz_ans_loop_fuel {cs : Nat} (hcs : 0 < cs) (f k count buf : Nat) (prev : List (List Nat)) (bs : Bits)
    (h : count ≤ f) :
    ans0ChunksB (f + k) cs count buf bs = ans0ChunksB f cs count buf bs ∧
    ans1ChunksB (f + k) cs count prev buf bs = ans1ChunksB f cs count prev buf bs :=
  ⟨ans0ChunksB_fuel hcs k f count buf bs h, ans1ChunksB_fuel hcs k f count prev buf bs h⟩

/-- **C03_rolz_ans_reads_terminate.**  The `Read` calls of `rolzCodec1.Inverse` as runs of the total model: with
the exact constructor parameters of `litDec` (`order = flags & 1`, default chunk size 16384, or 32768 for a ctx
with `bsVersion < 4`, times 256 for order 1) and of `mDec` (order 0, chunk size 32768), for EVERY bitstream
version `v` (1 included), EVERY decoder object `s` (new, or left by the earlier `Read`s of the chunk), input and
block length: the run never exhausts the `count / chunkSize + 2` iterations of `C03_ans_loop_bound`. -/
theorem C03_rolz_ans_reads_terminate (litOrder : Nat) (old : Bool) (v : Nat) (s : Kanzi.AnsDec.St) (bs : Bits)
    (count : Nat) :
    (Kanzi.AnsDec.read ⟨0, 32768, v⟩ s bs count).cls ≠ .fuel ∧
    (Kanzi.AnsDec.read ⟨litOrder, (if old then 32768 else 16384) * (if litOrder = 0 then 1 else 256), v⟩ s bs count).cls
      ≠ .fuel := by
  refine ⟨C03_ans_terminates ⟨0, 32768, v⟩ (by show 0 < 32768; decide) s bs count, C03_ans_terminates _ ?_ s bs count⟩
  show 0 < (if old then 32768 else 16384) * (if litOrder = 0 then 1 else 256)
  cases old <;> by_cases h : litOrder = 0 <;> simp [h]

/-- **C03_rolz_ans_link_partial.**  Decoder-to-decoder agreement on EVERY input for the raw path of `Read`
(`len(block) ≤ 32`: one `ReadArray`, no header), any parameters `p`, any decoder object `s`: the Option-valued
function returns `none` exactly when the total model ends in `stop eos`, and `some (out, rest, b)` exactly when
it returns `ret count false` with the same bytes, the same rest of the input and the same `len(this.buffer)`.
PARTIAL: the chunked path (`len(block) > 32`) is not linked; an unconditional link is false there (stale bytes
of `this.buffer` beyond `sz + 64`, see the head of this file).  Proved about the parts: `C03_ans0_header_agrees`
(accepted headers), `C03_ans0_loop_agrees` (main loop on the real buffer contents), `C03_ans0_agrees` /
`C03_ans1_agrees` (whole `Read` on encoder output, any decoder object). -/
theorem C03_rolz_ans_link_partial (p : Kanzi.AnsDec.Params) (s : Kanzi.AnsDec.St) (bs : Bits) (count cs : Nat)
    (h : count ≤ 32) :
    (ans0DecodeB bs count cs s.buf.size = none ↔ (Kanzi.AnsDec.read p s bs count).cls = .stop .eos) ∧
    (∀ out rest b, ans0DecodeB bs count cs s.buf.size = some (out, rest, b) ↔
      ((Kanzi.AnsDec.read p s bs count).cls = .ret count false ∧ (Kanzi.AnsDec.read p s bs count).out = out ∧
        (Kanzi.AnsDec.read p s bs count).rest = rest ∧ (Kanzi.AnsDec.read p s bs count).bufSz = b)) :=
  ans0DecodeB_raw p s bs count cs h

/-- **C03_rolz_ans_stale_witness.**  Why `C03_rolz_ans_link_partial` stops at the raw path: a concrete forged
chunk on which the Option-valued ANS model of slice `rolz` and the total model of `decodeChunkV2` return
DIFFERENT bytes (both without error).  Chunk of 48 bytes, uniform table of log range 8 (the same table in both
representations: first conjunct), prefix `sz = 0` and four zero states (read alike: second conjunct).  The
Option-valued `ans0DecodeChunk` returns 48 zero bytes: it reads zeros after the payload.  The total model, on a
decoder object whose 256-byte `this.buffer` was filled with `0xFF` by an earlier chunk, loads 0 bytes, clears 64
(`stale_load`), and the 12 rounds consume 96: it returns 36 zero bytes then 12 bytes `0xFF`.  On a new buffer it
returns the 48 zero bytes too.  So `rolzInverse` can differ from the Go code in the BYTES of a forged block (not in
termination, error class or allocation, which do not depend on them: `C03_rolz_terminates`, `C03_rolz_fault_classes`
and `C03_rolz_alloc_bound` hold for every value of the side buffers). -/
theorem C03_rolz_ans_stale_witness :
    (Kanzi.EntSmall.mkDecTable (List.replicate 256 1) 8).toList
      = (List.range 256).map (fun i => (staleF2s.getD i 0, staleSyms.getD i ⟨0, 0⟩)) ∧
    (Kanzi.AnsDec.chunkPre staleBits).toOpt.map (fun q => (q.sz, q.st0, q.st1, q.st2, q.st3, q.rest.length))
      = some (0, 0, 0, 0, 0, 0) ∧
    Kanzi.EntSmall.ans0DecodeChunk (Kanzi.EntSmall.mkDecTable (List.replicate 256 1) 8) 8 48 staleBits
      = some (List.replicate 48 0, []) ∧
    (Kanzi.AnsDec.loadPayload 0 (Kanzi.AnsDec.bufAlloc 48 (Array.replicate 256 255)) []).toOpt.map
        (fun p => p.1.toList) = some (List.replicate 64 0 ++ List.replicate 192 255) ∧
    (Kanzi.AnsDec.chunkBody 0 8 48 staleF2s staleSyms (List.replicate 64 0 ++ List.replicate 192 255).toArray
        stalePre).toOpt = some (List.replicate 36 0 ++ List.replicate 12 255) ∧
    (Kanzi.AnsDec.chunkBody 0 8 48 staleF2s staleSyms (Kanzi.AnsDec.bufAlloc 48 #[]) stalePre).toOpt
      = some (List.replicate 48 0) :=
  ⟨stale_table, stale_pre, stale_opt, stale_load, stale_total, stale_fresh⟩

/-- **C03_rolz_terminates.**  For EVERY input, destination, `logPosChecks` of the object, ctx and chunk size
`cs > 0`: no loop of the model of `rolzCodec1.Inverse` exhausts its fuel — the chunk loop, the main loop and the
registration loop (`C03_rolz_terminates_partial`), AND the loops inside the four ANS `Read` calls per chunk: the
fuel the model gives them is never binding (`C03_rolz_ans_fuel`, here with one spare unit; any `k` holds), so a
`none` / `.err "ans"` is always a genuine decoder outcome (end of input, rejected header, rejected or oversize
payload) and a `some` is always the result of the complete loop.  That the real `Read` ends within
`count / chunkSize + 2` chunk iterations on the faithful model is `C03_rolz_ans_reads_terminate`. -/
theorem C03_rolz_terminates {cs lpc0 : Nat} {hasBsv : Bool} {bsv : Nat} {src : List Nat} {dst0 : Array Nat}
    (hcs : 0 < cs) :
    rolzInverse cs lpc0 hasBsv bsv src dst0 ≠ .fault "fuel" ∧
    (∀ (bs : Bits) (count buf : Nat), count > 32 →
      ans0DecodeB bs count 32768 buf = ans0ChunksB (count + 1) 32768 count buf bs) ∧
    (∀ (old : Bool) (bs : Bits) (n : Nat), n > 32 →
      ansLitDecode 0 old bs n =
        (ans0ChunksB (n + 1) (if old then 32768 else 16384) n 0 bs).map (fun p => (p.1, p.2.1))) ∧
    (∀ (old : Bool) (bs : Bits) (n : Nat), n > 32 →
      ansLitDecode 1 old bs n =
        ans1ChunksB (n + 1) ((if old then 32768 else 16384) * 256) n Kanzi.Ans1.freshTables 0 bs) := by
  refine ⟨C03_rolz_terminates_partial hcs, ?_, ?_, ?_⟩
  · intro bs count buf hc
    rw [(C03_rolz_ans_fuel 1).1 bs count buf, if_neg (by omega)]
  · intro old bs n hn
    rw [(C03_rolz_ans_fuel 1).2.1 0 old bs n, if_pos rfl, if_neg (by omega)]
  · intro old bs n hn
    rw [(C03_rolz_ans_fuel 1).2.1 1 old bs n, if_neg (by decide), if_neg (by omega)]

end Kanzi.C03

