/-
Line-protocol driver of the `alias` stream (see harness/cmd/kv/alias.go).  Core Lean only.

    af <v> <dt> <dstlen> <data>    AliasCodec.Forward, then (on success) AliasCodec.Inverse of the output
                                   into a destination of len(data) bytes
         -> ok <out> | inv <res> [ctx=<k|->]   res = ok <out> | err:<class> | panic | overrun
          | declined:<class> [ctx=<k|->]       class = dst | small | binary | notdna | slots | savings
          | panic                               ctx= (not with <v> = 0): the dataType entry after the call
    ai <dstlen> <data>             AliasCodec.Inverse on arbitrary input
         -> ok <out> | err:<class> | panic | overrun      class = small | slots | osize | data
    as <name> <dt> <data>          transform.New(ctx, GetType(name)) (name = PACK | DNA): Forward of the
                                   one-stage sequence into MaxEncodedLen bytes, then SetSkipFlags + Inverse
                                   of a fresh sequence into len(data) bytes
         -> seq <flags> <out> | inv <res>

`<v>`: `0` = NewAliasCodec(), `P` = NewAliasCodecWithCtx (transform "PACK"), `D` = NewAliasCodecWithCtx with
`packOnlyDNA = true` (transform "DNA"); `<dt>`: `-` (no dataType entry) or the DataType number.
`<data>`, `<out>`: as in the `rlt` stream (Kanzi/Drv/RLT.lean).
-/
import Kanzi.Model.Alias
import Kanzi.Drv.RLT

namespace Kanzi.Drv
open Kanzi.RLT Kanzi.Alias

def aliasShowInv (r : Alias.Res) (dstLen : Nat) : String :=
  match r with
  | .ok o => if o.length > dstLen then "overrun" else "ok " ++ rltOut o
  | .err e => "err:" ++ e
  | .fault _ => "panic"

def alias (line : String) : String :=
  match (line.splitOn " ").filter (· ≠ "") with
  | ["af", v, dts, d, h] =>
    let dt? : Option Nat := if dts = "-" then some 0 else dts.toNat?
    match dt?, d.toNat?, rltData h with
    | some dt, some d, some b =>
      if v ≠ "0" ∧ v ≠ "P" ∧ v ≠ "D" then "bad-op" else
      if v = "0" ∧ dts ≠ "-" then "bad-op" else
      let onlyDNA := v = "D"
      let ctxs := if v = "0" then "" else
        match aliasCtxWrite onlyDNA dt b d with
        | some k => s!" ctx={k}"
        | none => if dts = "-" then " ctx=-" else s!" ctx={dt}"
      match aliasForward onlyDNA dt b d with
      | .ok t => s!"ok {rltOut t} | inv {aliasShowInv (aliasInverse t b.length) b.length}{ctxs}"
      | .err e => "declined:" ++ e ++ ctxs
      | .fault _ => "panic"
    | _, _, _ => "bad-op"
  | ["ai", d, h] =>
    match d.toNat?, rltData h with
    | some d, some b => aliasShowInv (aliasInverse b d) d
    | _, _ => "bad-op"
  | ["as", name, dts, h] =>
    let dt? : Option Nat := if dts = "-" then some 0 else dts.toNat?
    match dt?, rltData h with
    | some dt, some b =>
      if name ≠ "PACK" ∧ name ≠ "DNA" then "bad-op" else
      let n := b.length
      if n = 0 then "seq ff 0 - | inv ok 0 -" else
      match aliasForward (name = "DNA") dt b (aliasMaxEncodedLen n) with
      | .ok t =>
        -- the sequence hands Inverse an intermediate buffer of max(n, MaxEncodedLen(n)) bytes and then
        -- copies into the destination (error when the result is longer than the destination)
        let inv := match aliasInverse t (aliasMaxEncodedLen n) with
          | .ok o => if o.length > aliasMaxEncodedLen n then "overrun" else if o.length > n then "err" else "ok " ++ rltOut o
          | .err _ => "err"
          | .fault _ => "panic"
        s!"seq 7f {rltOut t} | inv {inv}"
      | .err _ => s!"seq ff {rltOut b} | inv ok {rltOut b}"
      | .fault _ => "panic"
    | _, _ => "bad-op"
  | _ => "bad-op"

end Kanzi.Drv
