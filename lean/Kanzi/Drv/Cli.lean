/-
Line-protocol driver of the `cli` stream (see harness/cmd/kv/g5_cli.go).  Core Lean only.

    cli in=<path> out=<path> : o:out:excl o:in:ro w:out:262136 w:out c:out c:in u:in [| in=.. out=.. : ..]

One task per `|`-separated group: the strace projection of one (source, destination) pair of a real
run of the binary.  Answer per task: `ok` or `reject <k>` (index of the first effect `cliAccepts`
refuses), joined by blanks.  Any other line (scenarios without a trace) is answered `ok`.
-/
import Kanzi.Model.Cli

namespace Kanzi.Drv
open Kanzi.Cli

def cliTgt : String → Option Tgt
  | "in" => some .inp
  | "out" => some .out
  | _ => none

def cliEffect (tok : String) : Option Effect :=
  match tok.splitOn ":" with
  | ["o", t, "ro"] => (cliTgt t).map .openRd
  | ["o", t, "excl"] => (cliTgt t).map (.openWr · true)
  | ["o", t, "trunc"] => (cliTgt t).map (.openWr · false)
  | ["w", t] => (cliTgt t).map (.write · 0)
  | ["w", t, n] => match cliTgt t, n.toNat? with
    | some t, some n => some (.write t n)
    | _, _ => none
  | ["c", t] => (cliTgt t).map .close
  | ["u", t] => (cliTgt t).map .unlink
  | _ => none

def cliTask (grp : String) : String :=
  let ws := (grp.splitOn " ").filter (· ≠ "")
  match (ws.dropWhile (· ≠ ":")).drop 1 |>.mapM cliEffect with
  | none => "bad-op"
  | some es => match accRun .start 0 es with
    | none => "ok"
    | some k => s!"reject {k}"

def cli (line : String) : String :=
  if line.startsWith "cli " then
    " ".intercalate (((String.ofList (line.toList.drop 4)).splitOn "|").map cliTask)
  else "ok"

end Kanzi.Drv
