/-
Line-protocol driver of the `bwt` stream (see harness/cmd/kv/bwt.go).  Core Lean only.

    bf <fdst> <idst> <jobs> <data>    BWTBlockCodec.Forward into <fdst> bytes with the forward BWT given by the
                                      SPEC (naive suffix sort), then Inverse of the output into <idst> bytes
         -> ok <out> | inv <res>   |   err:<class>          class = dst | idxsize | chunks | size
    bi <jobs> <dstlen> <enc>          BWTBlockCodec.Inverse (fresh instance) on arbitrary bytes
         -> <res>
    bq <jobs> (<dstlen> <enc>)+       the same calls one after the other on ONE instance (stale buffer / slots)
         -> <res> ; <res> ; ...
    bt <algo> <jobs> <dstlen> <i0,..,i7> <data>   BWT with the 8 primary index slots set: algo i = Inverse,
                                      m = inverseMergeTPSI, b = inverseBiPSIv2 (called directly, count = len(data))
         -> <res>
    bx <text>                         echo (the real Forward declined: nothing to invert)

`<res>` = `ok <out>` | `err:<class>` | `panic` | `hang`; classes pidx, data, size, dst, hdrsize, chunks.
`<data>`: `-` (empty) or comma separated chunks, each lower-case hex or `HH*count`.
`<out>`: `<len> <hex>` up to 64 bytes, else `<len> #<fnv1a-64 of the bytes, hex>`.
-/
import Kanzi.Model.BWT

namespace Kanzi.Drv
open Kanzi.BWT

def bwtHexVal (c : Char) : Nat :=
  if '0' ≤ c ∧ c ≤ '9' then c.toNat - '0'.toNat
  else if 'a' ≤ c ∧ c ≤ 'f' then c.toNat - 'a'.toNat + 10
  else 256

/-- append the bytes of one chunk (`hex` or `HH*count`) -/
def bwtChunk (acc : Array Nat) (s : String) : Option (Array Nat) :=
  match s.splitOn "*" with
  | [h] =>
    let r := h.foldl (fun (st : Array Nat × Nat × Bool) c =>
      let v := bwtHexVal c
      if v ≥ 16 then (st.1, st.2.1, false)
      else if st.2.1 = 256 then (st.1, v, st.2.2) else (st.1.push (16 * st.2.1 + v), 256, st.2.2)) (acc, 256, true)
    if r.2.2 ∧ r.2.1 = 256 then some r.1 else none
  | [h, c] =>
    match h.toList, c.toNat? with
    | [a, b], some n =>
      if bwtHexVal a < 16 ∧ bwtHexVal b < 16 then some (acc ++ Array.replicate n (16 * bwtHexVal a + bwtHexVal b)) else none
    | _, _ => none
  | _ => none

def bwtData? (s : String) : Option (Array Nat) :=
  if s = "-" then some #[]
  else (s.splitOn ",").foldlM bwtChunk #[]

def bwtHexDigit (n : Nat) : Char :=
  if n < 10 then Char.ofNat ('0'.toNat + n) else Char.ofNat ('a'.toNat + (n - 10))

def bwtHex (l : Array Nat) : String :=
  if l.isEmpty then "-"
  else l.foldl (fun s b => (s.push (bwtHexDigit (b / 16 % 16))).push (bwtHexDigit (b % 16))) ""

def bwtFnv (l : Array Nat) : UInt64 :=
  l.foldl (fun h b => (h ^^^ UInt64.ofNat b) * 1099511628211) 14695981039346656037

def bwtHex64 (v : UInt64) : String :=
  String.ofList ((List.range 16).map (fun k => bwtHexDigit ((v.toNat >>> (4 * (15 - k))) % 16)))

def bwtOut (l : Array Nat) : String :=
  if l.size ≤ 64 then s!"{l.size} {bwtHex l}" else s!"{l.size} #{bwtHex64 (bwtFnv l)}"

def bwtMask (out : Array Nat) (_count _jobs : Nat) (_bipsi : Bool) : Array Nat := out

def bwtShow (r : Res (Array Nat)) (count jobs : Nat) (bipsi : Bool) : String :=
  match r with
  | .ok o => "ok " ++ bwtOut (bwtMask o count jobs bipsi)
  | .err e => "err:" ++ e
  | .fault => "panic"
  | .hang => "hang"

/-- `count` of the inner `BWT.Inverse` call, as the harness derives it from the header -/
def bwtCountOf (enc : Array Nat) : Nat :=
  if enc.size < 2 then 0
  else
    let m := enc.getD 0 0
    let hdr := 1 + (1 <<< ((m >>> 2) &&& 7)) * ((m &&& 3) + 1)
    if enc.size < hdr then 0 else enc.size - hdr

def bwtSlots0 : List Nat := List.replicate 8 0

/-- one `BWTBlockCodec.Inverse` call on an instance with buffer `buf` and slots `slots` -/
def bwtInvCall (buf : Array Nat) (slots : List Nat) (jobs dstLen : Nat) (enc : Array Nat) :
    String × Array Nat × List Nat :=
  let count := bwtCountOf enc
  let r := blockInverse buf slots jobs enc dstLen
  (bwtShow r.1 count jobs (count > THRESHOLD2), r.2.1, r.2.2)

def bwtSeq (jobs : Nat) : List String → Array Nat → List Nat → List String → Option (List String)
  | d :: e :: rest, buf, slots, acc =>
    match d.toNat?, bwtData? e with
    | some d, some enc =>
      let r := bwtInvCall buf slots jobs d enc
      if r.1 = "panic" then some (r.1 :: acc).reverse
      else bwtSeq jobs rest r.2.1 r.2.2 (r.1 :: acc)
    | _, _ => none
  | [], _, _, acc => some acc.reverse
  | _, _, _, _ => none

def bwt (line : String) : String :=
  match (line.splitOn " ").filter (· ≠ "") with
  | ["bf", fd, id, j, h] =>
    match fd.toNat?, id.toNat?, j.toNat?, bwtData? h with
    | some fd, some id, some j, some b =>
      match blockForward b.toList fd with
      | .ok t => s!"ok {bwtOut t.toArray} | inv {(bwtInvCall #[] bwtSlots0 j id t.toArray).1}"
      | .err e => "err:" ++ e
      | .fault => "panic"
      | .hang => "hang"
    | _, _, _, _ => "bad-op"
  | ["bi", j, d, h] =>
    match j.toNat?, d.toNat?, bwtData? h with
    | some j, some d, some enc => (bwtInvCall #[] bwtSlots0 j d enc).1
    | _, _, _ => "bad-op"
  | "bq" :: j :: rest =>
    match j.toNat? with
    | some j =>
      match bwtSeq j rest #[] bwtSlots0 [] with
      | some outs => " ; ".intercalate outs
      | none => "bad-op"
    | none => "bad-op"
  | ["bt", algo, j, d, ix, h] =>
    match j.toNat?, d.toNat?, (ix.splitOn ",").mapM String.toNat?, bwtData? h with
    | some j, some d, some idx, some src =>
      if idx.length ≠ 8 then "bad-op"
      else if algo = "i" then bwtShow (bwtInverse #[] idx j src d).1 src.size j (src.size > THRESHOLD2)
      else if src.size < 2 ∨ d < src.size then "bad-op"
      else if algo = "m" then bwtShow (mergeTPSI #[] idx src).1 src.size j false
      else if algo = "b" then bwtShow (biPSIv2 #[] idx j src d).1 src.size j true
      else "bad-op"
    | _, _, _, _ => "bad-op"
  | "bx" :: rest => " ".intercalate rest
  | _ => "bad-op"

/-- line loop without the `List Char` round trip of `Main.loop` (lines of this stream reach 10 MB) -/
partial def bwtLoop (h : IO.FS.Stream) (out : IO.FS.Stream) : IO Unit := do
  let line ← h.getLine
  if line.isEmpty then return ()
  let l := (line.dropEndWhile (fun (c : Char) => c = '\n' || c = '\r')).toString
  out.putStrLn (bwt l)
  bwtLoop h out

end Kanzi.Drv
