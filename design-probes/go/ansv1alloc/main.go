package main

// forged version-1 stream of 52 bytes.  Before /repo commit a7dd04c one decoding task allocated 144 MiB
// (decodeChunkV1 sized its buffer from the VarInt in the stream, not from the block); since the fix the
// size is rejected ("incorrect chunk size") and about 0.3 MiB is allocated.  args: <version> <jobs>
import (
	"bytes"
	"fmt"
	"io"
	"os"
	"runtime"
	"strconv"

	kio "github.com/flanglet/kanzi-go/v2/io"
)

type bw struct {
	b  []byte
	nb uint64
}

func (w *bw) put(v uint64, n uint) {
	for i := int(n) - 1; i >= 0; i-- {
		if w.nb%8 == 0 {
			w.b = append(w.b, 0)
		}
		if (v>>uint(i))&1 != 0 {
			w.b[w.nb/8] |= 0x80 >> (w.nb % 8)
		}
		w.nb++
	}
}

type rc struct{ *bytes.Reader }

func (rc) Close() error { return nil }

func main() {
	ver := uint64(1)
	_ = ver
	if len(os.Args) > 1 {
		v, _ := strconv.Atoi(os.Args[1])
		ver = uint64(v)
	}
	// block payload: mode 0, length 40, ANS0 header (2 symbols, lr 8), forged size, two states
	blk := &bw{}
	blk.put(0, 8)  // mode: no transform, 1 length byte
	blk.put(40, 8) // preTransformLength
	blk.put(0, 3)  // lr = 8
	blk.put(1, 1)  // partial alphabet
	blk.put(0, 5)  // lastMask 0
	blk.put(3, 8)  // symbols 0 and 1
	blk.put(7, 4)  // logMax 7
	blk.put(99, 7) // f[1] = 100
	// VarInt 2^27 - 1 = 0x7FFFFFF: FF FF FF 3F
	blk.put(0xFF, 8)
	blk.put(0xFF, 8)
	blk.put(0xFF, 8)
	blk.put(0x3F, 8)
	blk.put(40000, 32)
	blk.put(40000, 32)
	blk.put(40000, 32)
	blk.put(40000, 32)
	s := &bw{}
	s.put(0x4B414E5A, 32)
	s.put(ver, 4)
	s.put(0, 1)     // no checksum
	s.put(5, 5)     // ANS0
	s.put(0, 48)    // no transform
	s.put(1024>>4, 28)
	s.put(63, 6) // nbInputBlocks
	s.put(0, 4) // reserved
	// frame: 5 bits (lr-3), then length in bits
	nbits := uint64(len(blk.b)) * 8
	lr := uint(3)
	for nbits >= 1<<lr {
		lr++
	}
	jobs := 1
	if len(os.Args) > 2 {
		jobs, _ = strconv.Atoi(os.Args[2])
	}
	for k := 0; k < jobs; k++ {
		s.put(uint64(lr-3), 5)
		s.put(nbits, lr)
		for _, c := range blk.b {
			s.put(uint64(c), 8)
		}
	}
	s.put(0, 64)
	fmt.Println("stream bytes:", len(s.b), "declared block size: 1024")
	var m0, m1 runtime.MemStats
	runtime.ReadMemStats(&m0)
	r, err := kio.NewReader(rc{bytes.NewReader(s.b)}, uint(jobs))
	if err != nil {
		fmt.Println("NewReader:", err)
		return
	}
	out := make([]byte, 4096)
	n, err := io.ReadFull(r, out)
	runtime.ReadMemStats(&m1)
	fmt.Println("read", n, "err:", err)
	fmt.Printf("bytes allocated while decoding: %d (%.1f MiB)\n", m1.TotalAlloc-m0.TotalAlloc, float64(m1.TotalAlloc-m0.TotalAlloc)/1048576)
}
