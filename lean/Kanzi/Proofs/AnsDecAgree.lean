/-
Agreement of the total ANS decoder model (`Kanzi/Model/AnsDec.lean`) with the decoders of
`Kanzi/Model/EntSmall.lean` (order 0) and `Kanzi/Model/Ans1.lean` (order 1), which are proved to invert
the encoders (`Proofs/Ans0.lean`, `Proofs/Ans1*.lean`): the round-trip theorems carry over to the
model that follows the Go code on arbitrary input.  Core Lean only.
-/
import Kanzi.Proofs.AnsDec
import Kanzi.Proofs.Ans1Block

namespace Kanzi.AnsDec
open Kanzi.Bits Kanzi.EntSmall

/-! ### A. array reads after `fill` / `writePrefix` / `setIfInBounds` -/

theorem getD_fill (start v : Nat) : ∀ (c : Nat) (a : Array Nat) (x : Nat),
    (fill start v c a).getD x 0 = if start ≤ x ∧ x < start + c ∧ x < a.size then v else a.getD x 0 := by
  intro c
  induction c with
  | zero => intro a x; simp only [fill]; rw [if_neg (by omega)]
  | succ c ih =>
    intro a x
    simp only [fill]
    rw [ih, getD_setIfInBounds]
    simp only [Array.size_setIfInBounds]
    by_cases h1 : start ≤ x ∧ x < start + c ∧ x < a.size
    · rw [if_pos h1, if_pos ⟨h1.1, by omega, h1.2.2⟩]
    · rw [if_neg h1]
      by_cases h2 : start + c = x ∧ start + c < a.size
      · rw [if_pos h2, if_pos ⟨by omega, by omega, by omega⟩]
      · rw [if_neg h2, if_neg (by omega)]

theorem getD_writePrefix : ∀ (bs : List Nat) (i : Nat) (a : Array Nat) (x : Nat),
    (writePrefix bs i a).getD x 0
      = if i ≤ x ∧ x < i + bs.length ∧ x < a.size then bs.getD (x - i) 0 else a.getD x 0 := by
  intro bs
  induction bs with
  | nil => intro i a x; simp only [writePrefix, List.length_nil]; rw [if_neg (by omega)]
  | cons b bs ih =>
    intro i a x
    simp only [writePrefix]
    rw [ih, getD_setIfInBounds]
    simp only [Array.size_setIfInBounds, List.length_cons]
    by_cases h1 : i + 1 ≤ x ∧ x < i + 1 + bs.length ∧ x < a.size
    · rw [if_pos h1, if_pos ⟨by omega, by omega, h1.2.2⟩]
      have : x - i = (x - (i + 1)) + 1 := by omega
      rw [this, List.getD_cons_succ]
    · rw [if_neg h1]
      by_cases h2 : i = x ∧ i < a.size
      · rw [if_pos h2, if_pos ⟨by omega, by omega, by omega⟩]
        have : x - i = 0 := by omega
        rw [this, List.getD_cons_zero]
      · rw [if_neg h2, if_neg (by omega)]

def d0 : DecSym := ⟨0, 0⟩

theorem getD_setSym (a : Array DecSym) (i j : Nat) (v : DecSym) :
    (a.setIfInBounds i v).getD j d0 = if i = j ∧ i < a.size then v else a.getD j d0 := by
  simp only [Array.getD_eq_getD_getElem?, Array.getElem?_setIfInBounds]
  by_cases h : i = j
  · subst h
    by_cases h2 : i < a.size
    · simp [h2]
    · simp [h2]
  · simp [h]

/-! ### B. the tables `decodeHeader` builds, as the list `decTblL` of `Proofs/Ans0.lean` -/

theorem decTblL_length (lr : Nat) : ∀ (f : List Nat) (c k : Nat), (decTblL lr c k f).length = f.sum := by
  intro f
  induction f with
  | nil => intro c k; rfl
  | cons fi fs ih => intro c k; simp [decTblL, ih]

/-- every entry: the cumulated frequency is at most the slot, the frequency is capped -/
theorem decTblL_entry (lr : Nat) : ∀ (f : List Nat) (c k j : Nat) (e : Nat × DecSym),
    (decTblL lr c k f)[j]? = some e →
    e.2.cumFreq ≤ c + j ∧ e.2.freq ≤ 2 ^ lr - 1 ∧ k ≤ e.1 ∧ e.1 < k + f.length := by
  intro f
  induction f with
  | nil => intro c k j e h; simp [decTblL] at h
  | cons fi fs ih =>
    intro c k j e h
    simp only [decTblL] at h
    by_cases hj : j < fi
    · rw [List.getElem?_append_left (by simpa using hj)] at h
      simp only [List.getElem?_replicate, hj, if_true, Option.some.injEq] at h
      rw [← h]
      simp only [decSymReset, List.length_cons]
      omega
    · rw [List.getElem?_append_right (by simpa using (by omega : fi ≤ j))] at h
      simp only [List.length_replicate] at h
      have := ih (c + fi) (k + 1) (j - fi) e h
      simp only [List.length_cons]
      omega

/-- effect of the reverse-mapping loop: frames and the table it writes -/
theorem mapLoop_spec (base sbase lr : Nat) : ∀ (fs : List Nat) (i sum : Nat) (f2s : Array Nat) (syms : Array DecSym),
    sum + fs.sum ≤ 2 ^ lr → base + 2 ^ lr ≤ f2s.size → sbase + i + fs.length ≤ syms.size →
    ∃ m, mapLoop base sbase lr fs i sum f2s syms = .ok m ∧
      (∀ x, (x < base + sum ∨ base + sum + fs.sum ≤ x) → m.1.getD x 0 = f2s.getD x 0) ∧
      (∀ y, (y < sbase + i ∨ sbase + i + fs.length ≤ y) → m.2.getD y d0 = syms.getD y d0) ∧
      (∀ j (e : Nat × DecSym), (decTblL lr sum i fs)[j]? = some e →
        m.1.getD (base + sum + j) 0 = e.1 ∧ m.2.getD (sbase + e.1) d0 = e.2) := by
  intro fs
  induction fs with
  | nil =>
    intro i sum f2s syms _ _ _
    exact ⟨(f2s, syms), rfl, fun _ _ => rfl, fun _ _ => rfl, by intro j e h; simp [decTblL] at h⟩
  | cons fi fs ih =>
    intro i sum f2s syms hsum hf hs
    simp only [List.sum_cons, List.length_cons] at hsum hs
    simp only [mapLoop]
    by_cases h0 : fi = 0
    · subst h0
      rw [if_pos rfl]
      obtain ⟨m, hm, hfr, hsr, htab⟩ := ih (i + 1) sum f2s syms (by omega) hf (by omega)
      refine ⟨m, hm, ?_, ?_, ?_⟩
      · intro x hx; exact hfr x (by simp only [List.sum_cons] at hx; omega)
      · intro y hy; exact hsr y (by simp only [List.length_cons] at hy; omega)
      · intro j e he
        simp only [decTblL, List.replicate_zero, List.nil_append, Nat.add_zero] at he
        exact htab j e he
    · rw [if_neg h0, if_neg (by omega)]
      obtain ⟨m, hm, hfr, hsr, htab⟩ := ih (i + 1) (sum + fi) (fill (base + sum) i fi f2s)
        (syms.setIfInBounds (sbase + i) (decSymReset sum fi lr)) (by omega)
        (by rw [fill_size]; exact hf) (by simp only [Array.size_setIfInBounds]; omega)
      refine ⟨m, hm, ?_, ?_, ?_⟩
      · intro x hx
        simp only [List.sum_cons] at hx
        rw [hfr x (by omega), getD_fill, if_neg (by omega)]
      · intro y hy
        simp only [List.length_cons] at hy
        rw [hsr y (by omega), getD_setSym, if_neg (by omega)]
      · intro j e he
        simp only [decTblL] at he
        by_cases hj : j < fi
        · rw [List.getElem?_append_left (by simpa using hj)] at he
          simp only [List.getElem?_replicate, hj, if_true, Option.some.injEq] at he
          rw [← he]
          simp only
          constructor
          · rw [hfr _ (by omega), getD_fill, if_pos ⟨by omega, by omega, by omega⟩]
          · rw [hsr _ (by omega), getD_setSym, if_pos ⟨rfl, by omega⟩]
        · rw [List.getElem?_append_right (by simpa using (by omega : fi ≤ j))] at he
          simp only [List.length_replicate] at he
          have := htab (j - fi) e he
          have e1 : base + (sum + fi) + (j - fi) = base + sum + j := by omega
          rw [e1] at this
          exact this

/-! ### C. one `decodeSymbol`: Go `int` arithmetic = natural-number arithmetic on consistent tables -/

theorem int_mod_pow (x lr : Nat) : (x : Int) % (2 ^ lr : Int) = ((x % 2 ^ lr : Nat) : Int) := by
  have h : (2 ^ lr : Int) = ((2 ^ lr : Nat) : Int) := by simp
  rw [h]
  exact (Int.natCast_mod x (2 ^ lr)).symm

theorem int_div_pow (x lr : Nat) : (x : Int) / (2 ^ lr : Int) = ((x / 2 ^ lr : Nat) : Int) := by
  have h : (2 ^ lr : Int) = ((2 ^ lr : Nat) : Int) := by simp
  rw [h]
  exact (Int.natCast_div x (2 ^ lr)).symm

theorem wrap64_id (y : Int) (h1 : -9223372036854775808 ≤ y) (h2 : y < 9223372036854775808) : wrap64 y = y := by
  unfold wrap64; omega

/-- the refill `(st << 16) | b0 << 8 | b1` on bytes -/
theorem refill_eq (st1 b0 b1 : Nat) (h0 : b0 < 256) (h1 : b1 < 256) :
    (st1 <<< 16) ||| (b0 <<< 8) ||| b1 = st1 * 65536 + (b0 * 256 + b1) := by
  have e1 : (b0 <<< 8) ||| b1 = b1 + b0 * 256 := by
    rw [Nat.or_comm, or_shiftLeft b1 b0 8 (by omega)]
  have hw : b1 + b0 * 256 < 2 ^ 16 := by omega
  rw [Nat.or_assoc, e1, Nat.or_comm, or_shiftLeft _ st1 16 hw]
  omega

/-- the new state value of `decodeSymbol` before the refill, in ℕ -/
def st1Of (x lr : Nat) (sym : DecSym) : Nat := sym.freq * (x / 2 ^ lr) + x % 2 ^ lr - sym.cumFreq

theorem st1Of_le (x lr : Nat) (sym : DecSym) (hf : sym.freq ≤ 2 ^ lr - 1) : st1Of x lr sym ≤ x := by
  unfold st1Of
  have hp : 0 < 2 ^ lr := Nat.pow_pos (by decide)
  have h1 : sym.freq * (x / 2 ^ lr) ≤ (2 ^ lr - 1) * (x / 2 ^ lr) := Nat.mul_le_mul_right _ hf
  have h2 : (2 ^ lr - 1) * (x / 2 ^ lr) + x / 2 ^ lr = 2 ^ lr * (x / 2 ^ lr) := by
    have : 2 ^ lr - 1 + 1 = 2 ^ lr := by omega
    calc (2 ^ lr - 1) * (x / 2 ^ lr) + x / 2 ^ lr = (2 ^ lr - 1 + 1) * (x / 2 ^ lr) := by
          rw [Nat.add_mul, Nat.one_mul]
      _ = 2 ^ lr * (x / 2 ^ lr) := by rw [this]
  have h3 := Nat.div_add_mod x (2 ^ lr)
  generalize sym.freq * (x / 2 ^ lr) = A at *
  generalize (2 ^ lr - 1) * (x / 2 ^ lr) = B at *
  generalize 2 ^ lr * (x / 2 ^ lr) = C at *
  generalize x % 2 ^ lr = r at *
  generalize x / 2 ^ lr = q at *
  clear hf hp
  omega

/-- `decodeStepB` of the proved model, in arithmetic form -/
theorem decodeStepB_arith (x : Nat) (sym : DecSym) (lr : Nat) (ws : List Nat)
    (h0 : ws.headD 0 < 256) (h1 : ws.tail.headD 0 < 256) :
    decodeStepB x sym lr ws =
      if st1Of x lr sym < 32768 then
        (st1Of x lr sym * 65536 + (ws.headD 0 * 256 + ws.tail.headD 0), ws.tail.tail)
      else (st1Of x lr sym, ws) := by
  unfold decodeStepB st1Of
  simp only [Nat.shiftRight_eq_div_pow, Nat.and_two_pow_sub_one_eq_mod, ansTop]
  split
  · rw [refill_eq _ _ _ h0 h1]
  · rfl

/-- `decodeSymbol` of the total model on a non-negative 32-bit state with a consistent symbol -/
theorem stepSym_arith (lr : Nat) (buf : Array Nat) (n x : Nat) (sym : DecSym) (hx : x < 2 ^ 32)
    (hc : sym.cumFreq ≤ x % 2 ^ lr) (hf : sym.freq ≤ 2 ^ lr - 1) (hn : n + 1 < buf.size) :
    stepSym lr buf n (x : Int) sym =
      if st1Of x lr sym < 32768 then
        .ok (n + 2, ((st1Of x lr sym * 65536 + (buf.getD n 0 * 256 + buf.getD (n + 1) 0) : Nat) : Int))
      else .ok (n, ((st1Of x lr sym : Nat) : Int)) := by
  have hle := st1Of_le x lr sym hf
  have hcast : (sym.freq : Int) * ((x : Int) / (2 ^ lr : Int)) + (x : Int) % (2 ^ lr : Int) - (sym.cumFreq : Int)
      = ((st1Of x lr sym : Nat) : Int) := by
    rw [int_div_pow, int_mod_pow]
    unfold st1Of
    have : sym.cumFreq ≤ sym.freq * (x / 2 ^ lr) + x % 2 ^ lr := by omega
    rw [Int.natCast_sub this, Int.natCast_add, Int.natCast_mul]
  unfold stepSym
  simp only
  rw [hcast, wrap64_id _ (by omega) (by omega)]
  by_cases hlt : st1Of x lr sym < 32768
  · rw [if_pos (by omega), if_pos hn, if_pos hlt]
    have : wrap64 (((st1Of x lr sym : Nat) : Int) * 65536) = ((st1Of x lr sym : Nat) : Int) * 65536 :=
      wrap64_id _ (by omega) (by omega)
    rw [this]
    simp only [Int.natCast_add, Int.natCast_mul]
    rfl
  · rw [if_neg (by omega), if_neg hlt]

/-! ### D. lookup + step, one round, all rounds (order 0) -/

/-- the flat tables at `base` / `sbase` hold the slot table `T` -/
def TabRel (f2s : Array Nat) (syms : Array DecSym) (base sbase : Nat) (T : List (Nat × DecSym)) : Prop :=
  ∀ (j : Nat) (e : Nat × DecSym), T[j]? = some e → f2s.getD (base + j) 0 = e.1 ∧ syms.getD (sbase + e.1) d0 = e.2

/-- a consistent slot table for log range `lr` -/
structure TabOk (lr : Nat) (T : List (Nat × DecSym)) : Prop where
  len : T.length = 2 ^ lr
  ent : ∀ (j : Nat) (e : Nat × DecSym), T[j]? = some e → e.2.cumFreq ≤ j ∧ e.2.freq ≤ 2 ^ lr - 1 ∧ e.1 < 256

theorem decTblL_ok (lr : Nat) (f : List Nat) (hl : f.length ≤ 256) (hs : f.sum = 2 ^ lr) :
    TabOk lr (decTblL lr 0 0 f) := by
  refine ⟨by rw [decTblL_length, hs], ?_⟩
  intro j e he
  have := decTblL_entry lr f 0 0 j e he
  omega

theorem headD_drop (L : List Nat) (n : Nat) : (L.drop n).headD 0 = L.getD n 0 := by
  rw [List.headD_eq_head?_getD, List.head?_drop, List.getD_eq_getElem?_getD]

theorem toList_getD (a : Array Nat) (n : Nat) : a.toList.getD n 0 = a.getD n 0 := by
  simp [List.getD_eq_getElem?_getD, Array.getD_eq_getD_getElem?]

/-- one symbol: lookup in the flat tables + state update, against the proved model -/
theorem sym_agree (lr : Nat) (f2s : Array Nat) (syms : Array DecSym) (buf : Array Nat) (T : List (Nat × DecSym))
    (prv x n : Nat) (hrel : TabRel f2s syms (prv * 2 ^ lr) (prv * 256) T) (hok : TabOk lr T)
    (hf : (prv + 1) * 2 ^ lr ≤ f2s.size) (hs : (prv + 1) * 256 ≤ syms.size) (hb : Bytes buf)
    (hx : x < 2 ^ 32) (hn : n + 1 < buf.size) :
    ∃ (e : Nat × DecSym) (x' n' : Nat), T[x % 2 ^ lr]? = some e ∧ look lr f2s syms prv (x : Int) = .ok e ∧
      stepSym lr buf n (x : Int) e.2 = .ok (n', (x' : Int)) ∧
      decodeStepB x e.2 lr (buf.toList.drop n) = (x', buf.toList.drop n') ∧
      x' < 2 ^ 32 ∧ n ≤ n' ∧ n' ≤ n + 2 := by
  have hp : 0 < 2 ^ lr := Nat.pow_pos (by decide)
  have hslot : x % 2 ^ lr < T.length := by rw [hok.len]; exact Nat.mod_lt _ hp
  have hget : T[x % 2 ^ lr]? = some T[x % 2 ^ lr] := List.getElem?_eq_getElem hslot
  generalize T[x % 2 ^ lr] = e at hget
  obtain ⟨hc, hfr, he256⟩ := hok.ent _ e hget
  obtain ⟨hr1, hr2⟩ := hrel _ e hget
  -- lookup
  have hlook : look lr f2s syms prv (x : Int) = .ok e := by
    unfold look
    simp only
    rw [int_mod_pow, Int.toNat_natCast]
    have e1 : (prv + 1) * 2 ^ lr = prv * 2 ^ lr + 2 ^ lr := by rw [Nat.add_mul, Nat.one_mul]
    have e2 : (prv + 1) * 256 = prv * 256 + 256 := by omega
    have hlt := Nat.mod_lt x hp
    rw [if_pos (by omega), hr1, if_pos ⟨he256, by omega⟩]
    simp only [d0] at hr2
    rw [hr2]
  -- step
  have harith := stepSym_arith lr buf n x e.2 hx hc hfr hn
  have hh0 : (buf.toList.drop n).headD 0 = buf.getD n 0 := by rw [headD_drop, toList_getD]
  have hh1 : (buf.toList.drop n).tail.headD 0 = buf.getD (n + 1) 0 := by
    rw [List.tail_drop, headD_drop, toList_getD]
  have hold := decodeStepB_arith x e.2 lr (buf.toList.drop n) (by rw [hh0]; exact hb n) (by rw [hh1]; exact hb (n + 1))
  have hle := st1Of_le x lr e.2 hfr
  by_cases hlt : st1Of x lr e.2 < 32768
  · rw [if_pos hlt] at harith hold
    refine ⟨e, _, n + 2, hget, hlook, harith, ?_, ?_, by omega, by omega⟩
    · rw [hold, hh0, hh1, List.tail_drop, List.tail_drop]
    · have := hb n
      have := hb (n + 1)
      omega
  · rw [if_neg hlt] at harith hold
    exact ⟨e, _, n, hget, hlook, harith, hold, by omega, by omega, by omega⟩

theorem toArray_getD {α : Type} (T : List α) (j : Nat) (e d : α) (h : T[j]? = some e) :
    T.toArray.getD j d = e := by
  simp [Array.getD_eq_getD_getElem?, h]

/-- one round of four symbols, order 0: the total model against `decRound` of the proved model -/
theorem round0_agree (lr : Nat) (f2s : Array Nat) (syms : Array DecSym) (buf : Array Nat) (T : List (Nat × DecSym))
    (hrel : TabRel f2s syms 0 0 T) (hok : TabOk lr T) (hf : 2 ^ lr ≤ f2s.size) (hs : 256 ≤ syms.size)
    (hb : Bytes buf) (x0 x1 x2 x3 n : Nat) (h0 : x0 < 2 ^ 32) (h1 : x1 < 2 ^ 32) (h2 : x2 < 2 ^ 32)
    (h3 : x3 < 2 ^ 32) (hn : n + 8 ≤ buf.size) :
    ∃ (y0 y1 y2 y3 n' c0 c1 c2 c3 : Nat),
      round lr f2s syms buf (0, 0, 0, 0) ⟨x0, x1, x2, x3, n⟩ = .ok ((c0, c1, c2, c3), ⟨(y0 : Int), y1, y2, y3, n'⟩) ∧
      decRound T.toArray lr ⟨x0, x1, x2, x3, buf.toList.drop n⟩
        = ([c3, c2, c1, c0], ⟨y0, y1, y2, y3, buf.toList.drop n'⟩) ∧
      y0 < 2 ^ 32 ∧ y1 < 2 ^ 32 ∧ y2 < 2 ^ 32 ∧ y3 < 2 ^ 32 ∧ n ≤ n' ∧ n' ≤ n + 8 := by
  have hrel' : TabRel f2s syms (0 * 2 ^ lr) (0 * 256) T := by simpa using hrel
  have hf' : (0 + 1) * 2 ^ lr ≤ f2s.size := by simpa using hf
  have hs' : (0 + 1) * 256 ≤ syms.size := by simpa using hs
  obtain ⟨e3, y3, n3, g3, l3, s3, o3, b3, k3, k3'⟩ := sym_agree lr f2s syms buf T 0 x3 n hrel' hok hf' hs' hb h3 (by omega)
  obtain ⟨e2, y2, n2, g2, l2, s2, o2, b2, k2, k2'⟩ := sym_agree lr f2s syms buf T 0 x2 n3 hrel' hok hf' hs' hb h2 (by omega)
  obtain ⟨e1, y1, n1, g1, l1, s1, o1, b1, k1, k1'⟩ := sym_agree lr f2s syms buf T 0 x1 n2 hrel' hok hf' hs' hb h1 (by omega)
  obtain ⟨e0, y0, n0, g0, l0, s0, o0, b0, k0, k0'⟩ := sym_agree lr f2s syms buf T 0 x0 n1 hrel' hok hf' hs' hb h0 (by omega)
  refine ⟨y0, y1, y2, y3, n0, e0.1, e1.1, e2.1, e3.1, ?_, ?_, b0, b1, b2, b3, by omega, by omega⟩
  · unfold round
    simp only [R.bind, l3, s3, l2, s2, l1, s1, l0, s0]
  · unfold decRound
    simp only [Nat.and_two_pow_sub_one_eq_mod]
    rw [toArray_getD T _ e3 _ g3, toArray_getD T _ e2 _ g2, toArray_getD T _ e1 _ g1, toArray_getD T _ e0 _ g0]
    simp only [o3, o2, o1, o0]

theorem rounds0_agree (lr : Nat) (f2s : Array Nat) (syms : Array DecSym) (buf : Array Nat) (T : List (Nat × DecSym))
    (hrel : TabRel f2s syms 0 0 T) (hok : TabOk lr T) (hf : 2 ^ lr ≤ f2s.size) (hs : 256 ≤ syms.size)
    (hb : Bytes buf) : ∀ (m x0 x1 x2 x3 n : Nat), x0 < 2 ^ 32 → x1 < 2 ^ 32 → x2 < 2 ^ 32 → x3 < 2 ^ 32 →
    n + 8 * m ≤ buf.size →
    ∃ (y0 y1 y2 y3 n' : Nat),
      rounds0 lr f2s syms buf m ⟨x0, x1, x2, x3, n⟩
        = .ok ((decRounds T.toArray lr m ⟨x0, x1, x2, x3, buf.toList.drop n⟩).1, ⟨(y0 : Int), y1, y2, y3, n'⟩) ∧
      (decRounds T.toArray lr m ⟨x0, x1, x2, x3, buf.toList.drop n⟩).2 = ⟨y0, y1, y2, y3, buf.toList.drop n'⟩ ∧
      n ≤ n' ∧ n' ≤ n + 8 * m := by
  intro m
  induction m with
  | zero =>
    intro x0 x1 x2 x3 n _ _ _ _ _
    exact ⟨x0, x1, x2, x3, n, rfl, rfl, by omega, by omega⟩
  | succ m ih =>
    intro x0 x1 x2 x3 n h0 h1 h2 h3 hn
    obtain ⟨y0, y1, y2, y3, n', c0, c1, c2, c3, hr, ho, b0, b1, b2, b3, k, k'⟩ :=
      round0_agree lr f2s syms buf T hrel hok hf hs hb x0 x1 x2 x3 n h0 h1 h2 h3 (by omega)
    obtain ⟨z0, z1, z2, z3, n'', hr2, ho2, k2, k2'⟩ := ih y0 y1 y2 y3 n' b0 b1 b2 b3 (by omega)
    refine ⟨z0, z1, z2, z3, n'', ?_, ?_, by omega, by omega⟩
    · simp only [rounds0, hr, R.bind, hr2, decRounds, ho]
      simp
    · simp only [decRounds, ho]
      exact ho2

/-! ### E. the raw tail, the buffer after `ReadArray`, one whole chunk of encoder output (order 0) -/

theorem tailBytes_eq (buf : Array Nat) : ∀ (c n : Nat), n + c ≤ buf.size →
    tailBytes buf c n = .ok ((buf.toList.drop n).take c) := by
  intro c
  induction c with
  | zero => intro n _; simp [tailBytes]
  | succ c ih =>
    intro n h
    simp only [tailBytes]
    rw [if_pos (by omega), ih (n + 1) (by omega)]
    simp only [R.bind]
    have hlt : n < buf.toList.length := by simp; omega
    rw [List.drop_eq_getElem_cons hlt, List.take_succ_cons]
    congr 2
    have hn : n < buf.size := by omega
    simp [Array.getD_eq_getD_getElem?, Array.getElem?_eq_getElem hn]

theorem take_getD (L : List Nat) (k i : Nat) (h : i < k) : (L.take k).getD i 0 = L.getD i 0 := by
  simp [List.getD_eq_getElem?_getD, h]

/-- after `ReadArray(this.buffer, 8*sz)` + guard clearing the buffer is the payload followed by
    other bytes -/
theorem loadPayload_list (sz : Nat) (buf : Array Nat) (bs : Bits) (pl : Array Nat × Bits)
    (h : loadPayload sz buf bs = .ok pl) (hb : Bytes buf) :
    ∃ bytes J, readBytes sz bs = some (bytes, pl.2) ∧ pl.1.toList = bytes ++ J ∧ Bytes pl.1 := by
  unfold loadPayload at h
  split at h
  · cases h
  · rename_i hsz
    cases hr : readBytes sz bs with
    | none => rw [hr] at h; cases h
    | some q =>
      obtain ⟨bytes, r⟩ := q
      rw [hr] at h
      simp only [R.ok.injEq] at h
      have hbl : bytes.length = sz ∧ ∀ b ∈ bytes, b < 256 := by
        unfold readBytes at hr
        split at hr
        · simp only [Option.some.injEq, Prod.mk.injEq] at hr
          rw [← hr.1]
          exact ⟨bytesOf_length _ _, bytesOf_lt _ _⟩
        · cases hr
      refine ⟨bytes, pl.1.toList.drop sz, by rw [← h], ?_, ?_⟩
      · have hsize : pl.1.size = buf.size := by rw [← h]; simp only [fill_size, writePrefix_size]
        have ht : pl.1.toList.take sz = bytes := by
          apply ext_getD
          · simp only [List.length_take, Array.length_toList, hbl.1]; omega
          · intro i hi
            have hi' : i < sz := by
              simp only [List.length_take, Array.length_toList] at hi; omega
            rw [take_getD _ _ _ hi', toList_getD, ← h]
            simp only
            rw [getD_fill, if_neg (by omega), getD_writePrefix,
              if_pos ⟨by omega, by omega, by omega⟩, Nat.sub_zero]
        rw [← ht, List.take_append_drop]
      · rw [← h]
        exact Bytes.fill (by omega) _ _ (Bytes.writePrefix _ _ _ hbl.2 hb)

theorem bufAlloc_bytes (len : Nat) (buf : Array Nat) (hb : Bytes buf) : Bytes (bufAlloc len buf) := by
  unfold bufAlloc
  split
  · exact Bytes.replicate _
  · exact hb

/-- the encoder never reads what is already in its output buffer -/
theorem encRound_junk (blk : Array Nat) (syms : Array EncSym) (i : Nat) (a b c d : Nat) (o J : List Nat) :
    encRound blk syms i ⟨a, b, c, d, o ++ J⟩
      = ⟨(encRound blk syms i ⟨a, b, c, d, o⟩).st0, (encRound blk syms i ⟨a, b, c, d, o⟩).st1,
         (encRound blk syms i ⟨a, b, c, d, o⟩).st2, (encRound blk syms i ⟨a, b, c, d, o⟩).st3,
         (encRound blk syms i ⟨a, b, c, d, o⟩).out ++ J⟩ := by
  simp only [encRound, List.append_assoc]

theorem encRounds_junk (blk : Array Nat) (syms : Array EncSym) (J : List Nat) : ∀ (fuel i : Nat) (s : EncSt),
    encRounds blk syms fuel i ⟨s.st0, s.st1, s.st2, s.st3, s.out ++ J⟩
      = ⟨(encRounds blk syms fuel i s).st0, (encRounds blk syms fuel i s).st1,
         (encRounds blk syms fuel i s).st2, (encRounds blk syms fuel i s).st3,
         (encRounds blk syms fuel i s).out ++ J⟩ := by
  intro fuel
  induction fuel with
  | zero => intro i s; rfl
  | succ fuel ih =>
    intro i s
    simp only [encRounds]
    split
    · rw [encRound_junk]
      exact ih (i - 4) (encRound blk syms i ⟨s.st0, s.st1, s.st2, s.st3, s.out⟩)
    · rfl

theorem Bytes.mem_toList {a : Array Nat} (h : Bytes a) : ∀ b ∈ a.toList, b < 256 := by
  intro b hb
  obtain ⟨i, hi, rfl⟩ := List.getElem_of_mem hb
  have := h i
  simp only [Array.length_toList] at hi
  simpa [Array.getD_eq_getD_getElem?, Array.getElem?_eq_getElem hi] using this

/-- **the decoding part of `decodeChunkV2` (order 0) on encoder output**: with the tables of the
    header and the payload in the buffer — followed by ANY other bytes `J` (guard zeros, stale bytes
    of earlier chunks) — the total model returns the chunk -/
theorem chunkBody_enc0 (blk f : List Nat) (lr : Nat) (hlr : 8 ≤ lr ∧ lr ≤ 15) (hlen : f.length ≤ 256)
    (hsum : f.sum = 2 ^ lr) (hsym : ∀ a ∈ blk, SymOk f a)
    (f2s : Array Nat) (syms : Array DecSym) (buf : Array Nat) (J : List Nat)
    (hrel : TabRel f2s syms 0 0 (decTblL lr 0 0 f)) (hf : 2 ^ lr ≤ f2s.size) (hs : 256 ≤ syms.size)
    (hb : Bytes buf) (hL : buf.toList = (ans0Final blk (mkEncSyms f lr)).out ++ J)
    (hbuf : 2 * blk.length ≤ buf.size) (q : Pre)
    (h0 : q.st0 = (ans0Final blk (mkEncSyms f lr)).st0) (h1 : q.st1 = (ans0Final blk (mkEncSyms f lr)).st1)
    (h2 : q.st2 = (ans0Final blk (mkEncSyms f lr)).st2) (h3 : q.st3 = (ans0Final blk (mkEncSyms f lr)).st3) :
    chunkBody 0 lr blk.length f2s syms buf q = .ok blk := by
  have hJ : ∀ b ∈ J, b < 256 := fun b hbJ => hb.mem_toList b (by rw [hL]; exact List.mem_append_right _ hbJ)
  have htail : ∀ b ∈ blk.drop ((blk.length / 4) * 4), b < 256 := by
    intro b hbt
    have := (hsym b (List.mem_of_mem_drop hbt)).1
    omega
  have hinit : ValidSt ⟨ansTop, ansTop, ansTop, ansTop, blk.drop ((blk.length / 4) * 4) ++ J⟩ := by
    refine ⟨stOk_top, stOk_top, stOk_top, stOk_top, ?_⟩
    intro b hb'
    rcases List.mem_append.mp hb' with h | h
    · exact htail b h
    · exact hJ b h
  have hm : 4 * (blk.length / 4) ≤ blk.length := by omega
  obtain ⟨v, d, _⟩ := rounds_rt blk f lr hlr hsum hsym (blk.length / 4) (blk.length / 4 + 1) _ (by omega) hm hinit
  have hc : 4 * (blk.length / 4) = blk.length / 4 * 4 := Nat.mul_comm _ _
  rw [hc] at v d
  have hj := encRounds_junk blk.toArray (mkEncSyms f lr) J (blk.length / 4 + 1) (blk.length / 4 * 4 - 1)
    ⟨ansTop, ansTop, ansTop, ansTop, blk.drop ((blk.length / 4) * 4)⟩
  simp only at hj
  rw [hj] at v d
  have hS : encRounds blk.toArray (mkEncSyms f lr) (blk.length / 4 + 1) (blk.length / 4 * 4 - 1)
      ⟨ansTop, ansTop, ansTop, ansTop, blk.drop ((blk.length / 4) * 4)⟩ = ans0Final blk (mkEncSyms f lr) := rfl
  rw [hS] at v d
  generalize hSS : ans0Final blk (mkEncSyms f lr) = S at *
  have hb32 : ∀ x, StOk x → x < 2 ^ 32 := fun x h => by unfold StOk at h; omega
  obtain ⟨y0, y1, y2, y3, n', hr, ho, _, hn'⟩ := rounds0_agree lr f2s syms buf (decTblL lr 0 0 f) hrel
    (decTblL_ok lr f hlen hsum) hf hs hb (blk.length / 4) S.st0 S.st1 S.st2 S.st3 0 (hb32 _ v.h0) (hb32 _ v.h1)
    (hb32 _ v.h2) (hb32 _ v.h3) (by omega)
  rw [List.drop_zero, hL, ← mkDecTable_eq] at hr ho
  simp only [toDec] at d
  rw [d] at hr ho
  simp only [DecSt.mk.injEq] at ho
  obtain ⟨_, _, _, _, hws⟩ := ho
  unfold chunkBody
  simp only
  rw [if_pos True.intro, if_neg (by omega), h0, h1, h2, h3, hr]
  simp only [R.bind]
  have hlenL : buf.toList.length = buf.size := Array.length_toList
  have hdl : (List.drop n' (S.out ++ J)).length = buf.size - n' := by
    rw [← hL, List.length_drop, hlenL]
  have htl : (blk.drop (blk.length / 4 * 4)).length = blk.length % 4 := by
    rw [List.length_drop]; omega
  rw [← hws, List.length_append, htl] at hdl
  rw [tailBytes_eq buf _ _ (by omega)]
  simp only
  rw [hL, ← hws, List.take_left' htl, List.take_append_drop]

/-! ### F. the header: the total model against `decodeFreqTable` / `ansDecodeHeader` on ANY input -/

theorem toOpt_ok {α : Type} (x : R α) (a : α) (h : x.toOpt = some a) : x = .ok a := by
  cases x <;> simp [R.toOpt] at h
  rw [h]

theorem decFreqsR_toOpt (logMax scale : Nat) : ∀ (n : Nat) (bs : Bits),
    (decFreqsR n logMax scale bs).toOpt = decFreqs n logMax scale bs := by
  intro n
  induction n with
  | zero => intro bs; rfl
  | succ n ih =>
    intro bs
    simp only [decFreqsR, decFreqs]
    split
    · rw [← ih bs]
      cases decFreqsR n logMax scale bs <;> rfl
    · cases readBits logMax bs with
      | none => rfl
      | some q =>
        obtain ⟨v, r⟩ := q
        simp only
        split
        · rfl
        · rw [← ih r]
          cases decFreqsR n logMax scale r <;> rfl

theorem decFreqChunksR_toOpt (chk llr scale : Nat) : ∀ (fuel count : Nat) (bs : Bits),
    (decFreqChunksR fuel chk llr scale count bs).toOpt = decFreqChunks fuel chk llr scale scale count bs := by
  intro fuel
  induction fuel with
  | zero => intro count bs; rfl
  | succ fuel ih =>
    intro count bs
    simp only [decFreqChunksR, decFreqChunks]
    split
    · rfl
    · cases readBits llr bs with
      | none => rfl
      | some q =>
        obtain ⟨logMax, r⟩ := q
        simp only
        split
        · rfl
        · rw [← decFreqsR_toOpt]
          cases hc : decFreqsR (min chk count) logMax scale r with
          | ok c =>
            simp only [R.bind, R.toOpt]
            rw [← ih]
            cases decFreqChunksR fuel chk llr scale (count - min chk count) c.2 <;> rfl
          | err => rfl
          | eos => rfl
          | fault => rfl
          | overrun => rfl

theorem freqTableR_toOpt (a : List Nat) (lr : Nat) (bs : Bits) :
    (freqTableR a lr bs).toOpt = decodeFreqTable a lr bs := by
  unfold freqTableR decodeFreqTable
  rw [← decFreqChunksR_toOpt]
  cases decFreqChunksR a.length (chkSizeOf a.length) (llrOf lr) (2 ^ lr) (a.length - 1) bs with
  | ok p =>
    obtain ⟨fs, r⟩ := p
    simp only [R.bind, R.toOpt]
    by_cases hsum : 2 ^ lr ≤ fs.sum
    · rw [if_pos hsum, if_pos hsum]
    · rw [if_neg hsum, if_neg hsum]
  | err => rfl
  | eos => rfl
  | fault => rfl
  | overrun => rfl

/-- **`decodeHeader` (order 0) of the total model = `ansDecodeHeader` of the proved model, on any
    input the latter accepts with a non-empty alphabet**: same alphabet, same rest, and the flat
    `f2s` / `symbols` hold exactly the slot table `mkDecTable tbl lr` -/
theorem hdr0_agree (bs : Bits) (a tbl : List Nat) (lr : Nat) (r : Bits)
    (h : ansDecodeHeader bs = some ((a, tbl, lr), r)) (hne : a ≠ [])
    (f2s : Array Nat) (syms : Array DecSym) (hsy : 256 ≤ syms.size) (hb : Bytes f2s) :
    ∃ l r0 hd, readBits 3 bs = some (l, r0) ∧ lr = 8 + l ∧ hdrBody 1 lr f2s syms r0 = .ok hd ∧
      hd.res = a.length ∧ hd.a0 = a.headD 0 ∧ hd.rest = r ∧
      TabRel hd.f2s hd.syms 0 0 (decTblL lr 0 0 tbl) ∧ tbl.length = 256 ∧ tbl.sum = 2 ^ lr ∧
      2 ^ lr ≤ hd.f2s.size ∧ hd.syms.size = syms.size ∧ Bytes hd.f2s := by
  unfold ansDecodeHeader at h
  cases h3 : readBits 3 bs with
  | none => rw [h3] at h; cases h
  | some q =>
    obtain ⟨l, r0⟩ := q
    rw [h3] at h
    simp only at h
    cases hd : decodeAlphabet r0 with
    | none => rw [hd] at h; cases h
    | some q2 =>
      obtain ⟨a', r1⟩ := q2
      rw [hd] at h
      simp only at h
      split at h
      · rename_i h0
        simp only [Option.some.injEq, Prod.mk.injEq] at h
        exact absurd h.1.1.symm hne
      · rename_i h0
        cases hft : decodeFreqTable a' (8 + l) r1 with
        | none => rw [hft] at h; cases h
        | some q3 =>
          obtain ⟨tbl', r2⟩ := q3
          rw [hft] at h
          simp only [Option.some.injEq, Prod.mk.injEq] at h
          obtain ⟨⟨ha, htb, hlr⟩, hr⟩ := h
          subst ha; subst htb; subst hlr; subst hr
          obtain ⟨hs, hlt⟩ := decodeAlphabet_facts r0 a' r1 hd
          have hfr : freqTableR a' (8 + l) r1 = .ok (tbl', r2) :=
            toOpt_ok _ _ (by rw [freqTableR_toOpt]; exact hft)
          obtain ⟨htl, hts⟩ := (freqTableR_safe a' (8 + l) r1 hs hlt hne).of_ok hfr
          simp only at htl hts
          have hfa : 2 ^ (8 + l) ≤ (f2sAlloc 1 (8 + l) f2s).size := by
            rw [f2sAlloc_size]; have := f2sSizeAfter_ge 1 (8 + l) f2s.size; omega
          obtain ⟨m, hm, _, _, htab⟩ := mapLoop_spec (0 * 2 ^ (8 + l)) (0 * 256) (8 + l) tbl' 0 0
            (f2sAlloc 1 (8 + l) f2s) syms (by omega) (by omega) (by omega)
          have hsafe := hdrBody_safe 1 (8 + l) f2s syms r0 (by omega) hb
          have hbody : hdrBody 1 (8 + l) f2s syms r0 = .ok ⟨0 + a'.length, a'.headD 0, m.1, m.2, r2⟩ := by
            unfold hdrBody
            simp only [hdrCtxs, hdrCtx, hd, if_neg h0, hfr, R.bind]
            rw [if_neg (by omega), if_neg (by omega), hm]
            simp
          rw [hbody] at hsafe
          simp only [R.Safe] at hsafe
          refine ⟨l, r0, _, rfl, rfl, hbody, by simp, rfl, rfl, ?_, htl, hts, ?_, hsafe.2.1, hsafe.2.2⟩
          · intro j e he
            have := htab j e he
            simpa using this
          · rw [hsafe.1]; have := f2sSizeAfter_ge 1 (8 + l) f2s.size; omega

/-! ### G. one chunk and the whole block of encoder output (order 0) -/

/-- `oneChunk_facts` of `Proofs/Ans0.lean` with the facts about the normalised table exported
    (same proof) -/
theorem oneChunk_table (c : List Nat) (lr : Nat) (hlr : 8 ≤ lr ∧ lr ≤ 15) (hne : c ≠ [])
    (hb : ∀ b ∈ c, b < 256) :
    ∃ o, Kanzi.Normalize.normalize (histogram c) c.length (2 ^ lr) = .ok o ∧
      o.alphabet.length = o.size ∧ o.alphabet ≠ [] ∧
      (∀ rest : Bits, ansDecodeHeader (ansEncodeHeader o.alphabet o.freqs lr ++ rest)
          = some ((o.alphabet, o.freqs, lr), rest)) ∧
      (o.alphabet.length = 1 → c = List.replicate c.length (o.alphabet.headD 0)) ∧
      o.freqs.length ≤ 256 ∧ o.freqs.sum = 2 ^ lr ∧ (∀ a ∈ c, SymOk o.freqs a) := by
  have hp8 : 2 ^ 8 ≤ 2 ^ lr := Nat.pow_le_pow_right (by decide) hlr.1
  have hp16 : 2 ^ lr ≤ 2 ^ 16 := Nat.pow_le_pow_right (by decide) (by omega)
  have hlen := histogram_length c
  have hsumh := histogram_sum c hb
  have hpos : 0 < c.length := List.length_pos_iff.mpr hne
  obtain ⟨o, ho, hl, hsum, hsup, _, hasz, hsorted, hmem⟩ :=
    Kanzi.Normalize.normalize_valid (histogram c) (2 ^ lr) (by omega) ⟨by omega, by omega⟩ (by omega)
  rw [hsumh] at ho
  have hc : ∀ b ∈ c, b < 256 → 0 < (histogram c).getD b 0 := fun b hbc h => histogram_pos c b hbc h
  generalize histogram c = h at *
  have halt : ∀ s ∈ o.alphabet, s < 256 := fun s hs => by have := ((hmem s).mp hs).1; omega
  have hz : ∀ i, i ∉ o.alphabet → o.freqs.getD i 0 = 0 := by
    intro i hi
    by_cases hi256 : i < h.length
    · have hh : h.getD i 0 = 0 := by
        by_contra hc
        exact hi ((hmem i).mpr ⟨hi256, hc⟩)
      have := hsup i hi256
      rw [hh] at this
      have : ¬ 0 < o.freqs.getD i 0 := fun hc => by have := this.mpr hc; omega
      omega
    · have hn : o.freqs[i]? = none := List.getElem?_eq_none (by omega)
      rw [List.getD_eq_getElem?_getD, hn]; rfl
  have hposA : ∀ s ∈ o.alphabet, 1 ≤ o.freqs.getD s 0 := by
    intro s hs
    obtain ⟨h1, h2⟩ := (hmem s).mp hs
    exact (hsup s h1).mp (by omega)
  have hsumA : (o.alphabet.map (fun s => o.freqs.getD s 0)).sum = 2 ^ lr := by
    rw [← sum_over_alphabet o.alphabet o.freqs hsorted (by intro s hs; have := halt s hs; omega) hz, hsum]
  have hle : ∀ s ∈ o.alphabet, o.freqs.getD s 0 ≤ 2 ^ lr := by
    intro s hsa
    rw [← hsumA]
    exact mem_le_sum _ _ (List.mem_map.mpr ⟨s, hsa, rfl⟩)
  have hin : ∀ b ∈ c, b ∈ o.alphabet := by
    intro b hbc
    have h256 := hb b hbc
    refine (hmem b).mpr ⟨by omega, ?_⟩
    have := hc b hbc h256
    omega
  have hneA : o.alphabet ≠ [] := by
    obtain ⟨b, hbc⟩ := List.exists_mem_of_ne_nil c hne
    exact List.ne_nil_of_mem (hin b hbc)
  have ht : FreqTable o.alphabet o.freqs lr := ⟨hsorted, halt, hneA, by omega, hz, hposA, hle⟩
  refine ⟨o, ho, hasz, hneA, fun rest => ans_header_roundtrip _ _ lr hlr ht hsumA rest, ?_, by omega,
    table_sum _ _ lr ht hsumA, fun b hbc => symOk_of_table _ _ lr ht b (hin b hbc)⟩
  intro h1
  apply eq_replicate_of_all
  intro b hbc
  have := hin b hbc
  match hal : o.alphabet, h1, this with
  | [s], _, hm => simpa using hm

/-- `decodeChunkV2` of the total model (order 0) on an encoded chunk, whatever the buffer held -/
theorem stepV2_enc0 (c f : List Nat) (lr : Nat) (hlr : 8 ≤ lr ∧ lr ≤ 15) (hlen : f.length ≤ 256)
    (hsum : f.sum = 2 ^ lr) (hsym : ∀ a ∈ c, SymOk f a) (hsz : c.length < 2 ^ 26)
    (h : Hdr) (Rst : Bits) (hrest : h.rest = ans0EncodeChunk c (mkEncSyms f lr) ++ Rst)
    (hrel : TabRel h.f2s h.syms 0 0 (decTblL lr 0 0 f)) (hf : 2 ^ lr ≤ h.f2s.size) (hs : 256 ≤ h.syms.size)
    (buf : Array Nat) (hb : Bytes buf) (rem : Nat) (acc : List Nat) (bs0 : Bits) (fsz : Nat) :
    ∃ buf', stepV2 0 lr c.length rem acc h buf bs0 fsz = .next rem (acc ++ c) h.syms h.f2s buf' Rst ∧ Bytes buf' := by
  obtain ⟨v, _, hpl⟩ := final_facts c f lr hlr hlen hsum hsym
  unfold ans0PayloadLen at hpl
  have hb32 : ∀ x, StOk x → x < 2 ^ 32 := fun x h => by unfold StOk at h; omega
  have hpre : chunkPre h.rest = .ok ⟨(ans0Final c (mkEncSyms f lr)).out.length, (ans0Final c (mkEncSyms f lr)).st0,
      (ans0Final c (mkEncSyms f lr)).st1, (ans0Final c (mkEncSyms f lr)).st2, (ans0Final c (mkEncSyms f lr)).st3,
      ofBytes (ans0Final c (mkEncSyms f lr)).out ++ Rst⟩ := by
    rw [hrest, ans0EncodeChunk_eq]
    unfold chunkPre
    simp only [List.append_assoc]
    rw [varint_roundtrip _ (by omega)]
    simp only
    rw [if_neg (by omega)]
    simp only [rBits, readBits_natBits_lt _ _ _ (hb32 _ v.h0), readBits_natBits_lt _ _ _ (hb32 _ v.h1),
      readBits_natBits_lt _ _ _ (hb32 _ v.h2), readBits_natBits_lt _ _ _ (hb32 _ v.h3), AnsDec.R.bind]
  generalize hSS : ans0Final c (mkEncSyms f lr) = S at *
  have hge := bufSizeAfter_ge c.length buf.size
  have hba : (bufAlloc c.length buf).size = bufSizeAfter c.length buf.size := bufAlloc_size _ _
  have hload : ∃ pl, loadPayload S.out.length (bufAlloc c.length buf) (ofBytes S.out ++ Rst) = .ok pl := by
    unfold loadPayload
    rw [if_neg (by omega), readBytes_ofBytes _ _ v.bytes]
    exact ⟨_, rfl⟩
  obtain ⟨pl, hpl'⟩ := hload
  obtain ⟨bytes, J, hrb, hlist, hbytes⟩ := loadPayload_list _ _ _ pl hpl' (bufAlloc_bytes _ _ hb)
  rw [readBytes_ofBytes _ _ v.bytes] at hrb
  simp only [Option.some.injEq, Prod.mk.injEq] at hrb
  have hsize : pl.1.size = bufSizeAfter c.length buf.size := by rw [loadPayload_ok _ _ _ _ hpl', hba]
  have hbody := chunkBody_enc0 c f lr hlr hlen hsum hsym h.f2s h.syms pl.1 J hrel hf hs hbytes
    (by rw [hSS, hlist, ← hrb.1]) (by omega)
    ⟨S.out.length, S.st0, S.st1, S.st2, S.st3, ofBytes S.out ++ Rst⟩ (by rw [hSS]) (by rw [hSS]) (by rw [hSS]) (by rw [hSS])
  refine ⟨pl.1, ?_, hbytes⟩
  unfold stepV2
  simp only [hpre, hpl', hbody]
  rw [← hrb.2]

/-- the chunk loop of the total model on the output of `ans0EncodeChunks`, from ANY decoder object -/
theorem readLoop_enc0 (cs lr v : Nat) (hlr : 8 ≤ lr ∧ lr ≤ 15) (hcs0 : 0 < cs) (hcs : cs < 2 ^ 26) (hv : v ≠ 1) :
    ∀ (fuel : Nat) (blk : List Nat), blk.length ≤ fuel → (∀ b ∈ blk, b < 256) →
    ∃ enc, ans0EncodeChunks fuel cs lr blk = some enc ∧
      ∀ (rest : Bits) (fuel' : Nat) (acc : List Nat) (syms : Array DecSym) (f2s buf : Array Nat),
        256 ≤ syms.size → Bytes f2s → Bytes buf → (blk.length + cs - 1) / cs + 1 ≤ fuel' →
        (readLoop ⟨0, cs, v⟩ fuel' blk.length acc syms f2s buf (enc ++ rest)).cls = .ret (acc ++ blk).length false ∧
        (readLoop ⟨0, cs, v⟩ fuel' blk.length acc syms f2s buf (enc ++ rest)).out = acc ++ blk ∧
        (readLoop ⟨0, cs, v⟩ fuel' blk.length acc syms f2s buf (enc ++ rest)).rest = rest := by
  intro fuel
  induction fuel with
  | zero =>
    intro blk hl _
    have : blk = [] := List.length_eq_zero_iff.mp (by omega)
    subst this
    refine ⟨[], rfl, ?_⟩
    intro rest fuel' acc syms f2s buf _ _ _ hfu
    cases fuel' with
    | zero => exact (Nat.not_succ_le_zero _ hfu).elim
    | succ k => simp [readLoop]
  | succ fuel ih =>
    intro blk hl hb
    by_cases h0 : blk.length = 0
    · have : blk = [] := List.length_eq_zero_iff.mp h0
      subst this
      refine ⟨[], rfl, ?_⟩
      intro rest fuel' acc syms f2s buf _ _ _ hfu
      cases fuel' with
      | zero => exact (Nat.not_succ_le_zero _ hfu).elim
      | succ k => simp [readLoop]
    · have hclen : (blk.take cs).length = min cs blk.length := List.length_take
      have hcne : blk.take cs ≠ [] := by
        intro h
        rw [h] at hclen
        simp only [List.length_nil] at hclen
        omega
      obtain ⟨o, ho, hasz, hneA, hhdr, hone, hfl, hfs, hsym⟩ := oneChunk_table (blk.take cs) lr hlr hcne
        (fun b h => hb b (List.mem_of_mem_take h))
      obtain ⟨tl, htl, hdec⟩ := ih (blk.drop cs) (by rw [List.length_drop]; omega)
        (fun b h => hb b (List.mem_of_mem_drop h))
      have hdl : blk.length - min cs blk.length = (blk.drop cs).length := by
        rw [List.length_drop]; omega
      refine ⟨ansEncodeHeader o.alphabet o.freqs lr
          ++ (if o.size > 1 then ans0EncodeChunk (blk.take cs) (mkEncSyms o.freqs lr) else [])
          ++ tl, ?_, ?_⟩
      · simp only [ans0EncodeChunks, if_neg h0, ans0EncodeOneChunk, ho, htl]
      · intro rest fuel' acc syms f2s buf hsy hbf hbb hfu
        cases fuel' with
        | zero => exact (Nat.not_succ_le_zero _ hfu).elim
        | succ k =>
          have hk := fuel_step cs blk.length k hcs0 h0 hfu
          rw [hdl] at hk
          -- the header
          have hH := hhdr ((if o.size > 1 then ans0EncodeChunk (blk.take cs) (mkEncSyms o.freqs lr) else [])
            ++ (tl ++ rest))
          obtain ⟨l, r0, hd, h3, hlr', hbody, hres, ha0, hrest, hrel, _, _, hfsz, hssz, hbf'⟩ :=
            hdr0_agree _ _ _ _ _ hH hneA f2s syms hsy hbf
          subst hlr'
          have hA0 : ¬ hd.res = 0 := by rw [hres]; exact length_ne_zero_of_ne_nil _ hneA
          simp only [readLoop, if_neg h0, List.append_assoc]
          unfold chunkStep
          simp only [h3, dimOf_zero, hbody, if_neg hA0]
          by_cases h1 : o.alphabet.length = 1
          · have hs1 : ¬ o.size > 1 := by omega
            rw [if_pos ⟨trivial, by rw [hres]; exact h1⟩]
            simp only
            rw [if_neg hs1, List.nil_append] at hrest
            rw [hrest, hdl, ha0]
            have hrep : List.replicate (min cs blk.length) (o.alphabet.headD 0) = blk.take cs := by
              rw [← hclen]; exact (hone h1).symm
            rw [hrep]
            obtain ⟨g1, g2, g3⟩ := hdec rest k (acc ++ blk.take cs) hd.syms hd.f2s buf (by omega) hbf' hbb hk
            rw [List.append_assoc, List.take_append_drop] at g1 g2
            exact ⟨g1, g2, g3⟩
          · have hs1 : o.size > 1 := by
              have : o.alphabet.length ≠ 0 := length_ne_zero_of_ne_nil _ hneA
              omega
            rw [if_neg (by rw [hres]; intro hh; exact h1 hh.2), if_neg hv]
            rw [if_pos hs1] at hrest
            have hszc : (blk.take cs).length < 2 ^ 26 := by omega
            obtain ⟨buf', hstep, hbb'⟩ := stepV2_enc0 (blk.take cs) o.freqs (8 + l) hlr hfl hfs hsym hszc hd
              (tl ++ rest) hrest hrel hfsz (by omega) buf hbb (blk.length - min cs blk.length) acc
              (ansEncodeHeader o.alphabet o.freqs (8 + l)
                ++ (ans0EncodeChunk (blk.take cs) (mkEncSyms o.freqs (8 + l)) ++ (tl ++ rest)))
              (f2sSizeAfter 1 (8 + l) f2s.size)
            rw [hclen] at hstep
            rw [if_pos hs1]
            simp only [hstep]
            rw [hdl]
            obtain ⟨g1, g2, g3⟩ := hdec rest k (acc ++ blk.take cs) hd.syms hd.f2s buf' (by omega) hbf' hbb' hk
            rw [List.append_assoc, List.take_append_drop] at g1 g2
            exact ⟨g1, g2, g3⟩

/-- **the whole order-0 block.**  `ANSRangeEncoder.Write` then `Read` of the TOTAL decoder model, from
    any decoder object (a new one, or one that has decoded other blocks before) -/
theorem read_enc0 (blk : List Nat) (cs lr v : Nat) (hlr : 8 ≤ lr ∧ lr ≤ 15) (hcs0 : 0 < cs) (hcs : cs < 2 ^ 26)
    (hv : v ≠ 1) (hb : ∀ b ∈ blk, b < 256) :
    ∃ enc, ans0Encode blk cs lr = some enc ∧
      ∀ (rest : Bits) (s : St), 256 ≤ s.syms.size → Bytes s.f2s → Bytes s.buf →
        (read ⟨0, cs, v⟩ s (enc ++ rest) blk.length).cls = .ret blk.length false ∧
        (read ⟨0, cs, v⟩ s (enc ++ rest) blk.length).out = blk ∧
        (read ⟨0, cs, v⟩ s (enc ++ rest) blk.length).rest = rest := by
  unfold ans0Encode
  by_cases h32 : blk.length ≤ 32
  · simp only [if_pos h32]
    refine ⟨_, rfl, ?_⟩
    intro rest s _ _ _
    unfold read
    rw [if_pos h32, arrayBits_eq, List.take_of_length_le (Nat.le_refl _), readBytes_ofBytes blk rest hb]
    exact ⟨rfl, rfl, rfl⟩
  · simp only [if_neg h32]
    obtain ⟨enc, he, hdec⟩ := readLoop_enc0 cs lr v hlr hcs0 hcs hv blk.length blk (Nat.le_refl _) hb
    refine ⟨enc, he, ?_⟩
    intro rest s hsy hbf hbb
    unfold read
    rw [if_neg h32]
    have := hdec rest (chunksOf cs blk.length) [] s.syms s.f2s s.buf hsy hbf hbb (chunksOf_enough _ _ hcs0)
    simpa using this

/-! ### H. order 1: one round, the chain of rounds -/

open Kanzi.Ans1 in
/-- context `k` has been (re)built by the header of this chunk from the table `fs[k]` -/
def CtxGood (lr : Nat) (f2s : Array Nat) (syms : Array DecSym) (fs : List (List Nat)) (k : Nat) : Prop :=
  k < 256 ∧ TabRel f2s syms (k * 2 ^ lr) (k * 256) (decTblL lr 0 0 (fs.getD k [])) ∧
    TabOk lr (decTblL lr 0 0 (fs.getD k []))

def QuadGood (lr : Nat) (f2s : Array Nat) (syms : Array DecSym) (fs : List (List Nat)) (p : Quad) : Prop :=
  CtxGood lr f2s syms fs p.1 ∧ CtxGood lr f2s syms fs p.2.1 ∧ CtxGood lr f2s syms fs p.2.2.1 ∧
    CtxGood lr f2s syms fs p.2.2.2

theorem sym_agree1 (lr : Nat) (f2s : Array Nat) (syms : Array DecSym) (buf : Array Nat) (fs : List (List Nat))
    (prv x n : Nat) (hg : CtxGood lr f2s syms fs prv) (hf : 256 * 2 ^ lr ≤ f2s.size) (hs : 256 * 256 ≤ syms.size)
    (hb : Bytes buf) (hx : x < 2 ^ 32) (hn : n + 1 < buf.size) :
    ∃ (e : Nat × DecSym) (x' n' : Nat),
      Kanzi.Ans1.decLook (Kanzi.Ans1.mkDecTabs fs lr) prv (x &&& (2 ^ lr - 1)) = e ∧ e.1 < 256 ∧
      look lr f2s syms prv (x : Int) = .ok e ∧
      stepSym lr buf n (x : Int) e.2 = .ok (n', (x' : Int)) ∧
      decodeStepB x e.2 lr (buf.toList.drop n) = (x', buf.toList.drop n') ∧
      x' < 2 ^ 32 ∧ n ≤ n' ∧ n' ≤ n + 2 := by
  obtain ⟨hk, hrel, hok⟩ := hg
  have hf' : (prv + 1) * 2 ^ lr ≤ f2s.size := Nat.le_trans (Nat.mul_le_mul_right _ hk) hf
  have hs' : (prv + 1) * 256 ≤ syms.size := Nat.le_trans (Nat.mul_le_mul_right _ hk) hs
  obtain ⟨e, x', n', g, l, st, o, b, k1, k2⟩ := sym_agree lr f2s syms buf _ prv x n hrel hok hf' hs' hb hx hn
  refine ⟨e, x', n', ?_, (hok.ent _ e g).2.2, l, st, o, b, k1, k2⟩
  rw [Kanzi.Ans1.decLook_eq, mkDecTable_eq, Nat.and_two_pow_sub_one_eq_mod]
  exact toArray_getD _ _ e _ g

/-- one round, order 1: the total model against `dec1Round` of the proved model, when the four
    contexts have been built by the current header -/
theorem round1_agree (lr : Nat) (f2s : Array Nat) (syms : Array DecSym) (buf : Array Nat) (fs : List (List Nat))
    (p : Quad) (hg : QuadGood lr f2s syms fs p) (hf : 256 * 2 ^ lr ≤ f2s.size) (hs : 256 * 256 ≤ syms.size)
    (hb : Bytes buf) (x0 x1 x2 x3 n : Nat) (h0 : x0 < 2 ^ 32) (h1 : x1 < 2 ^ 32) (h2 : x2 < 2 ^ 32)
    (h3 : x3 < 2 ^ 32) (hn : n + 8 ≤ buf.size) :
    ∃ (y0 y1 y2 y3 n' : Nat) (c : Quad),
      round lr f2s syms buf p ⟨x0, x1, x2, x3, n⟩ = .ok (c, ⟨(y0 : Int), y1, y2, y3, n'⟩) ∧
      Kanzi.Ans1.dec1Round (Kanzi.Ans1.mkDecTabs fs lr) lr p ⟨x0, x1, x2, x3, buf.toList.drop n⟩
        = (c, ⟨y0, y1, y2, y3, buf.toList.drop n'⟩) ∧
      y0 < 2 ^ 32 ∧ y1 < 2 ^ 32 ∧ y2 < 2 ^ 32 ∧ y3 < 2 ^ 32 ∧ n ≤ n' ∧ n' ≤ n + 8 := by
  obtain ⟨g0, g1, g2, g3⟩ := hg
  obtain ⟨e3, y3, n3, q3, _, l3, s3, o3, b3, k3, k3'⟩ := sym_agree1 lr f2s syms buf fs p.2.2.2 x3 n g3 hf hs hb h3 (by omega)
  obtain ⟨e2, y2, n2, q2, _, l2, s2, o2, b2, k2, k2'⟩ := sym_agree1 lr f2s syms buf fs p.2.2.1 x2 n3 g2 hf hs hb h2 (by omega)
  obtain ⟨e1, y1, n1, q1, _, l1, s1, o1, b1, k1, k1'⟩ := sym_agree1 lr f2s syms buf fs p.2.1 x1 n2 g1 hf hs hb h1 (by omega)
  obtain ⟨e0, y0, n0, q0, _, l0, s0, o0, b0, k0, k0'⟩ := sym_agree1 lr f2s syms buf fs p.1 x0 n1 g0 hf hs hb h0 (by omega)
  refine ⟨y0, y1, y2, y3, n0, (e0.1, e1.1, e2.1, e3.1), ?_, ?_, b0, b1, b2, b3, by omega, by omega⟩
  · unfold round
    simp only [AnsDec.R.bind, l3, s3, l2, s2, l1, s1, l0, s0]
  · unfold Kanzi.Ans1.dec1Round
    simp only [q3, q2, q1, q0, o3, o2, o1, o0]

/-- every context used by the rows (all rows but the last are contexts of the next one) is good -/
def GoodChain (lr : Nat) (f2s : Array Nat) (syms : Array DecSym) (fs : List (List Nat)) : Quad → List Quad → Prop
  | _, [] => True
  | p, r :: rs => QuadGood lr f2s syms fs p ∧ GoodChain lr f2s syms fs r rs

theorem rounds1_agree (lr : Nat) (f2s : Array Nat) (syms : Array DecSym) (buf : Array Nat) (fs : List (List Nat))
    (hf : 256 * 2 ^ lr ≤ f2s.size) (hs : 256 * 256 ≤ syms.size) (hb : Bytes buf) :
    ∀ (rows : List Quad) (p : Quad) (x0 x1 x2 x3 n : Nat) (S : DecSt),
    Kanzi.Ans1.dec1Rounds (Kanzi.Ans1.mkDecTabs fs lr) lr rows.length p ⟨x0, x1, x2, x3, buf.toList.drop n⟩ = (rows, S) →
    GoodChain lr f2s syms fs p rows →
    x0 < 2 ^ 32 → x1 < 2 ^ 32 → x2 < 2 ^ 32 → x3 < 2 ^ 32 → n + 8 * rows.length ≤ buf.size →
    ∃ (y0 y1 y2 y3 n' : Nat),
      rounds1 lr f2s syms buf rows.length p ⟨x0, x1, x2, x3, n⟩ = .ok (rows, ⟨(y0 : Int), y1, y2, y3, n'⟩) ∧
      S = ⟨y0, y1, y2, y3, buf.toList.drop n'⟩ ∧ n ≤ n' ∧ n' ≤ n + 8 * rows.length := by
  intro rows
  induction rows with
  | nil =>
    intro p x0 x1 x2 x3 n S hd _ _ _ _ _ _
    simp only [List.length_nil, Kanzi.Ans1.dec1Rounds, Prod.mk.injEq, true_and] at hd
    exact ⟨x0, x1, x2, x3, n, rfl, hd.symm, by omega, by omega⟩
  | cons r rs ih =>
    intro p x0 x1 x2 x3 n S hd hg h0 h1 h2 h3 hn
    simp only [List.length_cons] at hn
    obtain ⟨y0, y1, y2, y3, n', c, hr, ho, b0, b1, b2, b3, k, k'⟩ :=
      round1_agree lr f2s syms buf fs p hg.1 hf hs hb x0 x1 x2 x3 n h0 h1 h2 h3 (by omega)
    simp only [List.length_cons, Kanzi.Ans1.dec1Rounds, ho, Prod.mk.injEq, List.cons.injEq] at hd
    obtain ⟨⟨hc, hrs⟩, hS⟩ := hd
    subst hc
    have hd' : Kanzi.Ans1.dec1Rounds (Kanzi.Ans1.mkDecTabs fs lr) lr rs.length c ⟨y0, y1, y2, y3, buf.toList.drop n'⟩
        = (rs, S) := Prod.ext hrs hS
    obtain ⟨z0, z1, z2, z3, n'', hr2, hS2, k2, k2'⟩ := ih c y0 y1 y2 y3 n' S hd' hg.2 b0 b1 b2 b3 (by omega)
    refine ⟨z0, z1, z2, z3, n'', ?_, hS2, by omega, by simp only [List.length_cons]; omega⟩
    simp only [List.length_cons, rounds1, hr, AnsDec.R.bind, hr2]

end Kanzi.AnsDec
