/-
The repaired task planning of the command-line tool (`relativeToInputDir` = `filepath.Rel`,
`checkOutputNames`, `fileOutputName`): stacks of the names the tool computes, inversion of
`planWith`, and what the pre-flight check decides.
-/
import Kanzi.Proofs.CliPathsClean

namespace Kanzi.CliPaths

/-! ### component stacks of the names -/

theorem addSep_ne_nil (s : Str) (h : s ≠ []) : addSep s ≠ [] := by
  unfold addSep
  split <;> simp [h]

theorem stackOf_DOT : stackOf [DOT] = [] := by decide
theorem stackOf_SEP : stackOf [SEP] = [] := by decide

theorem stackOf_clean (p : Str) : stackOf (clean p) = stackOf p := by
  by_cases hst : stackOf p = []
  · unfold clean
    rw [hst]
    cases isRooted p <;> simp [render, stackOf_DOT, stackOf_SEP, joinSep]
  · exact (render_stack (isRooted p) (stackOf p) hst (stackOf_normal p)).2

theorem isRooted_clean (p : Str) : isRooted (clean p) = isRooted p := by
  by_cases hst : stackOf p = []
  · unfold clean
    rw [hst]
    cases isRooted p <;> simp [render, isRooted, joinSep] <;> decide
  · exact (render_stack (isRooted p) (stackOf p) hst (stackOf_normal p)).1

theorem foldl_push_valid (r : Bool) (names : List Str) (st : List Str)
    (hv : ∀ n ∈ names, ValidName n) : names.foldl (cleanStep r) st = names.reverse ++ st := by
  induction names generalizing st with
  | nil => rfl
  | cons n ns ih =>
    rw [List.foldl_cons, cleanStep_valid r st n (hv n (by simp)), ih _ (fun x hx => hv x (by simp [hx]))]
    simp

/-- below a path that ends with a separator -/
theorem stackOf_dir_append (p : Str) (names : List Str) (hp : p.getLast? = some SEP)
    (hne : names ≠ []) (hv : ∀ n ∈ names, ValidName n) :
    stackOf (p ++ joinSep names) = names.reverse ++ stackOf p ∧
      isRooted (p ++ joinSep names) = isRooted p := by
  have hp0 : p ≠ [] := by intro e; rw [e] at hp; simp at hp
  have hq := (dropLast_snoc_of_getLast? p SEP hp).symm
  refine ⟨?_, isRooted_append p _ hp0⟩
  have h1 : stackOf (p ++ joinSep names) =
      (splitSep p.dropLast ++ names).foldl (cleanStep (isRooted p)) [] := by
    unfold stackOf
    rw [isRooted_append p _ hp0]
    congr 1
    conv => lhs; rw [hq]
    rw [List.append_assoc, List.singleton_append, splitSep_append_sep,
      splitSep_joinSep names hne (noSep_of_valid hv)]
  have h2 : stackOf p = (splitSep p.dropLast).foldl (cleanStep (isRooted p)) [] := by
    unfold stackOf
    conv => lhs; rw [hq]
    have : splitSep (p.dropLast ++ [SEP]) = splitSep p.dropLast ++ [[]] := by
      rw [show p.dropLast ++ [SEP] = p.dropLast ++ SEP :: [] from rfl, splitSep_append_sep]
      simp [splitSep]
    rw [this, List.foldl_append, ← hq]
    simp [cleanStep_empty]
  rw [h1, List.foldl_append, ← h2, foldl_push_valid _ _ _ hv]

/-- the name of the entry `rel`: its stack is the stack of the listed directory extended by `rel` -/
theorem pathOf_stack (inp : Str) (rel : List Str) (hi : inp ≠ []) (hrel : rel ≠ [])
    (hv : ∀ n ∈ rel, ValidName n) :
    stackOf (pathOf inp rel) = rel.reverse ++ stackOf (rootOf inp) ∧
      isRooted (pathOf inp rel) = isRooted (rootOf inp) := by
  unfold pathOf rootOf
  by_cases hnr : isNonRec inp = true
  · simp only [hnr, if_true]
    obtain ⟨h1, _, x, hx⟩ := nonRec_shape inp hnr
    have hl : (targetOf inp).getLast? = some SEP := by
      rw [h1, hx, show [SEP, DOT] = [SEP] ++ [DOT] from rfl, ← List.append_assoc, List.dropLast_concat]
      simp
    exact stackOf_dir_append _ rel hl hrel hv
  · simp only [hnr]
    have hroot := addSep_ne_nil inp hi
    rw [walkPath_render _ rel hroot hrel hv]
    have hn := normal_append_valid (isRooted (addSep inp)) (stackOf (addSep inp)) rel hv (stackOf_normal _)
    have := render_stack (isRooted (addSep inp)) (rel.reverse ++ stackOf (addSep inp)) (by simp [hrel]) hn
    exact ⟨this.2, this.1⟩

theorem pathOf_inj (inp : Str) (r1 r2 : List Str) (hi : inp ≠ []) (h1 : r1 ≠ []) (h2 : r2 ≠ [])
    (v1 : ∀ n ∈ r1, ValidName n) (v2 : ∀ n ∈ r2, ValidName n)
    (h : stackOf (pathOf inp r1) = stackOf (pathOf inp r2)) : r1 = r2 := by
  rw [(pathOf_stack inp r1 hi h1 v1).1, (pathOf_stack inp r2 hi h2 v2).1] at h
  exact List.reverse_inj.mp (List.append_cancel_right h)

theorem pathOf_snoc_append (inp : Str) (init : List Str) (last s : Str) (hi : inp ≠ [])
    (hv : ∀ n ∈ init ++ [last], ValidName n) (hv' : ValidName (last ++ s)) :
    pathOf inp (init ++ [last ++ s]) = pathOf inp (init ++ [last]) ++ s := by
  unfold pathOf
  split
  · rw [joinSep_snoc_append]; simp
  · exact walkPath_snoc_append _ init last s (addSep_ne_nil inp hi) hv hv'

/-! ### `filepath.Rel` below the base -/

theorem relComps_prefix (b rel : List Str) : relComps b (b ++ rel) = some rel := by
  induction b with
  | nil => cases rel <;> simp [relComps]
  | cons x xs ih => simp [relComps, ih]

theorem filepathRel_below (base targ : Str) (rel : List Str) (hrel : rel ≠ [])
    (hs : stackOf targ = rel.reverse ++ stackOf base) (hr : isRooted targ = isRooted base) :
    filepathRel base targ = some (joinSep rel) := by
  unfold filepathRel
  have hne : clean targ ≠ clean base := by
    intro e
    have := congrArg stackOf e
    rw [stackOf_clean, stackOf_clean, hs] at this
    have := congrArg List.length this
    simp at this
    exact hrel this
  have hnd : clean targ ≠ [DOT] := by
    intro e
    have := congrArg stackOf e
    rw [stackOf_clean, hs, stackOf_DOT] at this
    simp at this
    exact hrel this.1
  rw [if_neg hne, isRooted_clean, isRooted_clean, hr]
  simp only [ne_eq, not_true_eq_false, if_false, hnd]
  rw [hs]
  simp [relComps_prefix]

/-- the spelling of `-i` for which `formattedInName` (which drops one trailing dot of the string)
still names the listed directory: false exactly when the last element of `-i` ends with a dot and
is not `.` (`..`, `X/..`, a directory called `T.`) -/
def FinOK (inp : Str) : Prop :=
  stackOf (finOf inp) = stackOf (rootOf inp) ∧ isRooted (finOf inp) = isRooted (rootOf inp)

instance (inp : Str) : Decidable (FinOK inp) := by unfold FinOK; infer_instance

/-- `formattedInName` and the listed directory are the same string, except for `-i /.` -/
theorem finOf_eq_rootOf (inp : Str) (hi : inp ≠ []) : finOf inp = rootOf inp ∨ inp = [SEP, DOT] := by
  by_cases hnr : isNonRec inp = true
  · left
    obtain ⟨h1, h2, _⟩ := nonRec_shape inp hnr
    rw [h2, rootOf, if_pos hnr, h1]
  · by_cases hstrip : inp.length > 1 ∧ inp.getLast? = some DOT ∧ inp.dropLast.getLast? = some SEP
    · -- ends with `/.` and is not longer than 2 bytes: it is `/.`
      right
      obtain ⟨hl, hd, hs⟩ := hstrip
      have e1 := (dropLast_snoc_of_getLast? inp DOT hd).symm
      have e2 := (dropLast_snoc_of_getLast? inp.dropLast SEP hs).symm
      have e3 : inp = inp.dropLast.dropLast ++ [SEP, DOT] := by
        conv => lhs; rw [e1, e2]
        simp
      obtain ⟨x, hxe⟩ : ∃ x, inp = x ++ [SEP, DOT] := ⟨_, e3⟩
      by_cases hx : x = []
      · rw [hxe, hx]; rfl
      · exfalso
        apply hnr
        rw [hxe]
        have hpos : 0 < x.length := List.length_pos_iff.mpr hx
        have hlen : (x ++ [SEP, DOT]).length - 2 = x.length := by simp
        unfold isNonRec
        rw [hlen]
        simp
        omega
    · left
      unfold finOf rootOf addSep
      rw [if_neg hstrip]
      by_cases hl : inp.getLast? = some SEP <;> simp [hl, hi, hnr]

/-- after the repair `FinOK` holds for every spelling of `-i` -/
theorem finOK_all (inp : Str) (hi : inp ≠ []) : FinOK inp := by
  rcases finOf_eq_rootOf inp hi with h | h
  · unfold FinOK; rw [h]; exact ⟨rfl, rfl⟩
  · subst h; decide

theorem rel_pathOf (inp : Str) (rel : List Str) (hi : inp ≠ []) (hf : FinOK inp) (hrel : rel ≠ [])
    (hv : ∀ n ∈ rel, ValidName n) :
    relativeToInputDir (finOf inp) (pathOf inp rel) = joinSep rel := by
  obtain ⟨h1, h2⟩ := pathOf_stack inp rel hi hrel hv
  unfold relativeToInputDir
  rw [filepathRel_below (finOf inp) (pathOf inp rel) rel hrel (by rw [h1, hf.1]) (by rw [h2, hf.2])]

/-! ### the pre-flight check -/

/-- an output is an input, or two outputs are the same file (compared as `filepath.Clean` does) -/
def Clash (ts : List (Str × Str)) : Prop :=
  (∃ t ∈ ts, ∃ u ∈ ts, clean t.2 = clean u.1) ∨ ¬ (ts.map fun t => clean t.2).Nodup

theorem checkOuts_iff (seenIn seenOut outs : List Str) :
    checkOuts seenIn seenOut outs = true ↔
      (∀ o ∈ outs, clean o ∉ seenIn ∧ clean o ∉ seenOut) ∧ (outs.map clean).Nodup := by
  induction outs generalizing seenOut with
  | nil => simp [checkOuts]
  | cons o os ih =>
    unfold checkOuts
    simp only
    by_cases h1 : clean o ∈ seenIn
    · simp [h1]
    · by_cases h2 : clean o ∈ seenOut
      · simp [h1, h2]
      · simp only [List.contains_iff_mem, h1, h2, if_false, ih, List.mem_cons, List.map_cons,
          List.nodup_cons, List.mem_map]
        constructor
        · rintro ⟨ha, hb⟩
          refine ⟨?_, ?_, hb⟩
          · intro x hx
            rcases hx with hx | hx
            · subst hx; exact ⟨h1, h2⟩
            · exact ⟨(ha x hx).1, fun e => (ha x hx).2 (Or.inr e)⟩
          · rintro ⟨x, hx, he⟩
            exact (ha x hx).2 (Or.inl he)
        · rintro ⟨ha, hb, hc⟩
          refine ⟨?_, hc⟩
          intro x hx
          refine ⟨(ha x (Or.inr hx)).1, ?_⟩
          intro e
          rcases e with e | e
          · exact hb ⟨x, hx, e⟩
          · exact (ha x (Or.inr hx)).2 e

theorem checkOutputNames_iff (ts : List (Str × Str)) :
    checkOutputNames (ts.map (·.1)) (ts.map (·.2)) = true ↔ ¬ Clash ts := by
  unfold checkOutputNames Clash
  rw [checkOuts_iff]
  have hmap : (ts.map (·.2)).map clean = ts.map fun t => clean t.2 := by
    rw [List.map_map]; rfl
  rw [hmap]
  constructor
  · rintro ⟨ha, hb⟩ hc
    rcases hc with ⟨t, ht, u, hu, e⟩ | hc
    · exact (ha t.2 (List.mem_map.mpr ⟨t, ht, rfl⟩)).1
        (List.mem_map.mpr ⟨u.1, List.mem_map.mpr ⟨u, hu, rfl⟩, e.symm⟩)
    · exact hc hb
  · intro h
    refine ⟨?_, Decidable.of_not_not (fun hn => h (Or.inr hn))⟩
    intro o ho
    obtain ⟨t, ht, rfl⟩ := List.mem_map.mp ho
    refine ⟨?_, by simp⟩
    intro hm
    obtain ⟨i, hi, e⟩ := List.mem_map.mp hm
    obtain ⟨u, hu, rfl⟩ := List.mem_map.mp hi
    exact h (Or.inl ⟨t, ht, u, hu, e.symm⟩)

/-! ### inversion of `planWith` -/

theorem oNameSingle_eq : @oNameSingle = @oName := rfl

/-- the (input, output) names, before the check -/
def namesOf (decomp isDir sp : Bool) (fin fout : Str) (files : List Str) : List (Str × Str) :=
  files.map fun i => (i, oName decomp isDir sp fin fout i)

theorem namesOf_length (decomp isDir sp : Bool) (fin fout : Str) (files : List Str) :
    (namesOf decomp isDir sp fin fout files).length = files.length := by simp [namesOf]

theorem mkTasks_unchecked (decomp isDir sp : Bool) (fin fout : Str) (files : List Str) :
    mkTasks (fun _ _ => true) decomp isDir sp fin fout files = .tasks (namesOf decomp isDir sp fin fout files) := by
  unfold mkTasks namesOf
  rw [oNameSingle_eq]
  split <;> simp

theorem mkTasks_def (chk : List Str → List Str → Bool) (decomp isDir sp : Bool) (fin fout : Str)
    (files : List Str) :
    mkTasks chk decomp isDir sp fin fout files =
      if files.length = 1 then .tasks (namesOf decomp isDir sp fin fout files)
      else if (!sp && !chk ((namesOf decomp isDir sp fin fout files).map (·.1))
          ((namesOf decomp isDir sp fin fout files).map (·.2))) = true then .err ERR_OVERWRITE_FILE
      else .tasks (namesOf decomp isDir sp fin fout files) := by
  unfold mkTasks namesOf
  rw [oNameSingle_eq]

theorem mkTasks_checked (decomp isDir sp : Bool) (fin fout : Str) (files : List Str) :
    (files.length ≠ 1 ∧ sp = false ∧ Clash (namesOf decomp isDir sp fin fout files) ∧
      mkTasks checkOutputNames decomp isDir sp fin fout files = .err ERR_OVERWRITE_FILE) ∨
    (¬ (files.length ≠ 1 ∧ sp = false ∧ Clash (namesOf decomp isDir sp fin fout files)) ∧
      mkTasks checkOutputNames decomp isDir sp fin fout files = .tasks (namesOf decomp isDir sp fin fout files)) := by
  rw [mkTasks_def]
  by_cases hl : files.length = 1
  · right
    rw [if_pos hl]
    exact ⟨fun h => h.1 hl, rfl⟩
  · rw [if_neg hl]
    have hiff := checkOutputNames_iff (namesOf decomp isDir sp fin fout files)
    cases hc : checkOutputNames ((namesOf decomp isDir sp fin fout files).map (·.1))
        ((namesOf decomp isDir sp fin fout files).map (·.2)) with
    | true =>
      right
      exact ⟨fun h => (hiff.mp hc) h.2.2, by simp⟩
    | false =>
      have hcl : Clash (namesOf decomp isDir sp fin fout files) := by
        apply Classical.byContradiction
        intro hn
        have := hiff.mpr hn
        rw [hc] at this
        exact absurd this (by simp)
      cases sp with
      | true => right; exact ⟨fun h => by simp at h, by simp⟩
      | false => left; exact ⟨hl, rfl, hcl, by simp⟩

/-- what `planWith` returns when it does not reach the task creation -/
def Early (p : Plan) : Prop :=
  p = .unsupported ∨ p = .err ERR_OPEN_FILE ∨ p = .err ERR_CREATE_FILE

/-- the input is a directory, for both `Stat` calls the tool makes on it -/
theorem planWith_cases (fs : FS) (a : Args) :
    (∃ isDir fin fout files, files ≠ [] ∧
      (isDir = true → fin = finOf a.inp ∧ fout = foutEff a) ∧ (isDir = false → fout = a.out) ∧
      (∃ k n, fs.stat a.inp = some (k, n) ∧ (isDir = true ↔ k = .dir)) ∧
      createFileList fs (targetOf a.inp) (!isNonRec a.inp) a.noLinks a.noDot = .ok files ∧
      ∀ chk, planWith chk fs a = mkTasks chk a.decomp isDir (isSpecial a.out) fin fout files) ∨
    (∃ p, Early p ∧ ∀ chk, planWith chk fs a = p) := by
  by_cases h0 : a.inp = [] ∨ eqFold a.inp STDIN = true
  · right
    exact ⟨.unsupported, Or.inl rfl, fun chk => by simp [planWith, h0]⟩
  · cases hcf : createFileList fs (targetOf a.inp) (!isNonRec a.inp) a.noLinks a.noDot with
    | error => right; exact ⟨_, Or.inr (Or.inl rfl), fun chk => by simp [planWith, h0, hcf]⟩
    | unsupported => right; exact ⟨_, Or.inl rfl, fun chk => by simp [planWith, h0, hcf]⟩
    | ok files =>
      by_cases hfl : files = []
      · right; exact ⟨_, Or.inr (Or.inl rfl), fun chk => by simp [planWith, h0, hcf, hfl]⟩
      · cases hst : fs.stat a.inp with
        | none => right; exact ⟨_, Or.inr (Or.inl rfl), fun chk => by simp [planWith, h0, hcf, hfl, hst]⟩
        | some kn =>
          obtain ⟨k, n⟩ := kn
          by_cases hk : k = .dir
          · by_cases ho : a.out ≠ [] ∧ ¬ isSpecial a.out = true
            · cases hso : fs.stat a.out with
              | none => right; exact ⟨_, Or.inr (Or.inl rfl), fun chk => by simp [planWith, h0, hcf, hfl, hst, hk, ho, hso]⟩
              | some kon =>
                obtain ⟨ko, m⟩ := kon
                by_cases hko : ko = .dir
                · left
                  refine ⟨true, finOf a.inp, foutOf a.out, files, hfl, fun _ => ⟨rfl, by simp [foutEff, ho]⟩,
                    fun h => by simp at h, ⟨k, n, rfl, by simp [hk]⟩, rfl, fun chk => ?_⟩
                  simp [planWith, h0, hcf, hfl, hst, hk, ho, hso, hko]
                · right; exact ⟨_, Or.inr (Or.inr rfl), fun chk => by simp [planWith, h0, hcf, hfl, hst, hk, ho, hso, hko]⟩
            · left
              refine ⟨true, finOf a.inp, a.out, files, hfl, fun _ => ⟨rfl, by simp only [foutEff, ho, if_false]⟩,
                fun h => by simp at h, ⟨k, n, rfl, by simp [hk]⟩, rfl, fun chk => ?_⟩
              have ho' : ¬ (¬ a.out = [] ∧ ¬ isSpecial a.out = true) := ho
              simp only [planWith, h0, hcf, hfl, hst, hk, if_false, if_true, ho']
          · by_cases ho : a.out ≠ [] ∧ ¬ isSpecial a.out = true ∧ (fs.stat a.out).map (·.1) = some Kind.dir
            · right; exact ⟨_, Or.inr (Or.inr rfl), fun chk => by simp [planWith, h0, hcf, hfl, hst, hk, ho.1, ho.2.1, ho.2.2]⟩
            · left
              refine ⟨false, [], a.out, files, hfl, fun h => by simp at h, fun _ => rfl,
                ⟨k, n, rfl, by simp [hk]⟩, rfl, fun chk => ?_⟩
              simp only [planWith, h0, hcf, hfl, hst, hk, if_false, ho]

end Kanzi.CliPaths
