package main

import (
	"bytes"
	"fmt"
	"math/rand"
	"os"
	"strconv"

	"github.com/flanglet/kanzi-go/v2/bitstream"
	"github.com/flanglet/kanzi-go/v2/entropy"
)

type sink struct{ bytes.Buffer }

func (s *sink) Close() error { return nil }

type src struct{ *bytes.Reader }

func (s src) Close() error { return nil }

func main() {
	order, _ := strconv.Atoi(os.Args[1])
	chk, _ := strconv.Atoi(os.Args[2])
	ln, _ := strconv.Atoi(os.Args[3])
	blk := make([]byte, ln)
	rand.New(rand.NewSource(7)).Read(blk)
	sk := &sink{}
	obs, _ := bitstream.NewDefaultOutputBitStream(sk, 1<<20)
	e, err := entropy.NewANSRangeEncoder(obs, uint(order), uint(chk))
	if err != nil {
		fmt.Println("ctor", err)
		return
	}
	func() {
		defer func() {
			if r := recover(); r != nil {
				fmt.Println("PANIC in Write:", r)
				os.Exit(1)
			}
		}()
		n, err := e.Write(blk)
		fmt.Println("write", n, err)
	}()
	bits := obs.Written()
	obs.WriteBits(0xA5C3F00F12345678, 64)
	obs.Close()
	fmt.Println("bits", bits, "bytes", bits/8, "ratio", float64(bits)/8/float64(ln))
	ibs, _ := bitstream.NewDefaultInputBitStream(src{bytes.NewReader(sk.Bytes())}, 1<<20)
	d, err := entropy.NewANSRangeDecoder(ibs, uint(order), uint(chk))
	if err != nil {
		fmt.Println("ctor", err)
		return
	}
	got := make([]byte, ln)
	func() {
		defer func() {
			if r := recover(); r != nil {
				fmt.Println("PANIC in Read:", r)
				os.Exit(1)
			}
		}()
		n, err := d.Read(got)
		fmt.Println("read", n, err, "equal", bytes.Equal(got, blk))
		if err == nil {
			fmt.Printf("sentinel %x consumed %d\n", ibs.ReadBits(64), ibs.Read()-64)
		}
	}()
}
