/-
Proofs for the `alias` slice, part 5: exactly when `AliasCodec.Inverse` faults.  The Go Inverse has no
bounds checks of its own (besides the one-symbol size field against `len(dst)`), so it does panic on
forged or truncated input and on genuine input with a too small destination.  `invSafe src n` is the
decidable structural condition under which it does not: the header is complete and every store of the
unpacking / expansion loops lies inside the destination.  `aliasInverse_fault_iff`: Inverse faults iff
`invSafe` is false.
-/
import Kanzi.Proofs.AliasDigram

namespace Kanzi.Alias
open Kanzi.RLT

/-- `k` packed bytes, each stored as `c` bytes, after `pre` bytes: all stores inside `n` bytes -/
def packSafe (c n pre k : Nat) : Bool := decide (k = 0 ∨ pre + c * k ≤ n)

/-- the expansion loop from `dstIdx = sz`: every token finds room for its two stores -/
def expandSafe (m : Array Nat) (n : Nat) : List Nat → Nat → Bool
  | [], _ => true
  | x :: tl, sz => decide (sz + 1 < n) && expandSafe m n tl (sz + (if (m.getD x 0) >>> 16 = 2 then 2 else 1))

/-- `dstIdx` after the expansion loop -/
def expandLen (m : Array Nat) : List Nat → Nat → Nat
  | [], sz => sz
  | x :: tl, sz => expandLen m tl (sz + (if (m.getD x 0) >>> 16 = 2 then 2 else 1))

/-- Inverse does not panic on `src` with `len(dst) = n` -/
def invSafe (src : List Nat) (n : Nat) : Bool :=
  if src.length = 0 ∨ n = 0 then true
  else if src.length < 2 then true
  else
    match src with
    | n0 :: s1 :: rest =>
      if n0 < 16 then true
      else if n0 ≥ 240 then
        if 256 - n0 = 1 then decide (4 ≤ rest.length)
        else
          match (s1 :: rest).drop (256 - n0) with
          | [] => false
          | adjust :: data =>
            if adjust > 3 then true
            else if 256 - n0 ≤ 4 then
              if data.length < adjust then false
              else if adjust > n then decide (¬ data.length > adjust)
              else packSafe 4 n adjust (data.length - adjust)
            else if adjust ≠ 0 then
              match data with
              | [] => false
              | _ :: tl => packSafe 2 n 1 tl.length
            else packSafe 2 n 0 data.length
      else
        if rest.length < 3 * n0 then false
        else
          expandSafe (mkImap (rest.take (3 * n0)) imapInit) n
              ((rest.drop (3 * n0)).take ((rest.drop (3 * n0)).length - s1)) 0 &&
            (if s1 ≠ 0 then
              match (rest.drop (3 * n0)).drop ((rest.drop (3 * n0)).length - s1) with
              | [] => false
              | _ :: _ => decide (expandLen (mkImap (rest.take (3 * n0)) imapInit)
                  ((rest.drop (3 * n0)).take ((rest.drop (3 * n0)).length - s1)) 0 < n)
             else true)
    | _ => true

/-! ## the loops -/

theorem unpackLoop_cases (dec : Nat → List Nat) (c : Nat) (hc : ∀ x, (dec x).length = c) (hc1 : 1 ≤ c)
    (n : Nat) : ∀ (xs : List Nat) (out : Array Nat),
    (packSafe c n out.size xs.length = true → unpackLoop dec n xs out = .ok (out ++ xs.flatMap dec)) ∧
    (packSafe c n out.size xs.length = false → ∃ e, unpackLoop dec n xs out = .fault e) := by
  intro xs
  induction xs with
  | nil => intro out; simp [packSafe, unpackLoop]
  | cons x tl ih =>
    intro out
    have hne : ¬ (dec x).isEmpty = true := by
      rw [List.isEmpty_iff]; intro h; have := hc x; rw [h] at this; simp at this; omega
    have hmul : c * (tl.length + 1) = c * tl.length + c := Nat.mul_succ _ _
    have ih1 := (ih (out ++ dec x)).1
    have ih2 := (ih (out ++ dec x)).2
    simp only [packSafe, size_appendList, hc x, decide_eq_true_eq, decide_eq_false_iff_not] at ih1 ih2
    constructor
    · intro h
      simp only [packSafe, List.length_cons, decide_eq_true_eq] at h
      have h' : out.size + c * tl.length + c ≤ n := by omega
      unfold unpackLoop
      rw [wr_ok _ _ _ (by rw [hc x]; omega)]
      simp only
      rw [ih1 (by right; omega), appendList_assoc]
      simp
    · intro h
      simp only [packSafe, List.length_cons, decide_eq_false_iff_not] at h
      have h' : out.size + c * tl.length + c > n := by omega
      unfold unpackLoop
      by_cases hw : out.size + c ≤ n
      · rw [wr_ok _ _ _ (by rw [hc x]; omega)]
        simp only
        apply ih2
        intro hor
        rcases hor with h0 | hle
        · rw [h0] at h'; omega
        · omega
      · refine ⟨"dst-index", ?_⟩
        unfold wr
        simp [hne, hc x, hw]

theorem expandLoop_cases (m : Array Nat) (n : Nat) : ∀ (xs : List Nat) (out : Array Nat),
    (expandSafe m n xs out.size = true →
      ∃ o, expandLoop m n xs out = .ok o ∧ o.size = expandLen m xs out.size) ∧
    (expandSafe m n xs out.size = false → ∃ e, expandLoop m n xs out = .fault e) := by
  intro xs
  induction xs with
  | nil => intro out; simp [expandSafe, expandLoop, expandLen]
  | cons x tl ih =>
    intro out
    by_cases hroom : out.size + 1 < n
    · by_cases h2 : (m.getD x 0) >>> 16 = 2
      · have ih' := ih ((out.push ((m.getD x 0) % 256)).push (((m.getD x 0) >>> 8) % 256))
        simp only [Array.size_push, Nat.add_assoc] at ih'
        unfold expandLoop expandSafe expandLen
        simp only [hroom, h2, if_true, decide_true, Bool.true_and]
        exact ih'
      · have ih' := ih (out.push ((m.getD x 0) % 256))
        simp only [Array.size_push] at ih'
        unfold expandLoop expandSafe expandLen
        simp only [hroom, h2, if_true, if_false, decide_true, Bool.true_and]
        exact ih'
    · unfold expandLoop expandSafe
      simp only [hroom, if_false, decide_false, Bool.false_and]
      exact ⟨fun h => absurd h (by simp), fun _ => ⟨_, rfl⟩⟩

theorem bind_ok_fault_iff {α β : Type} (x : Out α) (f : α → β) :
    (∃ e, (x.bind fun o => Out.ok (f o)) = Out.fault e) ↔ ∃ e, x = Out.fault e := by
  cases x <;> simp [Out.bind]

theorem decode4_length (l : List Nat) (x : Nat) : (decode4 l x).length = 4 := rfl
theorem decode2_length (l : List Nat) (x : Nat) : (decode2 l x).length = 2 := rfl

theorem unpackLoop_fault_iff (dec : Nat → List Nat) (c : Nat) (hc : ∀ x, (dec x).length = c) (hc1 : 1 ≤ c)
    (n : Nat) (xs : List Nat) (out : Array Nat) :
    (∃ e, unpackLoop dec n xs out = .fault e) ↔ packSafe c n out.size xs.length = false := by
  have h := unpackLoop_cases dec c hc hc1 n xs out
  constructor
  · intro ⟨e, he⟩
    cases hp : packSafe c n out.size xs.length with
    | false => rfl
    | true => rw [h.1 hp] at he; exact absurd he (by simp)
  · exact h.2

theorem wr1_fault_iff (n : Nat) (o : Array Nat) (x : Nat) (f : Array Nat → List Nat) :
    (∃ e, ((wr n o [x]).bind fun o2 => Out.ok (f o2)) = Out.fault e) ↔ ¬ o.size < n := by
  unfold wr
  by_cases h : o.size + 1 ≤ n
  · have h' : o.size < n := by omega
    simp [h, h']
  · have h' : ¬ o.size < n := by omega
    simp [h, h']

/-- Inverse faults exactly when `invSafe` is false -/
theorem aliasInverse_fault_iff (src : List Nat) (n : Nat) :
    (∃ e, aliasInverse src n = .fault e) ↔ invSafe src n = false := by
  unfold aliasInverse invSafe
  by_cases h0 : src.length = 0 ∨ n = 0
  · rw [if_pos h0, if_pos h0]; simp
  · rw [if_neg h0, if_neg h0]
    by_cases h2 : src.length < 2
    · rw [if_pos h2, if_pos h2]; simp
    · rw [if_neg h2, if_neg h2]
      match src, h0, h2 with
      | [], h0, _ => simp at h0
      | [_], _, h2 => simp at h2
      | n0 :: s1 :: rest, h0, h2 =>
        simp only []
        by_cases h16 : n0 < 16
        · simp [h16]
        · rw [if_neg h16, if_neg h16]
          by_cases h240 : n0 ≥ 240
          · rw [if_pos h240, if_pos h240]
            by_cases h1 : 256 - n0 = 1
            · rw [if_pos h1, if_pos h1]
              rcases rest with _ | ⟨a, _ | ⟨b, _ | ⟨c, _ | ⟨d, tl⟩⟩⟩⟩
              · simp
              · simp
              · simp
              · simp
              · simp only []
                split <;> simp
            · rw [if_neg h1, if_neg h1]
              generalize (s1 :: rest).drop (256 - n0) = dd
              cases dd with
              | nil => simp
              | cons adjust data =>
                simp only []
                by_cases ha : adjust > 3
                · simp [ha]
                · rw [if_neg ha, if_neg ha]
                  by_cases h4 : 256 - n0 ≤ 4
                  · rw [if_pos h4, if_pos h4]
                    by_cases hl : data.length < adjust
                    · simp [hl]
                    · rw [if_neg hl, if_neg hl]
                      by_cases hadj : adjust > n
                      · rw [if_pos hadj, if_pos hadj]
                        by_cases hd : data.length > adjust <;> simp [hd]
                      · rw [if_neg hadj, if_neg hadj]
                        rw [bind_ok_fault_iff, unpackLoop_fault_iff _ 4 (decode4_length _) (by decide)]
                        have hmin : min adjust data.length = adjust := by omega
                        simp [List.length_take, List.length_drop, hmin]
                  · rw [if_neg h4, if_neg h4]
                    by_cases hz : adjust ≠ 0
                    · rw [if_pos hz, if_pos hz]
                      cases data with
                      | nil => simp
                      | cons x tl =>
                        simp only []
                        have hn1 : 1 ≤ n := by
                          have : ¬ n = 0 := fun h => h0 (Or.inr h)
                          omega
                        rw [wr_ok _ _ _ (by simp; omega)]
                        simp only [Out.bind_ok]
                        rw [bind_ok_fault_iff, unpackLoop_fault_iff _ 2 (decode2_length _) (by decide)]
                        simp [size_appendList]
                    · rw [if_neg hz, if_neg hz]
                      rw [bind_ok_fault_iff, unpackLoop_fault_iff _ 2 (decode2_length _) (by decide)]
                      simp
          · rw [if_neg h240, if_neg h240]
            by_cases hh : rest.length < 3 * n0
            · simp [hh]
            · rw [if_neg hh, if_neg hh]
              generalize mkImap (List.take (3 * n0) rest) imapInit = m
              generalize List.drop (3 * n0) rest = data
              have hc := expandLoop_cases m n (List.take (data.length - s1) data) #[]
              rw [show (#[] : Array Nat).size = 0 from rfl] at hc
              cases hs : expandSafe m n (List.take (data.length - s1) data) 0 with
              | false =>
                obtain ⟨e, he⟩ := hc.2 hs
                rw [he]
                simp
              | true =>
                obtain ⟨o, ho, hsz⟩ := hc.1 hs
                rw [ho]
                simp only [Out.bind_ok, Bool.true_and]
                by_cases hs1 : s1 ≠ 0
                · rw [if_pos hs1, if_pos hs1]
                  generalize List.drop (data.length - s1) data = dd
                  cases dd with
                  | nil => simp
                  | cons x tl =>
                    simp only []
                    rw [wr1_fault_iff, hsz]
                    simp
                · rw [if_neg hs1, if_neg hs1]
                  simp

end Kanzi.Alias
