/-
Model of the ORDER-1 mode of the ANS range codec of kanzi-go (property C12, slice `ans1`):
`ANSRangeEncoder` / `ANSRangeDecoder` of v2/entropy/ANSRangeCodec.go built with `order = 1`
(bitstream version >= 2: `decodeChunkV2`).  Core Lean only (linked into `kmodel`).
Reuses the order-0 pieces of `Kanzi/Model/EntSmall.lean`: alphabet and frequency sections,
`encSymbol.reset`/`encodeSymbol` (`encSymReset`, `encodeStep`), `decSymbol.reset`/`decodeSymbol`
(`decSymReset`, `decodeStepB`), the per-context tables `mkEncSyms` / `mkDecTable`, VarInt.

Go constants: `_ANS_TOP = 1<<15`, `_DEFAULT_ANS0_CHUNK_SIZE = 16384`, `_ANS_MIN_CHUNK_SIZE = 1024`,
`_ANS_MAX_CHUNK_SIZE = 1<<27`, `_DEFAULT_ANS_LOG_RANGE = 12`.  With `order = 1` the constructors
turn the chunk-size argument `chk` into `min(chk<<8, 1<<27)` (default 16384<<8 = 4 MiB; the smallest
possible value is 1024<<8 = 262144) and the log range argument into `max(logRange-1, 8)`
(default 11; at most 15).

What is modelled
  * constructor parameter rules (`mkParams`);
  * `rebuildStatistics` for order 1: `ComputeHistogram(.., false, true)` on the whole chunk when it
    has fewer than 4 bytes, otherwise on each of the 4 quarters (every quarter starts in context 0;
    the `len & 3` tail bytes are not counted);
  * `updateFrequencies` over 256 contexts (`NormalizeFrequencies` per context with the row total,
    `encSymbol.reset` per present symbol) and `encodeHeader` per context;
  * `encodeChunk` for order 1: raw tail, the four interleaved backward walks (state k walks quarter
    k; the table is indexed by `(context<<8)|symbol`, the context being the PREVIOUS byte of the
    same quarter, 0 for the first byte), the four last symbols, VarInt size, 4 states, payload;
  * `Write`: raw copy for `len <= 32`, chunk splitting;
  * `decodeHeader` for order 1 (log range, then per context alphabet + frequencies, reverse
    mapping), `decodeChunkV2` for order 1, `Read`.

Representation choices (all unobservable on byte blocks)
  * the flat Go arrays `symbols[(ctx<<8)|sym]`, `f2s[(ctx<<lr)+slot]` are two-level arrays here
    (`tabs[ctx][sym]`, `tabs[ctx][slot]`); bytes are < 256, so the flat index splits uniquely;
  * `ComputeHistogram` (order 1, with total) is modelled by the list of incremented cells in the
    order of the Go code (`compHistPairs`: sequential below 32 bytes, four cursors + tail otherwise);
    the counter `freqs[257*prv+256]` incremented alongside is the sum of the row, which is what the
    model hands to `NormalizeFrequencies` as total;
  * a context whose alphabet is empty keeps STALE `symbols`/`freqs`/`f2s` entries in the Go objects
    (left from the previous chunk).  Encoder side they are never read (only counted (context, symbol)
    pairs are looked up); the model uses zero entries.  Decoder side the model threads the previous
    frequency tables through the chunks (`prev`) and rebuilds the stale slot tables from them (exact
    when the log range did not change since that chunk, which holds for the output of one encoder;
    a fresh decoder has all-zero tables);
  * the encoder's byte buffer is unbounded here (Go: `max(min(2*len(block), chunk+chunk/8), 65536)`
    bytes, filled backwards; a chunk that expands by more than 12.5% would overflow it);
  * as in `EntSmall`: errors / reads past the end are `none`; reads past the payload inside the
    decoder buffer see zero bytes (`headD 0`).
-/
import Kanzi.Model.EntSmall

namespace Kanzi.Ans1
open Kanzi.Bits Kanzi.EntSmall

/-! ### constructor -/

structure Params where
  chunkSize : Nat
  lr : Nat
deriving Repr, DecidableEq

/-- `NewANSRangeEncoder(bs, 1, chk, logRange)`: `none` = constructor error -/
def mkParams (chk logRange : Nat) : Option Params :=
  if chk < 1024 ∨ chk > 2 ^ 27 then none
  else if logRange < 8 ∨ logRange > 16 then none
  else some ⟨min (chk * 256) (2 ^ 27), max (logRange - 1) 8⟩

/-! ### statistics -/

abbrev Quad := Nat × Nat × Nat × Nat

/-- four cursors `k*q + j`, `k = 0..3`: `(b[j], b[q+j], b[2q+j], b[3q+j])` -/
def rowAt (blk : Array Nat) (q j : Nat) : Quad :=
  (blk.getD j 0, blk.getD (q + j) 0, blk.getD (2 * q + j) 0, blk.getD (3 * q + j) 0)

/-- (context, symbol) pairs of an order-1 walk starting in context 0, in order -/
def pairsOf (seg : List Nat) : List (Nat × Nat) := (0 :: seg).zip seg

/-- `freqs[prv0+cur0]++ ... freqs[prv3+cur3]++` -/
def quadPairs (p c : Quad) : List (Nat × Nat) :=
  [(p.1, c.1), (p.2.1, c.2.1), (p.2.2.1, c.2.2.1), (p.2.2.2, c.2.2.2)]

/-- `for n0 < quarter { cur := block[n]; freqs[prv+cur]++; prv = cur; n++ }` (four cursors);
    arguments: iterations left, `n0`, `(prv0..prv3)` -/
def chLoop (b : Array Nat) (q : Nat) : Nat → Nat → Quad → List (Nat × Nat)
  | 0, _, _ => []
  | f + 1, n0, prv => quadPairs prv (rowAt b q n0) ++ chLoop b q f (n0 + 1) (rowAt b q n0)

/-- `internal.ComputeHistogram(seg, freqs, false, true)`: the (context, symbol) cells incremented,
    in the order of the Go code.  Below 32 bytes: one sequential walk from context 0.  Otherwise four
    cursors at `0, q, 2q, 3q` (`q = len/4`) whose initial contexts are `0, seg[q-1], seg[2q-1],
    seg[3q-1]`, then the last cursor finishes the `len % 4` tail. -/
def compHistPairs (seg : List Nat) : List (Nat × Nat) :=
  if seg.length < 32 then pairsOf seg
  else
    chLoop seg.toArray (seg.length / 4) (seg.length / 4) 0
        (0, seg.toArray.getD (seg.length / 4 - 1) 0, seg.toArray.getD (2 * (seg.length / 4) - 1) 0,
          seg.toArray.getD (3 * (seg.length / 4) - 1) 0)
      ++ (seg.toArray.getD (4 * (seg.length / 4) - 1) 0 :: seg.drop (4 * (seg.length / 4))).zip
          (seg.drop (4 * (seg.length / 4)))

/-- the cells incremented by `rebuildStatistics` (order 1): `ComputeHistogram` on the whole chunk
    when `len>>2 == 0`, else on each quarter (the `len & 3` tail bytes are not counted) -/
def statPairs (blk : List Nat) : List (Nat × Nat) :=
  if blk.length / 4 = 0 then compHistPairs blk
  else compHistPairs (blk.take (blk.length / 4))
    ++ compHistPairs ((blk.drop (blk.length / 4)).take (blk.length / 4))
    ++ compHistPairs ((blk.drop (2 * (blk.length / 4))).take (blk.length / 4))
    ++ compHistPairs ((blk.drop (3 * (blk.length / 4))).take (blk.length / 4))

/-- 256 rows of 256 counters: `freqs[257*ctx + sym]` -/
def hist1 (ps : List (Nat × Nat)) : List (List Nat) :=
  (ps.foldl (fun (h : Array (Array Nat)) p => h.modify p.1 (fun r => r.modify p.2 (· + 1)))
    (Array.replicate 256 (Array.replicate 256 0))).toList.map Array.toList

/-- `NormalizeFrequencies(f[0:256], alphabet, f[256], 1<<lr)` for every context in turn;
    `none` = the first error stops `updateFrequencies` -/
def normRows (lr : Nat) : List (List Nat) → Option (List (List Nat × List Nat))
  | [] => some []
  | r :: rs =>
    match Kanzi.Normalize.normalize r r.sum (2 ^ lr) with
    | .err _ => none
    | .ok o =>
      match normRows lr rs with
      | none => none
      | some os => some ((o.alphabet, o.freqs) :: os)

/-! ### header -/

/-- `encodeHeader` for one context: alphabet, then (more than one symbol) the frequencies -/
def ctxHeader (a f : List Nat) (lr : Nat) : Bits :=
  encodeAlphabetBits a ++ (if a.length ≤ 1 then [] else encodeFreqs a f lr)

/-- `updateFrequencies`: `lr-8` on 3 bits, then every context; `ts` = (alphabet, table) per context -/
def ans1EncodeHeader (ts : List (List Nat × List Nat)) (lr : Nat) : Bits :=
  natBits (lr - 8) 3 ++ ts.flatMap (fun t => ctxHeader t.1 t.2 lr)

/-- one context of `decodeHeader`: `prevF` = the table this context had before (kept when the
    alphabet is empty: Go `continue`) -/
def ans1DecodeCtx (prevF : List Nat) (lr : Nat) (bs : Bits) : Option ((List Nat × List Nat) × Bits) :=
  match decodeAlphabet bs with
  | none => none
  | some (a, r) =>
    if a.length = 0 then some (([], prevF), r)
    else
      match decodeFreqTable a lr r with
      | none => none
      | some (tbl, r2) => some ((a, tbl), r2)

def ans1DecodeCtxs (lr : Nat) : List (List Nat) → Bits → Option (List (List Nat × List Nat) × Bits)
  | [], bs => some ([], bs)
  | p :: ps, bs =>
    match ans1DecodeCtx p lr bs with
    | none => none
    | some (t, r) =>
      match ans1DecodeCtxs lr ps r with
      | none => none
      | some (ts, r2) => some (t :: ts, r2)

/-- `decodeHeader` (order 1): `prev` = the 256 frequency tables before the call.  Returns the log
    range and (alphabet, table) per context. -/
def ans1DecodeHeader (prev : List (List Nat)) (bs : Bits) :
    Option ((Nat × List (List Nat × List Nat)) × Bits) :=
  match readBits 3 bs with
  | none => none
  | some (l, r) =>
    match ans1DecodeCtxs (8 + l) prev r with
    | none => none
    | some (ts, r2) => some ((8 + l, ts), r2)

/-- the decoder object before the first chunk -/
def freshTables : List (List Nat) := List.replicate 256 (List.replicate 256 0)

/-! ### symbol tables -/

def dfltE : EncSym := ⟨0, 0, 0, 0, 0⟩
def dfltD : Nat × DecSym := (0, ⟨0, 0⟩)

/-- `this.symbols` of the encoder: `tabs[ctx][sym]` -/
def mkEncTabs (fs : List (List Nat)) (lr : Nat) : Array (Array EncSym) :=
  (fs.map (fun f => mkEncSyms f lr)).toArray

/-- `this.f2s` + `this.symbols` of the decoder: `tabs[ctx][slot] = (sym, decSymbol)` -/
def mkDecTabs (fs : List (List Nat)) (lr : Nat) : Array (Array (Nat × DecSym)) :=
  (fs.map (fun f => mkDecTable f lr)).toArray

/-- Go: `this.symbols[(ctx<<8)|sym]` -/
def encLook (tabs : Array (Array EncSym)) (c s : Nat) : EncSym := (tabs.getD c #[]).getD s dfltE

/-- Go: `cur := this.f2s[(prv<<lr)+slot]` and `this.symbols[(prv<<8)+cur]` -/
def decLook (tabs : Array (Array (Nat × DecSym))) (c slot : Nat) : Nat × DecSym :=
  (tabs.getD c #[]).getD slot dfltD

/-! ### encodeChunk (order 1) -/

/-- the four `encodeSymbol` calls of one iteration: `c` = (cur0..cur3) the contexts,
    `p` = (prv0..prv3) the symbols -/
def enc1Round (tabs : Array (Array EncSym)) (c p : Quad) (s : EncSt) : EncSt :=
  let e0 := encodeStep s.st0 (encLook tabs c.1 p.1)
  let o0 := wordBytes e0.1 ++ s.out
  let e1 := encodeStep s.st1 (encLook tabs c.2.1 p.2.1)
  let o1 := wordBytes e1.1 ++ o0
  let e2 := encodeStep s.st2 (encLook tabs c.2.2.1 p.2.2.1)
  let o2 := wordBytes e2.1 ++ o1
  let e3 := encodeStep s.st3 (encLook tabs c.2.2.2 p.2.2.2)
  let o3 := wordBytes e3.1 ++ o2
  ⟨e0.2, e1.2, e2.2, e3.2, o3⟩

/-- `for i0 >= 0 { cur := block[i]; encode(symbols[(cur<<8)|prv]); prv = cur; i-- }`;
    the first argument is `i0 + 1` -/
def enc1Loop (blk : Array Nat) (tabs : Array (Array EncSym)) (q : Nat) : Nat → Quad → EncSt → Quad × EncSt
  | 0, prv, s => (prv, s)
  | i + 1, prv, s => enc1Loop blk tabs q i (rowAt blk q i) (enc1Round tabs (rowAt blk q i) prv s)

/-- encoder state at the end of `encodeChunk` (order 1) -/
def ans1Final (blk : List Nat) (tabs : Array (Array EncSym)) : EncSt :=
  let q := blk.length / 4
  let init : EncSt := ⟨ansTop, ansTop, ansTop, ansTop, blk.drop (4 * q)⟩   -- raw tail `block[end4:]`
  if q = 0 then init   -- `end4 == 0`: a chunk of 1 to 3 bytes is stored raw
  else
    let l := enc1Loop blk.toArray tabs q (q - 1) (rowAt blk.toArray q (q - 1)) init
    enc1Round tabs (0, 0, 0, 0) l.1 l.2   -- "Last symbols": context 0

/-- what `encodeChunk` writes: VarInt payload size, four states, payload -/
def ans1EncodeChunk (blk : List Nat) (tabs : Array (Array EncSym)) : Bits :=
  let s := ans1Final blk tabs
  writeVarInt s.out.length ++ natBits s.st0 32 ++ natBits s.st1 32 ++ natBits s.st2 32
    ++ natBits s.st3 32 ++ ofBytes s.out

/-! ### decodeChunkV2 (order 1) -/

/-- one iteration of the decoder loop: `p` = (prv0..prv3); returns (cur0..cur3) -/
def dec1Round (tabs : Array (Array (Nat × DecSym))) (lr : Nat) (p : Quad) (s : DecSt) : Quad × DecSt :=
  let mask := 2 ^ lr - 1
  let c3 := decLook tabs p.2.2.2 (s.st3 &&& mask)
  let d3 := decodeStepB s.st3 c3.2 lr s.ws
  let c2 := decLook tabs p.2.2.1 (s.st2 &&& mask)
  let d2 := decodeStepB s.st2 c2.2 lr d3.2
  let c1 := decLook tabs p.2.1 (s.st1 &&& mask)
  let d1 := decodeStepB s.st1 c1.2 lr d2.2
  let c0 := decLook tabs p.1 (s.st0 &&& mask)
  let d0 := decodeStepB s.st0 c0.2 lr d1.2
  ((c0.1, c1.1, c2.1, c3.1), ⟨d0.1, d1.1, d2.1, d3.1, d0.2⟩)

/-- `for i0 < quarter`: the rows (cur0..cur3) in order, and the final state -/
def dec1Rounds (tabs : Array (Array (Nat × DecSym))) (lr : Nat) : Nat → Quad → DecSt → List Quad × DecSt
  | 0, _, s => ([], s)
  | n + 1, p, s =>
    let r := dec1Round tabs lr p s
    let t := dec1Rounds tabs lr n r.1 r.2
    (r.1 :: t.1, t.2)

/-- `block[i0] = cur0` ... `block[i3] = cur3`: the four quarters one after the other -/
def quartersOf (rows : List Quad) : List Nat :=
  rows.map (·.1) ++ rows.map (·.2.1) ++ rows.map (·.2.2.1) ++ rows.map (·.2.2.2)

/-- `decodeChunkV2` (order 1) for a chunk of `len` bytes -/
def ans1DecodeChunk (tabs : Array (Array (Nat × DecSym))) (lr len : Nat) (bs : Bits) :
    Option (List Nat × Bits) :=
  match readVarInt bs with
  | none => none
  | some (sz, r) =>
    if sz ≥ 2 ^ 27 then none
    else
      match readBits 32 r with
      | none => none
      | some (st0, r0) =>
      match readBits 32 r0 with
      | none => none
      | some (st1, r1) =>
      match readBits 32 r1 with
      | none => none
      | some (st2, r2) =>
      match readBits 32 r2 with
      | none => none
      | some (st3, r3) =>
        if len = 0 then some ([], r3)
        else
          match readBytes sz r3 with
          | none => none
          | some (buf, r4) =>
            let d := dec1Rounds tabs lr (len / 4) (0, 0, 0, 0) ⟨st0, st1, st2, st3, buf⟩
            some (quartersOf d.1 ++ (d.2.ws ++ List.replicate 4 0).take (len % 4), r4)

/-! ### Write / Read -/

/-- one chunk of `Write`: `rebuildStatistics` (histogram, normalisation, header) then `encodeChunk`
    (for order 1 ALWAYS, whatever the alphabet sizes) -/
def ans1EncodeOneChunk (blk : List Nat) (lr : Nat) : Option Bits :=
  match normRows lr (hist1 (statPairs blk)) with
  | none => none
  | some ts =>
    some (ans1EncodeHeader ts lr ++ ans1EncodeChunk blk (mkEncTabs (ts.map (·.2)) lr))

def ans1EncodeChunks : Nat → Nat → Nat → List Nat → Option Bits
  | 0, _, _, _ => some []
  | fuel + 1, chunkSize, lr, blk =>
    if blk.length = 0 then some []
    else
      match ans1EncodeOneChunk (blk.take chunkSize) lr with
      | none => none
      | some b =>
        match ans1EncodeChunks fuel chunkSize lr (blk.drop chunkSize) with
        | none => none
        | some tl => some (b ++ tl)

/-- `ANSRangeEncoder.Write(block)` for order 1; `chunkSize`, `lr` as stored by the constructor -/
def ans1Encode (blk : List Nat) (chunkSize lr : Nat) : Option Bits :=
  if blk.length ≤ 32 then some (arrayBits blk (8 * blk.length))
  else ans1EncodeChunks blk.length chunkSize lr blk

/-- the loop of `Read`; `prev` = frequency tables of the decoder object, `count` = bytes still to
    produce.  A header whose 256 alphabets are all empty stops the loop (Go returns the bytes decoded
    so far without error). -/
def ans1DecodeChunks : Nat → Nat → Nat → List (List Nat) → Bits → Option (List Nat × Bits)
  | 0, _, _, _, bs => some ([], bs)
  | fuel + 1, chunkSize, count, prev, bs =>
    if count = 0 then some ([], bs)
    else
      match ans1DecodeHeader prev bs with
      | none => none
      | some ((lr, ts), r) =>
        if (ts.map (·.1.length)).sum = 0 then some ([], r)
        else
          match ans1DecodeChunk (mkDecTabs (ts.map (·.2)) lr) lr (min chunkSize count) r with
          | none => none
          | some (c, r1) =>
            match ans1DecodeChunks fuel chunkSize (count - min chunkSize count) (ts.map (·.2)) r1 with
            | none => none
            | some (tl, r2) => some (c ++ tl, r2)

/-- `ANSRangeDecoder.Read(block)` for order 1, `len(block) = count`, on a decoder object whose
    tables are `prev` (`freshTables` for a new decoder) -/
def ans1Decode (bs : Bits) (count chunkSize : Nat) (prev : List (List Nat)) : Option (List Nat × Bits) :=
  if count ≤ 32 then readBytes count bs else ans1DecodeChunks count chunkSize count prev bs

end Kanzi.Ans1
