package main

// Fact table `Consts`: every package-level INTEGER constant of the library packages of /repo/v2
// (., io, bitstream, entropy, transform, hash, internal, app), with the value the Go type checker
// computes for it (go/parser + go/types, default build tags, non-test files).  Most of these
// constants are unexported, so they cannot be read by importing the packages; they are evaluated
// from the source instead.  Imports of packages outside the module are replaced by empty packages
// (type errors are tolerated: a constant whose value depends on such an import is listed under
// `unevaluated` instead of being dropped silently); imports inside the module are type-checked
// recursively the same way, so `kanzi.X` / `internal.X` references evaluate.
//
// Output: lean/Kanzi/Generated/Consts.lean — one `def` per constant in a namespace per package
// (Nat when the value is >= 0, Int otherwise).  The hand-written expectations that tie the literal
// constants of the Lean models to these values are in lean/Kanzi/Properties/ConstsTie.lean; they
// are closed by `decide`, so a changed constant in /repo breaks the proof obligation.

import (
	"fmt"
	"go/ast"
	"go/build"
	"go/constant"
	"go/parser"
	"go/token"
	"go/types"
	"path/filepath"
	"sort"
	"strings"
)

func init() {
	registerFacts("Consts", genConsts)
	registerFactsSelftest("Consts", constsSelftest)
}

const constsModule = "github.com/flanglet/kanzi-go/v2"

var constsPkgs = []struct{ dir, ns string }{
	{".", "kanzi"}, {"io", "io"}, {"bitstream", "bitstream"}, {"entropy", "entropy"},
	{"transform", "transform"}, {"hash", "hash"}, {"internal", "internal"}, {"app", "app"},
}

type constsImporter struct {
	root  string // <repo>/v2
	fset  *token.FileSet
	cache map[string]*types.Package
	infos map[string]*types.Info // optional: expression types/values per package path (bitops facts)
	files map[string][]*ast.File
}

func (im *constsImporter) Import(path string) (*types.Package, error) {
	if p, ok := im.cache[path]; ok {
		return p, nil
	}
	if path == constsModule || strings.HasPrefix(path, constsModule+"/") {
		rel := strings.TrimPrefix(strings.TrimPrefix(path, constsModule), "/")
		if rel == "" {
			rel = "."
		}
		p, _, err := im.check(rel, path)
		if err == nil {
			return p, nil
		}
	}
	name := path[strings.LastIndex(path, "/")+1:]
	p := types.NewPackage(path, name)
	p.MarkComplete()
	im.cache[path] = p
	return p, nil
}

// check type-checks the package in <root>/<rel> tolerantly and returns it with its files.
func (im *constsImporter) check(rel, path string) (*types.Package, []*ast.File, error) {
	dir := filepath.Join(im.root, rel)
	ctx := build.Default
	bp, err := ctx.ImportDir(dir, 0)
	if err != nil {
		if _, ok := err.(*build.MultiplePackageError); !ok {
			return nil, nil, err
		}
	}
	names := append([]string{}, bp.GoFiles...)
	sort.Strings(names)
	var files []*ast.File
	for _, n := range names {
		f, err := parser.ParseFile(im.fset, filepath.Join(dir, n), nil, parser.SkipObjectResolution)
		if err != nil {
			return nil, nil, err
		}
		files = append(files, f)
	}
	return im.checkFiles(path, files)
}

func (im *constsImporter) checkFiles(path string, files []*ast.File) (*types.Package, []*ast.File, error) {
	conf := types.Config{Importer: im, Error: func(error) {}, FakeImportC: true}
	var info *types.Info
	if im.infos != nil {
		info = &types.Info{Types: map[ast.Expr]types.TypeAndValue{}}
		im.infos[path] = info
		im.files[path] = files
	}
	p, _ := conf.Check(path, im.fset, files, info)
	if p == nil {
		return nil, nil, fmt.Errorf("type check of %s produced no package", path)
	}
	im.cache[path] = p
	return p, files, nil
}

type constRow struct {
	name string
	val  string // decimal
	neg  bool
}

func constsOf(p *types.Package) (rows []constRow, uneval []string) {
	sc := p.Scope()
	for _, n := range sc.Names() {
		c, ok := sc.Lookup(n).(*types.Const)
		if !ok {
			continue
		}
		v := c.Val()
		if v == nil || v.Kind() == constant.Unknown {
			uneval = append(uneval, n)
			continue
		}
		if v.Kind() != constant.Int {
			// float constants with an integral value used as sizes are rare; keep integers only
			if b, ok := c.Type().Underlying().(*types.Basic); ok && b.Info()&types.IsInteger != 0 {
				v = constant.ToInt(v)
			}
			if v.Kind() != constant.Int {
				continue
			}
		}
		s := v.ExactString()
		rows = append(rows, constRow{name: n, val: strings.TrimPrefix(s, "-"), neg: strings.HasPrefix(s, "-")})
	}
	sort.Slice(rows, func(i, j int) bool { return rows[i].name < rows[j].name })
	sort.Strings(uneval)
	return
}

func leanConstIdent(n string) string {
	// Go identifiers are letters, digits, '_' : valid Lean identifiers as they are, except that a
	// lone "_" cannot occur at package level.  Guard against Lean keywords by «».
	switch n {
	case "end", "from", "at", "in", "do", "then", "else", "if", "fun", "def", "open", "where", "with", "have", "show", "let", "Type", "Prop", "Sort":
		return "«" + n + "»"
	}
	return n
}

func genConsts(repo string) (string, error) {
	im := &constsImporter{root: filepath.Join(repo, "v2"), fset: token.NewFileSet(), cache: map[string]*types.Package{}}
	var b strings.Builder
	b.WriteString("/-\nGENERATED by `kv facts -which Consts` (harness/cmd/kv/consts_facts.go) from the Go source of /repo/v2\n")
	b.WriteString("(go/parser + go/types, non-test files, default build tags).  DO NOT EDIT: regenerated on every check.\n")
	b.WriteString("Every package-level integer constant with the value computed by the Go type checker; `unevaluated` lists\n")
	b.WriteString("constants whose value could not be computed (they depend on a package outside the module).\n-/\n")
	b.WriteString("namespace Kanzi.Generated.Consts\n")
	total := 0
	for _, pk := range constsPkgs {
		path := constsModule
		if pk.dir != "." {
			path += "/" + pk.dir
		}
		p, err := im.Import(path)
		if err != nil || p == nil {
			return "", fmt.Errorf("consts: %s: %v", path, err)
		}
		if pk.dir == "app" {
			// package main: Import by path type-checked it under its import path; fine
		}
		rows, uneval := constsOf(p)
		fmt.Fprintf(&b, "\nnamespace %s\n", pk.ns)
		for _, r := range rows {
			if r.neg {
				fmt.Fprintf(&b, "def %s : Int := -%s\n", leanConstIdent(r.name), r.val)
			} else {
				fmt.Fprintf(&b, "def %s : Nat := %s\n", leanConstIdent(r.name), r.val)
			}
		}
		fmt.Fprintf(&b, "def unevaluated : List String := [")
		for i, u := range uneval {
			if i > 0 {
				b.WriteString(", ")
			}
			fmt.Fprintf(&b, "%q", u)
		}
		b.WriteString("]\n")
		fmt.Fprintf(&b, "def count : Nat := %d\n", len(rows))
		fmt.Fprintf(&b, "end %s\n", pk.ns)
		total += len(rows)
	}
	if total < 100 {
		return "", fmt.Errorf("consts: only %d constants found under %s: extractor or repository layout broken", total, im.root)
	}
	fmt.Fprintf(&b, "\ndef total : Nat := %d\n", total)
	b.WriteString("\nend Kanzi.Generated.Consts\n")
	return b.String(), nil
}

func constsSelftest() error {
	src := `package p
import "math"
import k "github.com/flanglet/kanzi-go/v2/q"
const (
	A = 1 << 10
	B = A - 4
	C int32 = -1
	D = iota + 5
	E
	F = "str"
	G = math.MaxInt32
	H uint64 = 0xFFFFFFFFFFFFFFFF
	I = k.Z + 1
)
`
	qsrc := "package q\nconst Z = 41\n"
	fset := token.NewFileSet()
	im := &constsImporter{root: "/nonexistent", fset: fset, cache: map[string]*types.Package{}}
	qf, err := parser.ParseFile(fset, "q.go", qsrc, 0)
	if err != nil {
		return err
	}
	if _, _, err := im.checkFiles(constsModule+"/q", []*ast.File{qf}); err != nil {
		return err
	}
	f, err := parser.ParseFile(fset, "p.go", src, 0)
	if err != nil {
		return err
	}
	p, _, err := im.checkFiles("p", []*ast.File{f})
	if err != nil {
		return err
	}
	rows, uneval := constsOf(p)
	got := map[string]string{}
	for _, r := range rows {
		s := r.val
		if r.neg {
			s = "-" + s
		}
		got[r.name] = s
	}
	want := map[string]string{"A": "1024", "B": "1020", "C": "-1", "D": "8", "E": "9", "H": "18446744073709551615", "I": "42"}
	for k, v := range want {
		if got[k] != v {
			return fmt.Errorf("const %s: got %q want %q", k, got[k], v)
		}
	}
	if _, ok := got["F"]; ok {
		return fmt.Errorf("string constant listed")
	}
	if len(uneval) != 1 || uneval[0] != "G" {
		return fmt.Errorf("unevaluated: got %v want [G]", uneval)
	}
	return nil
}

func parserParse(fset *token.FileSet, name, src string) (*ast.File, error) {
	return parser.ParseFile(fset, name, src, 0)
}
