/-
C12 (ANS order 1) — the ORDER-1 mode of `ANSRangeEncoder` / `ANSRangeDecoder`
(v2/entropy/ANSRangeCodec.go, bitstream version >= 2): 256 contexts, one frequency table per context,
four interleaved rANS states, state k walking quarter k of the chunk backwards with the PREVIOUS byte
of the same quarter as context (0 for the first byte of each quarter).
Property theorems only; proofs live in `Kanzi/Proofs/Ans1.lean` and `Kanzi/Proofs/Ans1Block.lean`.
The model (`Kanzi/Model/Ans1.lean`, on top of the order-0 pieces of `Kanzi/Model/EntSmall.lean`) is
tied byte-identically to /repo by the `ans1` correspondence stream (harness/cmd/kv/ans1.go,
lean/Kanzi/Drv/Ans1.lean).

Every round trip is in the "exact consumption" form  dec (enc x ++ rest) = some (x, rest)  for
EVERY continuation `rest`: the decoder reads exactly the bits the encoder wrote and whatever follows
in the same bitstream is left intact.

Parameters.  With `order = 1` the Go constructors store `chunkSize = min(chk<<8, 1<<27)` (chunk
argument `1024 <= chk <= 1<<27`, default 16384, i.e. 4 MiB; what `EntropyCodecFactory` uses) and
`logRange = max(logRange-1, 8)` (argument 8..16, default 12), hence `262144 <= chunkSize <= 2^27`,
`8 <= lr <= 15` (`C12_ans1_params`).

Size condition.  `decodeChunkV2` rejects a chunk whose payload size (the VarInt) is `>= 2^27`
(`_ANS_MAX_CHUNK_SIZE`).  Each encoded symbol pushes at most one 16-bit word, so the payload of a
chunk of `n` bytes is at most `2n` bytes (`C12_ans1_payload_le`): the theorems are stated for chunks
shorter than `2^26` bytes, i.e. constructor arguments `chk < 2^18` (the default 16384 included), and
`C12_ans1_chunk_sz` gives the most general form (hypothesis = exactly the decoder's test).
NOT covered: chunk arguments `2^18 <= chk <= 2^27`, for which a chunk of 64..128 MiB could reach a
payload of `2^27` bytes or more (the constructor accepts them, the decoder would refuse the chunk),
and the capacity of the encoder's byte buffer (`max(min(2*len, chunk+chunk/8), 65536)` bytes: a chunk
expanding by more than 12.5% would overflow it; the model's buffer is unbounded).
-/
import Kanzi.Model.Ans1
import Kanzi.Proofs.Ans1
import Kanzi.Proofs.Ans1Block

namespace Kanzi.C12
open Kanzi.Bits Kanzi.EntSmall Kanzi.Ans1

/-! ## constructor parameters -/

/-- **C12_ans1_params.**  What `NewANSRangeEncoder(bs, 1, chk, logRange)` stores: a chunk size in
`[262144, 2^27]` and a log range in `[8, 15]`; the chunk size is below `2^26` exactly for chunk
arguments below `2^18`. -/
theorem C12_ans1_params (chk logRange : Nat) (ps : Params) (h : mkParams chk logRange = some ps) :
    (262144 ≤ ps.chunkSize ∧ ps.chunkSize ≤ 2 ^ 27) ∧ (8 ≤ ps.lr ∧ ps.lr ≤ 15) ∧
    (chk < 2 ^ 18 → ps.chunkSize < 2 ^ 26) := by
  unfold mkParams at h
  split at h
  · cases h
  · split at h
    · cases h
    · injection h with h
      subst h
      simp only
      omega

/-- the default parameters (chunk argument 16384, log range 12) give 4 MiB chunks and `lr = 11` -/
example : mkParams 16384 12 = some ⟨4194304, 11⟩ := by decide

/-! ## stage 1 — the 256-context frequency header -/

/-- **C12_ans1_header.**  `ts` = one (alphabet, table) pair per context (256 in the Go code; any
number here), each either with an EMPTY alphabet (context never seen: only the 2-bit empty-alphabet
code is sent) or a valid table: alphabet strictly increasing, non empty, symbols < 256; 256-entry
table, zero outside the alphabet, positive on it, summing to `2^lr` (`HdrOk`; `8 ≤ lr ≤ 15`).
`prev` = the tables the decoder object holds before the call (one per context).
Then `decodeHeader` applied to `updateFrequencies`' output followed by ANY `rest` returns `lr` and,
per context, exactly the alphabet and table of the encoder — except that a context with an empty
alphabet keeps its previous table (`mergeTabs`: the Go code `continue`s) — and leaves exactly
`rest`: 3 bits of log range, then per context the alphabet and the frequencies in chunks of 6 or 8
with their `llr`-bit widths, all consumed exactly. -/
theorem C12_ans1_header (lr : Nat) (hlr : 8 ≤ lr ∧ lr ≤ 15) (ts : List (List Nat × List Nat))
    (prev : List (List Nat)) (hl : prev.length = ts.length) (hok : ∀ t ∈ ts, HdrOk lr t) (rest : Bits) :
    ans1DecodeHeader prev (ans1EncodeHeader ts lr ++ rest) = some ((lr, mergeTabs prev ts), rest) :=
  header1_rt lr hlr ts prev hl hok rest

/-- **C12_ans1_header_exact.**  Same, on a decoder whose tables are all zero (a new decoder object)
when the encoder's tables of the never-seen contexts are all zero too (they are: `clear(this.freqs)`
in `rebuildStatistics`; `C12_ans1_one_chunk`): the decoded tables are EXACTLY the encoder's. -/
theorem C12_ans1_header_exact (lr : Nat) (hlr : 8 ≤ lr ∧ lr ≤ 15) (ts : List (List Nat × List Nat))
    (hok : ∀ t ∈ ts, HdrOk lr t) (hz : ∀ t ∈ ts, t.1 = [] → t.2 = List.replicate 256 0) (rest : Bits) :
    ans1DecodeHeader (List.replicate ts.length (List.replicate 256 0)) (ans1EncodeHeader ts lr ++ rest)
      = some ((lr, ts), rest) := by
  rw [header1_rt lr hlr ts _ List.length_replicate hok rest, merge_fresh _ ts hz]

/-! ## stage 2 — one state, one quarter -/

/-- **C12_ans1_single_state.**  `fs` = the per-context frequency tables, `syms` = the bytes of one
quarter, `c` = the context of its first byte (0 in the codec).  `WalkOk`: every step (context =
previous byte, symbol) uses a table summing to `2^lr` in which the symbol has a positive frequency.
Encoding the walk BACKWARDS with one rANS state (`encWalk1`: `encodeSymbol` with the entry
`symbols[(ctx<<8)|sym]` built by `updateFrequencies`, from `_ANS_TOP`) yields a normalised state and
at most `2·|syms|` bytes; decoding FORWARDS (`decWalk1`: slot lookup in the context's reverse
mapping, `decodeSymbol`, the decoded byte becomes the next context) from that state on these bytes
followed by ANY `rest` returns exactly `syms`, ends in `_ANS_TOP` and leaves exactly `rest`. -/
theorem C12_ans1_single_state (fs : List (List Nat)) (lr : Nat) (hlr : 8 ≤ lr ∧ lr ≤ 15)
    (syms : List Nat) (c : Nat) (hs : WalkOk fs lr c syms) :
    (2 ^ 15 ≤ (encWalk1 fs lr c syms).1 ∧ (encWalk1 fs lr c syms).1 < 2 ^ 31) ∧
    (∀ b ∈ (encWalk1 fs lr c syms).2, b < 256) ∧
    (encWalk1 fs lr c syms).2.length ≤ 2 * syms.length ∧
    ∀ rest : List Nat, decWalk1 fs lr syms.length c (encWalk1 fs lr c syms).1
        ((encWalk1 fs lr c syms).2 ++ rest) = (syms, ansTop, rest) :=
  walk1_rt fs lr hlr syms c hs

/-! ## stage 3 — four interleaved states sharing one buffer -/

/-- **C12_ans1_interleaved.**  `ans1Final blk tabs` is the encoder state at the end of the order-1
part of `encodeChunk` (raw tail `blk[end4:]` first, then the loop `for i0 >= 0` over the four
quarters with `prv`/`cur`, then the four "last symbols" in context 0).  Under `ChunkOk` (bytes, and
every step of the four walks covered by tables on which encoder `fsE` and decoder `fsD` agree)
the decoder loop of `decodeChunkV2`, run for `len/4` rounds from these four states on these bytes
in context (0,0,0,0), returns exactly the rows `(blk[j], blk[q+j], blk[2q+j], blk[3q+j])`,
`j = 0..q-1`, brings the four states back to `_ANS_TOP` and leaves exactly the raw tail unread: the
words pushed by the encoder (st0, st1, st2, st3 within a round, rounds backwards) are popped by the
decoder in exactly the reverse order.  Also: final states normalised, payload bytes < 256, payload
at most `2·len` bytes. -/
theorem C12_ans1_interleaved (blk : List Nat) (fsE fsD : List (List Nat)) (lr : Nat)
    (hlr : 8 ≤ lr ∧ lr ≤ 15) (hok : ChunkOk fsE fsD lr blk) :
    dec1Rounds (mkDecTabs fsD lr) lr (blk.length / 4) (0, 0, 0, 0)
        ⟨(ans1Final blk (mkEncTabs fsE lr)).st0, (ans1Final blk (mkEncTabs fsE lr)).st1,
         (ans1Final blk (mkEncTabs fsE lr)).st2, (ans1Final blk (mkEncTabs fsE lr)).st3,
         (ans1Final blk (mkEncTabs fsE lr)).out⟩
      = (rowsOf blk.toArray (blk.length / 4),
         ⟨ansTop, ansTop, ansTop, ansTop, blk.drop (4 * (blk.length / 4))⟩) ∧
    quartersOf (rowsOf blk.toArray (blk.length / 4)) = blk.take (4 * (blk.length / 4)) ∧
    (∀ b ∈ (ans1Final blk (mkEncTabs fsE lr)).out, b < 256) ∧
    (ans1Final blk (mkEncTabs fsE lr)).st0 < 2 ^ 31 ∧ (ans1Final blk (mkEncTabs fsE lr)).st1 < 2 ^ 31 ∧
    (ans1Final blk (mkEncTabs fsE lr)).st2 < 2 ^ 31 ∧ (ans1Final blk (mkEncTabs fsE lr)).st3 < 2 ^ 31 := by
  obtain ⟨v, d, _⟩ := final1_facts blk fsE fsD lr hlr hok
  exact ⟨d, quartersOf_rowsOf blk _ (by omega), v.bytes, v.h0.2, v.h1.2, v.h2.2, v.h3.2⟩

/-- the payload of a chunk (`ans1PayloadLen` = the VarInt written by `encodeChunk`) is at most
twice the chunk length -/
theorem C12_ans1_payload_le (blk : List Nat) (fsE fsD : List (List Nat)) (lr : Nat)
    (hlr : 8 ≤ lr ∧ lr ≤ 15) (hok : ChunkOk fsE fsD lr blk) :
    ans1PayloadLen blk fsE lr ≤ 2 * blk.length :=
  (final1_facts blk fsE fsD lr hlr hok).2.2

/-! ## stage 4 — one chunk -/

/-- **C12_ans1_chunk.**  `blk` = ANY chunk of bytes of fewer than `2^26` bytes — length 0, 1, 2, 3
(`end4 = 0`: nothing but the raw tail, the case repaired by the fix for F16), 4, 5, ... , any
`len % 4`; `fsE` / `fsD` = the 256 per-context frequency tables of encoder and decoder.
Hypothesis: for every (context, symbol) pair that `rebuildStatistics` counts (`statPairs`: the
order-1 pairs of each quarter started in context 0, or of the whole chunk below 4 bytes) the two
sides hold the same table for that context, it sums to `2^lr`, and the symbol has a positive
frequency in it.  Then `decodeChunkV2(encodeChunk blk ++ rest) = (blk, rest)`: VarInt size, four
32-bit states, payload words and raw tail all consumed exactly. -/
theorem C12_ans1_chunk (blk : List Nat) (fsE fsD : List (List Nat)) (lr : Nat) (hlr : 8 ≤ lr ∧ lr ≤ 15)
    (hb : ∀ b ∈ blk, b < 256)
    (hp : ∀ pr ∈ statPairs blk, fsD.getD pr.1 [] = fsE.getD pr.1 [] ∧ (fsE.getD pr.1 []).sum = 2 ^ lr ∧
      pr.2 < (fsE.getD pr.1 []).length ∧ 0 < (fsE.getD pr.1 []).getD pr.2 0)
    (hsz : blk.length < 2 ^ 26) (rest : Bits) :
    ans1DecodeChunk (mkDecTabs fsD lr) lr blk.length (ans1EncodeChunk blk (mkEncTabs fsE lr) ++ rest)
      = some (blk, rest) :=
  chunk1_rt blk fsE fsD lr hlr
    ⟨hb, rowsOk_of_pairs fsE fsD lr blk (fun pr h => ⟨(hp pr h).1, (hp pr h).2.1, (hp pr h).2.2⟩)⟩ hsz rest

/-- **C12_ans1_chunk_sz** — most general form: NO bound on the chunk other than the decoder's own
test on the payload size. -/
theorem C12_ans1_chunk_sz (blk : List Nat) (fsE fsD : List (List Nat)) (lr : Nat) (hlr : 8 ≤ lr ∧ lr ≤ 15)
    (hok : ChunkOk fsE fsD lr blk) (hsz : ans1PayloadLen blk fsE lr < 2 ^ 27) (rest : Bits) :
    ans1DecodeChunk (mkDecTabs fsD lr) lr blk.length (ans1EncodeChunk blk (mkEncTabs fsE lr) ++ rest)
      = some (blk, rest) :=
  chunk1_rt_sz blk fsE fsD lr hlr hok hsz rest

/-- **C12_ans1_one_chunk.**  One chunk of `Write` on its own.  For every non-empty chunk of bytes:
`rebuildStatistics` succeeds (2-D histogram `hist1 (statPairs c)`, `NormalizeFrequencies` on each of
the 256 rows with the row total — C16 —) and yields 256 (alphabet, table) pairs, each either empty or
a valid table summing to `2^lr` (never-seen contexts: empty alphabet, all-zero table); at least one
alphabet is not empty (so `Read` does not stop); the header round trips (`C12_ans1_header`); and
`decodeChunkV2` with the tables the decoder ends up with — whatever it held before (`prev`) —
returns the chunk and leaves `rest`. -/
theorem C12_ans1_one_chunk (c : List Nat) (lr : Nat) (hlr : 8 ≤ lr ∧ lr ≤ 15) (hne : c ≠ [])
    (hb : ∀ b ∈ c, b < 256) (hsz : c.length < 2 ^ 26) :
    ∃ ts, normRows lr (hist1 (statPairs c)) = some ts ∧ ts.length = 256 ∧
      (∀ t ∈ ts, HdrOk lr t) ∧ (∀ t ∈ ts, t.1 = [] → t.2 = List.replicate 256 0) ∧
      (ts.map (·.1.length)).sum ≠ 0 ∧
      ∀ prev : List (List Nat), prev.length = 256 → ∀ rest : Bits,
        ans1DecodeHeader prev (ans1EncodeHeader ts lr ++ rest) = some ((lr, mergeTabs prev ts), rest) ∧
        ans1DecodeChunk (mkDecTabs ((mergeTabs prev ts).map (·.2)) lr) lr c.length
          (ans1EncodeChunk c (mkEncTabs (ts.map (·.2)) lr) ++ rest) = some (c, rest) := by
  obtain ⟨ts, hts, hl, hhdr, hsum, hchunk, hz⟩ := oneChunk1_facts c lr hlr hne hb
  exact ⟨ts, hts, hl, hhdr, hz, hsum, fun prev hpl rest =>
    ⟨header1_rt lr hlr ts prev (by omega) hhdr rest,
     chunk1_rt c _ _ lr hlr (hchunk prev hpl) hsz rest⟩⟩

/-! ## the whole block -/

/-- **C12_ans1_block.**  For every block of bytes (any length: empty, the `≤ 32` bytes raw
shortcut, one chunk, several chunks, a last chunk of 1, 2 or 3 bytes), every chunk size
`1 ≤ chunkSize < 2^26` (the Go constructors produce 262144 … 2^27; 4 MiB by default) and
`8 ≤ lr ≤ 15` (everything the constructors produce): the order-1 `ANSRangeEncoder.Write` succeeds
(per chunk: statistics over the four quarters, `NormalizeFrequencies` per context, 256-context
header, four interleaved walks) and `ANSRangeDecoder.Read` asked for `blk.length` bytes — on a
decoder object in ANY previous table state `prev` (a new one: `freshTables`) — returns exactly `blk`
and consumes exactly the written bits: whatever follows (`rest`) is left intact. -/
theorem C12_ans1_block (blk : List Nat) (chunkSize lr : Nat) (hlr : 8 ≤ lr ∧ lr ≤ 15)
    (hcs : 0 < chunkSize ∧ chunkSize < 2 ^ 26) (hb : ∀ b ∈ blk, b < 256) :
    ∃ enc, ans1Encode blk chunkSize lr = some enc ∧
      ∀ (prev : List (List Nat)), prev.length = 256 → ∀ rest : Bits,
        ans1Decode (enc ++ rest) blk.length chunkSize prev = some (blk, rest) :=
  block1_rt blk chunkSize lr hlr hcs.1 hcs.2 hb

/-- **C12_ans1_block_ctor.**  The same through the constructor rules: every pair of arguments the
Go constructors accept with a chunk argument below `2^18 = 262144` (the default 16384 included) and
any log range argument 8..16, new encoder, new decoder. -/
theorem C12_ans1_block_ctor (blk : List Nat) (chk logRange : Nat) (ps : Params)
    (hps : mkParams chk logRange = some ps) (hchk : chk < 2 ^ 18) (hb : ∀ b ∈ blk, b < 256) :
    ∃ enc, ans1Encode blk ps.chunkSize ps.lr = some enc ∧
      ∀ rest : Bits, ans1Decode (enc ++ rest) blk.length ps.chunkSize freshTables = some (blk, rest) := by
  obtain ⟨hc, hl, hlt⟩ := C12_ans1_params chk logRange ps hps
  obtain ⟨enc, he, hd⟩ := block1_rt blk ps.chunkSize ps.lr hl (by omega) (hlt hchk) hb
  exact ⟨enc, he, fun rest => hd freshTables List.length_replicate rest⟩

/-- the hypotheses are satisfiable: default parameters -/
example : (8 ≤ 11 ∧ 11 ≤ 15) ∧ (0 < 4194304 ∧ 4194304 < 2 ^ 26) ∧ (16384 < 2 ^ 18) := by decide

end Kanzi.C12
