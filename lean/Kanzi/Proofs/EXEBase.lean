/-
Proofs for the `exe` slice, part 1: byte order helpers, the constants, the address arithmetic of the
x86 and ARM64 branch rewriting (one instruction: decode ∘ encode = id).
-/
import Kanzi.Model.EXE
import Kanzi.Proofs.RLTInv

namespace Kanzi.EXE
open Kanzi.RLT (Out wr wr_ok wr_cases size_appendList)

/-! ## constants -/

@[simp] theorem X86_MASK_JUMP_eq : X86_MASK_JUMP = 254 := rfl
@[simp] theorem X86_INSTRUCTION_JUMP_eq : X86_INSTRUCTION_JUMP = 232 := rfl
@[simp] theorem X86_INSTRUCTION_JCC_eq : X86_INSTRUCTION_JCC = 128 := rfl
@[simp] theorem X86_TWO_BYTE_PREFIX_eq : X86_TWO_BYTE_PREFIX = 15 := rfl
@[simp] theorem X86_MASK_JCC_eq : X86_MASK_JCC = 240 := rfl
@[simp] theorem X86_ESCAPE_eq : X86_ESCAPE = 155 := rfl
@[simp] theorem X86_eq : X86 = 64 := rfl
@[simp] theorem ARM64_eq : ARM64 = 32 := rfl
@[simp] theorem MASK_ADDRESS_eq : MASK_ADDRESS = 4042322160 := rfl
@[simp] theorem MIN_BLOCK_SIZE_eq : MIN_BLOCK_SIZE = 4096 := rfl
@[simp] theorem MAX_BLOCK_SIZE_eq : MAX_BLOCK_SIZE = 268435455 := rfl

/-! ## byte order -/

theorem leVal4 (a b c d : Nat) : leVal [a, b, c, d] = a + 256 * (b + 256 * (c + 256 * d)) := by
  simp [leVal]

theorem beVal4 (a b c d : Nat) : beVal [a, b, c, d] = 256 * (256 * (256 * a + b) + c) + d := by
  simp [beVal]

theorem leVal_le32Bytes (v : Nat) (h : v < 2 ^ 32) : leVal (le32Bytes v) = v := by
  simp only [le32Bytes, leVal4]; omega

theorem le32Bytes_leVal (a b c d : Nat) (ha : a < 256) (hb : b < 256) (hc : c < 256) (hd : d < 256) :
    le32Bytes (leVal [a, b, c, d]) = [a, b, c, d] := by
  simp only [le32Bytes, leVal4]
  have h1 : (a + 256 * (b + 256 * (c + 256 * d))) % 256 = a := by omega
  have h2 : (a + 256 * (b + 256 * (c + 256 * d))) / 256 % 256 = b := by omega
  have h3 : (a + 256 * (b + 256 * (c + 256 * d))) / 65536 % 256 = c := by omega
  have h4 : (a + 256 * (b + 256 * (c + 256 * d))) / 16777216 % 256 = d := by omega
  rw [h1, h2, h3, h4]

theorem beVal_be32Bytes (v : Nat) (h : v < 2 ^ 32) : beVal (be32Bytes v) = v := by
  simp only [be32Bytes, beVal4]; omega

theorem leVal4_lt (a b c d : Nat) (ha : a < 256) (hb : b < 256) (hc : c < 256) (hd : d < 256) :
    leVal [a, b, c, d] < 2 ^ 32 := by
  simp only [leVal4]; omega

theorem le32Bytes_lt (v : Nat) : ∀ y ∈ le32Bytes v, y < 256 := by
  intro y hy; simp only [le32Bytes, List.mem_cons, List.not_mem_nil, or_false] at hy
  rcases hy with h | h | h | h <;> omega

theorem be32Bytes_lt (v : Nat) : ∀ y ∈ be32Bytes v, y < 256 := by
  intro y hy; simp only [be32Bytes, List.mem_cons, List.not_mem_nil, or_false] at hy
  rcases hy with h | h | h | h <;> omega

@[simp] theorem le32Bytes_length (v : Nat) : (le32Bytes v).length = 4 := rfl
@[simp] theorem be32Bytes_length (v : Nat) : (be32Bytes v).length = 4 := rfl

theorem xor_mask_cancel (x : Nat) : (x ^^^ MASK_ADDRESS) ^^^ MASK_ADDRESS = x := by
  rw [Nat.xor_assoc, Nat.xor_self, Nat.xor_zero]

theorem xor_mask_lt (x : Nat) (h : x < 2 ^ 32) : x ^^^ MASK_ADDRESS < 2 ^ 32 :=
  Nat.xor_lt_two_pow h (by decide)

/-! ## x86: one jump -/

theorem x86_pos (i low : Nat) (hl : low < 2 ^ 24) (hi : i < 2 ^ 31) :
    x86Addr i low 0 = i + low ∧ x86Off i (i + low) = low := by
  constructor
  · simp only [x86Addr, if_true]; omega
  · simp only [x86Off]; rw [if_pos (by omega)]; omega

theorem x86_neg (i low : Nat) (hl : low < 2 ^ 24) (hl0 : low ≠ 0) (hi : i < 2 ^ 31) :
    x86Addr i (0xFF000000 + low) 255 < 2 ^ 32 ∧
    x86Off i (x86Addr i (0xFF000000 + low) 255) = 0xFF000000 + low := by
  have hm : (-((0xFF000000 + low : Nat) : Int)) % 2 ^ 24 = 2 ^ 24 - (low : Int) := by omega
  have hsg : ¬ ((255 : Nat) = 0) := by decide
  have hA : x86Addr i (0xFF000000 + low) 255 = (((i : Int) - (2 ^ 24 - (low : Int))) % 2 ^ 32).toNat := by
    simp only [x86Addr, if_neg hsg, hm]
  rw [hA]
  by_cases hneg : (i : Int) - (2 ^ 24 - (low : Int)) < 0
  · have ha : ((((i : Int) - (2 ^ 24 - (low : Int))) % 2 ^ 32).toNat : Int) = 2 ^ 32 + ((i : Int) - (2 ^ 24 - (low : Int))) := by
      omega
    constructor
    · omega
    · simp only [x86Off, ha]; rw [if_pos (by omega)]; omega
  · have ha : ((((i : Int) - (2 ^ 24 - (low : Int))) % 2 ^ 32).toNat : Int) = (i : Int) - (2 ^ 24 - (low : Int)) := by
      omega
    constructor
    · omega
    · simp only [x86Off, ha]; rw [if_neg (by omega)]; omega

/-- the address arithmetic of `forwardX86` followed by that of `inverseX86` restores the operand -/
theorem x86_addr_roundtrip (i o0 o1 o2 sgn : Nat) (h0 : o0 < 256) (h1 : o1 < 256) (h2 : o2 < 256)
    (hs : sgn = 0 ∨ sgn = 255) (hne : leVal [o0, o1, o2, sgn] ≠ 0xFF000000) (hi : i < 2 ^ 31) :
    x86Addr i (leVal [o0, o1, o2, sgn]) sgn < 2 ^ 32 ∧
    le32Bytes (x86Off i (x86Addr i (leVal [o0, o1, o2, sgn]) sgn)) = [o0, o1, o2, sgn] := by
  rcases hs with hs | hs
  · subst hs
    have hlow : leVal [o0, o1, o2, 0] = o0 + 256 * (o1 + 256 * o2) := by simp only [leVal4]; omega
    have hl : leVal [o0, o1, o2, 0] < 2 ^ 24 := by omega
    have h := x86_pos i _ hl hi
    rw [h.1, h.2]
    exact ⟨by omega, le32Bytes_leVal _ _ _ _ h0 h1 h2 (by omega)⟩
  · subst hs
    have hlow : leVal [o0, o1, o2, 255] = 0xFF000000 + (o0 + 256 * (o1 + 256 * o2)) := by
      simp only [leVal4]; omega
    have hl0 : o0 + 256 * (o1 + 256 * o2) ≠ 0 := by
      intro h0'; apply hne; rw [hlow, h0']
    have h := x86_neg i (o0 + 256 * (o1 + 256 * o2)) (by omega) hl0 hi
    rw [hlow, h.2, ← hlow]
    exact ⟨by rw [hlow]; exact h.1, le32Bytes_leVal _ _ _ _ h0 h1 h2 (by omega)⟩

/-! ## ARM64: one branch -/

theorem and_addrmask (x : Nat) : x &&& 67108863 = x % 67108864 :=
  Nat.and_two_pow_sub_one_eq_mod x 26

theorem and_opmask (x : Nat) (h : x < 2 ^ 32) : x &&& 4227858432 = x / 67108864 * 67108864 := by
  have h1 : (x &&& 4227858432) / 2 ^ 26 = x / 2 ^ 26 &&& 4227858432 / 2 ^ 26 := Nat.and_div_two_pow
  have h2 : (x &&& 4227858432) % 2 ^ 26 = (x % 2 ^ 26) &&& (4227858432 % 2 ^ 26) := Nat.and_mod_two_pow
  have h3 : x / 2 ^ 26 &&& 63 = x / 2 ^ 26 % 64 := Nat.and_two_pow_sub_one_eq_mod _ 6
  have e1 : (4227858432 : Nat) / 2 ^ 26 = 63 := by decide
  have e2 : (4227858432 : Nat) % 2 ^ 26 = 0 := by decide
  rw [e1, h3] at h1
  rw [e2, Nat.and_zero] at h2
  omega

theorem and_sgn (x : Nat) : x &&& 33554432 = x / 33554432 % 2 * 33554432 := by
  have h1 : (x &&& 33554432) / 2 ^ 25 = x / 2 ^ 25 &&& 33554432 / 2 ^ 25 := Nat.and_div_two_pow
  have h2 : (x &&& 33554432) % 2 ^ 25 = (x % 2 ^ 25) &&& (33554432 % 2 ^ 25) := Nat.and_mod_two_pow
  have h3 : x / 2 ^ 25 &&& 1 = x / 2 ^ 25 % 2 := Nat.and_two_pow_sub_one_eq_mod _ 1
  have e1 : (33554432 : Nat) / 2 ^ 25 = 1 := by decide
  have e2 : (33554432 : Nat) % 2 ^ 25 = 0 := by decide
  rw [e1, h3] at h1
  rw [e2, Nat.and_zero] at h2
  omega

theorem or_field (h b : Nat) (hh : h = 5 ∨ h = 37) (hb : b < 2 ^ 27) :
    (h * 67108864) ||| b = h * 67108864 + b % 67108864 := by
  have h1 : (h * 67108864 ||| b) / 2 ^ 26 = h * 67108864 / 2 ^ 26 ||| b / 2 ^ 26 := Nat.or_div_two_pow
  have h2 : (h * 67108864 ||| b) % 2 ^ 26 = h * 67108864 % 2 ^ 26 ||| b % 2 ^ 26 := Nat.or_mod_two_pow
  have e1 : h * 67108864 / 2 ^ 26 = h := by omega
  have e2 : h * 67108864 % 2 ^ 26 = 0 := by omega
  rw [e1] at h1
  rw [e2, Nat.zero_or] at h2
  have hb2 : b / 2 ^ 26 = 0 ∨ b / 2 ^ 26 = 1 := by omega
  have e3 : h ||| b / 2 ^ 26 = h := by
    rcases hh with rfl | rfl <;> rcases hb2 with hb2 | hb2 <;> rw [hb2] <;> decide
  rw [e3] at h1
  omega

theorem isBL_iff (instr : Nat) (h : instr < 2 ^ 32) :
    isBL instr = true ↔ (instr / 67108864 = 5 ∨ instr / 67108864 = 37) := by
  simp only [isBL, decide_eq_true_eq]
  show instr &&& 4227858432 = 335544320 ∨ instr &&& 4227858432 = 2483027968 ↔ _
  rw [and_opmask instr h]; omega

theorem armAddr_def (i instr : Nat) :
    armAddr i instr =
      if (if instr &&& 33554432 = 0 then (i : Int) + 4 * ((instr &&& 67108863 : Nat) : Int)
          else (i : Int) - 4 * ((-((instr &&& 67108863 : Nat) : Int)) % 67108864)) < 0 then 0
      else (if instr &&& 33554432 = 0 then (i : Int) + 4 * ((instr &&& 67108863 : Nat) : Int)
          else (i : Int) - 4 * ((-((instr &&& 67108863 : Nat) : Int)) % 67108864)).toNat := rfl

theorem armAddr_pos (i instr : Nat) (h : instr % 67108864 < 33554432) :
    armAddr i instr = i + 4 * (instr % 67108864) := by
  have hs : instr &&& 33554432 = 0 := by rw [and_sgn]; omega
  rw [armAddr_def, if_pos hs, and_addrmask, if_neg (by omega)]; omega

theorem armAddr_neg (i instr : Nat) (h : 33554432 ≤ instr % 67108864) :
    armAddr i instr = i - 4 * (67108864 - instr % 67108864) := by
  have hs : instr &&& 33554432 ≠ 0 := by rw [and_sgn]; omega
  rw [armAddr_def, if_neg hs, and_addrmask]
  have hm : (-((instr % 67108864 : Nat) : Int)) % 67108864 = 67108864 - ((instr % 67108864 : Nat) : Int) := by omega
  rw [hm]
  by_cases hneg : (i : Int) - 4 * (67108864 - ((instr % 67108864 : Nat) : Int)) < 0
  · rw [if_pos hneg]; omega
  · rw [if_neg hneg]; omega

theorem armEnc_def (i instr : Nat) :
    armEnc i instr = (((instr &&& 4227858432) ||| (armAddr i instr >>> 2)) % 4294967296,
      decide (armAddr i instr = 0 ∨ (armAddr i instr >>> 2) &&& 67108863 = 0)) := rfl

theorem armDec_def (d instr : Nat) :
    armDec d instr = (((instr &&& 4227858432) |||
        (((((instr &&& 67108863) <<< 2 : Nat) : Int) - (d : Int)) / 4 % 67108864).toNat) % 4294967296,
      decide ((instr &&& 67108863) <<< 2 = 0)) := rfl

/-- value stored by forwardARM: opcode, then the low 26 bits of `addr >> 2` -/
theorem armEnc_val (i instr : Nat) (hin : instr < 2 ^ 32) (hbl : isBL instr = true) (hi : i < 2 ^ 28) :
    (armEnc i instr).1 = instr / 67108864 * 67108864 + armAddr i instr / 4 % 67108864 ∧
    ((armEnc i instr).2 = true ↔ armAddr i instr / 4 % 67108864 = 0) := by
  have hh := (isBL_iff instr hin).1 hbl
  have hA : armAddr i instr < 2 ^ 28 + 2 ^ 27 := by
    by_cases hs : instr % 67108864 < 33554432
    · rw [armAddr_pos i instr hs]; omega
    · rw [armAddr_neg i instr (by omega)]; omega
  have hsh : armAddr i instr >>> 2 = armAddr i instr / 4 := Nat.shiftRight_eq_div_pow _ 2
  rw [armEnc_def, hsh, and_opmask instr hin, and_addrmask]
  have hor := or_field (instr / 67108864) (armAddr i instr / 4) hh (by omega)
  constructor
  · show (instr / 67108864 * 67108864 ||| armAddr i instr / 4) % 4294967296 = _
    rw [hor]; omega
  · show decide (armAddr i instr = 0 ∨ armAddr i instr / 4 % 67108864 = 0) = true ↔ _
    rw [decide_eq_true_eq]
    constructor
    · rintro (h | h)
      · rw [h]
      · exact h
    · intro h; exact Or.inr h

theorem armDec_val (d h f : Nat) (hh : h = 5 ∨ h = 37) (hf : f < 67108864) (hd : d % 4 = 0) :
    armDec d (h * 67108864 + f) =
      (h * 67108864 + (((f : Int) - ((d / 4 : Nat) : Int)) % 67108864).toNat, decide (f = 0)) := by
  have hv : h * 67108864 + f < 2 ^ 32 := by omega
  have h1 : (h * 67108864 + f) &&& 4227858432 = h * 67108864 := by rw [and_opmask _ hv]; omega
  have h2 : (h * 67108864 + f) &&& 67108863 = f := by rw [and_addrmask]; omega
  have h3 : f <<< 2 = f * 4 := by rw [Nat.shiftLeft_eq]
  rw [armDec_def, h1, h2, h3]
  have h4 : (((f * 4 : Nat) : Int) - (d : Int)) / 4 = (f : Int) - ((d / 4 : Nat) : Int) := by omega
  rw [h4]
  have hb : (((f : Int) - ((d / 4 : Nat) : Int)) % 67108864).toNat < 67108864 := by omega
  have hor := or_field h _ hh (by omega : (((f : Int) - ((d / 4 : Nat) : Int)) % 67108864).toNat < 2 ^ 27)
  rw [hor]
  congr 1
  · omega
  · rw [decide_eq_decide]; omega

/-- one B / BL instruction: what `inverseARM` makes of what `forwardARM` stored at the same index -/
theorem arm_roundtrip (i instr : Nat) (hin : instr < 2 ^ 32) (hbl : isBL instr = true) (hi4 : i % 4 = 0)
    (hi : i < 2 ^ 28) :
    (armEnc i instr).1 < 2 ^ 32 ∧ isBL (armEnc i instr).1 = true ∧
    ((armEnc i instr).2 = true → (armDec i (armEnc i instr).1).2 = true) ∧
    ((armEnc i instr).2 = false → armDec i (armEnc i instr).1 = (instr, false)) := by
  have hh := (isBL_iff instr hin).1 hbl
  obtain ⟨hv, hflag⟩ := armEnc_val i instr hin hbl hi
  have hf : armAddr i instr / 4 % 67108864 < 67108864 := Nat.mod_lt _ (by decide)
  have hlt : (armEnc i instr).1 < 2 ^ 32 := by rw [hv]; omega
  have hdec := armDec_val i (instr / 67108864) (armAddr i instr / 4 % 67108864) hh hf hi4
  refine ⟨hlt, ?_, ?_, ?_⟩
  · rw [isBL_iff _ hlt, hv]; omega
  · intro he; rw [hv, hdec]; simp only [decide_eq_true_eq]; exact hflag.1 he
  · intro he
    have hne : armAddr i instr / 4 % 67108864 ≠ 0 := by
      intro h0; have := hflag.2 h0; rw [he] at this; exact Bool.noConfusion this
    rw [hv, hdec]
    have hoff : (((armAddr i instr / 4 % 67108864 : Nat) : Int) - ((i / 4 : Nat) : Int)) % 67108864 =
        ((instr % 67108864 : Nat) : Int) := by
      by_cases hs : instr % 67108864 < 33554432
      · rw [armAddr_pos i instr hs]; omega
      · rw [armAddr_neg i instr (by omega)] at hne ⊢; omega
    rw [hoff]
    congr 1
    · omega
    · simp only [decide_eq_false_iff_not]; exact hne

end Kanzi.EXE
