/-
ROLZ (`rolzCodec1`): Forward never faults (`rolzForward_nf`), for blocks of any number of chunks.  Every read of
the block is in range, the loops terminate within their fuel, and the four side buffers never overflow:
  * `litBuf` (`MaxEncodedLen(sizeChunk)` bytes) holds at most one byte per covered position;
  * `lenBuf` (`sizeChunk/5` bytes): a length byte is only written for a match of at least 10 bytes or a literal
    run of at least 31 bytes (a second byte only from 128 up, ...): at most one byte per 10 covered positions;
  * `tkBuf` / `mIdxBuf` (`sizeChunk/4` entries): Forward declines when they are full (repair cd26df1), always
    keeping room for the token that follows the last match.
-/
import Kanzi.Model.ROLZ1
import Kanzi.Proofs.RolzxTotal

namespace Kanzi.ROLZ

/-! ## length coding -/

theorem emitLengthBytes_len (v : Nat) :
    1 ≤ (emitLengthBytes v).length ∧ (emitLengthBytes v).length ≤ 4 ∧ 10 * (emitLengthBytes v).length ≤ v + 10 := by
  unfold emitLengthBytes
  by_cases h7 : v ≥ 2 ^ 7
  · by_cases h14 : v ≥ 2 ^ 14
    · by_cases h21 : v ≥ 2 ^ 21
      · simp only [if_pos h7, if_pos h14, if_pos h21, List.length_append, List.length_cons, List.length_nil]
        omega
      · simp only [if_pos h7, if_pos h14, if_neg h21, List.length_append, List.length_cons, List.length_nil]
        omega
    · simp only [if_pos h7, if_neg h14, List.length_append, List.length_cons, List.length_nil]
      omega
  · simp only [if_neg h7, List.length_append, List.length_cons, List.length_nil]
    omega

/-! ## the match search reads inside the chunk -/

theorem cpl8_le (a : Array Nat) (i j : Nat) : cpl8 a i j ≤ 8 := by
  unfold cpl8
  have h1 := (cpl4_spec a i j).1
  have h2 := (cpl4_spec a (i + 4) (j + 4)).1
  split <;> omega

theorem matchLen1_nf (a : Array Nat) (lim r p maxMatch : Nat) (hr : r ≤ p) (hlim : maxMatch = 0 ∨ p + maxMatch + 8 ≤ lim) :
    ∀ (f n : Nat), 0 < f → maxMatch + 8 ≤ n + 8 * f →
    ∃ res, matchLen1 a lim r p maxMatch f n = .ok res ∧ (res = n ∨ (res < maxMatch + 8 ∧ 0 < maxMatch)) ∧ n ≤ res := by
  intro f
  induction f with
  | zero => intro n h0 _; omega
  | succ f ih =>
    intro n _ h
    simp only [matchLen1]
    by_cases hn : n < maxMatch
    · rw [if_pos hn, if_pos (by omega)]
      have hc := cpl8_le a (r + n) (p + n)
      split
      · exact ⟨_, rfl, Or.inr ⟨by omega, by omega⟩, by omega⟩
      · obtain ⟨res, h1, h2, h3⟩ := ih (n + 8) (by omega) (by omega)
        refine ⟨res, h1, ?_, by omega⟩
        rcases h2 with h2 | h2
        · exact Or.inr ⟨by omega, by omega⟩
        · exact Or.inr h2
    · rw [if_neg hn]; exact ⟨_, rfl, Or.inl rfl, Nat.le_refl _⟩

theorem candLoop1_nf (a : Array Nat) (base lim pos hash32 maxMatch : Nat) (mts : Array Nat) (mb counter pc : Nat)
    (hent : ∀ k, base + mts.getD k 0 % 2 ^ 24 ≤ pos) (hpos : pos < lim)
    (hlim : maxMatch = 0 ∨ pos + maxMatch + 8 ≤ lim) :
    ∀ (k j L J : Nat), (L = 0 ∨ (L < maxMatch + 8 ∧ 0 < maxMatch)) →
    ∃ res, candLoop1 a base lim pos hash32 maxMatch mts mb counter pc k j L J = .ok res ∧
      (res.1 = 0 ∨ (res.1 < maxMatch + 8 ∧ 0 < maxMatch)) := by
  intro k
  induction k with
  | zero => intro j L J hL; exact ⟨_, rfl, hL⟩
  | succ k ih =>
    intro j L J hL
    simp only [candLoop1]
    split
    · exact ih _ _ _ hL
    · have hr := hent (mb + (counter + pc - j) % pc)
      have hLlim : pos + L < lim := by
        rcases hL with h0 | ⟨h1, h2⟩
        · omega
        · omega
      rw [rd1_eq (by omega), rd1_eq hLlim]
      simp only
      split
      · exact ih _ _ _ hL
      · obtain ⟨n, hn, hb, _⟩ := matchLen1_nf a lim (base + mts.getD (mb + (counter + pc - j) % pc) 0 % 2 ^ 24) pos maxMatch hr
          hlim (maxMatch / 8 + 2) 0 (by omega) (by omega)
        rw [hn]
        simp only
        split
        · refine ih _ _ _ ?_
          rcases hb with h0 | h0
          · omega
          · exact Or.inr h0
        · exact ih _ _ _ hL

/-- `findMatch` of ROLZ does not fault; a reported match lies inside the chunk -/
theorem findMatch1_nf {a : Array Nat} {base lim pos hash32 key mm lpc : Nat} {t : Tab} (ht : TInv t lpc base pos)
    (hpos : pos < lim) (hmm : 3 ≤ mm ∧ mm ≤ 7) :
    findMatch1 a base lim pos hash32 key mm lpc t = .ok none ∨
    ∃ j ml, findMatch1 a base lim pos hash32 key mm lpc t = .ok (some (j, ml)) ∧ pos + ml + mm < lim := by
  unfold findMatch1
  have hM : MAX_MATCH1 = 65538 := rfl
  dsimp only
  split
  · left; rfl
  · rename_i hge
    obtain ⟨res, hres, hb⟩ := candLoop1_nf a base lim pos hash32 (min MAX_MATCH1 (lim - pos) - 8) t.mts (key * 2 ^ lpc)
      (t.counters.getD key 0) (2 ^ lpc) ht.ent hpos (by rw [hM]; omega) (2 ^ lpc) 0 0 0 (Or.inl rfl)
    rw [hres]
    simp only
    split
    · left; rfl
    · right
      refine ⟨_, _, rfl, ?_⟩
      rw [hM] at hb
      omega

/-! ## the side buffers -/

theorem size_appendL (out : Array Nat) (l : List Nat) : (out ++ l).size = out.size + l.length := by
  rw [← Array.length_toList, Array.toList_appendList]; simp

theorem pushAll_some {buf : Array Nat} {cap : Nat} {bs : List Nat} (h : buf.size + bs.length ≤ cap) :
    ∃ b, pushAll buf cap bs = some b ∧ b.size = buf.size + bs.length := by
  unfold pushAll
  rw [if_pos h]
  exact ⟨_, rfl, size_appendL _ _⟩

theorem pushLits_some {lit : Array Nat} {cap : Nat} {a : Array Nat} {frm to : Nat} (h : lit.size + (to - frm) ≤ cap)
    (hto : to ≤ a.size) : ∃ b, pushLits lit cap a frm to = some b ∧ b.size = lit.size + (to - frm) := by
  unfold pushLits
  rw [if_pos ⟨h, hto⟩]
  refine ⟨_, rfl, ?_⟩
  rw [Array.size_append, Array.size_extract]
  omega

/-- the invariants of the side buffers and tables of Forward inside the chunk `[base, lim)`: `first` = start of
    the current literal run (everything before it is covered by emitted sequences), `i` = current position -/
structure BInv (s : F1) (cp : Caps) (lpc base first i : Nat) : Prop where
  tab : TInv s.tab lpc base i
  lit : s.lit.size ≤ first - base
  len : 10 * s.len.size ≤ first - base
  tk : s.tk.size = 0 ∨ s.tk.size + 1 ≤ cp.tk

/-- the buffers are large enough for a chunk `[base, lim)` -/
structure CapOk (cp : Caps) (base lim : Nat) : Prop where
  lit : lim - base ≤ cp.lit
  len : lim - base ≤ 5 * cp.len + 4

theorem emitSeq_nf {a : Array Nat} {cp : Caps} {lpc base lim first i j mi ml mm : Nat} {s : F1}
    (hc : CapOk cp base lim) (hb : BInv s cp lpc base first j) (hj : j ≤ i + ml + mm) (hbf : base ≤ first) (hfi : first ≤ i)
    (hend : i + ml + mm ≤ lim) (hlim : lim ≤ a.size) (hmm : 3 ≤ mm) :
    (∃ e, emitSeq a cp first i mi ml s = .err e) ∨
    (∃ s', emitSeq a cp first i mi ml s = .ok s' ∧ BInv s' cp lpc base (i + ml + mm) (i + ml + mm)) := by
  unfold emitSeq
  dsimp only
  have hl1 := emitLengthBytes_len (ml - 7)
  have hl2 := emitLengthBytes_len (i - first - 31)
  have hcl := hc.lit
  have hcn := hc.len
  obtain ⟨htab, hlit, hlen, htk⟩ := hb
  -- the match length
  have h1 : ∃ len1, (if ml ≥ 7 then pushAll s.len cp.len (emitLengthBytes (ml - 7)) else some s.len) = some len1 ∧
      s.len.size ≤ len1.size ∧ 10 * len1.size ≤ first - base + (if ml ≥ 7 then ml + mm else 0) := by
    by_cases h7 : ml ≥ 7
    · rw [if_pos h7, if_pos h7]
      obtain ⟨b, hb1, hb2⟩ := pushAll_some (buf := s.len) (cap := cp.len) (bs := emitLengthBytes (ml - 7)) (by omega)
      exact ⟨b, hb1, by omega, by omega⟩
    · rw [if_neg h7, if_neg h7]
      exact ⟨_, rfl, Nat.le_refl _, by omega⟩
  obtain ⟨len1, e1, z1, z1'⟩ := h1
  rw [e1]
  simp only
  -- the literal length
  have h2 : ∃ len2, (if i - first ≥ 31 then pushAll len1 cp.len (emitLengthBytes (i - first - 31)) else some len1) = some len2 ∧
      10 * len2.size ≤ i + ml + mm - base := by
    by_cases h31 : i - first ≥ 31
    · rw [if_pos h31]
      obtain ⟨b, hb1, hb2⟩ := pushAll_some (buf := len1) (cap := cp.len) (bs := emitLengthBytes (i - first - 31))
        (by split at z1' <;> omega)
      exact ⟨b, hb1, by split at z1' <;> omega⟩
    · rw [if_neg h31]
      exact ⟨_, rfl, by split at z1' <;> omega⟩
  obtain ⟨len2, e2, z2⟩ := h2
  rw [e2]
  simp only
  -- the literals
  have h3 : ∃ lit1, (if i - first > 0 then pushLits s.lit cp.lit a first i else some s.lit) = some lit1 ∧
      lit1.size ≤ i - base := by
    by_cases h0 : i - first > 0
    · rw [if_pos h0]
      obtain ⟨b, hb1, hb2⟩ := pushLits_some (lit := s.lit) (cap := cp.lit) (a := a) (frm := first) (to := i)
        (by omega) (by omega)
      exact ⟨b, hb1, by omega⟩
    · rw [if_neg h0]
      exact ⟨_, rfl, by omega⟩
  obtain ⟨lit1, e3, z3⟩ := h3
  rw [e3]
  simp only
  by_cases hfull : s.tk.size + 1 ≥ cp.tk ∨ s.mix.size ≥ cp.tk
  · left; rw [if_pos hfull]; exact ⟨_, rfl⟩
  · right
    rw [if_neg hfull]
    obtain ⟨tk1, et, zt⟩ := pushAll_some (buf := s.tk) (cap := cp.tk) (bs := [_]) (by simp only [List.length_cons, List.length_nil]; omega)
    obtain ⟨mix1, em, _⟩ := pushAll_some (buf := s.mix) (cap := cp.tk) (bs := [mi % 256]) (by simp only [List.length_cons, List.length_nil]; omega)
    rw [et, em]
    refine ⟨_, rfl, ⟨tinv_mono htab (by omega), by simp only; omega, by simp only; omega, ?_⟩⟩
    right
    simp only
    simp only [List.length_cons, List.length_nil] at zt
    omega

/-! ## one step, the loops -/

/-- loop invariant of "Next chunk": the run start is inside the chunk and not after the current position -/
structure LInv (l : L1) (cp : Caps) (lpc base lim : Nat) : Prop where
  b : BInv l.st cp lpc base l.first l.i
  bf : base ≤ l.first
  fi : l.first ≤ l.i
  fl : l.first ≤ lim

theorem register_tinv1 {t : Tab} {lpc base i i' : Nat} (h : TInv t lpc base i) (hi : i < i') (key hash32 p : Nat)
    (hh : hash32 % 2 ^ 24 = 0) (hp : base + p ≤ i') : TInv (t.register lpc key (hash32 + p)) lpc base i' := by
  refine ⟨register_ok h.ok _ _, fun k => ?_⟩
  simp only [Tab.register]
  rw [getD_setIfInBounds]
  split
  · have h2 : (hash32 + p) % 2 ^ 24 ≤ p := by
      have : (hash32 + p) % 2 ^ 24 = p % 2 ^ 24 := by omega
      rw [this]; exact Nat.mod_le _ _
    omega
  · have := h.ent k; omega

theorem lazyPick_cases (i mi ml : Nat) (r1 : Option (Nat × Nat)) (tab1 : Tab) (lpc key1 v1 : Nat) :
    lazyPick i mi ml r1 tab1 lpc key1 v1 = (i, mi, ml, tab1) ∨
    ∃ mi1 ml1, r1 = some (mi1, ml1) ∧ lazyPick i mi ml r1 tab1 lpc key1 v1 = (i + 1, mi1, ml1, tab1.register lpc key1 v1) := by
  unfold lazyPick
  cases r1 with
  | none => left; rfl
  | some q =>
    obtain ⟨mi1, ml1⟩ := q
    simp only
    by_cases hgt : ml1 > ml
    · right; rw [if_pos hgt]; exact ⟨mi1, ml1, rfl, rfl⟩
    · left; rw [if_neg hgt]

theorem fwd1Step_nf {a : Array Nat} {cp : Caps} {base lim mm delta lpc : Nat} {l : L1} (hpar : ParamsOk mm delta)
    (hmm : 3 ≤ mm ∧ mm ≤ 7) (hc : CapOk cp base lim) (hbi : base + 8 ≤ l.i) (hil : l.i < lim) (hlim : lim + 4 ≤ a.size)
    (hl : LInv l cp lpc base lim) :
    (∃ e, fwd1Step a cp base lim mm delta lpc l = .err e) ∨
    (∃ l', fwd1Step a cp base lim mm delta lpc l = .ok l' ∧ l.i < l'.i ∧ LInv l' cp lpc base lim) := by
  unfold fwd1Step
  dsimp only
  obtain ⟨key, hkey⟩ := getKey_some hpar a hbi (by omega : l.i ≤ lim)
  have hle : ∀ p, p + 4 ≤ a.size → le32 a a.size p = some (a.getD p 0 + 256 * a.getD (p + 1) 0 + 65536 * a.getD (p + 2) 0
      + 16777216 * a.getD (p + 3) 0) := by
    intro p hp
    unfold le32; rw [if_pos hp]
  rw [hkey, hle l.i (by omega)]
  simp only
  obtain ⟨hb, hbf, hfi, hfl⟩ := hl
  have hreg : ∀ w, TInv (l.st.tab.register lpc key (rolzhashW w + (l.i - base))) lpc base (l.i + 1) :=
    fun w => register_tinv1 hb.tab (by omega) _ _ _ (rolzhashW_mod w) (by omega)
  rcases findMatch1_nf (a := a) (hash32 := rolzhashW (a.getD l.i 0 + 256 * a.getD (l.i + 1) 0 + 65536 * a.getD (l.i + 2) 0
      + 16777216 * a.getD (l.i + 3) 0)) (key := key) hb.tab hil hmm with hnone | ⟨mi, ml, hsome, hend⟩
  · -- no match: register and skip ahead
    rw [hnone]
    right
    refine ⟨_, rfl, by simp only; omega, ⟨⟨tinv_mono (hreg _) (by simp only; omega), hb.lit, hb.len, hb.tk⟩, hbf,
      by simp only; omega, hfl⟩⟩
  · rw [hsome]
    simp only
    obtain ⟨key1, hkey1⟩ := getKey_some hpar a (by omega : base + 8 ≤ l.i + 1) (by omega : l.i + 1 ≤ lim)
    rw [hkey1, hle (l.i + 1) (by omega)]
    simp only
    -- the second search cannot fault either; whatever it returns, the emitted sequence lies inside the chunk
    have hsecond : ∃ r1, findMatch1 a base lim (l.i + 1) (rolzhashW (a.getD (l.i + 1) 0 + 256 * a.getD (l.i + 1 + 1) 0
        + 65536 * a.getD (l.i + 1 + 2) 0 + 16777216 * a.getD (l.i + 1 + 3) 0)) key1 mm lpc
        (l.st.tab.register lpc key (rolzhashW (a.getD l.i 0 + 256 * a.getD (l.i + 1) 0 + 65536 * a.getD (l.i + 2) 0
          + 16777216 * a.getD (l.i + 3) 0) + (l.i - base))) = .ok r1 ∧
        ∀ mi1 ml1, r1 = some (mi1, ml1) → l.i + 1 + ml1 + mm < lim := by
      by_cases hil1 : l.i + 1 < lim
      · rcases findMatch1_nf (a := a) (hash32 := rolzhashW (a.getD (l.i + 1) 0 + 256 * a.getD (l.i + 1 + 1) 0
            + 65536 * a.getD (l.i + 1 + 2) 0 + 16777216 * a.getD (l.i + 1 + 3) 0)) (key := key1) (hreg _) hil1 hmm with
          hnone1 | ⟨mi1, ml1, hsome1, hend1⟩
        · exact ⟨none, hnone1, fun _ _ hc => by cases hc⟩
        · refine ⟨some (mi1, ml1), hsome1, fun a1 b1 hc => ?_⟩
          injection hc with hc
          injection hc with h1 h2
          subst h2
          exact hend1
      · refine ⟨none, ?_, fun _ _ hc => by cases hc⟩
        unfold findMatch1
        dsimp only
        have hM : MAX_MATCH1 = 65538 := rfl
        rw [if_pos (by rw [hM]; omega)]
    obtain ⟨r1, hr1, hr1end⟩ := hsecond
    rw [hr1]
    simp only
    -- the chosen sequence
    have hpick : ∃ i' mi' ml' tab2, lazyPick l.i mi ml r1 (l.st.tab.register lpc key (rolzhashW (a.getD l.i 0
          + 256 * a.getD (l.i + 1) 0 + 65536 * a.getD (l.i + 2) 0 + 16777216 * a.getD (l.i + 3) 0) + (l.i - base))) lpc key1
          (rolzhashW (a.getD (l.i + 1) 0 + 256 * a.getD (l.i + 1 + 1) 0 + 65536 * a.getD (l.i + 1 + 2) 0
            + 16777216 * a.getD (l.i + 1 + 3) 0) + (l.i + 1 - base)) = (i', mi', ml', tab2) ∧
        l.i ≤ i' ∧ i' + ml' + mm ≤ lim ∧ TInv tab2 lpc base (i' + 1) := by
      rcases lazyPick_cases l.i mi ml r1 (l.st.tab.register lpc key (rolzhashW (a.getD l.i 0
          + 256 * a.getD (l.i + 1) 0 + 65536 * a.getD (l.i + 2) 0 + 16777216 * a.getD (l.i + 3) 0) + (l.i - base))) lpc key1
          (rolzhashW (a.getD (l.i + 1) 0 + 256 * a.getD (l.i + 1 + 1) 0 + 65536 * a.getD (l.i + 1 + 2) 0
            + 16777216 * a.getD (l.i + 1 + 3) 0) + (l.i + 1 - base)) with hp | ⟨mi1, ml1, hr, hp⟩
      · exact ⟨_, _, _, _, hp, Nat.le_refl _, by omega, hreg _⟩
      · refine ⟨_, _, _, _, hp, by omega, by have := hr1end mi1 ml1 hr; omega, ?_⟩
        exact register_tinv1 (hreg _) (by omega) _ _ _ (rolzhashW_mod _) (by omega)
    obtain ⟨i', mi', ml', tab2, hp, hp1, hp2, hp3⟩ := hpick
    rw [hp]
    simp only
    rcases emitSeq_nf (a := a) (mi := mi') (s := ⟨tab2, l.st.lit, l.st.len, l.st.mix, l.st.tk⟩) hc
        ⟨hp3, hb.lit, hb.len, hb.tk⟩ (by omega) hbf (by omega : l.first ≤ i') hp2 (by omega) hmm.1 with
      ⟨e, he⟩ | ⟨s', hs', hb'⟩
    · left; rw [he]; exact ⟨_, rfl⟩
    · right
      rw [hs']
      exact ⟨_, rfl, by simp only; omega, ⟨hb', by simp only; omega, Nat.le_refl _, hp2⟩⟩

theorem fwd1Loop_nf {a : Array Nat} {cp : Caps} {base lim mm delta lpc : Nat} (hpar : ParamsOk mm delta)
    (hmm : 3 ≤ mm ∧ mm ≤ 7) (hc : CapOk cp base lim) (hlim : lim + 4 ≤ a.size) :
    ∀ (f : Nat) (l : L1), (base + 8 ≤ l.i ∨ lim ≤ l.i) → lim - l.i + 1 ≤ f → LInv l cp lpc base lim →
    (∃ e, fwd1Loop a cp base lim mm delta lpc f l = .err e) ∨
    (∃ l', fwd1Loop a cp base lim mm delta lpc f l = .ok l' ∧ LInv l' cp lpc base lim) := by
  intro f
  induction f with
  | zero => intro l _ hf; omega
  | succ f ih =>
    intro l hbi hf hl
    simp only [fwd1Loop]
    by_cases hil : l.i < lim
    · rw [if_pos hil]
      rcases fwd1Step_nf hpar hmm hc (by omega) hil hlim hl with ⟨e, he⟩ | ⟨l', hl', h1, h2⟩
      · left; rw [he]; exact ⟨_, rfl⟩
      · rw [hl']
        simp only
        exact ih l' (by omega) (by omega) h2
    · right
      rw [if_neg hil]
      exact ⟨_, rfl, hl⟩

theorem fwd1Tail_nf {a : Array Nat} {cp : Caps} {lpc base lim first j : Nat} {s : F1} (hc : CapOk cp base lim)
    (hb : BInv s cp lpc base first j) (hbf : base ≤ first) (hfl : first ≤ lim) (hlim : lim ≤ a.size) :
    ∃ s', fwd1Tail a cp first lim s = .ok s' ∧ s'.tab = s.tab := by
  unfold fwd1Tail
  dsimp only
  have hl2 := emitLengthBytes_len (lim - first - 31)
  have hcl := hc.lit
  have hcn := hc.len
  obtain ⟨htab, hlit, hlen, htk⟩ := hb
  have h1 : ∃ tk1, (if s.tk.size ≠ 0 then pushAll s.tk cp.tk [if lim - first ≥ 31 then 0xF8 else (lim - first) <<< 3 % 256]
      else some s.tk) = some tk1 := by
    by_cases h0 : s.tk.size ≠ 0
    · rw [if_pos h0]
      obtain ⟨b, hb1, _⟩ := pushAll_some (buf := s.tk) (cap := cp.tk)
        (bs := [if lim - first ≥ 31 then 0xF8 else (lim - first) <<< 3 % 256])
        (by simp only [List.length_cons, List.length_nil]; omega)
      exact ⟨b, hb1⟩
    · rw [if_neg h0]; exact ⟨_, rfl⟩
  obtain ⟨tk1, e1⟩ := h1
  rw [e1]
  simp only
  have h2 : ∃ len1, (if lim - first ≥ 31 then pushAll s.len cp.len (emitLengthBytes (lim - first - 31)) else some s.len)
      = some len1 := by
    by_cases h31 : lim - first ≥ 31
    · rw [if_pos h31]
      obtain ⟨b, hb1, _⟩ := pushAll_some (buf := s.len) (cap := cp.len) (bs := emitLengthBytes (lim - first - 31)) (by omega)
      exact ⟨b, hb1⟩
    · rw [if_neg h31]; exact ⟨_, rfl⟩
  obtain ⟨len1, e2⟩ := h2
  rw [e2]
  simp only
  have h3 : ∃ lit1, (if lim - first > 0 then pushLits s.lit cp.lit a first lim else some s.lit) = some lit1 := by
    by_cases h0 : lim - first > 0
    · rw [if_pos h0]
      obtain ⟨b, hb1, _⟩ := pushLits_some (lit := s.lit) (cap := cp.lit) (a := a) (frm := first) (to := lim) (by omega) hlim
      exact ⟨b, hb1⟩
    · rw [if_neg h0]; exact ⟨_, rfl⟩
  obtain ⟨lit1, e3⟩ := h3
  rw [e3]
  exact ⟨_, rfl, rfl⟩

theorem capsOf_ok {sz0 base lim : Nat} (h : lim - base ≤ sz0) : CapOk (capsOf sz0) base lim := by
  constructor
  · show lim - base ≤ maxEncodedLen1 sz0
    unfold maxEncodedLen1; split <;> omega
  · show lim - base ≤ 5 * (sz0 / 5) + 4
    omega

theorem fwd1Chunks_nf {a : Array Nat} {sz0 dstLen srcEnd mm delta lpc litOrder : Nat} (hpar : ParamsOk mm delta)
    (hmm : 3 ≤ mm ∧ mm ≤ 7) (hse : srcEnd + 4 ≤ a.size) :
    ∀ (f st sz : Nat) (tab : Tab) (out : Array Nat), 0 < sz → (8 ≤ sz ∨ st + sz ≥ srcEnd) → sz ≤ sz0 → st ≤ srcEnd →
    (srcEnd - st) + sz ≤ f * sz → tab.counters.size = HASH_SIZE →
    (∃ e, fwd1Chunks a (capsOf sz0) dstLen srcEnd mm delta lpc litOrder f st sz tab out = .err e) ∨
    (∃ r, fwd1Chunks a (capsOf sz0) dstLen srcEnd mm delta lpc litOrder f st sz tab out = .ok r ∧ r.1 = srcEnd) := by
  intro f
  induction f with
  | zero => intro st sz tab out h0 _ _ _ hf; rw [Nat.zero_mul] at hf; omega
  | succ g ih =>
    intro st sz tab out hsz0 h8 hszle hst hfuel hcnt
    have hsm : (g + 1) * sz = g * sz + sz := by rw [Nat.add_mul, Nat.one_mul]
    simp only [fwd1Chunks]
    by_cases hlt : st < srcEnd
    · rw [if_pos hlt]
      generalize hedef : (if st + sz ≥ srcEnd then srcEnd else st + sz) = e
      have hest : st < e ∧ e ≤ srcEnd ∧ e - st ≤ sz ∧ (e = srcEnd ∨ e = st + sz) := by
        rw [← hedef]
        by_cases hc : st + sz ≥ srcEnd
        · rw [if_pos hc]; exact ⟨hlt, Nat.le_refl _, by omega, Or.inl rfl⟩
        · rw [if_neg hc]; exact ⟨by omega, by omega, by omega, Or.inr rfl⟩
      obtain ⟨he1, he2, he3, he4⟩ := hest
      have hcap : CapOk (capsOf sz0) st e := capsOf_ok (by omega)
      obtain ⟨lit0, hl0, hl0sz⟩ := pushLits_some (lit := #[]) (cap := (capsOf sz0).lit) (a := a) (frm := st)
        (to := st + min (srcEnd - st) 8) (by have := hcap.lit; simp only [Array.size_empty]; omega) (by omega)
      rw [hl0]
      simp only
      have hlinv : LInv ⟨st + min (srcEnd - st) 8, st + min (srcEnd - st) 8, 0, ⟨⟨matches0 lpc, tab.counters⟩, lit0, #[], #[], #[]⟩⟩
          (capsOf sz0) lpc st e := by
        refine ⟨⟨⟨tabOk_clear _ _ hcnt, fun k => ?_⟩, ?_, by simp, Or.inl (by simp)⟩, by simp only; omega, Nat.le_refl _,
          by simp only; omega⟩
        · simp only [matches0, Array.getD_eq_getD_getElem?, Array.getElem?_replicate]
          split <;> simp
        · simp only [Array.size_empty] at hl0sz
          simp only; omega
      rcases fwd1Loop_nf (a := a) (delta := delta) hpar hmm hcap (by omega) (e - st + 1) _ (by simp only; omega)
          (by simp only; omega) hlinv with ⟨er, her⟩ | ⟨l', hl', hinv'⟩
      · left; rw [her]; exact ⟨_, rfl⟩
      · rw [hl']
        simp only
        obtain ⟨s', hs', hst'⟩ := fwd1Tail_nf (a := a) hcap hinv'.b hinv'.bf hinv'.fl (by omega)
        rw [hs']
        simp only
        cases hcb : chunkBits litOrder s'.lit.toList s'.tk.toList s'.len.toList s'.mix.toList with
        | none => left; exact ⟨_, rfl⟩
        | some bits =>
          simp only
          by_cases hfit : out.size + (packFast bits).size > dstLen
          · left; rw [if_pos hfit]; exact ⟨_, rfl⟩
          · rw [if_neg hfit]
            have hfuel' : (srcEnd - e) + (e - st) ≤ g * (e - st) := by
              rcases he4 with he4 | he4
              · have hg1 : 0 < g := by
                  rcases Nat.eq_zero_or_pos g with h0 | h0
                  · have h1 : (g + 1) * sz = sz := by rw [h0, Nat.zero_add, Nat.one_mul]
                    omega
                  · exact h0
                have := Nat.le_mul_of_pos_left (e - st) hg1
                omega
              · have e1 : e - st = sz := by omega
                rw [e1]; omega
            exact ih e (e - st) s'.tab _ (by omega) (by omega) (by omega) he2 hfuel' (by rw [hst']; exact hinv'.b.tab.ok.cnt)
    · right
      rw [if_neg hlt]
      exact ⟨_, rfl, by simp only; omega⟩

/-- **ROLZ Forward never faults**: every block (any values, any length, any number of chunks), every
    `logPosChecks`, every ctx / data type hint, any destination -/
theorem rolzForward_nf {cs lpc : Nat} {hasCtx : Bool} {dt : Nat} {src : List Nat} {dstLen : Nat} (hcs : 8 ≤ cs) :
    ∀ k, rolzForward cs lpc hasCtx dt src dstLen ≠ .fault k := by
  intro k
  unfold rolzForward
  split
  · simp
  · split
    · simp
    · rename_i hmin
      split
      · simp
      · split
        · simp
        · dsimp only
          have hpar : ParamsOk (fwdParams1 (effType hasCtx dt src)).1 (fwdParams1 (effType hasCtx dt src)).2.1 ∧
              3 ≤ (fwdParams1 (effType hasCtx dt src)).1 ∧ (fwdParams1 (effType hasCtx dt src)).1 ≤ 7 := by
            unfold fwdParams1
            split
            · exact ⟨Or.inl ⟨rfl, Or.inr rfl⟩, by decide, by decide⟩
            · split
              · exact ⟨Or.inr ⟨by decide, rfl⟩, by decide, by decide⟩
              · split
                · exact ⟨Or.inr ⟨by decide, rfl⟩, by decide, by decide⟩
                · exact ⟨Or.inl ⟨rfl, Or.inl rfl⟩, by decide, by decide⟩
          obtain ⟨hp1, hp2, hp3⟩ := hpar
          generalize fwdParams1 (effType hasCtx dt src) = prm at hp1 hp2 hp3
          have hn : src.toArray.size = src.length := List.size_toArray
          rw [hn]
          have hn64 : 64 ≤ src.length := by unfold MIN_BLOCK_SIZE at hmin; omega
          have hm : 0 < min src.length cs := by omega
          have hfuel : (src.length - 4 - 0) + min src.length cs ≤ (src.length / min src.length cs + 2) * min src.length cs := by
            have h1 := Nat.div_add_mod src.length (min src.length cs)
            have h2 := Nat.mod_lt src.length hm
            rw [Nat.add_mul, Nat.mul_comm (src.length / min src.length cs)]
            omega
          rcases fwd1Chunks_nf (a := src.toArray) (sz0 := min src.length cs) (dstLen := dstLen) (srcEnd := src.length - 4)
              (lpc := lpc) (litOrder := if src.length < 2 ^ 17 then 0 else 1) hp1 ⟨hp2, hp3⟩ (by rw [hn]; omega)
              (src.length / min src.length cs + 2) 0 (min src.length cs) ⟨matches0 lpc, Array.replicate HASH_SIZE 0⟩
              #[(src.length >>> 24) % 256, (src.length >>> 16) % 256, (src.length >>> 8) % 256, src.length % 256,
                ((if src.length < 2 ^ 17 then 0 else 1) ||| prm.2.2 ||| (lpc <<< 4)) % 256]
              hm (Or.inl (by omega)) (Nat.le_refl _) (by omega) hfuel (by simp) with ⟨e, he⟩ | ⟨r, hr, hr1⟩
          · rw [he]; simp
          · rw [hr]
            obtain ⟨r1, r2, r3, r4⟩ := r
            simp only at hr1 ⊢
            subst hr1
            split
            · simp
            · rw [rd1_eq (by omega), rd1_eq (by omega), rd1_eq (by omega), rd1_eq (by omega)]
              simp only
              split
              · simp
              · split <;> simp

end Kanzi.ROLZ
