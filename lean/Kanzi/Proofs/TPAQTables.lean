/-
Facts about the computed tables of the TPAQ model (`squashTab` = internal.SQUASH, `stretchTab` =
internal.STRETCH as computed by the `init()` of internal/Global.go): sizes and ranges, proved from the
defining loops (no evaluation of the 4096 entries).
-/
import Kanzi.Model.TPAQ

namespace Kanzi.TPAQ

theorem invExp_eq : invExp = #[0, 8, 22, 47, 88, 160, 283, 492, 848, 1451, 2459, 4117, 6766, 10819, 16608, 24127,
    32768, 41409, 48928, 54717, 58770, 61419, 63077, 64085, 64688, 65044, 65253, 65376, 65448, 65489, 65514, 65528,
    65536] := rfl

/-- one entry of the first loop of `init()`: in `[0, 4095]` -/
theorem squashEntry_range (x : Int) (h0 : -2047 ≤ x) (h1 : x ≤ 2047) :
    0 ≤ squashEntry x ∧ squashEntry x ≤ 4095 := by
  unfold squashEntry
  simp only [Int.shiftRight_eq_div_pow]
  have hw0 := Int.emod_nonneg x (show (128 : Int) ≠ 0 by decide)
  have hw1 := Int.emod_lt_of_pos x (show (0 : Int) < 128 by decide)
  generalize x % 128 = w at *
  have hy : (x / ((2 ^ 7 : Nat) : Int) + 16).toNat ≤ 31 := by omega
  generalize (x / ((2 ^ 7 : Nat) : Int) + 16).toNat = y at *
  clear h0 h1
  have : y = 0 ∨ y = 1 ∨ y = 2 ∨ y = 3 ∨ y = 4 ∨ y = 5 ∨ y = 6 ∨ y = 7 ∨ y = 8 ∨ y = 9 ∨ y = 10 ∨ y = 11 ∨
      y = 12 ∨ y = 13 ∨ y = 14 ∨ y = 15 ∨ y = 16 ∨ y = 17 ∨ y = 18 ∨ y = 19 ∨ y = 20 ∨ y = 21 ∨ y = 22 ∨
      y = 23 ∨ y = 24 ∨ y = 25 ∨ y = 26 ∨ y = 27 ∨ y = 28 ∨ y = 29 ∨ y = 30 ∨ y = 31 := by omega
  rw [invExp_eq]
  rcases this with h | h | h | h | h | h | h | h | h | h | h | h | h | h | h | h | h | h | h | h | h | h | h | h |
      h | h | h | h | h | h | h | h <;> subst h <;> simp <;> omega

theorem squashTab_size : squashTab.size = 4096 := by simp [squashTab]

theorem squashTab_mem (v : Int) (h : v ∈ squashTab.toList) : 0 ≤ v ∧ v ≤ 4095 := by
  simp only [squashTab, List.mem_map, List.mem_range] at h
  obtain ⟨i, hi, rfl⟩ := h
  split
  · omega
  · exact squashEntry_range _ (by omega) (by omega)

theorem getD_mem_or {l : Array Int} (i : Nat) (d : Int) : l.getD i d ∈ l.toList ∨ l.getD i d = d := by
  by_cases h : i < l.size
  · left; simp [Array.getD, h]
  · right; simp [Array.getD, h]

theorem squashTab_getD (i : Nat) : 0 ≤ squashTab.getD i 0 ∧ squashTab.getD i 0 ≤ 4095 := by
  rcases getD_mem_or (l := squashTab) i 0 with h | h
  · exact squashTab_mem _ h
  · rw [h]; omega

/-- `internal.Squash(d)` is in `[0, 4095]` for every `d` -/
theorem squash_range (d : Int) : 0 ≤ squash d ∧ squash d ≤ 4095 := by
  unfold squash
  split
  · omega
  · split
    · omega
    · exact squashTab_getD _

/-- the index expression `SQUASH[d+2047]` inside `Squash` is in range -/
theorem squash_index_ok (d : Int) (h1 : ¬ d ≥ 2048) (h2 : ¬ d ≤ -2048) : inb (d + 2047) 4096 = true := by
  simp [inb]; omega

/-! ### STRETCH -/

def InS (v : Int) : Prop := -2047 ≤ v ∧ v ≤ 2047

theorem stretchStep_ok (st : List Int × Nat) (k : Nat) (hk : k < 4095) (h : ∀ v ∈ st.1, InS v) :
    ∀ v ∈ (stretchStep st k).1, InS v := by
  unfold stretchStep
  dsimp only
  split
  · intro v hv
    simp only [List.mem_append, List.mem_replicate] at hv
    rcases hv with ⟨_, rfl⟩ | hv
    · unfold InS; omega
    · exact h v hv
  · exact h

theorem stretchFold_ok (l : List Nat) (hl : ∀ k ∈ l, k < 4095) (st : List Int × Nat) (h : ∀ v ∈ st.1, InS v) :
    ∀ v ∈ (l.foldl stretchStep st).1, InS v := by
  induction l generalizing st with
  | nil => exact h
  | cons k ks ih =>
    exact ih (fun k' hk' => hl k' (List.mem_cons_of_mem _ hk')) _ (stretchStep_ok st k (hl k List.mem_cons_self) h)

theorem stretchList_mem (v : Int) (h : v ∈ stretchList) : InS v := by
  unfold stretchList at h
  rw [List.mem_reverse] at h
  exact stretchFold_ok _ (fun k hk => List.mem_range.1 hk) _ (by simp) v h

theorem stretchTab_size : stretchTab.size = 4096 := by
  simp [stretchTab]; omega

theorem stretchTab_mem (v : Int) (h : v ∈ stretchTab.toList) : InS v := by
  simp only [stretchTab] at h
  rcases List.mem_or_eq_of_mem_set h with h | h
  · have h := List.mem_of_mem_take h
    rcases List.mem_append.1 h with h | h
    · exact stretchList_mem v h
    · rw [List.mem_replicate] at h; rw [h.2]; unfold InS; omega
  · rw [h]; unfold InS; omega

/-- every entry of `STRETCH` (and the value the model reads outside the table, 0) is in `[-2047, 2047]` -/
theorem stretchTab_getD (i : Nat) : -2047 ≤ stretchTab.getD i 0 ∧ stretchTab.getD i 0 ≤ 2047 := by
  rcases getD_mem_or (l := stretchTab) i 0 with h | h
  · exact stretchTab_mem _ h
  · rw [h]; omega

theorem stretchAt_range (i : Int) : -2047 ≤ stretchAt i ∧ stretchAt i ≤ 2047 := by
  unfold stretchAt
  split
  · exact stretchTab_getD _
  · omega

/-! ### literal tables -/

set_option maxRecDepth 10000 in
theorem trans0_size : trans0.size = 256 := by decide
set_option maxRecDepth 10000 in
theorem trans1_size : trans1.size = 256 := by decide
set_option maxRecDepth 10000 in
theorem stateMap_size : stateMap.size = 256 := by decide
theorem matchPred_size : matchPred.size = 88 := by decide
theorem invExp_size : invExp.size = 33 := by decide

end Kanzi.TPAQ
