/-
Proofs for C03 (Huffman), agreement of the TOTAL decoder model (`Model/HufDec.lean`: one shared
buffer, stale content, `R` outcomes) with the encoder of `Model/Huffman.lean` on ENCODER OUTPUT:
the round trip of C12 carries over to `HufDec.read`, from any decoder object whose buffer holds
bytes.  Slice `hufagree`; proof only.

Route: the buffer after the four `ReadArray` and the four `clear` is described through `getD`
(`Seg B off l`: the bytes `l` sit at `off`); `decFragLoop_spec` (any buffer of bytes, any start
index) turns the register machine started at `idx = j*stride` into the plain table walk on the bits
of the buffer from `8*j*stride`, which begin with sub-stream `j`; `specDec_codes` finishes.  What
lies behind a sub-stream (cleared bytes, stale bytes, the next region) never matters.
-/
import Kanzi.Model.HufDec
import Kanzi.Proofs.HufDecTotal
import Kanzi.Proofs.HufDecSafe
import Kanzi.Proofs.HufChunk
import Kanzi.Proofs.HufBlock

namespace Kanzi.HufDec
open Kanzi.Bits Kanzi.EntSmall Kanzi.Huffman

/-! ### arrays through `getD` -/

theorem setIf_getD (a : Array Nat) (i v x : Nat) :
    (a.setIfInBounds i v).getD x 0 = if x = i ∧ i < a.size then v else a.getD x 0 := by
  simp only [Array.getD_eq_getD_getElem?, Array.getElem?_setIfInBounds]
  by_cases h1 : i = x
  · subst h1
    by_cases h2 : i < a.size
    · simp [h2]
    · simp [h2]
  · have : ¬ x = i := fun h => h1 h.symm
    simp [h1, this]

theorem writeAt_getD : ∀ (l : List Nat) (i : Nat) (a : Array Nat) (x : Nat),
    (writeAt l i a).getD x 0
      = if i ≤ x ∧ x < i + l.length ∧ x < a.size then l.getD (x - i) 0 else a.getD x 0 := by
  intro l
  induction l with
  | nil =>
    intro i a x
    simp only [writeAt, List.length_nil]
    rw [if_neg (by omega)]
  | cons b bs ih =>
    intro i a x
    simp only [writeAt]
    rw [ih, setIf_getD, Array.size_setIfInBounds, List.length_cons]
    by_cases h1 : i + 1 ≤ x ∧ x < i + 1 + bs.length ∧ x < a.size
    · rw [if_pos h1, if_pos (by omega)]
      have : x - i = (x - (i + 1)) + 1 := by omega
      rw [this, List.getD_cons_succ]
    · rw [if_neg h1]
      by_cases h2 : x = i ∧ i < a.size
      · rw [if_pos h2, if_pos (by omega)]
        obtain ⟨rfl, _⟩ := h2
        simp
      · rw [if_neg h2, if_neg (by omega)]

theorem setRange_getD (start v : Nat) : ∀ (c : Nat) (a : Array Nat) (x : Nat),
    (setRange start v c a).getD x 0 = if start ≤ x ∧ x < start + c ∧ x < a.size then v else a.getD x 0 := by
  intro c
  induction c with
  | zero =>
    intro a x
    simp only [setRange]
    rw [if_neg (by omega)]
  | succ c ih =>
    intro a x
    simp only [setRange]
    rw [ih, setIf_getD, Array.size_setIfInBounds]
    by_cases h1 : start ≤ x ∧ x < start + c ∧ x < a.size
    · rw [if_pos h1, if_pos (by omega)]
    · rw [if_neg h1]
      by_cases h2 : x = start + c ∧ start + c < a.size
      · rw [if_pos h2, if_pos (by omega)]
      · rw [if_neg h2, if_neg (by omega)]

theorem clearAfter_getD_out (off stride sz : Nat) (a : Array Nat) (x : Nat)
    (h : x < off + ((sz + 7) % 4294967296) / 8 ∨ off + stride ≤ x) :
    (clearAfter off stride sz a).getD x 0 = a.getD x 0 := by
  unfold clearAfter
  split
  · rw [setRange_getD, if_neg (by omega)]
  · rfl

theorem clearAfter_getD (off stride sz : Nat) (a : Array Nat) (x : Nat) :
    (clearAfter off stride sz a).getD x 0 = a.getD x 0 ∨ (clearAfter off stride sz a).getD x 0 = 0 := by
  unfold clearAfter
  split
  · rw [setRange_getD]
    split
    · exact Or.inr rfl
    · exact Or.inl rfl
  · exact Or.inl rfl

/-- every cell of the array is a byte (`getD`: also beyond the end) -/
def Bytes (a : Array Nat) : Prop := ∀ x, a.getD x 0 < 256

theorem Bytes_mem (a : Array Nat) (h : Bytes a) : ∀ b ∈ a.toList, b < 256 := by
  intro b hb
  obtain ⟨i, hi, rfl⟩ := List.getElem_of_mem hb
  have := h i
  simp only [Array.length_toList] at hi
  simpa [Array.getD_eq_getD_getElem?, hi] using this

theorem Bytes_of_mem (a : Array Nat) (h : ∀ b ∈ a.toList, b < 256) : Bytes a := by
  intro x
  by_cases hx : x < a.size
  · have : a.getD x 0 = a[x] := by simp [Array.getD_eq_getD_getElem?, hx]
    rw [this]
    exact h _ (by simp)
  · have : a.getD x 0 = 0 := by simp [Array.getD_eq_getD_getElem?, hx]
    omega

theorem getD_bytes (l : List Nat) (h : ∀ b ∈ l, b < 256) (i : Nat) : l.getD i 0 < 256 := by
  by_cases hi : i < l.length
  · have : l.getD i 0 = l[i] := by simp [List.getD_eq_getElem?_getD, hi]
    rw [this]; exact h _ (List.getElem_mem _)
  · have : l.getD i 0 = 0 := by simp [List.getD_eq_getElem?_getD, hi]
    omega

theorem Bytes_writeAt (l : List Nat) (i : Nat) (a : Array Nat) (h : Bytes a) (hl : ∀ b ∈ l, b < 256) :
    Bytes (writeAt l i a) := by
  intro x
  rw [writeAt_getD]
  split
  · exact getD_bytes l hl _
  · exact h x

theorem Bytes_clearAfter (off stride sz : Nat) (a : Array Nat) (h : Bytes a) :
    Bytes (clearAfter off stride sz a) := by
  intro x
  rcases clearAfter_getD off stride sz a x with e | e
  · rw [e]; exact h x
  · rw [e]; decide

/-- the bytes `l` sit in `a` from index `off` -/
def Seg (a : Array Nat) (off : Nat) (l : List Nat) : Prop :=
  off + l.length ≤ a.size ∧ ∀ i, i < l.length → a.getD (off + i) 0 = l.getD i 0

theorem Seg_writeAt_self (l : List Nat) (off : Nat) (a : Array Nat) (h : off + l.length ≤ a.size) :
    Seg (writeAt l off a) off l := by
  refine ⟨by rw [writeAt_size]; exact h, fun i hi => ?_⟩
  rw [writeAt_getD, if_pos (by omega), Nat.add_sub_cancel_left]

theorem Seg_writeAt_other (l l' : List Nat) (off off' : Nat) (a : Array Nat) (h : Seg a off l)
    (hd : off' + l'.length ≤ off ∨ off + l.length ≤ off') : Seg (writeAt l' off' a) off l := by
  refine ⟨by rw [writeAt_size]; exact h.1, fun i hi => ?_⟩
  rw [writeAt_getD, if_neg (by omega)]
  exact h.2 i hi

theorem Seg_clearAfter (l : List Nat) (off off' stride sz : Nat) (a : Array Nat) (h : Seg a off l)
    (hd : off + l.length ≤ off' + ((sz + 7) % 4294967296) / 8 ∨ off' + stride ≤ off) :
    Seg (clearAfter off' stride sz a) off l := by
  refine ⟨by rw [clearAfter_size]; exact h.1, fun i hi => ?_⟩
  rw [clearAfter_getD_out _ _ _ _ _ (by omega)]
  exact h.2 i hi

/-- the bits of the buffer from `8*off` begin with the bits of the segment -/
theorem Seg_bits (a : Array Nat) (off : Nat) (l : List Nat) (h : Seg a off l) :
    ∃ post, (ofBytes a.toList).drop (8 * off) = ofBytes l ++ post := by
  have hd : a.toList.drop off = l ++ a.toList.drop (off + l.length) := by
    apply List.ext_getElem?
    intro n
    rw [List.getElem?_drop, List.getElem?_append]
    by_cases hn : n < l.length
    · rw [if_pos hn]
      have h1 := h.2 n hn
      have h2 : off + n < a.size := by have := h.1; omega
      simp only [Array.getD_eq_getD_getElem?, List.getD_eq_getElem?_getD] at h1
      rw [Array.getElem?_toList]
      rw [Array.getElem?_eq_getElem h2] at h1 ⊢
      rw [List.getElem?_eq_getElem hn] at h1 ⊢
      simp only [Option.getD_some] at h1
      rw [h1]
    · rw [if_neg hn, List.getElem?_drop]
      congr 1
      omega
  refine ⟨ofBytes (a.toList.drop (off + l.length)), ?_⟩
  have e : ofBytes a.toList = ofBytes (a.toList.take off) ++ ofBytes (a.toList.drop off) := by
    rw [← Kanzi.EntSmall.ofBytes_append, List.take_append_drop]
  have hl : (ofBytes (a.toList.take off)).length = 8 * off := by
    rw [Kanzi.EntSmall.ofBytes_length, List.length_take, Array.length_toList]
    have := h.1
    congr 1
    omega
  rw [e, List.drop_left' hl, hd, Kanzi.EntSmall.ofBytes_append]

/-! ### one sub-stream, wherever it sits in the shared buffer -/

theorem frag_at (arr : Array Nat) (tbl sizes codes a : List Nat) (ctx : ChunkCtx arr tbl sizes codes a)
    (B : Array Nat) (hB : Bytes B) (off : Nat) (frag : List Nat) (hf : ∀ b ∈ frag, b ∈ a)
    (hseg : Seg B off (toBytes (((encFrag arr frag).length + 7) / 8) (encFrag arr frag))) :
    decFragLoop tbl.toArray B frag.length frag.length ⟨0, off, 0⟩ = frag := by
  have hb : ∀ b ∈ B.toList, b < 256 := Bytes_mem B hB
  rw [decFragLoop_spec tbl ctx.tblOk B hb frag.length frag.length ⟨0, off, 0⟩ (8 * off) (by omega)
    ⟨rfl, Nat.zero_le _, by simp [peekAt_zero]⟩]
  obtain ⟨post, hp⟩ := Seg_bits B off _ hseg
  obtain ⟨h1, _, _⟩ := toBytes_spec (((encFrag arr frag).length + 7) / 8) (encFrag arr frag) (by omega)
  rw [hp, h1, List.append_assoc, encFrag_eq arr sizes codes a ctx.packed frag hf]
  exact specDec_codes sizes codes a tbl ctx.tblFor ctx.lt256 ctx.packed.le12 ctx.packed.lt frag _ hf

/-! ### the four `ReadArray` and the four `clear` on encoder output -/

theorem loadAt_enc (off : Nat) (buf : Array Nat) (F rest : Bits) (h : F.length ≤ 8 * (buf.size - off)) :
    loadAt off F.length buf (F ++ rest)
      = .ok (writeAt (toBytes ((F.length + 7) / 8) F) off buf, rest) := by
  unfold loadAt
  rw [if_neg (by omega), if_neg (by rw [List.length_append]; omega), List.take_left' rfl, List.drop_left' rfl]

theorem load4_enc (F0 F1 F2 F3 rest : Bits) (buf : Array Nat) (hB : Bytes buf)
    (h0 : (F0.length + 7) / 8 ≤ buf.size / 4) (h1 : (F1.length + 7) / 8 ≤ buf.size / 4)
    (h2 : (F2.length + 7) / 8 ≤ buf.size / 4) (h3 : (F3.length + 7) / 8 ≤ buf.size / 4)
    (g0 : F0.length < 2 ^ 31) (g1 : F1.length < 2 ^ 31) (g2 : F2.length < 2 ^ 31) (g3 : F3.length < 2 ^ 31) :
    ∃ B, load4 (F0.length, F1.length, F2.length, F3.length) buf (F0 ++ (F1 ++ (F2 ++ (F3 ++ rest)))) = .ok (B, rest) ∧
      Bytes B ∧ B.size = buf.size ∧
      Seg B 0 (toBytes ((F0.length + 7) / 8) F0) ∧
      Seg B (buf.size / 4) (toBytes ((F1.length + 7) / 8) F1) ∧
      Seg B (2 * (buf.size / 4)) (toBytes ((F2.length + 7) / 8) F2) ∧
      Seg B (3 * (buf.size / 4)) (toBytes ((F3.length + 7) / 8) F3) := by
  obtain ⟨_, b0, l0⟩ := toBytes_spec ((F0.length + 7) / 8) F0 (by omega)
  obtain ⟨_, b1, l1⟩ := toBytes_spec ((F1.length + 7) / 8) F1 (by omega)
  obtain ⟨_, b2, l2⟩ := toBytes_spec ((F2.length + 7) / 8) F2 (by omega)
  obtain ⟨_, b3, l3⟩ := toBytes_spec ((F3.length + 7) / 8) F3 (by omega)
  have p31 : (2 : Nat) ^ 31 = 2147483648 := by norm_num
  unfold load4
  simp only []
  rw [loadAt_enc 0 buf F0 _ (by omega)]
  simp only [R.bind]
  rw [loadAt_enc _ _ F1 _ (by rw [writeAt_size]; omega)]
  simp only
  rw [loadAt_enc _ _ F2 _ (by rw [writeAt_size, writeAt_size]; omega)]
  simp only
  rw [loadAt_enc _ _ F3 _ (by rw [writeAt_size, writeAt_size, writeAt_size]; omega)]
  simp only
  generalize toBytes ((F0.length + 7) / 8) F0 = W0 at *
  generalize toBytes ((F1.length + 7) / 8) F1 = W1 at *
  generalize toBytes ((F2.length + 7) / 8) F2 = W2 at *
  generalize toBytes ((F3.length + 7) / 8) F3 = W3 at *
  generalize hS : buf.size / 4 = S at *
  have hS4 : 4 * S ≤ buf.size := by omega
  refine ⟨_, rfl, ?_, ?_, ?_, ?_, ?_, ?_⟩
  · exact Bytes_clearAfter _ _ _ _ (Bytes_clearAfter _ _ _ _ (Bytes_clearAfter _ _ _ _ (Bytes_clearAfter _ _ _ _
      (Bytes_writeAt _ _ _ (Bytes_writeAt _ _ _ (Bytes_writeAt _ _ _ (Bytes_writeAt _ _ _ hB b0) b1) b2) b3))))
  · simp only [clearAfter_size, writeAt_size]
  · apply Seg_clearAfter _ _ _ _ _ _ _ (by omega)
    apply Seg_clearAfter _ _ _ _ _ _ _ (by omega)
    apply Seg_clearAfter _ _ _ _ _ _ _ (by omega)
    apply Seg_clearAfter _ _ _ _ _ _ _ (by omega)
    apply Seg_writeAt_other _ _ _ _ _ _ (by omega)
    apply Seg_writeAt_other _ _ _ _ _ _ (by omega)
    apply Seg_writeAt_other _ _ _ _ _ _ (by omega)
    exact Seg_writeAt_self _ _ _ (by omega)
  · apply Seg_clearAfter _ _ _ _ _ _ _ (by omega)
    apply Seg_clearAfter _ _ _ _ _ _ _ (by omega)
    apply Seg_clearAfter _ _ _ _ _ _ _ (by omega)
    apply Seg_clearAfter _ _ _ _ _ _ _ (by omega)
    apply Seg_writeAt_other _ _ _ _ _ _ (by omega)
    apply Seg_writeAt_other _ _ _ _ _ _ (by omega)
    exact Seg_writeAt_self _ _ _ (by rw [writeAt_size]; omega)
  · apply Seg_clearAfter _ _ _ _ _ _ _ (by omega)
    apply Seg_clearAfter _ _ _ _ _ _ _ (by omega)
    apply Seg_clearAfter _ _ _ _ _ _ _ (by omega)
    apply Seg_clearAfter _ _ _ _ _ _ _ (by omega)
    apply Seg_writeAt_other _ _ _ _ _ _ (by omega)
    exact Seg_writeAt_self _ _ _ (by rw [writeAt_size, writeAt_size]; omega)
  · apply Seg_clearAfter _ _ _ _ _ _ _ (by omega)
    apply Seg_clearAfter _ _ _ _ _ _ _ (by omega)
    apply Seg_clearAfter _ _ _ _ _ _ _ (by omega)
    apply Seg_clearAfter _ _ _ _ _ _ _ (by omega)
    exact Seg_writeAt_self _ _ _ (by rw [writeAt_size, writeAt_size, writeAt_size]; omega)

/-! ### `decodeChunkV6` of the total model on `encodeChunk` -/

theorem TblOk_TableOK (tbl : List Nat) (h : TblOk tbl) : TableOK tbl.toArray := by
  intro i hi
  rw [toArray_getD]
  exact h i hi

theorem read4_enc (a b c d : Nat) (ha : a < 2 ^ 32) (hb : b < 2 ^ 32) (hc : c < 2 ^ 32) (hd : d < 2 ^ 32)
    (X : Bits) :
    read4 (writeVarInt a ++ (writeVarInt b ++ (writeVarInt c ++ (writeVarInt d ++ X)))) = .ok ((a, b, c, d), X) := by
  unfold read4
  rw [varint_roundtrip _ ha]
  simp only
  rw [varint_roundtrip _ hb]
  simp only
  rw [varint_roundtrip _ hc]
  simp only
  rw [varint_roundtrip _ hd]

/-- **one chunk, total model.**  ANY buffer of bytes with regions large enough; the buffer the chunk
    leaves is again a buffer of bytes of the same length. -/
theorem chunkV6_enc (arr : Array Nat) (tbl sizes codes a : List Nat) (ctx : ChunkCtx arr tbl sizes codes a)
    (c : List Nat) (hc : ∀ b ∈ c, b ∈ a) (buf : Array Nat) (hB : Bytes buf)
    (hs : 12 * (c.length / 4) + 128 ≤ 8 * (buf.size / 4)) (hL : 256 ≤ buf.size) (h2c : 2 * c.length ≤ buf.size)
    (hlen : c.length < 2 ^ 28) (rest : Bits) :
    ∃ B, chunkV6 tbl.toArray c.length buf (encodeChunk arr c ++ rest) = .ok (c, B, rest) ∧
      Bytes B ∧ B.size = buf.size := by
  have hq : ∀ (frag : List Nat), (∀ b ∈ frag, b ∈ a) → frag.length ≤ c.length / 4 →
      (encFrag arr frag).length ≤ 12 * (c.length / 4) := by
    intro frag hf hl
    rw [encFrag_eq arr sizes codes a ctx.packed frag hf]
    have := codeBits_length_le sizes codes a ctx.packed.le12 frag hf
    omega
  have m0 : ∀ b ∈ c.take (c.length / 4), b ∈ a := fun b hb => hc b (List.mem_of_mem_take hb)
  have m1 : ∀ b ∈ (c.drop (c.length / 4)).take (c.length / 4), b ∈ a :=
    fun b hb => hc b (List.mem_of_mem_drop (List.mem_of_mem_take hb))
  have m2 : ∀ b ∈ (c.drop (2 * (c.length / 4))).take (c.length / 4), b ∈ a :=
    fun b hb => hc b (List.mem_of_mem_drop (List.mem_of_mem_take hb))
  have m3 : ∀ b ∈ (c.drop (3 * (c.length / 4))).take (c.length / 4), b ∈ a :=
    fun b hb => hc b (List.mem_of_mem_drop (List.mem_of_mem_take hb))
  have n0 : (c.take (c.length / 4)).length = c.length / 4 := by rw [List.length_take]; omega
  have n1 : ((c.drop (c.length / 4)).take (c.length / 4)).length = c.length / 4 := by
    rw [List.length_take, List.length_drop]; omega
  have n2 : ((c.drop (2 * (c.length / 4))).take (c.length / 4)).length = c.length / 4 := by
    rw [List.length_take, List.length_drop]; omega
  have n3 : ((c.drop (3 * (c.length / 4))).take (c.length / 4)).length = c.length / 4 := by
    rw [List.length_take, List.length_drop]; omega
  have q0 := hq _ m0 (by omega)
  have q1 := hq _ m1 (by omega)
  have q2 := hq _ m2 (by omega)
  have q3 := hq _ m3 (by omega)
  have hp28 : (2 : Nat) ^ 28 = 268435456 := by norm_num
  have hp31 : (2 : Nat) ^ 31 = 2147483648 := by norm_num
  have hp32 : (2 : Nat) ^ 32 = 4294967296 := by norm_num
  obtain ⟨B, hl, hBy, hsz, s0, s1, s2, s3⟩ := load4_enc
    (encFrag arr (c.take (c.length / 4)))
    (encFrag arr ((c.drop (c.length / 4)).take (c.length / 4)))
    (encFrag arr ((c.drop (2 * (c.length / 4))).take (c.length / 4)))
    (encFrag arr ((c.drop (3 * (c.length / 4))).take (c.length / 4)))
    (ofBytes (c.drop (4 * (c.length / 4))) ++ rest) buf hB
    (by omega) (by omega) (by omega) (by omega) (by omega) (by omega) (by omega) (by omega)
  have f0 := frag_at arr tbl sizes codes a ctx B hBy 0 _ m0 s0
  have f1 := frag_at arr tbl sizes codes a ctx B hBy (buf.size / 4) _ m1 s1
  have f2 := frag_at arr tbl sizes codes a ctx B hBy (2 * (buf.size / 4)) _ m2 s2
  have f3 := frag_at arr tbl sizes codes a ctx B hBy (3 * (buf.size / 4)) _ m3 s3
  rw [n0] at f0; rw [n1] at f1; rw [n2] at f2; rw [n3] at f3
  have hT := TblOk_TableOK tbl ctx.tblOk
  have k0 := readsOkAt_true tbl.toArray B hT (c.length / 4) 0 (by omega)
  have k1 := readsOkAt_true tbl.toArray B hT (c.length / 4) (buf.size / 4) (by omega)
  have k2 := readsOkAt_true tbl.toArray B hT (c.length / 4) (2 * (buf.size / 4)) (by omega)
  have k3 := readsOkAt_true tbl.toArray B hT (c.length / 4) (3 * (buf.size / 4)) (by omega)
  have htail : ∀ b ∈ c.drop (4 * (c.length / 4)), b < 256 :=
    fun b hb => ctx.lt256 b (hc b (List.mem_of_mem_drop hb))
  have htl : (c.drop (4 * (c.length / 4))).length = c.length % 4 := by rw [List.length_drop]; omega
  refine ⟨B, ?_, hBy, hsz⟩
  unfold chunkV6 encodeChunk
  simp only [List.append_assoc] at hl ⊢
  rw [read4_enc _ _ _ _ (by omega) (by omega) (by omega) (by omega)]
  simp only [R.bind]
  rw [hl]
  simp only
  rw [k0, k1, k2, k3]
  simp only [and_self, not_true_eq_false, if_false]
  rw [← htl, readBytes_ofBytes _ rest htail]
  simp only
  have hq4 := take_drop_quarters c
  simp only [List.append_assoc] at hq4
  rw [f0, f1, f2, f3, hq4]

/-! ### one round of the chunk loop of `decodeV6` on `encodeOneChunk` -/

theorem toOpt_some {α : Type} (r : R α) (x : α) (h : r.toOpt = some x) : r = .ok x := by
  cases r <;> simp_all [R.toOpt]

theorem readLengthsR_of (bs : Bits) (x : RL × Bits) (h : readLengths bs = some x) : readLengthsR bs = .ok x :=
  toOpt_some _ _ (by rw [readLengthsR_toOpt, h])

theorem buildTableR_of (rl : RL) (t : List Nat) (h : buildTable rl = some t) : buildTableR rl = .ok t :=
  toOpt_some _ _ (by rw [buildTableR_toOpt, h])

/-- what a round of the chunk loop does to the caller's block: `c` at `start` -/
def Wrote (out out' : Array Nat) (start : Nat) (c : List Nat) : Prop :=
  out'.size = out.size ∧
  ∀ x, out'.getD x 0 = if start ≤ x ∧ x < start + c.length ∧ x < out.size then c.getD (x - start) 0 else out.getD x 0

theorem stepV6_enc (p : Params) (hcs : 1024 ≤ p.chunkSize ∧ p.chunkSize ≤ 16384)
    (c : List Nat) (hb : ∀ b ∈ c, b < 256) (hlen : 1 ≤ c.length ∧ c.length ≤ p.chunkSize) :
    ∃ e br, encodeOneChunk c = some (e, br) ∧
      ∀ (rest : Bits) (start total : Nat) (out buf : Array Nat),
        min p.chunkSize (total - start) = c.length → Bytes buf → 2 * p.chunkSize ≤ buf.size →
        ∃ out' buf', stepV6 p start total out buf (e ++ rest) = .next (start + c.length) out' buf' rest ∧
          Bytes buf' ∧ buf'.size = buf.size ∧ Wrote out out' start c := by
  unfold encodeOneChunk
  by_cases h32 : c.length < 32
  · rw [if_pos h32]
    refine ⟨_, _, rfl, fun rest start total out buf hmin hB hsz => ?_⟩
    unfold stepV6
    simp only []
    rw [hmin, if_pos h32, readBytes_ofBytes c rest hb]
    exact ⟨_, _, rfl, hB, rfl, writeAt_size _ _ _, fun x => writeAt_getD c start out x⟩
  · rw [if_neg h32]
    obtain ⟨u, hu, hok⟩ := updateFrequencies_spec (histogram c) (histogram_length c)
    rw [hu]
    simp only
    refine ⟨_, _, rfl, fun rest start total out buf hmin hB hsz => ?_⟩
    have hmem : ∀ b ∈ c, b ∈ Kanzi.Normalize.support (histogram c) := by
      intro b hbc
      rw [Kanzi.Normalize.mem_support, histogram_length]
      have := histogram_pos c b hbc (hb b hbc)
      exact ⟨hb b hbc, by omega⟩
    have ha := support_alpha (histogram c) (histogram_length c)
    generalize Kanzi.Normalize.support (histogram c) = a at hok hmem ha
    have hane : 1 ≤ a.length := by
      cases hc : c with
      | nil => rw [hc] at hlen; simp at hlen
      | cons x xs =>
        have := hmem x (by rw [hc]; exact List.mem_cons_self)
        cases a with
        | nil => cases this
        | cons _ _ => simp
    unfold stepV6
    simp only []
    rw [hmin, if_neg h32, hok.bits]
    by_cases h1 : a.length = 1
    · obtain ⟨s, hs⟩ := List.length_eq_one_iff.mp h1
      rw [if_neg (by rw [hok.count]; omega), List.append_nil]
      subst hs
      obtain ⟨rl, hrl, hal⟩ := readLengths_single u.sizes s (ha.lt s List.mem_cons_self)
        (hok.lens.range s List.mem_cons_self) rest
      rw [readLengthsR_of _ _ hrl]
      simp only
      rw [hal]
      simp only [List.length_cons, List.length_nil, List.headD_cons]
      rw [if_neg (by omega)]
      simp only [if_true]
      have hrep : c = List.replicate c.length s :=
        eq_replicate_of_all c s (fun b hbc => List.mem_singleton.mp (hmem b hbc))
      have hs256 : s < 256 := ha.lt s List.mem_cons_self
      refine ⟨_, _, rfl, hB, rfl, setRange_size _ _ _ _, fun x => ?_⟩
      rw [setRange_getD, Nat.mod_eq_of_lt hs256]
      by_cases hx : start ≤ x ∧ x < start + c.length ∧ x < out.size
      · rw [if_pos hx, if_pos hx, hrep, List.getD_eq_getElem?_getD, List.getElem?_replicate,
          if_pos (by omega)]
        rfl
      · rw [if_neg hx, if_neg hx]
    · have h2 : 2 ≤ a.length := by omega
      rw [if_pos (by rw [hok.count]; omega)]
      obtain ⟨codes, tbl, hg, hrl, hbt, htok, htf, hclt, hcl, _⟩ :=
        decoder_tables u.sizes a ha.sorted hok.lens h2 (encodeChunk u.codes.toArray c ++ rest)
      obtain ⟨codes', ord', hg', hpk⟩ := hok.codes h2
      rw [hg] at hg'
      simp only [Option.some.injEq, Prod.mk.injEq] at hg'
      obtain ⟨hcc, _⟩ := hg'
      subst hcc
      have hpc := packCodes_spec u.sizes a codes hok.lens.nodup
        (fun s hs => by rw [hcl]; exact ha.lt s hs)
      have ctx : ChunkCtx u.codes.toArray tbl u.sizes codes a := by
        refine ⟨⟨?_, ?_, fun b hb' => (hok.lens.range b hb').2, hclt⟩, htok, htf, ha.lt⟩
        · intro b hb'
          rw [toArray_getD, hpk, hpc.2.2 b hb']
          exact (packed_fields _ _ (hok.lens.range b hb').2 (hclt b hb')).1
        · intro b hb'
          rw [toArray_getD, hpk, hpc.2.2 b hb']
          exact (packed_fields _ _ (hok.lens.range b hb').2 (hclt b hb')).2
      rw [List.append_assoc, readLengthsR_of _ _ hrl]
      simp only
      have hco : (canonOrder u.sizes a).length = a.length :=
        (canonOrder_perm u.sizes a hok.lens.nodup hok.lens.lt256 hok.lens.range).length_eq
      rw [hco, if_neg (by omega), if_neg (by omega), buildTableR_of _ _ hbt]
      simp only
      have h28 : (2 : Nat) ^ 28 = 268435456 := by norm_num
      obtain ⟨B, hch, hBy, hBs⟩ := chunkV6_enc u.codes.toArray tbl u.sizes codes a ctx c hmem buf hB
        (by omega) (by omega) (by omega) (by omega) rest
      rw [hch]
      exact ⟨_, _, rfl, hBy, hBs, writeAt_size _ _ _, fun x => writeAt_getD c start out x⟩

/-! ### the chunk loop and `Read` -/

theorem getD_take (l : List Nat) (n i : Nat) (h : i < n) : (l.take n).getD i 0 = l.getD i 0 := by
  simp [List.getD_eq_getElem?_getD, h]

theorem getD_drop (l : List Nat) (n i : Nat) : (l.drop n).getD i 0 = l.getD (n + i) 0 := by
  simp [List.getD_eq_getElem?_getD, List.getElem?_drop]

theorem readLoop_enc (p : Params) (hcs : 1024 ≤ p.chunkSize ∧ p.chunkSize ≤ 16384) (hv : ¬ p.bsVersion < 6) :
    ∀ (n : Nat) (blk : List Nat), blk.length ≤ n → (∀ b ∈ blk, b < 256) →
    ∃ e brs, encodeChunks n p.chunkSize blk = some (e, brs) ∧
      ∀ (rest : Bits) (f k start total : Nat) (out buf : Array Nat),
        start + blk.length = total → blk.length ≤ k * p.chunkSize → k + 1 ≤ f →
        Bytes buf → 2 * p.chunkSize ≤ buf.size → out.size = total →
        ∃ out' buf', readLoop p total f start out buf (e ++ rest)
            = ⟨.ret total false, outOf out' total, ⟨buf'⟩, rest, buf'.size⟩ ∧
          out'.size = total ∧ (∀ x, x < start → out'.getD x 0 = out.getD x 0) ∧
          (∀ x, start ≤ x → x < total → out'.getD x 0 = blk.getD (x - start) 0) ∧
          Bytes buf' ∧ buf'.size = buf.size := by
  have base : ∀ (rest : Bits) (f k start total : Nat) (out buf : Array Nat),
        start + 0 = total → k + 1 ≤ f → Bytes buf → out.size = total →
        ∃ out' buf', readLoop p total f start out buf ([] ++ rest)
            = ⟨.ret total false, outOf out' total, ⟨buf'⟩, rest, buf'.size⟩ ∧
          out'.size = total ∧ (∀ x, x < start → out'.getD x 0 = out.getD x 0) ∧
          (∀ x, start ≤ x → x < total → out'.getD x 0 = ([] : List Nat).getD (x - start) 0) ∧
          Bytes buf' ∧ buf'.size = buf.size := by
    intro rest f k start total out buf hst hf hB hos
    obtain ⟨f', rfl⟩ : ∃ f', f = f' + 1 := ⟨f - 1, by omega⟩
    simp only [readLoop, List.nil_append]
    rw [if_pos (by omega)]
    exact ⟨out, buf, rfl, hos, fun _ _ => rfl, fun x h1 h2 => by omega, hB, rfl⟩
  intro n
  induction n with
  | zero =>
    intro blk hl _
    have : blk = [] := List.length_eq_zero_iff.mp (by omega)
    subst this
    exact ⟨[], [], rfl, fun rest f k start total out buf hst hk hf hB hsz hos =>
      base rest f k start total out buf hst hf hB hos⟩
  | succ n ih =>
    intro blk hl hb
    simp only [encodeChunks]
    by_cases h0 : blk.length = 0
    · rw [if_pos h0]
      have : blk = [] := List.length_eq_zero_iff.mp h0
      subst this
      exact ⟨[], [], rfl, fun rest f k start total out buf hst hk hf hB hsz hos =>
        base rest f k start total out buf hst hf hB hos⟩
    · rw [if_neg h0]
      have hct : (blk.take p.chunkSize).length = min p.chunkSize blk.length := List.length_take
      obtain ⟨e1, br, he1, hd1⟩ := stepV6_enc p hcs (blk.take p.chunkSize)
        (fun b hb' => hb b (List.mem_of_mem_take hb')) (by rw [hct]; omega)
      obtain ⟨e2, brs, he2, hd2⟩ := ih (blk.drop p.chunkSize) (by rw [List.length_drop]; omega)
        (fun b hb' => hb b (List.mem_of_mem_drop hb'))
      rw [he1]
      simp only
      rw [he2]
      simp only
      refine ⟨_, _, rfl, fun rest f k start total out buf hst hk hf hB hsz hos => ?_⟩
      obtain ⟨f', rfl⟩ : ∃ f', f = f' + 1 := ⟨f - 1, by omega⟩
      rcases k with _ | k'
      · exfalso; rw [Nat.zero_mul] at hk; omega
      rw [Nat.succ_mul] at hk
      simp only [readLoop]
      rw [if_neg (by omega), if_neg hv, List.append_assoc]
      obtain ⟨o1, b1, hs1, hB1, hz1, hw1⟩ := hd1 (e2 ++ rest) start total out buf (by rw [hct]; omega) hB hsz
      rw [hs1]
      simp only
      obtain ⟨o2, b2, hr2, ho2, hlo2, hhi2, hB2, hz2⟩ := hd2 rest f' k' (start + (blk.take p.chunkSize).length)
        total o1 b1 (by rw [List.length_drop, hct]; omega) (by rw [List.length_drop]; omega) (by omega) hB1
        (by omega) (by rw [hw1.1]; exact hos)
      refine ⟨o2, b2, hr2, ho2, ?_, ?_, hB2, by omega⟩
      · intro x hx
        rw [hlo2 x (by omega), hw1.2, if_neg (by omega)]
      · intro x h1 h2
        by_cases hx : x < start + (blk.take p.chunkSize).length
        · rw [hlo2 x hx, hw1.2, if_pos (by omega), getD_take _ _ _ (by rw [hct] at hx; omega)]
        · rw [hhi2 x (by omega) h2, getD_drop]
          congr 1
          rw [hct] at hx ⊢
          omega

theorem Bytes_v6Alloc (cs : Nat) (buf : Array Nat) (h : Bytes buf) : Bytes (v6Alloc cs buf) := by
  unfold v6Alloc
  split
  · apply Bytes_of_mem
    intro b hb
    simp at hb
    omega
  · exact h

/-- **whole block, total model**: `Write` then `Read` from ANY decoder object whose buffer holds bytes -/
theorem read_enc (p : Params) (hcs : 1024 ≤ p.chunkSize ∧ p.chunkSize ≤ 16384) (hv : ¬ p.bsVersion < 6)
    (s : St) (hs : Bytes s.buf) (blk : List Nat) (hb : ∀ b ∈ blk, b < 256) :
    ∃ e, encode blk p.chunkSize = some e ∧
      ∀ rest : Bits, ∃ st', read p s (e ++ rest) blk.length
          = ⟨.ret blk.length false, blk, st', rest, st'.buf.size⟩ ∧ Bytes st'.buf := by
  obtain ⟨e, brs, he, hd⟩ := readLoop_enc p hcs hv blk.length blk (Nat.le_refl _) hb
  refine ⟨e, by simp only [encode, encodeB, he], fun rest => ?_⟩
  unfold read
  by_cases h0 : blk.length = 0
  · have : blk = [] := List.length_eq_zero_iff.mp h0
    subst this
    simp only [List.length_nil, encodeChunks, Option.some.injEq, Prod.mk.injEq] at he
    rw [if_pos h0, ← he.1]
    exact ⟨s, rfl, hs⟩
  · rw [if_neg h0, if_neg hv]
    have hdm := Nat.div_add_mod blk.length p.chunkSize
    have hml := Nat.mod_lt blk.length (show 0 < p.chunkSize by omega)
    have hsz : 2 * p.chunkSize ≤ (v6Alloc p.chunkSize s.buf).size := by
      rw [v6Alloc_size]; split <;> omega
    obtain ⟨o, b, hr, hos, _, hhi, hB, hz⟩ := hd rest (chunksOf p.chunkSize blk.length)
      (blk.length / p.chunkSize + 1) 0 blk.length (Array.replicate blk.length 0) (v6Alloc p.chunkSize s.buf)
      (by omega) (by rw [Nat.succ_mul, Nat.mul_comm]; omega) (by unfold chunksOf; omega)
      (Bytes_v6Alloc _ _ hs) hsz Array.size_replicate
    refine ⟨⟨b⟩, ?_, hB⟩
    rw [hr]
    have ho : outOf o blk.length = blk := by
      unfold outOf
      rw [List.take_of_length_le (by rw [Array.length_toList]; omega)]
      apply List.ext_getElem (by rw [Array.length_toList]; exact hos)
      intro i h1 h2
      have := hhi i (Nat.zero_le _) h2
      have h1' : i < o.size := by simpa using h1
      simp only [Array.getD_eq_getD_getElem?, List.getD_eq_getElem?_getD, Nat.sub_zero,
        Array.getElem?_eq_getElem h1', List.getElem?_eq_getElem h2, Option.getD_some] at this
      simpa using this
    rw [ho]

end Kanzi.HufDec
