/-
Link between the Option-valued ANS decoder functions used by the model of `rolzCodec1.Inverse`
(`ans0ChunksB`, `ans0DecodeB`, `ans1ChunksB`, `ansLitDecode` of `Kanzi/Model/ROLZ1.lean`) and the total model of
`ANSRangeDecoder.Read` (`Kanzi.AnsDec.read` of `Kanzi/Model/AnsDec.lean`).  Proofs for
`Kanzi/Properties/C03_rolz_link.lean`.

  * fuel: the chunk loops of the Option-valued functions are given `count` units of fuel and return
    `some ([], bs, ..)` (a SHORT block, not `none`) when it runs out.  `ans0ChunksB_fuel` / `ans1ChunksB_fuel`:
    with a positive chunk size any fuel `≥ count` gives the same result, so that branch is never the reason of
    a result: the functions compute the fuel-free chunk loop.
  * raw path (`count ≤ 32`): the two models are the same function of the input, for every decoder object.
-/
import Kanzi.Model.ROLZ1
import Kanzi.Model.AnsDec
import Kanzi.Proofs.AnsDec
import Kanzi.Proofs.AnsDecAgree1

namespace Kanzi.ROLZ
open Kanzi.Bits

/-! ## fuel sufficiency -/

theorem ans0ChunksB_fuel {cs : Nat} (hcs : 0 < cs) (k : Nat) :
    ∀ (f count buf : Nat) (bs : Bits), count ≤ f →
      ans0ChunksB (f + k) cs count buf bs = ans0ChunksB f cs count buf bs := by
  intro f
  induction f with
  | zero =>
    intro count buf bs h
    have hc : count = 0 := by omega
    subst hc
    cases k with
    | zero => rfl
    | succ k =>
      rw [show 0 + (k + 1) = k + 1 by omega]
      simp only [ans0ChunksB, if_true]
  | succ f ih =>
    intro count buf bs h
    rw [show f + 1 + k = (f + k) + 1 by omega]
    simp only [ans0ChunksB]
    by_cases hc : count = 0
    · simp only [hc, if_true]
    · have e : ∀ (b : Nat) (r : Bits), ans0ChunksB (f + k) cs (count - min cs count) b r
          = ans0ChunksB f cs (count - min cs count) b r := fun b r => ih _ b r (by omega)
      simp only [e]

theorem ans1ChunksB_fuel {cs : Nat} (hcs : 0 < cs) (k : Nat) :
    ∀ (f count : Nat) (prev : List (List Nat)) (buf : Nat) (bs : Bits), count ≤ f →
      ans1ChunksB (f + k) cs count prev buf bs = ans1ChunksB f cs count prev buf bs := by
  intro f
  induction f with
  | zero =>
    intro count prev buf bs h
    have hc : count = 0 := by omega
    subst hc
    cases k with
    | zero => rfl
    | succ k =>
      rw [show 0 + (k + 1) = k + 1 by omega]
      simp only [ans1ChunksB, if_true]
  | succ f ih =>
    intro count prev buf bs h
    rw [show f + 1 + k = (f + k) + 1 by omega]
    simp only [ans1ChunksB]
    by_cases hc : count = 0
    · simp only [hc, if_true]
    · have e : ∀ (p : List (List Nat)) (b : Nat) (r : Bits),
          ans1ChunksB (f + k) cs (count - min cs count) p b r
          = ans1ChunksB f cs (count - min cs count) p b r := fun p b r => ih _ p b r (by omega)
      simp only [e]

/-- the frequency-group loop of `decodeHeader` (both orders; fuel = alphabet size, `count` = alphabet size - 1,
groups of 6 or 8): any fuel `≥ count` gives the same result -/
theorem decFreqChunks_fuel {chk : Nat} (hchk : 0 < chk) (llr scale bound k : Nat) :
    ∀ (f count : Nat) (bs : Bits), count ≤ f →
      Kanzi.EntSmall.decFreqChunks (f + k) chk llr scale bound count bs
        = Kanzi.EntSmall.decFreqChunks f chk llr scale bound count bs := by
  intro f
  induction f with
  | zero =>
    intro count bs h
    have hc : count = 0 := by omega
    subst hc
    cases k with
    | zero => rfl
    | succ k =>
      rw [show 0 + (k + 1) = k + 1 by omega]
      simp only [Kanzi.EntSmall.decFreqChunks, if_true]
  | succ f ih =>
    intro count bs h
    rw [show f + 1 + k = (f + k) + 1 by omega]
    simp only [Kanzi.EntSmall.decFreqChunks]
    by_cases hc : count = 0
    · simp only [hc, if_true]
    · have e : ∀ (r : Bits), Kanzi.EntSmall.decFreqChunks (f + k) chk llr scale bound (count - min chk count) r
          = Kanzi.EntSmall.decFreqChunks f chk llr scale bound (count - min chk count) r :=
        fun r => ih _ r (by omega)
      simp only [e]

/-- as used by `decodeFreqTable`: the fuel `len(alphabet)` of the model is at least the `len(alphabet) - 1`
frequencies to read, and the group size is 6 or 8 -/
theorem decodeFreqTable_fuel (a : List Nat) (lr k : Nat) (bs : Bits) :
    Kanzi.EntSmall.decFreqChunks (a.length + k) (Kanzi.EntSmall.chkSizeOf a.length) (Kanzi.EntSmall.llrOf lr)
        (2 ^ lr) (2 ^ lr) (a.length - 1) bs
      = Kanzi.EntSmall.decFreqChunks a.length (Kanzi.EntSmall.chkSizeOf a.length) (Kanzi.EntSmall.llrOf lr)
        (2 ^ lr) (2 ^ lr) (a.length - 1) bs := by
  have hchk : 0 < Kanzi.EntSmall.chkSizeOf a.length := by
    unfold Kanzi.EntSmall.chkSizeOf; split <;> decide
  exact decFreqChunks_fuel hchk _ _ _ k a.length (a.length - 1) bs (by omega)

/-- `ans0DecodeB` with any larger fuel for its chunk loop -/
theorem ans0DecodeB_fuel {cs : Nat} (hcs : 0 < cs) (bs : Bits) (count buf k : Nat) :
    ans0DecodeB bs count cs buf =
      if count ≤ 32 then (Kanzi.EntSmall.readBytes count bs).map (fun p => (p.1, p.2, buf))
      else ans0ChunksB (count + k) cs count buf bs := by
  unfold ans0DecodeB
  rw [ans0ChunksB_fuel hcs k count count buf bs (Nat.le_refl _)]

/-- `ansLitDecode` with any larger fuel for its chunk loop -/
theorem ansLitDecode_fuel (litOrder : Nat) (old : Bool) (bs : Bits) (n k : Nat) :
    ansLitDecode litOrder old bs n =
      if litOrder = 0 then
        if n ≤ 32 then (Kanzi.EntSmall.readBytes n bs).map (fun p => (p.1, p.2))
        else (ans0ChunksB (n + k) (if old then 32768 else 16384) n 0 bs).map (fun p => (p.1, p.2.1))
      else if n ≤ 32 then Kanzi.EntSmall.readBytes n bs
      else ans1ChunksB (n + k) ((if old then 32768 else 16384) * 256) n Kanzi.Ans1.freshTables 0 bs := by
  have h0 : 0 < (if old then 32768 else 16384) := by cases old <;> decide
  have h1 : 0 < (if old then 32768 else 16384) * 256 := by cases old <;> decide
  unfold ansLitDecode
  by_cases ho : litOrder = 0
  · simp only [ho, if_true]
    rw [ans0DecodeB_fuel h0 bs n 0 k]
    by_cases hn : n ≤ 32
    · simp only [hn, if_true, Option.map_map]
      rfl
    · simp only [hn, if_false]
  · simp only [ho, if_false]
    rw [ans1ChunksB_fuel h1 k n n _ 0 bs (Nat.le_refl _)]

/-! ## the raw path: blocks of at most 32 bytes -/

open Kanzi.AnsDec in
/-- `count ≤ 32`: `Read` is one `ReadArray`; the Option-valued function and the total model are the same function
of the input, whatever the decoder object: `none` exactly for `stop eos`, `some` exactly for `ret count false`
with the same bytes and rest; the payload buffer is untouched in both. -/
theorem ans0DecodeB_raw (p : Params) (s : St) (bs : Bits) (count cs : Nat) (h : count ≤ 32) :
    (ans0DecodeB bs count cs s.buf.size = none ↔ (AnsDec.read p s bs count).cls = .stop .eos) ∧
    (∀ out rest b, ans0DecodeB bs count cs s.buf.size = some (out, rest, b) ↔
      ((AnsDec.read p s bs count).cls = .ret count false ∧ (AnsDec.read p s bs count).out = out ∧
        (AnsDec.read p s bs count).rest = rest ∧ (AnsDec.read p s bs count).bufSz = b)) := by
  unfold ans0DecodeB AnsDec.read
  simp only [h, if_true]
  cases hr : Kanzi.EntSmall.readBytes count bs with
  | none => simp
  | some x =>
    obtain ⟨o, r⟩ := x
    simp only [Option.map_some, Option.some.injEq, Prod.mk.injEq]
    refine ⟨by simp, ?_⟩
    intro out rest b
    constructor
    · intro hh
      obtain ⟨h1, h2, h3⟩ := hh
      subst h1 h2 h3
      simp
    · intro hh
      have h2 := hh.2.1
      have h3 := hh.2.2.1
      have h4 := hh.2.2.2
      exact ⟨h2, h3, h4⟩

/-! ## why the chunked path cannot be linked unconditionally: stale bytes of `this.buffer`

A chunk of 48 bytes over the uniform table of log range 8 (slot `i` = symbol `i`, frequency 1), announced payload
`sz = 0`, four zero states.  Every `decodeSymbol` refills (2 bytes), so the 12 rounds consume 96 bytes of
`this.buffer`, of which `decodeChunkV2` has cleared 64. -/

section Stale
open Kanzi.EntSmall Kanzi.AnsDec

def staleF2s : Array Nat := (List.range 256).toArray
def staleSyms : Array DecSym := ((List.range 256).map fun i => (⟨i, 1⟩ : DecSym)).toArray
def stalePre : Pre := ⟨0, 0, 0, 0, 0, []⟩
/-- VarInt 0, four 32-bit zero states, no payload -/
def staleBits : Bits := writeVarInt 0 ++ List.replicate 128 false

/-- the table of the Option-valued model and the flat arrays of the total model are the same table -/
theorem stale_table : (mkDecTable (List.replicate 256 1) 8).toList
    = (List.range 256).map (fun i => (staleF2s.getD i 0, staleSyms.getD i ⟨0, 0⟩)) := by decide +kernel

/-- both models read the same chunk prefix -/
theorem stale_pre : (chunkPre staleBits).toOpt.map (fun q => (q.sz, q.st0, q.st1, q.st2, q.st3, q.rest.length))
    = some (0, 0, 0, 0, 0, 0) := by decide +kernel

/-- the Option-valued model: 48 zero bytes, whatever the decoder object holds -/
theorem stale_opt : ans0DecodeChunk (mkDecTable (List.replicate 256 1) 8) 8 48 staleBits
    = some (List.replicate 48 0, []) := by decide +kernel

/-- `ReadArray` of 0 bytes and the 64-byte clear, on a 256-byte buffer full of `0xFF` left by an earlier chunk -/
theorem stale_load : (loadPayload 0 (bufAlloc 48 (Array.replicate 256 255)) []).toOpt.map (fun p => p.1.toList)
    = some (List.replicate 64 0 ++ List.replicate 192 255) := by decide +kernel

/-- the total model on that buffer: the last 12 bytes are `0xFF` -/
theorem stale_total : (chunkBody 0 8 48 staleF2s staleSyms (List.replicate 64 0 ++ List.replicate 192 255).toArray
    stalePre).toOpt = some (List.replicate 36 0 ++ List.replicate 12 255) := by decide +kernel

/-- the total model on a new (zero) buffer: agrees with the Option-valued model -/
theorem stale_fresh : (chunkBody 0 8 48 staleF2s staleSyms (bufAlloc 48 #[]) stalePre).toOpt
    = some (List.replicate 48 0) := by decide +kernel

end Stale

end Kanzi.ROLZ
