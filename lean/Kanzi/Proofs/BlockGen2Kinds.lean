/-
Proofs for `Kanzi/Model/BlockGen2.lean`, part 2: every modelled transform satisfies the per-transform law
`Tr2.Law` (from the round-trip theorems of the transform slices), with its output bound `Kind.grow`:
SRT adds at most `1024 + len / 2^28` bytes, MM at most `max(len/16, 64)`, every other transform returns
at most `len` bytes.
-/
import Kanzi.Proofs.BlockGen2Seq
import Kanzi.Proofs.BlockGen2LZ
import Kanzi.Proofs.TrSmall
import Kanzi.Proofs.RLT
import Kanzi.Proofs.SRT
import Kanzi.Proofs.Alias
import Kanzi.Proofs.LZFwd
import Kanzi.Proofs.LZTotal
import Kanzi.Proofs.LZPRound
import Kanzi.Proofs.LZPTotal
import Kanzi.Proofs.FSD

namespace Kanzi.BlockGen2
open Kanzi.Bits Kanzi.TrSmall Kanzi.Block Kanzi.BlockGen

/-- bound on the output length of a successful Forward -/
def Kind.grow : Kind → Nat → Nat
  | .srt => fun a => a + 1024 + a / 268435456
  | .fsd => FSD.fsdMaxEncodedLen
  | _ => fun a => a

def Kind.ltr (k : Kind) : LTr := ⟨k.tr, k.grow⟩

def kindLtrs (ks : List Kind) : List LTr := ks.map Kind.ltr

theorem ltrs_kindLtrs (ks : List Kind) : ltrs (kindLtrs ks) = kindTrs ks := by
  simp [ltrs, kindLtrs, kindTrs, Kind.ltr, List.map_map, Function.comp_def]

/-- the length limit of the laws (SRT counts in `int32`) -/
def lawLim : Nat := 2147483647

/-! ### result conversions -/

theorem ofRlt_ok {r : RLT.Res} {y : List Nat} (h : ofRlt r = .ok y) : r = .ok y := by
  cases r <;> simp [ofRlt] at h ⊢
  exact h

theorem ofSrt_ok {r : SRT.Res} {y : List Nat} (h : ofSrt r = .ok y) : r = .ok y := by
  cases r <;> simp [ofSrt] at h ⊢
  exact h

theorem ofLz_ok {r : LZ.Res} {y : List Nat} (h : ofLz r = .ok y) : ∃ t, r = .ok t ∧ t.toList = y := by
  cases r with
  | ok t => simp [ofLz] at h; exact ⟨t, rfl, h⟩
  | err e => simp [ofLz] at h
  | fault e => simp [ofLz] at h

theorem ofLzp_ok {r : LZP.Res} {y : List Nat} (h : ofLzp r = .ok y) : r = .ok y := by
  cases r <;> simp [ofLzp] at h ⊢
  exact h

/-! ### the laws -/

theorem law_none : (Kind.none).tr.Law (Kind.none).grow lawLim where
  gmono := fun a b h => h
  gbound := fun s r h _ => by show s ≤ max r (nullMaxEncodedLen r); omega
  invNil := fun n => by simp [Kind.tr, nullInverse, nullCopy]
  rt := by
    intro dt x d y hb _ hd hf
    have hf' : nullForward x d = .ok y := hf
    have hdx : x.length ≤ d := by
      unfold nullForward nullMaxEncodedLen at hf'
      split at hf'
      · cases hf'
      · omega
    have h1 := (null_roundtrip x d x.length hdx (Nat.le_refl _)).1
    rw [h1] at hf'
    injection hf' with hf'
    subst hf'
    exact ⟨hb, Nat.le_refl _, fun n hn => (null_roundtrip x d n hdx hn).2⟩

theorem law_zrlt : (Kind.zrlt).tr.Law (Kind.zrlt).grow lawLim where
  gmono := fun a b h => h
  gbound := fun s r h _ => by show s ≤ max r (zrltMaxEncodedLen r); omega
  invNil := fun n => by simp [Kind.tr, zrltInverse]
  rt := by
    intro dt x d y hb hl hd hf
    have hf' : zrltForward x d = .ok y := hf
    by_cases hx : x.length = 0
    · have : x = [] := List.eq_nil_of_length_eq_zero hx
      subst this
      have : y = [] := by
        unfold zrltForward at hf'
        simp at hf'
        first | exact hf' | exact hf'.symm
      subst this
      exact ⟨hb, Nat.le_refl _, fun n _ => by simp [Kind.tr, zrltInverse]⟩
    · have hdx : x.length ≤ d := by
        unfold zrltForward zrltMaxEncodedLen at hf'
        rw [if_neg (by omega)] at hf'
        split at hf'
        · cases hf'
        · omega
      unfold lawLim at hl
      refine ⟨?_, ?_, ?_⟩
      · exact (zrlt_good x.length d x.length (Nat.le_refl _) (by omega) hdx x y ⟨hb, Nat.le_refl _⟩ hf').1.1
      · exact (zrlt_good x.length d x.length (Nat.le_refl _) (by omega) hdx x y ⟨hb, Nat.le_refl _⟩ hf').1.2
      · intro n hn
        exact (zrlt_good x.length d n hn (by omega) hdx x y ⟨hb, Nat.le_refl _⟩ hf').2.2

theorem law_sbrt (m : Nat) : (Kind.sbrt m).tr.Law (Kind.sbrt m).grow lawLim where
  gmono := fun a b h => h
  gbound := fun s r h _ => by show s ≤ max r (sbrtMaxEncodedLen r); omega
  invNil := fun n => by simp [Kind.tr, sbrtInverse]
  rt := by
    intro dt x d y hb hl hd hf
    have hf' : sbrtForward m x d = .ok y := hf
    by_cases hx : x.length = 0
    · have : x = [] := List.eq_nil_of_length_eq_zero hx
      subst this
      have : y = [] := by
        unfold sbrtForward at hf'
        simp at hf'
        first | exact hf' | exact hf'.symm
      subst this
      exact ⟨hb, Nat.le_refl _, fun n _ => by simp [Kind.tr, sbrtInverse]⟩
    · have hdx : x.length + 33 ≤ d := by
        unfold sbrtForward sbrtMaxEncodedLen at hf'
        rw [if_neg (by omega)] at hf'
        split at hf'
        · cases hf'
        · omega
      refine ⟨?_, ?_, ?_⟩
      · exact (sbrt_good m x.length d x.length (Nat.le_refl _) hdx x y ⟨hb, Nat.le_refl _⟩ hf').1.1
      · exact (sbrt_good m x.length d x.length (Nat.le_refl _) hdx x y ⟨hb, Nat.le_refl _⟩ hf').1.2
      · intro n hn
        exact (sbrt_good m x.length d n hn hdx x y ⟨hb, Nat.le_refl _⟩ hf').2.2

/-- an empty block: every Forward returns an empty output -/
theorem nil_case {t : Tr2} {g : Nat → Nat} {y : List Nat} (hy : y = []) (hinv : ∀ n, t.inv [] n = .ok []) :
    Bytes y ∧ y.length ≤ g ([] : List Nat).length ∧ ∀ n, ([] : List Nat).length ≤ n → t.inv y n = .ok [] := by
  subst hy
  refine ⟨?_, ?_, fun n _ => hinv n⟩
  · intro b hb; cases hb
  · simp

theorem law_rlt (fast : Bool) : (Kind.rlt fast).tr.Law (Kind.rlt fast).grow lawLim where
  gmono := fun a b h => h
  gbound := fun s r h _ => by show s ≤ max r (RLT.rltMaxEncodedLen r); omega
  invNil := fun n => by simp [Kind.tr, ofRlt, RLT.rltInverse]
  rt := by
    intro dt x d y hb hl hd hf
    have hf' : RLT.rltForward dt fast x d = .ok y := ofRlt_ok hf
    by_cases hx : x.length = 0
    · have hx' : x = [] := List.eq_nil_of_length_eq_zero hx
      subst hx'
      have : y = [] := by
        unfold RLT.rltForward at hf'
        simp at hf'
        first | exact hf' | exact hf'.symm
      exact nil_case this (fun n => by simp [Kind.tr, ofRlt, RLT.rltInverse])
    · have hdst : RLT.rltMaxEncodedLen x.length ≤ d := by
        unfold RLT.rltForward at hf'
        rw [if_neg (by omega)] at hf'
        split at hf'
        · cases hf'
        · split at hf'
          · cases hf'
          · omega
      obtain ⟨_, h2, h3⟩ := RLT.rlt_roundtrip dt fast x y d hb hdst hf'
      have h4 := RLT.rlt_shorter dt fast x y d hb hdst (fun h => hx (by rw [h]; rfl)) hf'
      refine ⟨h2, Nat.le_of_lt h4, fun n hn => ?_⟩
      show ofRlt (RLT.rltInverse y n) = .ok x
      rw [h3 n hn]; rfl

theorem law_alias (o : Bool) : (Kind.alias o).tr.Law (Kind.alias o).grow lawLim where
  gmono := fun a b h => h
  gbound := fun s r h _ => by show s ≤ max r (Alias.aliasMaxEncodedLen r); omega
  invNil := fun n => by simp [Kind.tr, ofRlt, Alias.aliasInverse_nil]
  rt := by
    intro dt x d y hb hl hd hf
    have hf' : Alias.aliasForward o dt x d = .ok y := ofRlt_ok hf
    by_cases hx : x.length = 0
    · have hx' : x = [] := List.eq_nil_of_length_eq_zero hx
      subst hx'
      have : y = [] := by
        unfold Alias.aliasForward at hf'
        simp at hf'
        first | exact hf' | exact hf'.symm
      exact nil_case this (fun n => by simp [Kind.tr, ofRlt, Alias.aliasInverse_nil])
    · have hdst : Alias.aliasMaxEncodedLen x.length ≤ d := by
        unfold Alias.aliasForward at hf'
        rw [if_neg (by omega)] at hf'
        split at hf'
        · cases hf'
        · omega
      unfold lawLim at hl
      obtain ⟨h1, _, h3, h4⟩ := Alias.alias_roundtrip o dt x y d hb (by omega) hdst hf'
      refine ⟨h3, h1, fun n hn => ?_⟩
      show ofRlt (Alias.aliasInverse y n) = .ok x
      rw [h4 n hn]; rfl

theorem law_fsd : (Kind.fsd).tr.Law (Kind.fsd).grow lawLim where
  gmono := fun a b h => by
    show FSD.fsdMaxEncodedLen a ≤ FSD.fsdMaxEncodedLen b
    unfold FSD.fsdMaxEncodedLen
    simp only [Nat.shiftRight_eq_div_pow]
    have : a / 2 ^ 4 ≤ b / 2 ^ 4 := Nat.div_le_div_right h
    omega
  gbound := fun s r h _ => by
    show FSD.fsdMaxEncodedLen s ≤ max r (FSD.fsdMaxEncodedLen r)
    unfold FSD.fsdMaxEncodedLen
    simp only [Nat.shiftRight_eq_div_pow]
    have : s / 2 ^ 4 ≤ r / 2 ^ 4 := Nat.div_le_div_right h
    omega
  invNil := fun n => by simp [Kind.tr, ofRlt, FSD.fsdInverse]
  rt := by
    intro dt x d y hb hl hd hf
    have hf' : FSD.fsdForward dt x d = .ok y := ofRlt_ok hf
    by_cases hx : x.length = 0
    · have hx' : x = [] := List.eq_nil_of_length_eq_zero hx
      subst hx'
      have : y = [] := by
        unfold FSD.fsdForward FSD.fsdEarly at hf'
        simp at hf'
        first | exact hf' | exact hf'.symm
      exact nil_case this (fun n => by simp [Kind.tr, ofRlt, FSD.fsdInverse])
    · have hdst : FSD.fsdMaxEncodedLen x.length ≤ d := by
        by_cases hlt : d < FSD.fsdMaxEncodedLen x.length
        · unfold FSD.fsdForward FSD.fsdEarly at hf'
          rw [if_neg (by omega), if_pos hlt] at hf'
          cases hf'
        · omega
      obtain ⟨h1, h2, h3⟩ := FSD.fsd_roundtrip dt x y d hb hdst hf'
      refine ⟨h2, h1, fun n hn => ?_⟩
      show ofRlt (FSD.fsdInverse y n) = .ok x
      rw [h3 n hn]; rfl

theorem law_srt : (Kind.srt).tr.Law (Kind.srt).grow lawLim where
  gmono := fun a b h => by show a + 1024 + a / 268435456 ≤ b + 1024 + b / 268435456; omega
  gbound := fun s r h hs => by
    show s + 1024 + s / 268435456 ≤ max r (SRT.maxEncodedLen r)
    unfold SRT.maxEncodedLen lawLim at *
    omega
  invNil := fun n => by simp [Kind.tr, ofSrt, SRT.srtInverse_empty]
  rt := by
    intro dt x d y hb hl hd hf
    have hf' : SRT.srtForwardFill 0 x d = .ok y := ofSrt_ok hf
    by_cases hx : x.length = 0
    · have hx' : x = [] := List.eq_nil_of_length_eq_zero hx
      subst hx'
      have : y = [] := by
        rw [SRT.srtForward_empty] at hf'
        injection hf' with hf'
        exact hf'.symm
      exact nil_case this (fun n => by simp [Kind.tr, ofSrt, SRT.srtInverse_empty])
    · have hdst : SRT.maxEncodedLen x.length ≤ d := by
        by_cases hlt : d < SRT.maxEncodedLen x.length
        · unfold SRT.srtForwardFill at hf'
          rw [if_neg (by omega), if_pos hlt] at hf'
          cases hf'
        · omega
      unfold lawLim at hl
      have hfreq := SRT.count_lt_of_length_lt x (2 ^ 31) (by omega)
      obtain ⟨t, ht, _, hinv⟩ := SRT.srt_roundtrip 0 x d hb hfreq hdst
      rw [ht] at hf'
      injection hf' with hf'
      subst hf'
      have hsharp := SRT.srtForward_length_sharp 0 x t d hb hfreq hdst ht
      refine ⟨SRT.srtForward_bytes 0 x t d (by decide) ht, ?_, fun n hn => ?_⟩
      · show t.length ≤ x.length + 1024 + x.length / 268435456
        omega
      · show ofSrt (SRT.srtInverse t n) = .ok x
        rw [hinv n hn]; rfl

theorem law_lzp : (Kind.lzp).tr.Law (Kind.lzp).grow lawLim where
  gmono := fun a b h => h
  gbound := fun s r h _ => by show s ≤ max r (LZP.lzpMaxEncodedLen r); omega
  invNil := fun n => by simp [Kind.tr, ofLzp, LZP.lzpInverse]
  rt := by
    intro dt x d y hb hl hd hf
    have hf' : LZP.lzpForward x d = .ok y := ofLzp_ok hf
    by_cases hx : x.length = 0
    · have hx' : x = [] := List.eq_nil_of_length_eq_zero hx
      subst hx'
      have : y = [] := by
        unfold LZP.lzpForward at hf'
        simp at hf'
        first | exact hf' | exact hf'.symm
      exact nil_case this (fun n => by simp [Kind.tr, ofLzp, LZP.lzpInverse])
    · have hdst : LZP.lzpMaxEncodedLen x.length ≤ d := by
        unfold LZP.lzpForward at hf'
        rw [if_neg (by omega)] at hf'
        split at hf'
        · cases hf'
        · omega
      obtain ⟨_, h2, h3, h4⟩ := LZP.lzp_roundtrip x y d hdst hf'
      refine ⟨h3 hb, Nat.le_of_lt (h2 (fun h => hx (by rw [h]; rfl))), fun n hn => ?_⟩
      show ofLzp (LZP.lzpInverse false y n) = .ok x
      rw [(h4 n hn).1]; rfl

theorem law_lz (extra : Bool) : (Kind.lz extra).tr.Law (Kind.lz extra).grow lawLim where
  gmono := fun a b h => h
  gbound := fun s r h _ => by show s ≤ max r (LZ.maxEncodedLen r); omega
  invNil := fun n => by simp [Kind.tr, ofLz, LZ.lzInverse]
  rt := by
    intro dt x d y hb hl hd hf
    obtain ⟨t, hf', hty⟩ := ofLz_ok (r := LZ.lzForward extra dt x.toArray d) hf
    by_cases hx : x.length = 0
    · have hx' : x = [] := List.eq_nil_of_length_eq_zero hx
      subst hx'
      have : y = [] := by
        unfold LZ.lzForward at hf'
        simp at hf'
        subst hf'
        simpa using hty.symm
      exact nil_case this (fun n => by simp [Kind.tr, ofLz, LZ.lzInverse])
    · have hsz : x.toArray.size = x.length := by simp
      have hdst : LZ.maxEncodedLen x.toArray.size ≤ d := by
        by_cases hlt : d < LZ.maxEncodedLen x.toArray.size
        · unfold LZ.lzForward at hf'
          simp only [] at hf'
          rw [if_neg (by rw [hsz]; omega), if_pos hlt] at hf'
          cases hf'
        · omega
      unfold lawLim at hl
      have hby := LZ.lzForward_bytes (src := x.toArray) (by intro b h; exact hb b (by simpa using h)) hf'
      obtain ⟨_, _, _, _, _, _, _, _, _, _, _, _, hshort, _⟩ :=
        LZ.lzForward_stream (by rw [hsz]; exact hx) (by omega) hf'
      subst hty
      refine ⟨hby, ?_, fun n hn => ?_⟩
      · show t.toList.length ≤ x.length
        rw [hsz] at hshort
        simp only [Array.length_toList]
        omega
      · show ofLz (LZ.lzInverse t.toList.toArray (Array.replicate n 0)) = .ok x
        have := (LZ.lz_roundtrip (Array.replicate n 0) (by rw [hsz]; omega) hdst
          (by rw [hsz]; simp; exact hn) hf').1
        simp only [Array.toArray_toList]
        rw [this]
        simp [ofLz]

/-- every modelled transform satisfies the law -/
theorem kind_law (k : Kind) : k.tr.Law k.grow lawLim := by
  cases k with
  | none => exact law_none
  | zrlt => exact law_zrlt
  | sbrt m => exact law_sbrt m
  | rlt f => exact law_rlt f
  | srt => exact law_srt
  | alias o => exact law_alias o
  | lz e => exact law_lz e
  | lzp => exact law_lzp
  | fsd => exact law_fsd

theorem kindLtrs_law (ks : List Kind) : ∀ l ∈ kindLtrs ks, l.t.Law l.g lawLim := by
  intro l hl
  obtain ⟨k, _, rfl⟩ := List.mem_map.mp hl
  exact kind_law k

/-! ### eight stages keep a block of at most 2^30 bytes below 2^31 bytes -/

/-- a common bound on one stage: `len/16 + 1028` more bytes -/
def stepB (a : Nat) : Nat := a + a / 16 + 1028

def iterB : Nat → Nat → Nat
  | 0, a => a
  | n + 1, a => iterB n (stepB a)

theorem grow_le_stepB (k : Kind) (a : Nat) : max a (k.grow a) ≤ stepB a := by
  unfold stepB
  cases k with
  | srt => show max a (a + 1024 + a / 268435456) ≤ _; omega
  | fsd =>
    show max a (FSD.fsdMaxEncodedLen a) ≤ _
    unfold FSD.fsdMaxEncodedLen
    simp only [Nat.shiftRight_eq_div_pow]
    omega
  | _ => show max a a ≤ _; omega

theorem iterB_mono : ∀ n a b, a ≤ b → iterB n a ≤ iterB n b := by
  intro n
  induction n with
  | zero => intro a b h; exact h
  | succ n ih =>
    intro a b h
    simp only [iterB]
    apply ih
    unfold stepB
    have : a / 16 ≤ b / 16 := Nat.div_le_div_right h
    omega

theorem iterB_succ_ge (n a : Nat) : iterB n a ≤ iterB (n + 1) a := by
  simp only [iterB]
  exact iterB_mono n a (stepB a) (by unfold stepB; omega)

theorem iterB_le_of_le : ∀ n m a, n ≤ m → iterB n a ≤ iterB m a := by
  intro n m a h
  induction m with
  | zero => have : n = 0 := by omega
            subst this; exact Nat.le_refl _
  | succ m ih =>
    by_cases hn : n = m + 1
    · subst hn; exact Nat.le_refl _
    · exact Nat.le_trans (ih (by omega)) (iterB_succ_ge m a)

theorem runG_le_iterB : ∀ (ks : List Kind) (s : Nat), runG (kindLtrs ks) s ≤ iterB ks.length s := by
  intro ks
  induction ks with
  | nil => intro s; exact Nat.le_refl _
  | cons k ks ih =>
    intro s
    show runG (kindLtrs ks) (max s (k.grow s)) ≤ iterB ks.length (stepB s)
    exact Nat.le_trans (ih _) (iterB_mono _ _ _ (grow_le_stepB k s))

/-- at most eight stages on a block of at most 2^30 bytes: every intermediate block is within the length
limit of the laws -/
theorem runG_le_lawLim (ks : List Kind) (s : Nat) (hn : ks.length ≤ 8) (hs : s ≤ 2 ^ 30) :
    runG (kindLtrs ks) s ≤ lawLim := by
  have h1 := runG_le_iterB ks s
  have h2 := iterB_le_of_le ks.length 8 s hn
  have h3 := iterB_mono 8 s (2 ^ 30) hs
  have h4 : iterB 8 (2 ^ 30) ≤ lawLim := by decide
  omega

/-! ### no Forward faults

The adapters of `Kind.tr` map a `.fault` of a transform model (a Go panic) to a declined stage.  For
Forward that would be unfaithful (a panic fails the whole block), but it never happens: on a block of byte
values no Forward of the modelled transforms faults, whatever the destination size (below `MaxEncodedLen`
every Forward declines before it touches the destination). -/
theorem kind_no_fault (b : List Nat) (d : Nat) (hb : ∀ x ∈ b, x < 256) (hl : b.length < 2 ^ 31) :
    (∀ dt fast e, RLT.rltForward dt fast b d ≠ .fault e) ∧
    SRT.srtForward b d ≠ .fault ∧
    (∀ o dt e, Alias.aliasForward o dt b d ≠ .fault e) ∧
    (∀ extra dt e, LZ.lzForward extra dt b.toArray d ≠ .fault e) ∧
    (∀ k x l, LZP.lzpForward b d ≠ .fault k x l) ∧
    (∀ dt e, FSD.fsdForward dt b d ≠ .fault e) := by
  refine ⟨?_, ?_, ?_, ?_, ?_, ?_⟩
  · intro dt fast e
    by_cases hd : RLT.rltMaxEncodedLen b.length ≤ d
    · exact RLT.rltForward_ne_fault dt fast b d hd e
    · unfold RLT.rltForward
      split
      · simp
      · split
        · simp
        · rw [if_pos (by omega)]; simp
  · exact SRT.srtForward_no_fault 0 b d hb (SRT.count_lt_of_length_lt b _ hl)
  · intro o dt e
    by_cases hd : Alias.aliasMaxEncodedLen b.length ≤ d
    · exact Alias.aliasForward_ne_fault o dt b d hd e
    · unfold Alias.aliasForward
      split
      · simp
      · rw [if_pos (by omega)]; simp
  · intro extra dt e
    by_cases hd : LZ.maxEncodedLen b.toArray.size ≤ d
    · have hB : LZ.Bytes b.toArray := by
        intro i
        rw [Array.getD_eq_getD_getElem?]
        by_cases hi : i < b.toArray.size
        · rw [Array.getElem?_eq_getElem hi]
          exact hb _ (by simp)
        · rw [Array.getElem?_eq_none (by omega)]; decide
      exact LZ.lzForward_nf hB hd e
    · unfold LZ.lzForward
      simp only []
      split
      · simp
      · rw [if_pos (by omega)]; simp
  · intro k x l
    exact LZP.lzpForward_ne_fault b d k x l
  · intro dt e
    by_cases hd : FSD.fsdMaxEncodedLen b.length ≤ d
    · exact FSD.fsdForward_ne_fault dt b d e hd
    · unfold FSD.fsdForward FSD.fsdEarly
      split
      · rename_i r hr
        split at hr
        · injection hr with hr; rw [← hr]; simp
        · rw [if_pos (by omega)] at hr
          injection hr with hr; rw [← hr]; simp
      · rename_i hr
        split at hr
        · cases hr
        · rw [if_pos (by omega)] at hr; cases hr

end Kanzi.BlockGen2
