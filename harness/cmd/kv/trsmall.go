package main

// trsmall: correspondence stream for the small byte transforms (NullTransform, ZRLT, SBRT in its
// three modes) and for ByteTransformSequence (skip flags), model lean/Kanzi/Model/TrSmall.lean,
// driver lean/Kanzi/Drv/TrSmall.lean (the op grammar is documented there).
//
// Exec runs the REAL transform on caller-owned buffers: the source slice has cap == len, the
// destination is dst[:dstLen] of a larger buffer whose tail holds a canary pattern.  Independently
// of the Lean model it evaluates the C13 oracle on the real code: no panic, input buffer unchanged by
// Forward/Inverse (success or decline), canary intact, on success output length <= MaxEncodedLen and
// Inverse(Forward(x)) == x into a destination of the original size; for sequences the round trip
// with the flags reported by SkipFlags() and with the flags recovered from the block mode byte.

import (
	"bytes"
	"encoding/hex"
	"fmt"
	"math/bits"
	"math/rand"
	"strconv"
	"strings"

	kanzi "github.com/flanglet/kanzi-go/v2"
	"github.com/flanglet/kanzi-go/v2/transform"

	"kverif/internal/gen"
)

func init() {
	registerStream(&Stream{
		Name: "trsmall",
		Rule: "one op = one Forward or Inverse call of NullTransform / ZRLT / SBRT(mode 1..3) / ByteTransformSequence(1..8 stages of those) on a caller-owned block; families: exhaustive short blocks over edge alphabets, single zero runs of every special length (1..70000, 2^k-1,2^k,2^k+1), run-structured blocks, 0xFE/0xFF-heavy, tight (output length = len +-2), no-zero, random, text/skewed, destination size variants, valid / mutated / arbitrary inverse inputs incl. >64 consecutive 0/1 bytes; distinct_nontrivial = distinct ops with a non-empty block",
		Gen:  trGen,
		Exec: trExec,
	})
}

const trCanary = 64

func trHex(b []byte) string {
	if len(b) == 0 {
		return "-"
	}
	return hex.EncodeToString(b)
}

func trUnhex(s string) ([]byte, bool) {
	if s == "-" {
		return []byte{}, true
	}
	b, err := hex.DecodeString(s)
	return b, err == nil
}

type trOut struct {
	out      []byte
	read     uint
	written  uint
	err      error
	panicMsg string
	inputMod bool
	canary   bool
}

// trCall runs f(src, dst[:dstLen]) on private buffers and checks input / canary integrity.
func trCall(f func(src, dst []byte) (uint, uint, error), data []byte, dstLen int) (o trOut) {
	src := make([]byte, len(data))
	copy(src, data)
	buf := make([]byte, dstLen+trCanary)
	for i := range buf {
		if i < dstLen {
			buf[i] = 0xAA
		} else {
			buf[i] = byte(0xC5 ^ i)
		}
	}
	func() {
		defer func() {
			if r := recover(); r != nil {
				o.panicMsg = fmt.Sprint(r)
			}
		}()
		o.read, o.written, o.err = f(src, buf[:dstLen])
	}()
	o.inputMod = !bytes.Equal(src, data)
	for i := dstLen; i < len(buf); i++ {
		if buf[i] != byte(0xC5^i) {
			o.canary = true
		}
	}
	if o.panicMsg == "" && o.err == nil && int(o.written) <= dstLen {
		o.out = buf[:o.written]
	}
	return o
}

func trViolate(res *Result, site, symptom, what string) {
	if res.Violation == nil {
		res.Violation = &Violation{Kind: "input", Site: site, Symptom: symptom, What: what}
	}
}

// common integrity checks; returns the canonical line
func trLine(res *Result, o trOut, site, bad string, dstLen int) string {
	if o.panicMsg != "" {
		trViolate(res, site, "panic", o.panicMsg)
		return "panic"
	}
	if o.inputMod {
		trViolate(res, site, "input-modified", "source buffer changed by the call")
	}
	if o.canary {
		trViolate(res, site, "dst-overrun", "bytes after dst[:len] were written")
	}
	if o.err != nil {
		return bad
	}
	if int(o.written) > dstLen {
		trViolate(res, site, "written>len(dst)", fmt.Sprintf("written=%d len(dst)=%d", o.written, dstLen))
		return "overrun"
	}
	return "ok " + trHex(o.out)
}

// forward oracle: bound + round trip through a fresh instance into a destination of the original size
func trForwardOracle(res *Result, name string, mk func() kanzi.ByteTransform, data []byte, dstLen int, o trOut) {
	t := mk()
	if o.err != nil || o.panicMsg != "" || len(data) == 0 || dstLen < t.MaxEncodedLen(len(data)) {
		return
	}
	site := "transform." + name + ".Forward"
	if int(o.written) > t.MaxEncodedLen(len(data)) {
		trViolate(res, site, "output>MaxEncodedLen", fmt.Sprintf("written=%d max=%d", o.written, t.MaxEncodedLen(len(data))))
	}
	if int(o.read) != len(data) {
		trViolate(res, site, "short-read", fmt.Sprintf("read=%d len=%d with nil error", o.read, len(data)))
	}
	isite := "transform." + name + ".Inverse"
	for _, extra := range []int{0, 1 + len(data)/16} {
		b := trCall(mk().Inverse, o.out, len(data)+extra)
		switch {
		case b.panicMsg != "":
			trViolate(res, isite, "panic", b.panicMsg)
		case b.err != nil:
			trViolate(res, isite, "roundtrip-error", fmt.Sprintf("Inverse(Forward(x)) failed (dst=len+%d): %v", extra, b.err))
		case !bytes.Equal(b.out, data):
			trViolate(res, site, "roundtrip-mismatch", fmt.Sprintf("Inverse(Forward(x)) != x (dst=len+%d, got %d bytes, want %d)", extra, len(b.out), len(data)))
		case b.inputMod || b.canary:
			trViolate(res, isite, "buffer-integrity", "inverse modified its input or wrote past dst")
		}
	}
}

func trMake(name string) (string, func() kanzi.ByteTransform) {
	switch name {
	case "N":
		return "NullTransform", func() kanzi.ByteTransform { t, _ := transform.NewNullTransform(); return t }
	case "Z":
		return "ZRLT", func() kanzi.ByteTransform { t, _ := transform.NewZRLT(); return t }
	case "S1", "S2", "S3":
		m := int(name[1] - '0')
		return "SBRT", func() kanzi.ByteTransform { t, _ := transform.NewSBRT(m); return t }
	}
	return "", nil
}

func trStages(spec string) ([]kanzi.ByteTransform, bool) {
	var ts []kanzi.ByteTransform
	for _, n := range strings.Split(spec, ",") {
		_, mk := trMake(n)
		if mk == nil {
			return nil, false
		}
		ts = append(ts, mk())
	}
	return ts, true
}

// replica of the two expressions of io/CompressedStream.go that store / recover the skip flags
func trModeByte(mode0, flags byte, n int) (mode byte, extra int, rec byte) {
	mode, extra = mode0, -1
	if mode&0x80 != 0 || n <= 4 {
		mode |= flags >> 4
	} else {
		mode |= 0x10
		extra = int(flags)
	}
	switch {
	case mode&0x80 != 0:
		rec = 0
	case mode&0x10 != 0:
		rec = byte(extra)
	default:
		rec = (mode << 4) | 0x0F
	}
	return
}

func trExec(op string, res *Result) string {
	w := strings.Fields(op)
	if len(w) < 3 {
		return "bad-op"
	}
	atoi := func(s string) (int, bool) {
		v, err := strconv.Atoi(s)
		return v, err == nil && v >= 0 && v <= 1<<24
	}
	switch w[0] {
	case "nf", "ni", "zf", "zi", "sf", "si":
		name := map[byte]string{'n': "N", 'z': "Z", 's': "S"}[w[0][0]]
		args := w[1:]
		if name == "S" {
			m, ok := atoi(args[0])
			if !ok || len(args) != 3 {
				return "bad-op"
			}
			if m < 1 || m > 3 {
				if _, err := transform.NewSBRT(m); err == nil {
					trViolate(res, "transform.NewSBRT", "accepts-bad-mode", fmt.Sprint(m))
				}
				return "bad-mode"
			}
			name = "S" + args[0]
			args = args[1:]
		}
		if len(args) != 2 {
			return "bad-op"
		}
		dstLen, ok1 := atoi(args[0])
		data, ok2 := trUnhex(args[1])
		if !ok1 || !ok2 {
			return "bad-op"
		}
		gname, mk := trMake(name)
		fwd := w[0][1] == 'f'
		res.Nontrivial = len(data) > 0
		res.Sample = map[string]any{"op": w[0], "len": len(data), "dst": dstLen, "prefix": op[:min(len(op), 80)]}
		if fwd {
			site := "transform." + gname + ".Forward"
			o := trCall(mk().Forward, data, dstLen)
			line := trLine(res, o, site, "declined", dstLen)
			trForwardOracle(res, gname, mk, data, dstLen, o)
			res.Tags = append(res.Tags, w[0]+":"+strings.Fields(line)[0])
			return line
		}
		site := "transform." + gname + ".Inverse"
		o := trCall(mk().Inverse, data, dstLen)
		line := trLine(res, o, site, "err", dstLen)
		res.Tags = append(res.Tags, w[0]+":"+strings.Fields(line)[0])
		return line
	case "qf":
		if len(w) != 3 {
			return "bad-op"
		}
		data, ok := trUnhex(w[2])
		ts, ok2 := trStages(w[1])
		if !ok || !ok2 {
			return "bad-op"
		}
		if len(ts) == 0 || len(ts) > 8 {
			return "bad-stages"
		}
		seq, err := transform.NewByteTransformSequence(ts)
		if err != nil {
			return "bad-stages"
		}
		site := "transform.ByteTransformSequence.Forward"
		req := seq.MaxEncodedLen(len(data))
		// the sequence uses the source buffer as scratch space by design: no input check here
		o := trCall(seq.Forward, data, req)
		o.inputMod = false
		line := trLine(res, o, site, "declined", req)
		if !strings.HasPrefix(line, "ok") {
			if line == "declined" {
				trViolate(res, site, "unexpected-error", fmt.Sprint(o.err))
			}
			return line
		}
		flags := seq.SkipFlags()
		mode, extra, rec := trModeByte(0x40, flags, seq.Len())
		ex := "-"
		if extra >= 0 {
			ex = strconv.Itoa(extra)
		}
		res.Nontrivial = len(data) > 0
		res.Tags = append(res.Tags, fmt.Sprintf("qf:stages=%d", seq.Len()), fmt.Sprintf("qf:applied=%d", 8-bits.OnesCount8(flags)))
		res.Sample = map[string]any{"op": "qf", "stages": w[1], "len": len(data), "flags": flags}
		if len(data) > 0 {
			if rec != flags {
				trViolate(res, "io.decodingTask.decode", "flags-not-recovered", fmt.Sprintf("flags=%08b mode=%08b recovered=%08b", flags, mode, rec))
			}
			if int(o.written) > req {
				trViolate(res, site, "output>MaxEncodedLen", fmt.Sprintf("written=%d max=%d", o.written, req))
			}
			ts2, _ := trStages(w[1])
			seq2, _ := transform.NewByteTransformSequence(ts2)
			seq2.SetSkipFlags(rec)
			b := trCall(seq2.Inverse, o.out, len(data))
			isite := "transform.ByteTransformSequence.Inverse"
			switch {
			case b.panicMsg != "":
				trViolate(res, isite, "panic", b.panicMsg)
			case b.err != nil:
				trViolate(res, isite, "roundtrip-error", b.err.Error())
			case !bytes.Equal(b.out, data):
				trViolate(res, site, "roundtrip-mismatch", fmt.Sprintf("flags=%08b got %d bytes want %d", flags, len(b.out), len(data)))
			case b.canary:
				trViolate(res, isite, "dst-overrun", "bytes after dst were written")
			}
		}
		return fmt.Sprintf("ok %d %d %s %d %s", flags, mode, ex, rec, trHex(o.out))
	case "qi":
		if len(w) != 5 {
			return "bad-op"
		}
		ts, ok := trStages(w[1])
		flags, ok1 := atoi(w[2])
		dstLen, ok2 := atoi(w[3])
		data, ok3 := trUnhex(w[4])
		if !ok || !ok1 || !ok2 || !ok3 || flags > 255 {
			return "bad-op"
		}
		if dstLen < len(data) || dstLen == 0 {
			return "unsupported" // stage destinations would depend on cap(src); see the driver
		}
		if len(ts) == 0 || len(ts) > 8 {
			return "bad-stages"
		}
		seq, err := transform.NewByteTransformSequence(ts)
		if err != nil {
			return "bad-stages"
		}
		seq.SetSkipFlags(byte(flags))
		o := trCall(seq.Inverse, data, dstLen)
		o.inputMod = false
		res.Nontrivial = len(data) > 0
		line := trLine(res, o, "transform.ByteTransformSequence.Inverse", "err", dstLen)
		res.Tags = append(res.Tags, "qi:"+strings.Fields(line)[0])
		return line
	}
	return "bad-op"
}

// ------------------------------------------------------------------------------------------
// generators

func trSpecialLens() []int {
	l := []int{1, 2, 3, 5, 6, 7, 9, 10, 11, 12, 13, 14, 100, 1000, 10000, 69999, 70000}
	for k := 2; k <= 16; k++ {
		l = append(l, 1<<k-1, 1<<k, 1<<k+1)
	}
	return l
}

func trRealForward(name string, data []byte) ([]byte, bool) {
	_, mk := trMake(name)
	t := mk()
	dst := make([]byte, t.MaxEncodedLen(len(data)))
	if len(data) == 0 {
		return nil, false
	}
	_, n, err := t.Forward(append([]byte{}, data...), dst)
	if err != nil {
		return nil, false
	}
	return dst[:n], true
}

func trRunsBlock(r *rand.Rand, n int, specials []int, lits func() byte) []byte {
	b := make([]byte, 0, n)
	for len(b) < n {
		if r.Intn(2) == 0 {
			l := specials[r.Intn(len(specials))]
			if l > n/2+1 {
				l = 1 + r.Intn(20)
			}
			for k := 0; k < l; k++ {
				b = append(b, 0)
			}
		} else {
			l := 1 + r.Intn(6)
			for k := 0; k < l; k++ {
				b = append(b, lits())
			}
		}
	}
	return b[:n]
}

func trGen(r *rand.Rand, tier string, n int, emit func(op string, tags ...string)) {
	thorough := tier == "thorough"
	specials := trSpecialLens()
	zf := func(b []byte, dst int, fam string) { emit(fmt.Sprintf("zf %d %s", dst, trHex(b)), "family:"+fam) }
	zi := func(b []byte, dst int, fam string) { emit(fmt.Sprintf("zi %d %s", dst, trHex(b)), "family:"+fam) }
	// valid encodings (from the real forward) with exact / larger / smaller destinations + mutations
	ziFrom := func(b []byte, fam string) {
		enc, ok := trRealForward("Z", b)
		if !ok {
			return
		}
		zi(enc, len(b), fam+"-exact")
		switch r.Intn(4) {
		case 0:
			zi(enc, len(b)+1+r.Intn(100), fam+"-larger")
		case 1:
			if len(b) > 1 {
				zi(enc, len(b)-1, fam+"-smaller")
			}
		case 2:
			m := append([]byte{}, enc...)
			m[r.Intn(len(m))] = []byte{0, 1, 2, 0xFF, byte(r.Intn(256))}[r.Intn(5)]
			zi(m, len(b), fam+"-mutated")
		default:
			zi(enc[:r.Intn(len(enc))+1], len(b), fam+"-truncated")
		}
	}

	// ---- 1. exhaustive short blocks
	alpha := []byte{0, 1, 2, 0xFD, 0xFE, 0xFF}
	maxLen := 5
	if thorough {
		maxLen = 6
	}
	var rec func(b []byte, f func([]byte), al []byte, ml int)
	rec = func(b []byte, f func([]byte), al []byte, ml int) {
		if len(b) > 0 {
			f(b)
		}
		if len(b) == ml {
			return
		}
		for _, c := range al {
			rec(append(b, c), f, al, ml)
		}
	}
	rec(nil, func(b []byte) { zf(b, len(b), "z-exhaustive") }, alpha, maxLen)
	rec(nil, func(b []byte) {
		for _, d := range []int{1, 2, 3, 5, 9, 40} {
			zi(b, d, "zi-exhaustive")
		}
	}, []byte{0, 1, 2, 0x80, 0xFF}, maxLen-1)
	for m := 1; m <= 3; m++ {
		rec(nil, func(b []byte) {
			emit(fmt.Sprintf("sf %d %d %s", m, len(b)+33, trHex(b)), "family:s-exhaustive")
			emit(fmt.Sprintf("si %d %d %s", m, len(b), trHex(b)), "family:si-exhaustive")
		}, []byte{0, 1, 2, 0xFF}, maxLen)
	}

	// ---- 2. a single zero run of every special length, bare and with neighbours
	for _, l := range specials {
		z := make([]byte, l)
		zf(z, l, "z-single-run")
		ziFrom(z, "zi-single-run")
		for _, x := range []byte{1, 0xFE, 0xFF} {
			b := append([]byte{x}, z...)
			zf(b, len(b), "z-run-after-byte")
			b2 := append(append([]byte{}, z...), x)
			zf(b2, len(b2), "z-run-before-byte")
			ziFrom(b2, "zi-run-before-byte")
		}
	}
	// ---- 3. tight blocks: run of l zeros then m escaped bytes, output length = input length +-2
	for l := 2; l <= 40; l++ {
		lg := bits.Len(uint(l+1)) - 1
		for m := l - lg - 2; m <= l-lg+2; m++ {
			if m < 0 {
				continue
			}
			for _, esc := range []byte{0xFE, 0xFF} {
				b := make([]byte, l, l+m+1)
				for k := 0; k < m; k++ {
					b = append(b, esc)
				}
				zf(b, len(b), "z-tight")
				b2 := append(bytes.Repeat([]byte{esc}, m), make([]byte, l)...)
				zf(b2, len(b2), "z-tight")
				ziFrom(b2, "zi-tight")
			}
		}
	}
	// ---- 4. structured and random blocks of all sizes
	cnt := 800
	big := 80
	if thorough {
		cnt, big = 6000, 600
	}
	if n > 0 {
		cnt = n
	}
	lits := []func() byte{
		func() byte { return byte(1 + r.Intn(255)) },
		func() byte { return byte(0xFE + r.Intn(2)) },
		func() byte { return []byte{1, 2, 0xFD, 0xFE, 0xFF}[r.Intn(5)] },
		func() byte { return byte(1 + r.Intn(3)) },
	}
	size := func(i int) int {
		if i < big {
			return 1 + r.Intn(70000)
		}
		return 1 + r.Intn(1<<uint(1+r.Intn(11)))
	}
	for i := 0; i < cnt; i++ {
		sz := size(i)
		var b []byte
		fam := ""
		switch i % 6 {
		case 0:
			b, fam = trRunsBlock(r, sz, specials, lits[r.Intn(len(lits))]), "z-runs"
		case 1:
			b, fam = trRunsBlock(r, sz, []int{1, 2, 3, 4, 7, 8, 9, 30}, lits[1]), "z-fe-ff-heavy"
		case 2:
			b, fam = gen.Random(r, sz), "z-random"
		case 3:
			b = gen.Random(r, sz)
			for k := range b {
				if b[k] == 0 {
					b[k] = 0xFF
				}
			}
			fam = "z-no-zero"
		case 4:
			b, fam = gen.Runs(r, sz), "z-gen-runs"
		default:
			b, fam = gen.Skewed(r, sz, 3, 2), "z-skewed01"
		}
		switch r.Intn(12) {
		case 0:
			zf(b, len(b)-1, fam+"/dst-1")
		case 1:
			zf(b, len(b)+1+r.Intn(64), fam+"/dst+")
		case 2:
			zf(b, 0, fam+"/dst0")
		default:
			zf(b, len(b), fam)
		}
		ziFrom(b, "zi-"+fam[2:])
	}
	// ---- 5. arbitrary inverse inputs (incl. long 0/1 sequences: 64-bit run-length wrap)
	for i := 0; i < cnt; i++ {
		sz := 1 + r.Intn(200)
		b := make([]byte, sz)
		for k := range b {
			switch r.Intn(8) {
			case 0, 1, 2:
				b[k] = byte(r.Intn(2))
			case 3:
				b[k] = 0xFF
			default:
				b[k] = byte(r.Intn(256))
			}
		}
		fam := "zi-arbitrary"
		if i%4 == 0 {
			for k := 0; k < min(sz, 60+r.Intn(80)); k++ {
				b[k] = byte(r.Intn(2))
				if i%8 == 0 {
					b[k] = 0
				}
			}
			fam = "zi-long-bits"
		}
		zi(b, []int{1, 2, sz, 3 * sz, 1000, 100000}[r.Intn(6)], fam)
	}
	zf(nil, 0, "z-empty")
	zf(nil, 5, "z-empty")
	zi(nil, 5, "zi-empty")

	// ---- 6. SBRT, all modes
	scnt, sbig := 120, 8
	if thorough {
		scnt, sbig = 1500, 60
	}
	shapes := []gen.Shape{{Name: "random", F: gen.Random}, {Name: "text", F: gen.Text},
		{Name: "skew-250-6", F: func(r *rand.Rand, n int) []byte { return gen.Skewed(r, n, 250, 6) }},
		{Name: "runs", F: gen.Runs}, {Name: "alpha2", F: func(r *rand.Rand, n int) []byte { return gen.SmallAlpha(r, n, 2) }},
		{Name: "zeros", F: func(r *rand.Rand, n int) []byte { return make([]byte, n) }},
		{Name: "cycle", F: func(r *rand.Rand, n int) []byte {
			b := make([]byte, n)
			st := 1 + r.Intn(255)
			for i := range b {
				b[i] = byte(i * st)
			}
			return b
		}}}
	for m := 1; m <= 3; m++ {
		for i := 0; i < scnt; i++ {
			sh := shapes[i%len(shapes)]
			sz := 1 + r.Intn(1<<uint(1+r.Intn(12)))
			if i < sbig {
				sz = []int{70000, 65537, 1 + r.Intn(70000), 1 + r.Intn(70000)}[i%4]
			} else if i%10 == 0 {
				sz = []int{255, 256, 257, 1, 2}[r.Intn(5)]
			}
			b := sh.F(r, sz)
			d := len(b) + 33
			fam := "s-" + sh.Name
			switch r.Intn(10) {
			case 0:
				d, fam = len(b)+32, fam+"/dst-1"
			case 1:
				d, fam = len(b), fam+"/dst=len"
			case 2:
				d += r.Intn(100)
			}
			emit(fmt.Sprintf("sf %d %d %s", m, d, trHex(b)), "family:"+fam)
			// any byte string is a valid inverse input
			di := len(b)
			if r.Intn(8) == 0 {
				di = len(b) - 1 + 2*r.Intn(2)
			}
			emit(fmt.Sprintf("si %d %d %s", m, di, trHex(b)), "family:si-"+sh.Name)
			if enc, ok := trRealForward("S"+strconv.Itoa(m), b); ok {
				emit(fmt.Sprintf("si %d %d %s", m, len(b), trHex(enc)), "family:si-valid")
			}
		}
	}
	emit("sf 4 40 0102", "family:s-bad-mode")
	emit("sf 0 40 0102", "family:s-bad-mode")
	// ---- 7. NullTransform
	for _, sz := range []int{0, 1, 2, 100, 5000} {
		b := gen.Random(r, sz)
		for _, d := range []int{sz, sz + 1, max(sz-1, 0), 0} {
			emit(fmt.Sprintf("nf %d %s", d, trHex(b)), "family:null")
			emit(fmt.Sprintf("ni %d %s", d, trHex(b)), "family:null")
		}
	}
	// ---- 8. sequences of 1..8 stages
	names := []string{"N", "Z", "S1", "S2", "S3"}
	qcnt := 800
	if thorough {
		qcnt = 6000
	}
	for i := 0; i < qcnt; i++ {
		k := 1 + i%8
		st := make([]string, k)
		for j := range st {
			st[j] = names[r.Intn(len(names))]
			if r.Intn(3) == 0 {
				st[j] = "Z"
			}
		}
		spec := strings.Join(st, ",")
		sz := 1 + r.Intn(1<<uint(1+r.Intn(11)))
		if i < 6 {
			sz = 20000 + r.Intn(50000)
		}
		var b []byte
		switch r.Intn(5) {
		case 0:
			b = gen.Random(r, sz)
		case 1:
			b = trRunsBlock(r, sz, specials, lits[0])
		case 2:
			b = gen.Text(r, sz)
		case 3:
			b = make([]byte, sz)
		default:
			b = gen.Skewed(r, sz, 2, 2)
		}
		emit(fmt.Sprintf("qf %s %s", spec, trHex(b)), "family:q-forward")
		// inverse of the real forward result with its flags, and with other flags
		ts, _ := trStages(spec)
		seq, _ := transform.NewByteTransformSequence(ts)
		dst := make([]byte, seq.MaxEncodedLen(len(b)))
		_, wn, err := seq.Forward(append([]byte{}, b...), dst)
		if err != nil {
			continue
		}
		emit(fmt.Sprintf("qi %s %d %d %s", spec, seq.SkipFlags(), len(b), trHex(dst[:wn])), "family:q-inverse-valid")
		if len(b) <= 64 || r.Intn(4) == 0 {
			emit(fmt.Sprintf("qi %s %d %d %s", spec, r.Intn(256), max(len(b), int(wn)), trHex(dst[:wn])), "family:q-inverse-other-flags")
		}
	}
	for _, spec := range []string{"Z", "Z,Z", "N,N,N,N,N,N,N,N", "Z,Z,Z,Z,Z,Z,Z,Z", "S1,Z", "S2,Z,S3,Z,N", "N,N,N,N,N,N,N,N,N"} {
		for _, b := range [][]byte{{}, {7}, {0}, {0, 0, 0, 0}, make([]byte, 300), gen.Random(r, 300)} {
			emit(fmt.Sprintf("qf %s %s", spec, trHex(b)), "family:q-directed")
		}
	}
}
