/-
Instances of the generic block codec theorem (`Kanzi/Proofs/BlockGen.lean`) with NO remaining
hypothesis: every chain of 1..8 transforms drawn from NullTransform, ZRLT, SBRT (MTFT = mode 1, RANK =
mode 2; in fact any mode), with the NONE entropy codec and with ANS order 0 as the factory builds it
(chunks of 16384 bytes, log range 12).
-/
import Kanzi.Proofs.BlockGen
import Kanzi.Proofs.Ans0
import Kanzi.Proofs.BlockGenAns0Dec

namespace Kanzi.BlockGen
open Kanzi.Bits Kanzi.TrSmall Kanzi.Block

/-- one of the modelled transforms -/
def IsSmallTr (t : Tr) : Prop := t = nullTr ∨ t = zrltTr ∨ ∃ mode, t = sbrtTr mode

theorem smallTr_stage (t : Tr) (h : IsSmallTr t) (req n : Nat) : IsSmallStage req n (t.stage req n) := by
  rcases h with h | h | ⟨m, h⟩ <;> subst h
  · exact Or.inl rfl
  · exact Or.inr (Or.inl rfl)
  · exact Or.inr (Or.inr ⟨m, rfl⟩)

/-- the sequence law for chains of the small transforms, on blocks of at most `len` bytes -/
theorem seqLaw_small (trs : List Tr) (hn : trs.length ≤ 8) (hs : ∀ t ∈ trs, IsSmallTr t)
    (len dmin : Nat) (hlen : len + 1 < 2 ^ 32) (hd : len ≤ dmin) :
    SeqLaw (IsBlock len) trs len dmin := by
  refine ⟨hn, ?_⟩
  intro t ht req n hreq hdn
  -- MaxEncodedLen of the stage is below MaxEncodedLen of the sequence
  have hmono : ∀ s ∈ stagesOf trs req n, ∀ a b, a ≤ b → s.maxLen a ≤ s.maxLen b := by
    intro s hsm
    obtain ⟨u, hu, rfl⟩ := List.mem_map.mp hsm
    exact smallStage_mono req n _ (smallTr_stage u (hs u hu) req n)
  have hmem : t.stage req n ∈ stagesOf trs req n := List.mem_map.mpr ⟨t, ht, rfl⟩
  have hmax := maxLen_le_seqMaxEncodedLen (stagesOf trs req n) hmono len (t.stage req n) hmem
  rw [seqMaxEncodedLen_stagesOf] at hmax
  have hmax' := Nat.le_trans hmax hreq
  rcases hs t ht with h | h | ⟨m, h⟩ <;> subst h
  · exact null_good len req n (by omega)
  · have : len ≤ req := hmax'
    exact zrlt_good len req n (by omega) hlen this
  · have : len + 33 ≤ req := hmax'
    exact sbrt_good m len req n (by omega) this

theorem entLaw_none (N : Nat) : EntLaw (IsBlock N) noneEnt := by
  intro x hx
  exact ⟨EntSmall.nullEncode x, rfl, fun rest => EntSmall.null_roundtrip x hx.1 rest⟩

theorem entLaw_ans0 (N : Nat) : EntLaw (IsBlock N) ans0Ent := by
  intro x hx
  obtain ⟨enc, h1, h2⟩ := Ans0Dec.blockB_rt x ans0Chunk ans0LogRange (by decide) (by decide) (by decide) hx.1
  exact ⟨enc, h1, h2⟩

/-- decode ∘ encode for every chain of small transforms and an entropy codec that satisfies the
exact-consumption law on blocks of bytes -/
theorem small_roundtrip (c : Cfg) (B : Nat) (b : List Nat)
    (hn : c.trs.length ≤ 8) (hs : ∀ t ∈ c.trs, IsSmallTr t) (hent : EntLaw (IsBlock b.length) c.ent)
    (hbytes : ∀ x ∈ b, x < 256) (hb0 : 0 < b.length) (hB : b.length ≤ B) (hmax : B ≤ 2 ^ 30) :
    ∃ p, encodeTaskGen c b = .ok p ∧ decodeTaskGen c B p = ⟨b.length, .ok b⟩ := by
  apply block_roundtrip c B (IsBlock b.length) b
    (seqLaw_small c.trs hn hs b.length (taskBlockLength B) (by omega)
      (Nat.le_trans hB (taskBlockLength_ge B)))
    hent ?_ ⟨hbytes, Nat.le_refl _⟩ hbytes hb0 hB hmax
  intro x hx
  exact le_maxTransformLength x.length B (Nat.le_trans hx.2 hB) (by have := hx.2; omega)

/-! ### destination sizes: beyond `MaxEncodedLen` the forward results do not depend on them -/

theorem small_fwd_dst_indep (t : Tr) (h : IsSmallTr t) (b : List Nat) (req req' : Nat)
    (h1 : t.maxLen b.length ≤ req) (h2 : t.maxLen b.length ≤ req') : t.fwd b req = t.fwd b req' := by
  rcases h with h | h | ⟨m, h⟩ <;> subst h
  · simp only [nullTr, nullMaxEncodedLen] at h1 h2 ⊢
    rw [(null_roundtrip b req b.length h1 (Nat.le_refl _)).1,
      (null_roundtrip b req' b.length h2 (Nat.le_refl _)).1]
  · simp only [zrltTr, zrltMaxEncodedLen] at h1 h2 ⊢
    have e : ∀ r, b.length ≤ r → zrltForward b r =
        if b.length = 0 then .ok [] else
          match zrltFwdGo b.length b 0 #[] with
          | none => .error "declined"
          | some o => .ok o.toList := by
      intro r hr
      unfold zrltForward zrltMaxEncodedLen
      by_cases h0 : b.length = 0
      · rw [if_pos (Or.inl h0), if_pos h0]
      · rw [if_neg (by omega), if_neg (by omega), if_neg h0]
        cases zrltFwdGo b.length b 0 #[] <;> rfl
    rw [e req h1, e req' h2]
  · simp only [sbrtTr, sbrtMaxEncodedLen] at h1 h2 ⊢
    have e : ∀ r, b.length + 33 ≤ r → sbrtForward m b r =
        if b.length = 0 then .ok [] else
          .ok (sbrtFwdGo m b 0 (Array.range 256) (Array.range 256)
              (Array.replicate 256 0) (Array.replicate 256 0) #[]).toList := by
      intro r hr
      unfold sbrtForward sbrtMaxEncodedLen
      by_cases h0 : b.length = 0
      · rw [if_pos (Or.inl h0), if_pos h0]
      · rw [if_neg (by omega), if_neg (by omega), if_neg h0]
    rw [e req h1, e req' h2]

end Kanzi.BlockGen
