/-
Agreement of the total ANS decoder model with the proved order-1 decoder (`Model/Ans1.lean`,
`Proofs/Ans1*.lean`) on encoder output: chunk, header, block.  Core Lean only.
-/
import Kanzi.Proofs.AnsDecAgree

namespace Kanzi.AnsDec
open Kanzi.Bits Kanzi.EntSmall Kanzi.Ans1

/-! ### A. the decoding part of `decodeChunkV2` (order 1) on encoder output -/

theorem enc1Round_junk (tabs : Array (Array EncSym)) (c p : Quad) (a b cc d : Nat) (o J : List Nat) :
    enc1Round tabs c p ⟨a, b, cc, d, o ++ J⟩
      = ⟨(enc1Round tabs c p ⟨a, b, cc, d, o⟩).st0, (enc1Round tabs c p ⟨a, b, cc, d, o⟩).st1,
         (enc1Round tabs c p ⟨a, b, cc, d, o⟩).st2, (enc1Round tabs c p ⟨a, b, cc, d, o⟩).st3,
         (enc1Round tabs c p ⟨a, b, cc, d, o⟩).out ++ J⟩ := by
  simp only [enc1Round, List.append_assoc]

theorem encRows_junk (tabs : Array (Array EncSym)) (J : List Nat) (s : EncSt) : ∀ (rows : List Quad) (p : Quad),
    encRows tabs p rows ⟨s.st0, s.st1, s.st2, s.st3, s.out ++ J⟩
      = ⟨(encRows tabs p rows s).st0, (encRows tabs p rows s).st1, (encRows tabs p rows s).st2,
         (encRows tabs p rows s).st3, (encRows tabs p rows s).out ++ J⟩ := by
  intro rows
  induction rows with
  | nil => intro p; rfl
  | cons r rs ih =>
    intro p
    simp only [encRows]
    rw [ih r, enc1Round_junk]

/-- the contexts the encoder's tables cover are good: chain form -/
theorem goodChain_of_rowsOk (lr : Nat) (f2s : Array Nat) (syms : Array DecSym) (fsE fsD : List (List Nat))
    (hgood : ∀ k, (fsD.getD k []).sum = 2 ^ lr → CtxGood lr f2s syms fsD k) :
    ∀ (rows : List Quad) (p : Quad), RowsOk fsE fsD lr p rows → GoodChain lr f2s syms fsD p rows := by
  intro rows
  induction rows with
  | nil => intro p _; trivial
  | cons r rs ih =>
    intro p h
    obtain ⟨hq, hrest⟩ := h
    obtain ⟨⟨e0, m0, _⟩, ⟨e1, m1, _⟩, ⟨e2, m2, _⟩, ⟨e3, m3, _⟩⟩ := hq
    exact ⟨⟨hgood _ (by rw [e0]; exact m0), hgood _ (by rw [e1]; exact m1), hgood _ (by rw [e2]; exact m2),
      hgood _ (by rw [e3]; exact m3)⟩, ih r hrest⟩

/-- **the decoding part of `decodeChunkV2` (order 1) on encoder output**: the payload in the buffer
    followed by any bytes `J`; every context the chunk walks through has been built by the header -/
theorem chunkBody_enc1 (blk : List Nat) (fsE fsD : List (List Nat)) (lr : Nat) (hlr : 8 ≤ lr ∧ lr ≤ 15)
    (hok : ChunkOk fsE fsD lr blk)
    (f2s : Array Nat) (syms : Array DecSym) (buf : Array Nat) (J : List Nat)
    (hgood : ∀ k, (fsD.getD k []).sum = 2 ^ lr → CtxGood lr f2s syms fsD k)
    (hf : 256 * 2 ^ lr ≤ f2s.size) (hs : 256 * 256 ≤ syms.size)
    (hb : Bytes buf) (hL : buf.toList = (ans1Final blk (mkEncTabs fsE lr)).out ++ J)
    (hbuf : 2 * blk.length ≤ buf.size) (q : Pre)
    (h0 : q.st0 = (ans1Final blk (mkEncTabs fsE lr)).st0) (h1 : q.st1 = (ans1Final blk (mkEncTabs fsE lr)).st1)
    (h2 : q.st2 = (ans1Final blk (mkEncTabs fsE lr)).st2) (h3 : q.st3 = (ans1Final blk (mkEncTabs fsE lr)).st3) :
    chunkBody 1 lr blk.length f2s syms buf q = .ok blk := by
  have hJ : ∀ b ∈ J, b < 256 := fun b hbJ => hb.mem_toList b (by rw [hL]; exact List.mem_append_right _ hbJ)
  have hinit : ValidSt ⟨ansTop, ansTop, ansTop, ansTop, blk.drop (4 * (blk.length / 4)) ++ J⟩ := by
    refine ⟨stOk_top, stOk_top, stOk_top, stOk_top, ?_⟩
    intro b hb'
    rcases List.mem_append.mp hb' with h | h
    · exact hok.1 b (List.mem_of_mem_drop h)
    · exact hJ b h
  obtain ⟨v, d, _⟩ := rows_rt fsE fsD lr hlr _ hinit _ _ hok.2
  rw [rowsOf_length] at d
  have hj := encRows_junk (mkEncTabs fsE lr) J ⟨ansTop, ansTop, ansTop, ansTop, blk.drop (4 * (blk.length / 4))⟩
    (rowsOf blk.toArray (blk.length / 4)) (0, 0, 0, 0)
  simp only at hj
  rw [hj, ← ans1Final_eq] at v d
  generalize hSS : ans1Final blk (mkEncTabs fsE lr) = S at *
  have hb32 : ∀ x, StOk x → x < 2 ^ 32 := fun x h => by unfold StOk at h; omega
  have hchain := goodChain_of_rowsOk lr f2s syms fsE fsD hgood _ _ hok.2
  simp only [toDec] at d
  have hd0 : dec1Rounds (mkDecTabs fsD lr) lr (rowsOf blk.toArray (blk.length / 4)).length (0, 0, 0, 0)
      ⟨S.st0, S.st1, S.st2, S.st3, buf.toList.drop 0⟩
      = (rowsOf blk.toArray (blk.length / 4),
         ⟨ansTop, ansTop, ansTop, ansTop, blk.drop (4 * (blk.length / 4)) ++ J⟩) := by
    rw [rowsOf_length, List.drop_zero, hL]; exact d
  obtain ⟨y0, y1, y2, y3, n', hr, hS, _, hn'⟩ := rounds1_agree lr f2s syms buf fsD hf hs hb
    (rowsOf blk.toArray (blk.length / 4)) (0, 0, 0, 0) S.st0 S.st1 S.st2 S.st3 0 _ hd0 hchain
    (hb32 _ v.h0) (hb32 _ v.h1) (hb32 _ v.h2) (hb32 _ v.h3) (by rw [rowsOf_length]; omega)
  rw [rowsOf_length] at hr hn'
  simp only [DecSt.mk.injEq] at hS
  obtain ⟨_, _, _, _, hws⟩ := hS
  unfold chunkBody
  simp only
  rw [if_neg (by decide), h0, h1, h2, h3, hr]
  simp only [AnsDec.R.bind]
  have hlenL : buf.toList.length = buf.size := Array.length_toList
  have hdl : (List.drop n' buf.toList).length = buf.size - n' := by
    rw [List.length_drop, hlenL]
  have htl : (blk.drop (4 * (blk.length / 4))).length = blk.length % 4 := by
    rw [List.length_drop]; omega
  rw [← hws, List.length_append, htl] at hdl
  rw [tailBytes_eq buf _ _ (by omega)]
  simp only
  rw [← hws, List.take_left' htl, quartersOf_rowsOf blk (blk.length / 4) (by omega), List.take_append_drop]

/-! ### B. `decodeHeader` (order 1) against `ans1DecodeCtxs` on ANY input -/

theorem TabRel.frame {f2s f2s' : Array Nat} {syms syms' : Array DecSym} {base sbase lr : Nat}
    {T : List (Nat × DecSym)} (h : TabRel f2s syms base sbase T) (hok : TabOk lr T)
    (hf : ∀ x, x < base + 2 ^ lr → f2s'.getD x 0 = f2s.getD x 0)
    (hs : ∀ y, y < sbase + 256 → syms'.getD y d0 = syms.getD y d0) : TabRel f2s' syms' base sbase T := by
  intro j e he
  obtain ⟨h1, h2⟩ := h j e he
  have hj : j < T.length := by
    rcases Nat.lt_or_ge j T.length with hlt | hge
    · exact hlt
    · rw [List.getElem?_eq_none hge] at he; cases he
  rw [hok.len] at hj
  have he1 := (hok.ent j e he).2.2
  rw [hf _ (by omega), hs _ (by omega)]
  exact ⟨h1, h2⟩

theorem getD_cons_succ' (t : List Nat × List Nat) (ts : List (List Nat × List Nat)) (j : Nat) :
    (t :: ts).getD (j + 1) ([], []) = ts.getD j ([], []) := by
  simp [List.getD_eq_getElem?_getD]

theorem getD_cons_zero' (t : List Nat × List Nat) (ts : List (List Nat × List Nat)) :
    (t :: ts).getD 0 ([], []) = t := by
  simp [List.getD_eq_getElem?_getD]

/-- what the context loop of `decodeHeader` leaves, against the proved model's `ans1DecodeCtxs` -/
theorem hdrCtxs_agree (lr : Nat) : ∀ (prevs : List (List Nat)) (k res a0 : Nat) (f2s : Array Nat)
    (syms : Array DecSym) (bs : Bits) (ts : List (List Nat × List Nat)) (r : Bits),
    ans1DecodeCtxs lr prevs bs = some (ts, r) →
    (k + prevs.length) * 256 ≤ syms.size → (k + prevs.length) * 2 ^ lr ≤ f2s.size → Bytes f2s →
    ∃ hd, hdrCtxs lr prevs.length k res a0 f2s syms bs = .ok hd ∧
      hd.res = res + (ts.map (·.1.length)).sum ∧ hd.rest = r ∧ ts.length = prevs.length ∧
      hd.f2s.size = f2s.size ∧ hd.syms.size = syms.size ∧ Bytes hd.f2s ∧
      (∀ x, x < k * 2 ^ lr → hd.f2s.getD x 0 = f2s.getD x 0) ∧
      (∀ y, y < k * 256 → hd.syms.getD y d0 = syms.getD y d0) ∧
      (∀ j, j < ts.length → (ts.getD j ([], [])).1 ≠ [] →
        TabRel hd.f2s hd.syms ((k + j) * 2 ^ lr) ((k + j) * 256) (decTblL lr 0 0 (ts.getD j ([], [])).2) ∧
        (ts.getD j ([], [])).2.length = 256 ∧ (ts.getD j ([], [])).2.sum = 2 ^ lr) := by
  intro prevs
  induction prevs with
  | nil =>
    intro k res a0 f2s syms bs ts r h _ _ hb
    simp only [ans1DecodeCtxs, Option.some.injEq, Prod.mk.injEq] at h
    obtain ⟨rfl, rfl⟩ := h
    exact ⟨⟨res, a0, f2s, syms, bs⟩, rfl, by simp, rfl, rfl, rfl, rfl, hb, fun _ _ => rfl, fun _ _ => rfl,
      by intro j hj; simp at hj⟩
  | cons p ps ih =>
    intro k res a0 f2s syms bs ts r h hsy hfs hb
    simp only [List.length_cons] at hsy hfs
    have hk1 : (k + 1) * 256 ≤ syms.size :=
      Nat.le_trans (Nat.mul_le_mul_right 256 (by omega : k + 1 ≤ k + (ps.length + 1))) hsy
    have hk2 : (k + 1) * 2 ^ lr ≤ f2s.size :=
      Nat.le_trans (Nat.mul_le_mul_right (2 ^ lr) (by omega : k + 1 ≤ k + (ps.length + 1))) hfs
    have e1 : (k + 1) * 2 ^ lr = k * 2 ^ lr + 2 ^ lr := by rw [Nat.add_mul, Nat.one_mul]
    have e2 : (k + 1) * 256 = k * 256 + 256 := by rw [Nat.add_mul, Nat.one_mul]
    have hp : 0 < 2 ^ lr := Nat.pow_pos (by decide)
    simp only [ans1DecodeCtxs] at h
    cases hc : ans1DecodeCtx p lr bs with
    | none => rw [hc] at h; cases h
    | some q =>
      obtain ⟨t, r1⟩ := q
      rw [hc] at h
      simp only at h
      cases hrec : ans1DecodeCtxs lr ps r1 with
      | none => rw [hrec] at h; cases h
      | some q2 =>
        obtain ⟨ts', r2⟩ := q2
        rw [hrec] at h
        simp only [Option.some.injEq, Prod.mk.injEq] at h
        obtain ⟨rfl, rfl⟩ := h
        unfold ans1DecodeCtx at hc
        cases hd : decodeAlphabet bs with
        | none => rw [hd] at hc; cases hc
        | some q3 =>
          obtain ⟨a, ra⟩ := q3
          rw [hd] at hc
          simp only at hc
          by_cases ha0 : a.length = 0
          · -- empty alphabet: `continue`
            rw [if_pos ha0] at hc
            simp only [Option.some.injEq, Prod.mk.injEq] at hc
            obtain ⟨rfl, rfl⟩ := hc
            obtain ⟨hd', hh, hres, hrest, hlen, hfsz, hssz, hby, hfr, hsr, htab⟩ :=
              ih (k + 1) (res + a.length) (if k = 0 then a.headD 0 else a0) f2s syms ra ts' r2 hrec
                (by rw [show k + 1 + ps.length = k + (ps.length + 1) by omega]; exact hsy)
                (by rw [show k + 1 + ps.length = k + (ps.length + 1) by omega]; exact hfs) hb
            refine ⟨hd', ?_, ?_, hrest, by simp [hlen], hfsz, hssz, hby, ?_, ?_, ?_⟩
            · simp only [List.length_cons, hdrCtxs, hdrCtx, hd, if_pos ha0, AnsDec.R.bind]
              exact hh
            · rw [hres]; simp [ha0]
            · intro x hx; exact hfr x (by rw [e1]; omega)
            · intro y hy; exact hsr y (by rw [e2]; exact Nat.lt_add_right 256 hy)
            · intro j hj hne
              cases j with
              | zero => rw [getD_cons_zero'] at hne; exact absurd rfl hne
              | succ j =>
                rw [getD_cons_succ'] at hne ⊢
                have := htab j (by simpa using hj) hne
                rw [show k + 1 + j = k + (j + 1) by omega] at this
                exact this
          · rw [if_neg ha0] at hc
            cases hft : decodeFreqTable a lr ra with
            | none => rw [hft] at hc; cases hc
            | some q4 =>
              obtain ⟨tbl, rt⟩ := q4
              rw [hft] at hc
              simp only [Option.some.injEq, Prod.mk.injEq] at hc
              obtain ⟨rfl, rfl⟩ := hc
              obtain ⟨hs, hlt⟩ := decodeAlphabet_facts bs a ra hd
              have hne : a ≠ [] := fun e => ha0 (by rw [e]; rfl)
              have hfr : freqTableR a lr ra = .ok (tbl, rt) :=
                toOpt_ok _ _ (by rw [freqTableR_toOpt]; exact hft)
              obtain ⟨htl, hts⟩ := (freqTableR_safe a lr ra hs hlt hne).of_ok hfr
              simp only at htl hts
              obtain ⟨m, hm, mfr, msr, mtab⟩ := mapLoop_spec (k * 2 ^ lr) (k * 256) lr tbl 0 0 f2s syms
                (by omega) (by omega) (by rw [htl, Nat.add_zero, ← e2]; exact hk1)
              have hmsafe := mapLoop_safe (k * 2 ^ lr) (k * 256) lr tbl 0 0 f2s syms (by omega) (by omega) hb
              rw [hm] at hmsafe
              simp only [R.Safe] at hmsafe
              obtain ⟨hd', hh, hres, hrest, hlen, hfsz, hssz, hby, hfr', hsr', htab⟩ :=
                ih (k + 1) (res + a.length) (if k = 0 then a.headD 0 else a0) m.1 m.2 rt ts' r2 hrec
                  (by rw [hmsafe.2.1, show k + 1 + ps.length = k + (ps.length + 1) by omega]; exact hsy)
                  (by rw [hmsafe.1, show k + 1 + ps.length = k + (ps.length + 1) by omega]; exact hfs) hmsafe.2.2
              have hokT : TabOk lr (decTblL lr 0 0 tbl) := decTblL_ok lr tbl (by omega) hts
              refine ⟨hd', ?_, ?_, hrest, by simp [hlen], by rw [hfsz, hmsafe.1], by rw [hssz, hmsafe.2.1], hby,
                ?_, ?_, ?_⟩
              · simp only [List.length_cons, hdrCtxs, hdrCtx, hd, if_neg ha0, hfr, AnsDec.R.bind]
                rw [if_neg (by omega), if_neg (by omega), hm]
                exact hh
              · rw [hres]; simp; omega
              · intro x hx
                rw [hfr' x (by rw [e1]; omega), mfr x (by omega)]
              · intro y hy
                rw [hsr' y (by rw [e2]; exact Nat.lt_add_right 256 hy), msr y (Or.inl (by rw [Nat.add_zero]; exact hy))]
              · intro j hj hne'
                cases j with
                | zero =>
                  rw [getD_cons_zero']
                  simp only [Nat.add_zero]
                  refine ⟨?_, htl, hts⟩
                  have hrel0 : TabRel m.1 m.2 (k * 2 ^ lr) (k * 256) (decTblL lr 0 0 tbl) := by
                    intro j e he
                    have := mtab j e he
                    simpa using this
                  exact hrel0.frame hokT (fun x hx => hfr' x (by rw [e1]; exact hx))
                    (fun y hy => hsr' y (by rw [e2]; exact hy))
                | succ j =>
                  rw [getD_cons_succ'] at hne' ⊢
                  have := htab j (by simpa using hj) hne'
                  rw [show k + 1 + j = k + (j + 1) by omega] at this
                  exact this

theorem dimOf_one : dimOf 1 = 256 := rfl

/-- **`decodeHeader` (order 1) of the total model = `ans1DecodeHeader` of the proved model, on any
    input the latter accepts**: every context with a non-empty alphabet has its slot table in the
    flat `f2s` / `symbols` -/
theorem hdr1_agree (prev : List (List Nat)) (hpl : prev.length = 256) (bs : Bits) (lr : Nat)
    (ts : List (List Nat × List Nat)) (r : Bits)
    (h : ans1DecodeHeader prev bs = some ((lr, ts), r))
    (f2s : Array Nat) (syms : Array DecSym) (hsy : 256 * 256 ≤ syms.size) (hb : Bytes f2s) :
    ∃ l r0 hd, readBits 3 bs = some (l, r0) ∧ lr = 8 + l ∧ hdrBody 256 lr f2s syms r0 = .ok hd ∧
      hd.res = (ts.map (·.1.length)).sum ∧ hd.rest = r ∧ ts.length = 256 ∧
      256 * 2 ^ lr ≤ hd.f2s.size ∧ hd.syms.size = syms.size ∧ Bytes hd.f2s ∧
      (∀ j, j < 256 → (ts.getD j ([], [])).1 ≠ [] →
        TabRel hd.f2s hd.syms (j * 2 ^ lr) (j * 256) (decTblL lr 0 0 (ts.getD j ([], [])).2) ∧
        (ts.getD j ([], [])).2.length = 256 ∧ (ts.getD j ([], [])).2.sum = 2 ^ lr) := by
  unfold ans1DecodeHeader at h
  cases h3 : readBits 3 bs with
  | none => rw [h3] at h; cases h
  | some q =>
    obtain ⟨l, r0⟩ := q
    rw [h3] at h
    simp only at h
    cases hc : ans1DecodeCtxs (8 + l) prev r0 with
    | none => rw [hc] at h; cases h
    | some q2 =>
      obtain ⟨ts', r2⟩ := q2
      rw [hc] at h
      simp only [Option.some.injEq, Prod.mk.injEq] at h
      obtain ⟨⟨rfl, rfl⟩, rfl⟩ := h
      have hfa : 256 * 2 ^ (8 + l) ≤ (f2sAlloc 256 (8 + l) f2s).size := by
        rw [f2sAlloc_size]; exact f2sSizeAfter_ge 256 (8 + l) f2s.size
      obtain ⟨hd, hh, hres, hrest, hlen, hfsz, hssz, hby, _, _, htab⟩ :=
        hdrCtxs_agree (8 + l) prev 0 0 0 (f2sAlloc 256 (8 + l) f2s) syms r0 ts' r2 hc
          (by rw [Nat.zero_add, hpl]; exact hsy) (by rw [Nat.zero_add, hpl]; exact hfa)
          (f2sAlloc_bytes 256 (8 + l) f2s hb)
      rw [hpl] at hh hlen
      refine ⟨l, r0, hd, rfl, rfl, hh, by rw [hres, Nat.zero_add], hrest, hlen, by rw [hfsz]; exact hfa, hssz,
        hby, ?_⟩
      intro j hj hne
      have := htab j (by rw [hlen]; exact hj) hne
      rw [Nat.zero_add] at this
      exact this

/-- `decodeChunkV2` of the total model (order 1) on an encoded chunk, whatever the buffer held -/
theorem stepV2_enc1 (c : List Nat) (fsE fsD : List (List Nat)) (lr : Nat) (hlr : 8 ≤ lr ∧ lr ≤ 15)
    (hok : ChunkOk fsE fsD lr c) (hsz : c.length < 2 ^ 26)
    (h : Hdr) (Rst : Bits) (hrest : h.rest = ans1EncodeChunk c (mkEncTabs fsE lr) ++ Rst)
    (hgood : ∀ k, (fsD.getD k []).sum = 2 ^ lr → CtxGood lr h.f2s h.syms fsD k)
    (hf : 256 * 2 ^ lr ≤ h.f2s.size) (hs : 256 * 256 ≤ h.syms.size)
    (buf : Array Nat) (hb : Bytes buf) (rem : Nat) (acc : List Nat) (bs0 : Bits) (fsz : Nat) :
    ∃ buf', stepV2 1 lr c.length rem acc h buf bs0 fsz = .next rem (acc ++ c) h.syms h.f2s buf' Rst ∧ Bytes buf' := by
  obtain ⟨v, _, hpl⟩ := final1_facts c fsE fsD lr hlr hok
  unfold ans1PayloadLen at hpl
  have hb32 : ∀ x, StOk x → x < 2 ^ 32 := fun x h => by unfold StOk at h; omega
  have hpre : chunkPre h.rest = .ok ⟨(ans1Final c (mkEncTabs fsE lr)).out.length, (ans1Final c (mkEncTabs fsE lr)).st0,
      (ans1Final c (mkEncTabs fsE lr)).st1, (ans1Final c (mkEncTabs fsE lr)).st2, (ans1Final c (mkEncTabs fsE lr)).st3,
      ofBytes (ans1Final c (mkEncTabs fsE lr)).out ++ Rst⟩ := by
    rw [hrest]
    unfold ans1EncodeChunk chunkPre
    simp only [List.append_assoc]
    rw [varint_roundtrip _ (by omega)]
    simp only
    rw [if_neg (by omega)]
    simp only [rBits, readBits_natBits_lt _ _ _ (hb32 _ v.h0), readBits_natBits_lt _ _ _ (hb32 _ v.h1),
      readBits_natBits_lt _ _ _ (hb32 _ v.h2), readBits_natBits_lt _ _ _ (hb32 _ v.h3), AnsDec.R.bind]
  generalize hSS : ans1Final c (mkEncTabs fsE lr) = S at *
  have hge := bufSizeAfter_ge c.length buf.size
  have hba : (bufAlloc c.length buf).size = bufSizeAfter c.length buf.size := bufAlloc_size _ _
  have hload : ∃ pl, loadPayload S.out.length (bufAlloc c.length buf) (ofBytes S.out ++ Rst) = .ok pl := by
    unfold loadPayload
    rw [if_neg (by omega), readBytes_ofBytes _ _ v.bytes]
    exact ⟨_, rfl⟩
  obtain ⟨pl, hpl'⟩ := hload
  obtain ⟨bytes, J, hrb, hlist, hbytes⟩ := loadPayload_list _ _ _ pl hpl' (bufAlloc_bytes _ _ hb)
  rw [readBytes_ofBytes _ _ v.bytes] at hrb
  simp only [Option.some.injEq, Prod.mk.injEq] at hrb
  have hsize : pl.1.size = bufSizeAfter c.length buf.size := by rw [loadPayload_ok _ _ _ _ hpl', hba]
  have hbody := chunkBody_enc1 c fsE fsD lr hlr hok h.f2s h.syms pl.1 J hgood hf hs hbytes
    (by rw [hSS, hlist, ← hrb.1]) (by omega)
    ⟨S.out.length, S.st0, S.st1, S.st2, S.st3, ofBytes S.out ++ Rst⟩ (by rw [hSS]) (by rw [hSS]) (by rw [hSS]) (by rw [hSS])
  refine ⟨pl.1, ?_, hbytes⟩
  unfold stepV2
  simp only [hpre, hpl', hbody]
  rw [← hrb.2]

theorem freshTables_getD_sum (k : Nat) : (freshTables.getD k []).sum = 0 := by
  unfold freshTables
  rw [List.getD_eq_getElem?_getD, List.getElem?_replicate]
  split
  · simp only [Option.getD_some]; exact sum_replicate_zero 256
  · rfl

theorem freshTables_length : freshTables.length = 256 := by
  unfold freshTables; exact List.length_replicate

theorem getD_eq_getElem' {α : Type} (l : List α) (d : α) (i : Nat) (h : i < l.length) : l.getD i d = l[i] := by
  simp [List.getD_eq_getElem?_getD, h]

theorem mergeTabs_getElem (prev : List (List Nat)) (ts : List (List Nat × List Nat)) (k : Nat)
    (h1 : k < (mergeTabs prev ts).length) (h2 : k < prev.length) (h3 : k < ts.length) :
    (mergeTabs prev ts)[k] = mergeCtx prev[k] ts[k] := by
  simp [mergeTabs]

theorem two_pow_ne_zero (lr : Nat) : 2 ^ lr ≠ 0 := Nat.ne_of_gt (Nat.pow_pos (by decide))

/-- the chunk loop of the total model (order 1) on the output of `ans1EncodeChunks`, from ANY
    decoder object -/
theorem readLoop_enc1 (cs lr v : Nat) (hlr : 8 ≤ lr ∧ lr ≤ 15) (hcs0 : 0 < cs) (hcs : cs < 2 ^ 26) (hv : v ≠ 1) :
    ∀ (fuel : Nat) (blk : List Nat), blk.length ≤ fuel → (∀ b ∈ blk, b < 256) →
    ∃ enc, ans1EncodeChunks fuel cs lr blk = some enc ∧
      ∀ (rest : Bits) (fuel' : Nat) (acc : List Nat) (syms : Array DecSym) (f2s buf : Array Nat),
        256 * 256 ≤ syms.size → Bytes f2s → Bytes buf → (blk.length + cs - 1) / cs + 1 ≤ fuel' →
        (readLoop ⟨1, cs, v⟩ fuel' blk.length acc syms f2s buf (enc ++ rest)).cls = .ret (acc ++ blk).length false ∧
        (readLoop ⟨1, cs, v⟩ fuel' blk.length acc syms f2s buf (enc ++ rest)).out = acc ++ blk ∧
        (readLoop ⟨1, cs, v⟩ fuel' blk.length acc syms f2s buf (enc ++ rest)).rest = rest := by
  intro fuel
  induction fuel with
  | zero =>
    intro blk hl _
    have : blk = [] := List.length_eq_zero_iff.mp (by omega)
    subst this
    refine ⟨[], rfl, ?_⟩
    intro rest fuel' acc syms f2s buf _ _ _ hfu
    cases fuel' with
    | zero => exact (Nat.not_succ_le_zero _ hfu).elim
    | succ k => simp [readLoop]
  | succ fuel ih =>
    intro blk hl hb
    by_cases h0 : blk.length = 0
    · have : blk = [] := List.length_eq_zero_iff.mp h0
      subst this
      refine ⟨[], rfl, ?_⟩
      intro rest fuel' acc syms f2s buf _ _ _ hfu
      cases fuel' with
      | zero => exact (Nat.not_succ_le_zero _ hfu).elim
      | succ k => simp [readLoop]
    · have hclen : (blk.take cs).length = min cs blk.length := List.length_take
      have hcne : blk.take cs ≠ [] := by
        intro h
        rw [h] at hclen
        simp only [List.length_nil] at hclen
        omega
      obtain ⟨ts, hts, htl, hhdr, hsum, hchunk, _⟩ := oneChunk1_facts (blk.take cs) lr hlr hcne
        (fun b h => hb b (List.mem_of_mem_take h))
      obtain ⟨tl, htlenc, hdec⟩ := ih (blk.drop cs) (by rw [List.length_drop]; omega)
        (fun b h => hb b (List.mem_of_mem_drop h))
      have hdl : blk.length - min cs blk.length = (blk.drop cs).length := by
        rw [List.length_drop]; omega
      refine ⟨ans1EncodeHeader ts lr ++ ans1EncodeChunk (blk.take cs) (mkEncTabs (ts.map (·.2)) lr) ++ tl, ?_, ?_⟩
      · simp only [ans1EncodeChunks, if_neg h0, ans1EncodeOneChunk, hts, htlenc]
      · intro rest fuel' acc syms f2s buf hsy hbf hbb hfu
        cases fuel' with
        | zero => exact (Nat.not_succ_le_zero _ hfu).elim
        | succ k =>
          have hk := fuel_step cs blk.length k hcs0 h0 hfu
          rw [hdl] at hk
          have hfl : freshTables.length = 256 := freshTables_length
          have hzP : ∀ kk, (freshTables.getD kk []).sum = 0 := freshTables_getD_sum
          generalize freshTables = P at hfl hzP
          -- the header, through the proved model started from fresh tables
          have hH := header1_rt lr hlr ts P (by omega) hhdr
            (ans1EncodeChunk (blk.take cs) (mkEncTabs (ts.map (·.2)) lr) ++ (tl ++ rest))
          obtain ⟨l, r0, hd, h3, hlr', hbody, hres, hrest, hmlen, hfsz, hssz, hbf', htab⟩ :=
            hdr1_agree P hfl _ _ _ _ hH f2s syms hsy hbf
          subst hlr'
          have hA0 : ¬ hd.res = 0 := by
            rw [hres, alph_sum_merge ts P (by omega)]; exact hsum
          have hok := hchunk P hfl
          -- every context whose table sums to the scale has been built by this header
          have hgood : ∀ kk, (((mergeTabs P ts).map (·.2)).getD kk []).sum = 2 ^ (8 + l) →
              CtxGood (8 + l) hd.f2s hd.syms ((mergeTabs P ts).map (·.2)) kk := by
            intro kk hsm
            have hkk : kk < 256 := by
              rcases Nat.lt_or_ge kk 256 with h | h
              · exact h
              · have hn : ((mergeTabs P ts).map (·.2))[kk]? = none :=
                  List.getElem?_eq_none (by rw [List.length_map, hmlen]; exact h)
                rw [List.getD_eq_getElem?_getD, hn] at hsm
                exact absurd hsm.symm (two_pow_ne_zero _)
            have hne : ((mergeTabs P ts).getD kk ([], [])).1 ≠ [] := by
              intro hnil
              have hk1 : kk < (mergeTabs P ts).length := by omega
              have hk2 : kk < P.length := by omega
              have hk3 : kk < ts.length := by omega
              have e : (mergeTabs P ts).getD kk ([], []) = (mergeTabs P ts)[kk] := getD_eq_getElem' _ _ _ hk1
              have e2 : (mergeTabs P ts)[kk] = mergeCtx P[kk] ts[kk] := mergeTabs_getElem P ts kk hk1 hk2 hk3
              have hfst := mergeCtx_fst P[kk] ts[kk]
              rw [map_snd_getD, e, e2] at hsm
              rw [e, e2, hfst] at hnil
              unfold mergeCtx at hsm
              rw [if_pos (by rw [hnil]; rfl)] at hsm
              simp only at hsm
              have hz := hzP kk
              have e3 : P.getD kk [] = P[kk] := getD_eq_getElem' _ _ _ hk2
              rw [e3] at hz
              rw [hz] at hsm
              exact two_pow_ne_zero _ hsm.symm
            obtain ⟨hrel, hlen256, hsum2⟩ := htab kk hkk hne
            rw [← map_snd_getD] at hrel hlen256 hsum2
            exact ⟨hkk, hrel, decTblL_ok _ _ (by omega) hsum2⟩
          simp only [readLoop, if_neg h0, List.append_assoc]
          unfold chunkStep
          simp only [h3, dimOf_one, hbody, if_neg hA0]
          rw [if_neg (by intro hh; exact absurd hh.1 (by decide)), if_neg hv]
          have hszc : (blk.take cs).length < 2 ^ 26 := by omega
          obtain ⟨buf', hstep, hbb'⟩ := stepV2_enc1 (blk.take cs) (ts.map (·.2)) ((mergeTabs P ts).map (·.2))
            (8 + l) hlr hok hszc hd (tl ++ rest) hrest hgood hfsz (by omega) buf hbb
            (blk.length - min cs blk.length) acc
            (ans1EncodeHeader ts (8 + l) ++ (ans1EncodeChunk (blk.take cs) (mkEncTabs (ts.map (·.2)) (8 + l)) ++ (tl ++ rest)))
            (f2sSizeAfter 256 (8 + l) f2s.size)
          rw [hclen] at hstep
          simp only [hstep]
          rw [hdl]
          obtain ⟨g1, g2, g3⟩ := hdec rest k (acc ++ blk.take cs) hd.syms hd.f2s buf' (by omega) hbf' hbb' hk
          rw [List.append_assoc, List.take_append_drop] at g1 g2
          exact ⟨g1, g2, g3⟩

/-- **the whole order-1 block.**  `ANSRangeEncoder.Write` (order 1) then `Read` of the TOTAL decoder
    model, from any decoder object (stale tables of any earlier chunk or block are never consulted) -/
theorem read_enc1 (blk : List Nat) (cs lr v : Nat) (hlr : 8 ≤ lr ∧ lr ≤ 15) (hcs0 : 0 < cs) (hcs : cs < 2 ^ 26)
    (hv : v ≠ 1) (hb : ∀ b ∈ blk, b < 256) :
    ∃ enc, ans1Encode blk cs lr = some enc ∧
      ∀ (rest : Bits) (s : St), 256 * 256 ≤ s.syms.size → Bytes s.f2s → Bytes s.buf →
        (read ⟨1, cs, v⟩ s (enc ++ rest) blk.length).cls = .ret blk.length false ∧
        (read ⟨1, cs, v⟩ s (enc ++ rest) blk.length).out = blk ∧
        (read ⟨1, cs, v⟩ s (enc ++ rest) blk.length).rest = rest := by
  unfold ans1Encode
  by_cases h32 : blk.length ≤ 32
  · simp only [if_pos h32]
    refine ⟨_, rfl, ?_⟩
    intro rest s _ _ _
    unfold read
    rw [if_pos h32, arrayBits_eq, List.take_of_length_le (Nat.le_refl _), readBytes_ofBytes blk rest hb]
    exact ⟨rfl, rfl, rfl⟩
  · simp only [if_neg h32]
    obtain ⟨enc, he, hdec⟩ := readLoop_enc1 cs lr v hlr hcs0 hcs hv blk.length blk (Nat.le_refl _) hb
    refine ⟨enc, he, ?_⟩
    intro rest s hsy hbf hbb
    unfold read
    rw [if_neg h32]
    have := hdec rest (chunksOf cs blk.length) [] s.syms s.f2s s.buf hsy hbf hbb (chunksOf_enough _ _ hcs0)
    simpa using this

/-! ### C. `this.buffer` always holds bytes (needed to chain `Read` calls) -/

def StepBuf : Step → Prop
  | .done r => ∀ n, r.cls = .ret n false → Bytes r.st.buf
  | .next _ _ _ _ b _ => Bytes b

theorem readBytes_lt (n : Nat) (bs : Bits) (bytes : List Nat) (r : Bits) (h : readBytes n bs = some (bytes, r)) :
    ∀ b ∈ bytes, b < 256 := by
  unfold readBytes at h
  split at h
  · simp only [Option.some.injEq, Prod.mk.injEq] at h
    rw [← h.1]; exact bytesOf_lt _ _
  · cases h

theorem stepV2_buf (order lr len rem : Nat) (acc : List Nat) (h : Hdr) (buf : Array Nat) (bs0 : Bits) (fsz : Nat)
    (hb : Bytes buf) : StepBuf (stepV2 order lr len rem acc h buf bs0 fsz) := by
  unfold stepV2
  simp only
  split
  · intro n hn; simp at hn
  · split
    · rename_i pl hl
      obtain ⟨_, _, _, _, hby⟩ := loadPayload_list _ _ _ pl hl (bufAlloc_bytes _ _ hb)
      split
      · exact hby
      · intro n hn; simp at hn
    · intro n hn; simp at hn
  · intro n hn; simp at hn

theorem stepV1_buf (order lr len rem : Nat) (acc : List Nat) (h : Hdr) (buf : Array Nat) (bs0 : Bits) (fsz : Nat)
    (hb : Bytes buf) : StepBuf (stepV1 order lr len rem acc h buf bs0 fsz) := by
  unfold stepV1
  simp only
  cases hq : chunkPreV1 order len h.rest with
  | ok q =>
    simp only
    split
    · exact hb
    · have hba : Bytes (bufAllocV1 q.sz buf) := by
        unfold bufAllocV1
        split
        · exact Bytes.replicate _
        · exact hb
      cases hl : loadPayloadV1 q.sz (bufAllocV1 q.sz buf) q.rest with
      | ok pl =>
        simp only
        unfold loadPayloadV1 at hl
        cases hr : readBytes q.sz q.rest with
        | none => rw [hr] at hl; cases hl
        | some qq =>
          rw [hr] at hl
          simp only [R.ok.injEq] at hl
          split
          · rw [← hl]
            exact Bytes.writePrefix _ _ _ (readBytes_lt _ _ _ _ hr) hba
          · intro n hn; simp at hn
      | err => intro n hn; simp at hn
      | eos => intro n hn; simp at hn
      | fault => intro n hn; simp at hn
      | overrun => intro n hn; simp at hn
  | err => intro n hn; simp at hn
  | eos => intro n hn; simp at hn
  | fault => intro n hn; simp at hn
  | overrun => intro n hn; simp at hn

theorem chunkStep_buf (p : Params) (count : Nat) (acc : List Nat) (syms : Array DecSym) (f2s buf : Array Nat)
    (bs : Bits) (hb : Bytes buf) : StepBuf (chunkStep p count acc syms f2s buf bs) := by
  unfold chunkStep
  simp only
  split
  · intro n hn; simp at hn
  · split
    · split
      · intro n _; exact hb
      · split
        · exact hb
        · split
          · exact stepV1_buf _ _ _ _ _ _ _ _ _ hb
          · exact stepV2_buf _ _ _ _ _ _ _ _ _ hb
    · intro n hn; simp at hn
    · intro n hn; simp at hn

theorem readLoop_buf (p : Params) : ∀ (fuel count : Nat) (acc : List Nat) (syms : Array DecSym)
    (f2s buf : Array Nat) (bs : Bits), Bytes buf → ∀ n,
    (readLoop p fuel count acc syms f2s buf bs).cls = .ret n false →
    Bytes (readLoop p fuel count acc syms f2s buf bs).st.buf := by
  intro fuel
  induction fuel with
  | zero => intro count acc syms f2s buf bs _ n h; simp [readLoop] at h
  | succ fuel ih =>
    intro count acc syms f2s buf bs hb n h
    simp only [readLoop] at h ⊢
    split
    · exact hb
    · rename_i hc
      rw [if_neg hc] at h
      have hs := chunkStep_buf p count acc syms f2s buf bs hb
      cases hstep : chunkStep p count acc syms f2s buf bs with
      | done r => rw [hstep] at hs h; exact hs n h
      | next c a s f b r =>
        rw [hstep] at hs h
        exact ih c a s f b r hs n h

/-- a `Read` that returns without error leaves bytes in `this.buffer` -/
theorem read_buf (p : Params) (s : St) (bs : Bits) (count n : Nat) (hb : Bytes s.buf)
    (h : (read p s bs count).cls = .ret n false) : Bytes (read p s bs count).st.buf := by
  unfold read at h ⊢
  split
  · cases hr : readBytes count bs with
    | none => rw [if_pos (by assumption), hr] at h; simp at h
    | some q => exact hb
  · rename_i h32
    rw [if_neg h32] at h
    exact readLoop_buf p _ _ _ _ _ _ _ hb n h

/-! ### D. the statements used by `Properties/C03_ans.lean` -/

theorem agrees0 (blk : List Nat) (cs lr v : Nat) (hlr : 8 ≤ lr ∧ lr ≤ 15) (hcs : 0 < cs ∧ cs < 2 ^ 26)
    (hv : v ≠ 1) (hb : ∀ b ∈ blk, b < 256) :
    ∃ enc, ans0Encode blk cs lr = some enc ∧
      ∀ (rest : Bits) (s : St), Inv 0 s.syms s.f2s → Bytes s.buf →
        ans0Decode (enc ++ rest) blk.length cs = some (blk, rest) ∧
        (read ⟨0, cs, v⟩ s (enc ++ rest) blk.length).cls = .ret blk.length false ∧
        (read ⟨0, cs, v⟩ s (enc ++ rest) blk.length).out = blk ∧
        (read ⟨0, cs, v⟩ s (enc ++ rest) blk.length).rest = rest := by
  obtain ⟨enc, he, hnew⟩ := read_enc0 blk cs lr v hlr hcs.1 hcs.2 hv hb
  obtain ⟨enc', he', hold⟩ := block_rt blk cs lr hlr hcs.1 hcs.2 hb
  have : enc' = enc := by rw [he] at he'; exact (Option.some.inj he').symm
  subst this
  refine ⟨enc', he, ?_⟩
  intro rest s hinv hbuf
  have hsy : 256 ≤ s.syms.size := by have := hinv.syms; rw [dimOf_zero] at this; omega
  exact ⟨hold rest, hnew rest s hsy hinv.bytes hbuf⟩

theorem agrees1 (blk : List Nat) (cs lr v : Nat) (hlr : 8 ≤ lr ∧ lr ≤ 15) (hcs : 0 < cs ∧ cs < 2 ^ 26)
    (hv : v ≠ 1) (hb : ∀ b ∈ blk, b < 256) :
    ∃ enc, ans1Encode blk cs lr = some enc ∧
      ∀ (rest : Bits) (s : St), Inv 1 s.syms s.f2s → Bytes s.buf →
        (∀ prev : List (List Nat), prev.length = 256 →
          ans1Decode (enc ++ rest) blk.length cs prev = some (blk, rest)) ∧
        (read ⟨1, cs, v⟩ s (enc ++ rest) blk.length).cls = .ret blk.length false ∧
        (read ⟨1, cs, v⟩ s (enc ++ rest) blk.length).out = blk ∧
        (read ⟨1, cs, v⟩ s (enc ++ rest) blk.length).rest = rest := by
  obtain ⟨enc, he, hnew⟩ := read_enc1 blk cs lr v hlr hcs.1 hcs.2 hv hb
  obtain ⟨enc', he', hold⟩ := block1_rt blk cs lr hlr hcs.1 hcs.2 hb
  have : enc' = enc := by rw [he] at he'; exact (Option.some.inj he').symm
  subst this
  refine ⟨enc', he, ?_⟩
  intro rest s hinv hbuf
  have hsy : 256 * 256 ≤ s.syms.size := by have := hinv.syms; rw [dimOf_one] at this; exact this
  exact ⟨fun prev hp => hold prev hp rest, hnew rest s hsy hinv.bytes hbuf⟩

/-! ### E. version 1: the fuel of the renormalisation loop is never the reason it stops -/

theorem renormV1_stable (buf : Array Nat) : ∀ (fuel n : Nat) (st : Int) (k : Nat), 1 ≤ fuel →
    buf.size < n + 2 * fuel → renormV1 buf (fuel + k) n st = renormV1 buf fuel n st := by
  intro fuel
  induction fuel with
  | zero => intro n st k h; omega
  | succ f ih =>
    intro n st k _ hsz
    rw [show f + 1 + k = (f + k) + 1 by omega]
    simp only [renormV1]
    split
    · split
      · rename_i hn
        exact ih (n + 2) _ k (by omega) (by omega)
      · rfl
    · rfl

/-- `len(this.buffer)/2 + 1` iterations always suffice: more fuel never changes the result, so the
    model's `.fault` at fuel 0 is never a spurious one -/
theorem renormV1_fuel (buf : Array Nat) (n : Nat) (st : Int) (k : Nat) :
    renormV1 buf (buf.size / 2 + 1 + k) n st = renormV1 buf (buf.size / 2 + 1) n st :=
  renormV1_stable buf _ n st k (by omega) (by omega)

/-! ### F. `len(this.buffer)` is bounded for EVERY bitstream version (version 1 since its repair) -/

def StepSz (B : Nat) : Step → Prop
  | .done r => r.bufSz ≤ B
  | .next _ _ _ _ b _ => b.size ≤ B

theorem chunkPreV1_sz (order len : Nat) (bs : Bits) (q : PreV1) (h : chunkPreV1 order len bs = .ok q) :
    q.sz ≤ max (2 * len) 256 := by
  unfold chunkPreV1 at h
  cases hv : readVarInt bs with
  | none => rw [hv] at h; cases h
  | some p =>
    obtain ⟨v, r⟩ := p
    rw [hv] at h
    simp only at h
    split at h
    · cases h
    · rename_i hle
      cases h0 : rBits 32 r with
      | ok x0 =>
        rw [h0] at h
        simp only [AnsDec.R.bind] at h
        split at h
        · cases h1 : rBits 32 x0.2 with
          | ok x1 =>
            rw [h1] at h
            simp only [R.ok.injEq] at h
            rw [← h]; simp only; omega
          | err => rw [h1] at h; cases h
          | eos => rw [h1] at h; cases h
          | fault => rw [h1] at h; cases h
          | overrun => rw [h1] at h; cases h
        · simp only [R.ok.injEq] at h
          rw [← h]; simp only; omega
      | err => rw [h0] at h; cases h
      | eos => rw [h0] at h; cases h
      | fault => rw [h0] at h; cases h
      | overrun => rw [h0] at h; cases h

theorem bufSizeAfterV1_le (psz sz B : Nat) (h1 : sz ≤ B) (h2 : psz + psz / 8 ≤ B) : bufSizeAfterV1 psz sz ≤ B := by
  unfold bufSizeAfterV1; split <;> omega

theorem stepV1_sz (order lr len rem : Nat) (acc : List Nat) (h : Hdr) (buf : Array Nat) (bs0 : Bits) (fsz B : Nat)
    (hB : buf.size ≤ B) (hB2 : max (2 * len) 256 + max (2 * len) 256 / 8 ≤ B) :
    StepSz B (stepV1 order lr len rem acc h buf bs0 fsz) := by
  unfold stepV1
  simp only
  cases hq : chunkPreV1 order len h.rest with
  | ok q =>
    simp only
    have hsz := chunkPreV1_sz order len h.rest q hq
    have hq8 : q.sz + q.sz / 8 ≤ B := by omega
    have hba : (bufAllocV1 q.sz buf).size = bufSizeAfterV1 q.sz buf.size := by
      unfold bufAllocV1 bufSizeAfterV1
      split <;> simp
    have hle := bufSizeAfterV1_le q.sz buf.size B hB hq8
    split
    · exact hB
    · cases hl : loadPayloadV1 q.sz (bufAllocV1 q.sz buf) q.rest with
      | ok pl =>
        simp only
        have hps : pl.1.size = bufSizeAfterV1 q.sz buf.size := by
          unfold loadPayloadV1 at hl
          cases hr : readBytes q.sz q.rest with
          | none => rw [hr] at hl; cases hl
          | some qq =>
            rw [hr] at hl
            simp only [R.ok.injEq] at hl
            rw [← hl]
            simp only [writePrefix_size, hba]
        split
        · simp only [StepSz]; omega
        · exact hle
      | err => exact hle
      | eos => exact hle
      | fault => exact hle
      | overrun => exact hle
  | err => exact hB
  | eos => exact hB
  | fault => exact hB
  | overrun => exact hB

theorem stepV2_sz (order lr len rem : Nat) (acc : List Nat) (h : Hdr) (buf : Array Nat) (bs0 : Bits) (fsz B : Nat)
    (hB : buf.size ≤ B) (hB2 : max (2 * len) 256 ≤ B) :
    StepSz B (stepV2 order lr len rem acc h buf bs0 fsz) := by
  unfold stepV2
  simp only
  have hle := bufSizeAfter_le len buf.size B hB hB2
  split
  · exact hB
  · split
    · rename_i pl hl
      have hps : pl.1.size = bufSizeAfter len buf.size := by rw [loadPayload_ok _ _ _ _ hl, bufAlloc_size]
      split
      · simp only [StepSz]; omega
      · exact hle
    · exact hle
  · exact hB

theorem chunkStep_sz (p : Params) (count : Nat) (acc : List Nat) (syms : Array DecSym) (f2s buf : Array Nat)
    (bs : Bits) (B : Nat) (hB : buf.size ≤ B)
    (hB2 : max (2 * min p.chunkSize count) 256 + max (2 * min p.chunkSize count) 256 / 8 ≤ B) :
    StepSz B (chunkStep p count acc syms f2s buf bs) := by
  unfold chunkStep
  simp only
  split
  · exact hB
  · split
    · split
      · exact hB
      · split
        · exact hB
        · split
          · exact stepV1_sz _ _ _ _ _ _ _ _ _ B hB hB2
          · exact stepV2_sz _ _ _ _ _ _ _ _ _ B hB (by omega)
    · exact hB
    · exact hB

theorem readLoop_sz (p : Params) (B : Nat) : ∀ (fuel count : Nat) (acc : List Nat) (syms : Array DecSym)
    (f2s buf : Array Nat) (bs : Bits), buf.size ≤ B →
    max (2 * min p.chunkSize count) 256 + max (2 * min p.chunkSize count) 256 / 8 ≤ B →
    (readLoop p fuel count acc syms f2s buf bs).bufSz ≤ B := by
  intro fuel
  induction fuel with
  | zero => intro count acc syms f2s buf bs hB _; exact hB
  | succ fuel ih =>
    intro count acc syms f2s buf bs hB hB2
    simp only [readLoop]
    split
    · exact hB
    · have hs := chunkStep_sz p count acc syms f2s buf bs B hB hB2
      have hsh := chunkStep_shape p count acc syms f2s buf bs
      cases hstep : chunkStep p count acc syms f2s buf bs with
      | done r => rw [hstep] at hs; exact hs
      | next c a s f b r =>
        rw [hstep] at hs hsh
        simp only [StepShape] at hsh
        simp only
        refine ih c a s f b r hs ?_
        have : min p.chunkSize c ≤ min p.chunkSize count := by rw [hsh]; omega
        omega

/-- **every bitstream version**: `len(this.buffer)` after a `Read` of `count` bytes, however it ends,
    is at most `max(before, m + m/8)` with `m = max(2·min(chunkSize, count), 256)` -/
theorem read_sz (p : Params) (s : St) (bs : Bits) (count : Nat) :
    (read p s bs count).bufSz ≤
      max s.buf.size (max (2 * min p.chunkSize count) 256 + max (2 * min p.chunkSize count) 256 / 8) := by
  unfold read
  split
  · cases readBytes count bs <;> (simp only; omega)
  · exact readLoop_sz p _ _ count [] s.syms s.f2s s.buf bs (by omega) (by omega)

end Kanzi.AnsDec
