/-
Proofs for the `alias` slice, part 1: basic facts — the order-0 histogram counts occurrences, the
absent / present symbol lists partition the 256 byte values, `map8` inverts `idx2symb`, and the bit
arithmetic of the packing and of the two alias maps.
-/
import Kanzi.Model.Alias
import Kanzi.Proofs.RLTInv

namespace Kanzi.Alias
open Kanzi.RLT

/-! ## histogram -/

theorem hist_fold_size : ∀ (src : List Nat) (a : Array Nat),
    (src.foldl (fun a x => a.modify x (· + 1)) a).size = a.size := by
  intro src
  induction src with
  | nil => intro a; rfl
  | cons x tl ih => intro a; simp [List.foldl_cons, ih]

theorem hist_fold_get : ∀ (src : List Nat) (a : Array Nat) (x : Nat), x < a.size →
    (src.foldl (fun a x => a.modify x (· + 1)) a).getD x 0 = a.getD x 0 + src.count x := by
  intro src
  induction src with
  | nil => intro a x _; simp
  | cons y tl ih =>
    intro a x hx
    rw [List.foldl_cons, ih _ _ (by simpa using hx)]
    simp only [Array.getD_eq_getD_getElem?, Array.getElem?_modify, List.count_cons]
    have hx' : a[x]? = some a[x] := by simp [hx]
    by_cases hyx : y = x
    · subst hyx; simp [hx']; omega
    · have : (y == x) = false := by simpa using hyx
      simp [hyx, this]

/-- the order-0 histogram counts the occurrences of every byte value -/
theorem fq_histogram (src : List Nat) (x : Nat) (hx : x < 256) : fq (histogram src) x = src.count x := by
  unfold fq histogram
  rw [hist_fold_get _ _ _ (by simpa using hx)]
  simp [hx]

theorem fq_histogram_ne_zero (src : List Nat) (x : Nat) (hx : x < 256) (hm : x ∈ src) :
    fq (histogram src) x ≠ 0 := by
  rw [fq_histogram src x hx]
  exact Nat.ne_of_gt (List.count_pos_iff.mpr hm)

theorem fq_histogram_eq_zero (src : List Nat) (x : Nat) (hx : x < 256) (hm : x ∉ src) :
    fq (histogram src) x = 0 := by
  rw [fq_histogram src x hx]; exact List.count_eq_zero.mpr hm

/-! ## absent / present symbols -/

theorem filter_partition (f : Nat → Nat) : ∀ (l : List Nat),
    (l.filter (fun i => decide (f i = 0))).length + (l.filter (fun i => decide (f i ≠ 0))).length = l.length := by
  intro l
  induction l with
  | nil => rfl
  | cons x tl ih =>
    by_cases h : f x = 0
    · simp [h]; simp at ih; omega
    · simp [h]; simp at ih; omega

theorem absent_present_length (freqs : Array Nat) :
    (absentSyms freqs).length + (presentSyms freqs).length = 256 := by
  have := filter_partition (fq freqs) (List.range 256)
  simpa [absentSyms, presentSyms] using this

theorem mem_presentSyms {freqs : Array Nat} {x : Nat} :
    x ∈ presentSyms freqs ↔ x < 256 ∧ fq freqs x ≠ 0 := by simp [presentSyms]

theorem mem_absentSyms {freqs : Array Nat} {x : Nat} :
    x ∈ absentSyms freqs ↔ x < 256 ∧ fq freqs x = 0 := by simp [absentSyms]

theorem absentSyms_nodup (freqs : Array Nat) : (absentSyms freqs).Nodup :=
  List.Nodup.sublist List.filter_sublist List.nodup_range

theorem presentSyms_nodup (freqs : Array Nat) : (presentSyms freqs).Nodup :=
  List.Nodup.sublist List.filter_sublist List.nodup_range

/-- every byte of the block is a present symbol -/
theorem mem_present_of_mem (src : List Nat) (hb : ∀ x ∈ src, x < 256) {x : Nat} (hm : x ∈ src) :
    x ∈ presentSyms (histogram src) :=
  mem_presentSyms.mpr ⟨hb x hm, fq_histogram_ne_zero src x (hb x hm) hm⟩

theorem present_lt {freqs : Array Nat} {x : Nat} (h : x ∈ presentSyms freqs) : x < 256 :=
  (mem_presentSyms.mp h).1

/-- an absent symbol is a byte value that does not occur in the block -/
theorem absent_fresh (src : List Nat) {a : Nat} (h : a ∈ absentSyms (histogram src)) : a < 256 ∧ a ∉ src := by
  have h' := mem_absentSyms.mp h
  refine ⟨h'.1, fun hm => ?_⟩
  exact fq_histogram_ne_zero src a h'.1 hm h'.2

/-! ## `map8` / `idx2symb` -/

theorem map8_lt (syms : List Nat) (x : Nat) (hx : x ∈ syms) : map8 syms x < syms.length := by
  unfold map8; simp [hx, List.idxOf_lt_length_iff]

theorem i2s_map8 (syms : List Nat) (x : Nat) (hx : x ∈ syms) : i2s syms (map8 syms x) = x := by
  have hlt : syms.idxOf x < syms.length := List.idxOf_lt_length_iff.mpr hx
  unfold i2s map8
  simp only [hx, if_true]
  rw [List.getD_eq_getElem?_getD, List.getElem?_eq_getElem hlt]
  simp [List.getElem_idxOf hlt]

/-! ## bit arithmetic -/

theorem pack4_bitsF : ∀ a b c d : Fin 4,
    ((((a.val <<< 6) % 256) ||| ((b.val <<< 4) % 256) ||| ((c.val <<< 2) % 256) ||| d.val) < 256) ∧
    (((((a.val <<< 6) % 256) ||| ((b.val <<< 4) % 256) ||| ((c.val <<< 2) % 256) ||| d.val) >>> 6) &&& 3 = a.val) ∧
    (((((a.val <<< 6) % 256) ||| ((b.val <<< 4) % 256) ||| ((c.val <<< 2) % 256) ||| d.val) >>> 4) &&& 3 = b.val) ∧
    (((((a.val <<< 6) % 256) ||| ((b.val <<< 4) % 256) ||| ((c.val <<< 2) % 256) ||| d.val) >>> 2) &&& 3 = c.val) ∧
    ((((a.val <<< 6) % 256) ||| ((b.val <<< 4) % 256) ||| ((c.val <<< 2) % 256) ||| d.val) &&& 3 = d.val) := by
  decide

theorem pack4_bits (a b c d : Nat) (ha : a < 4) (hb : b < 4) (hc : c < 4) (hd : d < 4) :
    ((((a <<< 6) % 256) ||| ((b <<< 4) % 256) ||| ((c <<< 2) % 256) ||| d) < 256) ∧
    (((((a <<< 6) % 256) ||| ((b <<< 4) % 256) ||| ((c <<< 2) % 256) ||| d) >>> 6) &&& 3 = a) ∧
    (((((a <<< 6) % 256) ||| ((b <<< 4) % 256) ||| ((c <<< 2) % 256) ||| d) >>> 4) &&& 3 = b) ∧
    (((((a <<< 6) % 256) ||| ((b <<< 4) % 256) ||| ((c <<< 2) % 256) ||| d) >>> 2) &&& 3 = c) ∧
    ((((a <<< 6) % 256) ||| ((b <<< 4) % 256) ||| ((c <<< 2) % 256) ||| d) &&& 3 = d) :=
  pack4_bitsF ⟨a, ha⟩ ⟨b, hb⟩ ⟨c, hc⟩ ⟨d, hd⟩

theorem pack2_bitsF : ∀ a b : Fin 16,
    ((((a.val <<< 4) % 256) ||| b.val) < 256) ∧ ((((a.val <<< 4) % 256) ||| b.val) >>> 4 = a.val) ∧
    ((((a.val <<< 4) % 256) ||| b.val) &&& 15 = b.val) := by
  decide

theorem pack2_bits (a b : Nat) (ha : a < 16) (hb : b < 16) :
    ((((a <<< 4) % 256) ||| b) < 256) ∧ ((((a <<< 4) % 256) ||| b) >>> 4 = a) ∧
    ((((a <<< 4) % 256) ||| b) &&& 15 = b) :=
  pack2_bitsF ⟨a, ha⟩ ⟨b, hb⟩

theorem pack4_lt (syms : List Nat) (a b c d : Nat) : pack4 syms a b c d < 256 ∨ ¬ (map8 syms d < 256) := by
  by_cases h : map8 syms d < 256
  · left
    unfold pack4
    have h1 : (map8 syms a <<< 6) % 256 < 2 ^ 8 := Nat.mod_lt _ (by decide)
    have h2 : (map8 syms b <<< 4) % 256 < 2 ^ 8 := Nat.mod_lt _ (by decide)
    have h3 : (map8 syms c <<< 2) % 256 < 2 ^ 8 := Nat.mod_lt _ (by decide)
    have h4 : map8 syms d < 2 ^ 8 := h
    exact Nat.or_lt_two_pow (Nat.or_lt_two_pow (Nat.or_lt_two_pow h1 h2) h3) h4
  · right; exact h

theorem map8_le (syms : List Nat) (x : Nat) : map8 syms x ≤ syms.length := by
  unfold map8; split
  · exact List.idxOf_le_length
  · omega

/-- the two bytes of a pair value and the alias entries -/
theorem pair_bytes (a b : Nat) (ha : a < 256) (hb : b < 256) :
    ((a <<< 8) ||| b) < 65536 ∧ (((a <<< 8) ||| b) >>> 8) % 256 = a ∧ ((a <<< 8) ||| b) % 256 = b ∧
    ((a <<< 8) ||| b) >>> 8 = a := by
  rw [shl8_or a b hb, Nat.shiftRight_eq_div_pow]
  refine ⟨by omega, by omega, by omega, by omega⟩

theorem lit16 (a : Nat) (ha : a < 256) : (0x100 ||| a) % 256 = a ∧ (0x100 ||| a) >>> 8 = 1 := by
  have : 0x100 ||| a = 1 <<< 8 ||| a := rfl
  rw [this, shl8_or 1 a ha, Nat.shiftRight_eq_div_pow]
  refine ⟨by omega, by omega⟩

theorem ali16 (a : Nat) (ha : a < 256) : (0x200 ||| a) % 256 = a ∧ (0x200 ||| a) >>> 8 = 2 := by
  have : 0x200 ||| a = 2 <<< 8 ||| a := rfl
  rw [this, shl8_or 2 a ha, Nat.shiftRight_eq_div_pow]
  refine ⟨by omega, by omega⟩

theorem lit17 (x : Nat) (hx : x < 256) : (0x10000 ||| x) % 256 = x ∧ (0x10000 ||| x) >>> 16 = 1 := by
  have h : 0x10000 ||| x = 1 <<< 16 + x := by
    rw [Nat.shiftLeft_add_eq_or_of_lt (by omega : x < 2 ^ 16)]; rfl
  rw [h, Nat.shiftLeft_eq, Nat.shiftRight_eq_div_pow]
  refine ⟨by omega, by omega⟩

theorem ali17 (a b : Nat) (ha : a < 256) (hb : b < 256) :
    (0x20000 ||| a ||| (b <<< 8)) % 256 = a ∧ ((0x20000 ||| a ||| (b <<< 8)) >>> 8) % 256 = b ∧
    (0x20000 ||| a ||| (b <<< 8)) >>> 16 = 2 := by
  have h : 0x20000 ||| a ||| (b <<< 8) = 2 <<< 16 + (b <<< 8 + a) := by
    rw [Nat.or_assoc, Nat.or_comm a, Nat.shiftLeft_add_eq_or_of_lt (by omega : a < 2 ^ 8) b,
      Nat.shiftLeft_add_eq_or_of_lt (by
        rw [← Nat.shiftLeft_add_eq_or_of_lt (by omega : a < 2 ^ 8) b, Nat.shiftLeft_eq]; omega)]
    rfl
  rw [h, Nat.shiftLeft_eq, Nat.shiftLeft_eq, Nat.shiftRight_eq_div_pow, Nat.shiftRight_eq_div_pow]
  refine ⟨by omega, by omega, by omega⟩

theorem le32_roundtrip (v : Nat) (hv : v < 2 ^ 32) :
    v % 256 + 256 * ((v >>> 8) % 256) + 65536 * ((v >>> 16) % 256) + 16777216 * ((v >>> 24) % 256) = v := by
  simp only [Nat.shiftRight_eq_div_pow]; omega

end Kanzi.Alias
