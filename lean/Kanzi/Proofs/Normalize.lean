import Kanzi.Model.Normalize
namespace Kanzi.Normalize

/-! ### scaleOne -/

theorem scaleOne_zero (t sc : Nat) : scaleOne t sc 0 = 0 := by simp [scaleOne]

theorem scaleOne_pos (t sc f : Nat) (ht : 0 < t) (hf : 0 < f) : 0 < scaleOne t sc f := by
  unfold scaleOne
  split
  · omega
  · split
    · omega
    · apply Nat.div_pos
      · omega
      · exact ht

/-! ### zero pattern -/

/-- same length and same zero pattern -/
def ZP (a b : List Nat) : Prop :=
  a.length = b.length ∧ ∀ i, (0 < a.getD i 0 ↔ 0 < b.getD i 0)

theorem ZP.refl (a : List Nat) : ZP a a := ⟨rfl, fun _ => Iff.rfl⟩

theorem ZP.trans {a b c : List Nat} (h1 : ZP a b) (h2 : ZP b c) : ZP a c :=
  ⟨h1.1.trans h2.1, fun i => (h1.2 i).trans (h2.2 i)⟩

theorem ZP.cons {x y : Nat} {a b : List Nat} (hxy : 0 < x ↔ 0 < y) (h : ZP a b) :
    ZP (x :: a) (y :: b) := by
  refine ⟨by simp [h.1], fun i => ?_⟩
  cases i with
  | zero => simpa using hxy
  | succ i => simpa using h.2 i

/-! ### List.set bookkeeping -/

theorem getD_set (l : List Nat) (m v i : Nat) :
    (l.set m v).getD i 0 = if i = m ∧ m < l.length then v else l.getD i 0 := by
  induction l generalizing m i with
  | nil => simp
  | cons x xs ih =>
    cases m with
    | zero =>
      cases i with
      | zero => simp
      | succ i => simp
    | succ m =>
      cases i with
      | zero => simp
      | succ i =>
        simp only [List.set_cons_succ, List.getD_cons_succ, List.length_cons,
          Nat.add_lt_add_iff_right, Nat.add_right_cancel_iff, ih]

theorem sum_set (l : List Nat) (m v : Nat) (hm : m < l.length) :
    (l.set m v).sum + l.getD m 0 = l.sum + v := by
  induction l generalizing m with
  | nil => simp at hm
  | cons x xs ih =>
    cases m with
    | zero => simp; omega
    | succ m =>
      have := ih m (by simpa using hm)
      simp only [List.set_cons_succ, List.sum_cons, List.getD_cons_succ]; omega

theorem ZP_set (l : List Nat) (m v : Nat) (hv : 0 < v ↔ 0 < l.getD m 0) : ZP (l.set m v) l := by
  refine ⟨by simp, fun i => ?_⟩
  rw [getD_set]
  split
  · rename_i h; rw [h.1]; exact hv
  · exact Iff.rfl

theorem getD_map_scaleOne (t sc : Nat) (h : List Nat) (i : Nat) :
    (h.map (scaleOne t sc)).getD i 0 = scaleOne t sc (h.getD i 0) := by
  induction h generalizing i with
  | nil => simp [scaleOne_zero]
  | cons x xs ih =>
    cases i with
    | zero => simp
    | succ i => simp only [List.map_cons, List.getD_cons_succ, ih]

theorem ZP_scale (t sc : Nat) (ht : 0 < t) (h : List Nat) : ZP (h.map (scaleOne t sc)) h := by
  refine ⟨by simp, fun i => ?_⟩
  rw [getD_map_scaleOne]
  constructor
  · intro hp
    by_cases h0 : h.getD i 0 = 0
    · rw [h0, scaleOne_zero] at hp; omega
    · omega
  · exact scaleOne_pos t sc _ ht

/-! ### idxMax -/

theorem sum_eq_zero_of_all_le (l : List Nat) (h : ∀ x ∈ l, x ≤ 0) : l.sum = 0 := by
  induction l with
  | nil => rfl
  | cons x xs ih =>
    have h1 := h x (by simp)
    have h2 := ih (fun y hy => h y (by simp [hy]))
    simp only [List.sum_cons]; omega

theorem idxMaxAux_spec (l : List Nat) (i bi bv : Nat) :
    (idxMaxAux l i bi bv = bi ∧ ∀ x ∈ l, x ≤ bv) ∨
    (i ≤ idxMaxAux l i bi bv ∧ idxMaxAux l i bi bv < i + l.length ∧
      bv < l.getD (idxMaxAux l i bi bv - i) 0) := by
  induction l generalizing i bi bv with
  | nil => left; simp [idxMaxAux]
  | cons f fs ih =>
    unfold idxMaxAux
    split
    · rename_i hf
      right
      have ih' := ih (i + 1) i f
      generalize idxMaxAux fs (i + 1) i f = r at ih' ⊢
      rcases ih' with ⟨h1, _⟩ | ⟨h1, h2, h3⟩
      · subst h1; simp; omega
      · refine ⟨by omega, by simp; omega, ?_⟩
        have : r - i = (r - (i + 1)) + 1 := by omega
        rw [this, List.getD_cons_succ]; omega
    · rename_i hf
      have ih' := ih (i + 1) bi bv
      generalize idxMaxAux fs (i + 1) bi bv = r at ih' ⊢
      rcases ih' with ⟨h1, h2⟩ | ⟨h1, h2, h3⟩
      · left
        refine ⟨h1, ?_⟩
        intro x hx
        simp only [List.mem_cons] at hx
        rcases hx with rfl | hx
        · omega
        · exact h2 x hx
      · right
        refine ⟨by omega, by simp; omega, ?_⟩
        have : r - i = (r - (i + 1)) + 1 := by omega
        rw [this, List.getD_cons_succ]; omega

theorem idxMax_spec (l : List Nat) (hpos : 0 < l.sum) :
    idxMax l < l.length ∧ 0 < l.getD (idxMax l) 0 := by
  unfold idxMax
  rcases idxMaxAux_spec l 0 0 0 with ⟨_, h2⟩ | ⟨_, h2, h3⟩
  · have := sum_eq_zero_of_all_le l h2; omega
  · simp only [Nat.sub_zero] at h3
    exact ⟨by omega, by omega⟩

/-! ### support -/

theorem mem_supportAux (l : List Nat) (i j : Nat) :
    j ∈ supportAux l i ↔ (i ≤ j ∧ j < i + l.length ∧ l.getD (j - i) 0 ≠ 0) := by
  induction l generalizing i with
  | nil => simp [supportAux]
  | cons f fs ih =>
    unfold supportAux
    have key : ∀ (hji : j ≠ i), (f :: fs).getD (j - i) 0 = fs.getD (j - (i + 1)) 0 ∨ j < i := by
      intro hji
      by_cases hlt : j < i
      · exact Or.inr hlt
      · left
        have : j - i = (j - (i + 1)) + 1 := by omega
        rw [this, List.getD_cons_succ]
    split
    · rename_i hf
      rw [ih]
      constructor
      · rintro ⟨h1, h2, h3⟩
        rcases key (by omega) with hk | hk
        · rw [hk]; exact ⟨by omega, by simp; omega, h3⟩
        · omega
      · rintro ⟨h1, h2, h3⟩
        by_cases hji : j = i
        · subst hji; simp [hf] at h3
        · rcases key hji with hk | hk
          · rw [hk] at h3; simp at h2; exact ⟨by omega, by omega, h3⟩
          · omega
    · rename_i hf
      rw [List.mem_cons, ih]
      constructor
      · rintro (rfl | ⟨h1, h2, h3⟩)
        · simp [hf]
        · rcases key (by omega) with hk | hk
          · rw [hk]; exact ⟨by omega, by simp; omega, h3⟩
          · omega
      · rintro ⟨h1, h2, h3⟩
        by_cases hji : j = i
        · exact Or.inl hji
        · right
          rcases key hji with hk | hk
          · rw [hk] at h3; simp at h2; exact ⟨by omega, by omega, h3⟩
          · omega

theorem mem_support (l : List Nat) (j : Nat) :
    j ∈ support l ↔ (j < l.length ∧ l.getD j 0 ≠ 0) := by
  unfold support
  rw [mem_supportAux]
  simp

theorem pairwise_supportAux (l : List Nat) (i : Nat) : (supportAux l i).Pairwise (· < ·) := by
  induction l generalizing i with
  | nil => simp [supportAux]
  | cons f fs ih =>
    unfold supportAux
    split
    · exact ih (i + 1)
    · rw [List.pairwise_cons]
      refine ⟨?_, ih (i + 1)⟩
      intro j hj
      rw [mem_supportAux] at hj
      omega

theorem length_supportAux (l : List Nat) (i : Nat) :
    (supportAux l i).length = (l.filter (· ≠ 0)).length := by
  induction l generalizing i with
  | nil => simp [supportAux]
  | cons f fs ih =>
    unfold supportAux
    split
    · rename_i hf; simp [hf, ih]
    · rename_i hf; simp [hf, ih]

/-! ### sums of sparse lists -/

theorem sum_eq_zero_of_getD (l : List Nat) (h : ∀ i, l.getD i 0 = 0) : l.sum = 0 := by
  induction l with
  | nil => rfl
  | cons x xs ih =>
    have h0 := h 0
    have h1 := ih (fun i => by simpa using h (i + 1))
    simp only [List.getD_cons_zero] at h0
    simp only [List.sum_cons]; omega

theorem sum_eq_getD_of_single (l : List Nat) (a : Nat) (h : ∀ i, i ≠ a → l.getD i 0 = 0) :
    l.sum = l.getD a 0 := by
  induction l generalizing a with
  | nil => simp
  | cons x xs ih =>
    cases a with
    | zero =>
      have := sum_eq_zero_of_getD xs (fun i => by simpa using h (i + 1) (by omega))
      simp only [List.sum_cons, List.getD_cons_zero]; omega
    | succ a =>
      have h0 := h 0 (by omega)
      have h1 := ih a (fun i hi => by simpa using h (i + 1) (by omega))
      simp only [List.getD_cons_zero] at h0
      simp only [List.sum_cons, List.getD_cons_succ]; omega

/-! ### pass / rounds -/

theorem pass_sum_up (fs : List Nat) (d : Nat) :
    (pass true fs d).1.sum + (pass true fs d).2 = fs.sum + d := by
  induction fs generalizing d with
  | nil => simp [pass]
  | cons f fs ih =>
    unfold pass
    split
    · simp_all
    · split
      · have := ih d; simp only [List.sum_cons] at *; omega
      · have := ih (d-1); simp only [List.sum_cons, if_true] at *; omega

theorem pass_sum_down (fs : List Nat) (d : Nat) :
    (pass false fs d).1.sum + d = fs.sum + (pass false fs d).2 ∧ (pass false fs d).2 ≤ d := by
  induction fs generalizing d with
  | nil => simp [pass]
  | cons f fs ih =>
    unfold pass
    split
    · simp_all
    · split
      · have := ih d; simp only [List.sum_cons] at *; omega
      · have := ih (d-1)
        simp only [List.sum_cons, Bool.false_eq_true, if_false] at *
        omega

theorem pass_ZP (up : Bool) (fs : List Nat) (d : Nat) : ZP (pass up fs d).1 fs := by
  induction fs generalizing d with
  | nil => simp [pass]; exact ZP.refl _
  | cons f fs ih =>
    unfold pass
    split
    · exact ZP.refl _
    · split
      · exact ZP.cons Iff.rfl (ih d)
      · exact ZP.cons (by split <;> omega) (ih (d - 1))

theorem rounds_sum_up (k : Nat) (fs : List Nat) (d : Nat) :
    (rounds true k fs d).1.sum + (rounds true k fs d).2 = fs.sum + d := by
  induction k generalizing fs d with
  | zero => simp [rounds]
  | succ k ih =>
    unfold rounds
    split
    · simp_all
    · have h1 := ih (pass true fs d).1 (pass true fs d).2
      have h2 := pass_sum_up fs d
      omega

theorem rounds_sum_down (k : Nat) (fs : List Nat) (d : Nat) :
    (rounds false k fs d).1.sum + d = fs.sum + (rounds false k fs d).2 ∧
      (rounds false k fs d).2 ≤ d := by
  induction k generalizing fs d with
  | zero => simp [rounds]
  | succ k ih =>
    unfold rounds
    split
    · simp_all
    · have h1 := ih (pass false fs d).1 (pass false fs d).2
      have h2 := pass_sum_down fs d
      omega

theorem rounds_ZP (up : Bool) (k : Nat) (fs : List Nat) (d : Nat) : ZP (rounds up k fs d).1 fs := by
  induction k generalizing fs d with
  | zero => simp [rounds]; exact ZP.refl _
  | succ k ih =>
    unfold rounds
    split
    · exact ZP.refl _
    · exact (ih _ _).trans (pass_ZP up fs d)

/-! ### drain -/

/-- what `drain` can remove at most: Σ (f - 1) -/
def cap : List Nat → Nat
  | [] => 0
  | f :: fs => (f - 1) + cap fs

theorem cap_le (l : List Nat) : l.sum ≤ cap l + l.length := by
  induction l with
  | nil => simp [cap]
  | cons f fs ih => simp only [cap, List.sum_cons, List.length_cons]; omega

theorem drain_sum (fs : List Nat) (d : Nat) :
    (drain fs d).1.sum + d = fs.sum + (drain fs d).2 := by
  induction fs generalizing d with
  | nil => simp [drain]
  | cons f fs ih =>
    unfold drain
    split
    · simp_all
    · have := ih (d - min d (f - 1))
      simp only [List.sum_cons] at *
      omega

theorem drain_residual (fs : List Nat) (d : Nat) : (drain fs d).2 = d - cap fs := by
  induction fs generalizing d with
  | nil => simp [drain, cap]
  | cons f fs ih =>
    unfold drain
    split
    · simp_all
    · have := ih (d - min d (f - 1))
      simp only [cap] at *
      omega

theorem drain_ZP (fs : List Nat) (d : Nat) : ZP (drain fs d).1 fs := by
  induction fs generalizing d with
  | nil => simp [drain]; exact ZP.refl _
  | cons f fs ih =>
    unfold drain
    split
    · exact ZP.refl _
    · exact ZP.cons (by omega) (ih _)

/-- tail of the slow down path, after `rounds` -/
theorem down_tail (r1 : List Nat) (r2 m scale : Nat) (hm : m < r1.length)
    (hpos : 0 < r1.getD m 0) (hsum : r1.sum = scale + r2) (hlen : r1.length ≤ scale) :
    (drain (r1.set m (r1.getD m 0 - min r2 (r1.getD m 0 - 1)))
        (r2 - min r2 (r1.getD m 0 - 1))).1.sum = scale ∧
    ZP (drain (r1.set m (r1.getD m 0 - min r2 (r1.getD m 0 - 1)))
        (r2 - min r2 (r1.getD m 0 - 1))).1 r1 := by
  generalize hd : min r2 (r1.getD m 0 - 1) = d
  have hzp : ZP (r1.set m (r1.getD m 0 - d)) r1 := ZP_set _ _ _ (by omega)
  have hs2 := sum_set r1 m (r1.getD m 0 - d) hm
  generalize r1.set m (r1.getD m 0 - d) = s2 at hzp hs2 ⊢
  have h1 := drain_sum s2 (r2 - d)
  have h2 := drain_residual s2 (r2 - d)
  have h3 := cap_le s2
  have h4 := hzp.1
  refine ⟨by omega, (drain_ZP _ _).trans hzp⟩

/-! ### main theorems -/

theorem getD_of_le (l : List Nat) (i : Nat) (hi : l.length ≤ i) : l.getD i 0 = 0 := by
  induction l generalizing i with
  | nil => simp
  | cons x xs ih =>
    cases i with
    | zero => simp at hi
    | succ i => rw [List.getD_cons_succ]; exact ih i (by simpa using hi)

theorem getD_eq_zero_of_sum (l : List Nat) (h : l.sum = 0) (i : Nat) : l.getD i 0 = 0 := by
  induction l generalizing i with
  | nil => simp
  | cons x xs ih =>
    simp only [List.sum_cons] at h
    cases i with
    | zero => rw [List.getD_cons_zero]; omega
    | succ i => rw [List.getD_cons_succ]; exact ih (by omega) i

theorem ZP.sum_pos {a b : List Nat} (h : ZP a b) (hb : 0 < b.sum) : 0 < a.sum := by
  apply Nat.pos_of_ne_zero
  intro ha
  have : b.sum = 0 := sum_eq_zero_of_getD b (fun i => by
    have h1 := getD_eq_zero_of_sum a ha i
    have h2 := h.2 i
    omega)
  omega

theorem good_of (h F : List Nat) (scale sz : Nat) (hsz : sz = (support h).length)
    (hsum : F.sum = scale) (hzp : ZP F h) :
    ∃ o, Res.ok ⟨sz, support h, F⟩ = .ok o ∧
      o.freqs.length = h.length ∧ o.freqs.sum = scale ∧
      (∀ i, i < h.length → (0 < h.getD i 0 ↔ 0 < o.freqs.getD i 0)) ∧
      o.size = (h.filter (· ≠ 0)).length ∧
      o.alphabet.length = o.size ∧
      o.alphabet.Pairwise (· < ·) ∧
      (∀ i, i ∈ o.alphabet ↔ (i < h.length ∧ h.getD i 0 ≠ 0)) := by
  refine ⟨_, rfl, hzp.1, hsum, fun i _ => (hzp.2 i).symm, ?_, hsz.symm,
    pairwise_supportAux h 0, mem_support h⟩
  subst hsz; exact length_supportAux h 0

theorem normalize_valid (h : List Nat) (scale : Nat)
    (hlen : h.length ≤ 256) (hscale : 256 ≤ scale ∧ scale ≤ 65536) (htot : 0 < h.sum) :
    ∃ o, normalize h h.sum scale = .ok o ∧
      o.freqs.length = h.length ∧
      o.freqs.sum = scale ∧
      (∀ i, i < h.length → (0 < h.getD i 0 ↔ 0 < o.freqs.getD i 0)) ∧
      o.size = (h.filter (· ≠ 0)).length ∧
      o.alphabet.length = o.size ∧
      o.alphabet.Pairwise (· < ·) ∧
      (∀ i, i ∈ o.alphabet ↔ (i < h.length ∧ h.getD i 0 ≠ 0)) := by
  have hne : h.length ≠ 0 := by
    intro h0
    rw [List.length_eq_zero_iff] at h0
    subst h0
    simp at htot
  simp only [normalize]
  rw [if_neg (by omega), if_neg (by omega), if_neg (by omega)]
  split
  · rename_i heq
    exact good_of h h scale _ rfl heq (ZP.refl h)
  · rename_i hneq
    have hs : ZP (h.map (scaleOne h.sum scale)) h := ZP_scale _ _ htot h
    generalize h.map (scaleOne h.sum scale) = s at hs ⊢
    have hspos : 0 < s.sum := hs.sum_pos htot
    obtain ⟨hm, hfm⟩ := idxMax_spec s hspos
    generalize idxMax s = m at hm hfm ⊢
    have hslen := hs.1
    split
    · -- n = 0 is impossible
      rename_i hn0
      exfalso
      rw [List.length_eq_zero_iff] at hn0
      have : h.sum = 0 := sum_eq_zero_of_getD h (fun i => by
        by_cases hi : i < h.length
        · have h1 : i ∉ support h := by rw [hn0]; simp
          rw [mem_support] at h1
          by_cases hz : h.getD i 0 = 0
          · exact hz
          · exact absurd ⟨hi, hz⟩ h1
        · exact getD_of_le h i (by omega))
      omega
    · split
      · -- n = 1
        rename_i hn0 hn1
        obtain ⟨a, ha⟩ := List.length_eq_one_iff.mp hn1
        have hall : ∀ i, i ≠ a → s.getD i 0 = 0 := by
          intro i hi
          have h1 : i ∉ support h := by rw [ha]; simpa using hi
          rw [mem_support] at h1
          have h2 := hs.2 i
          by_cases hil : i < h.length
          · have : h.getD i 0 = 0 := by
              by_cases hz : h.getD i 0 = 0
              · exact hz
              · exact absurd ⟨hil, hz⟩ h1
            omega
          · have := getD_of_le h i (by omega); omega
        have ha_mem : a ∈ support h := by rw [ha]; simp
        rw [mem_support] at ha_mem
        have hsa : 0 < s.getD a 0 := (hs.2 a).mpr (by omega)
        have h3 := sum_eq_getD_of_single s a hall
        have h4 := sum_set s a scale (by omega)
        have hhd : (support h).headD 0 = a := by rw [ha]; rfl
        rw [hhd]
        exact good_of h _ scale 1 hn1.symm (by omega) ((ZP_set s a scale (by omega)).trans hs)
      · split
        · rename_i heq
          exact good_of h s scale _ rfl heq hs
        · rename_i hsne
          split
          · rename_i hgt
            split
            · -- fast path down
              rename_i hle
              have h4 := sum_set s m (s.getD m 0 - (s.sum - scale)) hm
              exact good_of h _ scale _ rfl (by omega) ((ZP_set s m _ (by omega)).trans hs)
            · -- slow path down
              rename_i hnle
              have hs1 := sum_set s m (s.getD m 0 - s.getD m 0 / 16) hm
              have hz1 : ZP (s.set m (s.getD m 0 - s.getD m 0 / 16)) s :=
                ZP_set s m _ (by omega)
              generalize s.set m (s.getD m 0 - s.getD m 0 / 16) = s1 at hs1 hz1 ⊢
              have hr1 := rounds_sum_down 5 s1 (s.sum - scale - s.getD m 0 / 16)
              have hr2 := rounds_ZP false 5 s1 (s.sum - scale - s.getD m 0 / 16)
              generalize rounds false 5 s1 (s.sum - scale - s.getD m 0 / 16) = r at hr1 hr2 ⊢
              have hzr : ZP r.1 s := hr2.trans hz1
              have hl := hzr.1
              have hp := (hzr.2 m).mpr hfm
              have := down_tail r.1 r.2 m scale (by omega) hp (by omega) (by omega)
              exact good_of h _ scale _ rfl this.1 (this.2.trans (hzr.trans hs))
          · rename_i hngt
            split
            · -- fast path up
              rename_i hle
              have h4 := sum_set s m (s.getD m 0 + (scale - s.sum)) hm
              exact good_of h _ scale _ rfl (by omega) ((ZP_set s m _ (by omega)).trans hs)
            · -- slow path up
              rename_i hnle
              have hs1 := sum_set s m (s.getD m 0 + s.getD m 0 / 16) hm
              have hz1 : ZP (s.set m (s.getD m 0 + s.getD m 0 / 16)) s :=
                ZP_set s m _ (by omega)
              generalize s.set m (s.getD m 0 + s.getD m 0 / 16) = s1 at hs1 hz1 ⊢
              have hr1 := rounds_sum_up 5 s1 (scale - s.sum - s.getD m 0 / 16)
              have hr2 := rounds_ZP true 5 s1 (scale - s.sum - s.getD m 0 / 16)
              generalize rounds true 5 s1 (scale - s.sum - s.getD m 0 / 16) = r at hr1 hr2 ⊢
              have hzr : ZP r.1 s := hr2.trans hz1
              have hl := hzr.1
              have hp := (hzr.2 m).mpr hfm
              have h4 := sum_set r.1 m (r.1.getD m 0 + r.2) (by omega)
              exact good_of h _ scale _ rfl (by omega)
                ((ZP_set r.1 m _ (by omega)).trans (hzr.trans hs))

theorem normalize_err_iff (h : List Nat) (total scale : Nat) :
    (∃ m, normalize h total scale = .err m) ↔ (h.length > 256 ∨ scale < 256 ∨ scale > 65536) := by
  by_cases h1 : h.length > 256
  · simp only [normalize, if_pos h1]
    exact ⟨fun _ => Or.inl h1, fun _ => ⟨_, rfl⟩⟩
  · by_cases h2 : scale < 256 ∨ scale > 65536
    · simp only [normalize, if_neg h1, if_pos h2]
      exact ⟨fun _ => Or.inr h2, fun _ => ⟨_, rfl⟩⟩
    · constructor
      · rintro ⟨m, hm⟩
        exfalso
        revert hm
        simp only [normalize, if_neg h1, if_neg h2]
        repeat' split
        all_goals (intro hm; cases hm)
      · intro h3; omega

/-! ### non-vacuity checks (kernel-evaluated) -/

-- sum = scale directly
example : (match normalize [3,0,1,1] 5 256 with | .ok o => o.freqs.sum | _ => 0) = 256 := by
  decide
-- fast path down
example : (match normalize [1000,0,1,1,7,7,7,300] 1323 256 with
    | .ok o => o.freqs.sum | _ => 0) = 256 := by decide
-- slow path up
example : (match normalize (List.replicate 9 7) 63 256 with
    | .ok o => o.freqs.sum | _ => 0) = 256 := by decide
-- slow path down
example : (match normalize (List.replicate 13 7) 91 256 with
    | .ok o => o.freqs.sum | _ => 0) = 256 := by decide
-- slow path down where the final `drain` has real work to do (256 symbols, scale 256)
set_option maxRecDepth 20000 in
example : (match normalize (30 :: 30 :: List.replicate 254 1) 314 256 with
    | .ok o => o.freqs.sum | _ => 0) = 256 := by decide

end Kanzi.Normalize
