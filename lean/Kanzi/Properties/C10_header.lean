/-
C10 (format stability, container part) — the version 6 stream header.
Property theorems only; proofs live in `Kanzi/Proofs/Header.lean`.
The model (`Kanzi/Model/Header.lean`: `headerBits` mirrors `(*Writer).writeHeader`, `parseHeader`
mirrors `(*Reader).readHeader`, constants written by hand from the format) is tied to /repo by the
`hash` correspondence stream (ops `hd`: bytes of the real Writer's header = `packBytes (headerBits h)`;
ops `hp`: verdict and fields of the real Reader = `parseHeader`).
-/
import Kanzi.Model.Header
import Kanzi.Proofs.Header

namespace Kanzi.C10
open Kanzi.Header Kanzi.Bits

/-- C10, header layout: for every header `h` whose fields lie in the ranges accepted by the Writer
constructor (checksum code 0..2, a known entropy code, known transform codes in the eight slots of a
48-bit word, block size a multiple of 16 in [1024, 2^30], size mask k ≤ 3 with an original size below
2^(16k)) and for every continuation `rest` of the stream, the reader's header parser accepts the
writer's header bits, returns exactly `h`, and leaves exactly `rest`. -/
theorem C10_header_roundtrip (h : Header) (wf : WF h) (rest : Bits) :
    parseHeader (headerBits h ++ rest) = .ok (h, rest) :=
  Kanzi.Header.parseHeader_headerBits h wf rest

/-- the hypothesis of `C10_header_roundtrip` holds for every header the Writer emits: parameters
accepted by `createWriterWithCtx`, any non-negative size hint (`mkHeader` chooses the size mask as
`writeHeader` does; hints of 0 or ≥ 2^48 are not stored) -/
theorem C10_header_writer_wf (ck ent tr bs sz : Nat) (hck : ck ≤ 2) (hent : validEntropy ent = true)
    (htr : tr < 2 ^ 48) (hval : validTransform tr = true) (hlo : 1024 ≤ bs) (hhi : bs ≤ 2 ^ 30)
    (h16 : bs % 16 = 0) : WF (mkHeader ck ent tr bs sz) :=
  Kanzi.Header.mkHeader_wf ck ent tr bs sz hck hent htr hval hlo hhi h16

/-- the header occupies 160 + 16·szMask bits (20, 22, 24 or 26 bytes): the payload starts byte
aligned -/
theorem C10_header_length (h : Header) :
    (headerBits h).length = 160 + 16 * (if h.szMask > 0 then h.szMask else 0) :=
  Kanzi.Header.headerBits_length h

/-- C10, the header CRC protects the block size: inverting any single one of the 28 bits of the
block-size field (bits 91..118 of the header) of a well-formed header is always detected — the
reader fails with "incorrect block size" when the damaged value leaves [1024, 2^30], and with
"checksum mismatch" otherwise; it never accepts the damaged header.  (True because the CRC constant
0x1E35A7BD is odd and none of its shifts can be absorbed by a carry inside bits 12..26 of the
accumulator; the 15 padding bits, by contrast, are not protected at all.) -/
theorem C10_header_crc_detects_single_field (h : Header) (wf : WF h) (rest : Bits) (j : Nat) (hj : j < 28) :
    parseHeader (flipBit (headerBits h) (91 + j) ++ rest) = .error .blockSize ∨
    parseHeader (flipBit (headerBits h) (91 + j) ++ rest) = .error .crc :=
  Kanzi.Header.parseHeader_flip_blockSize h wf rest j hj

/-- the hypotheses are satisfiable: TEXT+BWT+RANK+ZRLT / ANS0, 4 MiB blocks, XXHash32, 1 GiB hint -/
example : WF (mkHeader 1 5 ((10 <<< 42) ||| (1 <<< 36) ||| (8 <<< 30) ||| (6 <<< 24)) (4 * 1024 * 1024) (2 ^ 30)) := by
  decide

end Kanzi.C10
