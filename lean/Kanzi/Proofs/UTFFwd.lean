/-
Proofs for the `utf` slice, part 6: `utfForward` as a whole.  For every block of bytes and every
destination of at least `MaxEncodedLen` bytes Forward declines or returns `encoded src start ts iEnd rk`:
header, symbol map, the `start` head bytes, the alias stream of a token walk, the tail bytes; it never
faults.  The ranking `rk` enters only through: its keys are the distinct packed values, each once.
-/
import Kanzi.Proofs.UTFEmit

namespace Kanzi.UTF
open Kanzi.RLT

/-! ## the head -/

theorem headSkip_spec (src : Array Nat) : ∀ (k st : Nat), st + k ≤ src.size →
    ∃ s, headSkip src k st = .ok s ∧ st ≤ s ∧ s ≤ st + k := by
  intro k
  induction k with
  | zero => intro st _; exact ⟨st, rfl, by omega, by omega⟩
  | succ k ih =>
    intro st h
    unfold headSkip
    rw [getElem?_eq_getD src st (by omega)]
    simp only []
    by_cases h0 : utfSize (src.getD st 0) = 0
    · rw [if_pos h0]
      obtain ⟨s, hs, h1, h2⟩ := ih (st + 1) (by omega)
      exact ⟨s, hs, by omega, by omega⟩
    · rw [if_neg h0]; exact ⟨st, rfl, by omega, by omega⟩

theorem headStart_spec (src : Array Nat) (h : 4 ≤ src.size) : ∃ s, headStart src = .ok s ∧ s ≤ 3 := by
  unfold headStart
  rw [getElem?_eq_getD src 0 (by omega), getElem?_eq_getD src 1 (by omega), getElem?_eq_getD src 2 (by omega),
    getElem?_eq_getD src 3 (by omega)]
  simp only []
  split
  · exact ⟨3, rfl, by omega⟩
  · obtain ⟨s, hs, _, h2⟩ := headSkip_spec src 3 0 (by omega)
    exact ⟨s, hs, by omega⟩

/-! ## the part of Forward after the counting loop -/

/-- the continuation of `utfForward` after `countLoop` (same text as in the model; see `utfForward_eq`) -/
def fwdAfterCount (a : Array Nat) (dstLen start : Nat) (c : Array Nat × Array Nat) : Res :=
  let count := a.size
  let n := c.2.size
  if n = 0 then .err "notutf"
  else
    let maxTarget := count - count / 10
    if 3 * n + 6 ≥ maxTarget then .err "noimp"
    else
      (wr dstLen #[0, 0] [(n >>> 8) % 256, n % 256]).bind fun o =>
      (mapLoop dstLen (ranked c.1 c.2.toList) 0 c.1 (4 + 6 + 3 * n) o).bind fun m =>
        if m.est ≥ maxTarget then .err "noimp"
        else
          (wr dstLen m.out (a.extract 0 start).toList).bind fun o2 =>
          (emitLoop a (count - 4) dstLen m.am count start o2).bind fun e =>
          (wr dstLen e.2 (a.extract e.1 count).toList).bind fun o3 =>
            if o3.size ≥ maxTarget then .err "noimp"
            else .ok (start % 256 :: (e.1 - (count - 4)) % 256 :: o3.toList.drop 2)

theorem utfForward_eq (dt : Nat) (src : List Nat) (dstLen : Nat) :
    utfForward dt src dstLen =
      if src.length = 0 ∨ dstLen = 0 then .ok []
      else if src.length < MIN_BLOCKSIZE then .err "small"
      else if dstLen < utfMaxEncodedLen src.length then .err "dst"
      else if dt ≠ DT_UNDEFINED ∧ dt ≠ DT_UTF8 then .err "type"
      else
        (headStart src.toArray).bind fun start =>
          if dt ≠ DT_UTF8 ∧ validate ((src.toArray.extract start (src.toArray.size - 4)).toList) = false then .err "notutf"
          else
            (countLoop src.toArray (src.toArray.size - 4) src.toArray.size start (Array.replicate ALIAS_MAP_SIZE 0) #[]).bind
              fun c => fwdAfterCount src.toArray dstLen start c := rfl

/-- the ranking as a function of the packed value -/
def kofOf (rk : List (Nat × Nat)) (v : Nat) : Nat := (rk.map (·.2)).idxOf v

/-- the output of a successful Forward -/
def encoded (src : List Nat) (start : Nat) (ts : List (Nat × Nat)) (iEnd : Nat) (rk : List (Nat × Nat)) : List Nat :=
  start :: (iEnd - (src.length - 4)) :: (rk.length >>> 8) % 256 :: rk.length % 256 ::
    (mapBytes rk ++ (src.take start ++ (aliasStream (kofOf rk) ts ++ src.drop iEnd)))

/-- what is known about the pieces of a successful Forward -/
structure FwdOK (src : List Nat) (start : Nat) (ts : List (Nat × Nat)) (iEnd : Nat) (rk : List (Nat × Nat)) : Prop where
  len : 1024 ≤ src.length
  start_le : start ≤ 3
  toks : Toks src.toArray (src.length - 4) start ts iEnd
  n_pos : 0 < rk.length
  n_lt : rk.length < 32768
  nodup : (rk.map (·.2)).Nodup
  tok_mem : ∀ t ∈ ts, t.2 ∈ rk.map (·.2)
  key_tok : ∀ v ∈ rk.map (·.2), ∃ t ∈ ts, t.2 = v
  short : (encoded src start ts iEnd rk).length < src.length - src.length / 10

theorem aliasStream_length (kof : Nat → Nat) (ts : List (Nat × Nat)) :
    (aliasStream kof ts).length = ((ts.map (·.2)).map fun v => aliasCost (kof v)).sum := by
  unfold aliasStream
  rw [List.length_flatMap, List.map_map]
  congr 1
  apply List.map_congr_left
  intro t _
  simp [aliasBytes_length]

theorem fwdAfterCount_spec (src : List Nat) (dstLen start iEnd : Nat) (ts : List (Nat × Nat))
    (hb : ∀ x ∈ src, x < 256) (hlen : 1024 ≤ src.length) (hdst : utfMaxEncodedLen src.length ≤ dstLen)
    (hstart : start ≤ 3) (ht : Toks src.toArray (src.length - 4) start ts iEnd)
    (hs : ((ts.map (·.2)).foldl cstep (Array.replicate ALIAS_MAP_SIZE 0, #[])).2.size < MAX_SYMBOLS) :
    (∃ e, fwdAfterCount src.toArray dstLen start ((ts.map (·.2)).foldl cstep (Array.replicate ALIAS_MAP_SIZE 0, #[])) = .err e) ∨
    (∃ rk, FwdOK src start ts iEnd rk ∧
      fwdAfterCount src.toArray dstLen start ((ts.map (·.2)).foldl cstep (Array.replicate ALIAS_MAP_SIZE 0, #[])) =
        .ok (encoded src start ts iEnd rk)) := by
  have hb' : ∀ x ∈ src.toArray.toList, x < 256 := by simpa using hb
  have hinv := CInv.fold (ts.map (·.2)) [] _ CInv.init (by
    intro v hv
    rcases List.mem_map.mp hv with ⟨t, ht', rfl⟩
    exact (ht.all hb' t ht').1)
  rw [List.nil_append] at hinv
  generalize hst : (ts.map (·.2)).foldl cstep (Array.replicate ALIAS_MAP_SIZE 0, #[]) = st at hinv hs ⊢
  have hbd := ht.bounds
  unfold utfMaxEncodedLen at hdst
  unfold MAX_SYMBOLS at hs
  unfold fwdAfterCount
  simp only [List.size_toArray]
  by_cases hn0 : st.2.size = 0
  · rw [if_pos hn0]; left; exact ⟨_, rfl⟩
  rw [if_neg hn0]
  by_cases hn1 : 3 * st.2.size + 6 ≥ src.length - src.length / 10
  · rw [if_pos hn1]; left; exact ⟨_, rfl⟩
  rw [if_neg hn1]
  rw [wr_ok _ _ _ (by simp; omega)]
  simp only [Out.bind_ok]
  -- the ranking
  have hperm := ranked_keys_perm st.1 st.2.toList
  have hrl : (ranked st.1 st.2.toList).length = st.2.size := by
    have := hperm.length_eq; simpa using this
  have hnd : ((ranked st.1 st.2.toList).map (·.2)).Nodup := hperm.nodup_iff.mpr hinv.nodup
  have hkey : ∀ v, v ∈ (ranked st.1 st.2.toList).map (·.2) ↔ v ∈ ts.map (·.2) := by
    intro v; rw [hperm.mem_iff, hinv.mem]
  have hvlt : ∀ v ∈ ts.map (·.2), v < 4194304 := by
    intro v hv
    rcases List.mem_map.mp hv with ⟨t, ht', rfl⟩
    exact (ht.all hb' t ht').1
  have hplt : ∀ p ∈ ranked st.1 st.2.toList, p.2 < st.1.size := by
    intro p hp
    rw [hinv.size]
    exact hvlt _ ((hkey p.2).mp (List.mem_map.mpr ⟨p, hp, rfl⟩))
  rw [mapLoop_spec _ _ _ _ _ _ hplt (by rw [hrl, size_appendList]; simp; omega)]
  simp only [Out.bind_ok]
  by_cases hn2 : 4 + 6 + 3 * st.2.size + estSum (ranked st.1 st.2.toList) 0 ≥ src.length - src.length / 10
  · rw [if_pos hn2]; left; exact ⟨_, rfl⟩
  rw [if_neg hn2]
  -- the head bytes
  have hhead : (src.toArray.extract 0 start).toList = src.take start := by
    rw [Array.toList_extract]; simp [List.extract]
  rw [hhead]
  have hmb := mapBytes_length (ranked st.1 st.2.toList)
  rw [wr_ok _ _ _ (by
    rw [size_appendList, size_appendList, hmb, hrl, List.length_take]; simp; omega)]
  simp only [Out.bind_ok]
  -- the alias stream
  have hsum : (aliasStream (kofOf (ranked st.1 st.2.toList)) ts).length = estSum (ranked st.1 st.2.toList) 0 := by
    rw [aliasStream_length]
    have := alias_sum (ranked st.1 st.2.toList) (ts.map (·.2)) 0 hnd (fun v hv => (hkey v).mpr hv) (by
      intro p hp
      rw [ranked_fst _ _ p hp]
      exact hinv.cnt p.2 (by have := hplt p hp; rw [hinv.size] at this; exact this))
    simp only [Nat.zero_add] at this
    exact this
  have hemit := emitLoop_spec src.toArray (src.length - 4) dstLen
    (amFinal (ranked st.1 st.2.toList) 0 st.1) (kofOf (ranked st.1 st.2.toList))
    (by simp; omega) ht (by
      intro t ht'
      have hmem : t.2 ∈ (ranked st.1 st.2.toList).map (·.2) := (hkey t.2).mpr (List.mem_map.mpr ⟨t, ht', rfl⟩)
      refine ⟨?_, ?_, ?_⟩
      · rw [amFinal_size, hinv.size]; exact (ht.all hb' t ht').1
      · have := List.idxOf_lt_length_iff.mpr hmem
        rw [List.length_map, hrl] at this
        unfold kofOf; omega
      · have := amFinal_get (ranked st.1 st.2.toList) 0 st.1 t.2 hnd hplt hmem
        rw [Nat.zero_add] at this
        exact this)
    src.length
    (((#[0, 0] ++ [(st.2.size >>> 8) % 256, st.2.size % 256]) ++ mapBytes (ranked st.1 st.2.toList)) ++ src.take start)
    (by omega)
    (by rw [hsum, size_appendList, size_appendList, size_appendList, hmb, hrl, List.length_take]; simp; omega)
  rw [hemit]
  simp only [Out.bind_ok]
  -- the tail bytes
  have htail : (src.toArray.extract iEnd src.length).toList = src.drop iEnd := by
    rw [Array.toList_extract]; simp only [List.extract]
    exact List.take_of_length_le (by simp)
  rw [htail]
  rw [wr_ok _ _ _ (by
    rw [size_appendList, size_appendList, size_appendList, size_appendList, hsum, hmb, hrl, List.length_take,
      List.length_drop]; simp; omega)]
  simp only [Out.bind_ok]
  -- the final size check
  have hfin : (((((#[0, 0] ++ [(st.2.size >>> 8) % 256, st.2.size % 256]) ++ mapBytes (ranked st.1 st.2.toList)) ++
      src.take start) ++ aliasStream (kofOf (ranked st.1 st.2.toList)) ts) ++ src.drop iEnd).toList.drop 2 =
      (st.2.size >>> 8) % 256 :: st.2.size % 256 :: (mapBytes (ranked st.1 st.2.toList) ++ (src.take start ++
        (aliasStream (kofOf (ranked st.1 st.2.toList)) ts ++ src.drop iEnd))) := by
    simp
  have hsize : (((((#[0, 0] ++ [(st.2.size >>> 8) % 256, st.2.size % 256]) ++ mapBytes (ranked st.1 st.2.toList)) ++
      src.take start) ++ aliasStream (kofOf (ranked st.1 st.2.toList)) ts) ++ src.drop iEnd).size =
      (encoded src start ts iEnd (ranked st.1 st.2.toList)).length := by
    rw [size_appendList, size_appendList, size_appendList, size_appendList]
    simp [encoded]; omega
  rw [hsize, hfin]
  by_cases hn3 : (encoded src start ts iEnd (ranked st.1 st.2.toList)).length ≥ src.length - src.length / 10
  · rw [if_pos hn3]; left; exact ⟨_, rfl⟩
  rw [if_neg hn3]
  right
  refine ⟨ranked st.1 st.2.toList, ?_, ?_⟩
  · exact {
      len := hlen
      start_le := hstart
      toks := ht
      n_pos := by omega
      n_lt := by omega
      nodup := hnd
      tok_mem := fun t ht' => (hkey t.2).mpr (List.mem_map.mpr ⟨t, ht', rfl⟩)
      key_tok := fun v hv => by
        rcases List.mem_map.mp ((hkey v).mp hv) with ⟨t, ht', rfl⟩
        exact ⟨t, ht', rfl⟩
      short := by omega }
  · unfold encoded
    rw [hrl]
    have e1 : start % 256 = start := by omega
    have e2 : (iEnd - (src.length - 4)) % 256 = iEnd - (src.length - 4) := by omega
    rw [e1, e2]

/-- Forward on a destination of at least `MaxEncodedLen` bytes: `.ok []` for the empty block, a decline,
    or the encoding of a token walk; never a fault -/
theorem utfForward_spec (dt : Nat) (src : List Nat) (dstLen : Nat) (hb : ∀ x ∈ src, x < 256)
    (hdst : utfMaxEncodedLen src.length ≤ dstLen) :
    (src = [] ∧ utfForward dt src dstLen = .ok []) ∨ (∃ e, utfForward dt src dstLen = .err e) ∨
    (∃ start ts iEnd rk, FwdOK src start ts iEnd rk ∧ utfForward dt src dstLen = .ok (encoded src start ts iEnd rk)) := by
  rw [utfForward_eq]
  by_cases h0 : src.length = 0
  · left; exact ⟨List.length_eq_zero_iff.mp h0, by simp [h0]⟩
  have hd0 : dstLen ≠ 0 := by unfold utfMaxEncodedLen at hdst; omega
  rw [if_neg (by omega)]
  by_cases h1 : src.length < MIN_BLOCKSIZE
  · rw [if_pos h1]; right; left; exact ⟨_, rfl⟩
  rw [if_neg h1, if_neg (by omega)]
  unfold MIN_BLOCKSIZE at h1
  by_cases h2 : dt ≠ DT_UNDEFINED ∧ dt ≠ DT_UTF8
  · rw [if_pos h2]; right; left; exact ⟨_, rfl⟩
  rw [if_neg h2]
  obtain ⟨start, hst, hstart⟩ := headStart_spec src.toArray (by simp; omega)
  rw [hst]
  simp only [Out.bind_ok]
  split
  · right; left; exact ⟨_, rfl⟩
  · have hb' : ∀ x ∈ src.toArray.toList, x < 256 := by simpa using hb
    rcases countLoop_spec src.toArray (src.toArray.size - 4) hb' (by simp; omega) src.toArray.size start
      (Array.replicate ALIAS_MAP_SIZE 0) #[] (by omega) (by simp [ALIAS_MAP_SIZE]) (by simp [MAX_SYMBOLS])
      with ⟨e, he⟩ | ⟨ts, iEnd, ht, hc, hs⟩
    · right; left; rw [he]; exact ⟨e, rfl⟩
    · rw [hc]
      simp only [Out.bind_ok]
      simp only [List.size_toArray] at ht
      rcases fwdAfterCount_spec src dstLen start iEnd ts hb (by omega) hdst hstart ht hs with ⟨e, he⟩ | ⟨rk, hok, he⟩
      · right; left; exact ⟨e, he⟩
      · right; right; exact ⟨start, ts, iEnd, rk, hok, he⟩

end Kanzi.UTF
