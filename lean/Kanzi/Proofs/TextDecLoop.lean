/-
Slice `texttotal` (C03): `TextCodec.Inverse` on arbitrary input.  Part 2: the loop invariant `TInv`, one iteration,
the loop, the whole call; agreement of the traced loop (`invLoopT`) with `invLoop`.
-/
import Kanzi.Proofs.TextDec

namespace Kanzi.Text
open Kanzi.RLT (Out Res)

/-- loop invariant of Inverse on ARBITRARY input.  `D0` = the `dictSize` chosen by `reset`, `z` = `staticDictSize`.
    `dok`: the dictionary is well formed; `text`: the bytes of the current word are letters; `out_le`: nothing
    was written beyond `dst`; `gw`, `gs`: the ring index and the dictionary size are paid for by source bytes
    (every learnt word consumes at least 4 bytes of the source: 3 letters and a delimiter). -/
structure TInv (a : Array Nat) (dstLen D0 z hz : Nat) (s : ISt) : Prop where
  dok : DictOK s.d s.words
  i_le : s.i ≤ a.size
  ws_le : s.ws ≤ s.i + 1
  text : ∀ k, s.ws ≤ k → k < s.i → isText (a.getD k 0) = true
  out_le : s.out.size ≤ dstLen
  ssz_eq : s.d.ssz = z
  hsz_eq : s.d.hsz = hz
  size_ge : 128 ≤ s.d.size
  gw : 4 * s.words ≤ 4 * z + s.ws
  gs : s.d.size = D0 ∨ 2 * s.d.size ≤ 4 * z + s.ws

/-- the state handed to the token part of an iteration (after `srcIdx++` and the learning step) -/
structure TokPre (a : Array Nat) (dstLen D0 z hz : Nat) (t : ISt) : Prop where
  dok : DictOK t.d t.words
  i_le : t.i ≤ a.size
  out_lt : t.out.size < dstLen
  ssz_eq : t.d.ssz = z
  hsz_eq : t.d.hsz = hz
  size_ge : 128 ≤ t.d.size
  gw : 4 * t.words ≤ 4 * z + t.i
  gs : t.d.size = D0 ∨ 2 * t.d.size ≤ 4 * z + t.i

/-- what is known about the dictionary a call leaves behind (`n` = `len(src)`): `len(dictList) = dictSize`, at
    most 2^19 entries, `len(dictMap)` unchanged, and either the size chosen by `reset` or at most `2 staticDictSize + (n+1)/2` -/
structure DB (n D0 z hz : Nat) (d : Dict) : Prop where
  size_eq : d.list.size = d.size
  size_le : d.size ≤ MAX_DICT_SIZE
  ssz_eq : d.ssz = z
  hsz_eq : d.hsz = hz
  map_size : d.map.size = hz
  dok : ∃ w, DictOK d w
  size_ge : 128 ≤ d.size
  grow : d.size = D0 ∨ 2 * d.size ≤ 4 * z + n + 1

theorem TokPre.db {a : Array Nat} {dstLen D0 z hz : Nat} {t : ISt} (h : TokPre a dstLen D0 z hz t) :
    DB a.size D0 z hz t.d :=
  ⟨h.dok.size_eq, h.dok.size_le, h.ssz_eq, h.hsz_eq, by rw [h.dok.map_size]; exact h.hsz_eq, ⟨_, h.dok⟩, h.size_ge,
    by have := h.gs; have := h.i_le; omega⟩

theorem TInv.db {a : Array Nat} {dstLen D0 z hz : Nat} {s : ISt} (h : TInv a dstLen D0 z hz s) :
    DB a.size D0 z hz s.d :=
  ⟨h.dok.size_eq, h.dok.size_le, h.ssz_eq, h.hsz_eq, by rw [h.dok.map_size]; exact h.hsz_eq, ⟨_, h.dok⟩, h.size_ge,
    by have := h.gs; have := h.i_le; have := h.ws_le; omega⟩

/-- a token that leaves the dictionary alone and ends at `t'.i` with the word start at or behind it -/
theorem TInv_of_tok {a : Array Nat} {dstLen D0 z hz : Nat} {t t' : ISt} (h : TokPre a dstLen D0 z hz t)
    (hi : t.i ≤ t'.i) (hi2 : t'.i ≤ a.size) (hws1 : t'.i ≤ t'.ws) (hws2 : t'.ws ≤ t'.i + 1)
    (hw : t'.words = t.words) (hd : t'.d = t.d) (ho : t'.out.size ≤ dstLen) : TInv a dstLen D0 z hz t' := by
  refine ⟨by rw [hd, hw]; exact h.dok, hi2, hws2, fun k h1 h2 => by omega, ho, by rw [hd]; exact h.ssz_eq,
    by rw [hd]; exact h.hsz_eq, by rw [hd]; exact h.size_ge, ?_, ?_⟩
  · rw [hw]; have := h.gw; omega
  · rw [hd]; have := h.gs; omega

/-! ## the token part -/

theorem emitWord_cases (dstLen : Nat) (t : ISt) (i2 idx flip : Nat) (hidx : idx < t.d.list.size) :
    emitWord dstLen t i2 idx flip = .err "data" ∨
    ∃ t', emitWord dstLen t i2 idx flip = .ok t' ∧ t'.i = i2 ∧ i2 ≤ t'.ws ∧ t'.ws ≤ i2 + 1 ∧
      t'.words = t.words ∧ t'.d = t.d ∧ t'.out.size < dstLen := by
  unfold emitWord
  simp only
  rw [if_neg (by omega)]
  cases hp : (entryAt t.d idx).ptr with
  | none => exact Or.inl rfl
  | some w =>
    simp only
    generalize (if (entryAt t.d idx).len % 256 > 1 ∧ t.run = true then t.out.push 32 else t.out) = o1
    by_cases hlt : o1.size + (entryAt t.d idx).len % 256 ≥ dstLen
    · rw [if_pos hlt]; exact Or.inl rfl
    · rw [if_neg hlt]
      refine Or.inr ⟨_, rfl, rfl, ?_, ?_, rfl, rfl, ?_⟩
      · show i2 ≤ if (entryAt t.d idx).len % 256 > 1 then i2 + 1 else i2
        split <;> omega
      · show (if (entryAt t.d idx).len % 256 > 1 then i2 + 1 else i2) ≤ i2 + 1
        split <;> omega
      · show (o1 ++ flipHead flip (w.take ((entryAt t.d idx).len % 256))).size < dstLen
        rw [size_appendList, flipHead_length, List.length_take]
        omega

theorem emitWord_spec {a : Array Nat} {dstLen D0 z hz : Nat} {t : ISt} (h : TokPre a dstLen D0 z hz t)
    (i2 idx flip : Nat) (h1 : t.i ≤ i2) (h2 : i2 ≤ a.size) (hidx : idx < t.d.size ∨ idx < 128) :
    emitWord dstLen t i2 idx flip = .err "data" ∨
    ∃ t', emitWord dstLen t i2 idx flip = .ok t' ∧ TInv a dstLen D0 z hz t' ∧ t.i ≤ t'.i := by
  have hl : idx < t.d.list.size := by rw [h.dok.size_eq]; have := h.size_ge; omega
  rcases emitWord_cases dstLen t i2 idx flip hl with e | ⟨t', e, ei, w1, w2, hw, hd, ho⟩
  · exact Or.inl e
  · exact Or.inr ⟨t', e, TInv_of_tok h (by omega) (by omega) (by omega) (by omega) hw hd (by omega), by omega⟩

theorem invLit_spec {a : Array Nat} {dstLen D0 z hz : Nat} {t : ISt} (h : TokPre a dstLen D0 z hz t) (crlf : Bool)
    (cur : Nat) :
    invLit dstLen crlf t cur = .err "data" ∨
    ∃ t', invLit dstLen crlf t cur = .ok t' ∧ TInv a dstLen D0 z hz t' ∧ t.i ≤ t'.i := by
  unfold invLit
  have ho := h.out_lt
  split
  · split
    · exact Or.inl rfl
    · refine Or.inr ⟨_, rfl, TInv_of_tok h (Nat.le_refl _) h.i_le (Nat.le_refl _) (Nat.le_succ _) rfl rfl ?_,
        Nat.le_refl _⟩
      show ((t.out.push CR).push cur).size ≤ dstLen
      rw [Array.size_push, Array.size_push]; omega
  · refine Or.inr ⟨_, rfl, TInv_of_tok h (Nat.le_refl _) h.i_le (Nat.le_refl _) (Nat.le_succ _) rfl rfl ?_,
      Nat.le_refl _⟩
    show (t.out.push cur).size ≤ dstLen
    rw [Array.size_push]; omega

/-- the possible error classes of the loop, and the possible panics -/
def ErrOK (e : String) : Prop := e = "index" ∨ e = "data"
def FaultOK (tc2 old : Bool) (e : String) : Prop := e = "src-index" ∨ (tc2 = true ∧ old = false ∧ e = "dict-index")

/-- outcome of the token part -/
def TokPost (a : Array Nat) (dstLen D0 z hz : Nat) (tc2 old : Bool) (t : ISt) (r : Out ISt) : Prop :=
  match r with
  | .ok t' => TInv a dstLen D0 z hz t' ∧ t.i ≤ t'.i
  | .err e => ErrOK e
  | .fault e => FaultOK tc2 old e

theorem invTok1_spec {a : Array Nat} {dstLen D0 z hz : Nat} {t : ISt} (h : TokPre a dstLen D0 z hz t) (crlf old : Bool)
    (cur : Nat) : TokPost a dstLen D0 z hz false old t (invTok1 a dstLen crlf t cur) := by
  unfold invTok1
  split
  · rcases readIdx1_cases a t.i t.d.size with e | e | ⟨idx, i2, e, h1, h2, h3⟩
    · rw [e]; exact Or.inl rfl
    · rw [e]; exact Or.inl rfl
    · rw [e]
      simp only
      rcases emitWord_spec h i2 idx _ (by omega) h2 h3 with e2 | ⟨t', e2, hT, hi⟩
      · rw [e2]; exact Or.inr rfl
      · rw [e2]; exact ⟨hT, hi⟩
  · rcases invLit_spec h crlf cur with e | ⟨t', e, hT, hi⟩
    · rw [e]; exact Or.inr rfl
    · rw [e]; exact ⟨hT, hi⟩

theorem invTok2_spec {a : Array Nat} {dstLen D0 z hz : Nat} {t : ISt} (h : TokPre a dstLen D0 z hz t) (crlf old : Bool)
    (cur : Nat) : TokPost a dstLen D0 z hz true old t (invTok2 old a dstLen crlf t cur) := by
  unfold invTok2
  split
  · cases old with
    | true =>
      simp only [if_true]
      rcases readIdx2Old_cases a t.i cur t.d.size h.i_le with e | e | ⟨idx, i2, fl, e, h1, h2, h3⟩
      · rw [e]; exact Or.inl rfl
      · rw [e]; exact Or.inl rfl
      · rw [e]
        simp only
        rcases emitWord_spec h i2 idx fl h1 h2 h3 with e2 | ⟨t', e2, hT, hi⟩
        · rw [e2]; exact Or.inr rfl
        · rw [e2]; exact ⟨hT, hi⟩
    | false =>
      simp only [Bool.false_eq_true, if_false]
      rcases readIdx2_cases a t.i cur t.d.size h.i_le with e | e | e | ⟨idx, i2, fl, e, h1, h2, h3⟩
      · rw [e]; exact Or.inl rfl
      · rw [e]; exact Or.inr ⟨rfl, rfl, rfl⟩
      · rw [e]; exact Or.inl rfl
      · rw [e]
        simp only
        rcases emitWord_spec h i2 idx fl h1 h2 h3 with e2 | ⟨t', e2, hT, hi⟩
        · rw [e2]; exact Or.inr rfl
        · rw [e2]; exact ⟨hT, hi⟩
  · split
    · cases hb : a[t.i]? with
      | none => exact Or.inl rfl
      | some b =>
        have l := lt_of_getElem?_some a _ b hb
        have ho := h.out_lt
        refine ⟨TInv_of_tok h (Nat.le_succ _) (by show t.i + 1 ≤ a.size; omega) (Nat.le_refl _) (Nat.le_succ _) rfl rfl ?_,
          Nat.le_succ _⟩
        show (t.out.push b).size ≤ dstLen
        rw [Array.size_push]; omega
    · rcases invLit_spec h crlf cur with e | ⟨t', e, hT, hi⟩
      · rw [e]; exact Or.inr rfl
      · rw [e]; exact ⟨hT, hi⟩

/-! ## one iteration, the loop -/

/-- outcome of the traced iteration / loop / call -/
def TrPost (a : Array Nat) (dstLen D0 z hz : Nat) (tc2 old : Bool) (lo : Nat) (r : ITr) : Prop :=
  match r with
  | .ok s' => TInv a dstLen D0 z hz s' ∧ lo ≤ s'.i
  | .err e d => ErrOK e ∧ DB a.size D0 z hz d
  | .fault e d => FaultOK tc2 old e ∧ DB a.size D0 z hz d

/-- one iteration from a state that satisfies the invariant: the invariant again and `srcIdx` advanced, or one
    of the two error classes, or one of the panics - never anything else; the dictionary stays bounded -/
theorem invStepT_spec (tc2 old : Bool) (a : Array Nat) (dstLen D0 z hz : Nat) (crlf : Bool) (s : ISt)
    (hI : TInv a dstLen D0 z hz s) (hi : s.i < a.size) (ho : s.out.size < dstLen) :
    TrPost a dstLen D0 z hz tc2 old (s.i + 1) (invStepT tc2 old a dstLen crlf s) := by
  unfold invStepT
  simp only
  by_cases c0 : isText (a.getD s.i 0) = true
  · rw [if_pos c0]
    refine ⟨⟨hI.dok, by show s.i + 1 ≤ a.size; omega, by show s.ws ≤ s.i + 1 + 1; have := hI.ws_le; omega, ?_, ?_,
      hI.ssz_eq, hI.hsz_eq, hI.size_ge, hI.gw, hI.gs⟩, Nat.le_refl _⟩
    · intro k h1 h2
      by_cases hk : k < s.i
      · exact hI.text k h1 hk
      · have : k = s.i := by have : k < s.i + 1 := h2; omega
        rw [this]; exact c0
    · show (s.out.push (a.getD s.i 0)).size ≤ dstLen
      rw [Array.size_push]; omega
  · rw [if_neg c0]
    obtain ⟨p, hp, hl, hcase⟩ := invLearn_ok a s.i s.ws s.words s.d (a.getD s.i 0) hI.dok (by omega) hI.text
    rw [hp]
    simp only
    have hws := hI.ws_le
    have hgw := hI.gw
    have hgs := hI.gs
    have hsz := hI.size_ge
    have hwle := hl.w_le
    have hsize := hl.size
    have hpre : TokPre a dstLen D0 z hz ⟨s.i + 1, s.ws, p.2, s.run, p.1, s.out⟩ := by
      refine ⟨hl.dok, by show s.i + 1 ≤ a.size; omega, ho, by show p.1.ssz = z; rw [hl.ssz]; exact hI.ssz_eq,
        by show p.1.hsz = hz; rw [hl.hsz]; exact hI.hsz_eq, ?_, ?_, ?_⟩
      · show 128 ≤ p.1.size
        omega
      · show 4 * p.2 ≤ 4 * z + (s.i + 1)
        rcases hcase with hc | hc
        · rw [hc]; show 4 * s.words ≤ 4 * z + (s.i + 1); omega
        · omega
      · show p.1.size = D0 ∨ 2 * p.1.size ≤ 4 * z + (s.i + 1)
        rcases hcase with hc | hc
        · rw [hc]; show s.d.size = D0 ∨ 2 * s.d.size ≤ 4 * z + (s.i + 1); omega
        · omega
    have hdb := hpre.db
    have hpost : TokPost a dstLen D0 z hz tc2 old ⟨s.i + 1, s.ws, p.2, s.run, p.1, s.out⟩
        (if tc2 = true then invTok2 old a dstLen crlf ⟨s.i + 1, s.ws, p.2, s.run, p.1, s.out⟩ (a.getD s.i 0)
         else invTok1 a dstLen crlf ⟨s.i + 1, s.ws, p.2, s.run, p.1, s.out⟩ (a.getD s.i 0)) := by
      cases tc2 with
      | true => simp only [if_true]; exact invTok2_spec hpre crlf old _
      | false => simp only [Bool.false_eq_true, if_false]; exact invTok1_spec hpre crlf old _
    generalize (if tc2 = true then invTok2 old a dstLen crlf ⟨s.i + 1, s.ws, p.2, s.run, p.1, s.out⟩ (a.getD s.i 0)
         else invTok1 a dstLen crlf ⟨s.i + 1, s.ws, p.2, s.run, p.1, s.out⟩ (a.getD s.i 0)) = r at hpost
    cases r with
    | ok t' => exact hpost
    | err e => exact ⟨hpost, hdb⟩
    | fault e => exact ⟨hpost, hdb⟩

/-- the loop from a state that satisfies the invariant, with enough fuel: it ends (the fuel is not exhausted) in
    a state that satisfies the invariant, or with one of the error classes / panics -/
theorem invLoopT_spec (tc2 old : Bool) (a : Array Nat) (dstLen D0 z hz : Nat) (crlf : Bool) :
    ∀ (f : Nat) (s : ISt), TInv a dstLen D0 z hz s → a.size < f + s.i →
      TrPost a dstLen D0 z hz tc2 old s.i (invLoopT tc2 old a dstLen crlf f s)
  | 0, s, hI, hf => by have := hI.i_le; omega
  | f + 1, s, hI, hf => by
    unfold invLoopT
    by_cases c : s.i < a.size ∧ s.out.size < dstLen
    · rw [if_pos c]
      have hs := invStepT_spec tc2 old a dstLen D0 z hz crlf s hI c.1 c.2
      cases hstep : invStepT tc2 old a dstLen crlf s with
      | ok s' =>
        rw [hstep] at hs
        simp only
        have hr := invLoopT_spec tc2 old a dstLen D0 z hz crlf f s' hs.1 (by have := hs.2; omega)
        cases hloop : invLoopT tc2 old a dstLen crlf f s' with
        | ok s'' => rw [hloop] at hr; exact ⟨hr.1, by have := hr.2; have := hs.2; omega⟩
        | err e d => rw [hloop] at hr; exact hr
        | fault e d => rw [hloop] at hr; exact hr
      | err e d => rw [hstep] at hs; exact hs
      | fault e d => rw [hstep] at hs; exact hs
    · rw [if_neg c]
      exact ⟨hI, Nat.le_refl _⟩

/-! ## the traced loop is the loop -/

theorem invStepT_toOut (tc2 old : Bool) (a : Array Nat) (dstLen : Nat) (crlf : Bool) (s : ISt) :
    (invStepT tc2 old a dstLen crlf s).toOut = invStep tc2 old a dstLen crlf s := by
  unfold invStepT invStep
  simp only
  by_cases c0 : isText (a.getD s.i 0) = true
  · rw [if_pos c0, if_pos c0]; rfl
  · rw [if_neg c0, if_neg c0]
    cases invLearn a s.i s.ws s.words s.d (a.getD s.i 0) with
    | err e => rfl
    | fault e => rfl
    | ok p =>
      simp only
      cases tc2 with
      | true =>
        simp only [if_true]
        cases invTok2 old a dstLen crlf ⟨s.i + 1, s.ws, p.2, s.run, p.1, s.out⟩ (a.getD s.i 0) <;> rfl
      | false =>
        simp only [Bool.false_eq_true, if_false]
        cases invTok1 a dstLen crlf ⟨s.i + 1, s.ws, p.2, s.run, p.1, s.out⟩ (a.getD s.i 0) <;> rfl

theorem invLoopT_toOut (tc2 old : Bool) (a : Array Nat) (dstLen : Nat) (crlf : Bool) :
    ∀ (f : Nat) (s : ISt), (invLoopT tc2 old a dstLen crlf f s).toOut = invLoop tc2 old a dstLen crlf f s
  | 0, s => rfl
  | f + 1, s => by
    unfold invLoopT invLoop
    by_cases c : s.i < a.size ∧ s.out.size < dstLen
    · rw [if_pos c, if_pos c, ← invStepT_toOut]
      cases invStepT tc2 old a dstLen crlf s with
      | ok s' => exact invLoopT_toOut tc2 old a dstLen crlf f s'
      | err e d => rfl
      | fault e d => rfl
    · rw [if_neg c, if_neg c]; rfl

end Kanzi.Text
