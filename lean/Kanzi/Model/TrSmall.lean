/-
Models of the small byte transforms and of the transform sequence (slice `trsmall`, C13 / C01_sequence):

  * `transform.NullTransform`            (v2/transform/NullTransform.go)
  * `transform.ZRLT`  Forward/Inverse    (v2/transform/ZRLT.go)
  * `transform.SBRT`  Forward/Inverse    (v2/transform/SBRT.go; modes MTF=1, RANK=2, TIMESTAMP=3)
  * `transform.ByteTransformSequence`    (v2/transform/Sequence.go) over abstract stages, and the
    way `io/CompressedStream.go` stores the skip flags in the block mode byte / the extra byte.

Core Lean only (linked into `kmodel`).  Bytes are `Nat` (< 256) in `List Nat`.  A Go call
`Forward(src, dst)` / `Inverse(src, dst)` is modelled as a function of the value of `src` and of
`len(dst)` returning `Except String (List Nat)`: `.ok out` is `dst[0:written]` when the Go call returns
a nil error, `.error _` is any non-nil error (the forward "declined", the inverse "failed").  Go
writes through an index into `dst`; the model appends to an `Array Nat` whose `size` is that index.
Values are immutable, so "the input is left untouched" holds by construction (it is checked on the
real code by the oracle of the `trsmall` stream, not here).
-/
namespace Kanzi.TrSmall

abbrev Res := Except String (List Nat)

/-! ## NullTransform -/

/-- Go: `NullTransform.MaxEncodedLen` -/
def nullMaxEncodedLen (n : Nat) : Nat := n

/-- Go: `doCopy` -/
def nullCopy (src : List Nat) (dstLen : Nat) : Res :=
  if src.length = 0 ∨ dstLen = 0 then .ok []
  else if src.length > dstLen then .error "dst-too-small"
  else .ok src

/-- Go: `NullTransform.Forward` (size check first, then `doCopy`) -/
def nullForward (src : List Nat) (dstLen : Nat) : Res :=
  if dstLen < nullMaxEncodedLen src.length then .error "dst-too-small" else nullCopy src dstLen

/-- Go: `NullTransform.Inverse` -/
def nullInverse (src : List Nat) (dstLen : Nat) : Res := nullCopy src dstLen

/-! ## ZRLT -/

/-- Go: `ZRLT.MaxEncodedLen` -/
def zrltMaxEncodedLen (n : Nat) : Nat := n

/-- bits `k-1 … 0` of `v`, most significant first, one per byte
    (Go: `for log2 > 0 { log2--; dst[dstIdx] = byte((runLength >> log2) & 1); dstIdx++ }`) -/
def bitBytes (v : Nat) : Nat → List Nat
  | 0 => []
  | k + 1 => ((v >>> k) &&& 1) :: bitBytes v k

/-- Go: `internal.Log2NoCheck(uint32(runLength))` (the conversion truncates; `Log2NoCheck(0)` would
    panic in Go and is 0 here: it needs a run of 2^32-1 zeros, more than the 1 GiB block limit) -/
def zrltLog2 (runLength : Nat) : Nat := Nat.log2 (runLength % 2 ^ 32)

/-- End of a zero run of `run` zeros (`run = 0`: no pending run): the length check and the
    emission of `run+1` without its leading 1 bit.  `none` = Go sets `res = false` and stops.
    Go compares against `dstEnd-uint(log2)` in unsigned arithmetic; it cannot wrap because
    `log2 ≤ log2(len(src)+1) ≤ len(src) = dstEnd` (`Kanzi.TrSmall.zrlt_log2_le`). -/
def zrltFlush (dstEnd run : Nat) (out : Array Nat) : Option (Array Nat) :=
  if run = 0 then some out
  else if out.size ≥ dstEnd - zrltLog2 (run + 1) then none
  else some (out ++ bitBytes (run + 1) (zrltLog2 (run + 1)))

/-- Main loop of `ZRLT.Forward` as a left-to-right pass: `run` counts the zeros of the current run
    (Go scans the maximal run with two inner loops and computes `runLength = srcIdx - runStart =
    run + 1`), `out.size` is `dstIdx`, `dstEnd = len(src)` ("do not expand"). -/
def zrltFwdGo (dstEnd : Nat) : List Nat → Nat → Array Nat → Option (Array Nat)
  | [], run, out => zrltFlush dstEnd run out
  | x :: rest, run, out =>
    if x = 0 then zrltFwdGo dstEnd rest (run + 1) out
    else
      match zrltFlush dstEnd run out with
      | none => none
      | some o1 =>
        if x ≥ 0xFE then
          if o1.size ≥ dstEnd - 1 then none
          else zrltFwdGo dstEnd rest 0 ((o1.push 0xFF).push (x - 0xFE))
        else if o1.size ≥ dstEnd then none
        else zrltFwdGo dstEnd rest 0 (o1.push (x + 1))

/-- Go: `ZRLT.Forward(src, dst)` with `len(dst) = dstLen` -/
def zrltForward (src : List Nat) (dstLen : Nat) : Res :=
  if src.length = 0 ∨ dstLen = 0 then .ok []
  else if dstLen < zrltMaxEncodedLen src.length then .error "dst-too-small"
  else match zrltFwdGo src.length src 0 #[] with
    | none => .error "declined"
    | some o => .ok o.toList

/-- Go `uint` arithmetic of `runLength` in `Inverse` (wraps only on malformed input with more than
    63 consecutive 0/1 bytes) -/
def wrap64 (x : Nat) : Nat := x % 2 ^ 64

/-- Pending run at a non-bit byte: `runLength--; if runLength >= dstEnd-dstIdx {break}` (the break
    always ends in an error because `srcIdx < srcEnd`), else write the zeros.
    `st = none`: loop top outside a run (Go leaves the loop when `dstIdx >= dstEnd` with input left,
    which is reported as an error). -/
def zrltInvFlush (dstEnd : Nat) (st : Option Nat) (out : Array Nat) : Except String (Array Nat) :=
  match st with
  | none => if out.size ≥ dstEnd then .error "dst-full" else .ok out
  | some rl =>
    if wrap64 (rl + (2 ^ 64 - 1)) ≥ dstEnd - out.size then .error "dst-full"
    else .ok (out ++ List.replicate (wrap64 (rl + (2 ^ 64 - 1))) 0)

/-- Main loop of `ZRLT.Inverse`.  `st = some rl`: inside the inner loop that accumulates a run
    length (`rl` = Go `runLength`); `none`: outside.  `out.size` is `dstIdx`. -/
def zrltInvGo (dstEnd : Nat) : List Nat → Option Nat → Array Nat → Except String (Array Nat)
  | [], none, out => .ok out
  | [], some rl, out =>
    -- `goto End` with `srcIdx == srcEnd`: trailing zeros
    if rl = 0 then .ok out
    else if rl - 1 > dstEnd - out.size then .error "dst-full"
    else .ok (out ++ List.replicate (rl - 1) 0)
  | x :: rest, st, out =>
    if x ≤ 1 then
      match st with
      | none =>
        if out.size ≥ dstEnd then .error "dst-full"
        else zrltInvGo dstEnd rest (some (wrap64 (1 + (1 + x)))) out
      | some rl => zrltInvGo dstEnd rest (some (wrap64 (rl + (rl + x)))) out
    else
      match zrltInvFlush dstEnd st out with
      | .error e => .error e
      | .ok o1 =>
        if x = 0xFF then
          match rest with
          | [] => .ok o1   -- truncated escape: Go leaves the loop without error
          | y :: rest' => zrltInvGo dstEnd rest' none (o1.push ((0xFE + y) % 256))
        else zrltInvGo dstEnd rest none (o1.push (x - 1))

/-- Go: `ZRLT.Inverse(src, dst)` with `len(dst) = dstLen` -/
def zrltInverse (src : List Nat) (dstLen : Nat) : Res :=
  if src.length = 0 ∨ dstLen = 0 then .ok []
  else match zrltInvGo dstLen src none #[] with
    | .error e => .error e
    | .ok o => .ok o.toList

/-! ## SBRT -/

/-- `_BWT_MAX_HEADER_SIZE = 1 + 8*4` -/
def sbrtMaxEncodedLen (n : Nat) : Nat := n + 33

/-- Go array read `a[i]` (the arrays have 256 entries and every index is a byte) -/
def rd (a : Array Nat) (i : Nat) : Nat := a.getD i 0
/-- Go array write `a[i] = v` -/
def wr (a : Array Nat) (i v : Nat) : Array Nat := a.setIfInBounds i v

/-- Go: `qc := ((i & m1) + (p[c] & m2)) >> s` with
    MTF: m1=-1 m2=0 s=0;  RANK: m1=-1 m2=-1 s=1;  TIMESTAMP: m1=0 m2=-1 s=0 -/
def sbrtQc (mode i pc : Nat) : Nat :=
  ((if mode = 3 then 0 else i) + (if mode = 1 then 0 else pc)) >>> (if mode = 2 then 1 else 0)

/-- Forward "move up symbol to correct rank" loop:
    `for r > 0 && q[r2s[r-1]] <= qc { t := r2s[r-1]; r2s[r], s2r[t] = t, r; r-- }`.
    Returns (final r, s2r, r2s). -/
def sbrtFwdUp (q : Array Nat) (qc : Nat) : Nat → Array Nat → Array Nat → Nat × Array Nat × Array Nat
  | 0, s2r, r2s => (0, s2r, r2s)
  | r + 1, s2r, r2s =>
    if rd q (rd r2s r) ≤ qc then
      sbrtFwdUp q qc r (wr s2r (rd r2s r) (r + 1)) (wr r2s (r + 1) (rd r2s r))
    else (r + 1, s2r, r2s)

/-- Inverse move-up loop: `for r > 0 && q[r2s[r-1]] <= qc { r2s[r] = r2s[r-1]; r-- }` -/
def sbrtInvUp (q : Array Nat) (qc : Nat) : Nat → Array Nat → Nat × Array Nat
  | 0, r2s => (0, r2s)
  | r + 1, r2s =>
    if rd q (rd r2s r) ≤ qc then sbrtInvUp q qc r (wr r2s (r + 1) (rd r2s r))
    else (r + 1, r2s)

/-- Main loop of `SBRT.Forward` from position `i` -/
def sbrtFwdGo (mode : Nat) : List Nat → Nat → Array Nat → Array Nat → Array Nat → Array Nat →
    Array Nat → Array Nat
  | [], _, _, _, _, _, out => out
  | c :: rest, i, s2r, r2s, p, q, out =>
    let r := rd s2r c
    let qc := sbrtQc mode i (rd p c)
    let q' := wr q c qc
    let up := sbrtFwdUp q' qc r s2r r2s
    sbrtFwdGo mode rest (i + 1) (wr up.2.1 c up.1) (wr up.2.2 up.1 c) (wr p c i) q' (out.push r)

/-- Main loop of `SBRT.Inverse` from position `i` -/
def sbrtInvGo (mode : Nat) : List Nat → Nat → Array Nat → Array Nat → Array Nat →
    Array Nat → Array Nat
  | [], _, _, _, _, out => out
  | r :: rest, i, r2s, p, q, out =>
    let c := rd r2s r
    let qc := sbrtQc mode i (rd p c)
    let q' := wr q c qc
    let up := sbrtInvUp q' qc r r2s
    sbrtInvGo mode rest (i + 1) (wr up.2 up.1 c) (wr p c i) q' (out.push c)

def sbrtModeOk (mode : Nat) : Bool := mode = 1 ∨ mode = 2 ∨ mode = 3

/-- Go: `SBRT.Forward(src, dst)`; `mode` must be accepted by `NewSBRT` -/
def sbrtForward (mode : Nat) (src : List Nat) (dstLen : Nat) : Res :=
  if src.length = 0 ∨ dstLen = 0 then .ok []
  else if dstLen < sbrtMaxEncodedLen src.length then .error "dst-too-small"
  else .ok (sbrtFwdGo mode src 0 (Array.range 256) (Array.range 256)
              (Array.replicate 256 0) (Array.replicate 256 0) #[]).toList

/-- Go: `SBRT.Inverse(src, dst)` -/
def sbrtInverse (mode : Nat) (src : List Nat) (dstLen : Nat) : Res :=
  if src.length = 0 ∨ dstLen = 0 then .ok []
  else if src.length > dstLen then .error "dst-too-small"
  else .ok (sbrtInvGo mode src 0 (Array.range 256)
              (Array.replicate 256 0) (Array.replicate 256 0) #[]).toList

/-! ## ByteTransformSequence over abstract stages

A stage is any `kanzi.ByteTransform` seen as two partial functions on values (the destination sizes
are abstracted: the pipeline allocates `MaxEncodedLen` for the forward pass, and the stage
hypothesis of `C13_sequence` is about the sizes it uses).  `maxLen` is its `MaxEncodedLen`. -/

structure Stage where
  fwd : List Nat → Res
  inv : List Nat → Res
  maxLen : Nat → Nat

/-- The concrete stages used by the `qf` / `qi` operations of the `trsmall` stream: forward into a
    destination of `req` bytes (the sequence allocates its `MaxEncodedLen`), inverse into `n` bytes. -/
def nullStage (req n : Nat) : Stage :=
  ⟨fun x => nullForward x req, fun y => nullInverse y n, nullMaxEncodedLen⟩
def zrltStage (req n : Nat) : Stage :=
  ⟨fun x => zrltForward x req, fun y => zrltInverse y n, zrltMaxEncodedLen⟩
def sbrtStage (mode req n : Nat) : Stage :=
  ⟨fun x => sbrtForward mode x req, fun y => sbrtInverse mode y n, sbrtMaxEncodedLen⟩

/-- Go: `this.skipFlags &= ^(1 << (7 - uint(i)))` on a byte -/
def clearFlag (flags i : Nat) : Nat := flags &&& (0xFF ^^^ (1 <<< (7 - i)))

/-- Go: `this.skipFlags&(1<<(7-uint(i))) != 0` -/
def flagSet (flags i : Nat) : Bool := flags &&& (1 <<< (7 - i)) ≠ 0

/-- Forward loop from stage index `i`: a failing stage is skipped (its flag stays 1 and the current
    data is kept: Go restores `length` and does not swap the buffers); a succeeding stage clears
    its flag and its output becomes the current data (buffers swapped).  Returns (data, flags). -/
def seqFwdGo : List Stage → Nat → List Nat → Nat → List Nat × Nat
  | [], _, cur, flags => (cur, flags)
  | st :: rest, i, cur, flags =>
    match st.fwd cur with
    | .error _ => seqFwdGo rest (i + 1) cur flags
    | .ok y => seqFwdGo rest (i + 1) y (clearFlag flags i)

/-- Go: `ByteTransformSequence.Forward`: (dst[0:written], skipFlags).  The final `copy(dst, in)`
    after an even number of swaps is the identity on values.  (The branch `len(dst) < length` of that
    copy is dead when every stage respects its `MaxEncodedLen`: `seq_forward_len_le`.) -/
def seqForward (stages : List Stage) (src : List Nat) : List Nat × Nat :=
  if src.length = 0 then ([], 0xFF) else seqFwdGo stages 0 src 0xFF

/-- Inverse loop `for i := Len()-1; i >= 0; i--` as a recursion that undoes the later stages first;
    a flagged stage is skipped, any failing inverse aborts. -/
def seqInvGo : List Stage → Nat → Nat → List Nat → Res
  | [], _, _, y => .ok y
  | st :: rest, i, flags, y =>
    match seqInvGo rest (i + 1) flags y with
    | .error e => .error e
    | .ok z => if flagSet flags i then .ok z else st.inv z

/-- Go: `ByteTransformSequence.Inverse` after `SetSkipFlags(flags)` -/
def seqInverse (stages : List Stage) (flags : Nat) (src : List Nat) : Res :=
  if src.length = 0 then .ok []
  else if flags = 0xFF then .ok src
  else seqInvGo stages 0 flags src

/-- Go: `ByteTransformSequence.MaxEncodedLen` -/
def seqMaxEncodedLen : List Stage → Nat → Nat
  | [], n => n
  | st :: rest, n => seqMaxEncodedLen rest (if st.maxLen n > n then st.maxLen n else n)

/-- Go: the size of the intermediate buffers of `ByteTransformSequence.Inverse` for a destination of
    `d` bytes (after the repair of finding F26): `requiredSize = max(len(dst), MaxEncodedLen(len(dst)))`.
    Every stage that is not skipped writes into a buffer of exactly this size when `len(src) ≤ d`
    (the destination itself is used only when it already has that size; the source-side buffer is
    re-sliced / re-allocated to it). -/
def seqInvBufLen (stages : List Stage) (d : Nat) : Nat := max d (seqMaxEncodedLen stages d)

/-- Go: `ByteTransformSequence.Inverse(src, dst)` with `len(dst) = d ≥ len(src)`: `stages` are the stages
    with their inverse running into `seqInvBufLen … d` bytes; the result lives in an intermediate buffer
    and is copied to `dst` only if it fits ("Inverse transform sequence failed" otherwise). -/
def seqInverseDst (stages : List Stage) (flags : Nat) (src : List Nat) (d : Nat) : Res :=
  match seqInverse stages flags src with
  | .error e => .error e
  | .ok z => if z.length > d then .error "Inverse transform sequence failed" else .ok z

/-! ### skip flags in the block header (io/CompressedStream.go)

`mode0` is the mode byte before the flags are merged: copy bit 0x80, two size bits 0x60, low five
bits 0. -/

/-- Go `encodingTask.encode`: `(mode byte, optional extra byte)` for a sequence of `n` transforms -/
def encodeMode (mode0 flags n : Nat) : Nat × Option Nat :=
  if mode0 &&& 0x80 ≠ 0 ∨ n ≤ 4 then ((mode0 ||| (flags >>> 4)) % 256, none)
  else ((mode0 ||| 0x10) % 256, some flags)

/-- Go `decodingTask.decode`: the skip flags handed to `SetSkipFlags` -/
def decodeFlags (mode : Nat) (extra : Option Nat) : Nat :=
  if mode &&& 0x80 ≠ 0 then 0
  else if mode &&& 0x10 ≠ 0 then extra.getD 0
  else ((mode <<< 4) ||| 0x0F) % 256

end Kanzi.TrSmall
