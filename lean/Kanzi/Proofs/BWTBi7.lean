/-
inverseBiPSIv2, part 7: TOTALITY on arbitrary input.  For any source bytes, any job count, any
destination at least as long as the block, a first primary index in `1 .. 2^63 - 1` (BWTBlockCodec
produces `1 .. 2^32`), ANY other index slots and a work buffer whose stale entries are at most `n`
(fresh instance, or one that last inverted a block of at most the same size): the call returns
`count` bytes, "corrupted primary index" or "invalid data" — it never panics in the calling goroutine
and never spins.
-/
import Kanzi.Proofs.BWTBi6
import Kanzi.Proofs.Jobs
import Kanzi.Proofs.BWTBlock

namespace Kanzi.BWT

theorem endK_last (src : Array Nat) (hb : ∀ b ∈ src.toList, b < 256) (p0 : Nat) (hp : 1 ≤ p0 ∧ p0 ≤ src.size) :
    endK src p0 65535 = src.size + 1 := by
  have h1 := total_cnt src hb p0 hp
  have e : (65536 : Nat) = 65535 + 1 := rfl
  rw [e, psum_succ] at h1
  have h2 : rd src 0 ≤ 65535 / 256 := by
    have := rd_lt src hb 0
    have : (65535 : Nat) / 256 = 255 := by decide
    omega
  unfold endK startK sumAt
  rw [if_pos h2]
  omega

theorem entries2_words (src : Array Nat) (p0 : Nat) : ∀ e ∈ entries2 src p0, e.2 ≤ src.size := by
  intro e he
  obtain ⟨j, hj, rfl⟩ := List.mem_map.1 he
  have := (List.mem_filter.1 hj).1
  have hj' : j < src.size := List.mem_range.1 this
  simp only [rowOfIdx]
  split <;> omega

/-- every row reachable through `data` is at most `n` -/
theorem tables_closed (src : Array Nat) (hb : ∀ b ∈ src.toList, b < 256) (p0 : Nat)
    (data0 bk data : Array Nat) (ht : Tables src p0 data0 bk data) (h0 : ∀ a, rd data0 a ≤ src.size) :
    ∀ r, rd data r ≤ src.size := by
  intro r
  by_cases hin : ∃ kk, kk < 65536 ∧ startK src p0 kk ≤ r ∧ r < endK src p0 kk
  · obtain ⟨kk, hk, h1, h2⟩ := hin
    obtain ⟨j, rfl⟩ : ∃ j, r = startK src p0 kk + j := ⟨r - startK src p0 kk, by omega⟩
    have hj : j < cntK src p0 kk := by unfold endK at h2; omega
    rw [ht.rows kk hk j hj]
    have hlen : j < (ebucket (entries2 src p0) (Tix kk)).length := by
      rw [ebucket_entries2 src hb p0 _ (Tix_lt kk hk), Tix_Tix kk hk]; exact hj
    rw [List.getD_eq_getElem?_getD, List.getElem?_eq_getElem hlen]
    simp only [Option.getD_some]
    exact entries2_words src p0 _ (List.mem_filter.1 (List.getElem_mem hlen)).1
  · rw [ht.rest r (fun kk hk h => hin ⟨kk, hk, h⟩)]
    exact h0 r

theorem ranges_le (jobs chunks : Nat) (hj : 1 ≤ jobs) (hc : 1 ≤ chunks) :
    ∃ rs, Kanzi.Jobs.bwtSplit jobs chunks = .ok rs ∧ ∀ r ∈ rs, r.2 ≤ chunks := by
  have hm : 0 < min jobs chunks := by omega
  have hle : min jobs chunks ≤ chunks := by omega
  refine ⟨_, Kanzi.Jobs.bwtSplit_ok jobs chunks hj hc, ?_⟩
  intro r hr
  have hcover := Kanzi.Jobs.chunkRanges_cover (Kanzi.Jobs.expected chunks (min jobs chunks)) 0
  have hsum : (Kanzi.Jobs.expected chunks (min jobs chunks)).sum = chunks :=
    Kanzi.Jobs.expected_sum_ge chunks (min jobs chunks) hm hle
  have hne := Kanzi.Jobs.chunkRanges_nonempty (Kanzi.Jobs.expected chunks (min jobs chunks)) 0
    (fun x hx => (Kanzi.Jobs.expected_bounds chunks (min jobs chunks) hm hle x hx).1 |> fun h => by
      have := Kanzi.Jobs.div_pos_of_le chunks (min jobs chunks) hm hle; omega) r hr
  -- the last chunk of the range is one of 0 .. chunks-1
  have hmem : r.2 - 1 ∈ (Kanzi.Jobs.chunkRanges (Kanzi.Jobs.expected chunks (min jobs chunks)) 0).flatMap Kanzi.Jobs.chunksOf := by
    rw [List.mem_flatMap]
    refine ⟨r, hr, ?_⟩
    simp only [Kanzi.Jobs.chunksOf, List.mem_range'_1]
    omega
  rw [hcover, hsum, List.mem_range'_1] at hmem
  omega

/-- TOTALITY of `inverseBiPSIv2`. -/
theorem biPSIv2_total (buf : Array Nat) (pidx : List Nat) (jobs : Nat) (src : Array Nat) (dstLen : Nat)
    (hb : ∀ b ∈ src.toList, b < 256) (h2 : 2 ≤ src.size) (hn : src.size < 2 ^ 63)
    (hp0 : 1 ≤ pidx.getD 0 0 ∧ pidx.getD 0 0 < 2 ^ 63) (hjobs : 1 ≤ jobs) (hd : src.size ≤ dstLen)
    (hbuf : ∀ a, rd buf a ≤ src.size) :
    (∃ out, (biPSIv2 buf pidx jobs src dstLen).1 = .ok out ∧ out.size = src.size) ∨
      (biPSIv2 buf pidx jobs src dstLen).1 = .err "pidx" ∨
      (biPSIv2 buf pidx jobs src dstLen).1 = .err "data" := by
  unfold biPSIv2
  simp only []
  generalize hp : pidx.getD 0 0 = p0 at hp0
  split
  · exact Or.inr (Or.inl rfl)
  · next htb =>
    split
    · exact Or.inr (Or.inl rfl)
    · next hval =>
      have hp0n : p0 ≤ src.size := by
        rcases Nat.lt_or_ge src.size p0 with h | h
        · exact absurd ⟨hp0.2, h⟩ htb
        · exact h
      have hnf : ¬ p0 ≥ 2 ^ 63 := by omega
      rw [if_neg hnf]
      generalize hdata : ensureBuf buf (max (src.size + 1) 256) = data0
      have hsz0 : src.size + 1 ≤ data0.size := by
        rw [← hdata]
        exact Nat.le_trans (Nat.le_max_left _ _) (ensureBuf_size_ge _ _)
      have h0 : ∀ a, rd data0 a ≤ src.size := by
        intro a
        rw [← hdata]; unfold ensureBuf
        split
        · rw [rd_replicate]; split <;> omega
        · exact hbuf a
      obtain ⟨fr, bk1, bk2, fbs, v, fr3, bk3, d3, fr4, bk4, d4, r1, r2, f1, f2, hst, htab⟩ :=
        tables_spec src hb p0 ⟨hp0.1, hp0n⟩ (by omega) data0 hsz0
      have hrd0 : src.getD 0 0 = rd src 0 := rfl
      simp only [r1, hrd0, r2, f1, f2]
      generalize hT : transpose bk4 = bkT at htab ⊢
      have hchunks : 1 ≤ getBWTChunks src.size := by unfold getBWTChunks; split <;> omega
      obtain ⟨rs, hsplit, hrs⟩ := ranges_le jobs (getBWTChunks src.size) hjobs hchunks
      simp only [hsplit]
      -- the shared tables are sane
      have hok : ShOK (Shared.mk bkT fbs d4 pidx (shiftOf src.size)) src.size := by
        have hlast : (65535 : Nat) < 65536 := Nat.lt_succ_self _
        refine ⟨?_, ⟨65535, hlast, ?_⟩, ?_, ?_⟩
        · exact htab.bksize
        · show src.size < rd bkT 65535
          rw [htab.ends 65535 hlast, endK_last src hb p0 ⟨hp0.1, hp0n⟩]; omega
        · intro u _; exact hst.fblt u
        · intro p _ _
          exact tables_closed src hb p0 data0 _ d4 htab h0 p
      have hidx : ∀ c p, c < getBWTChunks src.size → pidx[c]? = some p → GoodP src.size p := by
        intro c p hc hcp
        have hget : pidx.getD c 0 = p := by simp [List.getD_eq_getElem?_getD, hcp]
        by_cases hc0 : c = 0
        · subst hc0
          rw [hp] at hget
          subst hget; exact Or.inl hp0n
        · have hmem : c ∈ List.range' 1 (getBWTChunks src.size - 1) := by
            rw [List.mem_range'_1]; omega
          have := hval
          rw [List.any_eq_true] at this
          have hnot : ¬ (pidx.getD c 0 < 2 ^ 63 ∧ pidx.getD c 0 > src.size) := by
            intro hh
            exact this ⟨c, hmem, by simpa using hh⟩
          rw [hget] at hnot
          unfold GoodP; omega
      obtain ⟨d, f, hrun, hdsz⟩ := runTasks_clean _ src.size (getBWTChunks src.size) hok hidx src.size
        (chunkSize src.size (getBWTChunks src.size)) rs hrs (Array.replicate dstLen 0) false
      simp only [hrun]
      cases f with
      | true => exact Or.inr (Or.inr rfl)
      | false =>
        simp only [Bool.false_eq_true, ite_false]
        have hlt : src.size - 1 < d.size := by rw [hdsz, Array.size_replicate]; omega
        rw [if_pos hlt]
        refine Or.inl ⟨_, rfl, ?_⟩
        simp only [Array.size_extract, Array.size_setIfInBounds, hdsz, Array.size_replicate]
        omega

/-- a result that is a value or a returned error: no panic in the calling goroutine, no endless loop -/
def Returns {α : Type} (r : Res α) : Prop := (∃ a, r = .ok a) ∨ ∃ e, r = .err e

/-- TOTALITY of `BWT.Inverse` behind the validation of `BWTBlockCodec` (first index in `1 .. 2^63 - 1`):
any bytes, any other index slots, any job count >= 1, any destination size; work buffer closed under
its pointers and with entries at most `n` (both true of a fresh instance). -/
theorem bwtInverse_total (buf : Array Nat) (pidx : List Nat) (jobs : Nat) (src : Array Nat) (dstLen : Nat)
    (hb : ∀ b ∈ src.toList, b < 256) (hjobs : 1 ≤ jobs)
    (hp0 : 1 ≤ pidx.getD 0 0 ∧ pidx.getD 0 0 < 2 ^ 63)
    (hc : Closed buf) (hbuf : ∀ a, rd buf a ≤ src.size) :
    Returns (bwtInverse buf pidx jobs src dstLen).1 := by
  unfold bwtInverse
  split
  · exact Or.inl ⟨_, rfl⟩
  · split
    · exact Or.inr ⟨_, rfl⟩
    · split
      · exact Or.inr ⟨_, rfl⟩
      · split
        · exact Or.inl ⟨_, rfl⟩
        · next h0 hmax hdst h1 =>
          split
          · rcases (mergeTPSI_total buf pidx src hb (by omega) hc).1 with ⟨out, h, _⟩ | h
            · exact Or.inl ⟨out, h⟩
            · exact Or.inr ⟨_, h⟩
          · have hmax' : src.size < 2 ^ 63 := by unfold MAX_BLOCK_SIZE at hmax; omega
            rcases biPSIv2_total buf pidx jobs src dstLen hb (by omega) hmax' hp0 hjobs (by omega) hbuf
              with ⟨out, h, _⟩ | h | h
            · exact Or.inl ⟨out, h⟩
            · exact Or.inr ⟨_, h⟩
            · exact Or.inr ⟨_, h⟩

/-- TOTALITY of `BWTBlockCodec.Inverse` on a fresh instance: ANY input bytes (forged header, forged
indexes, truncated or random data), any job count >= 1, any destination size: a block or an error. -/
theorem blockInverse_total (old : List Nat) (jobs : Nat) (src : Array Nat) (dstLen : Nat)
    (hb : ∀ b ∈ src.toList, b < 256) (hjobs : 1 ≤ jobs) :
    Returns (blockInverse #[] old jobs src dstLen).1 := by
  unfold blockInverse
  split
  · exact Or.inl ⟨_, rfl⟩
  · split
    · exact Or.inr ⟨_, rfl⟩
    · have hpre : (src.extract 0 MAX_HEADER_SIZE).toList = src.toList.take MAX_HEADER_SIZE := by simp
      rw [hpre, parseHeaderN_take]
      have hlen : src.size = src.toList.length := by simp
      rw [hlen]
      cases hph : parseHeaderN old src.toList src.toList.length with
      | err e => exact Or.inr ⟨_, rfl⟩
      | fault =>
        -- parseHeaderN never faults
        exfalso
        simp only [parseHeaderN] at hph
        split at hph
        · cases hph
        · split at hph <;> cases hph
      | hang =>
        exfalso
        simp only [parseHeaderN] at hph
        split at hph
        · cases hph
        · split at hph <;> cases hph
      | ok h =>
        simp only
        obtain ⟨h1, h2, h3, h4, _⟩ := parseHeader_ok old src.toList hb h hph
        have hch : 0 < getBWTChunks (src.toList.length - h.headerSize) := by
          unfold getBWTChunks; split <;> omega
        have hp0 := h4 0 hch
        apply bwtInverse_total
        · intro b hb'
          apply hb
          simp only [Array.toList_extract] at hb'
          exact List.mem_of_mem_drop (List.mem_of_mem_take hb')
        · exact hjobs
        · exact ⟨hp0.1, by omega⟩
        · exact closed_empty
        · intro a; simp [rd]

end Kanzi.BWT
