/-
Line-protocol driver of the output-bitstream model (`kmodel obs`).  Core Lean only.

Scenario: `obs bs=<bufsize> fail=<k1,k2,k3+|-> ; <op> ; <op> ; ...`
  ops: `b <0|1>` WriteBit, `w <hex> <n>` WriteBits, `a <hexbytes|-> <k>` WriteArray, `c` Close,
       `n` Written.  `fail=`: the listed sink calls (1-based) fail; `k+` = call k and all later ones.
Output: one token per op `ok:<Written()>` / `err:<Written()>` / `panic:<class>:<Written()>` joined
by ` ; `, then ` | sink=<hex|-> calls=<n>`.
-/
import Kanzi.Model.OBS

namespace Kanzi.Drv
open Kanzi.OBS

namespace ObsDrv

def hexVal (c : Char) : Option Nat :=
  if '0' ≤ c ∧ c ≤ '9' then some (c.toNat - '0'.toNat)
  else if 'a' ≤ c ∧ c ≤ 'f' then some (c.toNat - 'a'.toNat + 10)
  else if 'A' ≤ c ∧ c ≤ 'F' then some (c.toNat - 'A'.toNat + 10)
  else none

def parseHexNat (s : String) : Option Nat :=
  if s.isEmpty then none
  else s.toList.foldlM (fun acc c => (hexVal c).map (fun d => 16 * acc + d)) 0

def parseHexBytes : List Char → Option (List Byte)
  | [] => some []
  | [_] => none
  | a :: b :: tl => do
    let x ← hexVal a
    let y ← hexVal b
    let r ← parseHexBytes tl
    pure (BitVec.ofNat 8 (16 * x + y) :: r)

def hexDigit (n : Nat) : Char := "0123456789abcdef".toList.getD n '0'

def hexOfBytes (l : List Byte) : String :=
  String.ofList (l.foldr (fun b acc => hexDigit (b.toNat / 16) :: hexDigit (b.toNat % 16) :: acc) [])

/-- `1,4,7+` → failure plan -/
def parsePlan (s : String) : Option (Nat → Bool) :=
  if s = "-" then some (fun _ => false)
  else do
    let items ← (s.splitOn ",").mapM (fun t =>
      if t.endsWith "+" then (String.ofList (t.toList.dropLast)).toNat?.map (fun k => (k, true))
      else t.toNat?.map (fun k => (k, false)))
    pure (fun k => items.any (fun it => if it.2 then it.1 ≤ k else it.1 = k))

def parseOp (t : String) : Option Op :=
  match (t.splitOn " ").filter (· ≠ "") with
  | ["b", "0"] => some (.bit false)
  | ["b", "1"] => some (.bit true)
  | ["w", v, n] => do
    let x ← parseHexNat v
    let k ← n.toNat?
    pure (.bits (BitVec.ofNat 64 x) k)
  | ["a", h, n] => do
    let bytes ← if h = "-" then some [] else parseHexBytes h.toList
    let k ← n.toNat?
    pure (.array bytes k)
  | ["c"] => some .close
  | ["n"] => some .written
  | _ => none

def className : PanicClass → String
  | .closed => "closed"
  | .invalidCount => "invalid-count"
  | .io => "io"
  | .oob => "oob"
  | .fuel => "fuel"

def token (o : Outcome) (s : St) : String :=
  match o with
  | .ok => s!"ok:{writtenU64 s}"
  | .err => s!"err:{writtenU64 s}"
  | .panic c => s!"panic:{className c}:{writtenU64 s}"

def runOps : St → List Op → List String → St × List String
  | s, [], acc => (s, acc.reverse)
  | s, op :: ops, acc =>
    let r := step s op
    runOps r.1 ops (token r.2 r.1 :: acc)

end ObsDrv

open ObsDrv in
def obs (line : String) : String :=
  match line.splitOn ";" with
  | [] => "bad-op"
  | hd :: opsStr =>
    let ws := (hd.splitOn " ").filter (· ≠ "")
    let getv (k : String) : Option String :=
      (ws.filterMap (fun w => if w.startsWith (k ++ "=") then some (String.ofList (w.toList.drop (k.length + 1))) else none)).head?
    match ws.head?, (getv "bs").bind String.toNat?, (getv "fail").bind parsePlan with
    | some "obs", some bs, some plan =>
      match opsStr.mapM parseOp with
      | none => "bad-op"
      | some ops =>
        let r := runOps (init bs plan) ops []
        let sinkHex := if r.1.sink.isEmpty then "-" else hexOfBytes r.1.sink
        " ; ".intercalate r.2 ++ s!" | sink={sinkHex} calls={r.1.sinkCalls}"
    | _, _, _ => "bad-op"

end Kanzi.Drv
