/-
Proofs for the `exe` slice, part 6: no run-time panic.  `NF x` = "`x` is not a `.fault`".  Inverse (all three
formats) on ANY input and any destination; the forward loops for any code range; header parsing and type
detection on any block of at least 64 bytes; hence Forward on any block.
-/
import Kanzi.Proofs.EXE

namespace Kanzi.EXE
open Kanzi.RLT (Out wr wr_ok wr_cases size_appendList)

/-- what a safe inverse step looks like -/
def IStep.safe (ce dl i d : Nat) : IStep → Prop
  | .emit e c => 1 ≤ c ∧ i + c ≤ ce ∧ d + e.length ≤ dl
  | .last e c => 1 ≤ c ∧ i + c ≤ ce ∧ d + e.length ≤ dl
  | .err _ => True
  | .fault _ => False

theorem x86InvJump_safe (ce dl : Nat) (pre rest : List Nat) (i d i0 d0 : Nat)
    (hlen : ce ≤ i + rest.length) (hi : i0 + pre.length = i) (hd : d0 + pre.length = d) :
    (x86InvJump ce dl pre rest i d).safe ce dl i0 d0 := by
  unfold x86InvJump
  split
  · trivial
  · split
    · trivial
    · match rest, hlen with
      | op :: a0 :: a1 :: a2 :: a3 :: r, _ =>
        simp only [IStep.safe, List.length_append, List.length_cons, le32Bytes_length]
        omega
      | [], hl => simp at hl; omega
      | [_], hl => simp at hl; omega
      | [_, _], hl => simp at hl; omega
      | [_, _, _], hl => simp at hl; omega
      | [_, _, _, _], hl => simp at hl; omega

theorem x86InvStep_safe (ce dl : Nat) (rest : List Nat) (i d : Nat) (hlt : i < ce) (hlen : ce ≤ i + rest.length) :
    (x86InvStep ce dl rest i d).safe ce dl i d := by
  match rest, hlen with
  | [], hl => simp at hl; omega
  | b :: r1, hl =>
    simp only [x86InvStep, List.getElem?_cons_zero]
    split
    · split
      · split
        · trivial
        · simp [IStep.safe]; omega
      · split
        · trivial
        · match r1, hl with
          | [], hl => simp at hl; omega
          | b1 :: r2, hl =>
            simp only [List.getElem?_cons_succ, List.getElem?_cons_zero]
            split
            · split
              · split
                · trivial
                · split
                  · trivial
                  · match r2, hl with
                    | [], hl => simp at hl; omega
                    | b2 :: r3, hl => simp [IStep.safe]; omega
              · split
                · trivial
                · simp [IStep.safe]; omega
            · exact x86InvJump_safe ce dl [b] _ (i + 1) (d + 1) i d (by simp at hl ⊢; omega) (by simp) (by simp)
    · split
      · split
        · split
          · trivial
          · split
            · trivial
            · match r1, hl with
              | [], hl => simp at hl; omega
              | b1 :: r2, hl => simp [IStep.safe]; omega
        · split
          · trivial
          · simp [IStep.safe]; omega
      · exact x86InvJump_safe ce dl [] _ i d i d hl (by simp) (by simp)

/-- no panic -/
def NF {α : Type} (x : Out α) : Prop := ∀ e, x ≠ .fault e

theorem NF_ok {α : Type} (a : α) : NF (Out.ok a) := fun _ h => by cases h
theorem NF_err {α : Type} (s : String) : NF (Out.err s : Out α) := fun _ h => by cases h
theorem NF_bind {α β : Type} (x : Out α) (f : α → Out β) (hx : NF x) (hf : ∀ a, x = .ok a → NF (f a)) :
    NF (x.bind f) := by
  cases x with
  | ok a => exact hf a rfl
  | err s => exact NF_err s
  | fault s => exact absurd rfl (hx s)
theorem NF_need {α β : Type} (o : Option α) (f : α → Out β) (ho : o.isSome) (hf : ∀ a, o = some a → NF (f a)) :
    NF (need o f) := by
  cases o with
  | none => cases ho
  | some a => exact hf a rfl

theorem x86InvLoop_nf (ce dl : Nat) : ∀ (f : Nat) (rest : List Nat) (i : Nat) (out : Array Nat),
    ce ≤ i + rest.length → ce - i < f → NF (x86InvLoop ce dl f rest i out) := by
  intro f
  induction f with
  | zero => intro rest i out _ hf; omega
  | succ f ih =>
    intro rest i out hlen hf
    simp only [x86InvLoop]
    split
    next hlt =>
      have hs := x86InvStep_safe ce dl rest i out.size hlt hlen
      split
      next e c hstep =>
        rw [hstep] at hs
        simp only [IStep.safe] at hs
        rw [wr_ok dl out e (by omega)]
        exact ih _ _ _ (by rw [List.length_drop]; omega) (by omega)
      next e c hstep =>
        rw [hstep] at hs
        simp only [IStep.safe] at hs
        rw [wr_ok dl out e (by omega)]
        exact NF_ok _
      next s hstep => exact NF_err s
      next s hstep => rw [hstep] at hs; exact hs.elim
    next hlt => exact NF_ok _

theorem invFinish_nf (src : List Nat) (n : Nat) (r : Nat × Array Nat) : NF (invFinish src n r) := by
  unfold invFinish; split
  · exact NF_err _
  · exact NF_ok _

theorem invHeader_some (src : List Nat) (n cs ce : Nat) (h : invHeader src n = some (cs, ce)) :
    9 + cs ≤ ce ∧ ce ≤ src.length ∧ cs ≤ n := by
  simp only [invHeader] at h
  split at h
  · cases h
  · simp only [Option.some.injEq, Prod.mk.injEq] at h
    obtain ⟨rfl, rfl⟩ := h
    omega

theorem invX86_nf (src : List Nat) (n : Nat) : NF (invX86 src n) := by
  unfold invX86
  split
  · exact NF_err _
  next cs ce hh =>
    obtain ⟨h1, h2, h3⟩ := invHeader_some src n cs ce hh
    have hl : ((src.drop 9).take cs).length = cs := by simp; omega
    rw [wr_ok n #[] _ (by simp; omega)]
    simp only [Kanzi.RLT.Out.bind_ok]
    refine NF_bind _ _ (x86InvLoop_nf ce n _ _ _ _ (by simp; omega) (by omega)) (fun r _ => invFinish_nf src n r)
theorem armInvStep_safe (ce dl : Nat) (rest : List Nat) (i d : Nat) (hlen : ce ≤ i + rest.length) :
    (armInvStep ce dl rest i d).safe ce dl i d := by
  unfold armInvStep
  split
  · trivial
  · split
    · trivial
    · match rest, hlen with
      | b0 :: b1 :: b2 :: b3 :: r4, hl =>
        simp only
        split
        · simp [IStep.safe]; omega
        · split
          · split
            · trivial
            · match r4, hl with
              | c0 :: c1 :: c2 :: c3 :: r, hl => simp [IStep.safe]; omega
              | [], hl => simp at hl; omega
              | [_], hl => simp at hl; omega
              | [_, _], hl => simp at hl; omega
              | [_, _, _], hl => simp at hl; omega
          · simp [IStep.safe]; omega
      | [], hl => simp at hl; omega
      | [_], hl => simp at hl; omega
      | [_, _], hl => simp at hl; omega
      | [_, _, _], hl => simp at hl; omega

theorem armInvLoop_nf (ce dl : Nat) : ∀ (f : Nat) (rest : List Nat) (i : Nat) (out : Array Nat),
    ce ≤ i + rest.length → ce - i < f → NF (armInvLoop ce dl f rest i out) := by
  intro f
  induction f with
  | zero => intro rest i out _ hf; omega
  | succ f ih =>
    intro rest i out hlen hf
    simp only [armInvLoop]
    split
    next hlt =>
      have hs := armInvStep_safe ce dl rest i out.size hlen
      split
      next e c hstep =>
        rw [hstep] at hs
        simp only [IStep.safe] at hs
        rw [wr_ok dl out e (by omega)]
        exact ih _ _ _ (by rw [List.length_drop]; omega) (by omega)
      next e c hstep =>
        rw [hstep] at hs
        simp only [IStep.safe] at hs
        rw [wr_ok dl out e (by omega)]
        exact NF_ok _
      next s hstep => exact NF_err s
      next s hstep => rw [hstep] at hs; exact hs.elim
    next hlt => exact NF_ok _

theorem invARM_nf (src : List Nat) (n : Nat) : NF (invARM src n) := by
  unfold invARM
  split
  · exact NF_err _
  next cs ce hh =>
    obtain ⟨h1, h2, h3⟩ := invHeader_some src n cs ce hh
    have hl : ((src.drop 9).take cs).length = cs := by simp; omega
    rw [wr_ok n #[] _ (by simp; omega)]
    simp only [Kanzi.RLT.Out.bind_ok]
    refine NF_bind _ _ (armInvLoop_nf ce n _ _ _ _ (by simp; omega) (by omega)) (fun r _ => invFinish_nf src n r)

/-- legacy loop: `dstIdx ≤ srcIdx`, and the result keeps it -/
theorem v2Loop_nf (en dl : Nat) : ∀ (f : Nat) (rest : List Nat) (i : Nat) (out : Array Nat),
    en + 8 ≤ i + rest.length ∨ en ≤ i → i + rest.length ≤ dl → out.size ≤ i → en - i < f →
    NF (v2Loop en dl f rest i out) ∧
    ∀ r, v2Loop en dl f rest i out = .ok r → r.2.size ≤ r.1 ∧ r.1 ≤ i + rest.length ∧ i ≤ r.1 := by
  intro f
  induction f with
  | zero => intro rest i out _ _ _ hf; omega
  | succ f ih =>
    intro rest i out hlen hdl hout hf
    simp only [v2Loop]
    split
    next hlt =>
      match rest, hlen, hdl with
      | [], hl, _ => simp at hl; omega
      | b :: r1, hl, hdl =>
        simp only [List.getElem?_cons_zero, need, List.length_cons] at hl hdl ⊢
        rw [wr_ok dl out [b] (by simp; omega)]
        simp only [Kanzi.RLT.Out.bind_ok]
        have hsz : (out ++ [b]).size = out.size + 1 := by rw [size_appendList]; rfl
        split
        · have := ih (List.drop 1 (b :: r1)) (i + 1) (out ++ [b]) (by simp; omega) (by simp; omega) (by omega) (by omega)
          refine ⟨this.1, fun r hr => ?_⟩
          have := this.2 r hr
          simp at this; omega
        · match r1, hl, hdl with
          | [], hl, _ => simp at hl; omega
          | s0 :: r2, hl, hdl =>
            simp only [List.getElem?_cons_succ, List.getElem?_cons_zero, List.length_cons] at hl hdl ⊢
            split
            · have := ih (List.drop 2 (b :: s0 :: r2)) (i + 2) (out ++ [b]) (by simp; omega) (by simp; omega) (by omega) (by omega)
              refine ⟨this.1, fun r hr => ?_⟩
              have := this.2 r hr
              simp at this; omega
            · split
              · have := ih (List.drop 1 (b :: s0 :: r2)) (i + 1) (out ++ [b]) (by simp; omega) (by simp; omega) (by omega) (by omega)
                refine ⟨this.1, fun r hr => ?_⟩
                have := this.2 r hr
                simp at this; omega
              · match r2, hl, hdl with
                | a1 :: a2 :: a3 :: r5, hl, hdl =>
                  simp only [List.getElem?_cons_succ, List.getElem?_cons_zero, List.length_cons] at hl hdl ⊢
                  rw [wr_ok dl (out ++ [b]) _ (by simp; omega)]
                  simp only [Kanzi.RLT.Out.bind_ok]
                  have hsz2 : ∀ L : List Nat, L.length = 4 → (out ++ [b] ++ L).size ≤ i + 5 := by
                    intro L hL; rw [size_appendList, hsz, hL]; omega
                  have key := fun (L : List Nat) (hL : L.length = 4) =>
                    ih (List.drop 5 (b :: s0 :: a1 :: a2 :: a3 :: r5)) (i + 5) (out ++ [b] ++ L) (by simp; omega)
                      (by simp; omega) (hsz2 L hL) (by omega)
                  refine ⟨(key _ rfl).1, fun r hr => ?_⟩
                  have := (key _ rfl).2 r hr
                  simp at this; omega
                | [], hl, _ => simp at hl; omega
                | [_], hl, _ => simp at hl; omega
                | [_, _], hl, _ => simp at hl; omega
    next hlt =>
      refine ⟨NF_ok _, fun r hr => ?_⟩
      cases hr; simp; omega

theorem invV2_nf (src : List Nat) (n : Nat) : NF (invV2 src n) := by
  unfold invV2
  split
  · exact NF_err _
  next hle =>
    have key := v2Loop_nf (src.length - 8) n (src.length + 1) src 0 #[] (by omega) (by omega) (by simp) (by omega)
    refine NF_bind _ _ key.1 (fun r hr => ?_)
    have h := key.2 r hr
    rw [wr_ok n r.2 _ (by rw [List.length_drop]; omega)]
    exact NF_ok _

/-- Inverse never panics: any input, any destination size, both bitstream generations -/
theorem exeInverse_nf (v2 : Bool) (src : List Nat) (n : Nat) : NF (exeInverse v2 src n) := by
  unfold exeInverse
  split
  · exact NF_ok _
  next h0 =>
    split
    · exact invV2_nf src n
    · split
      · exact NF_err _
      · match src, h0 with
        | m :: r, _ =>
          simp only [List.head?_cons]
          split
          · exact invX86_nf _ n
          · split
            · exact invARM_nf _ n
            · exact NF_err _
        | [], h0 => simp at h0
def Step.safe (ce i maxE : Nat) : Step → Prop
  | .stop => True
  | .emit e c _ => 1 ≤ c ∧ i + c ≤ ce ∧ e.length ≤ maxE
  | .emitStop e _ => e.length ≤ maxE
  | .fault _ => False

theorem x86Jump_safe (rest : List Nat) (i : Nat) (h : 5 ≤ rest.length) :
    ∃ e c dm, x86Jump rest i = .ok (e, c, dm) ∧ e.length ≤ 5 ∧ 1 ≤ c ∧ c ≤ 5 := by
  match rest, h with
  | op :: o0 :: o1 :: o2 :: sgn :: r, _ =>
    simp only [x86Jump]
    split
    · exact ⟨_, _, _, rfl, by simp, by omega, by omega⟩
    · exact ⟨_, _, _, rfl, by simp, by omega, by omega⟩
  | [], h => simp at h
  | [_], h => simp at h
  | [_, _], h => simp at h
  | [_, _, _], h => simp at h
  | [_, _, _, _], h => simp at h

theorem escLit_length (b : Nat) : (escLit b).length ≤ 2 := by
  unfold escLit; split <;> simp

theorem x86FwdStep_safe (ce : Nat) (rest : List Nat) (i : Nat) (hlt : i < ce) (hlen : ce ≤ i + rest.length) :
    (x86FwdStep ce rest i).safe ce i 6 := by
  match rest, hlen with
  | [], hl => simp at hl; omega
  | b :: r1, hl =>
    simp only [x86FwdStep, List.getElem?_cons_zero]
    split
    · split
      · trivial
      next hc1 =>
        match r1, hl with
        | [], hl => simp at hl; omega
        | b1 :: r2, hl =>
          simp only [List.getElem?_cons_succ, List.getElem?_cons_zero]
          split
          · trivial
          next hns =>
            split
            · have := escLit_length b1
              simp [Step.safe]; omega
            next hj =>
              split
              · simp [Step.safe]
              next hc5 =>
                simp only [List.drop_succ_cons, List.drop_zero]
                obtain ⟨e, c, dm, hj, he, hc1', hc5'⟩ := x86Jump_safe (b1 :: r2) (i + 1) (by simp at hl ⊢; omega)
                rw [hj]
                simp [jumpStep, Step.safe]; omega
    · split
      · have := escLit_length b
        simp [Step.safe]; omega
      · split
        · trivial
        next hc4 =>
          obtain ⟨e, c, dm, hj, he, hc1', hc5'⟩ := x86Jump_safe (b :: r1) i (by simp at hl ⊢; omega)
          rw [hj]
          simp [jumpStep, Step.safe]; omega

theorem x86FwdLoop_nf (ce dstLen : Nat) : ∀ (f : Nat) (rest : List Nat) (i : Nat) (out : Array Nat) (m : Nat),
    ce ≤ i + rest.length → ce - i < f → NF (x86FwdLoop ce dstLen f rest i out m) := by
  intro f
  induction f with
  | zero => intro rest i out m _ hf; omega
  | succ f ih =>
    intro rest i out m hlen hf
    simp only [x86FwdLoop]
    split
    next hcond =>
      have hs := x86FwdStep_safe ce rest i hcond.1 hlen
      split
      next hstep => exact NF_ok _
      next e c dm hstep =>
        rw [hstep] at hs
        simp only [Step.safe] at hs
        rw [wr_ok dstLen out e (by omega)]
        exact ih _ _ _ _ (by rw [List.length_drop]; omega) (by omega)
      next e c hstep =>
        rw [hstep] at hs
        simp only [Step.safe] at hs
        rw [wr_ok dstLen out e (by omega)]
        exact NF_ok _
      next s hstep => rw [hstep] at hs; exact hs.elim
    next hcond => exact NF_ok _

theorem fwdFinish_nf (mode slack : Nat) (src : List Nat) (dstLen cs i : Nat) (out : Array Nat) :
    NF (fwdFinish mode slack src dstLen cs i out) := by
  simp only [fwdFinish]
  split
  · exact NF_err _
  · split
    · exact NF_err _
    · exact NF_ok _

theorem fwdX86_nf (src : List Nat) (dstLen : Nat) (cs ce : Int) (hd : 9 ≤ dstLen) : NF (fwdX86 src dstLen cs ce) := by
  simp only [fwdX86]
  split
  · exact NF_err _
  next hchk =>
    rw [if_neg (by omega)]
    split
    · exact NF_err _
    · refine NF_bind _ _ (x86FwdLoop_nf _ _ _ _ _ _ _ (by rw [List.length_drop]; omega) (by omega)) (fun st _ => ?_)
      split
      · exact NF_err _
      · split
        · exact NF_err _
        · exact fwdFinish_nf _ _ _ _ _ _ _

theorem armFwdStep_safe (ce : Nat) (rest : List Nat) (i : Nat) (hlt : i + 4 ≤ ce) (hlen : ce ≤ i + rest.length) :
    (armFwdStep rest i).safe ce i 8 := by
  match rest, hlen with
  | b0 :: b1 :: b2 :: b3 :: r, hl =>
    simp only [armFwdStep]
    split
    · simp [Step.safe]; omega
    · split
      · simp [Step.safe]; omega
      · simp [Step.safe]; omega
  | [], hl => simp at hl; omega
  | [_], hl => simp at hl; omega
  | [_, _], hl => simp at hl; omega
  | [_, _, _], hl => simp at hl; omega

theorem armFwdLoop_nf (ce dstLen : Nat) : ∀ (f : Nat) (rest : List Nat) (i : Nat) (out : Array Nat) (m : Nat),
    ce ≤ i + rest.length → ce - i < f → NF (armFwdLoop ce dstLen f rest i out m) := by
  intro f
  induction f with
  | zero => intro rest i out m _ hf; omega
  | succ f ih =>
    intro rest i out m hlen hf
    simp only [armFwdLoop]
    split
    next hcond =>
      have hs := armFwdStep_safe ce rest i hcond.1 hlen
      split
      next hstep => exact NF_ok _
      next e c dm hstep =>
        rw [hstep] at hs
        simp only [Step.safe] at hs
        rw [wr_ok dstLen out e (by omega)]
        exact ih _ _ _ _ (by rw [List.length_drop]; omega) (by omega)
      next e c hstep =>
        rw [hstep] at hs
        simp only [Step.safe] at hs
        rw [wr_ok dstLen out e (by omega)]
        exact NF_ok _
      next s hstep => rw [hstep] at hs; exact hs.elim
    next hcond => exact NF_ok _

theorem fwdARM_nf (src : List Nat) (dstLen : Nat) (cs ce : Int) (hd : 9 ≤ dstLen) : NF (fwdARM src dstLen cs ce) := by
  simp only [fwdARM]
  split
  · exact NF_err _
  next hchk =>
    rw [if_neg (by omega)]
    split
    · exact NF_err _
    · refine NF_bind _ _ (armFwdLoop_nf _ _ _ _ _ _ _ (by rw [List.length_drop]; omega) (by omega)) (fun st _ => ?_)
      split
      · exact NF_err _
      · split
        · exact NF_err _
        · exact fwdFinish_nf _ _ _ _ _ _ _
theorem i64_eq (x : Int) (h0 : -2 ^ 63 ≤ x) (h1 : x < 2 ^ 63) : i64 x = x := by
  unfold i64
  rw [Int.bmod_eq_emod]
  have hc : ((2 ^ 64 : Nat) : Int) = 18446744073709551616 := by simp
  rw [hc]
  split <;> omega

theorem rdN_isSome (s : Array Nat) (i : Int) (n : Nat) (h0 : 0 ≤ i) (h1 : i + n ≤ s.size) : (rdN s i n).isSome := by
  unfold rdN
  rw [if_neg (by omega)]; rfl

theorem leN_isSome (s : Array Nat) (i : Int) (n : Nat) (h0 : 0 ≤ i) (h1 : i + n ≤ s.size) : (leN s i n).isSome := by
  unfold leN; rw [Option.isSome_map]; exact rdN_isSome s i n h0 h1
theorem beN_isSome (s : Array Nat) (i : Int) (n : Nat) (h0 : 0 ≤ i) (h1 : i + n ≤ s.size) : (beN s i n).isSome := by
  unfold beN; rw [Option.isSome_map]; exact rdN_isSome s i n h0 h1
theorem boN_isSome (be : Bool) (s : Array Nat) (i : Int) (n : Nat) (h0 : 0 ≤ i) (h1 : i + n ≤ s.size) :
    (boN be s i n).isSome := by
  unfold boN; split
  · exact beN_isSome s i n h0 h1
  · exact leN_isSome s i n h0 h1

theorem getElem?_isSome (s : Array Nat) (i : Nat) (h : i < s.size) : (s[i]?).isSome := by
  simp [h]

theorem elfLoop_nf (s : Array Nat) (be is64 : Bool) (pos szEntry : Int) (hs : s.size < 2 ^ 62) :
    ∀ (f i : Nat) (cs ce : Int), NF (elfLoop s be is64 pos szEntry f i cs ce) := by
  intro f
  induction f with
  | zero => intro i cs ce; exact NF_ok _
  | succ f ih =>
    intro i cs ce
    cases is64 with
    | true =>
      simp only [elfLoop, if_true]
      generalize i64 (pos + (i : Int) * szEntry) = st
      split
      · exact NF_ok _
      next hchk =>
        have e4 : i64 (st + 4) = st + 4 := i64_eq _ (by omega) (by omega)
        have e18 : i64 (st + 0x18) = st + 0x18 := i64_eq _ (by omega) (by omega)
        have e20 : i64 (st + 0x20) = st + 0x20 := i64_eq _ (by omega) (by omega)
        rw [e4, e18, e20]
        refine NF_need _ _ (boN_isSome _ _ _ _ (by omega) (by omega)) (fun a _ => ?_)
        refine NF_need _ _ (boN_isSome _ _ _ _ (by omega) (by omega)) (fun b _ => ?_)
        refine NF_need _ _ (boN_isSome _ _ _ _ (by omega) (by omega)) (fun c _ => ?_)
        split <;> exact ih _ _ _
    | false =>
      simp only [elfLoop, Bool.false_eq_true, if_false]
      generalize i64 (pos + (i : Int) * szEntry) = st
      split
      · exact NF_ok _
      next hchk =>
        have e4 : i64 (st + 4) = st + 4 := i64_eq _ (by omega) (by omega)
        have e10 : i64 (st + 0x10) = st + 0x10 := i64_eq _ (by omega) (by omega)
        have e14 : i64 (st + 0x14) = st + 0x14 := i64_eq _ (by omega) (by omega)
        rw [e4, e10, e14]
        refine NF_need _ _ (boN_isSome _ _ _ _ (by omega) (by omega)) (fun a _ => ?_)
        refine NF_need _ _ (boN_isSome _ _ _ _ (by omega) (by omega)) (fun b _ => ?_)
        refine NF_need _ _ (boN_isSome _ _ _ _ (by omega) (by omega)) (fun c _ => ?_)
        split <;> exact ih _ _ _

theorem machLoop_nf (s : Array Nat) (is64 : Bool) :
    ∀ (f : Nat) (pos cs ce : Int), NF (machLoop s is64 f pos cs ce) := by
  intro f
  induction f with
  | zero => intro pos cs ce; exact NF_ok _
  | succ f ih =>
    intro pos cs ce
    cases is64 with
    | true =>
      simp only [machLoop, if_true]
      split
      · exact NF_ok _
      next hchk =>
        refine NF_need _ _ (leN_isSome _ _ _ (by omega) (by omega)) (fun ld _ => ?_)
        refine NF_need _ _ (leN_isSome _ _ _ (by omega) (by omega)) (fun sz _ => ?_)
        split
        · split
          · exact NF_ok _
          next h16 =>
            refine NF_need _ _ (beN_isSome _ _ _ (by omega) (by omega)) (fun nm _ => ?_)
            split
            · split
              · exact NF_ok _
              next h38 =>
                refine NF_need _ _ (beN_isSome _ _ _ (by omega) (by omega)) (fun ns _ => ?_)
                split
                · refine NF_need _ _ (leN_isSome _ _ _ (by omega) (by omega)) (fun a _ => ?_)
                  refine NF_need _ _ (leN_isSome _ _ _ (by omega) (by omega)) (fun l _ => ?_)
                  exact NF_ok _
                · exact ih _ _ _
            · exact ih _ _ _
        · exact ih _ _ _
    | false =>
      simp only [machLoop, Bool.false_eq_true, if_false]
      split
      · exact NF_ok _
      next hchk =>
        refine NF_need _ _ (leN_isSome _ _ _ (by omega) (by omega)) (fun ld _ => ?_)
        refine NF_need _ _ (leN_isSome _ _ _ (by omega) (by omega)) (fun sz _ => ?_)
        split
        · split
          · exact NF_ok _
          next h16 =>
            refine NF_need _ _ (beN_isSome _ _ _ (by omega) (by omega)) (fun nm _ => ?_)
            split
            · split
              · exact NF_ok _
              next h38 =>
                refine NF_need _ _ (beN_isSome _ _ _ (by omega) (by omega)) (fun ns _ => ?_)
                split
                · refine NF_need _ _ (leN_isSome _ _ _ (by omega) (by omega)) (fun a _ => ?_)
                  refine NF_need _ _ (leN_isSome _ _ _ (by omega) (by omega)) (fun l _ => ?_)
                  exact NF_ok _
                · exact ih _ _ _
            · exact ih _ _ _
        · exact ih _ _ _
theorem parseExeHeader_nf (s : Array Nat) (magic : Nat) (h : Hdr) (h64 : 64 ≤ s.size) (hs : s.size < 2 ^ 62) :
    NF (parseExeHeader s magic h) := by
  simp only [parseExeHeader]
  split
  · -- PE
    split
    · refine NF_need _ _ (leN_isSome _ _ _ (by omega) (by omega)) (fun posPE _ => ?_)
      split
      next hp =>
        refine NF_need _ _ (leN_isSome _ _ _ (by omega) (by omega)) (fun sig _ => ?_)
        split
        · refine NF_need _ _ (leN_isSome _ _ _ (by omega) (by omega)) (fun a _ => ?_)
          refine NF_need _ _ (leN_isSome _ _ _ (by omega) (by omega)) (fun l _ => ?_)
          refine NF_need _ _ (leN_isSome _ _ _ (by omega) (by omega)) (fun ar _ => ?_)
          exact NF_ok _
        · exact NF_ok _
      · exact NF_ok _
    · exact NF_ok _
  · split
    · -- ELF
      refine NF_need _ _ (getElem?_isSome s 5 (by omega)) (fun b5 _ => ?_)
      split
      · refine NF_need _ _ (getElem?_isSome s 4 (by omega)) (fun b4 _ => ?_)
        by_cases h2 : b4 = 2
        · simp only [h2, decide_true, if_true]
          refine NF_need _ _ (boN_isSome _ _ _ _ (by omega) (by omega)) (fun nb _ => ?_)
          refine NF_need _ _ (boN_isSome _ _ _ _ (by omega) (by omega)) (fun sz _ => ?_)
          refine NF_need _ _ (boN_isSome _ _ _ _ (by omega) (by omega)) (fun ps _ => ?_)
          refine NF_bind _ _ (elfLoop_nf s _ _ _ _ hs _ _ _ _) (fun r _ => ?_)
          split
          · refine NF_need _ _ (boN_isSome _ _ _ _ (by omega) (by omega)) (fun ar _ => ?_)
            exact NF_ok _
          · exact NF_ok _
        · simp only [h2, decide_false, Bool.false_eq_true, if_false]
          refine NF_need _ _ (boN_isSome _ _ _ _ (by omega) (by omega)) (fun nb _ => ?_)
          refine NF_need _ _ (boN_isSome _ _ _ _ (by omega) (by omega)) (fun sz _ => ?_)
          refine NF_need _ _ (boN_isSome _ _ _ _ (by omega) (by omega)) (fun ps _ => ?_)
          refine NF_bind _ _ (elfLoop_nf s _ _ _ _ hs _ _ _ _) (fun r _ => ?_)
          split
          · refine NF_need _ _ (boN_isSome _ _ _ _ (by omega) (by omega)) (fun ar _ => ?_)
            exact NF_ok _
          · exact NF_ok _
      · exact NF_ok _
    · split
      · -- Mach-O
        split
        · refine NF_need _ _ (leN_isSome _ _ _ (by omega) (by omega)) (fun mode _ => ?_)
          split
          · exact NF_ok _
          · refine NF_need _ _ (leN_isSome _ _ _ (by omega) (by omega)) (fun ar _ => ?_)
            refine NF_need _ _ (leN_isSome _ _ _ (by omega) (by omega)) (fun nc _ => ?_)
            refine NF_bind _ _ (machLoop_nf s _ _ _ _ _) (fun r _ => ?_)
            split <;> exact NF_ok _
        · exact NF_ok _
      · exact NF_ok _

theorem scanArm_nf (s : Array Nat) (i ja : Nat) : NF (scanArm s i ja) := by
  simp only [scanArm]
  split
  · exact NF_ok _
  next h =>
    refine NF_need _ _ (leN_isSome _ _ _ (by omega) (by omega)) (fun instr _ => ?_)
    split <;> exact NF_ok _

theorem scanLoop_nf (s : Array Nat) (ce : Nat) (hce : ce + 4 ≤ s.size) :
    ∀ (f i : Nat) (st : Scan), ce - i < f → NF (scanLoop s ce f i st) := by
  intro f
  induction f with
  | zero => intro i st hf; omega
  | succ f ih =>
    intro i st hf
    simp only [scanLoop]
    split
    next hlt =>
      refine NF_need _ _ (getElem?_isSome s i (by omega)) (fun b _ => ?_)
      split
      · refine NF_need _ _ (getElem?_isSome s (i + 4) (by omega)) (fun b4 _ => ?_)
        split
        · exact ih _ _ (by omega)
        · exact NF_bind _ _ (scanArm_nf s i _) (fun ja _ => ih _ _ (by omega))
      · split
        · refine NF_need _ _ (getElem?_isSome s (i + 1) (by omega)) (fun c _ => ?_)
          have hi2 : ∀ P [Decidable P], (if P then i + 2 else i + 1) < s.size ∧ i + 1 ≤ (if P then i + 2 else i + 1) := by
            intro P _; split <;> omega
          obtain ⟨h2a, h2b⟩ := hi2 (c = 0x38 ∨ c = 0x3A)
          refine NF_need _ _ (getElem?_isSome s _ h2a) (fun d _ => ?_)
          split
          · exact ih _ _ (by omega)
          · exact NF_bind _ _ (scanArm_nf s _ _) (fun ja _ => ih _ _ (by omega))
        · exact NF_bind _ _ (scanArm_nf s i _) (fun ja _ => ih _ _ (by omega))
    · exact NF_ok _

theorem heuristic_nf (s : Array Nat) (cs0 ce0 : Int) (h4 : 4 ≤ s.size) : NF (heuristic s cs0 ce0) := by
  simp only [heuristic]
  refine NF_bind _ _ (scanLoop_nf s _ (by omega) _ _ _ (by omega)) (fun st _ => ?_)
  split
  · exact NF_ok _
  · split
    · exact NF_ok _
    · split
      · exact NF_ok _
      · split <;> exact NF_ok _

theorem detectExeType_nf (s : Array Nat) (cs0 ce0 : Int) (h64 : 64 ≤ s.size) (hs : s.size < 2 ^ 62) :
    NF (detectExeType s cs0 ce0) := by
  simp only [detectExeType]
  refine NF_bind _ _ (parseExeHeader_nf s _ _ h64 hs) (fun r _ => ?_)
  split
  · exact NF_ok _
  · exact NF_bind _ _ (heuristic_nf s _ _ (by omega)) (fun m _ => NF_ok _)

/-- Forward never panics on any block when the destination is as large as advertised -/
theorem exeForward_nf (dt : Option Nat) (src : List Nat) (dstLen : Nat)
    (hdst : exeMaxEncodedLen src.length ≤ dstLen) : NF (exeForward dt src dstLen) := by
  simp only [exeForward]
  split
  · exact NF_ok _
  · split
    · exact NF_err _
    next hmin =>
      split
      · exact NF_err _
      next hmax =>
        split
        · exact NF_err _
        · split
          · exact NF_err _
          · simp only [MIN_BLOCK_SIZE_eq, MAX_BLOCK_SIZE_eq] at hmin hmax
            have hd9 : 9 ≤ dstLen := by unfold exeMaxEncodedLen at hdst; split at hdst <;> omega
            have hsz : (List.take (src.length - 4) src).toArray.size = src.length - 4 := by simp
            refine NF_bind _ _ (detectExeType_nf _ _ _ (by omega) (by omega)) (fun d _ => ?_)
            split
            · exact NF_err _
            · split
              · exact fwdX86_nf src dstLen _ _ hd9
              · split
                · exact fwdARM_nf src dstLen _ _ hd9
                · exact NF_err _
end Kanzi.EXE
