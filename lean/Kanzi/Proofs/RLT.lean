/-
Proofs for the `rlt` slice, part 3: the whole of `rltForward` / `rltInverse` (property statements in
`Kanzi/Properties/C13_rlt.lean`).
-/
import Kanzi.Proofs.RLTFwd

namespace Kanzi.RLT

theorem selEscGo_lt (freqs : Array Nat) : ∀ (k m : Nat), m < 256 → selEscGo freqs k m < 256 := by
  intro k
  induction k with
  | zero => intro m h; simpa [selEscGo] using h
  | succ k ih =>
    intro m h
    unfold selEscGo
    split
    · split
      · omega
      · exact ih _ (by omega)
    · exact ih _ h

theorem selectEscape_lt (freqs : Array Nat) : selectEscape freqs < 256 := by
  unfold selectEscape
  split
  · exact selEscGo_lt freqs 256 0 (by omega)
  · omega

theorem chooseEscape_lt (dt : Nat) (fast : Bool) (b : List Nat) (esc : Nat)
    (h : chooseEscape dt fast b = some esc) : esc < 256 := by
  unfold chooseEscape at h
  split at h
  · injection h with h; subst h; decide
  · simp only [] at h
    split at h
    · simp at h
    · injection h with h; subst h; exact selectEscape_lt _

theorem rltMaxEncodedLen_ge (k : Nat) : k ≤ rltMaxEncodedLen k := by
  unfold rltMaxEncodedLen; split <;> omega

/-- what a successful Forward looks like: an escape byte `< 256`, the header and the main loop -/
theorem rltForward_ok (dt : Nat) (fast : Bool) (b t : List Nat) (dstLen : Nat)
    (hdst : rltMaxEncodedLen b.length ≤ dstLen) (hne : b ≠ [])
    (h : rltForward dt fast b dstLen = .ok t) :
    16 ≤ b.length ∧ ∃ esc prev rest, esc < 256 ∧ b = prev :: rest ∧
      fwdLoop b.toArray (rltMaxEncodedLen b.length) esc b.length 1 0 prev
        ((#[] : Array Nat) ++ (esc :: prev :: (if prev = esc then [0] else []))) = .ok t := by
  unfold rltForward at h
  have hlen : b.length ≠ 0 := by simpa using hne
  have hm := rltMaxEncodedLen_ge b.length
  have h1 : ¬ (b.length = 0 ∨ dstLen = 0) := by omega
  simp only [h1, if_false, MIN_BLOCK_LENGTH_eq] at h
  split at h
  · simp at h
  · rename_i h16
    have h3 : ¬ dstLen < rltMaxEncodedLen b.length := by omega
    simp only [h3, if_false] at h
    split at h
    · simp at h
    · split at h
      · simp at h
      · rename_i esc hesc
        refine ⟨by omega, ?_⟩
        match b, hne with
        | prev :: rest, _ =>
          simp only [List.getElem?_toArray, List.getElem?_cons_zero, List.size_toArray] at h
          rcases wr_cases (rltMaxEncodedLen (prev :: rest).length) #[] (esc :: prev :: (if prev = esc then [0] else [])) with h4 | ⟨e, h4⟩
          · rw [h4, Out.bind_ok] at h
            exact ⟨esc, prev, rest, chooseEscape_lt _ _ _ _ hesc, rfl, h⟩
          · rw [h4] at h; simp at h

/-- C13_rlt + C13_rlt_bytes -/
theorem rlt_roundtrip (dt : Nat) (fast : Bool) (b t : List Nat) (dstLen : Nat) (hb : ∀ x ∈ b, x < 256)
    (hdst : rltMaxEncodedLen b.length ≤ dstLen) (h : rltForward dt fast b dstLen = .ok t) :
    t.length ≤ rltMaxEncodedLen b.length ∧ (∀ y ∈ t, y < 256) ∧
      ∀ n, b.length ≤ n → rltInverse t n = .ok b := by
  by_cases hne : b = []
  · subst hne
    have : t = [] := by
      unfold rltForward at h
      simp at h
      exact h
    subst this
    refine ⟨by simp, by simp, ?_⟩
    intro n _
    simp [rltInverse]
  · obtain ⟨h16, esc, prev, rest, he, hbeq, hl⟩ := rltForward_ok dt fast b t dstLen hdst hne h
    have hm := rltMaxEncodedLen_ge b.length
    have hp : prev < 256 := hb prev (by rw [hbeq]; simp)
    have key : ∀ n, b.length ≤ n → ∃ tail, t = (esc :: prev :: (if prev = esc then [0] else [])) ++ tail ∧
        t.length < b.length ∧ (∀ y ∈ tail, y < 256) ∧ decL n esc tail (b.take 1) = .ok b := by
      intro n hn
      obtain ⟨tail, t1, t2, t3, t4⟩ := fwdLoop_spec b hb n esc (rltMaxEncodedLen b.length) hn he b.length 1 0 prev _ t hl
        (by omega) hp (by omega) (by simp) (by intro j h1 h2; omega)
      exact ⟨tail, by simpa using t1, t2, t3, by simpa using t4⟩
    obtain ⟨tail0, t1, t2, t3, _⟩ := key b.length (Nat.le_refl _)
    refine ⟨by omega, ?_, ?_⟩
    · intro y hy
      rw [t1] at hy
      rcases List.mem_append.1 hy with hy | hy
      · by_cases hpe : prev = esc <;> simp [hpe] at hy <;> omega
      · exact t3 y hy
    · intro n hn
      obtain ⟨tail, u1, _, _, u4⟩ := key n hn
      have hn0 : n ≠ 0 := by omega
      have htake : b.take 1 = [prev] := by rw [hbeq]; simp
      rw [htake] at u4
      by_cases hpe : prev = esc
      · subst hpe
        simp only [if_true, List.cons_append, List.nil_append] at u1
        rw [u1, rltInverse_esc _ _ _ hn0, u4]; rfl
      · simp only [hpe, if_false, List.cons_append, List.nil_append] at u1
        rw [u1, rltInverse_lit _ _ _ _ hpe hn0, decL_lit _ _ _ _ _ hpe]
        have : ¬ ([] : List Nat).length ≥ n := by simp; omega
        rw [if_neg this]
        simp only [List.nil_append]
        rw [u4]; rfl

/-- a successful Forward on a non-empty block is strictly shorter than the block -/
theorem rlt_shorter (dt : Nat) (fast : Bool) (b t : List Nat) (dstLen : Nat) (hb : ∀ x ∈ b, x < 256)
    (hdst : rltMaxEncodedLen b.length ≤ dstLen) (hne : b ≠ []) (h : rltForward dt fast b dstLen = .ok t) :
    t.length < b.length := by
  obtain ⟨h16, esc, prev, rest, he, hbeq, hl⟩ := rltForward_ok dt fast b t dstLen hdst hne h
  have hp : prev < 256 := hb prev (by rw [hbeq]; simp)
  obtain ⟨tail, _, t2, _, _⟩ := fwdLoop_spec b hb b.length esc (rltMaxEncodedLen b.length) (Nat.le_refl _) he b.length 1 0 prev _ t hl
    (by omega) hp (by omega) (by simp) (by intro j h1 h2; omega)
  exact t2

/-- C13_rlt_total, Forward part -/
theorem rltForward_ne_fault (dt : Nat) (fast : Bool) (b : List Nat) (dstLen : Nat)
    (hdst : rltMaxEncodedLen b.length ≤ dstLen) (e : String) : rltForward dt fast b dstLen ≠ .fault e := by
  unfold rltForward
  intro h
  split at h
  · simp at h
  · rename_i h1
    simp only [MIN_BLOCK_LENGTH_eq] at h
    split at h
    · simp at h
    · split at h
      · simp at h
      · split at h
        · simp at h
        · split at h
          · simp at h
          · rename_i h16 _ _ esc _
            have hm := rltMaxEncodedLen_ge b.length
            rw [get_toArray b 0 (by omega)] at h
            simp only [List.size_toArray] at h
            rw [wr_ok _ _ _ (by by_cases hp : b[0] = esc <;> simp [hp] <;> omega), Out.bind_ok] at h
            exact fwdLoop_ne_fault b esc (rltMaxEncodedLen b.length) _ 1 0 _ _ e (by omega) (by omega) h

end Kanzi.RLT
