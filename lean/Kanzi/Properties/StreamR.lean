/-
Reader-side property theorems (C01 reader half, C05, C06 read sizes, C09, C11, C02 after-error) over
`Model.Reader`.  Proofs in `Kanzi/Proofs/Reader.lean`.  They hold for every block size B ≥ 1, every
job count J ≥ 1, every size hint (nbIn) and every range from/to.
-/
import Kanzi.Model.Reader
import Kanzi.Spec.Stream
import Kanzi.Proofs.Reader

namespace Kanzi.StreamR
open Kanzi.Reader Kanzi.Spec

/-- C05 / C06 (read sizes) / C11 / C01 (reader half), in one statement.  For every well-formed stream,
every job count, every size hint, every block range and EVERY sequence of Read request sizes: the k-th
call returns exactly the next `min(n, left)` bytes of the concatenation of the blocks in range
(`specRead`), without error; it returns end-of-stream exactly when nothing is left and n > 0.
Hence the delivered bytes do not depend on jobs, hint or request sizes; blocks come in stream order,
exactly once; blocks outside the range contribute nothing. -/
theorem C05_reader_refines_spec (c : Cfg) (hB : 0 < c.B) (hJ : 0 < c.J) (blocks : List (List Nat))
    (hv : validBlocks c.B blocks) (sizes : List Nat) :
    let expected := (selectRange c.from_ c.to_ blocks).flatten
    ∀ k, (hk : k < sizes.length) →
      let pos := (sizes.take k).sum
      let n := sizes[k]
      ((readSeq c (init (validFrames blocks)) sizes).2)[k]? =
        some (if n = 0 then ReadRes.data [] none
              else if pos ≥ expected.length then ReadRes.eof
              else ReadRes.data (specRead expected pos n) none) :=
  Kanzi.Reader.reader_refines_spec c hB hJ blocks hv sizes

/-- C11: blocks outside the range are never handed to the codec -/
theorem C11_skipped_not_decoded (c : Cfg) (hB : 0 < c.B) (hJ : 0 < c.J) (frames : List Frame) (sizes : List Nat) :
    ∀ id ∈ (readSeq c (init frames) sizes).1.decodedIds, inRange c id = true :=
  Kanzi.Reader.decoded_in_range c hB hJ frames sizes

/-- C02 / C05: once a Read has reported a block error the reader is dead: no later Read returns a
byte, whatever the stream contains after the failed block -/
theorem C02_nothing_after_error (c : Cfg) (hB : 0 < c.B) (hJ : 0 < c.J) (s : St) (n : Nat)
    (h : (read c s n).2.isErr = true) (hcl : s.closed = false) (sizes : List Nat) :
    ∀ r ∈ (readSeq c (read c s n).1 sizes).2, r.bytes = [] :=
  Kanzi.Reader.nothing_after_error c hB hJ s n h hcl sizes

/-- C09 (PARTIAL): a stream without end marker (cut at a frame boundary or inside a frame, after any
number of good frames) is never reported as complete: whatever the request sizes, end-of-stream is never
returned unless an error was returned by an earlier call.
PARTIAL: proved under the additional hypothesis `hne` that no frame decodes to zero bytes (the model's
`Frame.block` comment says "non-empty" but the type does not enforce it).  Without `hne` the statement
is FALSE for the model: B = 2, J = 1, frames = [Frame.block []] (or [Frame.oversize 0]), sizes = [1]
gives `[ReadRes.eof]` -- see `Kanzi.Reader.no_eof_without_marker_counterexample` and the commented
original statement in `Kanzi/Proofs/Reader.lean`. -/
theorem C09_no_eof_without_marker (c : Cfg) (hB : 0 < c.B) (hJ : 0 < c.J) (frames : List Frame)
    (hno : Frame.endMarker ∉ frames)
    (hne : ∀ f ∈ frames, f ≠ Frame.block [] ∧ f ≠ Frame.oversize 0) (sizes : List Nat) :
    ∀ k : Nat, ((readSeq c (init frames) sizes).2)[k]? = some ReadRes.eof →
      ∃ j : Nat, j < k ∧ (((readSeq c (init frames) sizes).2)[j]?.map ReadRes.isErr) = some true :=
  Kanzi.Reader.no_eof_without_marker_partial c hB hJ frames hno hne sizes

/-- C05 (error position): when frame number `blocks.length + 1` fails (in or after the critical
section) every byte ever returned belongs to the blocks before it (a prefix of their concatenation):
nothing from beyond the failed block is delivered in its place, for any continuation of the stream -/
theorem C05_error_position (c : Cfg) (hB : 0 < c.B) (hJ : 0 < c.J) (blocks : List (List Nat))
    (hv : ∀ b ∈ blocks, b.length = c.B) (bad : Frame) (hbad : bad = .badCrit ∨ bad = .badPost)
    (hin : inRange c (blocks.length + 1) = true)
    (rest : List Frame) (sizes : List Nat) :
    let outs := (readSeq c (init (blocks.map Frame.block ++ bad :: rest)) sizes).2
    (outs.map ReadRes.bytes).flatten <+: (selectRange c.from_ c.to_ blocks).flatten ∧
    ReadRes.stale ∉ outs :=
  Kanzi.Reader.error_position c hB hJ blocks hv bad hbad hin rest sizes

/-- C17 (reader): Close is idempotent and absorbing -/
theorem C17_reader_closed (c : Cfg) (s : St) (n : Nat) :
    close (close s) = close s ∧ read c (close s) n = (close s, ReadRes.data [] (some Err.closed)) :=
  Kanzi.Reader.closed_absorbing c s n

end Kanzi.StreamR
