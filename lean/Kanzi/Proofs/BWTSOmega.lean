/-
Slice `bwts` (C13): infinite periodic words `u^ω` as sequences `pw u : Nat → Nat`, the
lexicographic order on sequences, and the executable comparison `omegaLt` / `omegaLe`.
-/
import Kanzi.Proofs.BWTSLex

namespace Kanzi.BWTS

theorem exists_least (P : Nat → Prop) (h : ∃ n, P n) : ∃ n, P n ∧ ∀ m, m < n → ¬ P m := by
  obtain ⟨n, hn⟩ := h
  induction n using Nat.strongRecOn with
  | _ n ih =>
    by_cases hc : ∃ m, m < n ∧ P m
    · obtain ⟨m, hm, hp⟩ := hc
      exact ih m hm hp
    · exact ⟨n, hn, fun m hm hp => hc ⟨m, hm, hp⟩⟩

/-! ## sequences -/

/-- strict lexicographic order on infinite words -/
def SeqLt (f g : Nat → Nat) : Prop := ∃ k, (∀ i, i < k → f i = g i) ∧ f k < g k

def SeqEq (f g : Nat → Nat) : Prop := ∀ i, f i = g i

/-- the sequence without its first `k` letters -/
def sh (k : Nat) (f : Nat → Nat) : Nat → Nat := fun i => f (i + k)

theorem SeqLt.irrefl (f : Nat → Nat) : ¬ SeqLt f f := by
  rintro ⟨k, _, h⟩; omega

theorem SeqLt.trans {f g h : Nat → Nat} (h1 : SeqLt f g) (h2 : SeqLt g h) : SeqLt f h := by
  obtain ⟨k1, a1, b1⟩ := h1
  obtain ⟨k2, a2, b2⟩ := h2
  rcases Nat.lt_trichotomy k1 k2 with hk | hk | hk
  · exact ⟨k1, fun i hi => (a1 i hi).trans (a2 i (by omega)), by rw [← a2 k1 hk]; exact b1⟩
  · subst hk
    exact ⟨k1, fun i hi => (a1 i hi).trans (a2 i hi), by omega⟩
  · exact ⟨k2, fun i hi => (a1 i (by omega)).trans (a2 i hi), by rw [a1 k2 hk]; exact b2⟩

theorem SeqLt.asymm {f g : Nat → Nat} (h1 : SeqLt f g) : ¬ SeqLt g f :=
  fun h2 => SeqLt.irrefl f (h1.trans h2)

theorem seq_trichotomy (f g : Nat → Nat) : SeqLt f g ∨ SeqEq f g ∨ SeqLt g f := by
  by_cases h : ∃ n, f n ≠ g n
  · obtain ⟨n, hn, hmin⟩ := exists_least _ h
    have hm : ∀ i, i < n → f i = g i := fun i hi => by
      have := hmin i hi; simpa using this
    rcases Nat.lt_trichotomy (f n) (g n) with h1 | h1 | h1
    · exact Or.inl ⟨n, hm, h1⟩
    · exact absurd h1 hn
    · exact Or.inr (Or.inr ⟨n, fun i hi => (hm i hi).symm, h1⟩)
  · refine Or.inr (Or.inl fun i => ?_)
    exact Classical.byContradiction fun hc => h ⟨i, hc⟩

theorem SeqLt.congr_left {f f' g : Nat → Nat} (h : SeqLt f g) (e : SeqEq f f') : SeqLt f' g := by
  obtain ⟨k, a, b⟩ := h
  exact ⟨k, fun i hi => (e i).symm.trans (a i hi), by rw [← e k]; exact b⟩

theorem SeqLt.congr_right {f g g' : Nat → Nat} (h : SeqLt f g) (e : SeqEq g g') : SeqLt f g' := by
  obtain ⟨k, a, b⟩ := h
  exact ⟨k, fun i hi => (a i hi).trans (e i), by rw [← e k]; exact b⟩

theorem SeqLt.not_eq {f g : Nat → Nat} (h : SeqLt f g) : ¬ SeqEq f g :=
  fun e => SeqLt.irrefl g (h.congr_left e)

/-- `f ≤ g` -/
def SeqLe (f g : Nat → Nat) : Prop := ¬ SeqLt g f

theorem seqLe_iff {f g : Nat → Nat} : SeqLe f g ↔ SeqLt f g ∨ SeqEq f g := by
  unfold SeqLe
  constructor
  · intro h
    rcases seq_trichotomy f g with h1 | h1 | h1
    · exact Or.inl h1
    · exact Or.inr h1
    · exact absurd h1 h
  · rintro (h | h)
    · exact h.asymm
    · intro h2; exact h2.not_eq (fun i => (h i).symm)

theorem SeqLe.trans {f g h : Nat → Nat} (h1 : SeqLe f g) (h2 : SeqLe g h) : SeqLe f h := by
  rcases seqLe_iff.1 h1 with a | a <;> rcases seqLe_iff.1 h2 with b | b
  · exact seqLe_iff.2 (Or.inl (a.trans b))
  · exact seqLe_iff.2 (Or.inl (a.congr_right b))
  · exact seqLe_iff.2 (Or.inl (b.congr_left (fun i => (a i).symm)))
  · exact seqLe_iff.2 (Or.inr (fun i => (a i).trans (b i)))

theorem SeqLt.of_lt_of_le {f g h : Nat → Nat} (h1 : SeqLt f g) (h2 : SeqLe g h) : SeqLt f h := by
  rcases seqLe_iff.1 h2 with b | b
  · exact h1.trans b
  · exact h1.congr_right b

theorem SeqLt.of_le_of_lt {f g h : Nat → Nat} (h1 : SeqLe f g) (h2 : SeqLt g h) : SeqLt f h := by
  rcases seqLe_iff.1 h1 with b | b
  · exact b.trans h2
  · exact h2.congr_left (fun i => (b i).symm)

theorem seqEq_of_le_of_le {f g : Nat → Nat} (h1 : SeqLe f g) (h2 : SeqLe g f) : SeqEq f g := by
  rcases seqLe_iff.1 h1 with b | b
  · exact absurd b h2
  · exact b

/-- common prefix of length `k`, then compare the rest -/
theorem seqLt_of_sh {f g : Nat → Nat} (k : Nat) (hp : ∀ i, i < k → f i = g i)
    (h : SeqLt (sh k f) (sh k g)) : SeqLt f g := by
  obtain ⟨j, a, b⟩ := h
  refine ⟨j + k, fun i hi => ?_, b⟩
  by_cases hik : i < k
  · exact hp i hik
  · have := a (i - k) (by omega)
    simp only [sh] at this
    rwa [show i - k + k = i by omega] at this

theorem sh_seqLt {f g : Nat → Nat} (k : Nat) (hp : ∀ i, i < k → f i = g i) (h : SeqLt f g) :
    SeqLt (sh k f) (sh k g) := by
  obtain ⟨j, a, b⟩ := h
  have hkj : k ≤ j := by
    by_cases hc : k ≤ j
    · exact hc
    · have := hp j (by omega); omega
  refine ⟨j - k, fun i hi => a (i + k) (by omega), ?_⟩
  simp only [sh]
  rwa [show j - k + k = j by omega]

/-! ## `u^ω` -/

/-- the `i`-th letter of `u^ω` -/
def pw (u : List Nat) (i : Nat) : Nat := u.getD (i % u.length) 0

theorem pw_of_lt (u : List Nat) (i : Nat) (h : i < u.length) : pw u i = u.getD i 0 := by
  unfold pw; rw [Nat.mod_eq_of_lt h]

theorem pw_add_length (u : List Nat) (i : Nat) : pw u (i + u.length) = pw u i := by
  unfold pw; rw [Nat.add_mod_right]

theorem pw_add_mul_length (u : List Nat) (i q : Nat) : pw u (i + q * u.length) = pw u i := by
  unfold pw; rw [Nat.add_mul_mod_self_right]

theorem sh_pw_length (u : List Nat) : sh u.length (pw u) = pw u := by
  funext i; exact pw_add_length u i

theorem mod_add_cases (j k m : Nat) (hj : j < m) (hk : k ≤ m) :
    (j + k) % m = if j + k < m then j + k else j + k - m := by
  split
  · exact Nat.mod_eq_of_lt (by assumption)
  · rw [Nat.mod_eq_sub_mod (by omega)]
    exact Nat.mod_eq_of_lt (by omega)

theorem getD_append_left' (u x : List Nat) (i : Nat) (h : i < u.length) :
    (u ++ x).getD i 0 = u.getD i 0 := by
  simp [List.getD_eq_getElem?_getD, List.getElem?_append_left h]

theorem getD_append_right' (u x : List Nat) (i : Nat) (h : u.length ≤ i) :
    (u ++ x).getD i 0 = x.getD (i - u.length) 0 := by
  simp [List.getD_eq_getElem?_getD, List.getElem?_append_right h]

/-- the rotation starting at `k` is the shift by `k` -/
theorem pw_rot (w : List Nat) (k : Nat) (hk : k ≤ w.length) (i : Nat) :
    pw (rot w k) i = pw w (i + k) := by
  have hlen : (rot w k).length = w.length := by simp [rot]; omega
  by_cases hw : w.length = 0
  · have : w = [] := List.eq_nil_of_length_eq_zero hw
    subst this; simp [pw, rot]
  · have hj : i % w.length < w.length := Nat.mod_lt _ (by omega)
    unfold pw
    rw [hlen, ← Nat.mod_add_mod, mod_add_cases _ _ _ hj hk]
    unfold rot
    split
    · rw [getD_append_left' _ _ _ (by simp; omega)]
      simp [List.getD_eq_getElem?_getD, Nat.add_comm]
    · rw [getD_append_right' _ _ _ (by simp; omega)]
      simp only [List.length_drop, List.getD_eq_getElem?_getD]
      rw [List.getElem?_take_of_lt (by omega)]
      congr 2; omega

theorem pw_append_left (u x : List Nat) (i : Nat) (h : i < u.length) :
    pw (u ++ x) i = u.getD i 0 := by
  rw [pw_of_lt _ _ (by simp; omega), getD_append_left' _ _ _ h]

theorem pw_append_right (u x : List Nat) (i : Nat) (h : i < x.length) :
    pw (u ++ x) (i + u.length) = x.getD i 0 := by
  rw [pw_of_lt _ _ (by simp; omega), getD_append_right' _ _ _ (by omega)]
  congr 1; omega

/-! ## the executable comparison -/

def norm (u x : List Nat) : List Nat := if x.isEmpty then u else x

theorem step_mod (i m : Nat) (hm : 0 < m) :
    (i + 1) % m = if i % m + 1 = m then 0 else i % m + 1 := by
  have hj : i % m < m := Nat.mod_lt _ hm
  rw [← Nat.mod_add_mod]
  split
  · rename_i h; rw [h]; exact Nat.mod_self m
  · exact Nat.mod_eq_of_lt (by omega)

theorem norm_step (u : List Nat) (hu : u ≠ []) (i : Nat) (a : Nat) (x' : List Nat)
    (h : u.drop (i % u.length) = a :: x') :
    a = pw u i ∧ norm u x' = u.drop ((i + 1) % u.length) := by
  have hm : 0 < u.length := List.length_pos_iff.2 hu
  have hj : i % u.length < u.length := Nat.mod_lt _ hm
  rw [List.drop_eq_getElem_cons hj] at h
  injection h with h1 h2
  refine ⟨?_, ?_⟩
  · unfold pw
    rw [← h1]; simp [List.getD_eq_getElem?_getD, List.getElem?_eq_getElem hj]
  · rw [step_mod i _ hm, ← h2]
    unfold norm
    by_cases hc : i % u.length + 1 = u.length
    · simp [hc]
    · have : ¬ (u.drop (i % u.length + 1)).isEmpty = true := by
        simp only [List.isEmpty_iff, List.drop_eq_nil_iff]; omega
      simp [this, hc]

theorem omegaLtGo_iff (u v : List Nat) (hu : u ≠ []) (hv : v ≠ []) (fuel : Nat) :
    ∀ (x y : List Nat) (i : Nat), norm u x = u.drop (i % u.length) →
      norm v y = v.drop (i % v.length) →
      (omegaLtGo u v fuel x y = true ↔
        ∃ k, k < fuel ∧ (∀ j, j < k → pw u (i + j) = pw v (i + j)) ∧ pw u (i + k) < pw v (i + k)) := by
  induction fuel with
  | zero => intro x y i _ _; simp [omegaLtGo]
  | succ f ih =>
    intro x y i hx hy
    have hmu : 0 < u.length := List.length_pos_iff.2 hu
    have hmv : 0 < v.length := List.length_pos_iff.2 hv
    unfold omegaLtGo
    change (match norm u x, norm v y with
      | a :: x', b :: y' => if a < b then true else if b < a then false else omegaLtGo u v f x' y'
      | _, _ => false) = true ↔ _
    rw [hx, hy]
    have hju : i % u.length < u.length := Nat.mod_lt _ hmu
    have hjv : i % v.length < v.length := Nat.mod_lt _ hmv
    have e1 := List.drop_eq_getElem_cons hju
    have e2 := List.drop_eq_getElem_cons hjv
    obtain ⟨ha, hx'⟩ := norm_step u hu i _ _ e1
    obtain ⟨hb, hy'⟩ := norm_step v hv i _ _ e2
    rw [e1, e2]
    simp only []
    rw [ha, hb]
    by_cases h1 : pw u i < pw v i
    · simp only [h1, if_true, true_iff]
      exact ⟨0, by omega, fun j hj => by omega, h1⟩
    · by_cases h2 : pw v i < pw u i
      · simp only [h1, h2, if_true, if_false, Bool.false_eq_true, false_iff]
        rintro ⟨k, _, a, b⟩
        cases k with
        | zero => exact h1 b
        | succ k => have := a 0 (by omega); simp at this; omega
      · simp only [h1, h2, if_false]
        have heq : pw u i = pw v i := by omega
        rw [ih _ _ (i + 1) hx' hy']
        constructor
        · rintro ⟨k, hk, a, b⟩
          refine ⟨k + 1, by omega, fun j hj => ?_, by rw [show i + (k + 1) = i + 1 + k by omega]; exact b⟩
          cases j with
          | zero => exact heq
          | succ j => rw [show i + (j + 1) = i + 1 + j by omega]; exact a j (by omega)
        · rintro ⟨k, hk, a, b⟩
          cases k with
          | zero => exact absurd b h1
          | succ k =>
            refine ⟨k, by omega, fun j hj => ?_, by rw [show i + 1 + k = i + (k + 1) by omega]; exact b⟩
            rw [show i + 1 + j = i + (j + 1) by omega]; exact a (j + 1) (by omega)

/-- `omegaLt` decides `u^ω < v^ω` -/
theorem omegaLt_iff (u v : List Nat) (hu : u ≠ []) (hv : v ≠ []) :
    omegaLt u v = true ↔ SeqLt (pw u) (pw v) := by
  unfold omegaLt
  rw [omegaLtGo_iff u v hu hv _ u v 0 (by simp [norm, hu]) (by simp [norm, hv])]
  simp only [Nat.zero_add]
  constructor
  · rintro ⟨k, _, a, b⟩; exact ⟨k, a, b⟩
  · rintro ⟨k, a, b⟩
    refine ⟨k, ?_, a, b⟩
    -- both sequences have the period `|u|·|v|`
    apply Classical.byContradiction
    intro hc
    have hk : u.length * v.length ≤ k := by omega
    have e1 : pw u (k - u.length * v.length) = pw u k := by
      have := pw_add_mul_length u (k - u.length * v.length) v.length
      rw [Nat.mul_comm v.length] at this
      rw [← this]; congr 1; omega
    have e2 : pw v (k - u.length * v.length) = pw v k := by
      have := pw_add_mul_length v (k - u.length * v.length) u.length
      rw [← this]; congr 1; omega
    have hpos : 0 < u.length * v.length :=
      Nat.mul_pos (List.length_pos_iff.2 hu) (List.length_pos_iff.2 hv)
    have := a (k - u.length * v.length) (by omega)
    omega

theorem omegaLe_iff (u v : List Nat) (hu : u ≠ []) (hv : v ≠ []) :
    omegaLe u v = true ↔ SeqLe (pw u) (pw v) := by
  unfold omegaLe SeqLe
  rw [← omegaLt_iff v u hv hu]
  simp

end Kanzi.BWTS
