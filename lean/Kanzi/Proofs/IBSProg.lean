/-
Programs of operations: the concrete stream and the abstract word machine produce the same
outcomes and `Read()` counters.  Since the abstract state contains neither the chunking of the
source nor the buffer size, this is the independence of the I/O granularity (C06).
-/
import Kanzi.Proofs.IBSArrBits

namespace Kanzi.IBS

def A.step (a : A) (op : Op) : Outcome × A :=
  match op with
  | .readBit => (resOut (A.readBit a).1, (A.readBit a).2)
  | .readBits n => (resOut (A.readBits a n).1, (A.readBits a n).2)
  | .readArray k =>
    (match (A.readArray a k).1 with
      | .val bs => .arr bs
      | .panic e => .panic e, (A.readArray a k).2)
  | .hasMore =>
    (match (A.hasMore a).1 with
      | .val _ => .more
      | .panic e => .moreErr e, (A.hasMore a).2)
  | .close => (.ok, A.close a)
  | .read => (.cnt, a)

def A.run (a : A) : List Op → List (Outcome × Int)
  | [] => []
  | op :: ops => ((A.step a op).1, (A.step a op).2.cnt) :: A.run (A.step a op).2 ops

def isPanic : Outcome → Bool
  | .panic _ => true
  | _ => false

/-- the outcomes up to and including the first panic (a client stops using a stream that
    panicked) -/
def runP (s : St) : List Op → List (Outcome × Int)
  | [] => []
  | op :: ops =>
    ((step s op).1, (step s op).2.count) ::
      (if isPanic (step s op).1 then [] else runP (step s op).2 ops)

def A.runP (a : A) : List Op → List (Outcome × Int)
  | [] => []
  | op :: ops =>
    ((A.step a op).1, (A.step a op).2.cnt) ::
      (if isPanic (A.step a op).1 then [] else A.runP (A.step a op).2 ops)

def isArray : Op → Bool
  | .readArray _ => true
  | _ => false

/-- invariant of the states reachable without a panic -/
def Good (s : St) : Prop := Inv s ∧ (s.closed = true ∨ Fresh s)

theorem refill_position (s : St) (hc : s.closed = false) (hb : s.buffer.length ≠ 0)
    (hp : s.pendingErr = none) : (refill s).2.position = 0 ∧ (refill s).2.closed = false := by
  by_cases hz : (fetch s).data.length = 0
  · rw [refill_empty s hc hb hp hz]; exact ⟨rfl, hc⟩
  · rw [refill_data s hc hb hp hz]; exact ⟨rfl, hc⟩

theorem hasMore_fresh (s : St) (hi : Inv s) (hf : Fresh s) : Fresh (hasMore s).2 := by
  unfold hasMore
  rw [hf.1]
  simp only [Bool.false_eq_true, ↓reduceIte]
  split
  · exact hf
  · cases hp : s.pendingErr with
    | some e => exact hf
    | none =>
      have hb : s.buffer.length ≠ 0 := by have := hi.bpos; omega
      obtain ⟨r1, r2⟩ := refill_position s hf.1 hb hp
      simp only
      cases hr : (refill s).1 with
      | some e => exact ⟨r2, by rw [r1]; omega⟩
      | none => exact ⟨r2, by rw [r1]; omega⟩

theorem resOut_val_ne_panic {r : Res (BitVec 64)} (h : isPanic (resOut r) = false) :
    ∀ e, r ≠ .panic e := by
  intro e he; rw [he] at h; simp [resOut, isPanic] at h

theorem step_sim (s : St) (op : Op) (hi : Inv s) (hg : isArray op = true → s.closed = true ∨ Fresh s) :
    (step s op).1 = (A.step (abs s) op).1 ∧ abs (step s op).2 = (A.step (abs s) op).2 ∧
    Inv (step s op).2 ∧
    ((s.closed = true ∨ Fresh s) → isPanic (step s op).1 = false →
      ((step s op).2.closed = true ∨ Fresh (step s op).2)) := by
  cases op with
  | readBit =>
    obtain ⟨q1, q2, q3, q4⟩ := readBit_sim s hi
    refine ⟨by simp only [step, A.step, q1], q2, q3, ?_⟩
    intro hgood hnp
    rcases hgood with hcl | hfr
    · exfalso
      have := A.readBit_closed (abs s) (AInv_abs s hi) hcl
      simp only [step] at hnp
      rw [q1, this] at hnp
      simp [resOut, isPanic] at hnp
    · right; exact q4 hfr (resOut_val_ne_panic hnp)
  | readBits n =>
    obtain ⟨q1, q2, q3, q4⟩ := readBits_sim s n hi
    refine ⟨by simp only [step, A.step, q1], q2, q3, ?_⟩
    intro hgood hnp
    rcases hgood with hcl | hfr
    · exfalso
      simp only [step] at hnp
      by_cases hn : n = 0 ∨ n > 64
      · have : (readBits s n).1 = .panic .invalidCount := by
          unfold readBits; rw [readBitsAux, if_pos hn]
        rw [this] at hnp; simp [resOut, isPanic] at hnp
      · have := A.readBits_closed (abs s) (AInv_abs s hi) hcl n (by omega) (by omega)
        rw [q1, this] at hnp
        simp [resOut, isPanic] at hnp
    · right; exact q4 hfr (resOut_val_ne_panic hnp)
  | readArray k =>
    obtain ⟨q1, q2, q3, q4⟩ := readArray_sim s k hi (hg rfl)
    refine ⟨by simp only [step, A.step]; rw [q1]; cases (A.readArray (abs s) k).1 <;> rfl,
      q2, q3, ?_⟩
    intro hgood hnp
    rcases hgood with hcl | hfr
    · exfalso
      have : (readArray s k).1 = .panic .closed := by
        unfold readArray; rw [if_pos hcl]
      simp only [step] at hnp
      rw [this] at hnp; simp [isPanic] at hnp
    · right
      refine q4 hfr ?_
      intro e he
      simp only [step] at hnp
      rw [he] at hnp; simp [isPanic] at hnp
  | hasMore =>
    obtain ⟨q1, q2, q3⟩ := hasMore_sim s hi
    refine ⟨by simp only [step, A.step]; rw [q1]; cases (A.hasMore (abs s)).1 <;> rfl, q2, q3, ?_⟩
    intro hgood _
    rcases hgood with hcl | hfr
    · left
      have : hasMore s = (.panic .closed, s) := by unfold hasMore; rw [if_pos hcl]
      simp only [step]; rw [this]; exact hcl
    · right; exact hasMore_fresh s hi hfr
  | close =>
    obtain ⟨q1, q2⟩ := close_sim s hi
    refine ⟨rfl, q1, q2, ?_⟩
    intro _ _
    left
    simp only [step, close]
    split
    · assumption
    · rfl
  | read => exact ⟨rfl, rfl, hi, fun h _ => h⟩

/-- all operations, up to and including the first panic -/
theorem runP_sim : ∀ (ops : List Op) (s : St), Good s → runP s ops = A.runP (abs s) ops := by
  intro ops
  induction ops with
  | nil => intro s _; rfl
  | cons op ops ih =>
    intro s hg
    obtain ⟨q1, q2, q3, q4⟩ := step_sim s op hg.1 (fun _ => hg.2)
    simp only [runP, A.runP]
    have hc : (step s op).2.count = (A.step (abs s) op).2.cnt := by rw [← q2]; rfl
    rw [q1, hc]
    congr 1
    by_cases hp : isPanic (A.step (abs s) op).1 = true
    · rw [if_pos hp, if_pos hp]
    · rw [if_neg hp, if_neg hp, ← q2]
      exact ih _ ⟨q3, q4 hg.2 (by rw [q1]; simpa using hp)⟩

/-- programs without `ReadArray`: all outcomes, also after panics -/
theorem run_sim : ∀ (ops : List Op) (s : St), Inv s → (∀ op ∈ ops, isArray op = false) →
    run s ops = A.run (abs s) ops := by
  intro ops
  induction ops with
  | nil => intro s _ _; rfl
  | cons op ops ih =>
    intro s hi hops
    have hna : isArray op = false := hops op (List.mem_cons_self)
    obtain ⟨q1, q2, q3, _⟩ := step_sim s op hi (fun h => by rw [hna] at h; cases h)
    simp only [run, A.run]
    have hc : (step s op).2.count = (A.step (abs s) op).2.cnt := by rw [← q2]; rfl
    rw [q1, hc, ← q2]
    congr 1
    exact ih _ q3 (fun o ho => hops o (List.mem_cons_of_mem _ ho))

/-! ### initial states -/

theorem init_inv (bs : Nat) (src : Src) (h8 : bs % 8 = 0) (hpos : 0 < bs) (hne : NE src.chunks) :
    Inv (init bs src) := by
  refine ⟨by simpa [init] using h8, by simpa [init] using hpos, by simp [init], by simp [init, St.lim],
    by simp [init], hne, by simp [init], ?_, by simp [init]⟩
  intro _; simp [init, St.bufRest, St.lim]

theorem init_good (bs : Nat) (src : Src) (h8 : bs % 8 = 0) (hpos : 0 < bs) (hne : NE src.chunks) :
    Good (init bs src) :=
  ⟨init_inv bs src h8 hpos hne, Or.inr ⟨rfl, by simp [init, St.lim]⟩⟩

theorem abs_init (bs : Nat) (src : Src) :
    abs (init bs src) = ⟨false, 0, 0, 0, srcBytes src.chunks, src.term.err⟩ := by
  apply A.ext'
  · rfl
  · simp [abs, init, St.count]
  · rfl
  · rfl
  · simp [abs, init, St.bufRest, St.lim, future]
  · rfl

/-- a source without error-tagged chunks -/
def plainSrc (chunks : List (List Byte)) (term : Term) : Src :=
  ⟨chunks.map (fun b => ⟨b, false⟩), term⟩

theorem srcBytes_plain (chunks : List (List Byte)) :
    srcBytes (chunks.map (fun b => (⟨b, false⟩ : Chunk))) = chunks.flatten := by
  induction chunks with
  | nil => rfl
  | cons c cs ih => simp [srcBytes, ih]

theorem plain_ne (chunks : List (List Byte)) (h : ∀ c ∈ chunks, c ≠ []) (term : Term) :
    NE (plainSrc chunks term).chunks := by
  intro c hc
  simp only [plainSrc, List.mem_map] at hc
  obtain ⟨b, hb, rfl⟩ := hc
  exact h b hb

end Kanzi.IBS
