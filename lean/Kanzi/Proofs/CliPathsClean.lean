/-
More about the model of `filepath.Clean` (lean/Kanzi/Model/CliPaths.lean): the kept component
stack is in normal form, `Clean` is idempotent on what it renders, and the names the directory
walk reports determine the relative path, for EVERY spelling of the root.
-/
import Kanzi.Proofs.CliPaths

namespace Kanzi.CliPaths

def NormComp (c : Str) : Prop := c ≠ [] ∧ c ≠ [DOT] ∧ SEP ∉ c

/-- a `..` is kept only on top of nothing but `..`, and never in a rooted path -/
def Normal (r : Bool) : List Str → Prop
  | [] => True
  | c :: st => NormComp c ∧ Normal r st ∧ (c = DOTDOT → r = false ∧ ∀ d ∈ st, d = DOTDOT)

theorem normComp_dotdot : NormComp DOTDOT := by
  refine ⟨by decide, by decide, by decide⟩

theorem ValidName.norm {n : Str} (h : ValidName n) : NormComp n := ⟨h.1, h.2.1, h.2.2.2⟩

theorem normal_push (r : Bool) (st : List Str) (n : Str) (hn : ValidName n) (h : Normal r st) :
    Normal r (n :: st) :=
  ⟨hn.norm, h, fun e => absurd e hn.2.2.1⟩

theorem cleanStep_normal (r : Bool) (st : List Str) (c : Str) (hc : SEP ∉ c) (h : Normal r st) :
    Normal r (cleanStep r st c) := by
  unfold cleanStep
  split
  · exact h
  · rename_i h1
    have h1' : c ≠ [] ∧ c ≠ [DOT] := by
      constructor
      · intro e; exact h1 (Or.inl e)
      · intro e; exact h1 (Or.inr e)
    split
    · rename_i hdd
      cases st with
      | nil =>
        cases r with
        | true => simp [Normal]
        | false =>
          simp only [Bool.false_eq_true, if_false]
          exact ⟨⟨h1'.1, h1'.2, hc⟩, trivial, fun _ => ⟨rfl, by simp⟩⟩
      | cons t ts =>
        simp only
        split
        · rename_i ht
          obtain ⟨hr, hall⟩ := h.2.2 ht
          refine ⟨⟨h1'.1, h1'.2, hc⟩, h, fun _ => ⟨hr, ?_⟩⟩
          intro d hd
          rcases List.mem_cons.mp hd with hd | hd
          · rw [hd]; exact ht
          · exact hall d hd
        · exact h.2.1
    · rename_i hdd
      exact ⟨⟨h1'.1, h1'.2, hc⟩, h, fun e => absurd e hdd⟩

theorem splitSep_mem_noSep (s : Str) : ∀ c ∈ splitSep s, SEP ∉ c := by
  induction s with
  | nil => simp [splitSep]
  | cons x xs ih =>
    unfold splitSep
    split
    · intro c hc
      rcases List.mem_cons.mp hc with hc | hc
      · rw [hc]; simp
      · exact ih c hc
    · rename_i hx
      cases hs : splitSep xs with
      | nil => exact absurd hs (splitSep_ne_nil xs)
      | cons w ws =>
        rw [hs] at ih
        intro c hc
        simp only [consHead] at hc
        rcases List.mem_cons.mp hc with hc | hc
        · rw [hc]
          intro hm
          rcases List.mem_cons.mp hm with hm | hm
          · exact hx hm.symm
          · exact ih w (by simp) hm
        · exact ih c (by simp [hc])

theorem foldl_cleanStep_normal (r : Bool) (cs : List Str) (st : List Str) (hcs : ∀ c ∈ cs, SEP ∉ c)
    (h : Normal r st) : Normal r (cs.foldl (cleanStep r) st) := by
  induction cs generalizing st with
  | nil => exact h
  | cons c cs ih =>
    exact ih _ (fun d hd => hcs d (by simp [hd])) (cleanStep_normal r st c (hcs c (by simp)) h)

theorem stackOf_normal (p : Str) : Normal (isRooted p) (stackOf p) :=
  foldl_cleanStep_normal _ _ _ (splitSep_mem_noSep p) trivial

/-- feeding a normal stack, bottom first, to `cleanStep` rebuilds it -/
theorem fold_normal (r : Bool) (st : List Str) (h : Normal r st) :
    st.reverse.foldl (cleanStep r) [] = st := by
  induction st with
  | nil => rfl
  | cons c st ih =>
    obtain ⟨hc, hst, hdd⟩ := h
    rw [List.reverse_cons, List.foldl_append, ih hst]
    simp only [List.foldl_cons, List.foldl_nil]
    unfold cleanStep
    have h1 : ¬ (c = [] ∨ c = [DOT]) := by
      intro e; rcases e with e | e
      · exact hc.1 e
      · exact hc.2.1 e
    rw [if_neg h1]
    by_cases hd : c = DOTDOT
    · rw [if_pos hd]
      obtain ⟨hr, hall⟩ := hdd hd
      cases st with
      | nil => simp [hr, hd]
      | cons t ts =>
        have ht : t = DOTDOT := hall t (by simp)
        simp [ht, hd]
    · rw [if_neg hd]

theorem normal_noSep {r : Bool} {st : List Str} (h : Normal r st) : ∀ c ∈ st, SEP ∉ c := by
  induction st with
  | nil => simp
  | cons c st ih =>
    intro d hd
    rcases List.mem_cons.mp hd with hd | hd
    · rw [hd]; exact h.1.2.2
    · exact ih h.2.1 d hd

theorem isRooted_joinSep (l : List Str) (hl : l ≠ []) (h : ∀ c ∈ l, NormComp c) :
    isRooted (joinSep l) = false := by
  cases l with
  | nil => exact absurd rfl hl
  | cons w ws =>
    have hw := h w (by simp)
    cases w with
    | nil => exact absurd rfl hw.1
    | cons x xs =>
      have hx : x ≠ SEP := fun e => hw.2.2 (by simp [e])
      cases ws with
      | nil => simp [joinSep, isRooted, hx]
      | cons v vs => simp [joinSep, isRooted, hx]

theorem normal_comps {r : Bool} {st : List Str} (h : Normal r st) : ∀ c ∈ st, NormComp c := by
  induction st with
  | nil => simp
  | cons c st ih =>
    intro d hd
    rcases List.mem_cons.mp hd with hd | hd
    · rw [hd]; exact h.1
    · exact ih h.2.1 d hd

/-- `Clean` is the identity on what it renders: rootedness and stack are recovered -/
theorem render_stack (r : Bool) (st : List Str) (hne : st ≠ []) (h : Normal r st) :
    isRooted (render r st) = r ∧ stackOf (render r st) = st := by
  have hrev : st.reverse ≠ [] := by simpa using hne
  have hns : ∀ c ∈ st.reverse, SEP ∉ c := fun c hc => normal_noSep h c (by simpa using hc)
  have hsp := splitSep_joinSep st.reverse hrev hns
  cases r with
  | true =>
    have e : render true st = SEP :: joinSep st.reverse := by simp [render]
    rw [e]
    refine ⟨by simp [isRooted], ?_⟩
    unfold stackOf
    have : splitSep (SEP :: joinSep st.reverse) = [] :: st.reverse := by
      simp [splitSep, hsp]
    rw [this]
    simp only [List.foldl_cons, cleanStep_empty]
    have hr : isRooted (SEP :: joinSep st.reverse) = true := by simp [isRooted]
    rw [hr]
    exact fold_normal true st h
  | false =>
    have e : render false st = joinSep st.reverse := by simp [render, hne]
    rw [e]
    have hr : isRooted (joinSep st.reverse) = false :=
      isRooted_joinSep _ hrev (fun c hc => normal_comps h c (by simpa using hc))
    refine ⟨hr, ?_⟩
    unfold stackOf
    rw [hr, hsp]
    exact fold_normal false st h

theorem render_ne_nil (r : Bool) (st : List Str) (hne : st ≠ []) (h : Normal r st) : render r st ≠ [] := by
  intro e
  have := (render_stack r st hne h).2
  rw [e, stackOf_nil] at this
  exact hne this.symm

/-- `filepath.Clean` is idempotent -/
theorem clean_idem (p : Str) : clean (clean p) = clean p := by
  by_cases hst : stackOf p = []
  · unfold clean
    rw [hst]
    cases isRooted p <;> decide
  · have := render_stack (isRooted p) (stackOf p) hst (stackOf_normal p)
    show render (isRooted (clean p)) (stackOf (clean p)) = clean p
    unfold clean
    rw [this.1, this.2]

theorem join2_eq (p n : Str) (hp : p ≠ []) (hn : ValidName n) :
    join2 p n = render (isRooted p) (n :: stackOf p) := by
  unfold join2 clean
  rw [isRooted_append p _ hp, stackOf_append_name p n hp hn]

theorem walkPath_render_aux (r : Bool) (rel : List Str) (hrel : rel ≠ []) (hv : ∀ n ∈ rel, ValidName n) :
    ∀ (st : List Str) (p : Str), Normal r st → p ≠ [] → isRooted p = r → stackOf p = st →
      walkPath p rel = render r (rel.reverse ++ st) := by
  induction rel with
  | nil => exact absurd rfl hrel
  | cons n rest ih =>
    intro st p hst hp hr hs
    have hn := hv n (by simp)
    have hj : join2 p n = render r (n :: st) := by rw [join2_eq p n hp hn, hr, hs]
    have hnorm : Normal r (n :: st) := normal_push r st n hn hst
    cases rest with
    | nil => simp [walkPath, hj]
    | cons m ms =>
      obtain ⟨h1, h2⟩ := render_stack r (n :: st) (by simp) hnorm
      have := ih (by simp) (fun x hx => hv x (by simp [hx])) (n :: st) (render r (n :: st)) hnorm
        (render_ne_nil r _ (by simp) hnorm) h1 h2
      simp only [walkPath, List.foldl_cons] at this ⊢
      rw [hj, this]
      simp

/-- the name the walk reports, for any root: the rendering of the root's stack extended by the
relative path -/
theorem walkPath_render (p : Str) (rel : List Str) (hp : p ≠ []) (hrel : rel ≠ [])
    (hv : ∀ n ∈ rel, ValidName n) :
    walkPath p rel = render (isRooted p) (rel.reverse ++ stackOf p) :=
  walkPath_render_aux (isRooted p) rel hrel hv (stackOf p) p (stackOf_normal p) hp rfl rfl

theorem normal_append_valid (r : Bool) (st : List Str) (rel : List Str) (hv : ∀ n ∈ rel, ValidName n)
    (h : Normal r st) : Normal r (rel.reverse ++ st) := by
  induction rel generalizing st with
  | nil => simpa using h
  | cons n rest ih =>
    have := ih (n :: st) (fun x hx => hv x (by simp [hx])) (normal_push r st n (hv n (by simp)) h)
    simpa [List.reverse_cons, List.append_assoc] using this

theorem render_inj (r : Bool) (s1 s2 : List Str) (h1 : s1 ≠ []) (h2 : s2 ≠ []) (n1 : Normal r s1)
    (n2 : Normal r s2) (h : render r s1 = render r s2) : s1 = s2 := by
  have a := (render_stack r s1 h1 n1).2
  have b := (render_stack r s2 h2 n2).2
  rw [← a, ← b, h]

theorem walkPath_inj (p : Str) (r1 r2 : List Str) (hp : p ≠ []) (h1 : r1 ≠ []) (h2 : r2 ≠ [])
    (v1 : ∀ n ∈ r1, ValidName n) (v2 : ∀ n ∈ r2, ValidName n)
    (h : walkPath p r1 = walkPath p r2) : r1 = r2 := by
  rw [walkPath_render p r1 hp h1 v1, walkPath_render p r2 hp h2 v2] at h
  have := render_inj _ _ _ (by simp [h1]) (by simp [h2])
    (normal_append_valid _ _ r1 v1 (stackOf_normal p)) (normal_append_valid _ _ r2 v2 (stackOf_normal p)) h
  have := List.append_cancel_right this
  exact List.reverse_inj.mp this

theorem render_head_append (r : Bool) (st : List Str) (n s : Str) :
    render r (n :: st) ++ s = render r ((n ++ s) :: st) := by
  rw [render_cons, render_cons]
  by_cases h : st = []
  · cases r <;> simp [h]
  · simp [h]

/-- appending a suffix to the last directory entry name appends it to the reported name -/
theorem walkPath_snoc_append (p : Str) (init : List Str) (last s : Str) (hp : p ≠ [])
    (hv : ∀ n ∈ init ++ [last], ValidName n) (hv' : ValidName (last ++ s)) :
    walkPath p (init ++ [last ++ s]) = walkPath p (init ++ [last]) ++ s := by
  have hv2 : ∀ n ∈ init ++ [last ++ s], ValidName n := by
    intro n hn
    rcases List.mem_append.mp hn with hn | hn
    · exact hv n (by simp [hn])
    · have : n = last ++ s := by simpa using hn
      rw [this]; exact hv'
  rw [walkPath_render p _ hp (by simp) hv2, walkPath_render p _ hp (by simp) hv]
  simp only [List.reverse_append, List.reverse_cons, List.reverse_nil, List.nil_append,
    List.cons_append]
  rw [render_head_append]

end Kanzi.CliPaths
