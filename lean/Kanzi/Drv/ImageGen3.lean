/-
Line-protocol driver of the `imagegen3` correspondence stream (core Lean only): whole-stream byte images for
the transforms of `Kanzi/Model/BlockGen3.lean` (UTF, EXE, ROLZ, ROLZX, BWT, BWTS besides the twelve of
`BlockGen2`; no TEXT) and the entropy codecs of `BlockGen2`.

  imgg3  bs=<B> ck=<0|32|64> tr=<T1+T2+…> en=<NONE|HUFFMAN|RANGE|ANS0|ANS1|FPAQ|CM> hint=<n> j=<jobs> skip=<0|1>
         fam=<k> seed=<s> sizes=<n1,n2,…> [hex=<data bytes>]
        → `n=<bytes> h=<hash32> b=<mode.flags.post.bits,…> [x=<hex>]` of
          `streamImageGen2 (mkHeader (ck/32) entropy (GetType tr) B hint) cfg jobs (chunks B data)` with
          `cfg = cfgOfHeader3 noText …`; data = the bytes of `hex` when given (Σ sizes of them), else
          `gdata3 fam seed B` of length Σ sizes (family 30 = UTF-8 text with many code points; the others are those
          of `imagegen2`); one `b` item per frame as in `imagegen2`.
  imggr3 (same fields)
        → the same line, then ` | r=<stop>:<bytes>:<hash32>` = `parseImageGen3 noText 1` of that image

Names: those of `imagegen2` + UTF EXE ROLZ ROLZX BWT BWTS.  The forward BWT / BWTS are the SPECIFICATIONS of the
slices (naive suffix sort; sorted rotations of the Lyndon factors): quadratic, so the generator keeps such blocks small.
-/
import Kanzi.Model.BlockGen3
import Kanzi.Drv.ImageGen2

namespace Kanzi.Drv

namespace ImageGen3Drv

open Kanzi.Bits Kanzi.Block Kanzi.BlockGen Kanzi.BlockGen2 Kanzi.BlockGen3 ImageGenDrv ImageGen2Drv

/-- UTF-8 encoding of a code point (below 0x110000, not a surrogate) -/
def utf8Enc (cp : Nat) : List Nat :=
  if cp < 0x80 then [cp]
  else if cp < 0x800 then [0xC0 + cp / 64, 0x80 + cp % 64]
  else if cp < 0x10000 then [0xE0 + cp / 4096, 0x80 + (cp / 64) % 64, 0x80 + cp % 64]
  else [0xF0 + cp / 262144, 0x80 + (cp / 4096) % 64, 0x80 + (cp / 64) % 64, 0x80 + cp % 64]

/-- character `k` of the UTF-8 family: ASCII letters and spaces, Cyrillic, CJK, emoji; the seed sets the alphabet
sizes (more than 32767 distinct symbols is out of reach at these block sizes) -/
def utf8Char (seed k : Nat) : Nat :=
  let m := mix k seed
  let c := m % 16
  let v := m / 16
  if c < 6 then 97 + v % 26
  else if c = 6 then 32
  else if c < 11 then 0x400 + v % (16 + seed % 200)
  else if c < 14 then 0x4E00 + v % (32 + seed % 3000)
  else 0x1F300 + v % (8 + seed % 500)

def gdata3 (fam seed per len : Nat) : List Nat :=
  if fam = 30 then ((List.range len).flatMap (fun k => utf8Enc (utf8Char seed k))).take len
  else gdata2 fam seed per len

def tokenCode3 (s : String) : Option Nat :=
  if s = "BWT" then some 1 else if s = "BWTS" then some 2 else if s = "EXE" then some 9
  else if s = "ROLZ" then some 11 else if s = "ROLZX" then some 12 else if s = "UTF" then some 17
  else tokenCode2 s

def trType3 (spec : String) : Option Nat :=
  match ((spec.splitOn "+").filter (· ≠ "")).mapM tokenCode3 with
  | none => none
  | some ts => if ts.length > 8 then none else some (Names.chainType ts)

def parseOp3 (ws : List String) : Option Op2 :=
  let B := kvNat ws "bs" 1024
  let ck := kvNat ws "ck" 0
  let hint := kvNat ws "hint" 0
  let total := (natList ((kvs ws "sizes").getD "")).sum
  match trType3 ((kvs ws "tr").getD "NONE"), entCode2 ((kvs ws "en").getD "NONE") with
  | some ft, some e =>
    let h := Header.mkHeader (ck / 32) e ft B hint
    match cfgOfHeader3 noText 1 h (kvNat ws "skip" 0 = 1) with
    | none => none
    | some c =>
      let data :=
        match (kvs ws "hex").bind HashDrv.hexBytes with
        | some d => d.take total
        | none => gdata3 (kvNat ws "fam" 0) (kvNat ws "seed" 0) B total
      if data.length ≠ total then none
      else some ⟨h, c, max 1 (kvNat ws "j" 1), Spec.chunks B data⟩
  | _, _ => none

end ImageGen3Drv

open ImageGen3Drv ImageGen2Drv ImageGenDrv in
def imagegen3 (line : String) : String :=
  match words line with
  | "imgg3" :: ws =>
    match parseOp3 ws with
    | none => "bad-op"
    | some o => (showImage2 o).1
  | "imggr3" :: ws =>
    match parseOp3 ws with
    | none => "bad-op"
    | some o =>
      let s := showImage2 o
      s.1 ++ " | " ++ report "r" (BlockGen3.parseImageGen3 BlockGen3.noText 1 s.2)
  | _ => "bad-op"

end Kanzi.Drv
