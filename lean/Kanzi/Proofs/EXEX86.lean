/-
Proofs for the `exe` slice, part 2: x86.  One iteration of `forwardX86` is undone by one iteration of
`inverseX86` (`x86_step_sim`); hence the loops (`x86_loop_sim`), and `Inverse (Forward b) = b` for the
x86 mode with the size bounds; neither loop faults.
-/
import Kanzi.Proofs.EXEBase

namespace Kanzi.EXE
open Kanzi.RLT (Out wr wr_ok wr_cases size_appendList)

theorem escLit_esc : escLit 155 = [155, 155] := by decide
theorem escLit_ne (b : Nat) (h : b ≠ 155) : escLit b = [b] := by
  unfold escLit; rw [if_neg h]

theorem x86Inv_plain (ce dl b : Nat) (tail : List Nat) (j d : Nat)
    (h0f : b ≠ 15) (hj : b &&& 254 ≠ 232) (hb : b ≠ 155) (hd : d + 1 ≤ dl) :
    x86InvStep ce dl (b :: tail) j d = .emit [b] 1 := by
  have hd' : ¬ (d ≥ dl) := by omega
  simp [x86InvStep, h0f, hj, hb, hd']

theorem x86Inv_esc (ce dl x : Nat) (tail : List Nat) (j d : Nat)
    (hce : j + 2 ≤ ce) (hd : d + 1 ≤ dl) :
    x86InvStep ce dl (155 :: x :: tail) j d = .emit [x] 2 := by
  have hd' : ¬ (d ≥ dl) := by omega
  have hc' : ¬ (j + 1 ≥ ce) := by omega
  simp [x86InvStep, hd', hc']
theorem x86Inv_0F_plain (ce dl b1 : Nat) (tail : List Nat) (j d : Nat)
    (hj : b1 &&& 240 ≠ 128) (hb : b1 ≠ 155) (hce : j + 2 ≤ ce) (hd : d + 2 ≤ dl) :
    x86InvStep ce dl (15 :: b1 :: tail) j d = .emit [15, b1] 2 := by
  have hd' : ¬ (d ≥ dl) := by omega
  have hd2 : ¬ (d + 1 ≥ dl) := by omega
  have hc' : ¬ (j + 1 ≥ ce) := by omega
  simp [x86InvStep, hd', hd2, hc', hj, hb]

theorem x86Inv_0F_esc (ce dl x : Nat) (tail : List Nat) (j d : Nat)
    (hce : j + 3 ≤ ce) (hd : d + 2 ≤ dl) :
    x86InvStep ce dl (15 :: 155 :: x :: tail) j d = .emit [15, x] 3 := by
  have hd' : ¬ (d ≥ dl) := by omega
  have hd2 : ¬ (d + 1 ≥ dl) := by omega
  have hc' : ¬ (j + 1 ≥ ce) := by omega
  have hc2 : ¬ (j + 2 ≥ ce) := by omega
  simp [x86InvStep, hd', hd2, hc', hc2]

theorem x86InvJump_ok (ce dl : Nat) (pre : List Nat) (op a0 a1 a2 a3 : Nat) (tail : List Nat) (j d : Nat)
    (hce : j + 5 ≤ ce) (hd : d + 5 ≤ dl) :
    x86InvJump ce dl pre (op :: a0 :: a1 :: a2 :: a3 :: tail) j d =
      .emit (pre ++ op :: le32Bytes (x86Off d (beVal [a0, a1, a2, a3] ^^^ MASK_ADDRESS))) (pre.length + 5) := by
  have hd' : ¬ (d + 5 > dl) := by omega
  have hc' : ¬ (j + 4 ≥ ce) := by omega
  simp only [x86InvJump, if_neg hd', if_neg hc']

theorem x86Inv_jump (ce dl op a0 a1 a2 a3 : Nat) (tail : List Nat) (j d : Nat)
    (h0f : op ≠ 15) (hj : op &&& 254 = 232) (hce : j + 5 ≤ ce) (hd : d + 5 ≤ dl) :
    x86InvStep ce dl (op :: a0 :: a1 :: a2 :: a3 :: tail) j d =
      .emit (op :: le32Bytes (x86Off d (beVal [a0, a1, a2, a3] ^^^ MASK_ADDRESS))) 5 := by
  have := x86InvJump_ok ce dl [] op a0 a1 a2 a3 tail j d hce hd
  simp [x86InvStep, h0f, hj, this]

theorem x86Inv_0F_jcc (ce dl op a0 a1 a2 a3 : Nat) (tail : List Nat) (j d : Nat)
    (hj : op &&& 240 = 128) (hce : j + 6 ≤ ce) (hd : d + 6 ≤ dl) :
    x86InvStep ce dl (15 :: op :: a0 :: a1 :: a2 :: a3 :: tail) j d =
      .emit (15 :: op :: le32Bytes (x86Off (d + 1) (beVal [a0, a1, a2, a3] ^^^ MASK_ADDRESS))) 6 := by
  have hd' : ¬ (d ≥ dl) := by omega
  have hc' : ¬ (j + 1 ≥ ce) := by omega
  have := x86InvJump_ok ce dl [15] op a0 a1 a2 a3 tail (j + 1) (d + 1) (by omega) (by omega)
  simp [x86InvStep, hd', hc', hj, this]

theorem x86Jump_short (rest : List Nat) (i : Nat) (h : rest.length < 5) : ∃ s, x86Jump rest i = .fault s := by
  match rest, h with
  | [], _ => exact ⟨_, rfl⟩
  | [_], _ => exact ⟨_, rfl⟩
  | [_, _], _ => exact ⟨_, rfl⟩
  | [_, _, _], _ => exact ⟨_, rfl⟩
  | [_, _, _, _], _ => exact ⟨_, rfl⟩

theorem x86Jump_cases (op o0 o1 o2 sgn : Nat) (r : List Nat) (i : Nat)
    (h0 : o0 < 256) (h1 : o1 < 256) (h2 : o2 < 256) (hop : op < 256) (hi : i < 2 ^ 31) :
    x86Jump (op :: o0 :: o1 :: o2 :: sgn :: r) i = .ok ([155, op], 1, 0) ∨
    ∃ a0 a1 a2 a3, x86Jump (op :: o0 :: o1 :: o2 :: sgn :: r) i = .ok ([op, a0, a1, a2, a3], 5, 1) ∧
      a0 < 256 ∧ a1 < 256 ∧ a2 < 256 ∧ a3 < 256 ∧
      le32Bytes (x86Off i (beVal [a0, a1, a2, a3] ^^^ MASK_ADDRESS)) = [o0, o1, o2, sgn] := by
  by_cases hbad : (sgn ≠ 0 ∧ sgn ≠ 0xFF) ∨ leVal [o0, o1, o2, sgn] = 0xFF000000
  · left; simp only [x86Jump, if_pos hbad]
  · right
    have hs : sgn = 0 ∨ sgn = 255 := by omega
    have hne : leVal [o0, o1, o2, sgn] ≠ 0xFF000000 := fun h => hbad (Or.inr h)
    obtain ⟨hlt, hrt⟩ := x86_addr_roundtrip i o0 o1 o2 sgn h0 h1 h2 hs hne hi
    have hx := xor_mask_lt _ hlt
    generalize hA : x86Addr i (leVal [o0, o1, o2, sgn]) sgn ^^^ MASK_ADDRESS = A at hx
    refine ⟨A / 16777216 % 256, A / 65536 % 256, A / 256 % 256, A % 256, ?_, ?_, ?_, ?_, ?_, ?_⟩
    · simp only [x86Jump, if_neg hbad, be32Bytes, hA]
    · omega
    · omega
    · omega
    · omega
    · have hb := beVal_be32Bytes _ hx
      simp only [be32Bytes] at hb
      rw [hb, ← hA, xor_mask_cancel]; exact hrt

theorem jumpStep_emit (pre : List Nat) (r : Out (List Nat × Nat × Nat)) (e : List Nat) (c dm : Nat)
    (h : jumpStep pre r = .emit e c dm) : r = .ok (e.drop pre.length, c - pre.length, dm) ∧
      e = pre ++ e.drop pre.length ∧ pre.length ≤ c := by
  cases r with
  | ok j =>
    simp only [jumpStep, Step.emit.injEq] at h
    obtain ⟨h1, h2, h3⟩ := h
    subst h1 h2 h3
    simp
  | err s => simp [jumpStep] at h
  | fault s => simp [jumpStep] at h

theorem x86_step_sim (ce : Nat) (rest : List Nat) (i : Nat) (e : List Nat) (c dm : Nat)
    (hb : ∀ x ∈ rest, x < 256) (hi : i + 1 < 2 ^ 31) (hlt : i < ce)
    (h : x86FwdStep ce rest i = .emit e c dm) :
    ∃ C, C.length = c ∧ rest = C ++ rest.drop c ∧ 1 ≤ c ∧ i + c ≤ ce ∧ 1 ≤ e.length ∧ e.length ≤ 6 ∧ dm ≤ 1 ∧
      (∀ y ∈ e, y < 256) ∧
      ∀ (ce' dl : Nat) (tail : List Nat) (j : Nat), j + e.length ≤ ce' → i + c ≤ dl →
        x86InvStep ce' dl (e ++ tail) j i = .emit C e.length := by
  rcases rest with _ | ⟨b, r1⟩
  · simp [x86FwdStep] at h
  have hb0 : b < 256 := hb b (by simp)
  by_cases hb15 : b = 15
  · subst hb15
    rcases r1 with _ | ⟨b1, r2⟩
    · simp [x86FwdStep] at h
      split at h <;> simp at h
    have hb1 : b1 < 256 := hb b1 (by simp)
    simp only [x86FwdStep, List.getElem?_cons_zero, List.getElem?_cons_succ, X86_TWO_BYTE_PREFIX_eq, if_true,
      X86_MASK_JCC_eq, X86_INSTRUCTION_JCC_eq] at h
    by_cases hc1 : i + 1 ≥ ce
    · rw [if_pos hc1] at h; exact Step.noConfusion h
    rw [if_neg hc1] at h
    by_cases hj : b1 &&& 240 = 128
    · by_cases hc5 : i + 5 ≥ ce
      · rw [if_pos ⟨hj, hc5⟩] at h; exact Step.noConfusion h
      rw [if_neg (fun hh => hc5 hh.2), if_neg (fun hn => hn hj), if_neg (by omega)] at h
      simp only [List.drop_succ_cons, List.drop_zero] at h
      obtain ⟨hjmp, _, _⟩ := jumpStep_emit _ _ _ _ _ h
      simp only [List.drop_succ_cons, List.drop_zero, List.length_singleton] at hjmp
      by_cases hlen : r2.length < 4
      · obtain ⟨s, hs⟩ := x86Jump_short (b1 :: r2) (i + 1) (by simp; omega)
        rw [hs] at hjmp; cases hjmp
      obtain ⟨o0, o1, o2, sgn, r, rfl⟩ : ∃ o0 o1 o2 sgn r, r2 = o0 :: o1 :: o2 :: sgn :: r := by
        match r2, hlen with
        | o0 :: o1 :: o2 :: sgn :: r, _ => exact ⟨_, _, _, _, _, rfl⟩
        | [], hl => simp at hl
        | [_], hl => simp at hl
        | [_, _], hl => simp at hl
        | [_, _, _], hl => simp at hl
      have h0 : o0 < 256 := hb o0 (by simp)
      have h1 : o1 < 256 := hb o1 (by simp)
      have h2 : o2 < 256 := hb o2 (by simp)
      have h3 : sgn < 256 := hb sgn (by simp)
      rcases x86Jump_cases b1 o0 o1 o2 sgn r (i + 1) h0 h1 h2 hb1 hi with hc | ⟨a0, a1, a2, a3, hc, ha0, ha1, ha2, ha3, hrt⟩
      · rw [hc] at h
        simp only [jumpStep, Step.emit.injEq, List.cons_append, List.nil_append, List.length_singleton] at h
        obtain ⟨rfl, rfl, rfl⟩ := h
        refine ⟨[15, b1], rfl, by simp, by omega, by omega, by simp, by simp, by omega, ?_, ?_⟩
        · intro y hy; simp at hy; rcases hy with rfl | rfl | rfl <;> omega
        · intro ce' dl tail j hce hd
          simp only [List.length_cons, List.length_nil] at hce
          exact x86Inv_0F_esc ce' dl b1 tail j i (by omega) (by omega)
      · rw [hc] at h
        simp only [jumpStep, Step.emit.injEq, List.cons_append, List.nil_append, List.length_singleton] at h
        obtain ⟨rfl, rfl, rfl⟩ := h
        refine ⟨[15, b1, o0, o1, o2, sgn], rfl, by simp, by omega, by omega, by simp, by simp, by omega, ?_, ?_⟩
        · intro y hy; simp at hy; rcases hy with rfl | rfl | rfl | rfl | rfl | rfl <;> omega
        · intro ce' dl tail j hce hd
          simp only [List.length_cons, List.length_nil] at hce
          have := x86Inv_0F_jcc ce' dl b1 a0 a1 a2 a3 tail j i hj (by omega) (by omega)
          rw [hrt] at this
          simpa using this
    · rw [if_neg (fun hh => hj hh.1), if_pos hj] at h
      simp only [Step.emit.injEq] at h
      obtain ⟨rfl, rfl, rfl⟩ := h
      by_cases hesc : b1 = 155
      · subst hesc
        rw [escLit_esc]
        refine ⟨[15, 155], rfl, by simp, by omega, by omega, by simp, by simp, by omega, ?_, ?_⟩
        · intro y hy; simp at hy; rcases hy with rfl | rfl | rfl <;> omega
        · intro ce' dl tail j hce hd
          simp only [List.length_cons, List.length_nil] at hce
          exact x86Inv_0F_esc ce' dl 155 tail j i (by omega) (by omega)
      · rw [escLit_ne b1 hesc]
        refine ⟨[15, b1], rfl, by simp, by omega, by omega, by simp, by simp, by omega, ?_, ?_⟩
        · intro y hy; simp at hy; rcases hy with rfl | rfl <;> omega
        · intro ce' dl tail j hce hd
          simp only [List.length_cons, List.length_nil] at hce
          exact x86Inv_0F_plain ce' dl b1 tail j i hj hesc (by omega) (by omega)
  · simp only [x86FwdStep, List.getElem?_cons_zero, X86_TWO_BYTE_PREFIX_eq, if_neg hb15,
      X86_MASK_JUMP_eq, X86_INSTRUCTION_JUMP_eq] at h
    by_cases hj : b &&& 254 = 232
    · rw [if_neg (fun hn => hn hj)] at h
      by_cases hc4 : i + 4 ≥ ce
      · rw [if_pos hc4] at h; exact Step.noConfusion h
      rw [if_neg hc4] at h
      obtain ⟨hjmp, _, _⟩ := jumpStep_emit _ _ _ _ _ h
      by_cases hlen : r1.length < 4
      · obtain ⟨s, hs⟩ := x86Jump_short (b :: r1) i (by simp; omega)
        rw [hs] at hjmp; cases hjmp
      obtain ⟨o0, o1, o2, sgn, r, rfl⟩ : ∃ o0 o1 o2 sgn r, r1 = o0 :: o1 :: o2 :: sgn :: r := by
        match r1, hlen with
        | o0 :: o1 :: o2 :: sgn :: r, _ => exact ⟨_, _, _, _, _, rfl⟩
        | [], hl => simp at hl
        | [_], hl => simp at hl
        | [_, _], hl => simp at hl
        | [_, _, _], hl => simp at hl
      have h0 : o0 < 256 := hb o0 (by simp)
      have h1 : o1 < 256 := hb o1 (by simp)
      have h2 : o2 < 256 := hb o2 (by simp)
      have h3 : sgn < 256 := hb sgn (by simp)
      rcases x86Jump_cases b o0 o1 o2 sgn r i h0 h1 h2 hb0 (by omega) with hc | ⟨a0, a1, a2, a3, hc, ha0, ha1, ha2, ha3, hrt⟩
      · rw [hc] at h
        simp only [jumpStep, Step.emit.injEq, List.nil_append, List.length_nil, Nat.zero_add] at h
        obtain ⟨rfl, rfl, rfl⟩ := h
        refine ⟨[b], rfl, by simp, by omega, by omega, by simp, by simp, by omega, ?_, ?_⟩
        · intro y hy; simp at hy; rcases hy with rfl | rfl <;> omega
        · intro ce' dl tail j hce hd
          simp only [List.length_cons, List.length_nil] at hce
          exact x86Inv_esc ce' dl b tail j i (by omega) (by omega)
      · rw [hc] at h
        simp only [jumpStep, Step.emit.injEq, List.nil_append, List.length_nil, Nat.zero_add] at h
        obtain ⟨rfl, rfl, rfl⟩ := h
        refine ⟨[b, o0, o1, o2, sgn], rfl, by simp, by omega, by omega, by simp, by simp, by omega, ?_, ?_⟩
        · intro y hy; simp at hy; rcases hy with rfl | rfl | rfl | rfl | rfl <;> omega
        · intro ce' dl tail j hce hd
          simp only [List.length_cons, List.length_nil] at hce
          have := x86Inv_jump ce' dl b a0 a1 a2 a3 tail j i hb15 hj (by omega) (by omega)
          rw [hrt] at this
          simpa using this
    · rw [if_pos hj] at h
      simp only [Step.emit.injEq] at h
      obtain ⟨rfl, rfl, rfl⟩ := h
      by_cases hesc : b = 155
      · subst hesc
        rw [escLit_esc]
        refine ⟨[155], rfl, by simp, by omega, by omega, by simp, by simp, by omega, ?_, ?_⟩
        · intro y hy; simp at hy; rcases hy with rfl | rfl <;> omega
        · intro ce' dl tail j hce hd
          simp only [List.length_cons, List.length_nil] at hce
          exact x86Inv_esc ce' dl 155 tail j i (by omega) (by omega)
      · rw [escLit_ne b hesc]
        refine ⟨[b], rfl, by simp, by omega, by omega, by simp, by simp, by omega, ?_, ?_⟩
        · intro y hy; simp at hy; omega
        · intro ce' dl tail j hce hd
          exact x86Inv_plain ce' dl b tail j i hb15 hj hesc (by omega)

theorem x86FwdStep_ne_emitStop (ce : Nat) (rest : List Nat) (i : Nat) (e : List Nat) (c : Nat) :
    x86FwdStep ce rest i ≠ .emitStop e c := by
  intro h
  rcases rest with _ | ⟨b, r1⟩
  · simp [x86FwdStep] at h
  by_cases hb15 : b = 15
  · subst hb15
    rcases r1 with _ | ⟨b1, r2⟩
    · simp [x86FwdStep] at h
      split at h <;> simp at h
    simp only [x86FwdStep, List.getElem?_cons_zero, List.getElem?_cons_succ, X86_TWO_BYTE_PREFIX_eq, if_true,
      X86_MASK_JCC_eq, X86_INSTRUCTION_JCC_eq] at h
    by_cases hc1 : i + 1 ≥ ce
    · rw [if_pos hc1] at h; cases h
    rw [if_neg hc1] at h
    by_cases hj : b1 &&& 240 = 128
    · by_cases hc5 : i + 5 ≥ ce
      · rw [if_pos ⟨hj, hc5⟩] at h; cases h
      rw [if_neg (fun hh => hc5 hh.2), if_neg (fun hn => hn hj), if_neg (by omega)] at h
      cases hx : x86Jump (List.drop 1 (15 :: b1 :: r2)) (i + 1) <;> rw [hx] at h <;> simp [jumpStep] at h
    · rw [if_neg (fun hh => hj hh.1), if_pos hj] at h; cases h
  · simp only [x86FwdStep, List.getElem?_cons_zero, X86_TWO_BYTE_PREFIX_eq, if_neg hb15,
      X86_MASK_JUMP_eq, X86_INSTRUCTION_JUMP_eq] at h
    by_cases hj : b &&& 254 = 232
    · rw [if_neg (fun hn => hn hj)] at h
      by_cases hc4 : i + 4 ≥ ce
      · rw [if_pos hc4] at h; cases h
      rw [if_neg hc4] at h
      cases hx : x86Jump (b :: r1) i <;> rw [hx] at h <;> simp [jumpStep] at h
    · rw [if_pos hj] at h; cases h

theorem x86InvLoop_done (ce dl f : Nat) (rest : List Nat) (i : Nat) (out : Array Nat) (h : ¬ i < ce) :
    x86InvLoop ce dl f rest i out = .ok (i, out) := by
  cases f <;> simp [x86InvLoop, h]

theorem wr_eq_ok (n : Nat) (out o : Array Nat) (bs : List Nat) (h : wr n out bs = .ok o) : o = out ++ bs := by
  rcases wr_cases n out bs with h1 | ⟨e, h1⟩
  · rw [h1] at h; cases h; rfl
  · rw [h1] at h; cases h

theorem appendList_assoc (o : Array Nat) (a b : List Nat) : o ++ a ++ b = o ++ (a ++ b) := by
  apply Array.toList_inj.1
  simp [Array.toList_appendList]

theorem x86_loop_sim (ce dstLen : Nat) (hce : ce < 2 ^ 31) :
    ∀ (f : Nat) (rest : List Nat) (i : Nat) (out : Array Nat) (m : Nat) (st : FwdSt),
      (∀ x ∈ rest, x < 256) → x86FwdLoop ce dstLen f rest i out m = .ok st →
      ∃ (E C : List Nat), st.out = out ++ E ∧ st.i = i + C.length ∧ rest = C ++ rest.drop C.length ∧ (∀ y ∈ E, y < 256) ∧
        ∀ (ce' dl f' : Nat) (tail : List Nat) (j : Nat) (o : Array Nat),
          o.size = i → j + E.length = ce' → E.length < f' → i + C.length ≤ dl →
          x86InvLoop ce' dl f' (E ++ tail) j o = .ok (ce', o ++ C) := by
  intro f
  induction f with
  | zero =>
    intro rest i out m st hb h
    simp only [x86FwdLoop] at h
    split at h
    · cases h
    · cases h
      refine ⟨[], [], by simp, by simp, by simp, by simp, ?_⟩
      intro ce' dl f' tail j o ho hj hf hd
      simp only [List.length_nil, Nat.add_zero] at hj
      subst hj
      simpa using x86InvLoop_done j dl f' tail j o (by omega)
  | succ f ih =>
    intro rest i out m st hb h
    simp only [x86FwdLoop] at h
    split at h
    next hcond =>
      split at h
      next hstep =>
        cases h
        refine ⟨[], [], by simp, by simp, by simp, by simp, ?_⟩
        intro ce' dl f' tail j o ho hj hf hd
        simp only [List.length_nil, Nat.add_zero] at hj
        subst hj
        simpa using x86InvLoop_done j dl f' tail j o (by omega)
      next e c dm hstep =>
        obtain ⟨C0, hC0, hrest, hc1, hcce, he1, he6, hdm, hey, hsim⟩ :=
          x86_step_sim ce rest i e c dm hb (by omega) hcond.1 hstep
        rcases wr_cases dstLen out e with hw | ⟨s, hw⟩
        · rw [hw] at h
          have hb' : ∀ x ∈ rest.drop c, x < 256 := fun x hx => hb x (List.mem_of_mem_drop hx)
          obtain ⟨E', C', hout, hi', hrest', hEy, hinv⟩ := ih (rest.drop c) (i + c) (out ++ e) (m + dm) st hb' h
          refine ⟨e ++ E', C0 ++ C', ?_, ?_, ?_, ?_, ?_⟩
          · rw [hout, appendList_assoc]
          · rw [hi', List.length_append, hC0]; omega
          · rw [List.length_append, hC0, ← List.drop_drop, List.append_assoc, ← hrest']; exact hrest
          · intro y hy; rcases List.mem_append.1 hy with hy | hy
            · exact hey y hy
            · exact hEy y hy
          · intro ce' dl f' tail j o ho hj hf hd
            rw [List.length_append] at hj hf hd
            obtain ⟨f'', rfl⟩ : ∃ f'', f' = f'' + 1 := ⟨f' - 1, by omega⟩
            have hjlt : j < ce' := by omega
            have hs := hsim ce' dl (E' ++ tail) j (by omega) (by rw [hC0] at hd; omega)
            simp only [x86InvLoop, if_pos hjlt, List.append_assoc, ho, hs]
            have hw2 : wr dl o C0 = .ok (o ++ C0) := wr_ok dl o C0 (by rw [ho, hC0]; rw [hC0] at hd; omega)
            rw [hw2]
            simp only [Out.bind]
            have hdrop : List.drop e.length (e ++ (E' ++ tail)) = E' ++ tail := by simp
            rw [hdrop]
            have := hinv ce' dl f'' tail (j + e.length) (o ++ C0) (by rw [size_appendList, ho, hC0])
              (by omega) (by omega) (by rw [hC0] at hd; omega)
            rw [this, appendList_assoc]
        · rw [hw] at h; cases h
      next e c hstep => exact absurd hstep (x86FwdStep_ne_emitStop ce rest i e c)
      next s hstep => cases h
    next hcond =>
      cases h
      refine ⟨[], [], by simp, by simp, by simp, by simp, ?_⟩
      intro ce' dl f' tail j o ho hj hf hd
      simp only [List.length_nil, Nat.add_zero] at hj
      subst hj
      simpa using x86InvLoop_done j dl f' tail j o (by omega)

theorem header_length (mode cs de : Nat) : (header mode cs de).length = 9 := by simp [header]

theorem invHeader_frame (mode cs : Nat) (P E tail : List Nat) (n : Nat) (hP : P.length = cs) (hcs : cs ≤ n)
    (hsz : 9 + cs + E.length < 2 ^ 32) :
    invHeader (header mode cs (9 + cs + E.length) ++ (P ++ E ++ tail)) n = some (cs, 9 + cs + E.length) := by
  have h1 : leVal (((header mode cs (9 + cs + E.length) ++ (P ++ E ++ tail)).drop 1).take 4) = cs := by
    have : cs % 2 ^ 32 = cs := Nat.mod_eq_of_lt (by omega)
    simp only [header, this]
    simp only [le32Bytes, List.cons_append, List.drop_succ_cons, List.drop_zero, List.take_succ_cons, List.take_zero]
    have := leVal_le32Bytes cs (by omega)
    simpa [le32Bytes] using this
  have h2 : leVal (((header mode cs (9 + cs + E.length) ++ (P ++ E ++ tail)).drop 5).take 4) = 9 + cs + E.length := by
    have : (9 + cs + E.length) % 2 ^ 32 = 9 + cs + E.length := Nat.mod_eq_of_lt hsz
    simp only [header, this]
    simp only [le32Bytes, List.cons_append, List.drop_succ_cons, List.drop_zero, List.take_succ_cons, List.take_zero]
    have := leVal_le32Bytes (9 + cs + E.length) hsz
    simpa [le32Bytes] using this
  have hlen : (header mode cs (9 + cs + E.length) ++ (P ++ E ++ tail)).length = 9 + cs + E.length + tail.length := by
    simp [header_length, hP]; omega
  simp only [invHeader, h1, h2, hlen]
  rw [if_neg]
  omega

theorem extract9 (a : Array Nat) : (a.extract 9 a.size).toList = a.toList.drop 9 := by
  rw [Array.toList_extract, List.extract_eq_take_drop]
  apply List.take_of_length_le
  simp

theorem fwdFinish_ok (mode slack : Nat) (src : List Nat) (dstLen cs i : Nat) (out : Array Nat) (t : List Nat)
    (h : fwdFinish mode slack src dstLen cs i out = .ok t) :
    out.size + (src.length - i) + slack ≤ dstLen ∧
    t = header mode cs out.size ++ (out.toList.drop 9 ++ src.drop i) ∧
    t.length ≤ src.length + src.length / 50 := by
  simp only [fwdFinish, extract9] at h
  split at h
  · cases h
  · split at h
    · cases h
    · cases h
      refine ⟨by omega, rfl, by omega⟩

/-- the shape of an accepted x86 block -/
theorem fwdX86_ok (src : List Nat) (dstLen : Nat) (cs ce : Int) (t : List Nat)
    (h : fwdX86 src dstLen cs ce = .ok t) :
    ∃ (csn cen : Nat) (st : FwdSt), cs = csn ∧ ce = cen ∧ csn ≤ cen ∧ cen ≤ src.length ∧ 9 + csn ≤ dstLen ∧
      x86FwdLoop cen dstLen (src.length + 1) (src.drop csn) csn
        (X86 :: List.replicate 8 0 ++ src.take csn).toArray 0 = .ok st ∧
      st.out.size + (src.length - st.i) + 5 ≤ dstLen ∧
      t = header X86 csn st.out.size ++ (st.out.toList.drop 9 ++ src.drop st.i) ∧
      t.length ≤ src.length + src.length / 50 := by
  simp only [fwdX86] at h
  split at h
  · cases h
  next hchk =>
    split at h
    · cases h
    · split at h
      · cases h
      next hd9 hdcs =>
        cases hl : x86FwdLoop ce.toNat dstLen (src.length + 1) (List.drop cs.toNat src) cs.toNat
            (X86 :: List.replicate 8 0 ++ List.take cs.toNat src).toArray 0 with
        | ok st =>
          rw [hl] at h
          simp only [Kanzi.RLT.Out.bind_ok] at h
          split at h
          · cases h
          · split at h
            · cases h
            · obtain ⟨h1, h2, h3⟩ := fwdFinish_ok _ _ _ _ _ _ _ _ h
              refine ⟨cs.toNat, ce.toNat, st, by omega, by omega, by omega, by omega, by omega, hl, h1, h2, h3⟩
        | err e => rw [hl] at h; cases h
        | fault e => rw [hl] at h; cases h

theorem header_lt (mode cs de : Nat) (hm : mode < 256) : ∀ y ∈ header mode cs de, y < 256 := by
  intro y hy
  simp only [header, List.mem_cons, List.mem_append] at hy
  rcases hy with rfl | hy | hy
  · exact hm
  · exact le32Bytes_lt _ y hy
  · exact le32Bytes_lt _ y hy

theorem fwdX86_roundtrip (src : List Nat) (dstLen : Nat) (cs ce : Int) (t : List Nat)
    (hb : ∀ x ∈ src, x < 256) (hlen : src.length ≤ MAX_BLOCK_SIZE)
    (h : fwdX86 src dstLen cs ce = .ok t) :
    t.length ≤ src.length + src.length / 50 ∧ t.length + 5 ≤ dstLen ∧ (∀ y ∈ t, y < 256) ∧
      ∀ n, src.length ≤ n → exeInverse false t n = .ok src := by
  obtain ⟨csn, cen, st, rfl, rfl, hcs, hce, hd, hl, hroom, ht, htl⟩ := fwdX86_ok src dstLen _ _ t h
  simp only [MAX_BLOCK_SIZE_eq] at hlen
  have hb' : ∀ x ∈ src.drop csn, x < 256 := fun x hx => hb x (List.mem_of_mem_drop hx)
  obtain ⟨E, C, hout, hi, hrest, hEy, hinv⟩ :=
    x86_loop_sim cen dstLen (by omega) (src.length + 1) (src.drop csn) csn _ 0 st hb' hl
  have htake : (src.take csn).length = csn := by simp; omega
  have hout9 : st.out.toList.drop 9 = src.take csn ++ E := by
    rw [hout]; simp
  have hsize : st.out.size = 9 + csn + E.length := by
    rw [hout, size_appendList]; simp [htake]; omega
  have hClen : csn + C.length ≤ src.length := by
    have := congrArg List.length hrest
    simp at this; omega
  have hsrc : src = src.take csn ++ (C ++ src.drop st.i) := by
    have h1 : src.drop csn = C ++ src.drop st.i := by
      rw [hi, ← List.drop_drop]; exact hrest
    rw [← h1, List.take_append_drop]
  rw [hout9, hsize] at ht
  have htlen : t.length = 9 + csn + E.length + (src.length - st.i) := by
    rw [ht]; simp [header_length, htake]; omega
  refine ⟨htl, by omega, ?_, ?_⟩
  · intro y hy
    rw [ht] at hy
    rcases List.mem_append.1 hy with hy | hy
    · exact header_lt _ _ _ (by decide) y hy
    · rcases List.mem_append.1 hy with hy | hy
      · rcases List.mem_append.1 hy with hy | hy
        · exact hb y (List.mem_of_mem_take hy)
        · exact hEy y hy
      · exact hb y (List.mem_of_mem_drop hy)
  · intro n hn
    have hne : t.length ≠ 0 := by omega
    have hn0 : n ≠ 0 := by omega
    have hhead : t.head? = some X86 := by rw [ht]; simp [header]
    have hfr := invHeader_frame X86 csn (src.take csn) E (src.drop st.i) n htake (by omega) (by omega)
    rw [← ht] at hfr
    simp only [exeInverse, hne, hn0, false_or, if_false, Bool.false_eq_true, hhead]
    rw [if_neg (by omega), if_pos trivial]
    simp only [invX86, hfr]
    have hd9 : (t.drop 9).take csn = src.take csn := by
      rw [ht]; simp [header, le32Bytes, htake]
    have hd9' : t.drop (9 + csn) = E ++ src.drop st.i := by
      rw [ht, ← List.drop_drop]; simp [header, le32Bytes, htake]
    rw [hd9, hd9', wr_ok n #[] _ (by simp; omega)]
    simp only [Kanzi.RLT.Out.bind_ok]
    rw [hinv (9 + csn + E.length) n (t.length + 1) (src.drop st.i) (9 + csn) (#[] ++ src.take csn)
      (by simp [htake]) (by omega) (by omega) (by omega)]
    simp only [Kanzi.RLT.Out.bind_ok, invFinish]
    rw [if_neg]
    · congr 1
      have hdt : t.drop (9 + csn + E.length) = src.drop st.i := by
        rw [← List.drop_drop, hd9']; simp
      rw [hdt]
      have : ((#[] : Array Nat) ++ List.take csn src ++ C).toList = src.take csn ++ C := by simp
      rw [this, List.append_assoc]; exact hsrc.symm
    · simp [htake]; omega

end Kanzi.EXE
