/-
Proofs for the generic block codec (`Kanzi/Model/BlockGen.lean`): decode ∘ encode under the
per-component laws.  Property statements: `Kanzi/Properties/C01_blockgen.lean`.
-/
import Kanzi.Model.BlockGen
import Kanzi.Proofs.Block
import Kanzi.Proofs.TrSmall
import Kanzi.Proofs.EntSmall

namespace Kanzi.BlockGen
open Kanzi.Bits Kanzi.TrSmall Kanzi.Block

/-! ### the sequence over `Tr`: destination sizes only matter through the stage functions -/

theorem seqMaxEncodedLen_stagesOf (trs : List Tr) (a b len : Nat) :
    seqMaxEncodedLen (stagesOf trs a b) len = seqMaxLen trs len := by
  unfold seqMaxLen stagesOf
  induction trs generalizing len with
  | nil => rfl
  | cons t ts ih =>
    simp only [List.map_cons, seqMaxEncodedLen, Tr.stage]
    exact ih _

theorem stagesOf_length (trs : List Tr) (a b : Nat) : (stagesOf trs a b).length = trs.length := by
  simp [stagesOf]

theorem seqFwdGo_stagesOf (trs : List Tr) (req n n' : Nat) :
    ∀ (i : Nat) (cur : List Nat) (f : Nat),
      seqFwdGo (stagesOf trs req n) i cur f = seqFwdGo (stagesOf trs req n') i cur f := by
  unfold stagesOf
  induction trs with
  | nil => intro i cur f; rfl
  | cons t ts ih =>
    intro i cur f
    simp only [List.map_cons, seqFwdGo, Tr.stage]
    cases t.fwd cur req with
    | error e => exact ih _ _ _
    | ok y => exact ih _ _ _

theorem seqForward_stagesOf (trs : List Tr) (req n n' : Nat) (x : List Nat) :
    seqForward (stagesOf trs req n) x = seqForward (stagesOf trs req n') x := by
  unfold seqForward
  rw [seqFwdGo_stagesOf trs req n n']

theorem seqInvGo_stagesOf (trs : List Tr) (req req' n : Nat) :
    ∀ (i f : Nat) (y : List Nat),
      seqInvGo (stagesOf trs req n) i f y = seqInvGo (stagesOf trs req' n) i f y := by
  unfold stagesOf
  induction trs with
  | nil => intro i f y; rfl
  | cons t ts ih =>
    intro i f y
    simp only [List.map_cons, seqInvGo]
    rw [ih]
    rfl

theorem seqInverse_stagesOf (trs : List Tr) (req req' n f : Nat) (y : List Nat) :
    seqInverse (stagesOf trs req n) f y = seqInverse (stagesOf trs req' n) f y := by
  unfold seqInverse
  rw [seqInvGo_stagesOf trs req req' n]

/-- the forward loop stays inside a class of blocks preserved by the stages -/
theorem seqFwdGo_inD (D : List Nat → Prop) :
    ∀ (stages : List Stage) (i : Nat) (cur : List Nat) (f : Nat),
      (∀ st ∈ stages, st.GoodOn D) → D cur → D (seqFwdGo stages i cur f).1 := by
  intro stages
  induction stages with
  | nil => intro i cur f _ h; exact h
  | cons st rest ih =>
    intro i cur f hg hD
    have hrest : ∀ s ∈ rest, s.GoodOn D := fun s hs => hg s (List.mem_cons_of_mem _ hs)
    rw [seqFwdGo]
    cases hfw : st.fwd cur with
    | error _ => exact ih (i + 1) cur f hrest hD
    | ok y =>
      obtain ⟨hDy, _, _⟩ := hg st (List.mem_cons_self ..) cur y hD hfw
      exact ih (i + 1) y _ hrest hDy

theorem seqForward_inD (D : List Nat → Prop) (stages : List Stage) (x : List Nat)
    (hg : ∀ st ∈ stages, st.GoodOn D) (hD : D x) (hx : x ≠ []) :
    D (seqForward stages x).1 ∧ (seqForward stages x).1 ≠ [] := by
  unfold seqForward
  have : ¬ x.length = 0 := fun h => hx (List.eq_nil_of_length_eq_zero h)
  rw [if_neg this]
  exact ⟨seqFwdGo_inD D stages 0 x 0xFF hg hD, seqFwdGo_nonempty D stages 0 x 0xFF hg hD hx⟩

/-! ### the mode byte -/

set_option maxRecDepth 100000 in
theorem ds_shift : ∀ d, d < 4 → (d &&& 3) <<< 5 = 32 * d := by decide

set_option maxRecDepth 100000 in
theorem mode_nibble : ∀ d, d < 4 → ∀ f, f < 256 →
    (32 * d ||| (f >>> 4)) % 256 < 256 ∧ ((32 * d ||| (f >>> 4)) % 256) &&& 0x80 = 0 ∧
    ((32 * d ||| (f >>> 4)) % 256) &&& 0x10 = 0 ∧ (((32 * d ||| (f >>> 4)) % 256) >>> 5) &&& 3 = d ∧
    (f % 16 = 15 → ((((32 * d ||| (f >>> 4)) % 256) <<< 4) ||| 0x0F) % 256 = f) := by decide

set_option maxRecDepth 100000 in
theorem mode_extra : ∀ d, d < 4 →
    (32 * d ||| 0x10) % 256 < 256 ∧ ((32 * d ||| 0x10) % 256) &&& 0x80 = 0 ∧
    ((32 * d ||| 0x10) % 256) &&& 0x10 ≠ 0 ∧ (((32 * d ||| 0x10) % 256) >>> 5) &&& 3 = d := by decide

set_option maxRecDepth 100000 in
theorem mode_copy : ∀ d, d < 4 → ∀ f, f < 256 →
    ((0x80 ||| 32 * d) ||| (f >>> 4)) % 256 < 256 ∧ (((0x80 ||| 32 * d) ||| (f >>> 4)) % 256) &&& 0x80 ≠ 0 ∧
    ((((0x80 ||| 32 * d) ||| (f >>> 4)) % 256) >>> 5) &&& 3 = d ∧ (0x80 ||| 32 * d) &&& 0x80 ≠ 0 := by decide

set_option maxRecDepth 100000 in
theorem mode0_noncopy : ∀ d, d < 4 → (0 ||| 32 * d) &&& 0x80 = 0 ∧ (0 ||| 32 * d) = 32 * d := by decide

/-- what the decoder needs to know about the mode byte and the optional extra byte written by the
encoder: `d` = dataSize - 1, `f` = skip flags of `n` transforms -/
structure ModeOK (copy : Bool) (d f : Nat) (em : Nat × Option Nat) : Prop where
  lt : em.1 < 256
  copyBit : (em.1 &&& 0x80 ≠ 0) ↔ copy = true
  size : (em.1 >>> 5) &&& 3 = d
  /-- non-copy blocks: the flags are read back, from the nibble or from the extra byte -/
  flags : copy = false →
    (em.2 = none ∧ em.1 &&& 0x10 = 0 ∧ ((em.1 <<< 4) ||| 0x0F) % 256 = f) ∨ (em.2 = some f ∧ em.1 &&& 0x10 ≠ 0)
  /-- copy blocks have no extra byte -/
  noExtra : copy = true → em.2 = none

theorem modeOK_encodeMode (copy : Bool) (ds f n : Nat) (h1 : 1 ≤ ds) (h4 : ds ≤ 4) (hf : f < 256)
    (hlow : n ≤ 4 → f % 16 = 15) :
    ModeOK copy (ds - 1) f
      (encodeMode ((if copy then 0x80 else 0) ||| (((ds - 1) &&& 3) <<< 5)) f n) := by
  have hd : ds - 1 < 4 := by omega
  rw [ds_shift (ds - 1) hd]
  generalize ds - 1 = d at hd
  cases copy with
  | true =>
    obtain ⟨a1, a2, a3, a4⟩ := mode_copy d hd f hf
    unfold encodeMode
    simp only [if_true]
    rw [if_pos (Or.inl a4)]
    exact ⟨a1, by simp [a2], a3, by simp, by simp⟩
  | false =>
    obtain ⟨b1, b2⟩ := mode0_noncopy d hd
    unfold encodeMode
    simp only [Bool.false_eq_true, if_false]
    rw [b2]
    have hnc : ¬ (32 * d &&& 0x80 ≠ 0) := by rw [b2] at b1; simp [b1]
    by_cases hn : n ≤ 4
    · rw [if_pos (Or.inr hn)]
      obtain ⟨a1, a2, a3, a4, a5⟩ := mode_nibble d hd f hf
      exact ⟨a1, by simp [a2], a4, fun _ => Or.inl ⟨rfl, a3, a5 (hlow hn)⟩, by simp⟩
    · rw [if_neg (by intro h; cases h with | inl h => exact hnc h | inr h => exact hn h)]
      obtain ⟨a1, a2, a3, a4⟩ := mode_extra d hd
      exact ⟨a1, by simp [a2], a4, fun _ => Or.inr ⟨rfl, a3⟩, by simp⟩

/-! ### small facts -/

theorem dataSizeGen_eq (post : Nat) (h : post < 2 ^ 32) : dataSizeGen post = dataSizeOf post := by
  unfold dataSizeGen dataSizeOf
  rw [Nat.mod_eq_of_lt h]

theorem padZero_of_length (n : Nat) (l : List Nat) (h : l.length = n) : padZero n l = l := by
  unfold padZero; rw [h]; simp

theorem padToByte_eq (bs : Bits) : padToByte bs = bs ++ List.replicate (padLen bs.length) false := rfl

theorem taskBlockLength_ge (B : Nat) : B ≤ taskBlockLength B := by
  unfold taskBlockLength; omega

theorem decDstLen_ge (B : Nat) (p : Bits) : taskBlockLength B ≤ decDstLen B p := by
  unfold decDstLen; omega

theorem extraBits_length (ex : Option Nat) : (extraBits ex).length = 0 ∨ (extraBits ex).length = 8 := by
  cases ex with
  | none => left; rfl
  | some x => right; simp [extraBits]

/-! ### the decoder on a well-formed prologue -/

/-- `decodeTaskGen` on `mode | [flags] | length | checksum | body`, whatever follows: the prologue is
parsed back and the body (with the byte padding) is handed to `decodeBody` -/
theorem decodeTaskGen_prologue (c : Cfg) (B : Nat) (copy : Bool) (ds f post sum : Nat)
    (em : Nat × Option Nat) (body p : Bits)
    (hm : ModeOK copy (ds - 1) f em) (h1 : 1 ≤ ds) (hf : f < 256)
    (hpost : post < 2 ^ (8 * ds)) (hp0 : post ≠ 0) (hpm : post ≤ maxTransformLength B)
    (hsum : sum < 2 ^ ckWidth c.ck)
    (hp : p = natBits em.1 8 ++ extraBits em.2 ++ natBits post (8 * ds) ++ natBits sum (ckWidth c.ck) ++ body) :
    decodeTaskGen c B p =
      if copy = true then
        decodeBody [nullTr] noneEnt c.ck 0 post sum (decDstLen B p)
          (body ++ List.replicate (padLen p.length) false)
      else
        decodeBody c.trs c.ent c.ck f post sum (decDstLen B p)
          (body ++ List.replicate (padLen p.length) false) := by
  have hds : 1 + ((em.1 >>> 5) &&& 3) = ds := by rw [hm.size]; omega
  unfold decodeTaskGen
  rw [padToByte_eq]
  generalize List.replicate (padLen p.length) false = pad
  generalize decDstLen B p = dl
  subst hp
  simp only [List.append_assoc]
  rw [readBits_natBits_append]
  simp only [Nat.mod_eq_of_lt hm.lt, hds]
  cases copy with
  | true =>
    have hc : em.1 &&& 0x80 ≠ 0 := hm.copyBit.2 rfl
    have hex : em.2 = none := hm.noExtra rfl
    rw [hex]
    simp only [extraBits, List.nil_append, if_pos hc]
    rw [readBits_natBits_append]
    simp only [Nat.mod_eq_of_lt hpost]
    rw [if_neg (by omega), readBits_natBits_append]
    simp only [Nat.mod_eq_of_lt hsum, if_true]
  | false =>
    have hc : ¬ (em.1 &&& 0x80 ≠ 0) := fun h => by have := hm.copyBit.1 h; cases this
    simp only [if_neg hc, Bool.false_eq_true, if_false]
    rcases hm.flags rfl with ⟨hex, h10, hnib⟩ | ⟨hex, h10⟩
    · rw [hex]
      simp only [extraBits, List.nil_append]
      rw [if_neg (by rw [h10]; simp)]
      simp only [hnib]
      rw [readBits_natBits_append]
      simp only [Nat.mod_eq_of_lt hpost]
      rw [if_neg (by omega), readBits_natBits_append]
      simp only [Nat.mod_eq_of_lt hsum]
    · rw [hex]
      simp only [extraBits]
      rw [if_pos h10, readBits_natBits_append]
      simp only [Nat.mod_eq_of_lt (show f < 2 ^ 8 by omega)]
      rw [readBits_natBits_append]
      simp only [Nat.mod_eq_of_lt hpost]
      rw [if_neg (by omega), readBits_natBits_append]
      simp only [Nat.mod_eq_of_lt hsum]

/-! ### the laws of the components -/

/-- the exact-consumption law of an entropy codec on a class of blocks -/
def EntLaw (D : List Nat → Prop) (ent : Ent) : Prop :=
  ∀ x, D x → ∃ e, ent.enc x = some e ∧ ∀ rest : Bits, ent.dec x.length (e ++ rest) = some (x, rest)

/-- the law of a transform sequence on a class `D` of blocks (the per-stage hypothesis of
`C13_sequence`, for every destination size the two sequences may use): forward destinations of at
least `MaxEncodedLen` of the sequence, inverse destinations of at least `dmin` bytes -/
def SeqLaw (D : List Nat → Prop) (trs : List Tr) (len dmin : Nat) : Prop :=
  trs.length ≤ 8 ∧
  ∀ t ∈ trs, ∀ req n, seqMaxLen trs len ≤ req → dmin ≤ n → (t.stage req n).GoodOn D

/-- the body of the decoder on the output of the matching encoder body: `e` is what the entropy coder
wrote for the transformed block -/
theorem decodeBody_roundtrip (D : List Nat → Prop) (trs : List Tr) (ent : Ent) (ck dstLen dmin : Nat)
    (b : List Nat) (e pad : Bits)
    (hseq : SeqLaw D trs b.length dmin) (hD : D b)
    (hdmin : dmin ≤ dstLen) (hfit : b.length ≤ dstLen)
    (hdec : ∀ rest : Bits, ent.dec (seqForward (fwdStages trs b.length) b).1.length (e ++ rest) =
      some ((seqForward (fwdStages trs b.length) b).1, rest)) :
    decodeBody trs ent ck (seqForward (fwdStages trs b.length) b).2
      (seqForward (fwdStages trs b.length) b).1.length (checksum ck b) dstLen (e ++ pad) =
        ⟨b.length, .ok b⟩ := by
  -- one list of stages serving both directions
  have hS : ∀ st ∈ stagesOf trs (seqMaxLen trs b.length) (max dstLen (seqMaxLen trs dstLen)), st.GoodOn D := by
    intro st hst
    obtain ⟨t, ht, rfl⟩ := List.mem_map.mp hst
    exact hseq.2 t ht _ _ (Nat.le_refl _) (by omega)
  have hfS : seqForward (fwdStages trs b.length) b =
      seqForward (stagesOf trs (seqMaxLen trs b.length) (max dstLen (seqMaxLen trs dstLen))) b :=
    seqForward_stagesOf trs _ 0 _ b
  have hrt := seq_roundtrip D _ b (by rw [stagesOf_length]; exact hseq.1) hS hD
  rw [← hfS] at hrt
  unfold decodeBody
  rw [hdec pad]
  simp only [padZero_of_length _ _ rfl]
  have hinv : seqInverse (invStages trs dstLen) (seqForward (fwdStages trs b.length) b).2
      (seqForward (fwdStages trs b.length) b).1 = .ok b := by
    unfold invStages
    rw [seqInverse_stagesOf trs 0 (seqMaxLen trs b.length)]
    exact hrt
  rw [hinv]
  simp only
  rw [if_neg (by omega), if_neg (by simp)]

/-! ### the encoder on a block whose transformed length fits the length field -/

theorem encodeOf_eq (copy : Bool) (n : Nat) (ent : Ent) (ckw sum : Nat) (f : List Nat × Nat) (e : Bits)
    (hp32 : f.1.length < 2 ^ 32) (he : ent.enc f.1 = some e) :
    encodeOf copy n ent ckw sum f = .ok
      (natBits (encodeMode ((if copy then 0x80 else 0) ||| (((dataSizeOf f.1.length - 1) &&& 3) <<< 5)) f.2 n).1 8 ++
        extraBits (encodeMode ((if copy then 0x80 else 0) ||| (((dataSizeOf f.1.length - 1) &&& 3) <<< 5)) f.2 n).2 ++
        natBits f.1.length (8 * dataSizeOf f.1.length) ++ natBits sum ckw ++ e) := by
  unfold encodeOf
  simp only [dataSizeGen_eq _ hp32]
  have h4 := dataSizeOf_le _ hp32
  rw [if_neg (by omega), if_neg (by omega), he]

theorem encodeWith_eq (copy : Bool) (trs : List Tr) (ent : Ent) (ckw sum : Nat) (lim : Option Nat)
    (b : List Nat) (e : Bits)
    (hp32 : (fallback lim (seqMaxLen trs b.length) b (seqForward (fwdStages trs b.length) b)).1.length < 2 ^ 32)
    (he : ent.enc (fallback lim (seqMaxLen trs b.length) b (seqForward (fwdStages trs b.length) b)).1 = some e) :
    encodeWith copy trs ent ckw sum lim b = .ok
      (natBits (encodeMode ((if copy then 0x80 else 0) |||
            (((dataSizeOf (fallback lim (seqMaxLen trs b.length) b (seqForward (fwdStages trs b.length) b)).1.length - 1) &&& 3) <<< 5))
          (fallback lim (seqMaxLen trs b.length) b (seqForward (fwdStages trs b.length) b)).2 trs.length).1 8 ++
        extraBits (encodeMode ((if copy then 0x80 else 0) |||
            (((dataSizeOf (fallback lim (seqMaxLen trs b.length) b (seqForward (fwdStages trs b.length) b)).1.length - 1) &&& 3) <<< 5))
          (fallback lim (seqMaxLen trs b.length) b (seqForward (fwdStages trs b.length) b)).2 trs.length).2 ++
        natBits (fallback lim (seqMaxLen trs b.length) b (seqForward (fwdStages trs b.length) b)).1.length
          (8 * dataSizeOf (fallback lim (seqMaxLen trs b.length) b (seqForward (fwdStages trs b.length) b)).1.length) ++
        natBits sum ckw ++ e) :=
  encodeOf_eq copy trs.length ent ckw sum _ e hp32 he

/-- the two outcomes of the bound on the post-transform length -/
theorem fallback_cases (lim : Option Nat) (req : Nat) (b : List Nat) (f : List Nat × Nat) :
    fallback lim req b f = f ∨ fallback lim req b f = (b, 0xFF) := by
  unfold fallback
  split
  · exact Or.inr rfl
  · exact Or.inl rfl

/-! ### decode ∘ encode for a given block handed to the entropy coder -/

/-- `f` = (block handed to the entropy coder, skip flags): if the flags are well formed for `c.trs.length`
transforms, the block is not empty and within the decoder's bound, the entropy codec round-trips on it and the
inverse sequence with these flags restores `b` from it, then the decoding task returns `b` -/
theorem decode_encodeOf (c : Cfg) (B : Nat) (b : List Nat) (f : List Nat × Nat) (e : Bits)
    (hflt : f.2 < 256) (hlow : c.trs.length ≤ 4 → f.2 % 16 = 15)
    (hne : f.1 ≠ []) (hpm : f.1.length ≤ maxTransformLength B)
    (he : c.ent.enc f.1 = some e)
    (hdec : ∀ rest : Bits, c.ent.dec f.1.length (e ++ rest) = some (f.1, rest))
    (hinv : ∀ dl, taskBlockLength B ≤ dl → seqInverse (invStages c.trs dl) f.2 f.1 = .ok b)
    (hB : b.length ≤ B) :
    ∃ p, encodeOf false c.trs.length c.ent (ckWidth c.ck) (checksum c.ck b) f = .ok p ∧
      decodeTaskGen c B p = ⟨b.length, .ok b⟩ := by
  have hmt : maxTransformLength B ≤ 2 ^ 30 := by unfold maxTransformLength; omega
  have hpost0 : f.1.length ≠ 0 := fun h => hne (List.eq_nil_of_length_eq_zero h)
  have hpost32 : f.1.length < 2 ^ 32 := by omega
  refine ⟨_, encodeOf_eq false c.trs.length c.ent _ _ f e hpost32 he, ?_⟩
  have hds1 := dataSizeOf_pos f.1.length
  have hds4 := dataSizeOf_le _ hpost32
  have hpow := lt_pow_dataSizeOf f.1.length
  have hm := modeOK_encodeMode false (dataSizeOf f.1.length) f.2 c.trs.length hds1 hds4 hflt hlow
  rw [decodeTaskGen_prologue c B false _ _ _ _ _ e _ hm hds1 hflt hpow hpost0 hpm (checksum_lt c.ck b) rfl]
  simp only [Bool.false_eq_true, if_false]
  generalize hdle : decDstLen B _ = dl
  have hdl : taskBlockLength B ≤ dl := by rw [← hdle]; exact decDstLen_ge B _
  generalize List.replicate _ false = pad
  unfold decodeBody
  rw [hdec pad]
  simp only [padZero_of_length _ _ rfl]
  rw [hinv dl hdl]
  simp only
  have := taskBlockLength_ge B
  rw [if_neg (by omega), if_neg (by simp)]

theorem seqInverse_ff (stages : List Stage) (b : List Nat) : seqInverse stages 0xFF b = .ok b := by
  unfold seqInverse
  by_cases h : b.length = 0
  · rw [if_pos h, List.eq_nil_of_length_eq_zero h]
  · rw [if_neg h, if_pos rfl]

/-! ### decode ∘ encode, non-copy blocks -/

theorem decode_encode_noncopy (c : Cfg) (B : Nat) (D : List Nat → Prop) (b : List Nat)
    (hseq : SeqLaw D c.trs b.length (taskBlockLength B)) (hent : EntLaw D c.ent)
    (hfits : ∀ x, D x → x.length ≤ maxTransformLength B)
    (hD : D b) (hb0 : 0 < b.length) (hB : b.length ≤ B) :
    ∃ p, encodeWith false c.trs c.ent (ckWidth c.ck) (checksum c.ck b) c.bs b = .ok p ∧
      decodeTaskGen c B p = ⟨b.length, .ok b⟩ := by
  have hne : b ≠ [] := fun h => by rw [h] at hb0; exact Nat.lt_irrefl 0 hb0
  unfold encodeWith
  rcases fallback_cases c.bs (seqMaxLen c.trs b.length) b (seqForward (fwdStages c.trs b.length) b) with hfb | hfb <;> rw [hfb]
  · -- the forward pass, through a list of stages whose inverse destinations are large enough
    have hS : ∀ st ∈ stagesOf c.trs (seqMaxLen c.trs b.length) (taskBlockLength B), st.GoodOn D := by
      intro st hst
      obtain ⟨t, ht, rfl⟩ := List.mem_map.mp hst
      exact hseq.2 t ht _ _ (Nat.le_refl _) (Nat.le_refl _)
    have hfS : seqForward (fwdStages c.trs b.length) b =
        seqForward (stagesOf c.trs (seqMaxLen c.trs b.length) (taskBlockLength B)) b :=
      seqForward_stagesOf c.trs _ 0 _ b
    obtain ⟨hDt, htne⟩ := seqForward_inD D _ b hS hD hne
    obtain ⟨hflt, hflow⟩ := seq_flags_shape (stagesOf c.trs (seqMaxLen c.trs b.length) (taskBlockLength B)) b
      (by rw [stagesOf_length]; exact hseq.1)
    rw [stagesOf_length] at hflow
    rw [← hfS] at hDt htne hflt hflow
    obtain ⟨e, he, hdec⟩ := hent _ hDt
    refine decode_encodeOf c B b _ e hflt (fun h4 => flags_low_nibble _ hflt _ h4 hflow) htne (hfits _ hDt)
      he hdec ?_ hB
    intro dl hdl
    -- one list of stages serving both directions
    have hS2 : ∀ st ∈ stagesOf c.trs (seqMaxLen c.trs b.length) (max dl (seqMaxLen c.trs dl)), st.GoodOn D := by
      intro st hst
      obtain ⟨t, ht, rfl⟩ := List.mem_map.mp hst
      exact hseq.2 t ht _ _ (Nat.le_refl _) (by omega)
    have hfS2 : seqForward (fwdStages c.trs b.length) b =
        seqForward (stagesOf c.trs (seqMaxLen c.trs b.length) (max dl (seqMaxLen c.trs dl))) b :=
      seqForward_stagesOf c.trs _ 0 _ b
    have hrt := seq_roundtrip D _ b (by rw [stagesOf_length]; exact hseq.1) hS2 hD
    rw [← hfS2] at hrt
    unfold invStages
    rw [seqInverse_stagesOf c.trs 0 (seqMaxLen c.trs b.length)]
    exact hrt
  · -- stored untransformed, every stage flagged as skipped
    obtain ⟨e, he, hdec⟩ := hent _ hD
    exact decode_encodeOf c B b (b, 0xFF) e (by simp) (fun _ => by simp) hne (hfits _ hD) he hdec
      (fun dl _ => seqInverse_ff _ b) hB

/-! ### decode ∘ encode, copy blocks (NONE / NONE forced) -/

theorem seqMaxLen_null (n : Nat) : seqMaxLen [nullTr] n = n := by
  simp [seqMaxLen, stagesOf, seqMaxEncodedLen, Tr.stage, nullTr, nullMaxEncodedLen]

theorem seqForward_null (b : List Nat) (h0 : 0 < b.length) :
    seqForward (fwdStages [nullTr] b.length) b = (b, 0x7F) := by
  unfold fwdStages seqForward
  rw [if_neg (by omega), seqMaxLen_null]
  have h1 : nullForward b b.length = .ok b := by
    unfold nullForward nullMaxEncodedLen nullCopy
    rw [if_neg (Nat.lt_irrefl _), if_neg (by omega), if_neg (Nat.lt_irrefl _)]
  show seqFwdGo [nullTr.stage b.length 0] 0 b 0xFF = _
  rw [seqFwdGo]
  show (match nullForward b b.length with
    | .error _ => seqFwdGo [] (0 + 1) b 0xFF
    | .ok y => seqFwdGo [] (0 + 1) y (clearFlag 0xFF 0)) = _
  rw [h1]
  rfl

/-- the NONE sequence of a copy block: the block itself, with flags 0x7F, or 0xFF when the bound on the
post-transform length applies (a block longer than `maxLengthOf`, which a Writer never produces) -/
theorem fallback_null (lim : Option Nat) (req : Nat) (b : List Nat) (h0 : 0 < b.length) :
    fallback lim req b (seqForward (fwdStages [nullTr] b.length) b) = (b, 0x7F) ∨
    fallback lim req b (seqForward (fwdStages [nullTr] b.length) b) = (b, 0xFF) := by
  rcases fallback_cases lim req b (seqForward (fwdStages [nullTr] b.length) b) with h | h
  · left; rw [h, seqForward_null b h0]
  · right; exact h

theorem seqInverse_null (dstLen flags : Nat) (b : List Nat) (h0 : 0 < b.length) (hfit : b.length ≤ dstLen) :
    seqInverse (invStages [nullTr] dstLen) flags b = .ok b := by
  unfold seqInverse invStages
  rw [if_neg (by omega), seqMaxLen_null]
  by_cases hff : flags = 0xFF
  · rw [if_pos hff]
  · rw [if_neg hff]
    have h1 : nullInverse b (max dstLen dstLen) = .ok b := by
      unfold nullInverse nullCopy
      rw [if_neg (by omega), if_neg (by omega)]
    show seqInvGo [nullTr.stage 0 (max dstLen dstLen)] 0 flags b = _
    rw [seqInvGo, seqInvGo]
    show (if flagSet flags 0 = true then Except.ok b else nullInverse b (max dstLen dstLen)) = _
    rw [h1]
    split <;> rfl

/-- the decoder on a well-formed copy-block payload (`f` = the skip flags merged into the mode byte, which
the decoder ignores) -/
theorem decode_copy_payload (c : Cfg) (B ds f : Nat) (b : List Nat) (em : Nat × Option Nat) (p : Bits)
    (hm : ModeOK true (ds - 1) f em) (hf : f < 256) (hds1 : 1 ≤ ds) (hpow : b.length < 2 ^ (8 * ds))
    (hbytes : ∀ x ∈ b, x < 256) (hb0 : 0 < b.length) (hB : b.length ≤ B) (hmax : B ≤ 2 ^ 30)
    (hp : p = natBits em.1 8 ++ extraBits em.2 ++ natBits b.length (8 * ds) ++
      natBits (checksum c.ck b) (ckWidth c.ck) ++ ofBytes b) :
    decodeTaskGen c B p = ⟨b.length, .ok b⟩ := by
  have hpm := le_maxTransformLength b.length B hB (by omega)
  rw [decodeTaskGen_prologue c B true ds f b.length (checksum c.ck b) em (ofBytes b) p hm hds1
    hf hpow (by omega) hpm (checksum_lt c.ck b) hp]
  simp only [if_true]
  have hdl := Nat.le_trans (Nat.le_trans hB (taskBlockLength_ge B)) (decDstLen_ge B p)
  generalize decDstLen B p = dl at hdl
  generalize List.replicate (padLen p.length) false = pad
  unfold decodeBody
  have hdec : noneEnt.dec b.length (ofBytes b ++ pad) = some (b, pad) := by
    show EntSmall.nullDecode _ b.length = _
    rw [← EntSmall.nullEncode_eq]
    exact EntSmall.null_roundtrip b hbytes _
  rw [hdec]
  simp only [padZero_of_length _ _ rfl]
  rw [seqInverse_null dl 0 b hb0 hdl]
  simp only
  rw [if_neg (by omega), if_neg (by simp)]

theorem decode_encode_copy (c : Cfg) (B : Nat) (b : List Nat) (hbytes : ∀ x ∈ b, x < 256)
    (hb0 : 0 < b.length) (hB : b.length ≤ B) (hmax : B ≤ 2 ^ 30) :
    ∃ p, encodeWith true [nullTr] noneEnt (ckWidth c.ck) (checksum c.ck b) c.bs b = .ok p ∧
      decodeTaskGen c B p = ⟨b.length, .ok b⟩ := by
  have hpost32 : b.length < 2 ^ 32 := by omega
  have he : noneEnt.enc b = some (ofBytes b) := by
    show some (EntSmall.nullEncode b) = _
    rw [EntSmall.nullEncode_eq]
  have hds1 := dataSizeOf_pos b.length
  have hds4 := dataSizeOf_le _ hpost32
  have hpow := lt_pow_dataSizeOf b.length
  unfold encodeWith
  rcases fallback_null c.bs (seqMaxLen [nullTr] b.length) b hb0 with hf | hf <;> rw [hf]
  · have hm := modeOK_encodeMode true (dataSizeOf b.length) 0x7F 1 hds1 hds4 (by omega) (fun _ => by decide)
    exact ⟨_, encodeOf_eq true 1 noneEnt _ _ (b, 0x7F) (ofBytes b) hpost32 he,
      decode_copy_payload c B (dataSizeOf b.length) 0x7F b _ _ hm (by decide) hds1 hpow hbytes hb0 hB hmax rfl⟩
  · have hm := modeOK_encodeMode true (dataSizeOf b.length) 0xFF 1 hds1 hds4 (by omega) (fun _ => by decide)
    exact ⟨_, encodeOf_eq true 1 noneEnt _ _ (b, 0xFF) (ofBytes b) hpost32 he,
      decode_copy_payload c B (dataSizeOf b.length) 0xFF b _ _ hm (by decide) hds1 hpow hbytes hb0 hB hmax rfl⟩

/-! ### decode ∘ encode -/

/-- H_codec reduced to the laws of the components: for a block of 1..B bytes of the class `D`, the
encoding task succeeds and the decoding task returns the block (and `decoded` = its length), through
the copy-block branch, the `skipBlocks` branch, every pattern of declined stages, both layouts of the
skip flags, every width of the length field and every checksum width -/
theorem block_roundtrip (c : Cfg) (B : Nat) (D : List Nat → Prop) (b : List Nat)
    (hseq : SeqLaw D c.trs b.length (taskBlockLength B)) (hent : EntLaw D c.ent)
    (hfits : ∀ x, D x → x.length ≤ maxTransformLength B) (hD : D b)
    (hbytes : ∀ x ∈ b, x < 256) (hb0 : 0 < b.length) (hB : b.length ≤ B) (hmax : B ≤ 2 ^ 30) :
    ∃ p, encodeTaskGen c b = .ok p ∧ decodeTaskGen c B p = ⟨b.length, .ok b⟩ := by
  unfold encodeTaskGen
  by_cases hc : isCopy c b = true
  · rw [if_pos hc]
    exact decode_encode_copy c B b hbytes hb0 hB hmax
  · rw [if_neg hc]
    exact decode_encode_noncopy c B D b hseq hent hfits hD hb0 hB

end Kanzi.BlockGen
