/-
Line-protocol driver of the `rlt` stream (see harness/cmd/kv/rlt.go).  Core Lean only.

    rf <ctx> <dt> <ent> <dstlen> <data>   RLT.Forward, then (on success) RLT.Inverse of the output into
                                          a destination of len(data) bytes
         -> ok <out> | inv <res> [ctx=<k|->]   res = ok <out> | err:<class> | panic
          | declined:<class> [ctx=<k|->]       class = small | dst | type | nocomp
          | panic                               ctx= (only with <ctx> = 1): the dataType entry after the call
    ri <dstlen> <data>                    RLT.Inverse on arbitrary input
         -> ok <out> | err:<class> | panic      class = data | run | starts-run

`<ctx>`: `0` = NewRLT(), `1` = NewRLTWithCtx; `<dt>`: `-` (no dataType entry) or the DataType number;
`<ent>`: `-` (no entropy entry) or the codec name (any case).
`<data>`: `-` (empty) or comma separated chunks, each lower-case hex or `HH*count` (count copies of byte HH).
`<out>`: `<len> <hex>` up to 64 bytes, else `<len> #<fnv1a-64 of the bytes, hex>`.
-/
import Kanzi.Model.RLT
import Kanzi.Drv.TrSmall

namespace Kanzi.Drv
open Kanzi.RLT

def rltChunk (s : String) : Option (List Nat) :=
  match s.splitOn "*" with
  | [h] => unhex h
  | [h, c] =>
    match unhex h, c.toNat? with
    | some [b], some n => some (List.replicate n b)
    | _, _ => none
  | _ => none

def rltData (s : String) : Option (List Nat) :=
  if s = "-" then some []
  else ((s.splitOn ",").mapM rltChunk).map (fun ls => (ls.foldl (fun (a : Array Nat) (l : List Nat) => a ++ l) #[]).toList)

def rltFnv (l : List Nat) : UInt64 :=
  l.foldl (fun h b => (h ^^^ UInt64.ofNat b) * 1099511628211) 14695981039346656037

def rltHex64 (v : UInt64) : String :=
  String.ofList ((List.range 16).map (fun k => hexDigit ((v.toNat >>> (4 * (15 - k))) % 16)))

def rltOut (l : List Nat) : String :=
  if l.length ≤ 64 then s!"{l.length} {hex l}" else s!"{l.length} #{rltHex64 (rltFnv l)}"

def rltFast (ent : String) : Bool :=
  let u := ent.toUpper
  u = "NONE" || u = "ANS0" || u = "HUFFMAN" || u = "RANGE"

def rltShowInv (r : Res) : String :=
  match r with
  | .ok o => "ok " ++ rltOut o
  | .err e => "err:" ++ e
  | .fault _ => "panic"

def rlt (line : String) : String :=
  match (line.splitOn " ").filter (· ≠ "") with
  | ["rf", c, dts, ent, d, h] =>
    let dt? : Option Nat := if dts = "-" then some 0 else dts.toNat?
    match dt?, d.toNat?, rltData h with
    | some dt, some d, some b =>
      if c = "0" ∧ (dts ≠ "-" ∨ ent ≠ "-") then "bad-op" else
      let fast := ent ≠ "-" && rltFast ent
      let ctxs := if c = "0" then "" else
        match rltCtxWrite dt fast b d with
        | some k => s!" ctx={k}"
        | none => if dts = "-" then " ctx=-" else s!" ctx={dt}"
      match rltForward dt fast b d with
      | .ok t => s!"ok {rltOut t} | inv {rltShowInv (rltInverse t b.length)}{ctxs}"
      | .err e => "declined:" ++ e ++ ctxs
      | .fault _ => "panic"
    | _, _, _ => "bad-op"
  | ["ri", d, h] =>
    match d.toNat?, rltData h with
    | some d, some b => rltShowInv (rltInverse b d)
    | _, _ => "bad-op"
  | _ => "bad-op"

end Kanzi.Drv
