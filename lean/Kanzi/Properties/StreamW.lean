/-
Writer-side property theorems (C01 writer half, C04 partition/jobs independence, C08 writer, C17
writer) over `Model.Writer`.  Proofs in `Kanzi/Proofs/Writer.lean`.
All theorems hold for every block size B ≥ 1, every job count J ≥ 1 and every value of the size
hint (nbIn), i.e. in particular for the real ranges 1024 ≤ B ≤ 2^30, J ≤ 64, nbIn ≤ 63.
-/
import Kanzi.Model.Writer
import Kanzi.Spec.Stream
import Kanzi.Proofs.Writer

namespace Kanzi.StreamW
open Kanzi.Writer Kanzi.Spec

/-- C01 (writer half) + C04 (partition and jobs independence): on a healthy sink every Write returns
its full length without error, Close returns nil, and the blocks handed to the shared stream are
exactly the accepted bytes cut into B-sized blocks — a function of the data and B only: not of the
partition into Write calls, not of the job count, not of the size hint. -/
theorem C04_writer_blocks (c : Cfg) (hB : 0 < c.B) (hJ : 0 < c.J) (parts : List (List Nat)) :
    let r := run c (init c) (healthyProgram parts)
    r.2 = parts.map (fun d => Out.wrote d.length none) ++ [Out.closedR none] ∧
    r.1.emitted = chunks c.B parts.flatten ∧
    r.1.closed = true ∧ r.1.endOut = true ∧ r.1.headerOut = !c.headless ∧ r.1.failed = false :=
  Kanzi.Writer.healthy_run c hB hJ parts

/-- C04_partition_independent, stated as such -/
theorem C04_partition_independent (c : Cfg) (hB : 0 < c.B) (hJ : 0 < c.J) (p1 p2 : List (List Nat))
    (h : p1.flatten = p2.flatten) :
    (run c (init c) (healthyProgram p1)).1.emitted = (run c (init c) (healthyProgram p2)).1.emitted := by
  have h1 := (C04_writer_blocks c hB hJ p1).2.1
  have h2 := (C04_writer_blocks c hB hJ p2).2.1
  rw [h1, h2, h]

/-- C04_jobs_independent: two configurations that differ only in jobs and size hint emit the same blocks -/
theorem C04_jobs_independent (c1 c2 : Cfg) (hB : 0 < c1.B) (hBe : c1.B = c2.B) (hJ1 : 0 < c1.J) (hJ2 : 0 < c2.J)
    (parts : List (List Nat)) :
    (run c1 (init c1) (healthyProgram parts)).1.emitted = (run c2 (init c2) (healthyProgram parts)).1.emitted := by
  have h1 := (C04_writer_blocks c1 hB hJ1 parts).2.1
  have h2 := (C04_writer_blocks c2 (hBe ▸ hB) hJ2 parts).2.1
  rw [h1, h2, hBe]

/-- C17: a closed writer is absorbing: Close returns nil, Write returns (0, closed), GetWritten is
unchanged, and nothing observable changes -/
theorem C17_closed_absorbing (c : Cfg) (s : St) (h : s.closed = true) (op : Op) :
    (step c s op).1 = s ∧
    (match op with
     | .write _ _ => (step c s op).2 = Out.wrote 0 (some Err.closed)
     | .close _ => (step c s op).2 = Out.closedR none
     | .getWritten => (step c s op).2 = Out.written (getWritten s)) :=
  Kanzi.Writer.closed_absorbing c s h op

/-- C17: the byte counter never decreases, whatever the program and the faults -/
theorem C17_getWritten_monotone (c : Cfg) (s : St) (op : Op) :
    getWritten s ≤ getWritten (step c s op).1 :=
  Kanzi.Writer.getWritten_mono c s op

/-- C17: after a successful Close of a healthy program, GetWritten is the size of the image:
header + all frames + end marker, rounded up to a byte -/
theorem C17_getWritten_final (c : Cfg) (hB : 0 < c.B) (hJ : 0 < c.J) (parts : List (List Nat)) :
    getWritten (run c (init c) (healthyProgram parts)).1 =
      ((if c.headless then 0 else c.headerBits) +
        ((chunks c.B parts.flatten).map c.frameBits).sum + 8 + 7) / 8 :=
  Kanzi.Writer.getWritten_final c hB hJ parts

/-- reachable states: any program, any faults -/
def Reachable (c : Cfg) (s : St) : Prop := ∃ ops, (run c (init c) ops).1 = s

/-- C08 (writer): for EVERY program and EVERY placement of sink faults: if the writer ends up closed
(i.e. some Close reported success) then every accepted byte is in the emitted blocks, in order,
exactly once, cut into B-sized blocks, and the end marker was written.  Success is never reported
for a stream with bytes missing. -/
theorem C08_closed_means_complete (c : Cfg) (hB : 0 < c.B) (hJ : 0 < c.J) (ops : List Op) :
    let r := run c (init c) ops
    r.1.closed = true →
      r.1.emitted = chunks c.B (accepted ops r.2) ∧ r.1.endOut = true ∧ r.1.headerOut = !c.headless ∧
      r.1.failed = false :=
  Kanzi.Writer.closed_means_complete c hB hJ ops

/-- C08 (writer), PARTIAL: the error state is sticky: after a failed block every Write is refused with
an error (nothing is accepted) and every Close fails; the writer never becomes closed.
PARTIAL because the statement over ALL states (hypotheses `failed` and `¬closed` only) is false: the
state `{ init c with failed := true, finalized := true }` — which no program can produce — is closed
successfully by `Close` (phase 1 is skipped).  Stated here with the extra hypothesis
`s.finalized = false` (which is also preserved, making the statement inductive); the original
statement for every REACHABLE state is `C08_failed_sticky_reachable` below.
See `Kanzi/Proofs/Writer.lean` for the counterexample. -/
theorem C08_failed_sticky (c : Cfg) (s : St) (h : s.failed = true) (hc : s.closed = false)
    (hfin : s.finalized = false) (op : Op) :
    (step c s op).1.failed = true ∧ (step c s op).1.closed = false ∧ (step c s op).1.finalized = false ∧
    (match op with
     | .write _ _ => ∃ e, (step c s op).2 = Out.wrote 0 (some e)
     | .close _ => ∃ e, (step c s op).2 = Out.closedR (some e)
     | .getWritten => True) :=
  Kanzi.Writer.failed_sticky_partial c s h hc hfin op

/-- C08 (writer): the original sticky-error statement, for every reachable state (any program, any
faults, any B, J): a reachable failed writer is not closed, refuses every Write with an error, fails
every Close and never becomes closed -/
theorem C08_failed_sticky_reachable (c : Cfg) (s : St) (hr : Reachable c s) (h : s.failed = true) (op : Op) :
    s.closed = false ∧ (step c s op).1.failed = true ∧ (step c s op).1.closed = false ∧
    (match op with
     | .write _ _ => ∃ e, (step c s op).2 = Out.wrote 0 (some e)
     | .close _ => ∃ e, (step c s op).2 = Out.closedR (some e)
     | .getWritten => True) := by
  obtain ⟨ops, hops⟩ := hr
  exact Kanzi.Writer.failed_sticky_reachable c ops s hops h op

/-- C08 (writer): a fault that fires is reported by the call during which it happens -/
theorem C08_close_fault_reported (c : Cfg) (s : St) (f : Fault) (hf : f = .endMarker ∨ f = .finalFlush ∨ f = .closer)
    (hc : s.closed = false) : (close c s f).2 ≠ none ∨ (close c s f).1.closed = false ∨
      (f = .finalFlush ∧ s.obsClosed = true) ∨ (f = .closer ∧ s.closerClosed = true) ∨ (f = .endMarker ∧ s.finalized = true) :=
  Kanzi.Writer.close_fault_reported c s f hf hc

end Kanzi.StreamW
