/-
ROLZ (`rolzCodec1`): the sequence layer.  Length coding (`emitLengthROLZ` / `readLengthROLZ`), what one emitted
sequence appends to the four side buffers (`emitSeq_spec`), and how the decoder reads it back
(token, match length, literal length).
-/
import Kanzi.Model.ROLZ1
import Kanzi.Proofs.Rolz1Total

namespace Kanzi.ROLZ

/-! ## buffers as growing prefixes -/

/-- the bytes `bs` stand in `buf` at index `i` -/
def At (buf : Array Nat) (i : Nat) (bs : List Nat) : Prop := ∀ k, k < bs.length → buf.getD (i + k) 0 = bs.getD k 0

/-- `x` is a prefix of `y` -/
def Pre (x y : Array Nat) : Prop := x.size ≤ y.size ∧ ∀ k, k < x.size → y.getD k 0 = x.getD k 0

theorem pre_refl (x : Array Nat) : Pre x x := ⟨Nat.le_refl _, fun _ _ => rfl⟩

theorem pre_trans {x y z : Array Nat} (h1 : Pre x y) (h2 : Pre y z) : Pre x z :=
  ⟨Nat.le_trans h1.1 h2.1, fun k hk => by rw [h2.2 k (by have := h1.1; omega), h1.2 k hk]⟩

theorem getD_appendL (x : Array Nat) (l : List Nat) (k : Nat) :
    (x ++ l).getD k 0 = if k < x.size then x.getD k 0 else l.getD (k - x.size) 0 := by
  simp only [Array.getD_eq_getD_getElem?, List.getD_eq_getElem?_getD]
  rw [← Array.getElem?_toList, Array.toList_appendList, List.getElem?_append]
  split
  · rename_i h; rw [Array.length_toList] at h; rw [if_pos h, Array.getElem?_toList]
  · rename_i h; rw [Array.length_toList] at h; rw [if_neg h, Array.length_toList]

theorem getD_appendA (x y : Array Nat) (k : Nat) :
    (x ++ y).getD k 0 = if k < x.size then x.getD k 0 else y.getD (k - x.size) 0 := by
  simp only [Array.getD_eq_getD_getElem?, Array.getElem?_append]
  split <;> rfl

theorem pre_appendL (x : Array Nat) (l : List Nat) : Pre x (x ++ l) :=
  ⟨by rw [size_appendL]; omega, fun k hk => by rw [getD_appendL, if_pos hk]⟩

theorem pre_appendA (x y : Array Nat) : Pre x (x ++ y) :=
  ⟨by rw [Array.size_append]; omega, fun k hk => by rw [getD_appendA, if_pos hk]⟩

theorem at_appendL (x : Array Nat) (l : List Nat) : At (x ++ l) x.size l := by
  intro k _
  rw [getD_appendL, if_neg (by omega)]
  congr 1; omega

theorem at_of_pre {x y : Array Nat} (h : Pre x y) {i : Nat} {bs : List Nat} (ha : At x i bs) (hi : i + bs.length ≤ x.size) :
    At y i bs := fun k hk => by rw [h.2 (i + k) (by omega)]; exact ha k hk

/-! ## length coding -/

/-- `readLengthROLZ` inverts `emitLengthROLZ` for every value below `2^28` (literal runs and matches are shorter
    than a chunk of at most `2^24` bytes), wherever the bytes stand, as long as 4 bytes can be sliced -/
theorem readLength_emit (buf : Array Nat) (i v : Nat) (hv : v < 2 ^ 28) (hat : At buf i (emitLengthBytes v))
    (h4 : i + 4 ≤ buf.size) : readLength buf i = some (v, (emitLengthBytes v).length) := by
  unfold readLength
  rw [if_pos h4]
  unfold emitLengthBytes at hat ⊢
  by_cases h7 : v ≥ 2 ^ 7
  · by_cases h14 : v ≥ 2 ^ 14
    · by_cases h21 : v ≥ 2 ^ 21
      · simp only [if_pos h7, if_pos h14, if_pos h21, List.cons_append, List.nil_append] at hat ⊢
        have a0 := hat 0 (by simp)
        have a1 := hat 1 (by simp)
        have a2 := hat 2 (by simp)
        have a3 := hat 3 (by simp)
        simp only [Nat.add_zero, List.getD_cons_zero, List.getD_cons_succ] at a0 a1 a2 a3
        simp only [a0, a1, a2, a3, Nat.shiftRight_eq_div_pow, List.length_cons, List.length_nil]
        rw [if_neg (by omega), if_neg (by omega), if_neg (by omega)]
        congr 2
        omega
      · simp only [if_pos h7, if_pos h14, if_neg h21, List.cons_append, List.nil_append] at hat ⊢
        have a0 := hat 0 (by simp)
        have a1 := hat 1 (by simp)
        have a2 := hat 2 (by simp)
        simp only [Nat.add_zero, List.getD_cons_zero, List.getD_cons_succ] at a0 a1 a2
        simp only [a0, a1, a2, Nat.shiftRight_eq_div_pow, List.length_cons, List.length_nil]
        rw [if_neg (by omega), if_neg (by omega), if_pos (by omega)]
        congr 2
        omega
    · simp only [if_pos h7, if_neg h14, List.cons_append, List.nil_append] at hat ⊢
      have a0 := hat 0 (by simp)
      have a1 := hat 1 (by simp)
      simp only [Nat.add_zero, List.getD_cons_zero, List.getD_cons_succ] at a0 a1
      simp only [a0, a1, Nat.shiftRight_eq_div_pow, List.length_cons, List.length_nil]
      rw [if_neg (by omega), if_pos (by omega)]
      congr 2
      omega
  · simp only [if_neg h7, List.nil_append] at hat ⊢
    have a0 := hat 0 (by simp)
    simp only [Nat.add_zero, List.getD_cons_zero] at a0
    simp only [a0, List.length_cons, List.length_nil]
    rw [if_pos (by omega)]
    congr 2
    omega

/-! ## what one sequence appends -/

/-- the token of a sequence: `LLLLLMMM`, `L` = min(literal run, 31), `M` = min(match length code, 7) -/
def tokOf (litLen ml : Nat) : Nat := (min litLen 31) * 8 + min ml 7

/-- the bytes a sequence appends to `lenBuf`: the match length (from 7 on), then the literal run length (from 31 on) -/
def lenBytesOf (litLen ml : Nat) : List Nat :=
  (if ml ≥ 7 then emitLengthBytes (ml - 7) else []) ++ (if litLen ≥ 31 then emitLengthBytes (litLen - 31) else [])

theorem or_low3 (x y : Nat) (hx : x < 8) : x ||| (y * 8) = y * 8 + x := by
  have := Nat.shiftLeft_add_eq_or_of_lt (a := y) (i := 3) (b := x) (by omega)
  rw [Nat.shiftLeft_eq] at this
  rw [Nat.or_comm]
  exact this.symm

theorem tok_eq (litLen ml : Nat) :
    (if litLen = 0 then (if ml ≥ 7 then 7 else ml)
      else if litLen ≥ 31 then (if ml ≥ 7 then 7 else ml) ||| 0xF8
      else (if ml ≥ 7 then 7 else ml) ||| ((litLen <<< 3) % 256)) = tokOf litLen ml := by
  unfold tokOf
  have h1 : (if ml ≥ 7 then 7 else ml) = min ml 7 := by split <;> omega
  rw [h1]
  have hm : min ml 7 < 8 := by omega
  by_cases h0 : litLen = 0
  · rw [if_pos h0, h0]; simp
  · rw [if_neg h0]
    by_cases h31 : litLen ≥ 31
    · rw [if_pos h31]
      have : (0xF8 : Nat) = 31 * 8 := rfl
      rw [this, or_low3 _ _ hm]
      have : min litLen 31 = 31 := by omega
      rw [this]
    · rw [if_neg h31, Nat.shiftLeft_eq]
      have e : litLen * 2 ^ 3 % 256 = litLen * 8 := by omega
      rw [e, or_low3 _ _ hm]
      have : min litLen 31 = litLen := by omega
      rw [this]

theorem pushAll_eq {buf : Array Nat} {cap : Nat} {bs : List Nat} {b : Array Nat} (h : pushAll buf cap bs = some b) :
    b = buf ++ bs := by
  unfold pushAll at h
  split at h
  · injection h with h; exact h.symm
  · cases h

theorem pushLits_eq {lit : Array Nat} {cap : Nat} {a : Array Nat} {frm to : Nat} {b : Array Nat}
    (h : pushLits lit cap a frm to = some b) : b = lit ++ a.extract frm to ∧ to ≤ a.size := by
  unfold pushLits at h
  split at h
  · rename_i hc; injection h with h; exact ⟨h.symm, hc.2⟩
  · cases h

theorem appendL_nil (x : Array Nat) : x ++ ([] : List Nat) = x := by
  apply Array.ext'
  rw [Array.toList_appendList]; simp

theorem appendL_assoc (x : Array Nat) (l1 l2 : List Nat) : x ++ l1 ++ l2 = x ++ (l1 ++ l2) := by
  apply Array.ext'
  simp [Array.toList_appendList]

/-- `emitSeq`: the token, the length bytes, the literals `a[first, i)` and the match index, appended -/
theorem emitSeq_spec {a : Array Nat} {cp : Caps} {first i mi ml : Nat} {s s' : F1}
    (h : emitSeq a cp first i mi ml s = .ok s') (hfi : first ≤ i) :
    s'.tab = s.tab ∧ s'.tk = s.tk ++ [tokOf (i - first) ml] ∧ s'.mix = s.mix ++ [mi % 256] ∧
    s'.len = s.len ++ lenBytesOf (i - first) ml ∧ s'.lit = s.lit ++ a.extract first i := by
  unfold emitSeq at h
  dsimp only at h
  rw [tok_eq] at h
  split at h
  · cases h
  · rename_i len1 h1
    split at h
    · cases h
    · rename_i len2 h2
      split at h
      · cases h
      · rename_i lit1 h3
        split at h
        · cases h
        · split at h
          · rename_i tk1 mix1 ht hm
            injection h with h
            subst h
            refine ⟨rfl, pushAll_eq ht, pushAll_eq hm, ?_, ?_⟩
            · unfold lenBytesOf
              simp only
              by_cases h7 : ml ≥ 7
              · rw [if_pos h7] at h1
                have e1 := pushAll_eq h1
                by_cases h31 : i - first ≥ 31
                · rw [if_pos h31] at h2
                  rw [if_pos h7, if_pos h31, pushAll_eq h2, e1, appendL_assoc]
                · rw [if_neg h31] at h2
                  injection h2 with h2
                  rw [if_pos h7, if_neg h31, ← h2, e1, List.append_nil]
              · rw [if_neg h7] at h1
                injection h1 with h1
                by_cases h31 : i - first ≥ 31
                · rw [if_pos h31] at h2
                  rw [if_neg h7, if_pos h31, pushAll_eq h2, ← h1, List.nil_append]
                · rw [if_neg h31] at h2
                  injection h2 with h2
                  rw [if_neg h7, if_neg h31, ← h2, ← h1, List.append_nil, appendL_nil]
            · simp only
              by_cases h0 : i - first > 0
              · rw [if_pos h0] at h3
                exact (pushLits_eq h3).1
              · rw [if_neg h0] at h3
                injection h3 with h3
                have : first = i := by omega
                rw [← h3, this]
                apply Array.ext'
                simp
          · cases h

/-! ## how the decoder reads a token back -/

theorem tokOf_low (litLen ml : Nat) : tokOf litLen ml % 8 = min ml 7 := by unfold tokOf; omega

theorem tokOf_high (litLen ml : Nat) : (tokOf litLen ml < 0xF8 ↔ litLen < 31) ∧ (litLen < 31 → tokOf litLen ml >>> 3 = litLen) := by
  unfold tokOf
  constructor
  · constructor <;> intro h <;> omega
  · intro h
    rw [Nat.shiftRight_eq_div_pow]
    omega

/-- the match length and the literal run length of a sequence, read back from the token and `lenBuf` -/
theorem decode_lengths {len : Array Nat} {lenIdx litLen ml : Nat} (hat : At len lenIdx (lenBytesOf litLen ml))
    (h4 : lenIdx + (lenBytesOf litLen ml).length + 4 ≤ len.size) (hl : litLen < 2 ^ 28) (hm : ml < 2 ^ 28) :
    ∃ lenIdx1,
    (if tokOf litLen ml % 8 = 7 then (readLength len lenIdx).map (fun r => (r.1 + 7, lenIdx + r.2))
      else some (tokOf litLen ml % 8, lenIdx)) = some (ml, lenIdx1) ∧
    (if tokOf litLen ml < 0xF8 then some (tokOf litLen ml >>> 3, lenIdx1)
      else (readLength len lenIdx1).map (fun r => (r.1 + 31, lenIdx1 + r.2)))
      = some (litLen, lenIdx + (lenBytesOf litLen ml).length) := by
  have hlow := tokOf_low litLen ml
  obtain ⟨hh1, hh2⟩ := tokOf_high litLen ml
  unfold lenBytesOf at hat h4 ⊢
  by_cases h7 : ml ≥ 7
  · rw [if_pos h7] at hat h4
    have hat1 : At len lenIdx (emitLengthBytes (ml - 7)) := by
      intro k hk
      have := hat k (by rw [List.length_append]; omega)
      rw [this, List.getD_eq_getElem?_getD, List.getD_eq_getElem?_getD, List.getElem?_append_left hk]
    have h1 := readLength_emit len lenIdx (ml - 7) (by omega) hat1 (by rw [List.length_append] at h4; omega)
    refine ⟨lenIdx + (emitLengthBytes (ml - 7)).length, ?_, ?_⟩
    · rw [if_pos (by rw [hlow]; omega), h1]
      simp only [Option.map]
      congr 2
      omega
    · by_cases h31 : litLen ≥ 31
      · rw [if_pos h31] at hat h4
        have hat2 : At len (lenIdx + (emitLengthBytes (ml - 7)).length) (emitLengthBytes (litLen - 31)) := by
          intro k hk
          have := hat ((emitLengthBytes (ml - 7)).length + k) (by rw [List.length_append]; omega)
          rw [Nat.add_assoc, this, List.getD_eq_getElem?_getD, List.getD_eq_getElem?_getD,
            List.getElem?_append_right (by omega)]
          congr 2; omega
        have h2 := readLength_emit len _ (litLen - 31) (by omega) hat2 (by rw [List.length_append] at h4; omega)
        rw [if_neg (by omega), h2, if_pos h31, if_pos h7]
        simp only [Option.map, List.length_append]
        congr 2
        · omega
        · omega
      · rw [if_pos (by omega), hh2 (by omega), if_neg h31, if_pos h7]
        simp
  · rw [if_neg h7] at hat h4
    refine ⟨lenIdx, ?_, ?_⟩
    · rw [if_neg (by rw [hlow]; omega), hlow]
      congr 2; omega
    · by_cases h31 : litLen ≥ 31
      · rw [if_pos h31] at hat h4
        simp only [List.nil_append] at hat h4
        have h2 := readLength_emit len lenIdx (litLen - 31) (by omega) hat (by omega)
        rw [if_neg (by omega), h2, if_pos h31, if_neg h7]
        simp only [Option.map, List.nil_append]
        congr 2
        omega
      · rw [if_pos (by omega), hh2 (by omega), if_neg h31, if_neg h7]
        simp

/-! ## copies and the registration of a literal run -/

theorem copyFrom_spec (src : Array Nat) (lim : Nat) : ∀ (n : Nat) (dst : Array Nat) (d s : Nat), d + n ≤ lim → lim ≤ dst.size →
    (copyFrom dst lim d src s n).size = dst.size ∧
    ∀ k, (copyFrom dst lim d src s n).getD k 0 = if d ≤ k ∧ k < d + n then src.getD (s + (k - d)) 0 else dst.getD k 0 := by
  intro n
  induction n with
  | zero =>
    intro dst d s _ _
    refine ⟨rfl, fun k => ?_⟩
    simp only [copyFrom]
    rw [if_neg (by omega)]
  | succ n ih =>
    intro dst d s hlim hsz
    simp only [copyFrom]
    rw [if_pos (by omega)]
    obtain ⟨h1, h2⟩ := ih (dst.setIfInBounds d (src.getD s 0)) (d + 1) (s + 1) (by omega)
      (by rw [Array.size_setIfInBounds]; exact hsz)
    refine ⟨by rw [h1, Array.size_setIfInBounds], fun k => ?_⟩
    rw [h2 k, getD_setIfInBounds]
    by_cases hk : d + 1 ≤ k ∧ k < d + 1 + n
    · rw [if_pos hk, if_pos (by omega)]
      congr 1; omega
    · rw [if_neg hk]
      by_cases hkd : k = d
      · rw [if_pos ⟨hkd, by omega⟩, if_pos (by omega), hkd]
        simp
      · rw [if_neg (fun hc => hkd hc.1), if_neg (by omega)]

/-- one iteration of the registration loop of a literal run -/
theorem regRun_unfold {mm delta lpc base lim i litLen f n inc : Nat} {s : I1} {key : Nat} (hn : n < litLen)
    (hkey : getKey mm delta s.dst base lim (i + n) = some key)
    (hin : key * 2 ^ lpc + (s.tab.counters.getD key 0 + 1) % 2 ^ lpc < s.tab.mts.size) :
    regRun mm delta lpc base lim i litLen (f + 1) n inc s =
      regRun mm delta lpc base lim i litLen f (n + (inc >>> 6) + 1) (inc + 1) ⟨s.tab.register lpc key (i + n - base), s.dst⟩ := by
  simp only [regRun]
  rw [if_pos hn]
  simp only [hkey]
  rw [if_pos hin]

theorem regRun_done {mm delta lpc base lim i litLen f n inc : Nat} {s : I1} (hn : ¬ n < litLen) :
    regRun mm delta lpc base lim i litLen (f + 1) n inc s = .ok s := by
  simp only [regRun]
  rw [if_neg hn]

theorem tabOk_in {t : Tab} {lpc : Nat} (h : TabOk t lpc) {key : Nat} (hk : key < HASH_SIZE) (c : Nat) :
    key * 2 ^ lpc + c % 2 ^ lpc < t.mts.size := by
  have hP : 0 < 2 ^ lpc := Nat.two_pow_pos lpc
  have hc : c % 2 ^ lpc < 2 ^ lpc := Nat.mod_lt _ hP
  rw [h.mts]
  have h1 : key * 2 ^ lpc + c % 2 ^ lpc < (key + 1) * 2 ^ lpc := by rw [Nat.add_mul, Nat.one_mul]; omega
  have h2 : (key + 1) * 2 ^ lpc ≤ HASH_SIZE * 2 ^ lpc := Nat.mul_le_mul_right _ hk
  omega

/-! ## what `findMatch` of ROLZ guarantees -/

theorem cpl8_spec (a : Array Nat) (i j : Nat) :
    cpl8 a i j ≤ 8 ∧ ∀ k, k < cpl8 a i j → a.getD (i + k) 0 = a.getD (j + k) 0 := by
  unfold cpl8
  have h1 := cpl4_spec a i j
  have h2 := cpl4_spec a (i + 4) (j + 4)
  split
  · exact ⟨by omega, h1.2⟩
  · rename_i hc
    have hc4 : cpl4 a i j = 4 := by omega
    refine ⟨by omega, fun k hk => ?_⟩
    by_cases hk4 : k < 4
    · exact h1.2 k (by omega)
    · have := h2.2 (k - 4) (by omega)
      have e1 : i + 4 + (k - 4) = i + k := by omega
      have e2 : j + 4 + (k - 4) = j + k := by omega
      rw [e1, e2] at this
      exact this

theorem matchLen1_spec (a : Array Nat) (lim r p maxMatch : Nat) : ∀ (f n res : Nat),
    Same a r p n → matchLen1 a lim r p maxMatch f n = .ok res →
    Same a r p res ∧ (res = n ∨ (res < maxMatch + 8 ∧ 0 < maxMatch)) ∧ n ≤ res := by
  intro f
  induction f with
  | zero => intro n res _ h; simp [matchLen1] at h
  | succ f ih =>
    intro n res hs h
    simp only [matchLen1] at h
    split at h
    · rename_i hlt
      split at h
      · have sp := cpl8_spec a (r + n) (p + n)
        have hext : ∀ m, m ≤ cpl8 a (r + n) (p + n) → Same a r p (n + m) := by
          intro m hm k hk
          by_cases hkn : k < n
          · exact hs k hkn
          · have := sp.2 (k - n) (by omega)
            have e1 : r + n + (k - n) = r + k := by omega
            have e2 : p + n + (k - n) = p + k := by omega
            rw [e1, e2] at this
            exact this
        split at h
        · injection h with h
          subst h
          exact ⟨hext _ (Nat.le_refl _), Or.inr ⟨by omega, by omega⟩, by omega⟩
        · rename_i hc
          have hc8 : cpl8 a (r + n) (p + n) = 8 := by omega
          obtain ⟨q1, q2, q3⟩ := ih (n + 8) res (hext 8 (by omega)) h
          refine ⟨q1, ?_, by omega⟩
          rcases q2 with q2 | q2
          · right; exact ⟨by omega, by omega⟩
          · right; exact q2
      · cases h
    · injection h with h
      subst h
      exact ⟨hs, Or.inl rfl, Nat.le_refl _⟩

/-- as `CandOk` for the 8-byte comparison loop -/
def CandOk1 (a : Array Nat) (mts : Array Nat) (mb counter pc base pos maxMatch L J : Nat) : Prop :=
  L = 0 ∨ (J < pc ∧ Same a (base + mts.getD (mb + (counter + pc - J) % pc) 0 % 2 ^ 24) pos L ∧ L < maxMatch + 8 ∧
    0 < maxMatch)

theorem candLoop1_spec (a : Array Nat) (base lim pos hash32 maxMatch : Nat) (mts : Array Nat) (mb counter pc : Nat) :
    ∀ (k j L J : Nat) (res : Nat × Nat), j + k ≤ pc → CandOk1 a mts mb counter pc base pos maxMatch L J →
    candLoop1 a base lim pos hash32 maxMatch mts mb counter pc k j L J = .ok res →
    CandOk1 a mts mb counter pc base pos maxMatch res.1 res.2 := by
  intro k
  induction k with
  | zero =>
    intro j L J res _ hc h
    simp only [candLoop1] at h
    injection h with h
    subst h
    exact hc
  | succ k ih =>
    intro j L J res hjk hc h
    simp only [candLoop1] at h
    split at h
    · exact ih (j + 1) L J res (by omega) hc h
    · split at h
      · split at h
        · exact ih (j + 1) L J res (by omega) hc h
        · split at h
          · rename_i n hn
            have sp := matchLen1_spec a lim _ pos maxMatch _ 0 n (fun k hk => by omega) hn
            split at h
            · rename_i hgt
              have hnew : CandOk1 a mts mb counter pc base pos maxMatch n j := by
                right
                refine ⟨by omega, sp.1, ?_⟩
                rcases sp.2.1 with h0 | h0
                · omega
                · exact h0
              exact ih (j + 1) n j res (by omega) hnew h
            · exact ih (j + 1) L J res (by omega) hc h
          · cases h
          · cases h
      · cases h

/-- a match reported by `findMatch` is a ring index whose entry points at `ml + minMatch` bytes equal to those
    at `pos`, inside the chunk -/
theorem findMatch1_spec {a : Array Nat} {base lim pos hash32 key mm lpc : Nat} {t : Tab} {j ml : Nat}
    (h : findMatch1 a base lim pos hash32 key mm lpc t = .ok (some (j, ml))) (hmm : 3 ≤ mm ∧ mm ≤ 7) :
    j < 2 ^ lpc ∧ ml + mm < 2 ^ 17 ∧ pos + ml + mm < lim ∧ Same a (base + ring t lpc key j % 2 ^ 24) pos (ml + mm) := by
  unfold findMatch1 at h
  have hM : MAX_MATCH1 = 65538 := rfl
  dsimp only at h
  split at h
  · cases h
  · split at h
    · rename_i res hres
      have sp := candLoop1_spec a base lim pos hash32 (min MAX_MATCH1 (lim - pos) - 8) t.mts (key * 2 ^ lpc)
        (t.counters.getD key 0) (2 ^ lpc) (2 ^ lpc) 0 0 0 res (by omega) (Or.inl rfl) hres
      split at h
      · cases h
      · rename_i hge
        injection h with h
        injection h with h
        injection h with h1 h2
        subst h1; subst h2
        rcases sp with h0 | ⟨hJ, hsame, hL, hpos⟩
        · omega
        · refine ⟨hJ, ?_, ?_, ?_⟩
          · rw [hM] at hL; omega
          · rw [hM] at hL; omega
          · have e : res.1 - mm + mm = res.1 := by omega
            rw [e]
            exact hsame
    · cases h
    · cases h

end Kanzi.ROLZ
