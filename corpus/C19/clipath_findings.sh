#!/bin/bash
# Shell reproducers of the findings of the `clipath` slice (C19, path logic of the CLI).
# P1..P5 were repaired in /repo (df40178, ffa444d, 35270d9, f45672a): the lines below now show the repaired
# behaviour (kept as a manual regression check).  P5 was repaired in f45672a.
# usage: clipath_findings.sh <path to the kanzi binary>     (works in a fresh temporary directory)
K=${1:-kanzi}
W=$(mktemp -d "${TMPDIR:-/tmp}/clipath-findings.XXXXXX") || exit 1
cd "$W" || exit 1
say() { printf '\n=== %s\n' "$*"; }

say "P1 (repaired) -i ./T -o out: expected out/abcdef.knz, out/sub/ghijkl.knz (was out/cdef.knz, out/b/ghijkl.knz)"
mkdir -p p1/T/sub p1/out; echo AAAA > p1/T/abcdef; echo BBBB > p1/T/sub/ghijkl
(cd p1 && $K -c -i ./T -o out -j 1 >/dev/null; echo "exit status $?"; find out -type f | sort)

say "P1b (repaired) expected out/xxq.knz and out/yyq.knz (was ONE output q.knz, exit status 0 with -f)"
mkdir -p p1b/T p1b/out; echo 1111 > p1b/T/xxq; echo 2222 > p1b/T/yyq
(cd p1b && $K -c -i ./T -o out -f -j 1 >/dev/null; echo "exit status $?"; find out -type f | sort)

say "P1c (repaired) one-letter name: expected out/a.knz (was a slice bounds fault, exit status 127)"
mkdir -p p1c/T p1c/out; echo a > p1c/T/a
(cd p1c && $K -c -i ./T -o out -j 1 | tail -1; echo "exit status ${PIPESTATUS[0]}"; ls out)

say "P1d (repaired) the same with '.', 'T//', 'T/../T' and on decompression: expected abcdef.knz / abcdef everywhere"
mkdir -p p1d/T p1d/o1 p1d/o2 p1d/o3 p1d/C p1d/D; echo hello > p1d/T/abcdef
(cd p1d/T && $K -c -i . -o ../o1 -j 1 >/dev/null; echo ". : exit status $?"; ls ../o1)
(cd p1d && $K -c -i T// -o o2 -j 1 >/dev/null; echo "T// : exit status $?"; ls o2
 $K -c -i T/../T -o o3 -j 1 >/dev/null; echo "T/../T : exit status $?"; ls o3
 $K -c -i T -o C -j 1 >/dev/null; $K -d -i ./C -o D -j 1 >/dev/null; echo "decompress -i ./C: exit status $?"; ls D)

say "P2 (repaired) in place, tree {x, x.knz}, -f: expected a refusal (status 7), nothing modified (was: x.knz overwritten, exit status 0)"
mkdir p2; printf 'content of x\n' > p2/x; printf 'content of x.knz (a plain user file)\n' > p2/x.knz
$K -c -i p2 -f -j 4 | tail -2; echo "exit status ${PIPESTATUS[0]}"
for f in p2/*; do echo "$f $(stat -c %s $f) $(sha256sum < $f | cut -c1-16)"; done

say "P3 (repaired) decompression of a.knz and a.KNZ with -f --rm: expected a refusal (status 7), both sources kept"
mkdir -p p3/S; printf 'first\n' > p3/S/a; printf 'second\n' > p3/S/b
$K -c -i p3/S --rm -j 1 >/dev/null; mv p3/S/b.knz p3/S/a.KNZ; mkdir p3/D
$K -d -i p3/S -o p3/D -f --rm -j 1 | tail -2; echo "exit status ${PIPESTATUS[0]}"; find p3 -type f | sort

say "P4 (repaired) 'kanzi -d -i none.knz --rm' in the working directory: expected the file ./none"
mkdir p4; printf 'precious\n' > p4/none; (cd p4 && $K -c -i none --rm >/dev/null && $K -d -i none.knz --rm >/dev/null; echo "exit status $?"; ls -A; cat none)

say "P5 (repaired) last element of -i ends with a dot: -i T. -o out: expected out/abc.knz (was out/../T./abc.knz = T./abc.knz)"
mkdir -p p5/T. p5/out; echo hello > p5/T./abc
(cd p5 && $K -c -i T. -o out -j 1 -v 3 | grep "Output file name"; echo "exit status ${PIPESTATUS[0]}"; find . -type f | sort)
say "P5b (repaired) -i .. -o out from a sub-directory: expected out/x1.knz (was out/../x1.knz)"
mkdir -p p5b/sub/out; echo hello > p5b/x1
(cd p5b/sub && $K -c -i .. -o out -j 1 -v 3 | grep "Output file name"; echo "exit status ${PIPESTATUS[0]}"; cd ..; find . -type f | sort)
say "P5c (repaired) -i T/.. -o out: expected out/x1.knz"
mkdir -p p5c/T p5c/out; echo hello > p5c/x1
(cd p5c && $K -c -i T/.. -o out -j 1 -v 3 | grep "Output file name"; echo "exit status ${PIPESTATUS[0]}"; find . -type f | sort)

say "O1 several files to stdout: the first stream is written, then the run fails (13 compressing, 12 decompressing)"
mkdir -p o1/T; echo a > o1/T/a; echo b > o1/T/b
$K -c -i o1/T -o stdout -j 1 | wc -c; echo "exit status ${PIPESTATUS[0]}"

say "O2 --skip-dot-files skips dot files but still descends into dot directories"
mkdir -p o2/T/.git o2/out; echo 1 > o2/T/.git/config; echo 2 > o2/T/.hidden; echo 3 > o2/T/vis
$K -c -i o2/T -o o2/out --skip-dot-files -j 1 >/dev/null; find o2/out -type f | sort
cd /; rm -rf "$W"
