/-
Proofs for the `exe` slice, part 5: the whole transform (`exeForward` / `exeInverse`).
-/
import Kanzi.Proofs.EXEARM

namespace Kanzi.EXE
open Kanzi.RLT (Out wr wr_ok wr_cases size_appendList)

theorem exeInverse_nil (v2 : Bool) (n : Nat) : exeInverse v2 [] n = .ok [] := by
  simp [exeInverse]

/-- the whole transform: an accepted block fits and is restored -/
theorem exe_roundtrip (dt : Option Nat) (src t : List Nat) (dstLen : Nat)
    (hb : ∀ x ∈ src, x < 256) (hdst : exeMaxEncodedLen src.length ≤ dstLen)
    (h : exeForward dt src dstLen = .ok t) :
    t.length ≤ exeMaxEncodedLen src.length ∧ (∀ y ∈ t, y < 256) ∧
      ∀ n, src.length ≤ n → exeInverse false t n = .ok src := by
  simp only [exeForward] at h
  split at h
  next h0 =>
    cases h
    have hs : src = [] := by
      rcases h0 with h0 | h0
      · exact List.length_eq_zero_iff.1 h0
      · exfalso; unfold exeMaxEncodedLen at hdst; split at hdst <;> omega
    subst hs
    exact ⟨by simp, by simp, fun n _ => exeInverse_nil false n⟩
  next h0 =>
    split at h
    · cases h
    next hmin =>
      split at h
      · cases h
      next hmax =>
        split at h
        · cases h
        · split at h
          · cases h
          · cases hd : detectExeType (List.take (src.length - 4) src).toArray 0 ((src.length : Int) - 8) with
            | ok d =>
              rw [hd] at h
              simp only [Kanzi.RLT.Out.bind_ok] at h
              have hmx : src.length + src.length / 50 ≤ exeMaxEncodedLen src.length := by
                unfold exeMaxEncodedLen; split <;> omega
              have hlen : src.length ≤ MAX_BLOCK_SIZE := by omega
              split at h
              · cases h
              · split at h
                · obtain ⟨h1, _, h3, h4⟩ := fwdX86_roundtrip src dstLen _ _ t hb hlen h
                  exact ⟨by omega, h3, h4⟩
                · split at h
                  · obtain ⟨h1, _, h3, h4⟩ := fwdARM_roundtrip src dstLen _ _ t hb hlen h
                    exact ⟨by omega, h3, h4⟩
                  · cases h
            | err e => rw [hd] at h; cases h
            | fault e => rw [hd] at h; cases h

/-- the ctx write-back: after a successful Forward of a non-empty block the entry is DT_EXE -/
theorem exeCtxWrite_ok (dt : Option Nat) (src t : List Nat) (dstLen : Nat)
    (hne : src ≠ []) (hd : dstLen ≠ 0) (h : exeForward dt src dstLen = .ok t) :
    exeCtxWrite dt src dstLen = some DT_EXE := by
  have h' := h
  have hl : src.length ≠ 0 := fun h0 => hne (List.length_eq_zero_iff.1 h0)
  simp only [exeForward] at h
  rw [if_neg (by omega)] at h
  split at h
  · cases h
  next hmin =>
    split at h
    · cases h
    next hmax =>
      split at h
      · cases h
      next hdst =>
        split at h
        · cases h
        next hdt =>
          cases hdet : detectExeType (List.take (src.length - 4) src).toArray 0 ((src.length : Int) - 8) with
          | ok d =>
            rw [hdet] at h
            simp only [Kanzi.RLT.Out.bind_ok] at h
            split at h
            · cases h
            next hnot =>
              simp only [exeCtxWrite]
              rw [if_neg (by
                intro hc
                rcases hc with hc | hc | hc | hc | hc | hc
                · exact hl hc
                · exact hd hc
                · exact hmin hc
                · exact hmax hc
                · exact hdst hc
                · exact hdt hc)]
              simp only [hdet, hnot, if_false, h']
          | err e => rw [hdet] at h; cases h
          | fault e => rw [hdet] at h; cases h

end Kanzi.EXE
