package main

// binent: correspondence stream for the generic binary arithmetic coder
// (v2/entropy/BinaryEntropyCodec.go: BinaryEntropyEncoder / BinaryEntropyDecoder), property C12.
//
// (a) differential ops: the REAL coder is driven through its public API with table-driven test
//     predictors that are implemented identically in the Lean driver (lean/Kanzi/Drv/BinEnt.lean);
//     the canonical answer contains the produced bytes in hex, which the Lean model must reproduce
//     bit for bit, and the verdict of decoding them again (+ a 64-bit sentinel read back).
//       enc <pred> <hex|->          ok bits=<n> <hex> dec=<ok|BAD|panic:..|err:..> | panic:index
//       dec <pred> <count> <hex|->  ok <hex|-> read=<bits> | panic:index | panic:eos | err:invalid
//       cmenc <hex|->               ok bits=<n> <hex> dec=..    (REAL CM codec; Lean = coder model + CM predictor model)
// (b) oracle-only ops with the real predictors (answer is always "ok"; failures are reported as
//     violations): round trip, exact consumption, sentinel.
//       real <CM|TPAQ|TPAQX> <size> <shape> <seed>      (shape "adv" = greedy least-likely-bit block,
//                                                          "straddle" = keep the interval across a multiple of 2^24)
//       big <pred> <count> <seed>                        (multi-chunk: count >= 64 MiB, thorough tier)

import (
	"bytes"
	"fmt"
	"math/rand"
	"strconv"
	"strings"

	kanzi "github.com/flanglet/kanzi-go/v2"
	"github.com/flanglet/kanzi-go/v2/entropy"
	"kverif/internal/gen"
)

func init() {
	registerStream(&Stream{
		Name: "binent",
		Rule: "cmenc: the real CM codec (coder + CMPredictor) on random / structured / greedy adversarial blocks, bytes predicted by coder model + CM predictor model; enc: block sizes 0,1,2,3,7,8,9,62..66,71,72,100,255..257,1000,4096 (thorough: up to 20000) x data shapes (zeros, ones, random, skewed, text, alternating, runs) x test predictors (constant 0/1/2/100/2048/4000/4094/4095, alternating extremes, adaptive order-0 / bitwise order-1 counters of every rate, LCG emitting 0/1/2/2048/4093/4094/4095, out-of-range constants 4096..2^20); dec: valid streams with bit flips / truncation / forged payload sizes, random bytes; real: CM/TPAQ/TPAQX predictors on generated shapes and on greedy adversarial blocks (least likely bit each time); big: one multi-chunk block (thorough). distinct_nontrivial = distinct enc/dec ops whose answer starts with ok, plus real/big runs that completed.",
		Gen:  beGen,
		Exec: beExec,
	})
}

// ---------- test predictors (mirror lean/Kanzi/Drv/BinEnt.lean) ----------

type beConst struct{ p int }

func (c *beConst) Get() int      { return c.p }
func (c *beConst) Update(b byte) {}

type beAlt struct {
	p, q int
	t    uint64
}

func (a *beAlt) Get() int {
	if a.t%2 == 0 {
		return a.p
	}
	return a.q
}
func (a *beAlt) Update(b byte) { a.t++ }

func beCtr(sh uint, c int, b byte) int {
	if b != 0 {
		return c + ((65536 - c) >> sh)
	}
	return c - (c >> sh)
}

type beO0 struct {
	sh uint
	c  int
}

func (o *beO0) Get() int      { return o.c >> 4 }
func (o *beO0) Update(b byte) { o.c = beCtr(o.sh, o.c, b) }

type beO1 struct {
	sh  uint
	ctx int
	c   [256]int
}

func (o *beO1) Get() int { return o.c[o.ctx] >> 4 }
func (o *beO1) Update(b byte) {
	o.c[o.ctx] = beCtr(o.sh, o.c[o.ctx], b)
	o.ctx = 2*o.ctx + int(b)
	if o.ctx >= 256 {
		o.ctx = 1
	}
}

var beLcgTab = [8]int{0, 1, 2, 2048, 4093, 4094, 4095, 1000}

type beLcg struct{ x uint32 }

func (l *beLcg) Get() int      { return beLcgTab[(l.x>>28)&7] }
func (l *beLcg) Update(b byte) { l.x = l.x*1664525 + 1013904223 + uint32(b) }

// bePred builds a fresh predictor from its spec; inRange = every Get() is within [0,4095]
func bePred(spec string) (p kanzi.Predictor, inRange bool, ok bool) {
	f := strings.Split(spec, ":")
	num := func(i int) (int, bool) {
		if i >= len(f) {
			return 0, false
		}
		v, err := strconv.ParseUint(f[i], 10, 62)
		return int(v), err == nil
	}
	switch f[0] {
	case "c":
		v, o := num(1)
		if !o || len(f) != 2 {
			return nil, false, false
		}
		return &beConst{v}, v <= 4095, true
	case "a":
		v, o1 := num(1)
		w, o2 := num(2)
		if !o1 || !o2 || len(f) != 3 {
			return nil, false, false
		}
		return &beAlt{p: v, q: w}, v <= 4095 && w <= 4095, true
	case "o0":
		v, o := num(1)
		if !o || len(f) != 2 || v > 62 {
			return nil, false, false
		}
		return &beO0{sh: uint(v), c: 32768}, v >= 1, true
	case "o1":
		v, o := num(1)
		if !o || len(f) != 2 || v > 62 {
			return nil, false, false
		}
		p := &beO1{sh: uint(v), ctx: 1}
		for i := range p.c {
			p.c[i] = 32768
		}
		return p, v >= 1, true
	case "lcg":
		v, o := num(1)
		if !o || len(f) != 2 {
			return nil, false, false
		}
		return &beLcg{uint32(v)}, true, true
	}
	return nil, false, false
}

func beRealPred(name string, size int) (kanzi.Predictor, error) {
	switch name {
	case "CM":
		return entropy.NewCMPredictor(nil)
	case "TPAQ", "TPAQX":
		bs := uint(65536)
		for int(bs) < size {
			bs <<= 1
		}
		ctx := map[string]any{"blockSize": bs, "size": uint(size), "entropy": name}
		return entropy.NewTPAQPredictor(&ctx)
	}
	return nil, fmt.Errorf("unknown predictor %s", name)
}

func bePanicTok(r any) string {
	s := fmt.Sprint(r)
	switch {
	case strings.Contains(s, "out of range"):
		return "panic:index"
	case strings.Contains(s, "No more data"), strings.Contains(s, "EOF"), strings.Contains(s, "closed"):
		return "panic:eos"
	}
	return "panic:other:" + strings.ReplaceAll(s, " ", "_")
}

// beEncode runs the real encoder (Write + Dispose) and appends the sentinel.
// tok != "" when the encoder failed.
func beEncode(p kanzi.Predictor, blk []byte) (item []byte, bits uint64, full []byte, tok string) {
	obs, sink := esNewOBS()
	func() {
		defer func() {
			if r := recover(); r != nil {
				tok = bePanicTok(r)
			}
		}()
		enc, err := entropy.NewBinaryEntropyEncoder(obs, p)
		if err != nil {
			tok = "err:new"
			return
		}
		n, err := enc.Write(blk)
		if err != nil || n != len(blk) {
			tok = "err:size"
			return
		}
		enc.Dispose()
		enc.Dispose() // idempotent
	}()
	if tok != "" {
		return
	}
	bits = obs.Written()
	obs.WriteBits(esSentinel, 64)
	obs.Close()
	full = append([]byte{}, sink.Bytes()...)
	item = full[:(bits+7)/8]
	if bits%8 != 0 {
		item = append([]byte{}, item...)
		item[len(item)-1] &= byte(0xFF << (8 - bits%8))
	}
	return
}

// beDecode runs the real decoder on `full`; returns the block, the bits consumed and a token
// ("" = no error / panic)
func beDecode(p kanzi.Predictor, full []byte, count int) (out []byte, read uint64, sentinelOK bool, tok string) {
	ibs := esNewIBS(full)
	out = make([]byte, count)
	func() {
		defer func() {
			if r := recover(); r != nil {
				tok = bePanicTok(r)
			}
		}()
		dec, err := entropy.NewBinaryEntropyDecoder(ibs, p)
		if err != nil {
			tok = "err:new"
			return
		}
		n, err := dec.Read(out)
		if err != nil {
			if strings.Contains(err.Error(), "Invalid bitstream") {
				tok = "err:invalid"
			} else {
				tok = "err:size"
			}
			return
		}
		if n != count {
			tok = "err:count"
			return
		}
		dec.Dispose()
	}()
	if tok != "" {
		return
	}
	read = ibs.Read()
	func() {
		defer func() { recover() }()
		sentinelOK = ibs.ReadBits(64) == esSentinel
	}()
	return
}

func beExec(op string, res *Result) (out string) {
	defer func() {
		if r := recover(); r != nil {
			out = "panic"
			esViol(res, "entropy.BinaryEntropyCodec", "panic", fmt.Sprint(r))
		}
	}()
	w := strings.Fields(op)
	if len(w) == 0 {
		return "bad-op"
	}
	res.Tags = append(res.Tags, "op:"+w[0])
	switch w[0] {
	case "enc":
		if len(w) != 3 {
			return "bad-op"
		}
		blk, ok := esUnhex(w[2])
		p, inRange, okp := bePred(w[1])
		if !ok || !okp {
			return "bad-op"
		}
		res.Tags = append(res.Tags, "pred:"+strings.Split(w[1], ":")[0])
		if !inRange {
			res.Tags = append(res.Tags, "pred-out-of-range")
		}
		item, bits, full, tok := beEncode(p, blk)
		if tok != "" {
			res.Tags = append(res.Tags, "enc:"+tok)
			// since the repair d8b7b56 (F36) flush grows the buffer: the encoder must not fail any more
			if inRange {
				site, sym := "entropy.BinaryEntropyEncoder.Write", "fault"
				if tok == "panic:index" {
					site, sym = "entropy.BinaryEntropyEncoder.flush", "buffer-overrun"
				}
				esViol(res, site, sym, fmt.Sprintf("%s: %s", op[:min(len(op), 80)], tok))
			}
			return tok
		}
		p2, _, _ := bePred(w[1])
		dec, read, sok, dtok := beDecode(p2, full, len(blk))
		d := "ok"
		switch {
		case dtok != "":
			d = dtok
		case !bytes.Equal(dec, blk) || read != bits || !sok:
			d = "BAD"
		}
		res.Tags = append(res.Tags, "dec:"+d)
		if d == "err:invalid" && inRange {
			// a synthetic predictor that is confidently wrong makes a chunk at least double: the repaired
			// decoder (f731923) rejects it (C12_binary_reject / C12_binary_expansion_limit); a violation
			// only for the real predictors (ops `real`, `cmenc`)
			res.Tags = append(res.Tags, "expansion-limit")
		} else if d != "ok" && inRange {
			if len(blk) == 0 && dtok == "" && read < bits {
				// known finding F11 (0-length block: Dispose writes 56 bits nobody reads): reported once per
				// real predictor by the `real <P> 0 ...` ops; here only tagged (the list of violations is capped)
				res.Tags = append(res.Tags, "f11-empty-block")
			} else {
				esViol(res, "entropy.BinaryEntropyDecoder.Read", "roundtrip-mismatch",
					fmt.Sprintf("%s: decode verdict %s (wrote %d bits, read %d)", op[:min(len(op), 80)], d, bits, read))
			}
		}
		res.Nontrivial = true
		res.Sample = map[string]any{"op": "enc", "pred": w[1], "len": len(blk), "bits": bits}
		return fmt.Sprintf("ok bits=%d %s dec=%s", bits, esHex(item), d)
	case "cmenc":
		// the real CM codec (binary coder + CMPredictor): the Lean side composes the coder model with the
		// CM predictor model (lean/Kanzi/Model/CM.lean) and must produce the same bytes
		if len(w) != 2 {
			return "bad-op"
		}
		blk, ok := esUnhex(w[1])
		if !ok {
			return "bad-op"
		}
		p, err := entropy.NewCMPredictor(nil)
		if err != nil {
			return "err:new"
		}
		item, bits, full, tok := beEncode(p, blk)
		if tok != "" {
			esViol(res, "entropy.BinaryEntropyEncoder.Write", "fault", fmt.Sprintf("%s: %s", op[:min(len(op), 80)], tok))
			return tok
		}
		p2, _ := entropy.NewCMPredictor(nil)
		dec, read, sok, dtok := beDecode(p2, full, len(blk))
		d := "ok"
		switch {
		case dtok != "":
			d = dtok
		case !bytes.Equal(dec, blk) || read != bits || !sok:
			d = "BAD"
		}
		if d != "ok" {
			if len(blk) == 0 && dtok == "" && read < bits {
				res.Tags = append(res.Tags, "f11-empty-block")
			} else {
				esViol(res, "entropy.BinaryEntropyDecoder.Read", "roundtrip-mismatch",
					fmt.Sprintf("%s: decode verdict %s (wrote %d bits, read %d)", op[:min(len(op), 80)], d, bits, read))
			}
		}
		res.Nontrivial = true
		res.Sample = map[string]any{"op": "cmenc", "len": len(blk), "bits": bits}
		return fmt.Sprintf("ok bits=%d %s dec=%s", bits, esHex(item), d)
	case "dec":
		if len(w) != 4 {
			return "bad-op"
		}
		count, err := strconv.Atoi(w[2])
		stream, ok := esUnhex(w[3])
		p, _, okp := bePred(w[1])
		if err != nil || !ok || !okp || count < 0 {
			return "bad-op"
		}
		dec, read, _, tok := beDecode(p, stream, count)
		if tok != "" {
			res.Tags = append(res.Tags, "dec:"+tok)
			return tok
		}
		res.Nontrivial = true
		res.Tags = append(res.Tags, "dec:ok")
		return fmt.Sprintf("ok %s read=%d", esHex(dec), read)
	case "real":
		if len(w) != 5 {
			return "bad-op"
		}
		size, e1 := strconv.Atoi(w[2])
		seed, e2 := strconv.ParseInt(w[4], 10, 64)
		if e1 != nil || e2 != nil {
			return "bad-op"
		}
		res.Tags = append(res.Tags, "pred:"+w[1], "shape:"+w[3])
		var blk []byte
		if w[3] == "adv" {
			blk = beAdversarial(w[1], size, seed)
		} else if w[3] == "straddle" {
			blk = beStraddle(w[1], size, uint32(seed))
		} else {
			var ok bool
			blk, ok = gen.Generate(w[3], size, seed, 4096)
			if !ok {
				return "bad-op"
			}
		}
		beRealRun(w[1], blk, op, res)
		return "ok"
	case "big":
		if len(w) != 4 {
			return "bad-op"
		}
		count, e1 := strconv.Atoi(w[2])
		seed, e2 := strconv.ParseUint(w[3], 10, 64)
		if e1 != nil || e2 != nil {
			return "bad-op"
		}
		blk := make([]byte, count)
		x := seed | 1
		for i := range blk {
			x ^= x << 13
			x ^= x >> 7
			x ^= x << 17
			blk[i] = byte(x>>32) & byte(x>>40) // skewed towards 0 bits
		}
		p, _, okp := bePred(w[1])
		if !okp {
			return "bad-op"
		}
		obs, sink := esNewOBS()
		log := &esLogOBS{inner: obs}
		enc, _ := entropy.NewBinaryEntropyEncoder(log, p)
		if _, err := enc.Write(blk); err != nil {
			esViol(res, "entropy.BinaryEntropyEncoder.Write", "fault", err.Error())
			return "ok"
		}
		enc.Dispose()
		bits := obs.Written()
		obs.WriteBits(esSentinel, 64)
		obs.Close()
		arrays, trailers := 0, 0
		for _, c := range log.calls {
			if c.kind == 'A' {
				arrays++
			}
			if c.kind == 'B' && c.count == 56 {
				trailers++
			}
		}
		length := count
		if count >= 1<<26 {
			if count < 8<<26 {
				length = count >> 3
			} else {
				length = count >> 4
			}
		}
		want := (count + length - 1) / length
		if arrays != want || trailers != want {
			esViol(res, "entropy.BinaryEntropyEncoder.Write", "chunking", fmt.Sprintf("count=%d: %d arrays, %d trailers, expected %d chunks", count, arrays, trailers, want))
		}
		p2, _, _ := bePred(w[1])
		dec, read, sok, tok := beDecode(p2, sink.Bytes(), count)
		if tok != "" || !bytes.Equal(dec, blk) || read != bits || !sok {
			esViol(res, "entropy.BinaryEntropyDecoder.Read", "roundtrip-mismatch", fmt.Sprintf("multi-chunk count=%d: tok=%q read=%d written=%d sentinel=%v", count, tok, read, bits, sok))
		}
		res.Nontrivial = true
		res.Tags = append(res.Tags, fmt.Sprintf("chunks:%d", want))
		res.Sample = map[string]any{"op": "big", "count": count, "chunks": want, "bits": bits}
		return "ok"
	}
	return "bad-op"
}

// greedy adversary: every bit is the one the predictor finds less likely
func beAdversarial(name string, size int, seed int64) []byte {
	p, err := beRealPred(name, size)
	if err != nil {
		return nil
	}
	r := rand.New(rand.NewSource(seed))
	blk := make([]byte, size)
	for i := range blk {
		var b byte
		for k := 0; k < 8; k++ {
			pr := p.Get()
			bit := byte(0)
			if pr < 2048 || (pr == 2048 && seed != 0 && r.Intn(2) == 0) {
				bit = 1
			}
			p.Update(bit)
			b = b<<1 | bit
		}
		blk[i] = b
	}
	return blk
}

func beRealRun(name string, blk []byte, op string, res *Result) {
	p, err := beRealPred(name, len(blk))
	if err != nil {
		esViol(res, "entropy.New"+name+"Predictor", "fault", err.Error())
		return
	}
	_, bits, full, tok := beEncode(p, blk)
	if tok != "" {
		res.Tags = append(res.Tags, "enc:"+tok)
		if tok == "panic:index" {
			res.Tags = append(res.Tags, "real-overrun:"+name)
			l := max(len(blk), 64)
			esViol(res, "entropy.BinaryEntropyEncoder.flush", "buffer-overrun",
				fmt.Sprintf("%s: block of %d bytes needs more than the %d-byte buffer (length + length>>3): index out of range in flush", op, len(blk), l+l>>3))
		} else {
			esViol(res, "entropy.BinaryEntropyEncoder.Write", "fault", op+": "+tok)
		}
		return
	}
	p2, _ := beRealPred(name, len(blk))
	dec, read, sok, dtok := beDecode(p2, full, len(blk))
	switch {
	case dtok != "":
		esViol(res, "entropy.BinaryEntropyDecoder.Read", "fault", op+": "+dtok)
	case len(blk) == 0 && read < bits:
		esViol(res, "entropy.BinaryEntropyEncoder.Dispose", "empty-block-extra-bits",
			fmt.Sprintf("%s, 0-length block: encoder wrote %d bits (Dispose flushes the arithmetic coder state), decoder consumed %d", name, bits, read))
	case !bytes.Equal(dec, blk):
		esViol(res, "entropy.BinaryEntropyDecoder.Read", "roundtrip-mismatch", op+": decoded block differs")
	case read != bits:
		esViol(res, "entropy.BinaryEntropyDecoder.Read", "bits-consumed", fmt.Sprintf("%s: encoder wrote %d bits, decoder consumed %d", op, bits, read))
	case !sok:
		esViol(res, "entropy.BinaryEntropyDecoder.Read", "sentinel", op+": 64-bit word after the block not read back")
	}
	res.Nontrivial = true
	if len(blk) >= 32 {
		// expansion of the payload (VarInt + bytes + trailer) in twentieths: the decoder rejects from 2.0 on
		res.Tags = append(res.Tags, fmt.Sprintf("exp:%s:%.2f", name, float64(int(20*float64(bits)/8/float64(len(blk))))/20))
	}
	res.Sample = map[string]any{"op": "real", "pred": name, "len": len(blk), "bits": bits}
}

// straddle adversary against a real predictor (exact simulation of BinaryEntropyEncoder.EncodeBit):
// every bit is chosen so that the coder's interval keeps containing a multiple of 2^24 (no flush
// although the range shrinks below 2^24); when both halves do, the less likely bit is taken; once the
// range is below 16 the split is 0 and a 1 bit collapses the interval and forces the flush.
func beStraddle(name string, size int, salt uint32) []byte {
	p, err := beRealPred(name, size)
	if err != nil {
		return nil
	}
	const m56 = uint64(1)<<56 - 1
	low, high := uint64(0), m56
	blk := make([]byte, size)
	x := salt
	for i := range blk {
		var b byte
		for k := 0; k < 8; k++ {
			pr := p.Get()
			split := (((high - low) >> 4) * uint64(pr)) >> 8
			l56, h56 := low&m56, high&m56
			lo1, hi1 := l56, l56+split
			lo0, hi0 := l56+split+1, h56
			s1 := lo1>>24 != hi1>>24
			s0 := lo0>>24 != hi0>>24
			r1, r0 := hi1-lo1, hi0-lo0
			bit := byte(0)
			switch {
			case r1 == 0:
				bit = 1
			case s1 && s0:
				x = x*1664525 + 1013904223
				if salt != 0 && x>>28 == 0 {
					bit = byte(x>>27) & 1
				} else if r1 <= r0 {
					bit = 1
				}
			case s1:
				bit = 1
			case s0:
				bit = 0
			default:
				if r1 <= r0 {
					bit = 1
				}
			}
			if bit == 0 {
				low += split + 1
			} else {
				high = low + split
			}
			p.Update(bit)
			if (low ^ high) < 1<<24 {
				low <<= 32
				high = high<<32 | 0xFFFFFFFF
			}
			b = b<<1 | bit
		}
		blk[i] = b
	}
	return blk
}

// ---------- generator ----------

func beData(r *rand.Rand, shape, n int) []byte {
	b := make([]byte, n)
	switch shape {
	case 0: // zeros
	case 1:
		for i := range b {
			b[i] = 0xFF
		}
	case 2:
		r.Read(b)
	case 3: // skewed
		for i := range b {
			b[i] = byte(int(r.ExpFloat64() * 5))
		}
	case 4: // text-like
		for i := range b {
			b[i] = "etaoin shrdlu,.\nETAOIN"[r.Intn(22)]
		}
	case 5: // alternating bits
		for i := range b {
			b[i] = 0x55 << uint(i&1)
		}
	default: // runs
		v := byte(r.Intn(256))
		for i := range b {
			if r.Intn(12) == 0 {
				v = byte(r.Intn(256))
			}
			b[i] = v
		}
	}
	return b
}

var beShapeNames = []string{"zeros", "ones", "random", "skewed", "text", "alt", "runs"}

func beGen(r *rand.Rand, tier string, n int, emit func(op string, tags ...string)) {
	thorough := tier == "thorough"
	preds := []string{"c:0", "c:1", "c:2", "c:100", "c:2048", "c:4000", "c:4094", "c:4095",
		"a:0:4095", "a:4095:0", "a:1:4094", "a:2048:3",
		"o0:1", "o0:2", "o0:3", "o0:4", "o0:5", "o0:6", "o0:7", "o0:12",
		"o1:1", "o1:2", "o1:4", "o1:5", "o1:7"}
	sizes := []int{0, 1, 2, 3, 7, 8, 9, 62, 63, 64, 65, 66, 71, 72, 100, 255, 256, 257, 1000, 4096}
	if thorough {
		sizes = append(sizes, 2000, 8191, 20000)
	}
	for _, sz := range sizes {
		for _, p := range preds {
			for sh := 0; sh < 7; sh++ {
				if sz == 0 && sh > 0 {
					continue
				}
				if !thorough && sz > 300 && (sh+len(p)+sz)%3 != 0 {
					continue
				}
				emit(fmt.Sprintf("enc %s %s", p, esHex(beData(r, sh, sz))),
					"family:enc-grid", "shape:"+beShapeNames[sh], fmt.Sprintf("size:%d", sz))
			}
		}
	}
	// LCG predictors (extreme probabilities, many flushes, buffer overruns)
	nl := 300
	if thorough {
		nl = 3000
	}
	for i := 0; i < nl; i++ {
		sz := []int{1, 2, 3, 5, 8, 16, 40, 63, 64, 65, 100, 300, 1000}[r.Intn(13)]
		emit(fmt.Sprintf("enc lcg:%d %s", r.Uint32(), esHex(beData(r, r.Intn(7), sz))), "family:enc-lcg", fmt.Sprintf("size:%d", sz))
	}
	// random sizes and predictors
	nr := 400
	if thorough {
		nr = 6000
	}
	for i := 0; i < nr; i++ {
		sz := r.Intn(200)
		if r.Intn(4) == 0 {
			sz = 56 + r.Intn(20)
		}
		if r.Intn(10) == 0 {
			sz = 200 + r.Intn(3000)
		}
		p := preds[r.Intn(len(preds))]
		switch r.Intn(6) {
		case 0:
			p = fmt.Sprintf("c:%d", r.Intn(4096))
		case 1:
			p = fmt.Sprintf("a:%d:%d", r.Intn(4096), r.Intn(4096))
		}
		emit(fmt.Sprintf("enc %s %s", p, esHex(beData(r, r.Intn(7), sz))), "family:enc-random")
	}
	// the real CM codec against coder model + CM predictor model
	// (the CM predictor model updates immutable tables: about 0.1 s per 100-byte block in the Lean driver)
	ncm := 80
	if thorough {
		ncm = 600
	}
	for _, sz := range []int{0, 1, 2, 63, 64, 65, 67, 71, 300} {
		emit("cmenc "+esHex(beAdversarial("CM", sz, 0)), "family:cmenc-adversarial")
	}
	for i := 0; i < ncm; i++ {
		sz := r.Intn(120)
		if r.Intn(10) == 0 {
			sz = 120 + r.Intn(900)
		}
		emit("cmenc "+esHex(beData(r, r.Intn(7), sz)), "family:cmenc")
	}
	// out-of-range predictors: the model must still predict the bytes (no oracle)
	for _, p := range []string{"c:4096", "c:4097", "c:5000", "c:65535", "c:1048576", "a:4096:0", "a:0:4096", "a:8191:2048", "o0:0", "o1:0", "c:4611686018427387903"} {
		for _, sz := range []int{1, 2, 8, 64, 100} {
			for sh := 0; sh < 7; sh++ {
				emit(fmt.Sprintf("enc %s %s", p, esHex(beData(r, sh, sz))), "family:enc-out-of-range")
			}
		}
	}
	// decoder on damaged / forged / random streams
	nd := 600
	if thorough {
		nd = 8000
	}
	for i := 0; i < nd; i++ {
		p := preds[r.Intn(len(preds))]
		if r.Intn(5) == 0 {
			p = fmt.Sprintf("lcg:%d", r.Uint32())
		}
		sz := 1 + r.Intn(120)
		if r.Intn(8) == 0 {
			sz = 1 + r.Intn(600)
		}
		blk := beData(r, r.Intn(7), sz)
		pp, _, _ := bePred(p)
		_, bits, full, tok := beEncode(pp, blk)
		var stream []byte
		fam := "family:dec-random"
		count := sz
		switch {
		case tok != "" || r.Intn(6) == 0:
			stream = make([]byte, 8+r.Intn(100))
			r.Read(stream)
			if r.Intn(2) == 0 { // plausible small payload size
				stream[0] = byte(r.Intn(int(min(len(stream), 127))))
			}
		default:
			stream = append([]byte{}, full[:bits/8]...)
			switch r.Intn(6) {
			case 0: // intact (+ junk)
				fam = "family:dec-intact"
				for k := r.Intn(9); k > 0; k-- {
					stream = append(stream, byte(r.Intn(256)))
				}
			case 1: // truncated
				fam = "family:dec-truncated"
				stream = stream[:r.Intn(len(stream))]
			case 2: // bit flip
				fam = "family:dec-bitflip"
				k := r.Intn(len(stream) * 8)
				stream[k/8] ^= 0x80 >> uint(k%8)
			case 3: // forged payload size
				fam = "family:dec-forged-size"
				stream[0] = byte(r.Intn(256))
			case 4: // wrong count
				fam = "family:dec-wrong-count"
				count = r.Intn(2*sz + 2)
			default: // several flips + junk
				fam = "family:dec-flips"
				for k := 1 + r.Intn(4); k > 0; k-- {
					j := r.Intn(len(stream) * 8)
					stream[j/8] ^= 0x80 >> uint(j%8)
				}
				stream = append(stream, make([]byte, r.Intn(40))...)
			}
		}
		emit(fmt.Sprintf("dec %s %d %s", p, count, esHex(stream)), fam)
	}
	emit("dec c:2048 0 -", "family:dec-directed")
	emit("dec c:2048 1 -", "family:dec-directed")
	emit("dec c:2048 1 00", "family:dec-directed")
	emit("dec c:2048 1 0000000000000000", "family:dec-directed")
	emit("dec c:2048 1 49"+strings.Repeat("00", 90), "family:dec-directed")       // 73 > bufSize 72
	emit("dec c:2048 1 48"+strings.Repeat("00", 90), "family:dec-directed")       // 72 = bufSize
	emit("dec c:2048 100 71"+strings.Repeat("ab", 200), "family:dec-directed")    // 113 > 112
	emit("dec c:2048 100 70"+strings.Repeat("ab", 200), "family:dec-directed")    // 112
	emit("dec c:0 70 00"+strings.Repeat("00", 7), "family:dec-directed")          // reads past an empty payload
	emit("dec c:0 3 08"+strings.Repeat("00", 15), "family:dec-directed")
	emit("dec c:2048 5 ffffffff0f"+strings.Repeat("11", 40), "family:dec-directed") // 5-byte varint
	// real predictors
	shapes := []string{"text", "random", "runs", "skew-3-200", "alpha16", "dna", "wave", "exe-elf", "mixedsafe", "uniqwords", "fib"}
	known := map[string]bool{}
	for _, s := range gen.ShapeNames() {
		known[s] = true
	}
	var use []string
	for _, s := range shapes {
		if known[s] {
			use = append(use, s)
		}
	}
	if len(use) < 4 {
		use = gen.ShapeNames()
	}
	// (each TPAQ predictor allocates > 20 MB: the quick tier keeps this family small)
	rsizes := []int{0, 1, 64, 65, 1000, 5000}
	if thorough {
		rsizes = append(rsizes, 2, 3, 15, 16, 17, 63, 255, 256, 4096, 65536, 300000)
	}
	for _, name := range []string{"CM", "TPAQ", "TPAQX"} {
		// TPAQ touches > 20 MB of tables per predictor instance (slow first-touch page faults in a VM):
		// the quick tier keeps only a handful of TPAQ/TPAQX runs
		heavy := name != "CM"
		for _, sz := range rsizes {
			for k, s := range use {
				if sz == 0 && k > 0 { // the empty block (known finding F11): once per predictor
					continue
				}
				if !thorough && ((k+sz)%4 != 0 || (heavy && (sz > 1000 || (k+sz)%8 != 0))) {
					continue
				}
				emit(fmt.Sprintf("real %s %d %s %d", name, sz, s, r.Int63n(1<<40)), "family:real", "pred:"+name)
			}
		}
		// greedy adversarial blocks (seed 0 = deterministic tie break)
		advSizes := []int{1, 63, 64, 65, 67, 71, 75, 100}
		if heavy {
			advSizes = []int{64, 67, 71}
		}
		if thorough {
			advSizes = advSizes[:0]
			for sz := 1; sz <= 400; sz++ {
				advSizes = append(advSizes, sz)
			}
		}
		for _, sz := range advSizes {
			emit(fmt.Sprintf("real %s %d adv 0", name, sz), "family:real-adversarial", "pred:"+name)
		}
		// straddle adversary (search for an expansion >= 2, which the decoder would reject)
		strSizes := []int{40, 64, 100, 1500}
		if heavy {
			strSizes = []int{64, 1500}
		}
		if thorough {
			strSizes = []int{32, 40, 64, 71, 100, 128, 200, 256, 500, 1024, 1500, 4096, 20000}
		}
		for _, sz := range strSizes {
			emit(fmt.Sprintf("real %s %d straddle 0", name, sz), "family:real-straddle", "pred:"+name)
			if thorough {
				for k := 0; k < 3; k++ {
					emit(fmt.Sprintf("real %s %d straddle %d", name, sz, 1+r.Int63n(1<<31)), "family:real-straddle", "pred:"+name)
				}
			}
		}
	}
	if thorough {
		emit(fmt.Sprintf("big o0:5 %d %d", 1<<26+5, r.Int63n(1<<40)), "family:big")
	}
	_ = n
}
