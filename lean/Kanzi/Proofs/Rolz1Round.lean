/-
ROLZ (`rolzCodec1`): the decoder follows the encoder through the sequences of a chunk.  The encoder visits the
positions of a literal run one by one (registering each, skipping ahead as the run grows) until it finds a
match; the decoder gets the run as a whole (token, literals) and re-registers the same positions in one loop
(`regRun`).  `Cont` ties the two: the decoder's loop, resumed at the encoder's current position with the tables
the encoder's visits imply, gives what the loop started at the run start gives.
-/
import Kanzi.Proofs.Rolz1Seq

namespace Kanzi.ROLZ

/-! ## the cases of one encoder step -/

theorem fwd1Step_cases {a : Array Nat} {cp : Caps} {base lim mm delta lpc : Nat} {l l' : L1}
    (h : fwd1Step a cp base lim mm delta lpc l = .ok l') :
    ∃ key w, getKey mm delta a base lim l.i = some key ∧ le32 a a.size l.i = some w ∧
      ((findMatch1 a base lim l.i (rolzhashW w) key mm lpc l.st.tab = .ok none ∧
          l' = ⟨l.i + 1 + (l.inc >>> 6), l.first, l.inc + 1,
            ⟨l.st.tab.register lpc key (rolzhashW w + (l.i - base)), l.st.lit, l.st.len, l.st.mix, l.st.tk⟩⟩) ∨
       (∃ mi ml key1 w1 r1 s', findMatch1 a base lim l.i (rolzhashW w) key mm lpc l.st.tab = .ok (some (mi, ml)) ∧
          getKey mm delta a base lim (l.i + 1) = some key1 ∧ le32 a a.size (l.i + 1) = some w1 ∧
          findMatch1 a base lim (l.i + 1) (rolzhashW w1) key1 mm lpc
            (l.st.tab.register lpc key (rolzhashW w + (l.i - base))) = .ok r1 ∧
          emitSeq a cp l.first
            (lazyPick l.i mi ml r1 (l.st.tab.register lpc key (rolzhashW w + (l.i - base))) lpc key1
              (rolzhashW w1 + (l.i + 1 - base))).1
            (lazyPick l.i mi ml r1 (l.st.tab.register lpc key (rolzhashW w + (l.i - base))) lpc key1
              (rolzhashW w1 + (l.i + 1 - base))).2.1
            (lazyPick l.i mi ml r1 (l.st.tab.register lpc key (rolzhashW w + (l.i - base))) lpc key1
              (rolzhashW w1 + (l.i + 1 - base))).2.2.1
            ⟨(lazyPick l.i mi ml r1 (l.st.tab.register lpc key (rolzhashW w + (l.i - base))) lpc key1
              (rolzhashW w1 + (l.i + 1 - base))).2.2.2, l.st.lit, l.st.len, l.st.mix, l.st.tk⟩ = .ok s' ∧
          l' = ⟨(lazyPick l.i mi ml r1 (l.st.tab.register lpc key (rolzhashW w + (l.i - base))) lpc key1
                (rolzhashW w1 + (l.i + 1 - base))).1 +
              (lazyPick l.i mi ml r1 (l.st.tab.register lpc key (rolzhashW w + (l.i - base))) lpc key1
                (rolzhashW w1 + (l.i + 1 - base))).2.2.1 + mm,
            (lazyPick l.i mi ml r1 (l.st.tab.register lpc key (rolzhashW w + (l.i - base))) lpc key1
                (rolzhashW w1 + (l.i + 1 - base))).1 +
              (lazyPick l.i mi ml r1 (l.st.tab.register lpc key (rolzhashW w + (l.i - base))) lpc key1
                (rolzhashW w1 + (l.i + 1 - base))).2.2.1 + mm, 0, s'⟩)) := by
  unfold fwd1Step at h
  dsimp only at h
  split at h
  · rename_i key w hkey hw
    refine ⟨key, w, hkey, hw, ?_⟩
    split at h
    · rename_i hfm
      injection h with h
      exact Or.inl ⟨hfm, h.symm⟩
    · rename_i mi ml hfm
      right
      split at h
      · rename_i key1 w1 hkey1 hw1
        split at h
        · rename_i r1 hr1
          split at h
          · rename_i s' hs'
            injection h with h
            exact ⟨mi, ml, key1, w1, r1, s', hfm, hkey1, hw1, hr1, hs', h.symm⟩
          · cases h
          · cases h
        · cases h
        · cases h
      · cases h
    · cases h
    · cases h
  · cases h

/-- the sequence an encoder step emits, with the lazy choice resolved: it starts at `p` (the current position or the
    next one), was found in the table `tabS` (the current table, or the one with the current position
    registered), and `p` is registered after the search -/
theorem match_pick {a : Array Nat} {base lim mm lpc : Nat} {l : L1} {key w mi ml key1 w1 : Nat} {r1 : Option (Nat × Nat)}
    (hfm : findMatch1 a base lim l.i (rolzhashW w) key mm lpc l.st.tab = .ok (some (mi, ml)))
    (hr1 : findMatch1 a base lim (l.i + 1) (rolzhashW w1) key1 mm lpc
      (l.st.tab.register lpc key (rolzhashW w + (l.i - base))) = .ok r1) :
    ∃ p mi' ml' tabS keyP wP,
      lazyPick l.i mi ml r1 (l.st.tab.register lpc key (rolzhashW w + (l.i - base))) lpc key1
        (rolzhashW w1 + (l.i + 1 - base)) = (p, mi', ml', tabS.register lpc keyP (rolzhashW wP + (p - base))) ∧
      findMatch1 a base lim p (rolzhashW wP) keyP mm lpc tabS = .ok (some (mi', ml')) ∧
      ((p = l.i ∧ tabS = l.st.tab ∧ keyP = key ∧ wP = w) ∨
       (p = l.i + 1 ∧ tabS = l.st.tab.register lpc key (rolzhashW w + (l.i - base)) ∧ keyP = key1 ∧ wP = w1)) := by
  rcases lazyPick_cases l.i mi ml r1 (l.st.tab.register lpc key (rolzhashW w + (l.i - base))) lpc key1
      (rolzhashW w1 + (l.i + 1 - base)) with hp | ⟨mi1, ml1, hr, hp⟩
  · exact ⟨l.i, mi, ml, l.st.tab, key, w, hp, hfm, Or.inl ⟨rfl, rfl, rfl, rfl⟩⟩
  · refine ⟨l.i + 1, mi1, ml1, _, key1, w1, hp, ?_, Or.inr ⟨rfl, rfl, rfl, rfl⟩⟩
    rw [hr1, hr]

/-! ## the side buffers only grow -/

/-- the four side buffers of `s` are prefixes of those of `s'` -/
structure Grow (s s' : F1) : Prop where
  lit : Pre s.lit s'.lit
  len : Pre s.len s'.len
  mix : Pre s.mix s'.mix
  tk : Pre s.tk s'.tk

theorem grow_refl (s : F1) : Grow s s := ⟨pre_refl _, pre_refl _, pre_refl _, pre_refl _⟩

theorem grow_trans {s1 s2 s3 : F1} (h1 : Grow s1 s2) (h2 : Grow s2 s3) : Grow s1 s3 :=
  ⟨pre_trans h1.lit h2.lit, pre_trans h1.len h2.len, pre_trans h1.mix h2.mix, pre_trans h1.tk h2.tk⟩

theorem emitSeq_grow {a : Array Nat} {cp : Caps} {first i mi ml : Nat} {s s' : F1}
    (h : emitSeq a cp first i mi ml s = .ok s') (hfi : first ≤ i) : Grow s s' := by
  obtain ⟨_, e1, e2, e3, e4⟩ := emitSeq_spec h hfi
  exact ⟨by rw [e4]; exact pre_appendA _ _, by rw [e3]; exact pre_appendL _ _, by rw [e2]; exact pre_appendL _ _,
    by rw [e1]; exact pre_appendL _ _⟩

theorem fwd1Step_grow {a : Array Nat} {cp : Caps} {base lim mm delta lpc : Nat} {l l' : L1}
    (h : fwd1Step a cp base lim mm delta lpc l = .ok l') (hfi : l.first ≤ l.i) : Grow l.st l'.st := by
  obtain ⟨key, w, _, _, hc⟩ := fwd1Step_cases h
  rcases hc with ⟨_, hl'⟩ | ⟨mi, ml, key1, w1, r1, s', hfm, _, _, hr1, hs', hl'⟩
  · rw [hl']; exact ⟨pre_refl _, pre_refl _, pre_refl _, pre_refl _⟩
  · obtain ⟨p, mi', ml', tabS, keyP, wP, hp, _, hcase⟩ := match_pick hfm hr1
    rw [hp] at hs'
    rw [hl']
    have hfp : l.first ≤ p := by rcases hcase with ⟨h1, _⟩ | ⟨h1, _⟩ <;> omega
    have := emitSeq_grow hs' hfp
    exact ⟨this.lit, this.len, this.mix, this.tk⟩

/-! ## the decoder reads one sequence -/

theorem extract_getD (a : Array Nat) (i j k : Nat) (hk : k < j - i) (hj : j ≤ a.size) :
    (a.extract i j).toList.getD k 0 = a.getD (i + k) 0 := by
  rw [toList_getD]
  simp only [Array.getD_eq_getD_getElem?, Array.getElem?_extract]
  rw [if_pos (by omega)]

/-- one iteration of the loop of Inverse on a sequence (literal run `[j.i, p)`, then a match of `ml + mm` bytes at
    `p` with ring index `mi`), given what the side buffers hold at the decoder's indexes and what the
    registration loop of the run produces (`T`) -/
theorem inv1Step_seq {a : Array Nat} {sd : Side} {dstEnd base lim mm delta lpc : Nat} {j : J1} {litLen ml mi p keyP : Nat}
    {T : Tab} (hpar : ParamsOk mm delta) (hmm : 3 ≤ mm ∧ mm ≤ 7)
    (htok : sd.tk.getD j.tkIdx 0 = tokOf litLen ml) (htk1 : j.tkIdx < sd.tk.size)
    (hlen : At sd.len j.lenIdx (lenBytesOf litLen ml))
    (hlen4 : j.lenIdx + (lenBytesOf litLen ml).length + 4 ≤ sd.len.size) (hll : litLen < 2 ^ 28) (hml : ml < 2 ^ 28)
    (hlit : ∀ k, k < litLen → sd.lit.getD (j.litIdx + k) 0 = a.getD (j.i + k) 0)
    (hlitsz : j.litIdx + litLen ≤ sd.lit.size) (hlitroom : (j.i - base) + litLen ≤ sd.lit.size)
    (hmix : sd.mix.getD j.mIdx 0 = mi) (hmix1 : j.mIdx < sd.mix.size) (hmi : mi < 2 ^ lpc)
    (hpos : base + 8 ≤ j.i) (hp : j.i + litLen = p) (hplim : p + ml + mm ≤ lim) (hlim : lim ≤ j.st.dst.size)
    (hdend : lim - base ≤ dstEnd)
    (hagree : ∀ k, k < j.i → j.st.dst.getD k 0 = a.getD k 0)
    (hreg : ∀ dstC : Array Nat, dstC.size = j.st.dst.size → (∀ k, k < p → dstC.getD k 0 = a.getD k 0) →
      (if litLen > 0 then regRun mm delta lpc base lim j.i litLen (litLen + 1) 0 0 ⟨j.st.tab, dstC⟩ else .ok ⟨j.st.tab, dstC⟩)
        = .ok ⟨T, dstC⟩)
    (hkey : getKey mm delta a base lim p = some keyP) (hkeylt : keyP < HASH_SIZE) (hT : TabOk T lpc)
    (hsame : Same a (base + ring T lpc keyP mi) p (ml + mm)) (hreflt : base + ring T lpc keyP mi < p) :
    ∃ dst', inv1Step sd dstEnd base lim mm delta lpc j = .ok (⟨p + ml + mm, j.litIdx + litLen,
        j.lenIdx + (lenBytesOf litLen ml).length, j.mIdx + 1, j.tkIdx + 1, ⟨T.register lpc keyP (p - base), dst'⟩⟩, false) ∧
      dst'.size = j.st.dst.size ∧ ∀ k, k < p + ml + mm → dst'.getD k 0 = a.getD k 0 := by
  have hdelta : delta ≤ 8 ∧ 2 ≤ delta := by
    rcases hpar with ⟨_, h | h⟩ | ⟨_, h⟩ <;> omega
  obtain ⟨lenIdx1, hd1, hd2⟩ := decode_lengths hlen hlen4 hll hml
  -- the destination after the copy of the literals
  obtain ⟨hcs, hcg⟩ := copyFrom_spec sd.lit lim litLen j.st.dst j.i j.litIdx (by omega) hlim
  have hagC : ∀ k, k < p → (copyFrom j.st.dst lim j.i sd.lit j.litIdx litLen).getD k 0 = a.getD k 0 := by
    intro k hk
    rw [hcg k]
    by_cases hc : j.i ≤ k ∧ k < j.i + litLen
    · rw [if_pos hc, hlit (k - j.i) (by omega)]
      congr 1; omega
    · rw [if_neg hc]
      exact hagree k (by omega)
  unfold inv1Step
  dsimp only
  rw [rd1_eq htk1, htok]
  simp only [hd1, hd2]
  -- the ring entry (stated before the case split on the literal run)
  have hslice : ¬ (keyP + 1) * 2 ^ lpc > T.mts.size := by
    rw [hT.mts]
    have : (keyP + 1) * 2 ^ lpc ≤ HASH_SIZE * 2 ^ lpc := Nat.mul_le_mul_right _ hkeylt
    omega
  have href : T.mts.getD (keyP * 2 ^ lpc + (T.counters.getD keyP 0 + 256 * 2 ^ lpc - mi) % 2 ^ lpc) 0
      = ring T lpc keyP mi := by
    unfold ring
    congr 2
    have hP : 0 < 2 ^ lpc := Nat.two_pow_pos lpc
    have e : T.counters.getD keyP 0 + 256 * 2 ^ lpc - mi = (T.counters.getD keyP 0 + 2 ^ lpc - mi) + 255 * 2 ^ lpc := by
      omega
    rw [e, Nat.add_mul_mod_self_right]
  have hr := hreg _ hcs hagC
  obtain ⟨dst', hec, hsz', hag'⟩ := emitCopy_spec a (copyFrom j.st.dst lim j.i sd.lit j.litIdx litLen) lim p
    (base + ring T lpc keyP mi) (ml + mm) hreflt (by omega) (by rw [hcs]; exact hlim) hagC hsame
  have hpp : p + (ml + mm) = p + ml + mm := by omega
  refine ⟨dst', ?_, by rw [hsz', hcs], fun k hk => hag' k (by omega)⟩
  by_cases h0 : litLen > 0
  · rw [if_pos h0] at hr
    rw [if_pos h0, if_neg (by omega), if_neg (by omega), if_neg (by omega), hr]
    simp only
    rw [if_neg (by omega), hp]
    simp only
    rw [if_neg (by omega), rd1_eq hmix1, hmix]
    simp only
    rw [getKey_agree hpar hagC, hkey]
    simp only
    rw [if_neg hslice, href, hec]
    simp only
    rw [hpp]
  · rw [if_neg h0] at hr
    have hl0 : litLen = 0 := by omega
    subst hl0
    injection hr with hr
    injection hr with hr1 hr2
    have hpi : p = j.i := by omega
    simp only [copyFrom] at hagC hec
    rw [if_neg h0]
    simp only
    rw [hr1, ← hpi]
    rw [if_neg (by omega), rd1_eq hmix1, hmix]
    simp only
    rw [getKey_agree hpar hagC, hkey]
    simp only
    rw [if_neg hslice, href, hec]
    simp only
    rw [hpp]

/-- the last iteration of the loop of Inverse in a chunk: the literal run `[j.i, lim)` that follows the last match -/
theorem inv1Step_tail {a : Array Nat} {sd : Side} {dstEnd base lim mm delta lpc : Nat} {j : J1} {litLen : Nat}
    {T : Tab} (hpar : ParamsOk mm delta)
    (htok : sd.tk.getD j.tkIdx 0 = tokOf litLen 0) (htk1 : j.tkIdx < sd.tk.size)
    (hlen : At sd.len j.lenIdx (lenBytesOf litLen 0))
    (hlen4 : j.lenIdx + (lenBytesOf litLen 0).length + 4 ≤ sd.len.size) (hll : litLen < 2 ^ 28)
    (hlit : ∀ k, k < litLen → sd.lit.getD (j.litIdx + k) 0 = a.getD (j.i + k) 0)
    (hlitsz : j.litIdx + litLen ≤ sd.lit.size) (hlitroom : (j.i - base) + litLen ≤ sd.lit.size)
    (hpos : base + 8 ≤ j.i) (hp : j.i + litLen = lim) (h0 : 0 < litLen) (hlim : lim ≤ j.st.dst.size)
    (hagree : ∀ k, k < j.i → j.st.dst.getD k 0 = a.getD k 0)
    (hreg : ∀ dstC : Array Nat, dstC.size = j.st.dst.size → (∀ k, k < lim → dstC.getD k 0 = a.getD k 0) →
      regRun mm delta lpc base lim j.i litLen (litLen + 1) 0 0 ⟨j.st.tab, dstC⟩ = .ok ⟨T, dstC⟩) :
    ∃ dst', inv1Step sd dstEnd base lim mm delta lpc j = .ok (⟨lim, j.litIdx + litLen,
        j.lenIdx + (lenBytesOf litLen 0).length, j.mIdx, j.tkIdx + 1, ⟨T, dst'⟩⟩, true) ∧
      dst'.size = j.st.dst.size ∧ ∀ k, k < lim → dst'.getD k 0 = a.getD k 0 := by
  have hdelta : delta ≤ 8 ∧ 2 ≤ delta := by
    rcases hpar with ⟨_, h | h⟩ | ⟨_, h⟩ <;> omega
  obtain ⟨lenIdx1, hd1, hd2⟩ := decode_lengths hlen hlen4 hll (by omega : (0 : Nat) < 2 ^ 28)
  obtain ⟨hcs, hcg⟩ := copyFrom_spec sd.lit lim litLen j.st.dst j.i j.litIdx (by omega) hlim
  have hagC : ∀ k, k < lim → (copyFrom j.st.dst lim j.i sd.lit j.litIdx litLen).getD k 0 = a.getD k 0 := by
    intro k hk
    rw [hcg k]
    by_cases hc : j.i ≤ k ∧ k < j.i + litLen
    · rw [if_pos hc, hlit (k - j.i) (by omega)]
      congr 1; omega
    · rw [if_neg hc]
      exact hagree k (by omega)
  unfold inv1Step
  dsimp only
  rw [rd1_eq htk1, htok]
  simp only [hd1, hd2]
  have hr := hreg _ hcs hagC
  refine ⟨copyFrom j.st.dst lim j.i sd.lit j.litIdx litLen, ?_, hcs, hagC⟩
  rw [if_pos h0, if_neg (by omega), if_neg (by omega), if_neg (by omega), hr]
  simp only
  rw [if_pos (by omega), if_pos hp, hp]

/-! ## the end of a chunk on the encoder side -/

theorem fwd1Tail_spec {a : Array Nat} {cp : Caps} {first lim : Nat} {s s' : F1}
    (h : fwd1Tail a cp first lim s = .ok s') (hfl : first ≤ lim) :
    s'.tab = s.tab ∧ s'.mix = s.mix ∧ s'.tk = (if s.tk.size ≠ 0 then s.tk ++ [tokOf (lim - first) 0] else s.tk) ∧
    s'.len = s.len ++ lenBytesOf (lim - first) 0 ∧ s'.lit = s.lit ++ a.extract first lim := by
  unfold fwd1Tail at h
  dsimp only at h
  have htok : (if lim - first ≥ 31 then 0xF8 else (lim - first) <<< 3 % 256) = tokOf (lim - first) 0 := by
    unfold tokOf
    by_cases h31 : lim - first ≥ 31
    · rw [if_pos h31]
      have : min (lim - first) 31 = 31 := by omega
      rw [this]
      rfl
    · rw [if_neg h31, Nat.shiftLeft_eq]
      have : min (lim - first) 31 = lim - first := by omega
      rw [this]
      omega
  rw [htok] at h
  split at h
  · cases h
  · rename_i tk1 h1
    split at h
    · cases h
    · rename_i len1 h2
      split at h
      · cases h
      · rename_i lit1 h3
        injection h with h
        subst h
        refine ⟨rfl, rfl, ?_, ?_, ?_⟩
        · simp only
          by_cases h0 : s.tk.size ≠ 0
          · rw [if_pos h0] at h1 ⊢
            exact pushAll_eq h1
          · rw [if_neg h0] at h1 ⊢
            injection h1 with h1
            exact h1.symm
        · simp only
          unfold lenBytesOf
          rw [if_neg (by omega : ¬ (0 : Nat) ≥ 7), List.nil_append]
          by_cases h31 : lim - first ≥ 31
          · rw [if_pos h31] at h2 ⊢
            exact pushAll_eq h2
          · rw [if_neg h31] at h2 ⊢
            injection h2 with h2
            rw [← h2, appendL_nil]
        · simp only
          by_cases h0 : lim - first > 0
          · rw [if_pos h0] at h3
            exact (pushLits_eq h3).1
          · rw [if_neg h0] at h3
            injection h3 with h3
            have : first = lim := by omega
            rw [← h3, this]
            apply Array.ext'
            simp

theorem fwd1Tail_grow {a : Array Nat} {cp : Caps} {first lim : Nat} {s s' : F1}
    (h : fwd1Tail a cp first lim s = .ok s') (hfl : first ≤ lim) : Grow s s' := by
  obtain ⟨_, e1, e2, e3, e4⟩ := fwd1Tail_spec h hfl
  refine ⟨by rw [e4]; exact pre_appendA _ _, by rw [e3]; exact pre_appendL _ _, by rw [e1]; exact pre_refl _, ?_⟩
  rw [e2]
  split
  · exact pre_appendL _ _
  · exact pre_refl _

/-! ## the registration loop of the decoder, resumed at the encoder's position -/

/-- `Cont a .. l tabD0 tabD`: for every literal run length the current run can still end with, the decoder's loop
    `regRun` started at the run start with the tables `tabD0` gives what the same loop gives when resumed at the
    encoder's current position `l.i` (with `l.inc` visits done) with the tables `tabD` -/
def Cont (a : Array Nat) (mm delta lpc base lim : Nat) (l : L1) (tabD0 tabD : Tab) : Prop :=
  ∀ (litLen : Nat) (dstC : Array Nat) (r : I1),
    (l.i - l.first ≤ litLen ∨ (lim ≤ l.i ∧ litLen = lim - l.first)) →
    (∀ k, k < l.first + litLen → dstC.getD k 0 = a.getD k 0) →
    regRun mm delta lpc base lim l.first litLen (litLen + 1 - l.inc) (l.i - l.first) l.inc ⟨tabD, dstC⟩ = .ok r →
    regRun mm delta lpc base lim l.first litLen (litLen + 1) 0 0 ⟨tabD0, dstC⟩ = .ok r

theorem cont_start {a : Array Nat} {mm delta lpc base lim : Nat} {l : L1} (hi : l.i = l.first) (hinc : l.inc = 0)
    (tabD0 : Tab) : Cont a mm delta lpc base lim l tabD0 tabD0 := by
  intro litLen dstC r _ _ h
  rw [hi, hinc, Nat.sub_self, Nat.sub_zero] at h
  exact h

/-- a visit of the encoder without a match = one iteration of the decoder's loop -/
theorem cont_step {a : Array Nat} {mm delta lpc base lim : Nat} (hpar : ParamsOk mm delta) {l : L1} {tabD0 tabD : Tab}
    {key : Nat} (hc : Cont a mm delta lpc base lim l tabD0 tabD) (hfi : l.first ≤ l.i) (hil : l.i < lim)
    (hinc : l.inc ≤ l.i - l.first) (hkey : getKey mm delta a base lim l.i = some key) (hkeylt : key < HASH_SIZE)
    (hT : TabOk tabD lpc) (st' : F1) :
    Cont a mm delta lpc base lim ⟨l.i + 1 + (l.inc >>> 6), l.first, l.inc + 1, st'⟩ tabD0
      (tabD.register lpc key (l.i - base)) := by
  intro litLen dstC r hyp hag hrun
  simp only at hyp hag hrun
  have hlt : l.i - l.first < litLen := by
    rcases hyp with h | ⟨h1, h2⟩ <;> omega
  refine hc litLen dstC r (Or.inl (by omega)) hag ?_
  have hfuel : litLen + 1 - l.inc = (litLen - l.inc) + 1 := by omega
  have hpos : l.first + (l.i - l.first) = l.i := by omega
  rw [hfuel, regRun_unfold (key := key) hlt (by simp only; rw [hpos, getKey_agree hpar (fun k hk => hag k (by omega))]; exact hkey)
    (by simp only; exact tabOk_in hT hkeylt _)]
  simp only
  rw [hpos]
  have e1 : litLen + 1 - (l.inc + 1) = litLen - l.inc := by omega
  have e2 : l.i + 1 + (l.inc >>> 6) - l.first = l.i - l.first + (l.inc >>> 6) + 1 := by omega
  rw [e1, e2] at hrun
  exact hrun

theorem fwd1Loop_grow {a : Array Nat} {cp : Caps} {base lim mm delta lpc : Nat} (hpar : ParamsOk mm delta)
    (hmm : 3 ≤ mm ∧ mm ≤ 7) (hc : CapOk cp base lim) (hlim : lim + 4 ≤ a.size) :
    ∀ (f : Nat) (l lfin : L1), fwd1Loop a cp base lim mm delta lpc f l = .ok lfin → (base + 8 ≤ l.i ∨ lim ≤ l.i) →
    LInv l cp lpc base lim → Grow l.st lfin.st ∧ LInv lfin cp lpc base lim ∧ lim ≤ lfin.i := by
  intro f
  induction f with
  | zero => intro l lfin h; simp [fwd1Loop] at h
  | succ f ih =>
    intro l lfin h hbi hl
    simp only [fwd1Loop] at h
    split at h
    · rename_i hil
      split at h
      · rename_i l' hl'
        rcases fwd1Step_nf hpar hmm hc (by omega) hil hlim hl with ⟨e, he⟩ | ⟨l'', hl'', h1, h2⟩
        · rw [he] at hl'; cases hl'
        · rw [hl''] at hl'
          injection hl' with hl'
          subst hl'
          obtain ⟨g, i2, i3⟩ := ih _ _ h (by omega) h2
          exact ⟨grow_trans (fwd1Step_grow hl'' hl.fi) g, i2, i3⟩
      · cases h
      · cases h
    · injection h with h
      subst h
      exact ⟨grow_refl _, hl, by omega⟩

/-! ## encoder and decoder inside a chunk -/

/-- the decoder state `j` at the last token boundary (= start of the current literal run of the encoder state
    `l`), and the tables `tabD` the decoder's registration loop will have when it reaches the encoder's position -/
structure Mid (a : Array Nat) (lpc base lim mm delta : Nat) (l : L1) (j : J1) (tabD : Tab) : Prop where
  pos : j.i = l.first
  lit : j.litIdx = l.st.lit.size
  len : j.lenIdx = l.st.len.size
  mix : j.mIdx = l.st.mix.size
  tk : j.tkIdx = l.st.tk.size
  agree : ∀ k, k < l.first → j.st.dst.getD k 0 = a.getD k 0
  tokE : TabOk l.st.tab lpc
  tokD : TabOk tabD lpc
  tokD0 : TabOk j.st.tab lpc
  ring : RingEq l.st.tab tabD lpc
  ent : EntLt l.st.tab (l.i - base)
  cont : Cont a mm delta lpc base lim l j.st.tab tabD
  start : l.i = l.first → tabD = j.st.tab
  inc : l.inc ≤ l.i - l.first ∧ l.inc ≤ lim - l.first

/-- what the decoder knows about the side buffers: they start with the encoder's final buffers, and are large enough -/
structure SideOk (sfin : F1) (sd : Side) (base lim : Nat) : Prop where
  lit : Pre sfin.lit sd.lit
  len : Pre sfin.len sd.len
  mix : Pre sfin.mix sd.mix
  tk : Pre sfin.tk sd.tk
  litRoom : lim - base ≤ sd.lit.size
  lenRoom : ∀ x, 10 * x ≤ lim - base → x + 4 ≤ sd.len.size

theorem mid_nomatch {a : Array Nat} {lpc base lim mm delta : Nat} (hpar : ParamsOk mm delta) (hchunk : lim - base ≤ 2 ^ 24)
    {l : L1} {j : J1} {tabD : Tab} {key : Nat} (w : Nat) (hm : Mid a lpc base lim mm delta l j tabD) (hfi : l.first ≤ l.i)
    (hbl : base ≤ l.first) (hil : l.i < lim) (hkey : getKey mm delta a base lim l.i = some key) (hkeylt : key < HASH_SIZE) :
    Mid a lpc base lim mm delta ⟨l.i + 1 + (l.inc >>> 6), l.first, l.inc + 1,
      ⟨l.st.tab.register lpc key (rolzhashW w + (l.i - base)), l.st.lit, l.st.len, l.st.mix, l.st.tk⟩⟩ j
      (tabD.register lpc key (l.i - base)) := by
  refine ⟨hm.pos, hm.lit, hm.len, hm.mix, hm.tk, hm.agree, register_ok hm.tokE _ _, register_ok hm.tokD _ _, hm.tokD0,
    register_ringEq hm.tokE hm.tokD hm.ring hkeylt _ _ (tag_pos w _ (by omega)), ?_, ?_, ?_, ?_⟩
  · exact register_entLt hm.ent (by simp only; omega) _ _ _ (by rw [tag_pos w _ (by omega)]; simp only; omega)
  · exact cont_step hpar hm.cont hfi hil hm.inc.1 hkey hkeylt hm.tokD _
  · intro hc; simp only at hc; omega
  · have := hm.inc
    simp only; omega

/-- the end of a literal run with a match at `p` (the current position or the next one): what the registration
    loop of the decoder produces for the run `[first, p)` -/
theorem run_end {a : Array Nat} {lpc base lim mm delta : Nat} (hpar : ParamsOk mm delta) {l : L1} {j : J1} {tabD : Tab}
    {key : Nat} (hm : Mid a lpc base lim mm delta l j tabD) (hfi : l.first ≤ l.i) (hil : l.i < lim)
    (hkey : getKey mm delta a base lim l.i = some key) (hkeylt : key < HASH_SIZE) (p : Nat) (T : Tab)
    (hcase : (p = l.i ∧ T = tabD) ∨ (p = l.i + 1 ∧ T = tabD.register lpc key (l.i - base))) :
    ∀ dstC : Array Nat, (∀ k, k < p → dstC.getD k 0 = a.getD k 0) →
      (if p - l.first > 0 then regRun mm delta lpc base lim l.first (p - l.first) (p - l.first + 1) 0 0 ⟨j.st.tab, dstC⟩
        else .ok ⟨j.st.tab, dstC⟩) = .ok ⟨T, dstC⟩ := by
  intro dstC hag
  rcases hcase with ⟨hp, hT⟩ | ⟨hp, hT⟩
  · subst hp; subst hT
    by_cases h0 : l.i - l.first > 0
    · rw [if_pos h0]
      refine hm.cont (l.i - l.first) dstC _ (Or.inl (Nat.le_refl _)) (fun k hk => hag k (by omega)) ?_
      have hfuel : l.i - l.first + 1 - l.inc = (l.i - l.first - l.inc) + 1 := by have := hm.inc.1; omega
      rw [hfuel, regRun_done (by omega)]
    · rw [if_neg h0, hm.start (by omega)]
  · subst hp; subst hT
    rw [if_pos (by omega)]
    refine hm.cont (l.i + 1 - l.first) dstC _ (Or.inl (by omega)) (fun k hk => hag k (by omega)) ?_
    have hfuel : l.i + 1 - l.first + 1 - l.inc = (l.i + 1 - l.first - l.inc) + 1 := by have := hm.inc.1; omega
    have hpos : l.first + (l.i - l.first) = l.i := by omega
    rw [hfuel, regRun_unfold (key := key) (by omega)
      (by simp only; rw [hpos, getKey_agree hpar (fun k hk => hag k (by omega))]; exact hkey)
      (by simp only; exact tabOk_in hm.tokD hkeylt _)]
    simp only
    rw [hpos]
    have hf2 : l.i + 1 - l.first - l.inc = (l.i - l.first - l.inc) + 1 := by have := hm.inc.1; omega
    rw [hf2, regRun_done (by omega)]

/-- the end of the chunk: the registration loop for the last literal run `[first, lim)` -/
theorem run_last {a : Array Nat} {lpc base lim mm delta : Nat} {l : L1} {j : J1} {tabD : Tab}
    (hm : Mid a lpc base lim mm delta l j tabD) (hfl : l.first ≤ lim) (hil : lim ≤ l.i) :
    ∀ dstC : Array Nat, (∀ k, k < lim → dstC.getD k 0 = a.getD k 0) →
      regRun mm delta lpc base lim l.first (lim - l.first) (lim - l.first + 1) 0 0 ⟨j.st.tab, dstC⟩ = .ok ⟨tabD, dstC⟩ := by
  intro dstC hag
  refine hm.cont (lim - l.first) dstC _ (Or.inr ⟨hil, rfl⟩) (fun k hk => hag k (by omega)) ?_
  have hfuel : lim - l.first + 1 - l.inc = (lim - l.first - l.inc) + 1 := by have := hm.inc.2; omega
  rw [hfuel, regRun_done (by omega)]

theorem at_chain {x y z : Array Nat} (h1 : Pre x y) (h2 : Pre y z) {i : Nat} {bs : List Nat} (ha : At x i bs)
    (hi : i + bs.length ≤ x.size) : At z i bs :=
  at_of_pre h2 (at_of_pre h1 ha hi) (by have := h1.1; omega)

/-- a step of the encoder that emits a sequence is mirrored by one iteration of the loop of Inverse -/
theorem mid_match {a : Array Nat} {cp : Caps} {sd : Side} {dstEnd base lim mm delta lpc : Nat} (hpar : ParamsOk mm delta)
    (hmm : 3 ≤ mm ∧ mm ≤ 7) (hlpc : lpc ≤ 8) (ha : ∀ k, a.getD k 0 < 256) (hchunk : lim - base ≤ 2 ^ 24)
    (hlimA : lim + 4 ≤ a.size) (hdend : lim - base ≤ dstEnd)
    {l l' : L1} {j : J1} {tabD : Tab} (hm : Mid a lpc base lim mm delta l j tabD) (hl : LInv l cp lpc base lim)
    (hl' : LInv l' cp lpc base lim) (hb8 : base + 8 ≤ l.first) (hil : l.i < lim)
    {key w mi ml key1 w1 : Nat} {r1 : Option (Nat × Nat)} {s' : F1}
    (hkey : getKey mm delta a base lim l.i = some key)
    (hfm : findMatch1 a base lim l.i (rolzhashW w) key mm lpc l.st.tab = .ok (some (mi, ml)))
    (hkey1 : getKey mm delta a base lim (l.i + 1) = some key1)
    (hr1 : findMatch1 a base lim (l.i + 1) (rolzhashW w1) key1 mm lpc
      (l.st.tab.register lpc key (rolzhashW w + (l.i - base))) = .ok r1)
    (hs' : emitSeq a cp l.first
      (lazyPick l.i mi ml r1 (l.st.tab.register lpc key (rolzhashW w + (l.i - base))) lpc key1
        (rolzhashW w1 + (l.i + 1 - base))).1
      (lazyPick l.i mi ml r1 (l.st.tab.register lpc key (rolzhashW w + (l.i - base))) lpc key1
        (rolzhashW w1 + (l.i + 1 - base))).2.1
      (lazyPick l.i mi ml r1 (l.st.tab.register lpc key (rolzhashW w + (l.i - base))) lpc key1
        (rolzhashW w1 + (l.i + 1 - base))).2.2.1
      ⟨(lazyPick l.i mi ml r1 (l.st.tab.register lpc key (rolzhashW w + (l.i - base))) lpc key1
        (rolzhashW w1 + (l.i + 1 - base))).2.2.2, l.st.lit, l.st.len, l.st.mix, l.st.tk⟩ = .ok s')
    (hl'eq : l' = ⟨(lazyPick l.i mi ml r1 (l.st.tab.register lpc key (rolzhashW w + (l.i - base))) lpc key1
                (rolzhashW w1 + (l.i + 1 - base))).1 +
              (lazyPick l.i mi ml r1 (l.st.tab.register lpc key (rolzhashW w + (l.i - base))) lpc key1
                (rolzhashW w1 + (l.i + 1 - base))).2.2.1 + mm,
            (lazyPick l.i mi ml r1 (l.st.tab.register lpc key (rolzhashW w + (l.i - base))) lpc key1
                (rolzhashW w1 + (l.i + 1 - base))).1 +
              (lazyPick l.i mi ml r1 (l.st.tab.register lpc key (rolzhashW w + (l.i - base))) lpc key1
                (rolzhashW w1 + (l.i + 1 - base))).2.2.1 + mm, 0, s'⟩)
    {sfin : F1} (hgrow : Grow s' sfin) (hside : SideOk sfin sd base lim) (hdst : lim ≤ j.st.dst.size) :
    ∃ j', inv1Step sd dstEnd base lim mm delta lpc j = .ok (j', false) ∧ Mid a lpc base lim mm delta l' j' j'.st.tab ∧
      j'.st.dst.size = j.st.dst.size ∧ j.i < j'.i := by
  obtain ⟨p, mi', ml', tabS, keyP, wP, hp, hfmP, hcase⟩ := match_pick hfm hr1
  rw [hp] at hs' hl'eq
  simp only at hs' hl'eq
  subst hl'eq
  obtain ⟨hmi, hml17, hend, hsameS⟩ := findMatch1_spec hfmP hmm
  have hfi := hl.fi
  have hfp : l.first ≤ p := by rcases hcase with ⟨h1, _⟩ | ⟨h1, _⟩ <;> omega
  have hpl : p < lim := by omega
  obtain ⟨e0, e1, e2, e3, e4⟩ := emitSeq_spec hs' hfp
  simp only at e0 e1 e2 e3 e4
  have hkeylt := getKey_lt ha hkey
  -- the key of the match position, the table the decoder has there, and what the encoder searched
  have hkp : getKey mm delta a base lim p = some keyP ∧
      ∃ T, ((p = l.i ∧ T = tabD) ∨ (p = l.i + 1 ∧ T = tabD.register lpc key (l.i - base))) ∧ TabOk T lpc ∧
        TabOk tabS lpc ∧ RingEq tabS T lpc ∧ EntLt tabS (p - base) := by
    rcases hcase with ⟨h1, h2, h3, _⟩ | ⟨h1, h2, h3, _⟩
    · subst h1; subst h2; subst h3
      exact ⟨hkey, tabD, Or.inl ⟨rfl, rfl⟩, hm.tokD, hm.tokE, hm.ring, hm.ent⟩
    · subst h1; subst h2; subst h3
      refine ⟨hkey1, _, Or.inr ⟨rfl, rfl⟩, register_ok hm.tokD _ _, register_ok hm.tokE _ _,
        register_ringEq hm.tokE hm.tokD hm.ring hkeylt _ _ (tag_pos w _ (by omega)), ?_⟩
      exact register_entLt hm.ent (by omega) _ _ _ (by rw [tag_pos w _ (by omega)]; omega)
  obtain ⟨hkeyP, T, hTcase, hTok, hSok, hring, hent⟩ := hkp
  have hkeyPlt := getKey_lt ha hkeyP
  have hP256 : 2 ^ lpc ≤ 256 := by
    have : 2 ^ lpc ≤ 2 ^ 8 := Nat.pow_le_pow_right (by decide) hlpc
    omega
  have hmi256 : mi' % 256 = mi' := Nat.mod_eq_of_lt (by omega)
  have hreq := hring keyP hkeyPlt mi' hmi
  have hrlt := ring_lt hent lpc keyP mi'
  -- the decoder's indexes into the side buffers
  have hb' := hl'.b
  simp only at hb'
  have hlensz : s'.len.size = l.st.len.size + (lenBytesOf (p - l.first) ml').length := by rw [e3, size_appendL]
  have hlitsz : s'.lit.size = l.st.lit.size + (p - l.first) := by
    rw [e4, Array.size_append, Array.size_extract]; omega
  have htksz : s'.tk.size = l.st.tk.size + 1 := by rw [e1, size_appendL]; rfl
  have hmixsz : s'.mix.size = l.st.mix.size + 1 := by rw [e2, size_appendL]; rfl
  have g1 := hgrow.tk.1; have g2 := hside.tk.1; have g3 := hgrow.mix.1; have g4 := hside.mix.1
  have g5 := hgrow.len.1; have g6 := hside.len.1; have g7 := hgrow.lit.1; have g8 := hside.lit.1
  have hbl := hb'.len; have hblit := hb'.lit
  have hroom := hside.lenRoom s'.len.size (by omega)
  have hlr := hside.litRoom
  have htokv : sd.tk.getD j.tkIdx 0 = tokOf (p - l.first) ml' := by
    have h := at_chain hgrow.tk hside.tk (x := s'.tk) (i := l.st.tk.size) (bs := [tokOf (p - l.first) ml'])
      (by rw [e1]; exact at_appendL _ _) (by rw [htksz]; simp)
    have := h 0 (by simp)
    rw [hm.tk]
    simpa using this
  have hmixv : sd.mix.getD j.mIdx 0 = mi' % 256 := by
    have h := at_chain hgrow.mix hside.mix (x := s'.mix) (i := l.st.mix.size) (bs := [mi' % 256])
      (by rw [e2]; exact at_appendL _ _) (by rw [hmixsz]; simp)
    have := h 0 (by simp)
    rw [hm.mix]
    simpa using this
  have hlenv : At sd.len j.lenIdx (lenBytesOf (p - l.first) ml') := by
    rw [hm.len]
    exact at_chain hgrow.len hside.len (by rw [e3]; exact at_appendL _ _) (by rw [hlensz]; omega)
  have hlitv : ∀ k, k < p - l.first → sd.lit.getD (j.litIdx + k) 0 = a.getD (j.i + k) 0 := by
    intro k hk
    rw [hm.lit, hm.pos, hside.lit.2 _ (by omega), hgrow.lit.2 _ (by omega), e4, getD_appendA, if_neg (by omega)]
    have e : l.st.lit.size + k - l.st.lit.size = k := by omega
    rw [e, ← toList_getD, extract_getD a l.first p k hk (by omega)]
  obtain ⟨dst', hstep, hsz', hag'⟩ := inv1Step_seq (a := a) (sd := sd) (dstEnd := dstEnd) (j := j) (litLen := p - l.first)
    (ml := ml') (mi := mi' % 256) (p := p) (keyP := keyP) (T := T) hpar hmm htokv (by rw [hm.tk]; omega) hlenv
    (by rw [hm.len]; omega) (by omega) (by omega) hlitv (by rw [hm.lit]; omega) (by rw [hm.pos]; omega) hmixv
    (by rw [hm.mix]; omega) (by rw [hmi256]; exact hmi) (by rw [hm.pos]; exact hb8) (by rw [hm.pos]; omega) (by omega) hdst
    hdend (by rw [hm.pos]; exact hm.agree)
    (by
      intro dstC _ hag
      rw [hm.pos]
      exact run_end hpar hm hfi hil hkey hkeylt p T hTcase dstC hag)
    hkeyP hkeyPlt hTok (by rw [hmi256, ← hreq]; exact hsameS) (by rw [hmi256, ← hreq]; omega)
  refine ⟨_, hstep, ?_, hsz', by simp only; rw [hm.pos]; omega⟩
  refine ⟨rfl, ?_, ?_, ?_, ?_, ?_, ?_, ?_, ?_, ?_, ?_, ?_, fun _ => rfl, by simp only; omega⟩
  · simp only; rw [hm.lit, hlitsz]
  · simp only; rw [hm.len, hlensz]
  · simp only; rw [hm.mix, hmixsz]
  · simp only; rw [hm.tk, htksz]
  · intro k hk; exact hag' k hk
  · simp only; rw [e0]; exact register_ok hSok _ _
  · exact register_ok hTok _ _
  · exact register_ok hTok _ _
  · simp only; rw [e0]
    exact register_ringEq hSok hTok hring hkeyPlt _ _ (tag_pos wP _ (by omega))
  · simp only; rw [e0]
    exact register_entLt hent (by omega) _ _ _ (by rw [tag_pos wP _ (by omega)]; omega)
  · exact cont_start rfl rfl _

/-- **the main loop of a chunk**: when the encoder's loop and its final literals produce side buffers the decoder
    holds (with at least one token), the decoder's loop, started at the token boundary that corresponds to the
    encoder state, restores the rest of the chunk -/
theorem loop1_sim {a : Array Nat} {cp : Caps} {sd : Side} {dstEnd base lim mm delta lpc : Nat} (hpar : ParamsOk mm delta)
    (hmm : 3 ≤ mm ∧ mm ≤ 7) (hlpc : lpc ≤ 8) (ha : ∀ k, a.getD k 0 < 256) (hchunk : lim - base ≤ 2 ^ 24)
    (hlimA : lim + 4 ≤ a.size) (hdend : lim - base ≤ dstEnd) (hc : CapOk cp base lim) :
    ∀ (f : Nat) (l lfin : L1), fwd1Loop a cp base lim mm delta lpc f l = .ok lfin → (base + 8 ≤ l.i ∨ lim ≤ l.i) →
    LInv l cp lpc base lim → base + 8 ≤ l.first →
    ∀ (sfin : F1), fwd1Tail a cp lfin.first lim lfin.st = .ok sfin → sfin.tk.size ≠ 0 → SideOk sfin sd base lim →
    ∀ (j : J1) (tabD : Tab) (fD : Nat), Mid a lpc base lim mm delta l j tabD → lim ≤ j.st.dst.size → lim - j.i + 1 ≤ fD →
    ∃ jfin, inv1Loop sd dstEnd base lim mm delta lpc fD j = .ok jfin ∧ jfin.i = lim ∧
      jfin.st.dst.size = j.st.dst.size ∧ (∀ k, k < lim → jfin.st.dst.getD k 0 = a.getD k 0) ∧ TabOk jfin.st.tab lpc := by
  intro f
  induction f with
  | zero => intro l lfin h; simp [fwd1Loop] at h
  | succ f ih =>
    intro l lfin h hbi hl hb8 sfin htail htk hside j tabD fD hm hdst hfD
    simp only [fwd1Loop] at h
    obtain ⟨g, rfl⟩ : ∃ g, fD = g + 1 := ⟨fD - 1, by omega⟩
    split at h
    · rename_i hil
      split at h
      · rename_i l' hl'
        -- invariants of the next encoder state, growth of the buffers up to the end of the chunk
        have hl'inv : LInv l' cp lpc base lim ∧ l.i < l'.i := by
          rcases fwd1Step_nf hpar hmm hc (by omega) hil hlimA hl with ⟨e, he⟩ | ⟨l'', hl'', h1, h2⟩
          · rw [he] at hl'; cases hl'
          · rw [hl''] at hl'
            injection hl' with hl'
            subst hl'
            exact ⟨h2, h1⟩
        obtain ⟨hinv', hlt'⟩ := hl'inv
        obtain ⟨grest, hfininv, _⟩ := fwd1Loop_grow hpar hmm hc hlimA _ _ _ h (by omega) hinv'
        have gtail := fwd1Tail_grow htail hfininv.fl
        obtain ⟨key, w, hkey, hw, hcases⟩ := fwd1Step_cases hl'
        have hkeylt := getKey_lt ha hkey
        rcases hcases with ⟨_, hl'eq⟩ | ⟨mi, ml, key1, w1, r1, s', hfm, hkey1, hw1, hr1, hs', hl'eq⟩
        · -- a visit without a match: the decoder does not move
          have hm' := mid_nomatch hpar hchunk w hm hl.fi hl.bf hil hkey hkeylt
          rw [← hl'eq] at hm'
          have hfirst : l'.first = l.first := by rw [hl'eq]
          exact ih l' lfin h (by omega) hinv' (by rw [hfirst]; exact hb8) sfin htail htk hside j _ (g + 1) hm' hdst hfD
        · -- a sequence
          have hs'st : l'.st = s' := by rw [hl'eq]
          obtain ⟨j', hstep, hm', hsz', hjlt⟩ := mid_match (cp := cp) (sd := sd) (dstEnd := dstEnd) hpar hmm hlpc ha hchunk hlimA
            hdend hm hl hinv' hb8 hil hkey hfm hkey1 hr1 hs' hl'eq (sfin := sfin)
            (by rw [← hs'st]; exact grow_trans grest gtail) hside hdst
          have hfi' : l'.first = l'.i := by rw [hl'eq]
          obtain ⟨jfin, hloop, q1, q2, q3, q4⟩ := ih l' lfin h (by omega) hinv'
            (by rw [hfi']; have := hl.fi; omega)
            sfin htail htk hside j' _ g hm' (by rw [hsz']; exact hdst) (by have := hm.pos; have := hl.fi; omega)
          refine ⟨jfin, ?_, q1, by rw [q2, hsz'], q3, q4⟩
          simp only [inv1Loop]
          rw [if_pos (by rw [hm.pos]; have := hl.fi; omega), hstep]
          exact hloop
      · cases h
      · cases h
    · rename_i hil
      injection h with h
      subst h
      have hfl := hl.fl
      obtain ⟨_, _, e2, e3, e4⟩ := fwd1Tail_spec htail hfl
      by_cases hfirst : l.first = lim
      · -- nothing after the last match
        refine ⟨j, ?_, by rw [hm.pos, hfirst], rfl, fun k hk => hm.agree k (by omega), hm.tokD0⟩
        simp only [inv1Loop]
        rw [if_neg (by rw [hm.pos]; omega)]
      · -- the last literal run
        have htk0 : l.st.tk.size ≠ 0 := by
          intro h0
          rw [if_neg (by omega)] at e2
          rw [e2] at htk
          exact htk h0
        rw [if_pos htk0] at e2
        have hlensz : sfin.len.size = l.st.len.size + (lenBytesOf (lim - l.first) 0).length := by rw [e3, size_appendL]
        have hlitsz : sfin.lit.size = l.st.lit.size + (lim - l.first) := by
          rw [e4, Array.size_append, Array.size_extract]; omega
        have htksz : sfin.tk.size = l.st.tk.size + 1 := by rw [e2, size_appendL]; rfl
        have g2 := hside.tk.1; have g6 := hside.len.1; have g8 := hside.lit.1
        have hbl := hl.b.len; have hblit := hl.b.lit; have hbf := hl.bf
        have hl2 := emitLengthBytes_len (lim - l.first - 31)
        have hlb : 10 * (lenBytesOf (lim - l.first) 0).length ≤ lim - l.first := by
          unfold lenBytesOf
          rw [if_neg (by omega : ¬ (0 : Nat) ≥ 7), List.nil_append]
          split
          · omega
          · simp
        have hroom := hside.lenRoom sfin.len.size (by omega)
        have hlr := hside.litRoom
        have htokv : sd.tk.getD j.tkIdx 0 = tokOf (lim - l.first) 0 := by
          have h := at_of_pre hside.tk (x := sfin.tk) (i := l.st.tk.size) (bs := [tokOf (lim - l.first) 0])
            (by rw [e2]; exact at_appendL _ _) (by rw [htksz]; simp)
          have := h 0 (by simp)
          rw [hm.tk]
          simpa using this
        have hlenv : At sd.len j.lenIdx (lenBytesOf (lim - l.first) 0) := by
          rw [hm.len]
          exact at_of_pre hside.len (by rw [e3]; exact at_appendL _ _) (by rw [hlensz]; omega)
        have hlitv : ∀ k, k < lim - l.first → sd.lit.getD (j.litIdx + k) 0 = a.getD (j.i + k) 0 := by
          intro k hk
          rw [hm.lit, hm.pos, hside.lit.2 _ (by omega), e4, getD_appendA, if_neg (by omega)]
          have e : l.st.lit.size + k - l.st.lit.size = k := by omega
          rw [e, ← toList_getD, extract_getD a l.first lim k hk (by omega)]
        obtain ⟨dst', hstep, hsz', hag'⟩ := inv1Step_tail (a := a) (sd := sd) (dstEnd := dstEnd) (base := base) (lim := lim)
          (mm := mm) (delta := delta) (lpc := lpc) (j := j) (litLen := lim - l.first) (T := tabD) hpar htokv (by rw [hm.tk]; omega) hlenv (by rw [hm.len]; omega) (by omega)
          hlitv (by rw [hm.lit]; omega) (by rw [hm.pos]; omega) (by rw [hm.pos]; exact hb8) (by rw [hm.pos]; omega) (by omega)
          hdst (by rw [hm.pos]; exact hm.agree)
          (by
            intro dstC _ hag
            rw [hm.pos]
            exact run_last hm hfl (by omega) dstC hag)
        refine ⟨⟨lim, j.litIdx + (lim - l.first), j.lenIdx + (lenBytesOf (lim - l.first) 0).length, j.mIdx, j.tkIdx + 1,
          ⟨tabD, dst'⟩⟩, ?_, rfl, hsz', hag', hm.tokD⟩
        simp only [inv1Loop]
        rw [if_pos (by rw [hm.pos]; omega), hstep]

end Kanzi.ROLZ
