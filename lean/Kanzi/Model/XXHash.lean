/-
Executable models of `hash.XXHash32.Hash` and `hash.XXHash64.Hash` (/repo/v2/hash/XXHash32.go,
XXHash64.go).  Core Lean only.

The models mirror the Go loops one to one: the stripe loop (`for n <= end16` / `for n <= end32`)
is a structural recursion that consumes 16 / 32 bytes per step, followed by the 8-byte (64 only),
4-byte and 1-byte tail loops, followed by the avalanche.  All arithmetic is wrap-around arithmetic
on `BitVec 32` / `BitVec 64`, exactly where the Go code uses `uint32` / `uint64`.

NOTE (mirrored on purpose, see AGENT_GUIDE "do not improve the behaviour"): the Go `XXHash64` is
NOT the reference XXH64: (i) the merge of the four lanes uses the 32-bit rotation idiom
`(v << 1) | (v >> 31)` (and 7/25, 12/20, 18/14) on 64-bit lanes, which is not a rotation;
(ii) the 1-byte tail adds (`h64 += b * P5`) where the reference xors.  The stream only needs a
deterministic function shared by writer and reader; the model follows the Go code.
-/
namespace Kanzi.XXHash

abbrev Byte := BitVec 8

/-! ### 32 bit -/

def P32_1 : BitVec 32 := 2654435761#32
def P32_2 : BitVec 32 := 2246822519#32
def P32_3 : BitVec 32 := 3266489917#32
def P32_4 : BitVec 32 := 668265263#32
def P32_5 : BitVec 32 := 374761393#32

/-- Go: `(x << l) | (x >> r)` on uint32 (a rotation when `l + r = 32`) -/
def shlOr32 (x : BitVec 32) (l r : Nat) : BitVec 32 := (x <<< l) ||| (x >>> r)

/-- Go: `binary.LittleEndian.Uint32(buf[0:4])` -/
def le32 (b0 b1 b2 b3 : Byte) : BitVec 32 :=
  b0.setWidth 32 ||| (b1.setWidth 32 <<< 8) ||| (b2.setWidth 32 <<< 16) ||| (b3.setWidth 32 <<< 24)

/-- Go: `xxHash32Round` -/
def round32 (acc val : BitVec 32) : BitVec 32 :=
  shlOr32 (acc + val * P32_2) 13 19 * P32_1

structure Lanes32 where
  v1 : BitVec 32
  v2 : BitVec 32
  v3 : BitVec 32
  v4 : BitVec 32

/-- Go: `for n <= end16 { … n += 16 }`; returns the lanes and the unread tail (< 16 bytes) -/
def stripes32 : Lanes32 → List Byte → Lanes32 × List Byte
  | v, a0 :: a1 :: a2 :: a3 :: b0 :: b1 :: b2 :: b3 :: c0 :: c1 :: c2 :: c3 :: d0 :: d1 :: d2 :: d3 :: rest =>
    stripes32 ⟨round32 v.v1 (le32 a0 a1 a2 a3), round32 v.v2 (le32 b0 b1 b2 b3),
               round32 v.v3 (le32 c0 c1 c2 c3), round32 v.v4 (le32 d0 d1 d2 d3)⟩ rest
  | v, l => (v, l)

/-- Go: `for n+4 <= end { … n += 4 }` -/
def words32 : BitVec 32 → List Byte → BitVec 32 × List Byte
  | h, b0 :: b1 :: b2 :: b3 :: rest =>
    words32 (shlOr32 (h + le32 b0 b1 b2 b3 * P32_3) 17 15 * P32_4) rest
  | h, l => (h, l)

/-- Go: `for n < end { … n++ }` -/
def bytes32 : BitVec 32 → List Byte → BitVec 32
  | h, [] => h
  | h, b :: rest => bytes32 (shlOr32 (h + b.setWidth 32 * P32_5) 11 21 * P32_1) rest

/-- final avalanche -/
def avalanche32 (h0 : BitVec 32) : BitVec 32 :=
  let h1 := h0 ^^^ (h0 >>> 15)
  let h2 := h1 * P32_2
  let h3 := h2 ^^^ (h2 >>> 13)
  let h4 := h3 * P32_3
  h4 ^^^ (h4 >>> 16)

/-- the part of `Hash` before `h32 += uint32(end)`: accumulator and unread tail -/
def init32 (seed : BitVec 32) (data : List Byte) : BitVec 32 × List Byte :=
  if data.length ≥ 16 then
    let r := stripes32 ⟨seed + P32_1 + P32_2, seed + P32_2, seed, seed - P32_1⟩ data
    let v := r.1
    (shlOr32 v.v1 1 31 + shlOr32 v.v2 7 25 + shlOr32 v.v3 12 20 + shlOr32 v.v4 18 14, r.2)
  else
    (seed + P32_5, data)

/-- Go: `(*XXHash32).Hash` with `this.seed = seed` -/
def xxh32 (seed : BitVec 32) (data : List Byte) : BitVec 32 :=
  let i := init32 seed data
  let w := words32 (i.1 + BitVec.ofNat 32 data.length) i.2
  avalanche32 (bytes32 w.1 w.2)

/-! ### 64 bit -/

def P64_1 : BitVec 64 := 0x9E3779B185EBCA87#64
def P64_2 : BitVec 64 := 0xC2B2AE3D27D4EB4F#64
def P64_3 : BitVec 64 := 0x165667B19E3779F9#64
def P64_4 : BitVec 64 := 0x85EBCA77C2B2AE63#64
def P64_5 : BitVec 64 := 0x27D4EB2F165667C5#64

/-- Go: `(x << l) | (x >> r)` on uint64 (a rotation only when `l + r = 64`) -/
def shlOr64 (x : BitVec 64) (l r : Nat) : BitVec 64 := (x <<< l) ||| (x >>> r)

/-- Go: `binary.LittleEndian.Uint64(buf[0:8])` -/
def le64 (b0 b1 b2 b3 b4 b5 b6 b7 : Byte) : BitVec 64 :=
  b0.setWidth 64 ||| (b1.setWidth 64 <<< 8) ||| (b2.setWidth 64 <<< 16) ||| (b3.setWidth 64 <<< 24) |||
  (b4.setWidth 64 <<< 32) ||| (b5.setWidth 64 <<< 40) ||| (b6.setWidth 64 <<< 48) ||| (b7.setWidth 64 <<< 56)

/-- Go: `xxHash64Round` -/
def round64 (acc val : BitVec 64) : BitVec 64 :=
  shlOr64 (acc + val * P64_2) 31 33 * P64_1

/-- Go: `xxHash64MergeRound` -/
def mergeRound64 (acc val : BitVec 64) : BitVec 64 :=
  (acc ^^^ round64 0 val) * P64_1 + P64_4

structure Lanes64 where
  v1 : BitVec 64
  v2 : BitVec 64
  v3 : BitVec 64
  v4 : BitVec 64

/-- Go: `for n <= end32 { … n += 32 }`; returns the lanes and the unread tail (< 32 bytes) -/
def stripes64 : Lanes64 → List Byte → Lanes64 × List Byte
  | v, a0 :: a1 :: a2 :: a3 :: a4 :: a5 :: a6 :: a7 :: b0 :: b1 :: b2 :: b3 :: b4 :: b5 :: b6 :: b7 ::
       c0 :: c1 :: c2 :: c3 :: c4 :: c5 :: c6 :: c7 :: d0 :: d1 :: d2 :: d3 :: d4 :: d5 :: d6 :: d7 :: rest =>
    stripes64 ⟨round64 v.v1 (le64 a0 a1 a2 a3 a4 a5 a6 a7), round64 v.v2 (le64 b0 b1 b2 b3 b4 b5 b6 b7),
               round64 v.v3 (le64 c0 c1 c2 c3 c4 c5 c6 c7), round64 v.v4 (le64 d0 d1 d2 d3 d4 d5 d6 d7)⟩ rest
  | v, l => (v, l)

/-- Go: `for n+8 <= end { … n += 8 }` -/
def dwords64 : BitVec 64 → List Byte → BitVec 64 × List Byte
  | h, b0 :: b1 :: b2 :: b3 :: b4 :: b5 :: b6 :: b7 :: rest =>
    dwords64 (shlOr64 (h ^^^ round64 0 (le64 b0 b1 b2 b3 b4 b5 b6 b7)) 27 37 * P64_1 + P64_4) rest
  | h, l => (h, l)

/-- Go: `for n+4 <= end { … n += 4 }` -/
def words64 : BitVec 64 → List Byte → BitVec 64 × List Byte
  | h, b0 :: b1 :: b2 :: b3 :: rest =>
    words64 (shlOr64 (h ^^^ ((le32 b0 b1 b2 b3).setWidth 64 * P64_1)) 23 41 * P64_2 + P64_3) rest
  | h, l => (h, l)

/-- Go: `for n < end { … n++ }` (note: `+=`, as in the Go code) -/
def bytes64 : BitVec 64 → List Byte → BitVec 64
  | h, [] => h
  | h, b :: rest => bytes64 (shlOr64 (h + b.setWidth 64 * P64_5) 11 53 * P64_1) rest

def avalanche64 (h0 : BitVec 64) : BitVec 64 :=
  let h1 := h0 ^^^ (h0 >>> 33)
  let h2 := h1 * P64_2
  let h3 := h2 ^^^ (h2 >>> 29)
  let h4 := h3 * P64_3
  h4 ^^^ (h4 >>> 32)

/-- the part of `Hash` before `h64 += uint64(end)` -/
def init64 (seed : BitVec 64) (data : List Byte) : BitVec 64 × List Byte :=
  if data.length ≥ 32 then
    let r := stripes64 ⟨seed + P64_1 + P64_2, seed + P64_2, seed, seed - P64_1⟩ data
    let v := r.1
    let h := shlOr64 v.v1 1 31 + shlOr64 v.v2 7 25 + shlOr64 v.v3 12 20 + shlOr64 v.v4 18 14
    (mergeRound64 (mergeRound64 (mergeRound64 (mergeRound64 h v.v1) v.v2) v.v3) v.v4, r.2)
  else
    (seed + P64_5, data)

/-- Go: `(*XXHash64).Hash` with `this.seed = seed` -/
def xxh64 (seed : BitVec 64) (data : List Byte) : BitVec 64 :=
  let i := init64 seed data
  let d := dwords64 (i.1 + BitVec.ofNat 64 data.length) i.2
  let w := words64 d.1 d.2
  avalanche64 (bytes64 w.1 w.2)

/-- the seed used by the compressed stream (`_BITSTREAM_TYPE`, "KANZ") -/
def streamSeed : Nat := 0x4B414E5A

end Kanzi.XXHash
