/-
Abstract bit strings: the specification both bitstreams (and everything written through them)
are proved against.  MSB first, as in the Go implementation.  Core Lean only.
-/
namespace Kanzi.Bits

abbrev Bits := List Bool

/-- the low `n` bits of `v`, most significant first (Go: `WriteBits(v, n)`) -/
def natBits (v n : Nat) : Bits := (List.range n).map (fun i => v.testBit (n - 1 - i))

/-- big-endian value of a bit string (Go: result of `ReadBits(len)`) -/
def bitsNat (bs : Bits) : Nat := bs.foldl (fun a b => 2 * a + b.toNat) 0

/-- bits of a byte string, each byte MSB first -/
def ofBytes (bytes : List Nat) : Bits := bytes.flatMap (fun b => natBits b 8)

/-- byte `i` of the packed image: bits 8i .. 8i+7, zero padded -/
def packByte (bs : Bits) (i : Nat) : Nat :=
  bitsNat (((bs.drop (8 * i)).take 8) ++ List.replicate (8 - ((bs.drop (8 * i)).take 8).length) false)

/-- pack bits into bytes, zero padding the last byte (Go: the image produced by `Close`) -/
def packBytes (bs : Bits) : List Nat := (List.range ((bs.length + 7) / 8)).map (packByte bs)

/-- the first `k` bits of a byte array (Go: `WriteArray(bytes, k)` / `ReadArray`) -/
def arrayBits (bytes : List Nat) (k : Nat) : Bits := (ofBytes bytes).take k

end Kanzi.Bits
