/-
C12 (TPAQ / TPAQX entropy codecs, predictor side) — the bit predictor
`/repo/v2/entropy/TPAQPredictor.go` (`NewTPAQPredictor`, `Update`, `Get`, the mixer `TPAQMixer`, the
match model, the hashed contexts) with the helpers it calls (`internal.Squash`, the `SQUASH` /
`STRETCH` tables computed by `init()` of internal/Global.go, `LogisticAdaptiveProbMap`), which the
TPAQ and TPAQX codecs plug into the binary arithmetic coder
(`entropy.NewBinaryEntropyEncoder(bs, predictor)` / decoder).
Property theorems only; proofs live in `Kanzi/Proofs/TPAQ.lean`, `TPAQTables.lean`, `TPAQBits.lean`,
the model in `Kanzi/Model/TPAQ.lean`, tied to /repo by the `tpaqpred` correspondence stream (the real
`entropy.TPAQPredictor` is driven with generated and adversarial bit sequences, TPAQ and TPAQX, many
constructor parameters; the sequence of `Get()` values must be identical to the model's; the real
lookup tables are hashed and compared; the real `LogisticAdaptiveProbMap` is driven directly).

What the binary coder needs from a predictor: a deterministic state machine whose `Get()` lies in
`[0, 4095]` on every reachable state and that never faults.  `TPAQ.R` is an inductive invariant
(`C12_tpaq_init`, `C12_tpaq_step`) under which
  * `Get()` is in `[1, 4095]` (`C12_tpaq_get_range`),
  * no slice / array index of `Update` is out of range (`C12_tpaq_no_fault`).
Unlike the CM predictor, the `int32` arithmetic of TPAQ REALLY wraps around (hashes, `createContext`,
the mixer's dot product and weight update): the model computes with `Int32` and nothing here claims
the absence of wrap-around; the invariant only needs what masks and clamps guarantee.

The invariant (`Kanzi.TPAQ.Inv 1`): `fault = false`; `1 <= pr <= 4095`; `1 <= bpos <= 8`,
`1 <= c0 < 2^(9-bpos)`; `0 <= matchLen <= 88`; `0 <= hash < len(hashes)`; the four masks are non
negative and smaller than the length of the slice they index (`mixersMask + 1 < len(mixers)`); the two
small state maps have 2^16 and 2^24 cells; `0 <= ctx0 <= 0xFF00`, `0 <= ctx1 <= 0xFFFF00`; `sse0` is an
APM of 256 contexts, `sse1` (extra variant) one of 65536 contexts, each with its last index pair inside
its table; the mixer pointer and the seven context pointers point inside their slices.

Constructor parameters (`ArgsOk`): `ctx["blockSize"]` and `ctx["size"]`, when present with type
`uint`, are at least 1 — the stream layer passes `blockSize` in [1024, 2^30] and `size` = the length
of the block handed to the entropy stage, never 0.  With `size = 0` (or `blockSize = 0`) the public
constructor succeeds but the 8th `Update` faults (`hashes` / `buffer` has length 0): the model and
the real code agree on that (`fault 7` in the `tpaqpred` stream).
-/
import Kanzi.Model.TPAQ
import Kanzi.Proofs.TPAQ
import Kanzi.Generated.Consts

namespace Kanzi.C12
open Kanzi.TPAQ

/-- **C12_tpaq_init.**  `NewTPAQPredictor(ctx)` — nil context, or any combination of the keys `entropy`
(TPAQ / TPAQX / anything else), `blockSize >= 1`, `size >= 1`, `bsVersion`, present or absent — returns,
when it does not return its type error, a state satisfying the invariant. -/
theorem C12_tpaq_init (c : Option CtxArgs) (s : TPAQ) (hc : ArgsOk c) (h : tpaqNew c = .ok s) : R s :=
  R_new hc h

/-- **C12_tpaq_new.**  `NewTPAQPredictor` returns an error exactly when an entry it reads has the wrong
dynamic type (`errOf` = the first such entry in the order entropy, blockSize, size, bsVersion, which is
the error returned); a nil context never fails. -/
theorem C12_tpaq_new (a : CtxArgs) :
    (∀ e, errOf a = some e → tpaqNew (some a) = .error e) ∧
    (errOf a = none → ∃ s, tpaqNew (some a) = .ok s) ∧
    (∃ s, tpaqNew none = .ok s) := ⟨(tpaqNew_err a).1, (tpaqNew_err a).2, tpaqNew_nil⟩

/-- the same in terms of the table sizes the constructor computed -/
theorem C12_tpaq_init_sizes (c : Option CtxArgs) (z : Sizes) (hc : ArgsOk c) (h : sizesOf c = .ok z) :
    SizesOk z ∧ R (tpaqOfSizes z) := ⟨sizesOf_ok hc h, R_ofSizes (sizesOf_ok hc h)⟩

/-- **C12_tpaq_step.**  One round of the coder's call pattern, `Get()` then `Update(bit)`, preserves the
invariant.  (`Get()` does not change the state; `Update` alone preserves it.) -/
theorem C12_tpaq_step (s : TPAQ) (b : Bool) (h : R s) : R (tpaqUpdate (tpaqGet s).2 b) := R_step h b

theorem C12_tpaq_step_get (s : TPAQ) (h : R s) : R (tpaqGet s).2 := R_get h
theorem C12_tpaq_step_update (s : TPAQ) (b : Bool) (h : R s) : R (tpaqUpdate s b) := R_update h b

/-- **C12_tpaq_get_range.**  On every state satisfying the invariant `Get()` returns a value in
`[1, 4095]` (`tpaqGetZ` is the Go `int` result, `tpaqGet` its `toNat`). -/
theorem C12_tpaq_get_range (s : TPAQ) (h : R s) : 1 ≤ (tpaqGet s).1 ∧ (tpaqGet s).1 ≤ 4095 := get_range h

theorem C12_tpaq_get_rangeZ (s : TPAQ) (h : R s) :
    1 ≤ tpaqGetZ s ∧ tpaqGetZ s ≤ 4095 ∧ ((tpaqGet s).1 : Int) = tpaqGetZ s :=
  ⟨(getZ_range h).1, (getZ_range h).2, get_cast h⟩

/-- the last statement of `Update`, `this.pr = p + int(uint32(p-2048)>>31)`, adds 1 exactly when
`p < 2048`: with `p` in `[0, 4095]` (what `Squash` and the APM stages return) `pr` is in `[1, 4095]` -/
theorem C12_tpaq_final_pr (p : Int) (h0 : 0 ≤ p) (h1 : p ≤ 4095) :
    finalPr p = (if p < 2048 then p + 1 else p) ∧ 1 ≤ finalPr p ∧ finalPr p ≤ 4095 :=
  ⟨finalPr_eq h0 h1, finalPr_range h0 h1⟩

/-- **C12_tpaq_no_fault.**  On every state satisfying the invariant no index expression of `Update(bit)`
is out of range: `tpaqUpdateF` (`none` = Go run-time panic "index out of range"; the model checks every
slice and array index of `Update`, `findMatch`, `getMatchContextPred`, `TPAQMixer.get`,
`LogisticAdaptiveProbMap.Get` and records a failed check in the sticky flag `fault`) returns `some`
of what the total function computes.  `Get()` has no index expression. -/
theorem C12_tpaq_no_fault (s : TPAQ) (b : Bool) (h : R s) :
    tpaqUpdateF (tpaqGet s).2 b = some (tpaqUpdate (tpaqGet s).2 b) ∧ (tpaqUpdate (tpaqGet s).2 b).fault = false :=
  ⟨updateF_some (R_get h) b, (R_step h b).fault⟩

/-- the index `SQUASH[d+2047]` inside `internal.Squash` (the only index expression of `TPAQMixer.get`) is
in range in the branch that evaluates it -/
theorem C12_tpaq_no_fault_squash (d : Int) (h1 : ¬ d ≥ 2048) (h2 : ¬ d ≤ -2048) : inb (d + 2047) 4096 = true :=
  squash_index_ok d h1 h2

/-- one call of `LogisticAdaptiveProbMap.Get(bit, pr, ctx)` on a map of `n` contexts with `pr` in
`[0, 4095]` and `ctx` in `[0, n)`: no index fault, the map stays well formed, the result is in `[0, 4095]` -/
theorem C12_tpaq_apm (a : APM) (n : Nat) (bit : Bool) (pr ctx : Int) (h : ApmOk a n)
    (hp : 0 ≤ pr ∧ pr ≤ 4095) (hc : 0 ≤ ctx ∧ ctx < n) :
    (apmGet a bit pr ctx).2.2 = true ∧ ApmOk (apmGet a bit pr ctx).2.1 n ∧
    0 ≤ (apmGet a bit pr ctx).1 ∧ (apmGet a bit pr ctx).1 ≤ 4095 := apmGet_ok h bit hp hc

/-- **C12_tpaq_run.**  Whole runs from a fresh predictor (parameters as in `C12_tpaq_init`), any bit
sequence of any length: every `Get()` is in `[1, 4095]`, nothing faults (`tpaqRunF` = the run with panics
as `none`), and the final state satisfies the invariant. -/
theorem C12_tpaq_run (c : Option CtxArgs) (s : TPAQ) (hc : ArgsOk c) (h : tpaqNew c = .ok s) (bits : List Bool) :
    (∀ p ∈ tpaqRun s bits, 1 ≤ p ∧ p ≤ 4095) ∧
    tpaqRunF s bits = some ((tpaqRun s bits).map Int.ofNat) ∧
    R (tpaqRunState s bits) :=
  ⟨run_range _ (R_new hc h) bits, runF_some _ (R_new hc h) bits, R_runState _ (R_new hc h) bits⟩

/-- **C12_tpaq_consts.**  The constants the model was transcribed with are the values the Go type checker
computes for the named constants of /repo/v2/entropy (`Generated/Consts.lean`, regenerated from /repo
on every run): a changed mask, hash multiplier, learn rate or size breaks this obligation. -/
theorem C12_tpaq_consts :
    Kanzi.Generated.Consts.entropy._TPAQ_MAX_LENGTH = maxLength ∧
    Kanzi.Generated.Consts.entropy._TPAQ_BUFFER_SIZE = bufferSizeMax ∧
    Kanzi.Generated.Consts.entropy._TPAQ_HASH_SIZE = hashSizeMax ∧
    Kanzi.Generated.Consts.entropy._TPAQ_MASK_80808080 = mask80808080.toInt ∧
    Kanzi.Generated.Consts.entropy._TPAQ_MASK_F0F0F000 = maskF0F0F000.toInt ∧
    (Kanzi.Generated.Consts.entropy._TPAQ_MASK_4F4FFFFF : Int) = mask4F4FFFFF.toInt ∧
    Kanzi.Generated.Consts.entropy._TPAQ_MASK_FFFF0000 = maskFFFF0000.toInt ∧
    (Kanzi.Generated.Consts.entropy._TPAQ_HASH : Int) = hashK.toInt ∧
    (Kanzi.Generated.Consts.entropy._TPAQ_BEGIN_LEARN_RATE : Int) = beginLearnRate.toInt ∧
    (Kanzi.Generated.Consts.entropy._TPAQ_END_LEARN_RATE : Int) = endLearnRate.toInt ∧
    Kanzi.Generated.Consts.entropy.LOGISTIC_APM = 1 := by decide

/-- **C12_tpaq_tables.**  The tables of the model: `squashTab` / `stretchTab` are computed by the two loops
of `init()` (internal/Global.go) from `_INV_EXP`; they have 4096 entries, every `SQUASH` entry and every
value of `internal.Squash` is in `[0, 4095]`, every `STRETCH` entry is in `[-2047, 2047]` (proved from
the loops, for all entries); the literal tables have the lengths of the Go literals.  That these tables
ARE the ones of the Go program is tied by the `tables` line of the `tpaqpred` stream (hashes of the real
`internal.SQUASH`, `internal.STRETCH`, `_TPAQ_STATE_TRANSITIONS`, `_TPAQ_STATE_MAP`, `_TPAQ_MATCH_PRED`
obtained through `entropy.VerifTPAQTables`, compared with hashes of the model's tables). -/
theorem C12_tpaq_tables :
    squashTab.size = 4096 ∧ stretchTab.size = 4096 ∧
    (∀ i, 0 ≤ squashTab.getD i 0 ∧ squashTab.getD i 0 ≤ 4095) ∧
    (∀ d, 0 ≤ squash d ∧ squash d ≤ 4095) ∧
    (∀ i, -2047 ≤ stretchTab.getD i 0 ∧ stretchTab.getD i 0 ≤ 2047) ∧
    (∀ x, -2047 ≤ x → x ≤ 2047 → 0 ≤ squashEntry x ∧ squashEntry x ≤ 4095) ∧
    trans0.size = 256 ∧ trans1.size = 256 ∧ stateMap.size = 256 ∧ matchPred.size = 88 ∧ invExp.size = 33 :=
  ⟨squashTab_size, stretchTab_size, squashTab_getD, squash_range, stretchTab_getD, squashEntry_range,
   trans0_size, trans1_size, stateMap_size, matchPred_size, invExp_size⟩

/-! ### the predictor as a state machine (interface of the binary entropy coder) -/

/-- `get` : state before `Get()` ↦ the value returned -/
def tpaqPredGet (s : TPAQ) : Nat := (tpaqGet s).1
/-- `update` : state before `Get()`, bit ↦ state after `Get(); Update(bit)` -/
def tpaqPredUpdate (s : TPAQ) (b : Bool) : TPAQ := tpaqUpdate (tpaqGet s).2 b

/-- **C12_tpaq_pred_safe.**  The two fields of `Pred.Safe (Pred.ofImpure tpaqGet tpaqUpdate) TPAQ.R`
(`step`, `range`), plus the lower bound 1. -/
theorem C12_tpaq_pred_safe :
    (∀ s b, R s → R (tpaqPredUpdate s b)) ∧ (∀ s, R s → tpaqPredGet s ≤ 4095) ∧ (∀ s, R s → 1 ≤ tpaqPredGet s) :=
  ⟨fun _ b h => R_step h b, fun _ h => (get_range h).2, fun _ h => (get_range h).1⟩

/-! ### the hypotheses are satisfiable -/

/-- the parameters of a default stream (TPAQ, 4 MB blocks, a 1000 byte block, bitstream version 6) -/
example : ArgsOk (some { entropy := .str "TPAQ", blockSize := .uint 4194304, size := .uint 1000, bsVersion := .uint 6 }) :=
  ⟨Nat.le_of_lt_succ (by decide), Nat.le_of_lt_succ (by decide)⟩

example : ArgsOk none := trivial

/-- the table sizes of a nil context satisfy `SizesOk`, hence the fresh predictor satisfies `R` -/
example : ∃ z, sizesOf none = .ok z ∧ R (tpaqOfSizes z) :=
  ⟨_, rfl, R_ofSizes (sizesOf_ok (c := none) trivial rfl)⟩

end Kanzi.C12
