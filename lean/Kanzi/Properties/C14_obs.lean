/-
C14 (writer half) — the output bitstream appends exactly the bits it is given.
Property theorems only; proofs in `Kanzi/Proofs/OBS*.lean`.  The model (`Kanzi/Model/OBS.lean`)
mirrors `bitstream.DefaultOutputBitStream` (as repaired by the fixes for findings F-obs-1/2) and is
tied to /repo by the `obs` correspondence stream.  Specification: `Kanzi.Bits` (`Kanzi/Spec/Bits.lean`).

Vocabulary (defined in `Kanzi/Proofs/OBSCore.lean`, `OBS.lean`):
* `Inv s`     — stream open; buffer length ≥ 16 and a multiple of 8; `position` a multiple of 8 with
                `position + 8 ≤ len(buffer)`; `1 ≤ availBits ≤ 64`; the low `availBits` bits of `current` are 0.
* `Counted s` — `written = 8 * (number of bytes accepted by the sink)`.
* `Healthy s` — the sink never fails (`failAt k = false` for all k).
* `abs s`     — bits of the sink bytes ++ bits of `buffer[0, position)` ++ the top `64 - availBits` bits of `current`.
* `writtenOf s` — the value of `Written()` (as an integer, before the conversion to uint64).
-/
import Kanzi.Model.OBS
import Kanzi.Proofs.OBS

namespace Kanzi.C14
open Kanzi.OBS Kanzi.Bits

/-- `WriteBit(b)`: returns normally, keeps the invariant, appends the bit `b`; `Written()` is the
    number of bits written. -/
theorem C14_obs_writeBit (s : St) (b : Bool) (h : Inv s) (c : Counted s) (hh : Healthy s) :
    (writeBit s b).2 = .ok ∧ Inv (writeBit s b).1 ∧ abs (writeBit s b).1 = abs s ++ [b] ∧
      Counted (writeBit s b).1 ∧ Healthy (writeBit s b).1 ∧
      writtenOf (writeBit s b).1 = ((abs (writeBit s b).1).length : Int) ∧
      (writeBit s b).1.buffer.length = s.buffer.length :=
  res_healthy (writeBit_spec s b h) h c hh

/-- `WriteBits(v, n)` for every `n ≤ 64` (the Go code accepts `n = 0`, which appends nothing):
    appends the low `n` bits of `v`, most significant first.  Bits of `v` above `n` are ignored. -/
theorem C14_obs_writeBits (s : St) (v : BitVec 64) (n : Nat) (hn : n ≤ 64) (h : Inv s) (c : Counted s)
    (hh : Healthy s) :
    (writeBits s v n).2 = .ok ∧ Inv (writeBits s v n).1 ∧
      abs (writeBits s v n).1 = abs s ++ natBits v.toNat n ∧
      Counted (writeBits s v n).1 ∧ Healthy (writeBits s v n).1 ∧
      writtenOf (writeBits s v n).1 = ((abs (writeBits s v n).1).length : Int) ∧
      (writeBits s v n).1.buffer.length = s.buffer.length :=
  res_healthy (writeBits_spec s v n h hn) h c hh

/-- `WriteArray(bytes, k)` for every `k ≤ 8·len(bytes)`, every alignment, every position in the
    buffer, through the byte loops, the bulk copy and the 256-bit / 64-bit word loops: appends the
    first `k` bits of `bytes`.  Buffer length ≥ 40 (Go: ≥ 1024) is needed by the 256-bit loop. -/
theorem C14_obs_writeArray (s : St) (bytes : List Byte) (k : Nat) (hk : k ≤ 8 * bytes.length)
    (h : Inv s) (h40 : 40 ≤ s.buffer.length) (c : Counted s) (hh : Healthy s) :
    (writeArray s bytes k).2 = .ok ∧ Inv (writeArray s bytes k).1 ∧
      abs (writeArray s bytes k).1 = abs s ++ arrayBits (bytes.map BitVec.toNat) k ∧
      Counted (writeArray s bytes k).1 ∧ Healthy (writeArray s bytes k).1 ∧
      writtenOf (writeArray s bytes k).1 = ((abs (writeArray s bytes k).1).length : Int) ∧
      (writeArray s bytes k).1.buffer.length = s.buffer.length :=
  res_healthy (writeArray_spec s bytes k h h40 hk) h c hh

/-- Whole programs.  For every buffer size `bs ≥ 40` that is a multiple of 8 and every list of valid
    operations (`WriteBit`, `WriteBits` with `n ≤ 64`, `WriteArray` with `k ≤ 8·len`, `Written`) run
    on a fresh stream over a sink that never fails:
    every operation returns normally; after every prefix of the program `Written()` is the number
    of bits written so far; the final `Close` returns nil, the sink then holds exactly
    `packBytes` of all the bits (zero padded to a byte), the stream is closed and `Written()` is
    still the total number of bits. -/
theorem C14_obs_program (bs : Nat) (h40 : 40 ≤ bs) (h8 : bs % 8 = 0) (ops : List Op)
    (hv : ∀ op ∈ ops, op.valid) :
    (∀ o ∈ (run (init bs (fun _ => false)) ops).2, o = .ok) ∧
    (∀ i, writtenOf (run (init bs (fun _ => false)) (ops.take i)).1 =
            (((ops.take i).flatMap opBits).length : Int)) ∧
    (close (run (init bs (fun _ => false)) ops).1).2 = .ok ∧
    (close (run (init bs (fun _ => false)) ops).1).1.sink.map BitVec.toNat = packBytes (ops.flatMap opBits) ∧
    (close (run (init bs (fun _ => false)) ops).1).1.closed = true ∧
    writtenOf (close (run (init bs (fun _ => false)) ops).1).1 = ((ops.flatMap opBits).length : Int) := by
  have hi := init_inv bs (fun _ => false) (by omega) h8
  have hl : 40 ≤ (init bs (fun _ => false)).buffer.length := by rw [init_len]; exact h40
  have hp : ∀ k, (init bs (fun _ => false)).failAt k = false := fun _ => rfl
  have key : ∀ l : List Op, (∀ op ∈ l, op.valid) →
      Step (init bs (fun _ => false)) (run (init bs (fun _ => false)) l).1 (l.flatMap opBits) :=
    fun l hl' => run_ok l _ hi hl hl' (run_healthy l _ hi hl hl' hp)
  have wr : ∀ l : List Op, (∀ op ∈ l, op.valid) →
      writtenOf (run (init bs (fun _ => false)) l).1 = ((l.flatMap opBits).length : Int) := by
    intro l hl'
    have st := key l hl'
    rw [written_eq _ st.inv (st.counted (init_counted _ _)), st.sabs, init_abs, List.nil_append]
  have st := key ops hv
  have hc := close_healthy _ st.inv (by rw [st.plan]; rfl)
  refine ⟨run_healthy ops _ hi hl hv hp, fun i => wr _ (valid_take ops i hv), hc.1, ?_, hc.2.cl, ?_⟩
  · rw [hc.2.image, st.sabs, init_abs, List.nil_append]
  · rw [hc.2.wr]; exact wr ops hv

/-- A successful `Close` leaves a closed stream; on a closed stream every write operation panics
    (`Stream closed`; `WriteBits` with a count above 64 still reports the invalid count) and
    leaves the whole state — sink, number of sink calls, `Written()` — unchanged; `Close` is
    idempotent (returns nil again, no sink call). -/
theorem C14_obs_closed (s : St) (h : Inv s) (hok : (close s).2 = .ok) :
    ClosedSt (close s).1 ∧
    ∀ t, ClosedSt t →
      (∀ b, writeBit t b = (t, .panic .closed)) ∧
      (∀ v n, n ≤ 64 → writeBits t v n = (t, .panic .closed)) ∧
      (∀ v n, 64 < n → writeBits t v n = (t, .panic .invalidCount)) ∧
      (∀ bytes k, writeArray t bytes k = (t, .panic .closed)) ∧
      close t = (t, .ok) := by
  constructor
  · rcases close_spec s h with ⟨_, c⟩ | ⟨e, _⟩
    · exact closeOk_closed c
    · rw [hok] at e; cases e
  · intro t ht
    refine ⟨fun b => closed_writeBit t b ht, ?_, ?_, fun bytes k => closed_writeArray t bytes k ht,
      closed_close t ht⟩
    · intro v n hn
      rw [closed_writeBits t v n ht, if_neg (by omega)]
    · intro v n hn
      rw [closed_writeBits t v n ht, if_pos hn]

/-- the hypotheses are satisfiable: the constructor's state for the smallest Go buffer -/
example : Inv (init 1024 (fun _ => false)) ∧ Counted (init 1024 (fun _ => false)) ∧
    Healthy (init 1024 (fun _ => false)) ∧ 40 ≤ (init 1024 (fun _ => false)).buffer.length :=
  ⟨init_inv _ _ (by omega) (by omega), init_counted _ _, fun _ => rfl, by rw [init_len]; omega⟩

end Kanzi.C14
