// Reproducer for the SRT findings of the `srt` slice (C13).  Run: go run ./srt [big]
//   1-3: Inverse panics on forged input (index out of range)
//   4:   a block with a symbol occurring 2^28 times (5-byte varint in the header): did not round-trip before ee98bca
//   5:   (with "big", needs ~1.6 GB) header of 1025 bytes > old _SRT_MAX_HEADER_SIZE: Forward panicked before ee98bca
//        with a destination of exactly MaxEncodedLen bytes
package main

import (
	"bytes"
	"fmt"
	"os"

	"github.com/flanglet/kanzi-go/v2/transform"
)

func try(name string, f func()) {
	defer func() {
		if r := recover(); r != nil {
			fmt.Printf("%s: PANIC %v\n", name, r)
		}
	}()
	f()
}

func main() {
	try("1 inverse, 1-byte input", func() {
		t, _ := transform.NewSRT()
		r, w, err := t.Inverse([]byte{0}, make([]byte, 16))
		fmt.Println("1:", r, w, err)
	})
	try("2 inverse, header {0:1, 1:1} + 1 data byte", func() {
		t, _ := transform.NewSRT()
		src := make([]byte, 257)
		src[0], src[1] = 1, 1
		r, w, err := t.Inverse(src, make([]byte, 16))
		fmt.Println("2:", r, w, err)
	})
	try("3 inverse, header {0:5} + 1 data byte", func() {
		t, _ := transform.NewSRT()
		src := make([]byte, 257)
		src[0] = 5
		r, w, err := t.Inverse(src, make([]byte, 16))
		fmt.Println("3:", r, w, err)
	})
	try("4 round trip of 2^28 equal bytes", func() {
		t, _ := transform.NewSRT()
		n := 1 << 28
		src := make([]byte, n)
		dst := make([]byte, t.MaxEncodedLen(n))
		_, w, err := t.Forward(src, dst)
		fmt.Println("4: forward", w, err, "header starts", dst[:6])
		out := make([]byte, n)
		_, w2, err2 := t.Inverse(dst[:w], out)
		fmt.Println("4: inverse", w2, err2, "equal:", err2 == nil && bytes.Equal(out[:w2], src))
	})
	if len(os.Args) > 1 && os.Args[1] == "big" {
		try("5 forward, 1025-byte header", func() {
			t, _ := transform.NewSRT()
			var src []byte
			src = append(src, bytes.Repeat([]byte{0}, 1<<28)...)
			for s := 1; s < 256; s++ {
				src = append(src, bytes.Repeat([]byte{byte(s)}, 1<<21)...)
			}
			dst := make([]byte, t.MaxEncodedLen(len(src)))
			r, w, err := t.Forward(src, dst)
			fmt.Println("5:", len(src), r, w, err, "MaxEncodedLen", t.MaxEncodedLen(len(src)))
		})
	}
}
