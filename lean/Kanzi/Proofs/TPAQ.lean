/-
Proofs about the TPAQ / TPAQX predictor model (`Kanzi/Model/TPAQ.lean`): the invariant `Inv` / `R`,
its preservation by every phase of `Update`, the range of `Get()`, absence of index faults.
-/
import Kanzi.Model.TPAQ
import Kanzi.Proofs.TPAQBits
import Kanzi.Proofs.TPAQTables

namespace Kanzi.TPAQ

/- the computed tables are opaque to the elaborator in this file (nothing below evaluates them) -/
attribute [local irreducible] squashTab stretchTab stretchList

/-! ### small facts -/

theorem chk_true (s : TPAQ) {ok : Bool} (h : ok = true) : chk s ok = s := by simp [chk, h]

theorem inb_of {x : Int} {n : Nat} (h0 : 0 ≤ x) (h1 : x < n) : inb x n = true := by
  simp [inb]; omega

theorem lit_ff : (0xFF : Int32).toInt = 255 := by decide
theorem lit_ffff : (0xFFFF : Int32).toInt = 65535 := by decide
theorem lit_1 : (1 : Int32).toInt = 1 := by decide
theorem lit_2 : (2 : Int32).toInt = 2 := by decide
theorem lit_0 : (0 : Int32).toInt = 0 := by decide
theorem lit_88 : (88 : Int32).toInt = 88 := by decide

/-- upper bound (exclusive) of `c0` when `bpos` bits of the current byte are still to come -/
def c0cap (bpos : Nat) : Int := 2 ^ (9 - bpos)

theorem c0cap_8 : c0cap 8 = 2 := by decide
theorem c0cap_step (b : Nat) (h1 : 1 ≤ b) (h8 : b ≤ 8) : c0cap (b - 1) = 2 * c0cap b := by
  have : b = 1 ∨ b = 2 ∨ b = 3 ∨ b = 4 ∨ b = 5 ∨ b = 6 ∨ b = 7 ∨ b = 8 := by omega
  rcases this with rfl | rfl | rfl | rfl | rfl | rfl | rfl | rfl <;> decide
theorem c0cap_le (b : Nat) (h8 : b ≤ 8) : c0cap b ≤ 512 ∧ (1 ≤ b → c0cap b ≤ 256) := by
  have : b = 0 ∨ b = 1 ∨ b = 2 ∨ b = 3 ∨ b = 4 ∨ b = 5 ∨ b = 6 ∨ b = 7 ∨ b = 8 := by omega
  rcases this with rfl | rfl | rfl | rfl | rfl | rfl | rfl | rfl | rfl <;> decide

/-! ### the adaptive probability map -/

/-- an APM with `n` contexts: `33 n` cells, and the two cells of the last call are inside -/
def ApmOk (a : APM) (n : Nat) : Prop := a.data.size = 33 * n ∧ 0 ≤ a.index ∧ a.index + 1 < 33 * n

theorem apmIndex_bounds (pr ctx : Int) : 33 * ctx ≤ apmIndex pr ctx ∧ apmIndex pr ctx ≤ 33 * ctx + 31 := by
  unfold apmIndex
  have := stretchAt_range pr
  rw [Int.shiftRight_eq_div_pow]
  omega

theorem apmInterp_range (d : Tab UInt16) (idx pr : Int) : 0 ≤ apmInterp d idx pr ∧ apmInterp d idx pr ≤ 4095 := by
  unfold apmInterp
  have hw0 := Int.emod_nonneg (stretchAt pr) (show (128 : Int) ≠ 0 by decide)
  have hw1 := Int.emod_lt_of_pos (stretchAt pr) (show (0 : Int) < 128 by decide)
  generalize stretchAt pr % 128 = w at *
  have ha : (0 : Int) ≤ ((d.get (idx + 1).toNat).toNat : Int) ∧ ((d.get (idx + 1).toNat).toNat : Int) ≤ 65535 := by
    have := UInt16.toNat_lt (d.get (idx + 1).toNat); omega
  have hb : (0 : Int) ≤ ((d.get idx.toNat).toNat : Int) ∧ ((d.get idx.toNat).toNat : Int) ≤ 65535 := by
    have := UInt16.toNat_lt (d.get idx.toNat); omega
  generalize ((d.get (idx + 1).toNat).toNat : Int) = a at *
  generalize ((d.get idx.toNat).toNat : Int) = b at *
  have ha0 : 0 ≤ a := ha.1
  have hb0 : 0 ≤ b := hb.1
  have e1 : 0 ≤ a * w := Int.mul_nonneg ha0 hw0
  have e2 : 0 ≤ b * (128 - w) := Int.mul_nonneg hb0 (by omega)
  have e3 : a * w ≤ 65535 * w := Int.mul_le_mul_of_nonneg_right (by omega) hw0
  have e4 : b * (128 - w) ≤ 65535 * (128 - w) := Int.mul_le_mul_of_nonneg_right (by omega) (by omega)
  rw [Int.shiftRight_eq_div_pow]
  generalize a * w = x at *
  generalize b * (128 - w) = y at *
  omega

theorem apmTrain_size (a : APM) (bit : Bool) : (apmTrain a bit).1.data.size = a.data.size := rfl
theorem apmTrain_index (a : APM) (bit : Bool) : (apmTrain a bit).1.index = a.index := rfl

theorem apmTrain_ok {a : APM} {n : Nat} (h : ApmOk a n) (bit : Bool) : (apmTrain a bit).2 = true := by
  obtain ⟨h1, h2, h3⟩ := h
  show (inb (a.index + 1) a.data.size && inb a.index a.data.size) = true
  simp only [Bool.and_eq_true]
  exact ⟨inb_of (by omega) (by omega), inb_of h2 (by omega)⟩

theorem apmGet_val (a : APM) (bit : Bool) (pr ctx : Int) :
    (apmGet a bit pr ctx).1 = apmInterp (apmTrain a bit).1.data (apmIndex pr ctx) pr := rfl
theorem apmGet_index (a : APM) (bit : Bool) (pr ctx : Int) :
    (apmGet a bit pr ctx).2.1.index = apmIndex pr ctx := rfl
theorem apmGet_size (a : APM) (bit : Bool) (pr ctx : Int) :
    (apmGet a bit pr ctx).2.1.data.size = a.data.size := rfl
theorem apmGet_flag (a : APM) (bit : Bool) (pr ctx : Int) :
    (apmGet a bit pr ctx).2.2 = ((apmTrain a bit).2 && inb pr 4096 && inb (apmIndex pr ctx + 1) a.data.size &&
      inb (apmIndex pr ctx) a.data.size) := rfl

/-- one call of `Get` with a probability in `[0, 4095]` and a context in `[0, n)`: no index fault, the
map stays well formed, the result is in `[0, 4095]` -/
theorem apmGet_ok {a : APM} {n : Nat} (h : ApmOk a n) (bit : Bool) {pr ctx : Int}
    (hp : 0 ≤ pr ∧ pr ≤ 4095) (hc : 0 ≤ ctx ∧ ctx < n) :
    (apmGet a bit pr ctx).2.2 = true ∧ ApmOk (apmGet a bit pr ctx).2.1 n ∧
    0 ≤ (apmGet a bit pr ctx).1 ∧ (apmGet a bit pr ctx).1 ≤ 4095 := by
  have hi := apmIndex_bounds pr ctx
  have hs := h.1
  refine ⟨?_, ⟨?_, ?_, ?_⟩, ?_⟩
  · rw [apmGet_flag, apmTrain_ok h bit, hs]
    simp only [Bool.and_eq_true, Bool.true_and]
    exact ⟨⟨inb_of hp.1 (by omega), inb_of (by omega) (by omega)⟩, inb_of (by omega) (by omega)⟩
  · rw [apmGet_size]; exact hs
  · rw [apmGet_index]; omega
  · rw [apmGet_index]; omega
  · rw [apmGet_val]; exact apmInterp_range _ _ _

theorem apmNew_ok (n rate : Nat) (hn : 1 ≤ n) : ApmOk (apmNew n rate) n := by
  refine ⟨?_, by simp [apmNew], ?_⟩
  · show (if n * 33 = 0 then 33 else n * 33) = 33 * n
    split <;> omega
  · show (0 : Int) + 1 < 33 * n
    omega

/-! ### the mixer -/

theorem mixerGet_pr (m : Mixer) (p0 p1 p2 p3 p4 p5 p6 p7 : Int32) :
    (mixerGet m p0 p1 p2 p3 p4 p5 p6 p7).pr = squash (mixerDot m p0 p1 p2 p3 p4 p5 p6 p7) := by
  simp only [mixerGet]

theorem mixed_mix_range (s : TPAQ) (p0 p1 p2 p3 p4 p5 p6 p7 : Int32) :
    0 ≤ mixed (mix s p0 p1 p2 p3 p4 p5 p6 p7) ∧ mixed (mix s p0 p1 p2 p3 p4 p5 p6 p7) ≤ 4095 := by
  unfold mixed mix
  simp only [Array.getD_eq_getD_getElem?, Array.getElem?_modify, if_true]
  cases s.mixers[s.mixer]? with
  | none =>
    show (0 : Int) ≤ 2048 ∧ (2048 : Int) ≤ 4095
    omega
  | some m =>
    simp only [Option.map_some, Option.getD_some, mixerGet_pr]
    exact squash_range _

theorem finalPr_range {p : Int} (h0 : 0 ≤ p) (h1 : p ≤ 4095) : 1 ≤ finalPr p ∧ finalPr p ≤ 4095 := by
  unfold finalPr; omega

/-- `p + int(uint32(p-2048)>>31)` adds 1 exactly below 2048 -/
theorem finalPr_eq {p : Int} (h0 : 0 ≤ p) (h1 : p ≤ 4095) : finalPr p = if p < 2048 then p + 1 else p := by
  unfold finalPr; split <;> omega

/-! ### the invariant -/

/-- The invariant of the predictor.  `lo = 1`: between two calls of `Update` (`R`); `lo = 0`: inside
`Update`, after `bpos--` (then `bpos = 0` means "a whole byte has been read"). -/
structure Inv (lo : Nat) (s : TPAQ) : Prop where
  fault : s.fault = false
  pr : 1 ≤ s.pr ∧ s.pr ≤ 4095
  bpos : lo ≤ s.bpos ∧ s.bpos ≤ 8
  c0 : 1 ≤ s.c0.toInt ∧ s.c0.toInt < c0cap s.bpos
  matchLen : 0 ≤ s.matchLen.toInt ∧ s.matchLen.toInt ≤ 88
  hash : 0 ≤ s.hash.toInt ∧ s.hash.toInt < s.hashes.size
  statesMask : 0 ≤ s.statesMask.toInt ∧ s.statesMask.toInt < s.bigStatesMap.size
  mixersMask : 0 ≤ s.mixersMask.toInt ∧ s.mixersMask.toInt + 1 < s.mixers.size ∧ s.mixersMask.toInt < 2147483647
  hashMask : 0 ≤ s.hashMask.toInt ∧ s.hashMask.toInt < s.hashes.size
  bufferMask : 0 ≤ s.bufferMask.toInt ∧ s.bufferMask.toInt < s.buffer.size
  small0 : s.smallStatesMap0.size = 65536
  small1 : s.smallStatesMap1.size = 16777216
  mixer : s.mixer < s.mixers.size
  ctx0 : 0 ≤ s.ctx0.toInt ∧ s.ctx0.toInt ≤ 65280
  ctx1 : 0 ≤ s.ctx1.toInt ∧ s.ctx1.toInt ≤ 16776960
  sse0 : ApmOk s.sse0 256
  sse1 : s.extra = true → ApmOk s.sse1 65536
  cp0 : s.cp0 < s.smallStatesMap0.size
  cp1 : s.cp1 < s.smallStatesMap1.size
  cp2 : s.cp2 < s.bigStatesMap.size
  cp3 : s.cp3 < s.bigStatesMap.size
  cp4 : s.cp4 < s.bigStatesMap.size
  cp5 : s.cp5 < s.bigStatesMap.size
  cp6 : s.cp6 < s.bigStatesMap.size

/-- the invariant between two calls -/
abbrev R (s : TPAQ) : Prop := Inv 1 s

theorem Inv.c0_byte {s : TPAQ} (h : Inv 1 s) : 1 ≤ s.c0.toInt ∧ s.c0.toInt ≤ 255 := by
  have := (c0cap_le s.bpos h.bpos.2).2 h.bpos.1
  have := h.c0
  omega

/-! ### Update, phase by phase -/

theorem inv_trainMixer {lo : Nat} {s : TPAQ} (h : Inv lo s) (bit : Bool) : Inv lo (trainMixer s bit) := by
  unfold trainMixer
  exact { h with
    mixersMask := by simpa using h.mixersMask
    mixer := by simpa using h.mixer }

theorem inv_shiftBit {s : TPAQ} (h : Inv 1 s) (bit : Bool) : Inv 0 (shiftBit s bit) := by
  have hb := h.bpos
  have hc := h.c0_byte
  have hcap := c0cap_step s.bpos hb.1 hb.2
  have hc0 := h.c0
  have eb : (s.bpos + 18446744073709551615) % 18446744073709551616 = s.bpos - 1 := by omega
  have e1 : (s.c0 + (if bit = true then (1 : Int32) else 0)).toInt = s.c0.toInt + (if bit = true then 1 else 0) := by
    cases bit
    · simp only [Bool.false_eq_true, if_false]; rw [toInt_add_of _ _ (by rw [lit_0]; omega) (by rw [lit_0]; omega), lit_0]
    · simp only [if_true]; rw [toInt_add_of _ _ (by rw [lit_1]; omega) (by rw [lit_1]; omega), lit_1]
  have e2 : (s.c0 + (s.c0 + (if bit = true then (1 : Int32) else 0))).toInt =
      2 * s.c0.toInt + (if bit = true then 1 else 0) := by
    rw [toInt_add_of _ _ (by rw [e1]; split <;> omega) (by rw [e1]; split <;> omega), e1]; omega
  unfold shiftBit
  exact { h with
    bpos := by
      show 0 ≤ (s.bpos + 18446744073709551615) % 18446744073709551616 ∧
        (s.bpos + 18446744073709551615) % 18446744073709551616 ≤ 8
      omega
    c0 := by
      show 1 ≤ (s.c0 + (s.c0 + (if bit = true then (1 : Int32) else 0))).toInt ∧
        (s.c0 + (s.c0 + (if bit = true then (1 : Int32) else 0))).toInt < c0cap ((s.bpos + 18446744073709551615) % 18446744073709551616)
      rw [e2, eb, hcap]; split <;> omega }

/-! #### the byte boundary block -/

theorem inv_storeByte {lo : Nat} {s : TPAQ} (h : Inv lo s) : Inv lo (storeByte s) := by
  have hm := and_mask s.pos s.bufferMask h.bufferMask.1
  have hb := h.bufferMask.2
  unfold storeByte
  rw [chk_true _ (inb_of hm.1 (by omega))]
  exact { h with bufferMask := h.bufferMask }

theorem inv_rollBytes {s : TPAQ} (h : Inv 0 s) : Inv 1 (rollBytes s) := by
  have hm := and_mask (((s.hash * hashK) <<< 4) + ((s.c4 <<< 8) ||| (s.c0 &&& 0xFF))) s.hashMask h.hashMask.1
  unfold rollBytes
  dsimp only
  exact { h with
    bpos := by show 1 ≤ 8 ∧ 8 ≤ 8; omega
    c0 := by show 1 ≤ (1 : Int32).toInt ∧ (1 : Int32).toInt < c0cap 8; rw [lit_1, c0cap_8]; omega
    hash := ⟨hm.1, Int.lt_of_le_of_lt hm.2 h.hashMask.2⟩ }

theorem inv_selectMixer {lo : Nat} {s : TPAQ} (h : Inv lo s) : Inv lo (selectMixer s) := by
  have hm := and_mask s.c4 s.mixersMask h.mixersMask.1
  have hmm := h.mixersMask
  have e1 : ((s.c4 &&& s.mixersMask) + 1).toInt = (s.c4 &&& s.mixersMask).toInt + 1 := by
    rw [toInt_add_of _ _ (by rw [lit_1]; omega) (by rw [lit_1]; omega), lit_1]
  unfold selectMixer
  by_cases hml : (s.matchLen != 0) = true
  · simp only [hml, if_true]
    rw [chk_true _ (inb_of (by omega) (by omega))]
    exact { h with mixer := by show ((s.c4 &&& s.mixersMask) + 1).toInt.toNat < s.mixers.size; omega }
  · simp only [hml, if_false]
    rw [chk_true _ (inb_of (by omega) (by omega))]
    exact { h with mixer := by show (s.c4 &&& s.mixersMask).toInt.toNat < s.mixers.size; omega }

theorem ctx0_range (c4 : Int32) : 0 ≤ ((c4 &&& 0xFF) <<< (8 : Int32)).toInt ∧ ((c4 &&& 0xFF) <<< (8 : Int32)).toInt ≤ 65280 := by
  have a0 := and_mask c4 0xFF (by rw [lit_ff]; omega)
  rw [lit_ff] at a0
  rw [shl8_small _ a0.1 (by omega)]
  omega

theorem ctx1_range (c4 : Int32) : 0 ≤ ((c4 &&& 0xFFFF) <<< (8 : Int32)).toInt ∧ ((c4 &&& 0xFFFF) <<< (8 : Int32)).toInt ≤ 16776960 := by
  have a0 := and_mask c4 0xFFFF (by rw [lit_ffff]; omega)
  rw [lit_ffff] at a0
  rw [shl8_small _ a0.1 (by omega)]
  omega

theorem inv_setContexts {lo : Nat} {s : TPAQ} (h : Inv lo s) : Inv lo (setContexts s) := by
  unfold setContexts
  dsimp only
  split
  · exact { h with ctx0 := ctx0_range s.c4, ctx1 := ctx1_range s.c4 }
  · exact { h with ctx0 := ctx0_range s.c4, ctx1 := ctx1_range s.c4 }

/-- the match loop started with `2 <= r <= 90`: `r` stays in that range and, the mask being inside the
buffer, no read faults -/
theorem findLoop_ok (buf : Tab UInt8) (mask : Int32) (hm : 0 ≤ mask.toInt ∧ mask.toInt < buf.size) :
    ∀ (fuel : Nat) (r s t : Int32) (ok : Bool), 2 ≤ r.toInt → r.toInt ≤ 90 →
      2 ≤ (findLoop buf mask fuel r s t ok).1.toInt ∧ (findLoop buf mask fuel r s t ok).1.toInt ≤ 90 ∧
      (findLoop buf mask fuel r s t ok).2 = ok := by
  intro fuel
  induction fuel with
  | zero => intro r s t ok h1 h2; exact ⟨h1, h2, rfl⟩
  | succ n ih =>
    intro r s t ok h1 h2
    have m1 := and_mask (s - 1) mask hm.1
    have m2 := and_mask (t - 1) mask hm.1
    have m3 := and_mask s mask hm.1
    have m4 := and_mask t mask hm.1
    have hlt := hm.2
    have k1 : inb ((s - 1) &&& mask).toInt buf.size = true := inb_of m1.1 (by omega)
    have k2 : inb ((t - 1) &&& mask).toInt buf.size = true := inb_of m2.1 (by omega)
    have k3 : inb (s &&& mask).toInt buf.size = true := inb_of m3.1 (by omega)
    have k4 : inb (t &&& mask).toInt buf.size = true := inb_of m4.1 (by omega)
    unfold findLoop
    simp only [k1, k2, k3, k4, Bool.and_true]
    split
    · rename_i hr
      rw [Int32.le_iff_toInt_le, lit_88] at hr
      split
      · exact ⟨h1, h2, rfl⟩
      · split
        · exact ⟨h1, h2, rfl⟩
        · have e : (r + 2).toInt = r.toInt + 2 := by
            rw [toInt_add_of _ _ (by rw [lit_2]; omega) (by rw [lit_2]; omega), lit_2]
          exact ih (r + 2) (s - 2) (t - 2) ok (by omega) (by omega)
    · exact ⟨h1, h2, rfl⟩

theorem inv_findMatch {lo : Nat} {s : TPAQ} (h : Inv lo s) : Inv lo (findMatch s) := by
  have hml := h.matchLen
  unfold findMatch
  split
  · rename_i hpos
    have hpos : 0 < s.matchLen.toInt := by
      have := Int32.lt_iff_toInt_lt.1 hpos; rw [lit_0] at this; exact this
    exact { h with
      matchLen := by
        show 0 ≤ (if s.matchLen < 88 then s.matchLen + 1 else s.matchLen).toInt ∧
          (if s.matchLen < 88 then s.matchLen + 1 else s.matchLen).toInt ≤ 88
        split
        · rename_i h88
          have h88 := Int32.lt_iff_toInt_lt.1 h88
          rw [lit_88] at h88
          rw [toInt_add_of _ _ (by rw [lit_1]; omega) (by rw [lit_1]; omega), lit_1]; omega
        · omega }
  · rename_i hpos
    have hz : s.matchLen.toInt = 0 := by
      have : ¬ (0 : Int32).toInt < s.matchLen.toInt := fun c => hpos (Int32.lt_iff_toInt_lt.2 c)
      rw [lit_0] at this; omega
    have hh := h.hash
    rw [chk_true _ (inb_of hh.1 hh.2)]
    dsimp only
    split
    · have er : (s.matchLen + 2).toInt = 2 := by
        rw [toInt_add_of _ _ (by rw [lit_2]; omega) (by rw [lit_2]; omega), lit_2]; omega
      have fl := findLoop_ok s.buffer s.bufferMask h.bufferMask (findFuel (s.matchLen + 2)) (s.matchLen + 2)
        (s.pos - (s.matchLen + 2)) (s.hashes.get s.hash.toInt.toNat - (s.matchLen + 2)) true (by omega) (by omega)
      rw [chk_true _ fl.2.2]
      exact { h with
        matchLen := by
          show 0 ≤ ((findLoop s.buffer s.bufferMask (findFuel (s.matchLen + 2)) (s.matchLen + 2)
              (s.pos - (s.matchLen + 2)) (s.hashes.get s.hash.toInt.toNat - (s.matchLen + 2)) true).1 - 2).toInt ∧
            ((findLoop s.buffer s.bufferMask (findFuel (s.matchLen + 2)) (s.matchLen + 2)
              (s.pos - (s.matchLen + 2)) (s.hashes.get s.hash.toInt.toNat - (s.matchLen + 2)) true).1 - 2).toInt ≤ 88
          rw [toInt_sub_of _ _ (by rw [lit_2]; omega) (by rw [lit_2]; omega), lit_2]; omega }
    · exact { h with matchLen := h.matchLen }

theorem inv_loadMatchVal {lo : Nat} {s : TPAQ} (h : Inv lo s) : Inv lo (loadMatchVal s) := by
  have hm := and_mask s.matchPos s.bufferMask h.bufferMask.1
  have hb := h.bufferMask.2
  unfold loadMatchVal
  rw [chk_true _ (inb_of hm.1 (by omega))]
  exact { h with matchLen := h.matchLen }

theorem inv_storeHash {lo : Nat} {s : TPAQ} (h : Inv lo s) : Inv lo (storeHash s) := by
  have hh := h.hash
  unfold storeHash
  rw [chk_true _ (inb_of hh.1 hh.2)]
  exact { h with hash := h.hash, hashMask := h.hashMask }

theorem inv_byteBoundary {s : TPAQ} (h : Inv 0 s) : Inv 1 (byteBoundary s) :=
  inv_storeHash (inv_loadMatchVal (inv_findMatch (inv_setContexts (inv_selectMixer (inv_rollBytes (inv_storeByte h))))))

/-! #### the prediction part -/

theorem Tab.size_set {α : Type} (t : Tab α) (i : Nat) (v : α) : (t.set i v).size = t.size := rfl
theorem bump_size (t : Tab UInt8) (bit : Bool) (cp : Nat) : (bump t bit cp).size = t.size := rfl

theorem bump4_size (t : Tab UInt8) (bit : Bool) (a b c d : Nat) :
    (bump (bump (bump (bump t bit a) bit b) bit c) bit d).size = t.size := by
  simp only [bump_size]

theorem inv_bumpStates {lo : Nat} {s : TPAQ} (h : Inv lo s) (bit : Bool) : Inv lo (bumpStates s bit) := by
  unfold bumpStates
  exact { h with
    statesMask := by
      show 0 ≤ s.statesMask.toInt ∧ s.statesMask.toInt < (bump (bump (bump (bump s.bigStatesMap bit s.cp2) bit s.cp3) bit s.cp4) bit s.cp5).size
      rw [bump4_size]; exact h.statesMask
    small0 := by show (bump s.smallStatesMap0 bit s.cp0).size = 65536; rw [bump_size]; exact h.small0
    small1 := by show (bump s.smallStatesMap1 bit s.cp1).size = 16777216; rw [bump_size]; exact h.small1
    cp0 := by show s.cp0 < (bump s.smallStatesMap0 bit s.cp0).size; rw [bump_size]; exact h.cp0
    cp1 := by show s.cp1 < (bump s.smallStatesMap1 bit s.cp1).size; rw [bump_size]; exact h.cp1
    cp2 := by
      show s.cp2 < (bump (bump (bump (bump s.bigStatesMap bit s.cp2) bit s.cp3) bit s.cp4) bit s.cp5).size
      rw [bump4_size]; exact h.cp2
    cp3 := by
      show s.cp3 < (bump (bump (bump (bump s.bigStatesMap bit s.cp2) bit s.cp3) bit s.cp4) bit s.cp5).size
      rw [bump4_size]; exact h.cp3
    cp4 := by
      show s.cp4 < (bump (bump (bump (bump s.bigStatesMap bit s.cp2) bit s.cp3) bit s.cp4) bit s.cp5).size
      rw [bump4_size]; exact h.cp4
    cp5 := by
      show s.cp5 < (bump (bump (bump (bump s.bigStatesMap bit s.cp2) bit s.cp3) bit s.cp4) bit s.cp5).size
      rw [bump4_size]; exact h.cp5
    cp6 := by
      show s.cp6 < (bump (bump (bump (bump s.bigStatesMap bit s.cp2) bit s.cp3) bit s.cp4) bit s.cp5).size
      rw [bump4_size]; exact h.cp6 }

theorem inv_movePtrs {s : TPAQ} (h : Inv 1 s) : Inv 1 (movePtrs s) := by
  have hc := h.c0_byte
  have h0 := h.ctx0
  have h1 := h.ctx1
  have hs := h.statesMask
  have e0 : (s.ctx0 + s.c0).toInt = s.ctx0.toInt + s.c0.toInt := toInt_add_of _ _ (by omega) (by omega)
  have e1 : (s.ctx1 + s.c0).toInt = s.ctx1.toInt + s.c0.toInt := toInt_add_of _ _ (by omega) (by omega)
  have m2 := and_mask (s.ctx2 + s.c0) s.statesMask hs.1
  have m3 := and_mask (s.ctx3 + s.c0) s.statesMask hs.1
  have m4 := and_mask (s.ctx4 + s.c0) s.statesMask hs.1
  have m5 := and_mask (s.ctx5 ^^^ s.c0) s.statesMask hs.1
  have k0 : inb (s.ctx0 + s.c0).toInt s.smallStatesMap0.size = true := inb_of (by omega) (by rw [h.small0]; omega)
  have k1 : inb (s.ctx1 + s.c0).toInt s.smallStatesMap1.size = true := inb_of (by omega) (by rw [h.small1]; omega)
  have k2 : inb ((s.ctx2 + s.c0) &&& s.statesMask).toInt s.bigStatesMap.size = true := inb_of m2.1 (by omega)
  have k3 : inb ((s.ctx3 + s.c0) &&& s.statesMask).toInt s.bigStatesMap.size = true := inb_of m3.1 (by omega)
  have k4 : inb ((s.ctx4 + s.c0) &&& s.statesMask).toInt s.bigStatesMap.size = true := inb_of m4.1 (by omega)
  have k5 : inb ((s.ctx5 ^^^ s.c0) &&& s.statesMask).toInt s.bigStatesMap.size = true := inb_of m5.1 (by omega)
  unfold movePtrs
  dsimp only
  rw [chk_true _ (by simp only [k0, k1, k2, k3, k4, k5, Bool.and_true])]
  exact { h with
    cp0 := by show (s.ctx0 + s.c0).toInt.toNat < s.smallStatesMap0.size; rw [h.small0]; omega
    cp1 := by show (s.ctx1 + s.c0).toInt.toNat < s.smallStatesMap1.size; rw [h.small1]; omega
    cp2 := by show ((s.ctx2 + s.c0) &&& s.statesMask).toInt.toNat < s.bigStatesMap.size; omega
    cp3 := by show ((s.ctx3 + s.c0) &&& s.statesMask).toInt.toNat < s.bigStatesMap.size; omega
    cp4 := by show ((s.ctx4 + s.c0) &&& s.statesMask).toInt.toNat < s.bigStatesMap.size; omega
    cp5 := by show ((s.ctx5 ^^^ s.c0) &&& s.statesMask).toInt.toNat < s.bigStatesMap.size; omega }

theorem inv_matchContextPred {s : TPAQ} (h : Inv 1 s) (hne : (s.matchLen != 0) = true) :
    Inv 1 (matchContextPred s).2 := by
  have hml := h.matchLen
  have hnz := (ne_zero_iff _).1 hne
  have e : (s.matchLen - 1).toInt = s.matchLen.toInt - 1 := by
    rw [toInt_sub_of _ _ (by rw [lit_1]; omega) (by rw [lit_1]; omega), lit_1]
  unfold matchContextPred
  dsimp only
  split
  · show Inv 1 (chk s (inb (s.matchLen - 1).toInt maxLength))
    rw [chk_true _ (inb_of (by omega) (by show (s.matchLen - 1).toInt < ((88 : Nat) : Int); omega))]
    exact h
  · exact { h with matchLen := by show 0 ≤ (0 : Int32).toInt ∧ (0 : Int32).toInt ≤ 88; rw [lit_0]; omega }

/-- the state after `p7 := 0; if this.matchLen != 0 { p7 = this.getMatchContextPred() }` -/
theorem inv_match {s : TPAQ} (h : Inv 1 s) :
    Inv 1 (if (s.matchLen != 0) = true then matchContextPred s else ((0 : Int32), s)).2 := by
  split
  · rename_i hne; exact inv_matchContextPred h hne
  · exact h

theorem inv_stepPtr6 {s : TPAQ} (h : Inv 1 s) (bit : Bool) : Inv 1 (stepPtr6 s bit) := by
  have hs := h.statesMask
  have m6 := and_mask (s.ctx6 + s.c0) s.statesMask hs.1
  unfold stepPtr6
  dsimp only
  rw [chk_true _ (inb_of m6.1 (by omega))]
  exact { h with
    statesMask := by
      show 0 ≤ s.statesMask.toInt ∧ s.statesMask.toInt < (bump s.bigStatesMap bit s.cp6).size
      rw [bump_size]; exact h.statesMask
    cp2 := by show s.cp2 < (bump s.bigStatesMap bit s.cp6).size; rw [bump_size]; exact h.cp2
    cp3 := by show s.cp3 < (bump s.bigStatesMap bit s.cp6).size; rw [bump_size]; exact h.cp3
    cp4 := by show s.cp4 < (bump s.bigStatesMap bit s.cp6).size; rw [bump_size]; exact h.cp4
    cp5 := by show s.cp5 < (bump s.bigStatesMap bit s.cp6).size; rw [bump_size]; exact h.cp5
    cp6 := by
      show ((s.ctx6 + s.c0) &&& s.statesMask).toInt.toNat < (bump s.bigStatesMap bit s.cp6).size
      rw [bump_size]; omega }

theorem inv_mix {lo : Nat} {s : TPAQ} (h : Inv lo s) (p0 p1 p2 p3 p4 p5 p6 p7 : Int32) :
    Inv lo (mix s p0 p1 p2 p3 p4 p5 p6 p7) := by
  unfold mix
  exact { h with
    mixersMask := by simpa using h.mixersMask
    mixer := by simpa using h.mixer }

theorem inv_sse0Get {s : TPAQ} (h : Inv 1 s) (bit : Bool) {p : Int} (hp : 0 ≤ p ∧ p ≤ 4095) :
    Inv 1 (sse0Get s bit p).2 ∧ 0 ≤ (sse0Get s bit p).1 ∧ (sse0Get s bit p).1 ≤ 4095 := by
  have hc := h.c0_byte
  have g := apmGet_ok h.sse0 bit hp (ctx := s.c0.toInt) ⟨by omega, by omega⟩
  unfold sse0Get
  dsimp only
  rw [chk_true _ g.1]
  exact ⟨{ h with sse0 := g.2.1 }, g.2.2⟩

theorem inv_sse1Get {s : TPAQ} (h : Inv 1 s) (hx : s.extra = true) (bit : Bool) {p : Int} (hp : 0 ≤ p ∧ p ≤ 4095) :
    Inv 1 (sse1Get s bit p).2 ∧ 0 ≤ (sse1Get s bit p).1 ∧ (sse1Get s bit p).1 ≤ 4095 := by
  have hc := h.c0_byte
  have h0 := h.ctx0
  have e0 : (s.ctx0 + s.c0).toInt = s.ctx0.toInt + s.c0.toInt := toInt_add_of _ _ (by omega) (by omega)
  have g := apmGet_ok (h.sse1 hx) bit hp (ctx := (s.ctx0 + s.c0).toInt) ⟨by omega, by omega⟩
  unfold sse1Get
  dsimp only
  rw [chk_true _ g.1]
  exact ⟨{ h with sse1 := fun _ => g.2.1 }, g.2.2⟩

theorem inv_setPr {s : TPAQ} (h : Inv 1 s) {p : Int} (hp : 0 ≤ p ∧ p ≤ 4095) : Inv 1 { s with pr := finalPr p } :=
  { h with pr := finalPr_range hp.1 hp.2 }

theorem avg_range {a p : Int} (ha : 0 ≤ a ∧ a ≤ 4095) (hp : 0 ≤ p ∧ p ≤ 4095) :
    0 ≤ (3 * a + p) >>> 2 ∧ (3 * a + p) >>> 2 ≤ 4095 := by
  rw [Int.shiftRight_eq_div_pow]; omega

theorem inv_sseStage {s : TPAQ} (h : Inv 1 s) (bit : Bool) {p : Int} (hp : 0 ≤ p ∧ p ≤ 4095) :
    Inv 1 (sseStage s bit p) := by
  unfold sseStage
  split
  · have g := inv_sse0Get h bit hp
    exact inv_setPr g.1 (avg_range g.2 hp)
  · exact inv_setPr h hp

theorem sse0Get_extra (s : TPAQ) (bit : Bool) (p : Int) : (sse0Get s bit p).2.extra = s.extra := by
  unfold sse0Get chk
  dsimp only
  split <;> rfl

theorem inv_sseStageX {s : TPAQ} (h : Inv 1 s) (hx : s.extra = true) (bit : Bool) {p : Int} (hp : 0 ≤ p ∧ p ≤ 4095) :
    Inv 1 (sseStageX s bit p) := by
  unfold sseStageX
  split
  · have g := inv_sse1Get h hx bit hp
    exact inv_setPr g.1 g.2
  · dsimp only
    split
    · have g0 := inv_sse0Get h bit hp
      have hx' : (sse0Get s bit p).2.extra = true := by rw [sse0Get_extra]; exact hx
      have g := inv_sse1Get g0.1 hx' bit (avg_range g0.2 hp)
      exact inv_setPr g.1 (avg_range g.2 (avg_range g0.2 hp))
    · have g := inv_sse1Get h hx bit hp
      exact inv_setPr g.1 (avg_range g.2 hp)

theorem chk_extra (s : TPAQ) (ok : Bool) : (chk s ok).extra = s.extra := by
  unfold chk; split <;> rfl

theorem stepPtr6_extra (s : TPAQ) (bit : Bool) : (stepPtr6 s bit).extra = s.extra := by
  unfold stepPtr6; dsimp only; rw [chk_extra]

theorem mix_extra (s : TPAQ) (p0 p1 p2 p3 p4 p5 p6 p7 : Int32) : (mix s p0 p1 p2 p3 p4 p5 p6 p7).extra = s.extra := rfl

theorem inv_predict {s : TPAQ} (h : Inv 1 s) (bit : Bool) : Inv 1 (predict s bit) := by
  have h1 := inv_match (inv_movePtrs (inv_bumpStates h bit))
  unfold predict
  dsimp only
  generalize movePtrs (bumpStates s bit) = s1 at *
  generalize (if (s1.matchLen != 0) = true then matchContextPred s1 else ((0 : Int32), s1)) = r7 at *
  split
  · exact inv_sseStage (inv_mix h1 _ _ _ _ _ _ _ _) bit (mixed_mix_range _ _ _ _ _ _ _ _ _)
  · rename_i hx
    have hx : r7.2.extra = true := by
      cases hh : r7.2.extra
      · exact absurd (by rw [hh]; rfl) hx
      · rfl
    have h2 := inv_mix (inv_stepPtr6 h1 bit)
    refine inv_sseStageX (h2 _ _ _ _ _ _ _ _) ?_ bit (mixed_mix_range _ _ _ _ _ _ _ _ _)
    rw [mix_extra, stepPtr6_extra]; exact hx

theorem inv_of_bpos_ne {s : TPAQ} (h : Inv 0 s) (hb : ¬ s.bpos = 0) : Inv 1 s :=
  { h with bpos := ⟨by omega, h.bpos.2⟩ }

/-- `Update(bit)` preserves the invariant -/
theorem R_update {s : TPAQ} (h : R s) (bit : Bool) : R (tpaqUpdate s bit) := by
  have h1 := inv_shiftBit (inv_trainMixer h bit) bit
  unfold tpaqUpdate
  dsimp only
  split
  · exact inv_predict (inv_byteBoundary h1) bit
  · rename_i hb
    exact inv_predict (inv_of_bpos_ne h1 hb) bit

theorem R_get {s : TPAQ} (h : R s) : R (tpaqGet s).2 := h

theorem R_step {s : TPAQ} (h : R s) (bit : Bool) : R (tpaqUpdate (tpaqGet s).2 bit) := R_update h bit

theorem getZ_range {s : TPAQ} (h : R s) : 1 ≤ tpaqGetZ s ∧ tpaqGetZ s ≤ 4095 := h.pr

theorem get_range {s : TPAQ} (h : R s) : 1 ≤ (tpaqGet s).1 ∧ (tpaqGet s).1 ≤ 4095 := by
  have := h.pr
  show 1 ≤ s.pr.toNat ∧ s.pr.toNat ≤ 4095
  omega

theorem get_cast {s : TPAQ} (h : R s) : ((tpaqGet s).1 : Int) = tpaqGetZ s := by
  have := h.pr
  show (s.pr.toNat : Int) = s.pr
  omega

theorem updateF_some {s : TPAQ} (h : R s) (bit : Bool) : tpaqUpdateF s bit = some (tpaqUpdate s bit) := by
  unfold tpaqUpdateF
  dsimp only
  rw [(R_update h bit).fault]
  rfl

/-! ### the constructor -/

theorem maskOf_toInt (n : Nat) (h1 : 1 ≤ n) (h2 : n ≤ 2147483648) : (maskOf n).toInt = (n : Int) - 1 := by
  unfold maskOf
  have e : (n + 18446744073709551615) % 18446744073709551616 = n - 1 := by omega
  rw [e, toInt_ofNat_small _ (by omega)]
  omega

/-- what `mixersMask = int32(mixersSize-1) & ^1` must satisfy (checked for every size the constructor can choose) -/
def MixOk (n : Nat) : Prop :=
  0 ≤ (maskOf n &&& (-2)).toInt ∧ (maskOf n &&& (-2)).toInt + 1 < n ∧ (maskOf n &&& (-2)).toInt < 2147483647

/-- the table sizes for which the initial state satisfies the invariant -/
structure SizesOk (z : Sizes) : Prop where
  states : 1 ≤ z.statesSize ∧ z.statesSize ≤ 2147483648
  mixers : MixOk z.mixersSize
  hash : 1 ≤ z.hashSize ∧ z.hashSize ≤ 2147483648
  buffer : 1 ≤ z.bufferSize ∧ z.bufferSize ≤ 2147483648

theorem R_ofSizes {z : Sizes} (h : SizesOk z) : R (tpaqOfSizes z) := by
  have es := maskOf_toInt _ h.states.1 h.states.2
  have eh := maskOf_toInt _ h.hash.1 h.hash.2
  have eb := maskOf_toInt _ h.buffer.1 h.buffer.2
  have hm := h.mixers
  have hs := h.states
  have hh := h.hash
  have hb := h.buffer
  unfold tpaqOfSizes
  exact {
    fault := rfl
    pr := by show (1 : Int) ≤ 2048 ∧ (2048 : Int) ≤ 4095; omega
    bpos := by show 1 ≤ 8 ∧ 8 ≤ 8; omega
    c0 := by show 1 ≤ (1 : Int32).toInt ∧ (1 : Int32).toInt < c0cap 8; rw [lit_1, c0cap_8]; omega
    matchLen := by show 0 ≤ (0 : Int32).toInt ∧ (0 : Int32).toInt ≤ 88; rw [lit_0]; omega
    hash := by show 0 ≤ (0 : Int32).toInt ∧ (0 : Int32).toInt < ((Tab.zeros (0 : Int32) z.hashSize).size : Int); rw [lit_0]; show (0 : Int) ≤ 0 ∧ (0 : Int) < (z.hashSize : Int); omega
    statesMask := by show 0 ≤ (maskOf z.statesSize).toInt ∧ (maskOf z.statesSize).toInt < (z.statesSize : Int); omega
    mixersMask := by
      show 0 ≤ (maskOf z.mixersSize &&& (-2)).toInt ∧ (maskOf z.mixersSize &&& (-2)).toInt + 1 < ((Array.replicate z.mixersSize mixerInit).size : Int) ∧ (maskOf z.mixersSize &&& (-2)).toInt < 2147483647
      rw [Array.size_replicate]; exact ⟨hm.1, by have := hm.2.1; omega, hm.2.2⟩
    hashMask := by show 0 ≤ (maskOf z.hashSize).toInt ∧ (maskOf z.hashSize).toInt < (z.hashSize : Int); omega
    bufferMask := by show 0 ≤ (maskOf z.bufferSize).toInt ∧ (maskOf z.bufferSize).toInt < (z.bufferSize : Int); omega
    small0 := by show (1 <<< 16 : Nat) = 65536; decide
    small1 := by show (1 <<< 24 : Nat) = 16777216; decide
    mixer := by show 0 < (Array.replicate z.mixersSize mixerInit).size; rw [Array.size_replicate]; have := hm.2.1; have := hm.1; omega
    ctx0 := by show 0 ≤ (0 : Int32).toInt ∧ (0 : Int32).toInt ≤ 65280; rw [lit_0]; omega
    ctx1 := by show 0 ≤ (0 : Int32).toInt ∧ (0 : Int32).toInt ≤ 16776960; rw [lit_0]; omega
    sse0 := by
      show ApmOk (if z.extra = true then apmNew 256 6 else apmNew 256 7) 256
      split <;> exact apmNew_ok _ _ (by decide)
    sse1 := by
      intro hx
      have hx : z.extra = true := hx
      show ApmOk (if z.extra = true then apmNew 65536 7 else apmNil) 65536
      rw [if_pos hx]; exact apmNew_ok _ _ (by decide)
    cp0 := by show 0 < (1 <<< 16 : Nat); decide
    cp1 := by show 0 < (1 <<< 24 : Nat); decide
    cp2 := by show 0 < z.statesSize; omega
    cp3 := by show 0 < z.statesSize; omega
    cp4 := by show 0 < z.statesSize; omega
    cp5 := by show 0 < z.statesSize; omega
    cp6 := by show 0 < z.statesSize; omega }

/-- an entry read with `val.(uint)` is absent or at least 1 -/
def UArg.pos : UArg → Prop
  | .uint v => 1 ≤ v
  | _ => True

/-- the constructor parameters the stream layer can pass: `blockSize >= 1` (in fact 1024 .. 2^30) and
`size >= 1` (a block handed to the entropy stage is never empty); both may be absent -/
def ArgsOk : Option CtxArgs → Prop
  | none => True
  | some c => c.blockSize.pos ∧ c.size.pos

theorem statesSizeOf_range (r : Nat) : 4194304 ≤ statesSizeOf r ∧ statesSizeOf r ≤ 268435456 := by
  unfold statesSizeOf
  repeat' split
  all_goals decide

theorem mixersSizeOf_ok (a e : Nat) (he : e = 0 ∨ e = 1) : MixOk (mixersSizeOf a <<< (2 * e)) := by
  unfold mixersSizeOf
  rcases he with rfl | rfl <;> repeat' split
  all_goals (unfold MixOk; decide)

theorem mixOk_nil : MixOk (1 <<< 12) := by unfold MixOk; decide

theorem uarg_ok {a : UArg} {d : Nat} {e : NewErr} {v : Nat} (h : uarg a d e = .ok v) (hp : a.pos) (hd : 1 ≤ d) : 1 ≤ v := by
  cases a with
  | absent => simp [uarg] at h; omega
  | uint w => simp [uarg] at h; subst h; exact hp
  | other => simp [uarg] at h

theorem sizesOf_ok {c : Option CtxArgs} {z : Sizes} (hc : ArgsOk c) (h : sizesOf c = .ok z) : SizesOk z := by
  cases c with
  | none =>
    simp only [sizesOf, Except.ok.injEq] at h
    subst h
    exact ⟨by decide, mixOk_nil, by decide, by decide⟩
  | some c =>
    obtain ⟨hb, hsz⟩ := hc
    simp only [sizesOf] at h
    split at h
    · cases h
    · rename_i extra _
      split at h
      · cases h
      · rename_i rbsz hr
        have hr1 := uarg_ok hr hb (by decide)
        split at h
        · cases h
        · rename_i absz ha
          have ha1 := uarg_ok ha hsz hr1
          split at h
          · cases h
          · rename_i bsv _
            simp only [Except.ok.injEq] at h
            subst h
            have hst := statesSizeOf_range rbsz
            have he : (if extra = true then 1 else 0) = 0 ∨ (if extra = true then 1 else 0) = 1 := by
              split <;> simp
            refine ⟨?_, mixersSizeOf_ok _ _ he, ?_, ?_⟩
            · show 1 ≤ statesSizeOf rbsz <<< (2 * if extra = true then 1 else 0) ∧
                statesSizeOf rbsz <<< (2 * if extra = true then 1 else 0) ≤ 2147483648
              rcases he with e | e <;> rw [e] <;> simp only [Nat.shiftLeft_eq] <;> omega
            · show 1 ≤ (if bsv > 5 then min (min hashSizeMax (if absz < 1 <<< 26 then absz * 16 else 1 <<< 30) <<< (2 * if extra = true then 1 else 0)) (1024 * 1024 * 1024)
                  else min hashSizeMax (if absz < 1 <<< 26 then absz * 16 else 1 <<< 30) <<< (2 * if extra = true then 1 else 0)) ∧
                (if bsv > 5 then min (min hashSizeMax (if absz < 1 <<< 26 then absz * 16 else 1 <<< 30) <<< (2 * if extra = true then 1 else 0)) (1024 * 1024 * 1024)
                  else min hashSizeMax (if absz < 1 <<< 26 then absz * 16 else 1 <<< 30) <<< (2 * if extra = true then 1 else 0)) ≤ 2147483648
              simp only [hashSizeMax, Nat.shiftLeft_eq]
              rcases he with e | e <;> rw [e] <;> split <;> split <;> omega
            · show 1 ≤ min bufferSizeMax rbsz ∧ min bufferSizeMax rbsz ≤ 2147483648
              simp only [bufferSizeMax]; omega

/-- `NewTPAQPredictor` with parameters the stream layer can pass returns a state satisfying the invariant -/
theorem R_new {c : Option CtxArgs} {s : TPAQ} (hc : ArgsOk c) (h : tpaqNew c = .ok s) : R s := by
  unfold tpaqNew at h
  split at h
  · cases h
  · rename_i z hz
    simp only [Except.ok.injEq] at h
    subst h
    exact R_ofSizes (sizesOf_ok hc hz)

/-- the first entry with a wrong dynamic type, in the order the constructor reads them -/
def errOf (a : CtxArgs) : Option NewErr :=
  match a.entropy, a.blockSize, a.size, a.bsVersion with
  | .other, _, _, _ => some .entropy
  | _, .other, _, _ => some .blockSize
  | _, _, .other, _ => some .size
  | _, _, _, .other => some .bsVersion
  | _, _, _, _ => none

theorem tpaqNew_err (a : CtxArgs) :
    (∀ e, errOf a = some e → tpaqNew (some a) = .error e) ∧
    (errOf a = none → ∃ s, tpaqNew (some a) = .ok s) := by
  obtain ⟨e, b, z, v⟩ := a
  cases e <;> cases b <;> cases z <;> cases v <;> simp [tpaqNew, sizesOf, uarg, errOf]

theorem tpaqNew_nil : ∃ s, tpaqNew none = .ok s := ⟨_, rfl⟩

/-! ### runs (generic facts about `statesBefore` / `runOpt` / `foldl`, then the instances) -/

theorem foldl_inv {σ β : Type} (f : σ → β → σ) (P : σ → Prop) (hstep : ∀ s b, P s → P (f s b)) :
    ∀ (bits : List β) (s : σ), P s → P (bits.foldl f s) := by
  intro bits
  induction bits with
  | nil => intro s h; exact h
  | cons b bs ih => intro s h; rw [List.foldl_cons]; exact ih _ (hstep s b h)

theorem statesBefore_inv {σ β : Type} (f : σ → β → σ) (P : σ → Prop) (hstep : ∀ s b, P s → P (f s b)) :
    ∀ (bits : List β) (s : σ), P s → ∀ s' ∈ statesBefore f s bits, P s' := by
  intro bits
  induction bits with
  | nil => intro s _ s' hs'; simp [statesBefore] at hs'
  | cons b bs ih =>
    intro s h s' hs'
    rw [statesBefore] at hs'
    rcases List.mem_cons.1 hs' with rfl | hs'
    · exact h
    · exact ih _ (hstep s b h) s' hs'

theorem runOpt_some {σ β γ : Type} (g : σ → γ) (fo : σ → β → Option σ) (f : σ → β → σ) (P : σ → Prop)
    (hstep : ∀ s b, P s → P (f s b)) (hsome : ∀ s b, P s → fo s b = some (f s b)) :
    ∀ (bits : List β) (s : σ), P s → runOpt g fo s bits = some ((statesBefore f s bits).map g) := by
  intro bits
  induction bits with
  | nil => intro s _; rfl
  | cons b bs ih =>
    intro s h
    rw [runOpt, hsome s b h]
    simp only [ih _ (hstep s b h), statesBefore, List.map_cons, Option.map_some]

theorem R_tpaqStep (s : TPAQ) (b : Bool) (h : R s) : R (tpaqStep s b) := R_update h b

theorem stepF_some (s : TPAQ) (b : Bool) (h : R s) : tpaqUpdateF (tpaqGet s).2 b = some (tpaqStep s b) :=
  updateF_some h b

theorem R_runState (s : TPAQ) (h : R s) (bits : List Bool) : R (tpaqRunState s bits) :=
  foldl_inv tpaqStep R R_tpaqStep bits s h

theorem run_range (s : TPAQ) (h : R s) (bits : List Bool) : ∀ p ∈ tpaqRun s bits, 1 ≤ p ∧ p ≤ 4095 := by
  intro p hp
  unfold tpaqRun at hp
  obtain ⟨s', hs', rfl⟩ := List.mem_map.1 hp
  exact get_range (statesBefore_inv tpaqStep R R_tpaqStep bits s h s' hs')

theorem runF_some (s : TPAQ) (h : R s) (bits : List Bool) :
    tpaqRunF s bits = some ((tpaqRun s bits).map Int.ofNat) := by
  unfold tpaqRunF tpaqRun
  rw [runOpt_some tpaqGetZ (fun s b => tpaqUpdateF (tpaqGet s).2 b) tpaqStep R R_tpaqStep stepF_some bits s h,
    List.map_map]
  congr 1
  apply List.map_congr_left
  intro s' hs'
  have := get_cast (statesBefore_inv tpaqStep R R_tpaqStep bits s h s' hs')
  exact this.symm

end Kanzi.TPAQ
