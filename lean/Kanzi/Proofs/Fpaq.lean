/-
Proofs for the FPAQ codec model (`Kanzi/Model/Fpaq.lean`, property C12): FPAQ is the generic
binary coder (`Kanzi/Proofs/BinEnt*.lean`, shift 8) with the FPAQ adaptive model as predictor and
its own chunk framing.  The property theorems are restated in `Kanzi/Properties/C12_fpaq.lean`.
-/
import Kanzi.Model.Fpaq
import Kanzi.Proofs.BinEntBlock

namespace Kanzi.Fpaq
open Kanzi.Bits Kanzi.EntSmall Kanzi.BinEnt

/-! ## 1. the FPAQ model respects the predictor contract -/

/-- every probability stays a 16-bit value -/
def FR (s : FState) : Prop := ∀ i, s.probs.getD i 0 < 65536

theorem getD_setIfInBounds (a : Array Nat) (k v i : Nat) :
    (a.setIfInBounds k v).getD i 0 = if i = k ∧ k < a.size then v else a.getD i 0 := by
  simp only [Array.getD_eq_getD_getElem?, Array.getElem?_setIfInBounds]
  by_cases h : k = i
  · subst h
    by_cases h2 : k < a.size
    · simp [h2]
    · simp [h2]
  · have : ¬ i = k := fun hc => h hc.symm
    simp [h, this]

theorem adapt_lt (p : Nat) (b : Bool) (hp : p < 65536) : adapt p b < 65536 := by
  unfold adapt
  cases b
  · simp only [Bool.false_eq_true, if_false]; omega
  · simp only [if_true]
    split <;> omega

theorem fr_init : FR FState.init := by
  intro i
  simp only [FState.init, Array.getD_eq_getD_getElem?, Array.getElem?_replicate]
  split <;> simp

theorem fr_chunkStart (s : FState) (h : FR s) : FR s.chunkStart := h

theorem fpaq_safe : fpaqP.Safe FR := by
  constructor
  · intro s b hs i
    show (s.probs.setIfInBounds (256 * s.t + s.ctx) (adapt s.get b)).getD i 0 < 65536
    rw [getD_setIfInBounds]
    split
    · exact adapt_lt _ _ (hs _)
    · exact hs i
  · intro s hs
    exact ⟨Or.inr rfl, hs _⟩

/-! ## 2. one chunk -/

theorem fReadChunk_prefix (total chunkSize n : Nat) (d : Dec FState) (O tail : Bits)
    (hn : n < 2 ^ 32) (hnt : n < 2 * total) (hO : O.length = 8 * n + 56) :
    fReadChunk total chunkSize d (writeVarInt n ++ O ++ tail) =
      match Dec.decodeBytes fpaqP chunkSize
          { d with ps := d.ps.chunkStart, current := bitsNat (O.take 56),
                   buffer := fBufLoad (fBufAlloc d.buffer n) n (bytesOf n (O.drop 56)),
                   rem := fBufLoad (fBufAlloc d.buffer n) n (bytesOf n (O.drop 56)) } [] with
      | .error x => .error x
      | .ok res => .ok (res.1, res.2, tail) := by
  unfold fReadChunk
  rw [List.append_assoc, varint_roundtrip n hn]
  simp only
  rw [if_neg (by omega)]
  have hrb : readBits 56 (O ++ tail) = some (bitsNat (O.take 56), O.drop 56 ++ tail) := by
    unfold readBits
    rw [if_pos (by rw [List.length_append]; omega), List.take_append_of_le_length (by omega),
      List.drop_append_of_le_length (by omega)]
  rw [hrb]
  simp only
  have hdl : (O.drop 56).length = 8 * n := by rw [List.length_drop]; omega
  have hby : readBytes n (O.drop 56 ++ tail) = some (bytesOf n (O.drop 56), tail) := by
    unfold readBytes
    rw [if_pos (by rw [List.length_append]; omega)]
    congr 2
    · have key : ∀ (k : Nat) (A B : Bits), 8 * k ≤ A.length → bytesOf k (A ++ B) = bytesOf k A := by
        intro k
        induction k with
        | zero => intro A B _; rfl
        | succ k ih =>
          intro A B hA
          rw [bytesOf, bytesOf, List.take_append_of_le_length (by omega),
            List.drop_append_of_le_length (by omega), ih _ _ (by rw [List.length_drop]; omega)]
      exact key n _ _ (by omega)
    · rw [← hdl, List.drop_left]
  rw [hby]
  rfl

theorem fReadChunk_reject (total chunkSize n : Nat) (d : Dec FState) (X : Bits)
    (hn : n < 2 ^ 32) (h2 : 2 * total ≤ n) :
    fReadChunk total chunkSize d (writeVarInt n ++ X) = .error .invalid := by
  unfold fReadChunk
  rw [varint_roundtrip n hn]
  simp only
  rw [if_pos h2]

theorem fWriteChunks_nil (C fuel : Nat) (e : Enc FState) : fWriteChunks C fuel e [] = .ok ([], e) := by
  cases fuel <;> simp [fWriteChunks]

theorem fReadChunks_zero (C total fuel : Nat) (d : Dec FState) (bs : Bits) :
    fReadChunks C total fuel d 0 bs = .ok ([], d, bs) := by
  cases fuel <;> simp [fReadChunks]

/-- **`fFits2`**: every chunk flushes fewer than `2·len(block)` bytes — exactly the acceptance test of
    `FPAQDecoder.Read` (`szBytes >= 2*len(block)` ⇒ "Invalid chunk size").  Computed with the pure
    coder; `s, l, h` = model state and interval at the start of the chunk (table 0 is selected). -/
def fFits2Chunks (C total : Nat) : Nat → FState → Nat → Nat → List Nat → Bool
  | 0, _, _, _, _ => true
  | fuel + 1, s, l, h, blk =>
    if blk.length = 0 then true
    else
      decide ((pBytes fpaqP s.chunkStart l h (ofBytes (blk.take (min C blk.length)))).length < 2 * total) &&
        fFits2Chunks C total fuel (pFin fpaqP s.chunkStart l h (ofBytes (blk.take (min C blk.length)))).1
          (pFin fpaqP s.chunkStart l h (ofBytes (blk.take (min C blk.length)))).2.1
          (pFin fpaqP s.chunkStart l h (ofBytes (blk.take (min C blk.length)))).2.2
          (blk.drop (min C blk.length))

def fFits2 (C : Nat) (blk : List Nat) : Bool := fFits2Chunks C blk.length blk.length FState.init 0 TOP blk

theorem fFits2Chunks_nil (C total fuel : Nat) (s : FState) (l h : Nat) :
    fFits2Chunks C total fuel s l h [] = true := by
  cases fuel <;> simp [fFits2Chunks]

/-! ## 3. the chunk loops -/

/-- the chunk loop of `Write` never fails (the encoder grows its buffer, repair 1e1b76f) -/
theorem fWriteChunks_total (C : Nat) :
    ∀ (fuel : Nat) (blk : List Nat) (e : Enc FState) (l h : Nat), FR e.ps → ERel e l h → Inv l h →
    e.grow = true → ∃ r, fWriteChunks C fuel e blk = .ok r := by
  intro fuel
  induction fuel with
  | zero => intro blk e l h _ _ _ _; exact ⟨_, rfl⟩
  | succ fuel ih =>
    intro blk e l h hs hr hi hg
    unfold fWriteChunks
    split
    · exact ⟨_, rfl⟩
    · obtain ⟨B, hB⟩ : ∃ B, B = (if e.bufLen < min C blk.length + (min C blk.length >>> 3)
          then min C blk.length + (min C blk.length >>> 3) else e.bufLen) := ⟨_, rfl⟩
      rw [← hB]
      obtain ⟨E, hE⟩ : ∃ E : Enc FState, E = { e with ps := e.ps.chunkStart, bufLen := B } := ⟨_, rfl⟩
      have hlit : ({ e with ps := e.ps.chunkStart, rev := [], index := 0, bufLen := B } : Enc FState)
          = { E with rev := [], index := 0 } := by rw [hE]
      rw [hlit]
      have hEs : FR E.ps := by rw [hE]; exact fr_chunkStart _ hs
      obtain ⟨e1, he1, hr1, hps1, _, _, _, hg1, _, _⟩ :=
        (enc_chunk fpaqP fpaq_safe E l h (blk.take (min C blk.length)) hEs (by rw [hE]; exact hr) hi).1
          (Or.inl (by rw [hE]; exact hg))
      obtain ⟨hs1, hi1⟩ := pFin_inv fpaqP fpaq_safe (ofBytes (blk.take (min C blk.length))) E.ps l h hEs hi
      rw [he1]
      simp only
      obtain ⟨r, hr'⟩ := ih (blk.drop (min C blk.length)) e1 _ _ (by rw [hps1]; exact hs1) hr1 hi1
        (by rw [hg1, hE]; exact hg)
      rw [hr']
      exact ⟨_, rfl⟩

theorem fWriteChunks_disposed (C : Nat) : ∀ (fuel : Nat) (e : Enc FState) (blk : List Nat)
    (r : Bits × Enc FState), fWriteChunks C fuel e blk = .ok r → r.2.disposed = e.disposed := by
  intro fuel
  induction fuel with
  | zero => intro e blk r h; simp only [fWriteChunks, Except.ok.injEq] at h; rw [← h]
  | succ fuel ih =>
    intro e blk r h
    unfold fWriteChunks at h
    split at h
    · simp only [Except.ok.injEq] at h; rw [← h]
    · split at h
      · cases h
      · rename_i e1 hc
        split at h
        · cases h
        · rename_i r1 hr
          simp only [Except.ok.injEq] at h
          rw [← h]
          show r1.2.disposed = _
          rw [ih _ _ _ hr]
          rw [encodeBytes_eq] at hc
          have h2 := encodeBits_disposed fpaqP _ _ _ hc
          exact h2

/-- **chunk loops of FPAQ**: accepted and decoded iff every chunk flushes fewer than `2·total`
    bytes, otherwise "Invalid chunk size" -/
theorem fchunks_rt (C total : Nat) (hC : 0 < C) (hC27 : C < 2 ^ 27) :
    ∀ (fuel : Nat) (blk : List Nat) (e : Enc FState) (d : Dec FState) (l h : Nat) (bits : Bits)
      (e' : Enc FState) (tail : Bits),
    blk ≠ [] → blk.length ≤ fuel → (∀ v ∈ blk, v < 256) → FR e.ps → ERel e l h →
    Inv l h → DRel d e.ps l h → e.grow = true →
    fWriteChunks C fuel e blk = .ok (bits, e') →
    (fFits2Chunks C total fuel e.ps l h blk = true →
      ∃ d' lf hf, fReadChunks C total fuel d blk.length (bits ++ e'.trailer ++ tail) = .ok (blk, d', tail) ∧
        ERel e' lf hf ∧ Inv lf hf ∧ DRel d' e'.ps lf hf) ∧
    (fFits2Chunks C total fuel e.ps l h blk = false →
      fReadChunks C total fuel d blk.length (bits ++ e'.trailer ++ tail) = .error .invalid) := by
  have h32C : 32 * C < 2 ^ 32 := by omega
  intro fuel
  induction fuel with
  | zero =>
    intro blk e d l h bits e' tail hne hfuel
    exact absurd (List.eq_nil_of_length_eq_zero (by omega)) hne
  | succ fuel ih =>
    intro blk e d l h bits e' tail hne hfuel hb hs hr hi hdr hg hw
    have hblk : blk.length ≠ 0 := fun hc => hne (List.eq_nil_of_length_eq_zero hc)
    have hk1 : 1 ≤ min C blk.length := by omega
    have hchunk : (blk.take (min C blk.length)).length = min C blk.length := by
      rw [List.length_take]; omega
    have hbc : ∀ v ∈ blk.take (min C blk.length), v < 256 := fun v hv => hb v (List.mem_of_mem_take hv)
    have h32 : 32 * min C blk.length < 2 ^ 32 :=
      Nat.lt_of_le_of_lt (Nat.mul_le_mul_left 32 (Nat.min_le_left _ _)) h32C
    -- the encoder at the start of the chunk
    obtain ⟨B, hB⟩ : ∃ B, B = (if e.bufLen < min C blk.length + (min C blk.length >>> 3)
        then min C blk.length + (min C blk.length >>> 3) else e.bufLen) := ⟨_, rfl⟩
    obtain ⟨E, hE⟩ : ∃ E : Enc FState, E = { e with ps := e.ps.chunkStart, bufLen := B } := ⟨_, rfl⟩
    have hEr : ERel E l h := by rw [hE]; exact hr
    have hEs : FR E.ps := by rw [hE]; exact fr_chunkStart _ hs
    have hEps : E.ps = e.ps.chunkStart := by rw [hE]
    have hEg : E.grow = true := by rw [hE]; exact hg
    have hec := enc_chunk fpaqP fpaq_safe E l h (blk.take (min C blk.length)) hEs hEr hi
    obtain ⟨hs1, hi1⟩ := pFin_inv fpaqP fpaq_safe (ofBytes (blk.take (min C blk.length))) E.ps l h hEs hi
    have hple : (pBytes fpaqP E.ps l h (ofBytes (blk.take (min C blk.length)))).length
        ≤ 32 * min C blk.length := by
      have := pBytes_length_le fpaqP (ofBytes (blk.take (min C blk.length))) E.ps l h
      rw [ofBytes_length, hchunk, ← Nat.mul_assoc] at this
      exact this
    unfold fWriteChunks at hw
    rw [if_neg hblk, ← hB] at hw
    have hlit : ({ e with ps := e.ps.chunkStart, rev := [], index := 0, bufLen := B } : Enc FState)
        = { E with rev := [], index := 0 } := by rw [hE]
    rw [hlit] at hw
    obtain ⟨e1, he1, hr1, hps1, hrev1, hidx1, hd1, hg1, _, _⟩ := hec.1 (Or.inl hEg)
    rw [he1] at hw
    simp only at hw
    have hn32 : e1.index < 2 ^ 32 := by rw [hidx1]; exact Nat.lt_of_le_of_lt hple h32
    have hO : writeVarInt (e1.index % 2 ^ 32) ++ arrayBits e1.rev.reverse (8 * e1.index) ++ e1.trailer
        = writeVarInt e1.index ++ pOut fpaqP E.ps l h (ofBytes (blk.take (min C blk.length))) := by
      rw [Nat.mod_eq_of_lt hn32, arrayBits_eq, hrev1, hidx1, List.take_length,
        trailer_eq e1 _ _ hr1 (by have := hi1.lt; have := hi1.hi; omega), List.append_assoc]
      rfl
    have hOlen := pOut_length fpaqP E.ps l h (ofBytes (blk.take (min C blk.length)))
    rw [← hidx1] at hOlen
    -- decoder on this chunk, when it is accepted
    have hdec : e1.index < 2 * total → ∀ tail' : Bits, ∃ d1,
        fReadChunk total (min C blk.length) d
          (writeVarInt e1.index ++ pOut fpaqP E.ps l h (ofBytes (blk.take (min C blk.length))) ++ tail')
          = .ok (blk.take (min C blk.length), d1, tail') ∧
        DRel d1 e1.ps (pFin fpaqP E.ps l h (ofBytes (blk.take (min C blk.length)))).2.1
          (pFin fpaqP E.ps l h (ofBytes (blk.take (min C blk.length)))).2.2 := by
      intro hnt tail'
      rw [fReadChunk_prefix total _ e1.index d _ tail' hn32 hnt hOlen]
      obtain ⟨J, hJ⟩ : ∃ J : List Nat, fBufLoad (fBufAlloc d.buffer e1.index) e1.index
          (bytesOf e1.index ((pOut fpaqP E.ps l h (ofBytes (blk.take (min C blk.length)))).drop 56))
          = bytesOf e1.index ((pOut fpaqP E.ps l h (ofBytes (blk.take (min C blk.length)))).drop 56) ++ J := by
        unfold fBufLoad
        exact ⟨_, List.append_assoc _ _ _⟩
      rw [hJ]
      obtain ⟨D, hD⟩ : ∃ D : Dec FState, D = Dec.mk (FState.chunkStart d.ps) d.low d.high
          (bitsNat ((pOut fpaqP E.ps l h (ofBytes (blk.take (min C blk.length)))).take 56))
          (bytesOf e1.index ((pOut fpaqP E.ps l h (ofBytes (blk.take (min C blk.length)))).drop 56) ++ J)
          (bytesOf e1.index ((pOut fpaqP E.ps l h (ofBytes (blk.take (min C blk.length)))).drop 56) ++ J) :=
        ⟨_, rfl⟩
      rw [← hD]
      have hdr0 : DRel D E.ps l h := by
        rw [hD, hEps]
        exact ⟨by show FState.chunkStart d.ps = _; rw [hdr.1], hdr.2.1, hdr.2.2⟩
      have hview : View D (pOut fpaqP E.ps l h (ofBytes (blk.take (min C blk.length)) ++ [])) J := by
        have := view_of_out D (pOut fpaqP E.ps l h (ofBytes (blk.take (min C blk.length)))) e1.index J hOlen
        rw [List.append_nil]
        rw [hD] at this ⊢
        exact this
      obtain ⟨d1, hd1', hdr1, _, _⟩ := dec_bytes fpaqP fpaq_safe (blk.take (min C blk.length)) [] E.ps l h D
        J [] hbc hEs hi hdr0 hview
      rw [hchunk] at hd1'
      rw [hd1']
      refine ⟨d1, rfl, ?_⟩
      rw [hps1]; exact hdr1
    cases hrest : fWriteChunks C fuel e1 (blk.drop (min C blk.length)) with
    | error x => rw [hrest] at hw; cases hw
    | ok r =>
      rw [hrest] at hw
      simp only [Except.ok.injEq, Prod.mk.injEq] at hw
      obtain ⟨hbits, he'⟩ := hw
      have hassoc : writeVarInt (e1.index % 2 ^ 32) ++ arrayBits e1.rev.reverse (8 * e1.index) ++ e1.trailer ++ r.1
          ++ e'.trailer ++ tail
          = writeVarInt e1.index ++ pOut fpaqP E.ps l h (ofBytes (blk.take (min C blk.length)))
            ++ (r.1 ++ e'.trailer ++ tail) := by
        rw [← hO]; simp only [List.append_assoc]
      refine ⟨?_, ?_⟩
      all_goals unfold fFits2Chunks fReadChunks
      all_goals rw [if_neg hblk, if_neg hblk, ← hEps]
      · intro hfits
        simp only [Bool.and_eq_true, decide_eq_true_eq] at hfits
        obtain ⟨hfit1, hfitr⟩ := hfits
        rw [← hidx1] at hfit1
        by_cases hrn : blk.drop (min C blk.length) = []
        · rw [hrn, fWriteChunks_nil] at hrest
          simp only [Except.ok.injEq] at hrest
          have hr1e : r.1 = [] := by rw [← hrest]
          have hr2e : r.2 = e1 := by rw [← hrest]
          have hall : blk.take (min C blk.length) = blk := by
            have := List.take_append_drop (min C blk.length) blk
            rw [hrn, List.append_nil] at this
            exact this
          have hcnt : blk.length - min C blk.length = 0 := by
            have := congrArg List.length hrn
            rw [List.length_drop, List.length_nil] at this
            exact this
          obtain ⟨d1, hrc, hdr1⟩ := hdec hfit1 tail
          refine ⟨d1, _, _, ?_, by rw [← he', hr2e]; exact hr1, hi1, by rw [← he', hr2e]; exact hdr1⟩
          rw [← hbits, ← he', hr2e, hr1e, hrn]
          simp only [List.length_nil, if_true, List.append_nil]
          rw [hO, hrc]
          simp only
          rw [hcnt, fReadChunks_zero]
          simp only [List.append_nil]
          rw [hall]
        · have hrl : (blk.drop (min C blk.length)).length ≠ 0 :=
            fun hc => hrn (List.eq_nil_of_length_eq_zero hc)
          obtain ⟨d1, hrc, hdr1⟩ := hdec hfit1 (r.1 ++ e'.trailer ++ tail)
          have hih := ih (blk.drop (min C blk.length)) e1 d1 _ _ r.1 r.2 tail hrn
            (by rw [List.length_drop]; omega) (fun v hv => hb v (List.mem_of_mem_drop hv))
            (by rw [hps1]; exact hs1) hr1 hi1 hdr1 (by rw [hg1]; exact hEg) (by rw [hrest])
          rw [hps1] at hih
          obtain ⟨d', lf, hf, hrd, hre, hie, hde⟩ := hih.1 hfitr
          rw [he'] at hrd hre hde
          refine ⟨d', lf, hf, ?_, hre, hie, hde⟩
          rw [← hbits, if_neg hrl, hassoc, hrc]
          simp only
          rw [List.length_drop] at hrd
          rw [hrd]
          simp only [List.take_append_drop]
      · intro hfits
        by_cases hfit1 : (pBytes fpaqP E.ps l h (ofBytes (blk.take (min C blk.length)))).length < 2 * total
        · simp only [hfit1, decide_true, Bool.true_and] at hfits
          have hfit1' : e1.index < 2 * total := by rw [hidx1]; exact hfit1
          have hrn : blk.drop (min C blk.length) ≠ [] := by
            intro hc
            rw [hc, fFits2Chunks_nil] at hfits
            cases hfits
          have hrl : (blk.drop (min C blk.length)).length ≠ 0 :=
            fun hc => hrn (List.eq_nil_of_length_eq_zero hc)
          obtain ⟨d1, hrc, hdr1⟩ := hdec hfit1' (r.1 ++ e'.trailer ++ tail)
          have hih := ih (blk.drop (min C blk.length)) e1 d1 _ _ r.1 r.2 tail hrn
            (by rw [List.length_drop]; omega) (fun v hv => hb v (List.mem_of_mem_drop hv))
            (by rw [hps1]; exact hs1) hr1 hi1 hdr1 (by rw [hg1]; exact hEg) (by rw [hrest])
          rw [hps1] at hih
          have hrd := hih.2 hfits
          rw [he'] at hrd
          rw [← hbits, if_neg hrl, hassoc, hrc]
          simp only
          rw [List.length_drop] at hrd
          rw [hrd]
        · have hge : 2 * total ≤ e1.index := by rw [hidx1]; exact Nat.le_of_not_lt hfit1
          have hstream : bits ++ e'.trailer ++ tail = writeVarInt e1.index ++
              (arrayBits e1.rev.reverse (8 * e1.index)
                ++ (if (blk.drop (min C blk.length)).length = 0 then [] else e1.trailer) ++ r.1
                ++ e'.trailer ++ tail) := by
            rw [← hbits, Nat.mod_eq_of_lt hn32]; simp only [List.append_assoc]
          rw [hstream, fReadChunk_reject total _ e1.index d _ hn32 hge]

/-! ## 4. whole blocks -/

/-- the encoder never fails -/
theorem fpaqEncode_total (C : Nat) (blk : List Nat) (hlen : blk.length ≤ MAX_BLOCK) :
    ∃ out, fpaqEncode C blk = .ok out := by
  unfold fpaqEncode fWrite
  rw [if_neg (by omega)]
  obtain ⟨r, hr⟩ := fWriteChunks_total C blk.length blk (Enc.init FState.init) 0 TOP fr_init (erel_init _)
    inv_init rfl
  rw [hr]
  exact ⟨_, rfl⟩

/-- **C12 for FPAQ, block level**: `Write` + `Dispose` never fail; `Read` returns the block and
    consumes exactly the written bits iff every chunk flushed fewer than `2·len(block)` bytes,
    otherwise it reports "Invalid chunk size" -/
theorem fpaq_block_full (C : Nat) (hC : 0 < C) (hC27 : C < 2 ^ 27) (blk : List Nat) (hne : blk ≠ [])
    (hb : ∀ v ∈ blk, v < 256) (hlen : blk.length ≤ MAX_BLOCK) :
    ∃ out, fpaqEncode C blk = .ok out ∧
      (fFits2 C blk = true → ∀ rest : Bits, fpaqDecode C (out ++ rest) blk.length = .ok (blk, rest)) ∧
      (fFits2 C blk = false → ∀ rest : Bits, fpaqDecode C (out ++ rest) blk.length = .error .invalid) := by
  have hmb : MAX_BLOCK = 1073741824 := rfl
  obtain ⟨r, hw⟩ := fWriteChunks_total C blk.length blk (Enc.init FState.init) 0 TOP fr_init (erel_init _)
    inv_init rfl
  have hdis := fWriteChunks_disposed C _ _ _ _ hw
  have hdisp : r.2.dispose.1 = r.2.trailer := by
    unfold Enc.dispose
    have : r.2.disposed = false := hdis
    rw [this]
    rfl
  refine ⟨r.1 ++ r.2.dispose.1, ?_, ?_, ?_⟩
  · unfold fpaqEncode fWrite
    rw [if_neg (by omega), hw]
  · intro hf rest
    obtain ⟨d', lf, hf', hrd, _⟩ := (fchunks_rt C blk.length hC hC27 blk.length blk
      (Enc.init FState.init) (Dec.init FState.init) 0 TOP r.1 r.2 rest hne (Nat.le_refl _) hb
      fr_init (erel_init _) inv_init ⟨rfl, rfl, rfl⟩ rfl (by rw [hw])).1 hf
    unfold fpaqDecode
    rw [if_neg (by omega), hdisp, hrd]
  · intro hf rest
    have hrd := (fchunks_rt C blk.length hC hC27 blk.length blk
      (Enc.init FState.init) (Dec.init FState.init) 0 TOP r.1 r.2 rest hne (Nat.le_refl _) hb
      fr_init (erel_init _) inv_init ⟨rfl, rfl, rfl⟩ rfl (by rw [hw])).2 hf
    unfold fpaqDecode
    rw [if_neg (by omega), hdisp, hrd]

theorem fpaqEncode_nil (C : Nat) : fpaqEncode C [] = .ok (natBits MASK_0_24 56) := by
  unfold fpaqEncode fWrite
  rw [if_neg (by simp)]
  simp only [List.length_nil, fWriteChunks, List.nil_append]
  simp [Enc.dispose, Enc.init, Enc.trailer]

theorem fpaqDecode_zero (C : Nat) (bs : Bits) : fpaqDecode C bs 0 = .ok ([], bs) := by
  unfold fpaqDecode
  rw [if_neg (by simp)]
  simp [fReadChunks]

/-- number of bytes `flush` stores for a block coded in one chunk from the initial state -/
def fFlushedLen (blk : List Nat) : Nat := (pBytes fpaqP FState.init 0 TOP (ofBytes blk)).length

theorem fFlushedLen_le (blk : List Nat) : fFlushedLen blk ≤ 32 * blk.length := by
  unfold fFlushedLen
  have := pBytes_length_le fpaqP (ofBytes blk) FState.init 0 TOP
  rw [ofBytes_length] at this
  omega

/-- for a single-chunk block (`n ≤ C`) `fFits2` is `fFlushedLen < 2·n` -/
theorem fFits2_single (C : Nat) (blk : List Nat) (hne : blk ≠ []) (hC : blk.length ≤ C) :
    fFits2 C blk = decide (fFlushedLen blk < 2 * blk.length) := by
  have hblk : blk.length ≠ 0 := fun hc => hne (List.eq_nil_of_length_eq_zero hc)
  obtain ⟨k, hk⟩ : ∃ k, blk.length = k + 1 := ⟨blk.length - 1, by omega⟩
  unfold fFits2 fFlushedLen
  have hf : fFits2Chunks C blk.length blk.length FState.init 0 TOP blk
      = fFits2Chunks C blk.length (k + 1) FState.init 0 TOP blk := by rw [← hk]
  rw [hf]
  unfold fFits2Chunks
  rw [if_neg hblk, Nat.min_eq_right hC, List.take_length, List.drop_length, fFits2Chunks_nil, Bool.and_true]
  rfl

end Kanzi.Fpaq
