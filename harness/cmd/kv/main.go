// kv: harness driving the REAL kanzi-go code (module replaced by /repo/v2).
// Sub-commands write line-protocol files compared with the Lean model driver (kmodel),
// and run property-directed searches.  All randomness derives from -seed.
package main

import (
	"bufio"
	"encoding/json"
	"flag"
	"fmt"
	"os"
	"sort"
)

type Stats struct {
	Evaluations int            `json:"evaluations"`
	Distinct    int            `json:"distinct_nontrivial"`
	Rule        string         `json:"rule"`
	Samples     []any          `json:"samples"`
	Histo       map[string]int `json:"histogram"`
	Violations  []Violation    `json:"violations"`
	Notes       []string       `json:"notes,omitempty"`
}

type Violation struct {
	Kind     string `json:"kind"`
	Site     string `json:"site"`
	Symptom  string `json:"symptom"`
	What     string `json:"what"`
	Scenario any    `json:"scenario"`
}

func newStats(rule string) *Stats {
	return &Stats{Rule: rule, Histo: map[string]int{}, Samples: []any{}, Violations: []Violation{}}
}

func (s *Stats) hit(k string) { s.Histo[k]++ }

func (s *Stats) sample(v any) {
	if len(s.Samples) < 5 {
		s.Samples = append(s.Samples, v)
	}
}

func (s *Stats) violate(v Violation) {
	if len(s.Violations) < 20 {
		s.Violations = append(s.Violations, v)
	}
}

func (s *Stats) write(path string) {
	b, _ := json.MarshalIndent(s, "", " ")
	if path == "" || path == "-" {
		os.Stdout.Write(b)
		return
	}
	if err := os.WriteFile(path, b, 0o644); err != nil {
		fmt.Fprintln(os.Stderr, "cannot write stats:", err)
		os.Exit(3)
	}
}

type cmdFn func(args []string) int

var cmds = map[string]cmdFn{}

func register(name string, f cmdFn) { cmds[name] = f }

func openOut(path string) (*bufio.Writer, func()) {
	f, err := os.Create(path)
	if err != nil {
		fmt.Fprintln(os.Stderr, err)
		os.Exit(3)
	}
	w := bufio.NewWriterSize(f, 1<<20)
	return w, func() { w.Flush(); f.Close() }
}

// common flags
type common struct {
	fs    *flag.FlagSet
	seed  *int64
	tier  *string
	ops   *string
	impl  *string
	stats *string
	n     *int
}

func newCommon(name string) *common {
	fs := flag.NewFlagSet(name, flag.ExitOnError)
	return &common{fs: fs,
		seed:  fs.Int64("seed", 1, "PRNG seed"),
		tier:  fs.String("tier", "quick", "quick|thorough"),
		ops:   fs.String("ops", "", "line-protocol operations file to write"),
		impl:  fs.String("impl", "", "implementation outputs file to write"),
		stats: fs.String("stats", "-", "stats json"),
		n:     fs.Int("n", 0, "number of cases (0 = tier default)"),
	}
}

func main() {
	if len(os.Args) < 2 {
		names := []string{}
		for k := range cmds {
			names = append(names, k)
		}
		sort.Strings(names)
		fmt.Fprintln(os.Stderr, "usage: kv <cmd> [flags]; cmds:", names)
		os.Exit(2)
	}
	f, ok := cmds[os.Args[1]]
	if !ok {
		fmt.Fprintln(os.Stderr, "unknown command", os.Args[1])
		os.Exit(2)
	}
	os.Exit(f(os.Args[2:]))
}
