import Kanzi.Model.CM
namespace Kanzi.CM

theorem wrap32_spec (x : Int) : wrap32 x = (x + 2147483648) % 4294967296 - 2147483648 := by
  unfold wrap32; split <;> omega

theorem wrap64_spec (x : Int) :
    wrap64 x = (x + 9223372036854775808) % 18446744073709551616 - 9223372036854775808 := by
  unfold wrap64; split <;> omega

theorem wrap32_id {x : Int} (h1 : -2147483648 ≤ x) (h2 : x < 2147483648) : wrap32 x = x := by
  rw [wrap32_spec]; omega

theorem wrap64_id {x : Int} (h1 : -9223372036854775808 ≤ x) (h2 : x < 9223372036854775808) : wrap64 x = x := by
  rw [wrap64_spec]; omega

theorem size_wr (t : Table) (i j : Nat) (f : Int → Int) : (wr t i j f).size = t.size := by
  simp [wr]

theorem rowLen_wr (t : Table) (i j : Nat) (f : Int → Int) (i' : Nat) :
    rowLen (wr t i j f) i' = rowLen t i' := by
  simp only [rowLen, wr, Array.getD_eq_getD_getElem?, Array.getElem?_modify]
  split
  · subst_vars; cases h : t[i']? <;> simp
  · rfl

theorem rd_wr (t : Table) (i j : Nat) (f : Int → Int) (i' j' : Nat) :
    rd (wr t i j f) i' j' =
      if i' = i ∧ j' = j ∧ i < t.size ∧ j < rowLen t i then f (rd t i j) else rd t i' j' := by
  simp only [rd, rowLen, wr, Array.getD_eq_getD_getElem?, Array.getElem?_modify]
  by_cases hi : i = i'
  · subst hi
    cases h : t[i]? with
    | none =>
      have : ¬ i < t.size := by
        intro hlt; simp [Array.getElem?_eq_getElem hlt] at h
      simp [this]
    | some row =>
      have hlt : i < t.size := by
        by_cases hlt : i < t.size
        · exact hlt
        · simp [Array.getElem?_eq_none (Nat.le_of_not_lt hlt)] at h
      simp only [if_true, Option.map_some, Option.getD_some, Array.getElem?_modify, hlt, true_and]
      by_cases hj : j = j'
      · subst hj
        cases h2 : row[j]? with
        | none =>
          have : ¬ j < row.size := by
            intro hlt; simp [Array.getElem?_eq_getElem hlt] at h2
          simp [this]
        | some v =>
          have : j < row.size := by
            by_cases hlt : j < row.size
            · exact hlt
            · simp [Array.getElem?_eq_none (Nat.le_of_not_lt hlt)] at h2
          simp [this]
      · have : ¬ j' = j := fun e => hj e.symm
        simp [hj, this]
  · have : ¬ i' = i := fun e => hi e.symm
    simp [hi, this]


/-- `wr` only looks at `f` on the entry it rewrites -/
theorem wr_congr (t : Table) (i j : Nat) (f g : Int → Int) (h : f (rd t i j) = g (rd t i j)) :
    wr t i j f = wr t i j g := by
  unfold wr
  apply Array.ext
  · simp
  · intro k h1 h2
    rw [Array.getElem_modify, Array.getElem_modify]
    by_cases hik : i = k
    · subst hik
      have hk : i < t.size := by simpa using h1
      simp only [if_true]
      apply Array.ext
      · simp
      · intro l h3 h4
        rw [Array.getElem_modify, Array.getElem_modify]
        by_cases hjl : j = l
        · subst hjl
          have hl : j < t[i].size := by simpa using h3
          have : rd t i j = t[i][j] := by
            simp [rd, Array.getElem?_eq_getElem hk, Array.getElem?_eq_getElem hl]
          simp only [if_true]
          rw [← this]; exact h
        · simp [hjl]
    · simp [hik]

/-! ### the invariant -/

/-- `t` has `rows` rows of `cols` entries and entry `[i][j]` satisfies `P j` -/
def TabOk (t : Table) (rows cols : Nat) (P : Nat → Int → Prop) : Prop :=
  t.size = rows ∧ ∀ i, i < rows → rowLen t i = cols ∧ ∀ j, j < cols → P j (rd t i j)

theorem TabOk.wr {t : Table} {rows cols : Nat} {P : Nat → Int → Prop} (h : TabOk t rows cols P)
    (i j : Nat) (f : Int → Int) (hf : ∀ x, P j x → P j (f x)) : TabOk (wr t i j f) rows cols P := by
  refine ⟨by rw [size_wr]; exact h.1, fun i' hi' => ⟨by rw [rowLen_wr]; exact (h.2 i' hi').1, fun j' hj' => ?_⟩⟩
  rw [rd_wr]
  split
  · rename_i hc
    obtain ⟨rfl, rfl, _, _⟩ := hc
    exact hf _ ((h.2 i' hi').2 j' hj')
  · exact (h.2 i' hi').2 j' hj'

/-- range of the entries of `counter1` -/
def P1 : Nat → Int → Prop := fun _ x => 0 ≤ x ∧ x ≤ 65520

/-- upper bound of `counter2[.][j]`: 65520, except the last column of the current bitstream
version, which starts at 65535 and never exceeds it -/
def cap2 (v3 : Bool) (j : Nat) : Int := if j = 16 ∧ v3 = false then 65535 else 65520

/-- range of the entries of `counter2` -/
def P2 (v3 : Bool) : Nat → Int → Prop := fun j x => 0 ≤ x ∧ x ≤ cap2 v3 j

/-- The invariant of the predictor: every reachable state satisfies it (`R_init`, `R_step`). -/
structure R (s : CM) : Prop where
  c1 : s.c1 < 256
  c2 : s.c2 < 256
  ctx : 1 ≤ s.ctx ∧ s.ctx ≤ 255
  run : s.runMask = 0 ∨ s.runMask = 256
  idx : 0 ≤ s.idx ∧ s.idx ≤ 15
  t1 : TabOk s.counter1 256 257 P1
  t2 : TabOk s.counter2 512 17 (P2 s.isBsVersion3)

/-- a wrap function that is the identity on the int32 range (`wrap32`, `wrap64`, `id`) -/
def I32 (w : Int → Int) : Prop := ∀ x : Int, -2147483648 ≤ x → x < 2147483648 → w x = x

theorem I32_wrap32 : I32 wrap32 := fun _ h1 h2 => wrap32_id h1 h2
theorem I32_wrap64 : I32 wrap64 := fun _ h1 h2 => wrap64_id (by omega) (by omega)
theorem I32_id : I32 id := fun _ _ _ => rfl

/-! ### initial state -/

theorem rd_replicate (n m : Nat) (v : Int) (i j : Nat) (hi : i < n) (hj : j < m) :
    rd (Array.replicate n (Array.replicate m v)) i j = v := by
  simp [rd, hi, hj]

theorem row2Init_eq (v3 : Bool) : row2Init v3 =
    #[0, 4096, 8192, 12288, 16384, 20480, 24576, 28672, 32768, 36864, 40960, 45056, 49152, 53248,
      57344, 61440, if v3 then 61440 else 65535] := by
  cases v3 <;> rfl

theorem row2Init_ok (v3 : Bool) : (row2Init v3).size = 17 ∧
    ∀ j, j < 17 → P2 v3 j ((row2Init v3).getD j 0) := by
  rw [row2Init_eq]
  refine ⟨rfl, ?_⟩
  unfold P2 cap2
  cases v3 <;> decide

theorem R_init (v3 : Bool) : R (cmInit v3) := by
  refine ⟨by simp [cmInit], by simp [cmInit], by simp [cmInit], Or.inl rfl, by simp [cmInit], ?_, ?_⟩
  · refine ⟨by simp [cmInit], fun i hi => ⟨by simp [cmInit, rowLen, hi], fun j hj => ?_⟩⟩
    show P1 j (rd (Array.replicate 256 (Array.replicate 257 (pscale >>> 1))) i j)
    rw [rd_replicate _ _ _ _ _ hi hj]
    unfold P1; decide
  · refine ⟨by simp [cmInit], fun i hi => ⟨?_, fun j hj => ?_⟩⟩
    · simp [cmInit, rowLen, hi, (row2Init_ok v3).1]
    · have : rd (cmInit v3).counter2 i j = (row2Init v3).getD j 0 := by
        simp [cmInit, rd, hi]
      rw [this]
      exact (row2Init_ok v3).2 j hj

/-! ### the counter update rules -/

theorem shr2 (x : Int) : x >>> fastRate = x / 4 := by
  simp [fastRate, Int.shiftRight_eq_div_pow]
theorem shr4 (x : Int) : x >>> mediumRate = x / 16 := by
  simp [mediumRate, Int.shiftRight_eq_div_pow]
theorem shr6 (x : Int) : x >>> slowRate = x / 64 := by
  simp [slowRate, Int.shiftRight_eq_div_pow]

/-- the three rates used by `Update` -/
def IsRate (k : Nat) : Prop := k = fastRate ∨ k = mediumRate ∨ k = slowRate

/-- on a counter in `[0, 65535]` the int32 arithmetic of the update rule does not wrap -/
theorem adj_eq {w : Int → Int} (hw : I32 w) (bit : Bool) {k : Nat} (hk : IsRate k) {x : Int}
    (h0 : 0 ≤ x) (h1 : x ≤ 65535) : adj w bit k x = adj id bit k x := by
  rcases hk with rfl | rfl | rfl <;> cases bit <;>
    simp only [adj, dec0, inc1, pscale, shr2, shr4, shr6, id, if_true, if_false, Bool.false_eq_true] <;>
    simp (disch := omega) only [hw _]

/-- the update rule keeps a counter in `[0, 65520]`, and keeps a counter in `[0, 65535]` -/
theorem adj_range (bit : Bool) {k : Nat} (hk : IsRate k) {x : Int} (c : Int)
    (hc : c = 65520 ∨ c = 65535) (h0 : 0 ≤ x) (h1 : x ≤ c) :
    0 ≤ adj id bit k x ∧ adj id bit k x ≤ c := by
  rcases hk with rfl | rfl | rfl <;> cases bit <;>
    simp only [adj, dec0, inc1, pscale, shr2, shr4, shr6, id, if_true, if_false, Bool.false_eq_true] <;>
    omega

/-! ### Update -/

theorem P1_adj (bit : Bool) {k : Nat} (hk : IsRate k) (j : Nat) (x : Int) (h : P1 j x) :
    P1 j (adj id bit k x) := adj_range bit hk 65520 (Or.inl rfl) h.1 h.2

theorem P2_adj (v3 bit : Bool) {k : Nat} (hk : IsRate k) (j : Nat) (x : Int) (h : P2 v3 j x) :
    P2 v3 j (adj id bit k x) :=
  adj_range bit hk (cap2 v3 j) (by unfold cap2; split <;> simp) h.1 h.2

theorem P1_le {j : Nat} {x : Int} (h : P1 j x) : 0 ≤ x ∧ x ≤ 65535 := ⟨h.1, by have := h.2; omega⟩
theorem P2_le {v3 : Bool} {j : Nat} {x : Int} (h : P2 v3 j x) : 0 ≤ x ∧ x ≤ 65535 := by
  refine ⟨h.1, ?_⟩
  have := h.2
  unfold cap2 at this
  split at this <;> omega

theorem R_roll {s : CM} (c1 : s.c1 < 256) (ctx : 1 ≤ s.ctx) (run : s.runMask = 0 ∨ s.runMask = 256)
    (idx : 0 ≤ s.idx ∧ s.idx ≤ 15) (t1 : TabOk s.counter1 256 257 P1)
    (t2 : TabOk s.counter2 512 17 (P2 s.isBsVersion3)) (c2 : s.c2 < 256) : R (cmRoll s) := by
  unfold cmRoll
  split
  · exact ⟨Nat.mod_lt _ (by decide), c1, by simp, by (show (if s.ctx % 256 = s.c1 then 256 else 0) = 0 ∨ (if s.ctx % 256 = s.c1 then 256 else 0) = 256; split <;> simp), idx, t1, t2⟩
  · exact ⟨c1, c2, ⟨ctx, by omega⟩, run, idx, t1, t2⟩

/-- `Update` (integer arithmetic) preserves the invariant -/
theorem R_updateI {s : CM} (h : R s) (bit : Bool) : R (cmUpdateI s bit) := by
  unfold cmUpdateI cmUpdateW
  apply R_roll
  · exact h.c1
  · show 1 ≤ (id (if bit = true then id ((s.ctx : Int) + 1) + s.ctx else (s.ctx : Int) + s.ctx)).toNat
    have := h.ctx
    cases bit <;> simp only [id, if_true, if_false, Bool.false_eq_true] <;> omega
  · exact h.run
  · exact h.idx
  · exact (h.t1.wr _ _ _ (P1_adj bit (Or.inl rfl) _)).wr _ _ _ (P1_adj bit (Or.inr (Or.inl rfl)) _)
  · exact (h.t2.wr _ _ _ (P2_adj _ bit (Or.inr (Or.inr rfl)) _)).wr _ _ _ (P2_adj _ bit (Or.inr (Or.inr rfl)) _)
  · exact h.c2

theorem row2_lt {s : CM} (h : R s) : row2 s < 512 := by
  unfold row2
  have h1 : s.ctx < 2 ^ 9 := by have := h.ctx; omega
  have h2 : s.runMask < 2 ^ 9 := by rcases h.run with e | e <;> omega
  exact Nat.or_lt_two_pow h1 h2

/-- on a state satisfying the invariant the int32 arithmetic of `Update` never wraps -/
theorem updateW_eq {w : Int → Int} (hw : I32 w) {s : CM} (h : R s) (bit : Bool) :
    cmUpdateW w s bit = cmUpdateI s bit := by
  have hctx := h.ctx
  have hc1 := h.c1
  have hidx := h.idx
  have hrow := row2_lt h
  unfold cmUpdateI cmUpdateW
  -- counter1
  have e1 : wr s.counter1 s.ctx 256 (adj w bit fastRate) = wr s.counter1 s.ctx 256 (adj id bit fastRate) :=
    wr_congr _ _ _ _ _ (by
      have := P1_le ((h.t1.2 s.ctx (by omega)).2 256 (by omega))
      exact adj_eq hw bit (Or.inl rfl) this.1 this.2)
  have t1' := h.t1.wr s.ctx 256 _ (P1_adj bit (Or.inl rfl) 256)
  have e2 : wr (wr s.counter1 s.ctx 256 (adj id bit fastRate)) s.ctx s.c1 (adj w bit mediumRate)
      = wr (wr s.counter1 s.ctx 256 (adj id bit fastRate)) s.ctx s.c1 (adj id bit mediumRate) :=
    wr_congr _ _ _ _ _ (by
      have := P1_le ((t1'.2 s.ctx (by omega)).2 s.c1 (by omega))
      exact adj_eq hw bit (Or.inr (Or.inl rfl)) this.1 this.2)
  -- counter2
  have e3 : wr s.counter2 (row2 s) s.idx.toNat (adj w bit slowRate)
      = wr s.counter2 (row2 s) s.idx.toNat (adj id bit slowRate) :=
    wr_congr _ _ _ _ _ (by
      have := P2_le ((h.t2.2 (row2 s) hrow).2 s.idx.toNat (by omega))
      exact adj_eq hw bit (Or.inr (Or.inr rfl)) this.1 this.2)
  have t2' := h.t2.wr (row2 s) s.idx.toNat _ (P2_adj _ bit (Or.inr (Or.inr rfl)) s.idx.toNat)
  have e4 : wr (wr s.counter2 (row2 s) s.idx.toNat (adj id bit slowRate)) (row2 s) (s.idx + 1).toNat (adj w bit slowRate)
      = wr (wr s.counter2 (row2 s) s.idx.toNat (adj id bit slowRate)) (row2 s) (s.idx + 1).toNat (adj id bit slowRate) :=
    wr_congr _ _ _ _ _ (by
      have := P2_le ((t2'.2 (row2 s) hrow).2 (s.idx + 1).toNat (by omega))
      exact adj_eq hw bit (Or.inr (Or.inr rfl)) this.1 this.2)
  have e5 : w (if bit = true then w ((s.ctx : Int) + 1) + s.ctx else (s.ctx : Int) + s.ctx)
      = id (if bit = true then id ((s.ctx : Int) + 1) + s.ctx else (s.ctx : Int) + s.ctx) := by
    cases bit <;> simp only [id, if_true, if_false, Bool.false_eq_true] <;>
      simp (disch := omega) only [hw _]
  simp only [e1, e2, e3, e4, e5]

/-! ### Get -/

/-- `p` is computed without wrap-around and lies in `[0, 65520]` -/
theorem cmP_facts {w32 wi : Int → Int} (hw32 : I32 w32) (hwi : I32 wi) {s : CM} (h : R s) :
    cmP w32 wi s = cmP id id s ∧ 0 ≤ cmP id id s ∧ cmP id id s ≤ 65520 := by
  have hctx := h.ctx
  have hc1 := h.c1
  have hc2 := h.c2
  have ha := (h.t1.2 s.ctx (by omega)).2 256 (by omega)
  have hb := (h.t1.2 s.ctx (by omega)).2 s.c1 (by omega)
  have hc := (h.t1.2 s.ctx (by omega)).2 s.c2 (by omega)
  unfold P1 at ha hb hc
  unfold cmP
  generalize rd s.counter1 s.ctx 256 = a at *
  generalize rd s.counter1 s.ctx s.c1 = b at *
  generalize rd s.counter1 s.ctx s.c2 = c at *
  simp only [Int.shiftRight_eq_div_pow, id]
  refine ⟨?_, by omega, by omega⟩
  simp (disch := omega) only [hw32 _]
  simp (disch := omega) only [hwi _]

/-- linear interpolation with a weight `w / 4096`, `0 ≤ w < 4096`, rounded down: the product fits
in 29 bits and the result lies between the two end points -/
theorem interp_bounds {x1 x2 w c : Int} (hw0 : 0 ≤ w) (hw1 : w < 4096) (h10 : 0 ≤ x1) (h11 : x1 ≤ c)
    (h20 : 0 ≤ x2) (h21 : x2 ≤ c) (hc : c ≤ 65535) :
    -268435456 ≤ (x2 - x1) * w ∧ (x2 - x1) * w ≤ 268435456 ∧
    0 ≤ x1 + (x2 - x1) * w / 4096 ∧ x1 + (x2 - x1) * w / 4096 ≤ c := by
  by_cases hd : 0 ≤ x2 - x1
  · have e1 : 0 ≤ (x2 - x1) * w := Int.mul_nonneg hd hw0
    have e2 : (x2 - x1) * w ≤ (x2 - x1) * 4096 := Int.mul_le_mul_of_nonneg_left (by omega) hd
    generalize (x2 - x1) * w = m at *
    omega
  · have hd' : 0 ≤ x1 - x2 := by omega
    have e1 : 0 ≤ (x1 - x2) * w := Int.mul_nonneg hd' hw0
    have e2 : (x1 - x2) * w ≤ (x1 - x2) * 4096 := Int.mul_le_mul_of_nonneg_left (by omega) hd'
    have e3 : (x2 - x1) * w = -((x1 - x2) * w) := by
      rw [← Int.neg_mul]; congr 1; omega
    rw [e3]
    generalize (x1 - x2) * w = m at *
    omega

/-- the two `return` expressions: no wrap-around, result in `[0, 4095]` -/
theorem cmOut_facts {wi : Int → Int} (hwi : I32 wi) (v3 : Bool) {p x1 x2 : Int}
    (hp0 : 0 ≤ p) (hp1 : p ≤ 65520) (h10 : 0 ≤ x1) (h11 : x1 ≤ 65520)
    (h20 : 0 ≤ x2) (h21 : x2 ≤ cap2 v3 16) :
    cmOut wi v3 p x1 x2 = cmOut id v3 p x1 x2 ∧ 0 ≤ cmOut id v3 p x1 x2 ∧ cmOut id v3 p x1 x2 ≤ 4095 := by
  cases v3
  · -- bitstream version >= 4
    have h21' : x2 ≤ 65535 := by simpa [cap2] using h21
    simp only [cmOut, Bool.false_eq_true, if_false, Int.shiftRight_eq_div_pow, id]
    refine ⟨?_, by omega, by omega⟩
    simp (disch := omega) only [hwi _]
  · have h21' : x2 ≤ 65520 := by simpa [cap2] using h21
    have hm := Int.emod_nonneg p (show (4096 : Int) ≠ 0 by decide)
    have hm' := Int.emod_lt_of_pos p (show (0 : Int) < 4096 by decide)
    have hi := interp_bounds hm hm' h10 h11 h20 h21' (by decide)
    simp only [cmOut, if_true, Int.shiftRight_eq_div_pow, id]
    generalize p % 4096 = q at *
    have eA : wi (x2 - x1) = x2 - x1 := hwi _ (by omega) (by omega)
    have eB : wi q = q := hwi _ (by omega) (by omega)
    rw [eA, eB]
    generalize (x2 - x1) * q = m at *
    refine ⟨?_, by omega, by omega⟩
    simp (disch := omega) only [hwi _]

theorem cap2_le16 (v3 : Bool) (j : Nat) : cap2 v3 j ≤ cap2 v3 16 := by
  cases v3 <;> simp [cap2] <;> split <;> omega

/-- the index `p >> 12` and the two entries read from `counter2` -/
theorem idx_facts {s : CM} (h : R s) :
    let idx := cmP id id s >>> 12
    0 ≤ idx ∧ idx ≤ 15 ∧
    (0 ≤ rd s.counter2 (row2 s) idx.toNat ∧ rd s.counter2 (row2 s) idx.toNat ≤ 65520) ∧
    (0 ≤ rd s.counter2 (row2 s) (idx + 1).toNat ∧
      rd s.counter2 (row2 s) (idx + 1).toNat ≤ cap2 s.isBsVersion3 16) := by
  intro idx
  have hp := (cmP_facts I32_id I32_id h).2
  have hrow := row2_lt h
  have hi : 0 ≤ idx ∧ idx ≤ 15 := by
    show 0 ≤ cmP id id s >>> 12 ∧ cmP id id s >>> 12 ≤ 15
    rw [Int.shiftRight_eq_div_pow]; omega
  refine ⟨hi.1, hi.2, ?_, ?_⟩
  · have := (h.t2.2 (row2 s) hrow).2 idx.toNat (by omega)
    unfold P2 cap2 at this
    rw [if_neg (by omega)] at this
    exact this
  · have := (h.t2.2 (row2 s) hrow).2 (idx + 1).toNat (by omega)
    unfold P2 at this
    refine ⟨this.1, Int.le_trans this.2 ?_⟩
    exact cap2_le16 _ _

/-- on a state satisfying the invariant the arithmetic of `Get` never wraps -/
theorem getW_eq {w32 wi : Int → Int} (hw32 : I32 w32) (hwi : I32 wi) {s : CM} (h : R s) :
    cmGetW w32 wi s = cmGetI s := by
  obtain ⟨hi0, hi1, hx1, hx2⟩ := idx_facts h
  have hp := cmP_facts hw32 hwi h
  have hcap : cap2 s.isBsVersion3 16 ≤ 65535 := by unfold cap2; split <;> omega
  unfold cmGetI cmGetW
  simp only [hp.1, id]
  have e1 : wi (cmP id id s >>> 12) = cmP id id s >>> 12 := hwi _ (by omega) (by omega)
  rw [e1]
  have e2 : wi (cmP id id s >>> 12 + 1) = cmP id id s >>> 12 + 1 := hwi _ (by omega) (by omega)
  rw [e2]
  have e3 := hwi _ (show -2147483648 ≤ rd s.counter2 (row2 s) (cmP id id s >>> 12).toNat by omega) (by omega)
  have e4 := hwi _ (show -2147483648 ≤ rd s.counter2 (row2 s) (cmP id id s >>> 12 + 1).toNat by omega) (by omega)
  rw [e3, e4, (cmOut_facts hwi s.isBsVersion3 hp.2.1 hp.2.2 hx1.1 hx1.2 hx2.1 hx2.2).1]

/-- `Get()` returns a value in `[0, 4095]` (both bitstream versions) -/
theorem getI_range {s : CM} (h : R s) : 0 ≤ (cmGetI s).1 ∧ (cmGetI s).1 ≤ 4095 := by
  obtain ⟨hi0, hi1, hx1, hx2⟩ := idx_facts h
  have hp := cmP_facts I32_id I32_id h
  exact (cmOut_facts I32_id s.isBsVersion3 hp.2.1 hp.2.2 hx1.1 hx1.2 hx2.1 hx2.2).2

/-- `Get()` only stores `idx`, and the stored `idx` is in `[0, 15]`: the invariant is preserved -/
theorem R_getI {s : CM} (h : R s) : R (cmGetI s).2 := by
  obtain ⟨hi0, hi1, _, _⟩ := idx_facts h
  exact ⟨h.c1, h.c2, h.ctx, h.run, ⟨hi0, hi1⟩, h.t1, h.t2⟩

/-! ### index expressions -/

theorem getOk {w32 wi : Int → Int} (hw32 : I32 w32) (hwi : I32 wi) {s : CM} (h : R s) :
    cmGetOkW w32 wi s = true := by
  obtain ⟨hi0, hi1, _, _⟩ := idx_facts h
  have hp := cmP_facts hw32 hwi h
  have hrow := row2_lt h
  have hctx := h.ctx
  have hc1 := h.c1
  have hc2 := h.c2
  have l1 := (h.t1.2 s.ctx (by omega)).1
  have l2 := (h.t2.2 (row2 s) hrow).1
  unfold cmGetOkW
  simp only [hp.1]
  have e1 : wi (cmP id id s >>> 12) = cmP id id s >>> 12 := hwi _ (by omega) (by omega)
  have e2 : wi (cmP id id s >>> 12 + 1) = cmP id id s >>> 12 + 1 := hwi _ (by omega) (by omega)
  rw [e1, e2, l1, l2, h.t1.1, h.t2.1]
  simp only [Bool.and_eq_true, decide_eq_true_eq]
  omega

theorem updateOk {s : CM} (h : R s) : cmUpdateOk s = true := by
  have hrow := row2_lt h
  have hctx := h.ctx
  have hc1 := h.c1
  have hidx := h.idx
  have l1 := (h.t1.2 s.ctx (by omega)).1
  have l2 := (h.t2.2 (row2 s) hrow).1
  unfold cmUpdateOk
  rw [l1, l2, h.t1.1, h.t2.1]
  simp only [Bool.and_eq_true, decide_eq_true_eq]
  omega

/-! ### the Go arithmetic (`wrap32` / `wrap64`) -/

theorem getZ_eq {s : CM} (h : R s) : cmGetZ s = cmGetI s := getW_eq I32_wrap32 I32_wrap64 h

theorem update_eq {s : CM} (h : R s) (bit : Bool) : cmUpdate s bit = cmUpdateI s bit :=
  updateW_eq I32_wrap32 h bit

theorem get_snd {s : CM} (h : R s) : (cmGet s).2 = (cmGetI s).2 := by
  show (cmGetZ s).2 = _; rw [getZ_eq h]

theorem R_get {s : CM} (h : R s) : R (cmGet s).2 := by rw [get_snd h]; exact R_getI h

theorem R_update {s : CM} (h : R s) (bit : Bool) : R (cmUpdate s bit) := by
  rw [update_eq h]; exact R_updateI h bit

theorem R_step {s : CM} (h : R s) (bit : Bool) : R (cmUpdate (cmGet s).2 bit) := R_update (R_get h) bit

theorem getZ_range {s : CM} (h : R s) : 0 ≤ (cmGetZ s).1 ∧ (cmGetZ s).1 ≤ 4095 := by
  rw [getZ_eq h]; exact getI_range h

theorem get_range {s : CM} (h : R s) : (cmGet s).1 ≤ 4095 := by
  have := getZ_range h
  show (cmGetZ s).1.toNat ≤ 4095
  omega

theorem get_cast {s : CM} (h : R s) : ((cmGet s).1 : Int) = (cmGetZ s).1 := by
  have := getZ_range h
  show ((cmGetZ s).1.toNat : Int) = _
  omega

theorem getF_some {s : CM} (h : R s) : cmGetF s = some (cmGetZ s) := by
  unfold cmGetF cmGetOk; rw [getOk I32_wrap32 I32_wrap64 h]; rfl

theorem updateF_some {s : CM} (h : R s) (bit : Bool) : cmUpdateF s bit = some (cmUpdate s bit) := by
  unfold cmUpdateF; rw [updateOk h]; rfl

/-! ### runs from the initial state -/

theorem R_runState (s : CM) (h : R s) (bits : List Bool) : R (cmRunState s bits) := by
  induction bits generalizing s with
  | nil => exact h
  | cons b bs ih => exact ih _ (R_step h b)

theorem run_range (s : CM) (h : R s) (bits : List Bool) : ∀ p ∈ cmRun s bits, p ≤ 4095 := by
  induction bits generalizing s with
  | nil => intro p hp; cases hp
  | cons b bs ih =>
    intro p hp
    rcases List.mem_cons.1 hp with rfl | hp
    · exact get_range h
    · exact ih _ (R_step h b) p hp

theorem runF_some (s : CM) (h : R s) (bits : List Bool) :
    cmRunF s bits = some ((cmRun s bits).map Int.ofNat) := by
  induction bits generalizing s with
  | nil => rfl
  | cons b bs ih =>
    have e : (cmGetZ s).2 = (cmGet s).2 := rfl
    simp only [cmRunF, getF_some h, e, updateF_some (R_get h) b, ih _ (R_step h b), cmRun,
      List.map_cons, Option.map_some]
    have := get_cast h
    rw [← this]; rfl

end Kanzi.CM
