/-
Slice `bwts` (C13): the inverse transform undoes the specification: `decode (bwtsSpec s) = s`.

`visitGo` (the pure form of the loops of `BWTS.Inverse`) walks the cycles of the LF mapping in the
order of their least index.  On the sorted rotations of the Lyndon factors `w1 ≥ … ≥ wk` the cycle
with the least unvisited index spells the least remaining factor, i.e. the LAST remaining one; the
loops write the cycles from the end of the block backwards, which rebuilds `w1 … wk`.
-/
import Kanzi.Proofs.BWTSMatrix

namespace Kanzi.BWTS

/-! ## one cycle -/

/-- the first `k` points of the orbit of `r`, newest first -/
def orbR (π : Nat → Nat) (r : Nat) : Nat → List Nat
  | 0 => []
  | k + 1 => itr π k r :: orbR π r k

theorem mem_orbR {π : Nat → Nat} {r k x : Nat} : x ∈ orbR π r k ↔ ∃ a, a < k ∧ x = itr π a r := by
  induction k with
  | zero => simp [orbR]
  | succ k ih =>
    simp only [orbR, List.mem_cons, ih]
    constructor
    · rintro (h | ⟨a, ha, h⟩)
      · exact ⟨k, by omega, h⟩
      · exact ⟨a, by omega, h⟩
    · rintro ⟨a, ha, h⟩
      by_cases hak : a = k
      · subst hak; exact Or.inl h
      · exact Or.inr ⟨a, by omega, h⟩

theorem orbR_length (π : Nat → Nat) (r k : Nat) : (orbR π r k).length = k := by
  induction k with
  | zero => rfl
  | succ k ih => simp [orbR, ih]

theorem closed_itr {π : Nat → Nat} {vis : List Nat} (hc : ∀ q ∈ vis, π q ∈ vis) (q : Nat)
    (hq : q ∈ vis) (k : Nat) : itr π k q ∈ vis := by
  induction k with
  | zero => exact hq
  | succ k ih => exact hc _ ih

/-- reflecting the index is a permutation -/
theorem refl_perm {α : Type} (m : Nat) : ∀ f : Nat → α,
    ((List.range m).map (fun j => f (m - 1 - j))).Perm ((List.range m).map f) := by
  induction m with
  | zero => intro f; simp
  | succ m ih =>
    intro f
    have h1 : (List.range (m + 1)).map (fun j => f (m + 1 - 1 - j)) =
        f m :: (List.range m).map (fun j => f (m - 1 - j)) := by
      rw [List.range_succ_eq_map, List.map_cons, List.map_map]
      congr 1
      apply List.map_congr_left
      intro j _
      simp only [Function.comp]
      congr 1; omega
    rw [h1, List.range_succ, List.map_append, List.map_singleton]
    exact ((ih f).cons (f m)).trans (List.perm_append_singleton _ _).symm

section
variable {L : List (List Nat)}

theorem cycleGo_orbit (hL : SortedRots L) (vis : List Nat) (hc : ∀ q ∈ vis, lfOfL L q ∈ vis)
    (r : Nat) (hr : r < L.length) (hrv : r ∉ vis) :
    ∀ d j fuel, j + d + 1 = L[r].length → d + 1 ≤ fuel →
      cycleGo (lfOfL L) fuel (orbR (lfOfL L) r j ++ vis) (itr (lfOfL L) j r) =
        orbR (lfOfL L) r L[r].length ++ vis := by
  intro d
  induction d with
  | zero =>
    intro j fuel hj hf
    obtain ⟨f, rfl⟩ : ∃ f, fuel = f + 1 := ⟨fuel - 1, by omega⟩
    unfold cycleGo
    have hπ : lfOfL L (itr (lfOfL L) j r) = r := by
      have := itr_length_self hL r hr
      rw [← hj] at this
      exact this
    have hmem : r ∈ itr (lfOfL L) j r :: (orbR (lfOfL L) r j ++ vis) := by
      have : r ∈ orbR (lfOfL L) r (j + 1) := mem_orbR.2 ⟨0, by omega, rfl⟩
      simp only [orbR, List.mem_cons] at this
      simp only [List.mem_cons, List.mem_append]
      rcases this with h | h
      · exact Or.inl h
      · exact Or.inr (Or.inl h)
    rw [hπ, if_pos hmem, ← hj]
    rfl
  | succ d ih =>
    intro j fuel hj hf
    obtain ⟨f, rfl⟩ : ∃ f, fuel = f + 1 := ⟨fuel - 1, by omega⟩
    unfold cycleGo
    have hnot : lfOfL L (itr (lfOfL L) j r) ∉ itr (lfOfL L) j r :: (orbR (lfOfL L) r j ++ vis) := by
      intro hmem
      have hmem' : itr (lfOfL L) (j + 1) r ∈ orbR (lfOfL L) r (j + 1) ++ vis := hmem
      rcases List.mem_append.1 hmem' with h | h
      · obtain ⟨a, ha, he⟩ := mem_orbR.1 h
        exact itr_injective hL r hr a (j + 1) (by omega) (by omega) he.symm
      · have := closed_itr hc _ h (L[r].length - (j + 1))
        rw [← itr_add, show L[r].length - (j + 1) + (j + 1) = L[r].length by omega,
          itr_length_self hL r hr] at this
        exact hrv this
    rw [if_neg hnot]
    exact ih (j + 1) f (by omega) (by omega)

/-- the letters along the orbit spell the word -/
theorem orbR_letters (hL : SortedRots L) (r : Nat) (hr : r < L.length) (k : Nat)
    (hk : k ≤ L[r].length) :
    (orbR (lfOfL L) r k).map (fun q => (L.map lastL).getD q 0) = L[r].drop (L[r].length - k) := by
  induction k with
  | zero => simp [orbR]
  | succ k ih =>
    simp only [orbR, List.map_cons]
    rw [ih (by omega), letter_itr hL r hr k (by omega),
      show L[r].length - k = (L[r].length - (k + 1)) + 1 by omega,
      show L[r].length - 1 - k = L[r].length - (k + 1) by omega]
    have hlt : L[r].length - (k + 1) < L[r].length := by omega
    rw [List.drop_eq_getElem_cons hlt]
    simp [List.getD_eq_getElem?_getD, List.getElem?_eq_getElem hlt]

theorem orbR_nodup (hL : SortedRots L) (r : Nat) (hr : r < L.length) (k : Nat)
    (hk : k ≤ L[r].length) : (orbR (lfOfL L) r k).Nodup := by
  induction k with
  | zero => simp [orbR]
  | succ k ih =>
    simp only [orbR]
    refine List.nodup_cons.2 ⟨?_, ih (by omega)⟩
    intro h
    obtain ⟨a, ha, he⟩ := mem_orbR.1 h
    exact itr_injective hL r hr a k ha (by omega) he.symm

/-- the words along the orbit are the rotations -/
theorem orbR_words (hL : SortedRots L) (r : Nat) (hr : r < L.length) :
    ((orbR (lfOfL L) r L[r].length).map (fun q => L.getD q [])).Perm (rotations L[r]) := by
  have hX : L[r] ≠ [] := (hL.rotl _ (List.getElem_mem hr)).ne_nil
  -- as a set of words: `rotRn k L[r]`, `k < m`
  have h1 : ∀ k, (orbR (lfOfL L) r k).map (fun q => L.getD q []) =
      ((List.range k).map (fun j => rotRn j L[r])).reverse := by
    intro k
    induction k with
    | zero => simp [orbR]
    | succ k ih =>
      obtain ⟨hq, he⟩ := itr_spec hL r hr k
      simp only [orbR, List.map_cons, ih, List.range_succ, List.map_append, List.reverse_append]
      congr 1
      simp [List.getD_eq_getElem?_getD, List.getElem?_eq_getElem hq, he]
  rw [h1]
  refine (List.reverse_perm _).trans ?_
  -- `rotRn j x = rot x (m - j)`, a reflection of the index, then a cyclic shift
  have h2 : ∀ j, j ≤ L[r].length → rotRn j L[r] = rot L[r] (L[r].length - j) := by
    intro j
    induction j with
    | zero => intro _; simp [rotRn, rot_length_self]
    | succ j ih =>
      intro hj
      simp only [rotRn]
      rw [ih (by omega), rotR_rot _ hX _ (by omega)]
      congr 1
      rw [show L[r].length - j + L[r].length - 1 = L[r].length - (j + 1) + L[r].length by omega,
        Nat.add_mod_right, Nat.mod_eq_of_lt (by omega)]
  have h3 : (List.range L[r].length).map (fun j => rotRn j L[r]) =
      (List.range L[r].length).map (fun j => (fun i => rot L[r] (i + 1)) (L[r].length - 1 - j)) := by
    apply List.map_congr_left
    intro j hj
    have := List.mem_range.1 hj
    rw [h2 j (by omega)]
    show rot L[r] _ = rot L[r] _
    congr 1; omega
  rw [h3]
  refine (refl_perm L[r].length (fun i => rot L[r] (i + 1))).trans ?_
  exact shift_perm L[r].length (rot L[r]) (by rw [rot_length_self, rot_zero])

end

/-! ## the unvisited indices -/

def unvis (n : Nat) (vis : List Nat) : List Nat := (List.range n).filter (fun q => decide (q ∉ vis))

theorem mem_unvis {n : Nat} {vis : List Nat} {q : Nat} : q ∈ unvis n vis ↔ q < n ∧ q ∉ vis := by
  simp [unvis]

theorem unvis_nodup (n : Nat) (vis : List Nat) : (unvis n vis).Nodup :=
  List.Nodup.filter _ List.nodup_range

theorem unvis_split (n : Nat) (O vis : List Nat) (hO : O.Nodup)
    (hsub : ∀ q ∈ O, q < n ∧ q ∉ vis) : (unvis n vis).Perm (O ++ unvis n (O ++ vis)) := by
  have h1 : unvis n (O ++ vis) = (unvis n vis).filter (fun q => !decide (q ∈ O)) := by
    unfold unvis
    rw [List.filter_filter]
    apply List.filter_congr
    intro q _
    simp [List.mem_append, not_or]
  have h2 := List.filter_append_perm (fun q => decide (q ∈ O)) (unvis n vis)
  have h3 : ((unvis n vis).filter (fun q => decide (q ∈ O))).Perm O := by
    apply (List.perm_ext_iff_of_nodup (List.Nodup.filter _ (unvis_nodup n vis)) hO).2
    intro a
    simp only [List.mem_filter, decide_eq_true_eq, mem_unvis]
    exact ⟨fun h => h.2, fun h => ⟨hsub a h, h⟩⟩
  rw [h1]
  exact h2.symm.trans (h3.append_right _)

theorem getD_eq {α : Type} (L : List α) (d : α) (i : Nat) (h : i < L.length) : L.getD i d = L[i] := by
  simp [List.getD_eq_getElem?_getD, List.getElem?_eq_getElem h]

theorem range_map_getD {α : Type} (L : List α) (d : α) :
    (List.range L.length).map (fun q => L.getD q d) = L := by
  apply List.ext_getElem (by simp)
  intro i h1 h2
  simp only [List.getElem_map, List.getElem_range]
  exact getD_eq L d i h2

theorem flatten_length_zero {rem : List (List Nat)} (hne : ∀ w ∈ rem, w ≠ [])
    (h : rem.flatten.length = 0) : rem = [] := by
  cases rem with
  | nil => rfl
  | cons w rem =>
    have := hne w (by simp)
    have hl : w.length ≠ 0 := fun h0 => this (List.eq_nil_of_length_eq_zero h0)
    rw [List.flatten_cons, List.length_append] at h; omega

/-! ## all cycles -/

section
variable {L : List (List Nat)}

theorem visit_main (hL : SortedRots L) (fs : List (List Nat)) (hfs : ∀ w ∈ fs, Lyndon w)
    (hpw : fs.Pairwise (fun a b => lexLt a b = false)) (hn : L.length = fs.flatten.length) :
    ∀ (fuel : Nat) (vis : List Nat) (i : Nat) (rem dn : List (List Nat)), fs = rem ++ dn →
      (∀ q ∈ vis, lfOfL L q ∈ vis) → (∀ q, q < i → q ∈ vis) →
      vis.map (fun q => (L.map lastL).getD q 0) = dn.flatten →
      ((unvis L.length vis).map (fun q => L.getD q [])).Perm (rem.flatMap rotations) →
      L.length + 1 ≤ fuel + i →
      (visitGo (lfOfL L) L.length fuel vis i).map (fun q => (L.map lastL).getD q 0) = fs.flatten := by
  intro fuel
  induction fuel with
  | zero =>
    intro vis i rem dn hfsplit hc hall hmap hperm hfuel
    have hU : unvis L.length vis = [] := by
      apply List.eq_nil_iff_forall_not_mem.2
      intro q hq
      have := mem_unvis.1 hq
      exact this.2 (hall q (by omega))
    rw [hU] at hperm
    have hr : rem.flatMap rotations = [] := by simpa using hperm.symm.eq_nil
    have hrem : rem = [] := by
      apply flatten_length_zero (fun w hw => (hfs w (by rw [hfsplit]; simp [hw])).1)
      rw [← flatMap_rotations_length, hr]; rfl
    subst hrem
    simp only [visitGo, hmap, hfsplit, List.nil_append]
  | succ f ih =>
    intro vis i rem dn hfsplit hc hall hmap hperm hfuel
    have hremne : ∀ w ∈ rem, w ≠ [] := fun w hw => (hfs w (by rw [hfsplit]; simp [hw])).1
    have hlenU : (unvis L.length vis).length = rem.flatten.length := by
      have := hperm.length_eq
      rwa [List.length_map, flatMap_rotations_length] at this
    have hlenV : vis.length = dn.flatten.length := by
      have := congrArg List.length hmap
      rwa [List.length_map] at this
    have hsum : rem.flatten.length + dn.flatten.length = L.length := by
      rw [hn, hfsplit]; simp
    unfold visitGo
    by_cases hdone : L.length ≤ vis.length
    · rw [if_pos hdone]
      have hrem : rem = [] := flatten_length_zero hremne (by omega)
      subst hrem
      simp only [hmap, hfsplit, List.nil_append]
    · rw [if_neg hdone]
      by_cases hiv : i ∈ vis
      · rw [if_pos hiv]
        refine ih vis (i + 1) rem dn hfsplit hc ?_ hmap hperm (by omega)
        intro q hq
        by_cases hqi : q = i
        · exact hqi ▸ hiv
        · exact hall q (by omega)
      · rw [if_neg hiv]
        -- some index is unvisited, hence `i < n`
        have hUne : unvis L.length vis ≠ [] := by
          intro h0; rw [h0, List.length_nil] at hlenU; omega
        obtain ⟨u, hu⟩ := List.exists_mem_of_ne_nil _ hUne
        have hu' := mem_unvis.1 hu
        have hi : i < L.length := by
          by_cases h : i ≤ u
          · omega
          · exact absurd (hall u (by omega)) hu'.2
        have hiU : i ∈ unvis L.length vis := mem_unvis.2 ⟨hi, hiv⟩
        -- the last remaining factor
        have hrem0 : rem ≠ [] := by
          intro h0; rw [h0] at hlenU
          simp only [List.flatten_nil, List.length_nil] at hlenU
          exact hUne (List.eq_nil_of_length_eq_zero hlenU)
        obtain ⟨rem', w, rfl⟩ : ∃ rem' w, rem = rem' ++ [w] :=
          ⟨rem.dropLast, rem.getLast hrem0, (List.dropLast_append_getLast hrem0).symm⟩
        have hwL : Lyndon w := hfs w (by rw [hfsplit]; simp)
        have hXrot : RotL L[i] := hL.rotl _ (List.getElem_mem hi)
        -- `L[i] = w`
        have hle1 : SeqLe (pw w) (pw L[i]) := by
          have hmem : L.getD i [] ∈ (unvis L.length vis).map (fun q => L.getD q []) :=
            List.mem_map.2 ⟨i, hiU, rfl⟩
          rw [getD_eq L [] i hi] at hmem
          obtain ⟨w', hw', k, hk, he⟩ := mem_flatMap_rotations.1 (hperm.mem_iff.1 hmem)
          have hw'L : Lyndon w' := hfs w' (by rw [hfsplit]; exact List.mem_append_left _ hw')
          have hlex : lexLt w' w = false := by
            rcases List.mem_append.1 hw' with h | h
            · have hp := hpw
              rw [hfsplit, List.append_assoc] at hp
              exact (List.pairwise_append.1 hp).2.2 w' h w (by simp)
            · have : w' = w := by simpa using h
              rw [this]; exact lexLt_irrefl w
          rw [he]
          exact (lyndon_seqLe hw'L hwL hlex).trans (lyndon_le_rot hw'L k hk)
        have hle2 : SeqLe (pw L[i]) (pw w) := by
          have hmem : w ∈ (rem' ++ [w]).flatMap rotations :=
            mem_flatMap_rotations.2 ⟨w, by simp, 0, List.length_pos_iff.2 hwL.1, (rot_zero w).symm⟩
          obtain ⟨u', hu'U, hu'e⟩ := List.mem_map.1 (hperm.mem_iff.2 hmem)
          have hu'2 := mem_unvis.1 hu'U
          rw [getD_eq L [] u' hu'2.1] at hu'e
          rw [← hu'e]
          by_cases hiu : i = u'
          · subst hiu; exact seqLe_refl _
          · have : i < u' := by
              by_cases h : u' < i
              · exact absurd (hall u' h) hu'2.2
              · omega
            exact List.pairwise_iff_getElem.1 hL.sorted i u' hi hu'2.1 this
        have hXw : L[i] = w :=
          rotL_antisymm hXrot ⟨w, 0, hwL, List.length_pos_iff.2 hwL.1, (rot_zero w).symm⟩
            (seqEq_of_le_of_le hle2 hle1)
        -- the cycle
        have hmlen : L[i].length ≤ L.length := by
          rw [hXw]
          have : (rem' ++ [w]).flatten.length = rem'.flatten.length + w.length := by simp
          omega
        have hcyc := cycleGo_orbit hL vis hc i hi hiv (L[i].length - 1) 0 (L.length + 1)
          (by have := List.length_pos_iff.2 hXrot.ne_nil; omega)
          (by have := List.length_pos_iff.2 hXrot.ne_nil; omega)
        simp only [orbR, List.nil_append, itr] at hcyc
        rw [hcyc]
        have hmpos : 0 < L[i].length := List.length_pos_iff.2 hXrot.ne_nil
        have hOsub : ∀ q ∈ orbR (lfOfL L) i L[i].length, q < L.length ∧ q ∉ vis := by
          intro q hq
          obtain ⟨a, ha, rfl⟩ := mem_orbR.1 hq
          refine ⟨itr_lt hL i hi a, fun hmem => ?_⟩
          have := closed_itr hc _ hmem (L[i].length - a)
          rw [← itr_add, show L[i].length - a + a = L[i].length by omega,
            itr_length_self hL i hi] at this
          exact hiv this
        refine ih _ (i + 1) rem' (w :: dn) (by rw [hfsplit]; simp) ?_ ?_ ?_ ?_ (by omega)
        · -- closed under the LF mapping
          intro q hq
          rcases List.mem_append.1 hq with h | h
          · obtain ⟨a, ha, rfl⟩ := mem_orbR.1 h
            apply List.mem_append_left
            by_cases hlast : a + 1 = L[i].length
            · have : lfOfL L (itr (lfOfL L) a i) = i := by
                have := itr_length_self hL i hi
                rw [← hlast] at this; exact this
              rw [this]
              exact mem_orbR.2 ⟨0, hmpos, rfl⟩
            · exact mem_orbR.2 ⟨a + 1, by omega, rfl⟩
          · exact List.mem_append_right _ (hc q h)
        · intro q hq
          by_cases hqi : q = i
          · subst hqi
            exact List.mem_append_left _ (mem_orbR.2 ⟨0, hmpos, rfl⟩)
          · exact List.mem_append_right _ (hall q (by omega))
        · rw [List.map_append, orbR_letters hL i hi _ (Nat.le_refl _), hmap, Nat.sub_self,
            List.drop_zero, hXw]
          simp
        · -- the unvisited words
          have hsplit := (unvis_split L.length _ vis
            (orbR_nodup hL i hi _ (Nat.le_refl _)) hOsub).map (fun q => L.getD q [])
          rw [List.map_append] at hsplit
          have hwords : ((orbR (lfOfL L) i L[i].length).map (fun q => L.getD q [])).Perm
              (rotations w) := (orbR_words hL i hi).trans (by rw [hXw])
          have e1 : (rem' ++ [w]).flatMap rotations = rem'.flatMap rotations ++ rotations w := by
            simp [List.flatMap_append]
          have p1 := List.perm_append_comm
            (l₁ := (unvis L.length (orbR (lfOfL L) i L[i].length ++ vis)).map (fun q => L.getD q []))
            (l₂ := rotations w)
          have p2 := hwords.symm.append_right
            ((unvis L.length (orbR (lfOfL L) i L[i].length ++ vis)).map (fun q => L.getD q []))
          have h1 := ((p1.trans p2).trans hsplit.symm).trans (e1 ▸ hperm)
          exact (List.perm_append_right_iff _).1 h1

end

end Kanzi.BWTS
