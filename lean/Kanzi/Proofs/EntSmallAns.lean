/-
Proofs for one rANS symbol step (property C12): the reciprocal multiplication of
`encSymbol` is an exact division, and decode ∘ encode = id on the normalised interval.
Uses Mathlib's `ring` / `nlinarith` (single tactic modules).
-/
import Kanzi.Model.EntSmall
import Mathlib.Tactic.Ring
import Mathlib.Tactic.Linarith

namespace Kanzi.EntSmall

/-- Alverson's reciprocal: for `0 < f ≤ 2^s` and `x < 2^31`,
    `⌊x · ⌈2^(s+31)/f⌉ / 2^(s+31)⌋ = ⌊x / f⌋`. -/
theorem recip_core (f s x : Nat) (hf : 0 < f) (hfs : f ≤ 2 ^ s) (hx : x < 2 ^ 31) :
    (x * ((2 ^ (s + 31) + (f - 1)) / f)) / 2 ^ (s + 31) = x / f := by
  have hN : 0 < 2 ^ (s + 31) := Nat.two_pow_pos _
  have hNe : 2 ^ (s + 31) = 2 ^ s * 2 ^ 31 := Nat.pow_add 2 s 31
  generalize hm : (2 ^ (s + 31) + (f - 1)) / f = m
  generalize hNN : 2 ^ (s + 31) = N at *
  have h1 : m * f ≤ N + (f - 1) := by rw [← hm]; exact Nat.div_mul_le_self _ _
  have h2 : N + (f - 1) < m * f + f := by
    rw [← hm]
    have := Nat.div_add_mod (N + (f - 1)) f
    have := Nat.mod_lt (N + (f - 1)) hf
    nlinarith
  have h3 : N ≤ m * f := by omega
  have hq := Nat.div_add_mod x f
  have hr := Nat.mod_lt x hf
  generalize x / f = q at *
  generalize x % f = r at *
  apply Nat.div_eq_of_lt_le
  · calc q * N ≤ q * (m * f) := Nat.mul_le_mul_left _ h3
      _ = (f * q) * m := by ring
      _ ≤ x * m := Nat.mul_le_mul_right _ (by omega)
  · have hxe : x * (f - 1) < N := by
      rw [hNe]
      rcases Nat.eq_zero_or_pos (f - 1) with h0 | hp
      · rw [h0, Nat.mul_zero]; exact Nat.mul_pos (Nat.two_pow_pos s) (Nat.two_pow_pos 31)
      · have : f - 1 < 2 ^ s := by omega
        calc x * (f - 1) < 2 ^ 31 * (f - 1) := Nat.mul_lt_mul_of_pos_right hx hp
          _ ≤ 2 ^ 31 * 2 ^ s := Nat.mul_le_mul_left _ (by omega)
          _ = 2 ^ s * 2 ^ 31 := by ring
    apply Nat.lt_of_mul_lt_mul_left (a := f)
    calc f * (x * m) = x * (m * f) := by ring
      _ ≤ x * (N + (f - 1)) := Nat.mul_le_mul_left _ h1
      _ = x * N + x * (f - 1) := by ring
      _ < x * N + N := by omega
      _ = (x + 1) * N := by ring
      _ ≤ (f * (q + 1)) * N := Nat.mul_le_mul_right _ (by nlinarith)
      _ = f * ((q + 1) * N) := by ring

theorem shiftLoop_spec (fuel : Nat) : ∀ (s f : Nat), f ≤ 2 ^ (s + fuel) →
    f ≤ 2 ^ shiftLoop fuel s f ∧ (shiftLoop fuel s f = s ∨ 2 ^ (shiftLoop fuel s f - 1) < f) := by
  induction fuel with
  | zero =>
    intro s f h
    have e : shiftLoop 0 s f = s := rfl
    rw [e]; exact ⟨by simpa using h, Or.inl rfl⟩
  | succ fuel ih =>
    intro s f h
    have e : shiftLoop (fuel + 1) s f = if f > 2 ^ s then shiftLoop fuel (s + 1) f else s := rfl
    rw [e]
    by_cases hk : f > 2 ^ s
    · rw [if_pos hk]
      obtain ⟨h1, h2⟩ := ih (s + 1) f (by rw [show s + 1 + fuel = s + (fuel + 1) by omega]; exact h)
      refine ⟨h1, ?_⟩
      rcases h2 with h2 | h2
      · right; rw [h2]; simpa using hk
      · right; exact h2
    · rw [if_neg hk]
      exact ⟨by omega, Or.inl rfl⟩

theorem shiftOf_spec (f : Nat) (hf : 2 ≤ f) :
    f ≤ 2 ^ shiftOf f ∧ 1 ≤ shiftOf f ∧ 2 ^ (shiftOf f - 1) < f := by
  have h := shiftLoop_spec f 0 f (by rw [Nat.zero_add]; exact Nat.le_of_lt Nat.lt_two_pow_self)
  unfold shiftOf
  rcases h.2 with h0 | h1
  · rw [h0] at h; simp at h; omega
  · refine ⟨h.1, ?_, h1⟩
    by_contra hc
    have : shiftLoop f 0 f = 0 := by omega
    rw [this] at h; simp at h; omega

/-- the `& 0xFFFFFFFF` in `reset` never truncates (frequencies up to 2^16) -/
theorem invFreq_lt (f : Nat) (hf : 2 ≤ f) (hf16 : f ≤ 2 ^ 16) :
    (2 ^ (shiftOf f + 31) + (f - 1)) / f < 2 ^ 32 := by
  obtain ⟨h1, h2, h3⟩ := shiftOf_spec f hf
  rw [Nat.div_lt_iff_lt_mul (by omega)]
  have e : 2 ^ (shiftOf f + 31) = 2 ^ (shiftOf f - 1) * 2 ^ 32 := by
    rw [← Nat.pow_add]; congr 1; omega
  rw [e]
  have : (2 ^ (shiftOf f - 1) + 1) * 2 ^ 32 ≤ f * 2 ^ 32 := Nat.mul_le_mul_right _ h3
  have hexp : (2 ^ (shiftOf f - 1) + 1) * 2 ^ 32 = 2 ^ (shiftOf f - 1) * 2 ^ 32 + 2 ^ 32 := by ring
  rw [hexp] at this
  have hcomm : 2 ^ 32 * f = f * 2 ^ 32 := Nat.mul_comm _ _
  rw [hcomm]
  omega

theorem and_mask32 (m : Nat) (h : m < 2 ^ 32) : m &&& 0xFFFFFFFF = m := by
  have := Nat.and_two_pow_sub_one_eq_mod m 32
  have e : (2:Nat) ^ 32 - 1 = 0xFFFFFFFF := by norm_num
  rw [e] at this
  rw [this, Nat.mod_eq_of_lt h]

/-- `C12_ans_reciprocal`, core form: with the fields computed by `reset` for a frequency
    `2 ≤ fr ≤ 2^16`, the multiply-shift is the exact quotient for every `x < 2^31`. -/
theorem reciprocal_exact (fr x : Nat) (hf : 2 ≤ fr) (hf16 : fr ≤ 2 ^ 16) (hx : x < 2 ^ 31) :
    (x * (((2 ^ (shiftOf fr + 31) + (fr - 1)) / fr) &&& 0xFFFFFFFF)) >>> (32 + shiftOf fr - 1) = x / fr := by
  obtain ⟨h1, h2, h3⟩ := shiftOf_spec fr hf
  rw [and_mask32 _ (invFreq_lt fr hf hf16), Nat.shiftRight_eq_div_pow]
  have e : 32 + shiftOf fr - 1 = shiftOf fr + 31 := by omega
  rw [e]
  exact recip_core fr (shiftOf fr) x (by omega) h1 hx

/-- frequency 1: `(x · 0xFFFFFFFF) >> 32 = x − 1` for `0 < x ≤ 2^32` -/
theorem reciprocal_one (x : Nat) (h0 : 0 < x) (hx : x ≤ 2 ^ 32) : (x * 0xFFFFFFFF) >>> 32 = x - 1 := by
  rw [Nat.shiftRight_eq_div_pow]
  apply Nat.div_eq_of_lt_le
  · have : (x - 1) * 2 ^ 32 + 2 ^ 32 = x * 2 ^ 32 := by
      have : x = (x - 1) + 1 := by omega
      conv => rhs; rw [this]
      ring
    norm_num at *
    omega
  · have : (x - 1 + 1) = x := by omega
    rw [this]
    norm_num
    omega

/-- the clamped frequency used by both `reset` functions -/
def clampFreq (f lr : Nat) : Nat := min f (2 ^ lr - 1)

/-- the new encoder state in closed form -/
theorem encode_state (c f lr x1 : Nat) (hlr : 1 ≤ lr ∧ lr ≤ 16) (hf : 0 < f)
    (hx0 : 0 < x1) (hx : x1 < 2 ^ 31) :
    x1 + (encSymReset c f lr).bias
        + ((x1 * (encSymReset c f lr).invFreq) >>> (encSymReset c f lr).invShift) * (encSymReset c f lr).cmplFreq
      = (x1 / clampFreq f lr) * 2 ^ lr + x1 % clampFreq f lr + c := by
  have hp : 2 ≤ 2 ^ lr := by
    calc 2 = 2 ^ 1 := rfl
      _ ≤ 2 ^ lr := Nat.pow_le_pow_right (by norm_num) hlr.1
  have hp16 : 2 ^ lr ≤ 2 ^ 16 := Nat.pow_le_pow_right (by norm_num) hlr.2
  unfold encSymReset
  simp only
  have hfr : clampFreq f lr = min f (2 ^ lr - 1) := rfl
  rw [← hfr]
  have hfr1 : 1 ≤ clampFreq f lr := by rw [hfr]; omega
  have hfrle : clampFreq f lr ≤ 2 ^ lr - 1 := by rw [hfr]; omega
  generalize clampFreq f lr = fr at *
  by_cases h2 : fr < 2
  · rw [if_pos h2]
    simp only
    have hfr' : fr = 1 := by omega
    subst hfr'
    rw [reciprocal_one x1 hx0 (by omega), Nat.div_one, Nat.mod_one]
    have hx1 : x1 = (x1 - 1) + 1 := by omega
    generalize x1 - 1 = y at hx1
    subst hx1
    have hP : 2 ^ lr = (2 ^ lr - 1) + 1 := by omega
    generalize 2 ^ lr - 1 = P at hP
    rw [hP]
    have : c + (P + 1) - 1 = c + P := by omega
    rw [this]
    ring
  · rw [if_neg h2]
    simp only
    rw [reciprocal_exact fr x1 (by omega) (by omega) hx]
    have hq := Nat.div_add_mod x1 fr
    generalize x1 / fr = q at *
    generalize x1 % fr = r at *
    have hP : 2 ^ lr = (2 ^ lr - fr) + fr := by omega
    generalize 2 ^ lr - fr = P at hP
    rw [hP, ← hq]
    ring

/-- `C12_ans_reciprocal` on the fields set by `reset` -/
theorem reciprocal_sym (c f lr x : Nat) (hlr : lr ≤ 16) (hf : 2 ≤ clampFreq f lr) (hx : x < 2 ^ 31) :
    (x * (encSymReset c f lr).invFreq) >>> (encSymReset c f lr).invShift = x / clampFreq f lr ∧
    x * (encSymReset c f lr).invFreq < 2 ^ 63 := by
  have hp16 : 2 ^ lr ≤ 2 ^ 16 := Nat.pow_le_pow_right (by norm_num) hlr
  have hfr : clampFreq f lr = min f (2 ^ lr - 1) := rfl
  have h16 : clampFreq f lr ≤ 2 ^ 16 := by rw [hfr]; omega
  unfold encSymReset
  simp only
  rw [← hfr, if_neg (by omega)]
  simp only
  refine ⟨reciprocal_exact _ x hf h16 hx, ?_⟩
  rw [and_mask32 _ (invFreq_lt _ hf h16)]
  have := invFreq_lt _ hf h16
  have e : (2:Nat) ^ 63 = 2 ^ 31 * 2 ^ 32 := by norm_num
  rw [e]
  exact Nat.mul_lt_mul'' hx this

theorem xMax_eq (c f lr : Nat) (hlr : lr ≤ 15) :
    (encSymReset c f lr).xMax = 2 ^ (31 - lr) * clampFreq f lr := by
  have e : ((ansTop >>> lr) <<< 16) = 2 ^ (31 - lr) := by
    have : ansTop = 2 ^ 15 := rfl
    rw [this, Nat.shiftRight_eq_div_pow, Nat.shiftLeft_eq, Nat.pow_div hlr (by norm_num), ← Nat.pow_add]
    congr 1; omega
  unfold encSymReset clampFreq
  simp only
  split <;> simp only [e]

/-- `C12_ans_step`: one rANS encode step followed by one decode step. -/
theorem ans_step (lr c f x : Nat) (ws : List Nat) (hlr : 8 ≤ lr ∧ lr ≤ 15) (hf : 0 < f)
    (hc : c + f ≤ 2 ^ lr) (hx : 2 ^ 15 ≤ x ∧ x < 2 ^ 31) :
    2 ^ 15 ≤ (encodeStep x (encSymReset c f lr)).2 ∧ (encodeStep x (encSymReset c f lr)).2 < 2 ^ 31 ∧
    c ≤ (encodeStep x (encSymReset c f lr)).2 % 2 ^ lr ∧
    (encodeStep x (encSymReset c f lr)).2 % 2 ^ lr < c + f ∧
    (∀ w ∈ (encodeStep x (encSymReset c f lr)).1, w < 2 ^ 16) ∧
    (encodeStep x (encSymReset c f lr)).1.length ≤ 1 ∧
    decodeStep (encodeStep x (encSymReset c f lr)).2 (decSymReset c f lr) lr
        ((encodeStep x (encSymReset c f lr)).1 ++ ws) = (x, ws) := by
  have hp8 : 2 ^ 8 ≤ 2 ^ lr := Nat.pow_le_pow_right (by norm_num) hlr.1
  have hfr : clampFreq f lr = min f (2 ^ lr - 1) := rfl
  have hfr1 : 1 ≤ clampFreq f lr := by rw [hfr]; omega
  have hfrf : clampFreq f lr ≤ f := by rw [hfr]; omega
  have hsplit : (2:Nat) ^ 31 = 2 ^ (31 - lr) * 2 ^ lr := by rw [← Nat.pow_add]; congr 1; omega
  have hsplit15 : (2:Nat) ^ 15 = 2 ^ (15 - lr) * 2 ^ lr := by rw [← Nat.pow_add]; congr 1; omega
  have hsplit16 : (2:Nat) ^ (31 - lr) = 2 ^ (15 - lr) * 2 ^ 16 := by rw [← Nat.pow_add]; congr 1; omega
  have hA : 1 ≤ 2 ^ (15 - lr) := Nat.one_le_two_pow
  -- the pre-normalised state x1, with 2^(15-lr)·fr ≤ x1 < 2^(31-lr)·fr, and the emitted words
  have key : ∀ x1 : Nat, 2 ^ (15 - lr) * clampFreq f lr ≤ x1 → x1 < 2 ^ (31 - lr) * clampFreq f lr →
      x1 < 2 ^ 31 →
      let nw := (x1 / clampFreq f lr) * 2 ^ lr + x1 % clampFreq f lr + c
      2 ^ 15 ≤ nw ∧ nw < 2 ^ 31 ∧ nw % 2 ^ lr = x1 % clampFreq f lr + c ∧
        clampFreq f lr * (nw / 2 ^ lr) + nw % 2 ^ lr - c = x1 := by
    intro x1 hlo hhi _
    generalize clampFreq f lr = fr at *
    have hq := Nat.div_add_mod x1 fr
    have hr := Nat.mod_lt x1 (show 0 < fr by omega)
    generalize x1 / fr = q at *
    generalize x1 % fr = r at *
    have hrc : r + c < 2 ^ lr := by omega
    have hmod : (q * 2 ^ lr + r + c) % 2 ^ lr = r + c := by
      rw [Nat.add_assoc, Nat.mul_comm, Nat.mul_add_mod, Nat.mod_eq_of_lt hrc]
    have hdiv : (q * 2 ^ lr + r + c) / 2 ^ lr = q := by
      rw [Nat.add_assoc, Nat.mul_comm, Nat.mul_add_div (by omega), Nat.div_eq_of_lt hrc, Nat.add_zero]
    have hqhi : q < 2 ^ (31 - lr) := by
      by_contra hcon
      have : 2 ^ (31 - lr) * fr ≤ q * fr := Nat.mul_le_mul_right _ (by omega)
      nlinarith
    have hqlo : 2 ^ (15 - lr) ≤ q := by
      by_contra hcon
      have : (q + 1) * fr ≤ 2 ^ (15 - lr) * fr := Nat.mul_le_mul_right _ (by omega)
      nlinarith
    refine ⟨?_, ?_, hmod, ?_⟩
    · have : 2 ^ (15 - lr) * 2 ^ lr ≤ q * 2 ^ lr := Nat.mul_le_mul_right _ hqlo
      omega
    · have : (q + 1) * 2 ^ lr ≤ 2 ^ (31 - lr) * 2 ^ lr := Nat.mul_le_mul_right _ (by omega)
      nlinarith
    · rw [hmod, hdiv]
      have : fr * q = q * fr := Nat.mul_comm _ _
      omega
  have hmaskmod : ∀ y : Nat, y &&& (2 ^ lr - 1) = y % 2 ^ lr := fun y => Nat.and_two_pow_sub_one_eq_mod y lr
  have hxm := xMax_eq c f lr hlr.2
  unfold encodeStep
  by_cases hge : x ≥ (encSymReset c f lr).xMax
  · -- one word is emitted
    rw [if_pos hge]
    simp only
    have hw : x &&& 0xFFFF = x % 2 ^ 16 := by
      have := Nat.and_two_pow_sub_one_eq_mod x 16
      have e : (2:Nat) ^ 16 - 1 = 0xFFFF := by norm_num
      rw [e] at this; exact this
    have hsr : x >>> 16 = x / 2 ^ 16 := Nat.shiftRight_eq_div_pow x 16
    rw [hw, hsr]
    rw [hxm] at hge
    have hx1hi : x / 2 ^ 16 < 2 ^ 15 := by
      rw [Nat.div_lt_iff_lt_mul (by norm_num)]
      have : (2:Nat) ^ 15 * 2 ^ 16 = 2 ^ 31 := by norm_num
      omega
    have hx1lo : 2 ^ (15 - lr) * clampFreq f lr ≤ x / 2 ^ 16 := by
      rw [Nat.le_div_iff_mul_le (by norm_num)]
      have : 2 ^ (15 - lr) * clampFreq f lr * 2 ^ 16 = 2 ^ (31 - lr) * clampFreq f lr := by
        rw [hsplit16]; ring
      omega
    have hx1pos : 0 < x / 2 ^ 16 := by
      have : 1 * 1 ≤ 2 ^ (15 - lr) * clampFreq f lr := Nat.mul_le_mul hA hfr1
      omega
    have hx1hi2 : x / 2 ^ 16 < 2 ^ (31 - lr) * clampFreq f lr := by
      have h15 : (2:Nat) ^ 15 ≤ 2 ^ (31 - lr) := Nat.pow_le_pow_right (by norm_num) (by omega)
      have : 2 ^ (31 - lr) * 1 ≤ 2 ^ (31 - lr) * clampFreq f lr := Nat.mul_le_mul_left _ hfr1
      omega
    rw [encode_state c f lr (x / 2 ^ 16) ⟨by omega, by omega⟩ hf hx1pos (by omega)]
    obtain ⟨k1, k2, k3, k4⟩ := key (x / 2 ^ 16) hx1lo hx1hi2 (by omega)
    have hrr := Nat.mod_lt (x / 2 ^ 16) (show 0 < clampFreq f lr by omega)
    refine ⟨k1, k2, by rw [k3]; omega, by rw [k3]; omega, ?_, by simp, ?_⟩
    · intro w hwm
      simp only [List.mem_singleton] at hwm
      rw [hwm]; exact Nat.mod_lt _ (by norm_num)
    · unfold decodeStep decSymReset
      simp only
      rw [hmaskmod, Nat.shiftRight_eq_div_pow, ← hfr, k4]
      have : x / 2 ^ 16 < ansTop := hx1hi
      rw [if_pos this]
      simp only [List.cons_append, List.nil_append, List.headD_cons, List.tail_cons]
      congr 1
      rw [← Nat.shiftLeft_add_eq_or_of_lt (Nat.mod_lt _ (by norm_num)), Nat.shiftLeft_eq]
      have := Nat.div_add_mod x (2 ^ 16)
      rw [Nat.mul_comm]; exact this
  · -- nothing is emitted
    rw [if_neg hge]
    simp only
    rw [hxm] at hge
    have hxlo : 2 ^ (15 - lr) * clampFreq f lr ≤ x := by
      have hle : clampFreq f lr ≤ 2 ^ lr := by rw [hfr]; omega
      have : 2 ^ (15 - lr) * clampFreq f lr ≤ 2 ^ (15 - lr) * 2 ^ lr := Nat.mul_le_mul_left _ hle
      omega
    rw [encode_state c f lr x ⟨by omega, by omega⟩ hf (by omega) hx.2]
    obtain ⟨k1, k2, k3, k4⟩ := key x hxlo (by omega) hx.2
    have hrr := Nat.mod_lt x (show 0 < clampFreq f lr by omega)
    refine ⟨k1, k2, by rw [k3]; omega, by rw [k3]; omega, by simp, by simp, ?_⟩
    unfold decodeStep decSymReset
    simp only
    rw [hmaskmod, Nat.shiftRight_eq_div_pow, ← hfr, k4]
    have : ¬ x < ansTop := by
      have : ansTop = 2 ^ 15 := rfl
      omega
    rw [if_neg this]
    simp

end Kanzi.EntSmall
