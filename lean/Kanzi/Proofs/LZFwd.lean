/-
Proofs for the `lz` slice, part 3: every sequence the `Forward` model emits is valid and denotes the
source bytes it covers (`C13_lz_forward_valid`), hence `lzForward b n = .ok t → lzInverse t dst = .ok b`
(`C13_lz`).  Nothing is proved about the quality of the match finder: only that every match it reports was
verified byte by byte, points backwards inside the window and has a representable length.
-/
import Kanzi.Proofs.LZFormat

namespace Kanzi.LZ

/-! ## the hash table only holds earlier positions -/

/-- every entry is 0 (never a usable reference) or a position below `p` -/
def TblLt (tbl : Array Nat) (p : Nat) : Prop := ∀ i, tbl.getD i 0 = 0 ∨ tbl.getD i 0 < p

theorem TblLt_mono {tbl : Array Nat} {p q : Nat} (h : TblLt tbl p) (hpq : p ≤ q) : TblLt tbl q := by
  intro i; rcases h i with h | h
  · exact Or.inl h
  · exact Or.inr (by omega)

theorem TblLt_set {tbl : Array Nat} {p q h v : Nat} (ht : TblLt tbl p) (hpq : p ≤ q) (hv : v < q) :
    TblLt (tbl.setIfInBounds h v) q := by
  intro i
  rw [Array.getD_eq_getD_getElem?, Array.getElem?_setIfInBounds]
  split
  · split
    · right; simpa using hv
    · left; rfl
  · have := ht i
    rw [Array.getD_eq_getD_getElem?] at this
    rcases this with h | h
    · exact Or.inl h
    · exact Or.inr (by omega)

theorem TblLt_replicate (n p : Nat) : TblLt (Array.replicate n 0) p := by
  intro i
  left
  rw [Array.getD_eq_getD_getElem?, Array.getElem?_replicate]
  split <;> rfl

/-! ## findMatch -/

theorem cmpN_spec (src : Array Nat) : ∀ (k i r : Nat), cmpN src k i r ≤ k ∧
    ∀ j, j < cmpN src k i r → src.getD (i + j) 0 = src.getD (r + j) 0 := by
  intro k
  induction k with
  | zero => intro i r; simp [cmpN]
  | succ k ih =>
    intro i r
    unfold cmpN
    split
    · rename_i heq
      obtain ⟨h1, h2⟩ := ih (i + 1) (r + 1)
      refine ⟨by omega, ?_⟩
      intro j hj
      cases j with
      | zero => simpa using heq
      | succ j =>
        have := h2 j (by omega)
        simpa [Nat.add_assoc, Nat.add_comm 1 j] using this
    · simp

/-- bytes `[i, i+L)` and `[r, r+L)` of `src` agree -/
def SameBytes (src : Array Nat) (i r L : Nat) : Prop := ∀ k, k < L → src.getD (i + k) 0 = src.getD (r + k) 0

theorem findMatchGo_spec (src : Array Nat) (i r mx : Nat) : ∀ (f bl L : Nat),
    SameBytes src i r bl → bl ≤ mx → findMatchGo src i r mx f bl = .ok L → L ≤ mx ∧ SameBytes src i r L := by
  intro f
  induction f with
  | zero =>
    intro bl L hs hb h
    unfold findMatchGo at h
    split at h
    · simp at h
    · injection h with h; subst h; exact ⟨hb, hs⟩
  | succ f ih =>
    intro bl L hs hb h
    unfold findMatchGo at h
    split at h
    · rename_i h8
      split at h
      · obtain ⟨c1, c2⟩ := cmpN_spec src 8 (i + bl) (r + bl)
        have hs' : SameBytes src i r (bl + cmpN src 8 (i + bl) (r + bl)) := by
          intro k hk
          by_cases hkb : k < bl
          · exact hs k hkb
          · have := c2 (k - bl) (by omega)
            have e1 : i + bl + (k - bl) = i + k := by omega
            have e2 : r + bl + (k - bl) = r + k := by omega
            rwa [e1, e2] at this
        simp only [] at h
        split at h
        · rename_i hc
          rw [hc] at hs'
          exact ih (bl + 8) L hs' h8 h
        · injection h with h; subst h
          exact ⟨by omega, hs'⟩
      · simp at h
    · injection h with h; subst h; exact ⟨hb, hs⟩

theorem findMatch_spec {src : Array Nat} {i r mx L : Nat} (h : findMatch src i r mx = .ok L) :
    L ≤ mx ∧ SameBytes src i r L :=
  findMatchGo_spec src i r mx _ 0 L (by intro k hk; omega) (Nat.zero_le _) h

/-! ## match candidates -/

/-- what the loop needs from the constants of a call -/
structure CfgOK (c : Cfg) : Prop where
  size : c.srcEnd + 18 = c.src.size
  mm4 : 4 ≤ c.minMatch
  mm9 : c.minMatch ≤ 9

/-- a verified match: points backwards, inside the window, ends before `srcEnd`, bytes compared equal -/
structure Cand (c : Cfg) (m : Mt) : Prop where
  back : m.ref < m.srcIdx
  dist : m.srcIdx - m.ref ≤ c.maxDist
  fin : m.srcIdx + m.bestLen ≤ c.srcEnd
  same : SameBytes c.src m.srcIdx m.ref m.bestLen

theorem repCand_spec {c : Cfg} {p : UInt64} {srcIdx1 minRef r : Nat} {o : Option Nat}
    (h : repCand c p srcIdx1 minRef r = .ok o) : ∀ ref, o = some ref → ref = srcIdx1 - r ∧ r + minRef < srcIdx1 := by
  intro ref ho
  unfold repCand at h
  split at h
  · rename_i hlt
    split at h
    · simp at h
    · split at h
      · injection h with h; rw [← h] at ho; injection ho with ho; exact ⟨ho.symm, hlt⟩
      · injection h with h; rw [← h] at ho; simp at ho
  · injection h with h; rw [← h] at ho; simp at ho

/-- "Check repd first": a non-zero length comes with a verified match at `srcIdx + 1` -/
theorem repStage_spec {c : Cfg} {p : UInt64} {srcIdx ra rb : Nat} {rm : Nat × Nat} (hra : 1 ≤ ra) (hrb : 1 ≤ rb)
    (hlt : srcIdx < c.srcEnd)
    (h : repStage c p (srcIdx + 1) (srcIdx - c.maxDist) (min (c.srcEnd - (srcIdx + 1)) MAX_MATCH) ra rb = .ok rm) :
    rm.2 ≠ 0 → Cand c ⟨srcIdx + 1, rm.1, rm.2⟩ ∧ 1 ≤ rm.1 ∧ rm.2 ≤ MAX_MATCH ∧
      (srcIdx + 1 - rm.1 = ra ∨ srcIdx + 1 - rm.1 = rb) := by
  intro hnz
  unfold repStage at h
  obtain ⟨ca, hca, h⟩ := Out.bind_eq_ok h
  have key : ∀ (r ref : Nat), 1 ≤ r → ref = srcIdx + 1 - r → r + (srcIdx - c.maxDist) < srcIdx + 1 →
      (findMatch c.src (srcIdx + 1) ref (min (c.srcEnd - (srcIdx + 1)) MAX_MATCH)).bind (fun bl => Out.ok (ref, bl)) = .ok rm →
      Cand c ⟨srcIdx + 1, rm.1, rm.2⟩ ∧ 1 ≤ rm.1 ∧ rm.2 ≤ MAX_MATCH ∧ srcIdx + 1 - rm.1 = r := by
    intro r ref hr href hmin hf
    obtain ⟨bl, hbl, hf⟩ := Out.bind_eq_ok hf
    injection hf with hf; subst hf
    obtain ⟨f1, f2⟩ := findMatch_spec hbl
    simp only [] at f1 f2 ⊢
    exact ⟨⟨by simp only []; omega, by simp only []; omega, by simp only []; omega, f2⟩, by omega, by omega, by omega⟩
  cases ca with
  | some ref =>
    obtain ⟨e1, e2⟩ := repCand_spec hca ref rfl
    simp only [] at h
    obtain ⟨k1, k2, k3, k4⟩ := key ra ref hra e1 e2 h
    exact ⟨k1, k2, k3, Or.inl k4⟩
  | none =>
    simp only [] at h
    obtain ⟨cb, hcb, h⟩ := Out.bind_eq_ok h
    cases cb with
    | some ref =>
      obtain ⟨e1, e2⟩ := repCand_spec hcb ref rfl
      simp only [] at h
      obtain ⟨k1, k2, k3, k4⟩ := key rb ref hrb e1 e2 h
      exact ⟨k1, k2, k3, Or.inr k4⟩
    | none =>
      simp only [] at h
      injection h with h; subst h; simp at hnz

/-- the hash table candidate at `srcIdx` -/
theorem hashStage_spec {c : Cfg} {p : UInt64} {srcIdx ref0 bl : Nat} (hlt : srcIdx < c.srcEnd) (hback : ref0 = 0 ∨ ref0 < srcIdx)
    (h : hashStage c p srcIdx ref0 (srcIdx - c.maxDist) = .ok bl) :
    bl ≠ 0 → Cand c ⟨srcIdx, ref0, bl⟩ ∧ bl ≤ MAX_MATCH := by
  intro hnz
  unfold hashStage at h
  split at h
  · rename_i hgt
    split at h
    · simp at h
    · split at h
      · obtain ⟨f1, f2⟩ := findMatch_spec h
        exact ⟨⟨by simp only []; omega, by simp only []; omega, by simp only []; omega, f2⟩, by omega⟩
      · injection h with h; omega
  · injection h with h; omega

/-- one lazy candidate: the table stays below `pos + 1`; the result is the old match or a verified,
    at least as long match at `pos` -/
theorem lazyCand_spec {c : Cfg} {tbl tbl' : Array Nat} {s0 k : Nat} {cur m' : Mt}
    (ht : TblLt tbl (s0 + k)) (hc : Cand c cur) (hcl : 1 ≤ cur.bestLen)
    (h : lazyCand c tbl (s0 + k) k (s0 - c.maxDist) cur = .ok (tbl', m')) :
    TblLt tbl' (s0 + k + 1) ∧ Cand c m' ∧ cur.bestLen ≤ m'.bestLen ∧
      (m' = cur ∨ (m'.srcIdx = s0 + k ∧ m'.bestLen ≤ MAX_MATCH)) := by
  unfold lazyCand at h
  split at h
  · simp at h
  · rename_i v hv
    simp only [] at h
    have ht' : TblLt (tbl.setIfInBounds (hashOf c.extra v) (s0 + k)) (s0 + k + 1) :=
      TblLt_set ht (by omega) (by omega)
    have hr := ht (hashOf c.extra v)
    split at h
    · rename_i hgt
      split at h
      · split at h
        · obtain ⟨bl, hbl, h⟩ := Out.bind_eq_ok h
          obtain ⟨f1, f2⟩ := findMatch_spec hbl
          split at h
          · rename_i hge
            injection h with h; injection h with h1 h2; subst h1; subst h2
            refine ⟨ht', ⟨by simp only []; omega, by simp only []; omega, by simp only []; omega, f2⟩, hge,
              Or.inr ⟨rfl, by simp only []; omega⟩⟩
          · injection h with h; injection h with h1 h2; subst h1; subst h2
            exact ⟨ht', hc, Nat.le_refl _, Or.inl rfl⟩
        · injection h with h; injection h with h1 h2; subst h1; subst h2
          exact ⟨ht', hc, Nat.le_refl _, Or.inl rfl⟩
      · simp at h
    · injection h with h; injection h with h1 h2; subst h1; subst h2
      exact ⟨ht', hc, Nat.le_refl _, Or.inl rfl⟩

/-- "Extend backwards" keeps the match verified, its distance and its end -/
theorem backExtend_spec {c : Cfg} {anchor minRef : Nat} : ∀ (f : Nat) (m m' : Mt),
    Cand c m → anchor ≤ m.srcIdx → backExtend c anchor minRef f m = .ok m' →
    Cand c m' ∧ anchor ≤ m'.srcIdx ∧ m'.srcIdx + m'.bestLen = m.srcIdx + m.bestLen ∧ m.bestLen ≤ m'.bestLen := by
  intro f
  induction f with
  | zero =>
    intro m m' hc ha h
    unfold backExtend at h
    split at h
    · simp at h
    · injection h with h; subst h; exact ⟨hc, ha, rfl, Nat.le_refl _⟩
  | succ f ih =>
    intro m m' hc ha h
    unfold backExtend at h
    split at h
    · rename_i hg
      split at h
      · rename_i a b ea eb
        split at h
        · rename_i hab
          have hb := hc.back
          have hc' : Cand c ⟨m.srcIdx - 1, m.ref - 1, m.bestLen + 1⟩ := by
            refine ⟨by simp only []; omega, by simp only []; have := hc.dist; omega, by simp only []; have := hc.fin; omega, ?_⟩
            intro k hk
            simp only [] at hk ⊢
            cases k with
            | zero =>
              rw [Nat.add_zero, Nat.add_zero, Array.getD_eq_getD_getElem?, Array.getD_eq_getD_getElem?, ea, eb, hab]
            | succ k =>
              have := hc.same k (by omega)
              have e1 : m.srcIdx - 1 + (k + 1) = m.srcIdx + k := by omega
              have e2 : m.ref - 1 + (k + 1) = m.ref + k := by omega
              rw [e1, e2]; exact this
          obtain ⟨i1, i2, i3, i4⟩ := ih _ m' hc' (by simp only []; omega) h
          simp only [] at i3 i4
          exact ⟨i1, i2, by omega, by omega⟩
        · injection h with h; subst h; exact ⟨hc, ha, rfl, Nat.le_refl _⟩
      · simp at h
    · injection h with h; subst h; exact ⟨hc, ha, rfl, Nat.le_refl _⟩

theorem clampMatch_spec {c : Cfg} {m : Mt} (hc : Cand c m) :
    Cand c (clampMatch m) ∧ (clampMatch m).bestLen ≤ MAX_MATCH ∧ m.srcIdx ≤ (clampMatch m).srcIdx ∧
      (clampMatch m).srcIdx + (clampMatch m).bestLen = m.srcIdx + m.bestLen ∧
      (m.bestLen ≤ (clampMatch m).bestLen ∨ (clampMatch m).bestLen = MAX_MATCH) := by
  unfold clampMatch
  split
  · rename_i hgt
    refine ⟨⟨by simp only []; have := hc.back; omega, by simp only []; have := hc.dist; have := hc.back; omega,
      by simp only []; have := hc.fin; omega, ?_⟩, by simp, by simp, by simp only []; omega, Or.inr rfl⟩
    intro k hk
    simp only [] at hk ⊢
    have := hc.same (m.bestLen - MAX_MATCH + k) (by omega)
    simpa [Nat.add_assoc] using this
  · exact ⟨hc, by omega, Nat.le_refl _, rfl, Or.inl (Nat.le_refl _)⟩

/-! ## appending one sequence -/

/-- the repeat distances after a token stream -/
def repdAfter : Nat → Nat → List Seq → Nat × Nat
  | r0, r1, [] => (r0, r1)
  | r0, _, q :: qs => repdAfter q.dist r0 qs

theorem repdAfter_append : ∀ (qs : List Seq) (r0 r1 : Nat) (q : Seq),
    repdAfter r0 r1 (qs ++ [q]) = (q.dist, (repdAfter r0 r1 qs).1) := by
  intro qs
  induction qs with
  | nil => intro r0 r1 q; rfl
  | cons q0 qs ih => intro r0 r1 q; simp only [List.cons_append, repdAfter]; exact ih _ _ _

theorem serSeqs_append (mm : Nat) : ∀ (qs : List Seq) (r0 r1 : Nat) (q : Seq),
    serSeqs mm r0 r1 (qs ++ [q]) =
      ⟨(serSeqs mm r0 r1 qs).lit ++ litBytes q.lits,
       (serSeqs mm r0 r1 qs).tk ++ [seqTok mm (repdAfter r0 r1 qs).1 (repdAfter r0 r1 qs).2 q],
       (serSeqs mm r0 r1 qs).m ++ seqM (repdAfter r0 r1 qs).1 (repdAfter r0 r1 qs).2 q,
       (serSeqs mm r0 r1 qs).ml ++ seqMl mm (repdAfter r0 r1 qs).1 (repdAfter r0 r1 qs).2 q⟩ := by
  intro qs
  induction qs with
  | nil => intro r0 r1 q; simp [serSeqs, repdAfter]
  | cons q0 qs ih =>
    intro r0 r1 q
    simp only [List.cons_append, serSeqs, repdAfter, ih, List.append_assoc]

theorem denote_append : ∀ (qs : List Seq) (out : List Nat) (q : Seq),
    denote out (qs ++ [q]) = copyMatch (denote out qs ++ q.lits) q.dist q.len := by
  intro qs
  induction qs with
  | nil => intro out q; rfl
  | cons q0 qs ih => intro out q; simp only [List.cons_append, denote]; exact ih _ _

theorem ValidSeqs_append {mm md N : Nat} : ∀ (qs : List Seq) (out : List Nat) (q : Seq),
    ValidSeqs mm md N out.length qs → ValidSeqs mm md N (denote out qs).length [q] →
    ValidSeqs mm md N out.length (qs ++ [q]) := by
  intro qs
  induction qs with
  | nil => intro out q _ h; exact h
  | cons q0 qs ih =>
    intro out q h1 h2
    simp only [List.cons_append, ValidSeqs] at h1 ⊢
    obtain ⟨a1, a2, a3, a4, a5, a6, a7, a8⟩ := h1
    refine ⟨a1, a2, a3, a4, a5, a6, a7, ?_⟩
    have := ih (copyMatch (out ++ q0.lits) q0.dist q0.len) q
      (by simpa [copyMatch_length] using a8) (by simpa [denote] using h2)
    simpa [copyMatch_length] using this

/-- a verified match denotes the source bytes it covers -/
theorem copyMatch_src (l : List Nat) (dist : Nat) (hd : 1 ≤ dist) : ∀ (len pos : Nat), dist ≤ pos → pos + len ≤ l.length →
    (∀ k, k < len → l[pos + k]? = l[pos - dist + k]?) → copyMatch (l.take pos) dist len = l.take (pos + len) := by
  intro len
  induction len with
  | zero => intro pos _ _ _; rfl
  | succ len ih =>
    intro pos hdp hlen hsame
    simp only [copyMatch]
    have hl : (l.take pos).length = pos := by rw [List.length_take]; omega
    have h0 := hsame 0 (by omega)
    rw [Nat.add_zero, Nat.add_zero] at h0
    have hx : (l.take pos).getD ((l.take pos).length - dist) 0 = l[pos]'(by omega) := by
      rw [hl, List.getD_eq_getElem?_getD, List.getElem?_take, if_pos (by omega), ← h0,
        List.getElem?_eq_getElem (by omega)]; rfl
    rw [hx]
    have ht : l.take pos ++ [l[pos]'(by omega)] = l.take (pos + 1) := by
      rw [List.take_add_one, List.getElem?_eq_getElem (by omega)]; rfl
    rw [ht]
    have := ih (pos + 1) (by omega) (by omega) (by
      intro k hk
      have := hsame (k + 1) (by omega)
      have e1 : pos + 1 + k = pos + (k + 1) := by omega
      have e2 : pos + 1 - dist + k = pos - dist + (k + 1) := by omega
      rw [e1, e2]; exact this)
    rw [this]; congr 1; omega

theorem size_appendList (a : Array Nat) (l : List Nat) : (a ++ l).size = a.size + l.length := by
  rw [← Array.length_toList]; simp

theorem pushCap_ok {cap : Nat} {buf r : Array Nat} {bs : List Nat} {w : String} (h : pushCap cap buf bs w = .ok r) :
    r = buf ++ bs := by
  unfold pushCap at h
  split at h
  · injection h with h; exact h.symm
  · simp at h

/-- what "Emit match" appends to the four sections -/
theorem emitSeq_spec {c : Cfg} {b b' : Bufs} {r0 r1 anchor srcIdx dist bestLen : Nat}
    (ha : anchor ≤ srcIdx) (hs : srcIdx ≤ c.src.size)
    (h : emitSeq c b r0 r1 anchor srcIdx dist bestLen = .ok b') :
    b'.lit.toList = b.lit.toList ++ litBytes (c.src.extract anchor srcIdx).toList ∧
    b'.tk.toList = b.tk.toList ++ [seqTok c.minMatch r0 r1 ⟨(c.src.extract anchor srcIdx).toList, dist, bestLen⟩] ∧
    b'.m.toList = b.m.toList ++ seqM r0 r1 ⟨(c.src.extract anchor srcIdx).toList, dist, bestLen⟩ ∧
    b'.ml.toList = b.ml.toList ++ seqMl c.minMatch r0 r1 ⟨(c.src.extract anchor srcIdx).toList, dist, bestLen⟩ ∧
    srcIdx - anchor < LIT_LIMIT ∧
    b'.mCap = (if b'.m.size + 8 ≥ b.mCap then b.mCap + b.mCap / 2 else b.mCap) ∧ b.mlCap ≤ b'.mlCap := by
  have hlen : (c.src.extract anchor srcIdx).toList.length = srcIdx - anchor := by
    simp only [Array.length_toList, Array.size_extract]; omega
  unfold emitSeq at h
  simp only [] at h
  obtain ⟨m, hm, h⟩ := Out.bind_eq_ok h
  obtain ⟨ml, hml, h⟩ := Out.bind_eq_ok h
  split at h
  · simp at h
  · rename_i hlim
    obtain ⟨tk, htk, h⟩ := Out.bind_eq_ok h
    obtain ⟨lit1, hlit1, h⟩ := Out.bind_eq_ok h
    obtain ⟨lit2, hlit2, h⟩ := Out.bind_eq_ok h
    injection h with h; subst h
    simp only []
    have em := pushCap_ok hm
    have etk := pushCap_ok htk
    have e7 : anchor + (srcIdx - anchor) = srcIdx := by omega
    refine ⟨?_, ?_, ?_, ?_, ?_, ?_, ?_⟩
    · -- literals
      unfold litBytes
      rw [hlen]
      by_cases h7 : srcIdx - anchor ≥ 7
      · simp only [h7, if_true] at hlit1 ⊢
        split at hlit1
        · injection hlit1 with hlit1; subst hlit1
          have h0 : ¬ srcIdx - anchor = 0 := by omega
          simp only [h0, if_false] at hlit2
          split at hlit2
          · simp at hlit2
          · split at hlit2
            · simp at hlit2
            · injection hlit2 with hlit2; subst hlit2
              rw [e7]; simp [List.append_assoc]
        · simp at hlit1
      · simp only [h7, if_false] at hlit1 ⊢
        injection hlit1 with hlit1; subst hlit1
        split at hlit2
        · rename_i h0
          injection hlit2 with hlit2; subst hlit2
          have : (c.src.extract anchor srcIdx).toList = [] := by
            apply List.eq_nil_of_length_eq_zero; rw [hlen]; exact h0
          rw [this]; simp
        · split at hlit2
          · simp at hlit2
          · split at hlit2
            · simp at hlit2
            · injection hlit2 with hlit2; subst hlit2
              rw [e7]; simp
    · rw [etk]
      unfold seqTok matchTok
      simp only [hlen]
      simp
    · rw [em]; simp [seqM]
    · unfold seqMl
      simp only []
      split at hml
      · rename_i hge
        rw [if_pos hge, pushCap_ok hml]; simp
      · rename_i hge
        injection hml with hml; subst hml
        rw [if_neg hge]; simp
    · simp only [LIT_LIMIT] at hlim ⊢; omega
    · simp
    · split <;> omega

/-! ## the hash fill loops -/

theorem fill4_spec {c : Cfg} {anchor : Nat} : ∀ (f i : Nat) (tbl : Array Nat) (r : Nat × Array Nat),
    TblLt tbl anchor → i < anchor → fill4 c anchor f i tbl = .ok r → TblLt r.2 anchor ∧ r.1 < anchor := by
  intro f
  induction f with
  | zero =>
    intro i tbl r ht hi h
    unfold fill4 at h
    split at h
    · simp at h
    · injection h with h; subst h; exact ⟨ht, hi⟩
  | succ f ih =>
    intro i tbl r ht hi h
    unfold fill4 at h
    split at h
    · rename_i hlt
      split at h
      · simp at h
      · simp only [] at h
        refine ih (i + 4) _ r ?_ hlt h
        exact TblLt_set (TblLt_set (TblLt_set (TblLt_set ht (Nat.le_refl _) (by omega)) (Nat.le_refl _) (by omega))
          (Nat.le_refl _) (by omega)) (Nat.le_refl _) hlt
    · injection h with h; subst h; exact ⟨ht, hi⟩

theorem fill1_spec {c : Cfg} {anchor : Nat} : ∀ (f i : Nat) (tbl : Array Nat) (r : Nat × Array Nat),
    TblLt tbl anchor → i ≤ anchor → fill1 c anchor f i tbl = .ok r → TblLt r.2 anchor ∧ r.1 = anchor := by
  intro f
  induction f with
  | zero =>
    intro i tbl r ht hi h
    unfold fill1 at h
    split at h
    · simp at h
    · injection h with h; subst h; exact ⟨ht, by simp only []; omega⟩
  | succ f ih =>
    intro i tbl r ht hi h
    unfold fill1 at h
    split at h
    · rename_i hlt
      split at h
      · simp at h
      · exact ih (i + 1) _ r (TblLt_set ht (Nat.le_refl _) hlt) hlt h
    · injection h with h; subst h; exact ⟨ht, by simp only []; omega⟩

/-! ## the loop invariant -/

/-- the part of the loop invariant that does not mention the hash table: the four sections hold the
    serialisation of a valid token stream `qs` that denotes `src[0:anchor]` -/
structure SInv (c : Cfg) (s : FSt) (b : Bufs) (qs : List Seq) : Prop where
  anc : s.anchor ≤ s.srcIdx
  ancEnd : s.anchor ≤ c.srcEnd
  r0 : 1 ≤ s.repd0
  r1 : 1 ≤ s.repd1
  lit : b.lit.toList = (serSeqs c.minMatch c.src.size c.src.size qs).lit
  tk : b.tk.toList = (serSeqs c.minMatch c.src.size c.src.size qs).tk
  m : b.m.toList = (serSeqs c.minMatch c.src.size c.src.size qs).m
  ml : b.ml.toList = (serSeqs c.minMatch c.src.size c.src.size qs).ml
  rep : repdAfter c.src.size c.src.size qs = (s.repd0, s.repd1)
  valid : ValidSeqs c.minMatch c.maxDist c.src.size 0 qs
  den : denote [] qs = c.src.toList.take s.anchor

theorem toList_getElem?_of_lt {a : Array Nat} {i : Nat} (h : i < a.size) : a.toList[i]? = some (a.getD i 0) := by
  rw [Array.getElem?_toList, Array.getD_eq_getD_getElem?, Array.getElem?_eq_getElem h]; rfl

theorem take_append_extract (a : Array Nat) {i j : Nat} (hij : i ≤ j) :
    a.toList.take i ++ (a.extract i j).toList = a.toList.take j := by
  rw [Array.toList_extract, List.extract_eq_take_drop]
  have : j = i + (j - i) := by omega
  rw [this, List.take_add]
  congr 2
  omega

/-- from "Emit match" to the end of the loop body: one more sequence, the invariant holds at the new anchor -/
theorem emitMatch_spec {c : Cfg} (hc : CfgOK c) {tbl tbl' : Array Nat} {s s' : FSt} {b b' : Bufs} {qs : List Seq} {mt : Mt}
    (hi : SInv c s b qs) (hm : Cand c mt) (ha : s.anchor ≤ mt.srcIdx) (hmin : c.minMatch ≤ mt.bestLen)
    (hmax : mt.bestLen ≤ MAX_MATCH) (ht : TblLt tbl (mt.srcIdx + mt.bestLen))
    (h : emitMatch c tbl s b mt = .ok (tbl', s', b')) :
    ∃ q, SInv c s' b' (qs ++ [q]) ∧ TblLt tbl' s'.srcIdx := by
  unfold emitMatch at h
  simp only [] at h
  obtain ⟨b1, hb1, h⟩ := Out.bind_eq_ok h
  obtain ⟨r4, hr4, h⟩ := Out.bind_eq_ok h
  obtain ⟨r1, hr1, h⟩ := Out.bind_eq_ok h
  injection h with h; injection h with h1 h2; injection h2 with h2 h3
  subst h1; subst h2; subst h3
  have hsz := hc.size
  have hfin := hm.fin
  have hback := hm.back
  have hmm4 := hc.mm4
  obtain ⟨f4a, f4b⟩ := fill4_spec _ _ _ _ ht (by omega) hr4
  obtain ⟨f1a, f1b⟩ := fill1_spec _ _ _ _ f4a (by omega) hr1
  obtain ⟨e1, e2, e3, e4, e5, _, _⟩ := emitSeq_spec ha (by omega) hb1
  have hrep := hi.rep
  have hr0 : (repdAfter c.src.size c.src.size qs).1 = s.repd0 := by rw [hrep]
  have hr1' : (repdAfter c.src.size c.src.size qs).2 = s.repd1 := by rw [hrep]
  have hlen : (c.src.extract s.anchor mt.srcIdx).toList.length = mt.srcIdx - s.anchor := by
    simp only [Array.length_toList, Array.size_extract]; omega
  have hden : (denote [] qs).length = s.anchor := by
    rw [hi.den, List.length_take, Array.length_toList]; have := hi.ancEnd; omega
  refine ⟨⟨(c.src.extract s.anchor mt.srcIdx).toList, mt.srcIdx - mt.ref, mt.bestLen⟩, ⟨?_, ?_, ?_, ?_, ?_, ?_, ?_, ?_, ?_, ?_, ?_⟩, ?_⟩
  · simp only [f1b]; exact Nat.le_refl _
  · simp only []; exact hfin
  · simp only []; omega
  · simp only []; exact hi.r0
  · rw [serSeqs_append, e1, hi.lit]
  · rw [serSeqs_append, e2, hi.tk, hr0, hr1']
  · rw [serSeqs_append, e3, hi.m, hr0, hr1']
  · rw [serSeqs_append, e4, hi.ml, hr0, hr1']
  · rw [repdAfter_append, hr0]
  · have := ValidSeqs_append (mm := c.minMatch) (md := c.maxDist) (N := c.src.size) qs []
      ⟨(c.src.extract s.anchor mt.srcIdx).toList, mt.srcIdx - mt.ref, mt.bestLen⟩ hi.valid
    apply this
    rw [hden]
    simp only [ValidSeqs, hlen, and_true]
    exact ⟨e5, by omega, by omega, hm.dist, by omega, hmin, hmax⟩
  · rw [denote_append, hi.den]
    simp only []
    rw [take_append_extract c.src ha]
    apply copyMatch_src c.src.toList (mt.srcIdx - mt.ref) (by omega) mt.bestLen mt.srcIdx (by omega)
      (by rw [Array.length_toList]; omega)
    intro k hk
    have e : mt.srcIdx - (mt.srcIdx - mt.ref) + k = mt.ref + k := by omega
    rw [e, toList_getElem?_of_lt (by omega), toList_getElem?_of_lt (by omega), hm.same k hk]
  · simp only [f1b]; exact f1a

/-- the lazy matching block ("checkNext"): still a verified match, not shorter, not earlier, and the table
    only learnt positions below `srcIdx + 3` -/
theorem lazyBlock_spec {c : Cfg} {tbl1 : Array Nat} {s0 r0 r1 ref0 bl0 : Nat} {lz : Array Nat × Mt}
    (ht : TblLt tbl1 (s0 + 1)) (hcur : Cand c ⟨s0, ref0, bl0⟩) (hbl : 1 ≤ bl0)
    (h : (if ref0 + r0 ≠ s0 ∧ ref0 + r1 ≠ s0 then
            (lazyCand c tbl1 (s0 + 1) 1 (s0 - c.maxDist) ⟨s0, ref0, bl0⟩).bind fun l1 =>
              if c.extra then lazyCand c l1.1 (s0 + 1 + 1) 2 (s0 - c.maxDist) l1.2 else Out.ok l1
          else Out.ok (tbl1, ⟨s0, ref0, bl0⟩)) = .ok lz) :
    Cand c lz.2 ∧ bl0 ≤ lz.2.bestLen ∧ s0 ≤ lz.2.srcIdx ∧ TblLt lz.1 (s0 + 3) := by
  split at h
  · obtain ⟨l1, hl1, h⟩ := Out.bind_eq_ok h
    obtain ⟨a1, a2, a3, a4⟩ := lazyCand_spec (tbl' := l1.1) (m' := l1.2) ht hcur hbl hl1
    simp only [] at a3
    have hs1 : s0 ≤ l1.2.srcIdx := by
      rcases a4 with a4 | a4
      · rw [a4]; exact Nat.le_refl _
      · omega
    split at h
    · have e : s0 + 1 + 1 = s0 + 2 := rfl
      rw [e] at h a1
      obtain ⟨b1, b2, b3, b4⟩ := lazyCand_spec (tbl' := lz.1) (m' := lz.2) a1 a2 (by omega) h
      refine ⟨b2, by omega, ?_, b1⟩
      rcases b4 with b4 | b4
      · rw [b4]; exact hs1
      · omega
    · injection h with h; subst h
      exact ⟨a2, a3, hs1, TblLt_mono a1 (by omega)⟩
  · injection h with h; subst h
    exact ⟨hcur, Nat.le_refl _, Nat.le_refl _, TblLt_mono ht (by omega)⟩

/-- one iteration of the main loop keeps the invariant -/
theorem fwdStep_spec {c : Cfg} (hc : CfgOK c) {tbl tbl' : Array Nat} {s s' : FSt} {b b' : Bufs} {qs : List Seq}
    (hi : SInv c s b qs) (ht : TblLt tbl s.srcIdx) (hlt : s.srcIdx < c.srcEnd)
    (h : fwdStep c tbl s b = .ok (tbl', s', b')) :
    ∃ qs', SInv c s' b' qs' ∧ TblLt tbl' s'.srcIdx := by
  have hmm4 := hc.mm4
  have hmm9 := hc.mm9
  unfold fwdStep at h
  split at h
  · simp at h
  · rename_i p hp
    simp only [] at h
    have ht1 : TblLt (tbl.setIfInBounds (hashOf c.extra p) s.srcIdx) (s.srcIdx + 1) :=
      TblLt_set ht (by omega) (by omega)
    have hra : 1 ≤ (if s.repdIdx = 0 then s.repd0 else s.repd1) := by
      split
      · exact hi.r0
      · exact hi.r1
    have hrb : 1 ≤ (if s.repdIdx = 0 then s.repd1 else s.repd0) := by
      split
      · exact hi.r1
      · exact hi.r0
    obtain ⟨rm, hrm, h⟩ := Out.bind_eq_ok h
    have hrep := repStage_spec hra hrb hlt hrm
    split at h
    · -- no usable repeat match: hash table candidate
      obtain ⟨bl0, hbl0, h⟩ := Out.bind_eq_ok h
      have hr0 := ht (hashOf c.extra p)
      have hhs := hashStage_spec hlt hr0 hbl0
      split at h
      · rename_i hge
        obtain ⟨hcand, hmax0⟩ := hhs (by omega)
        obtain ⟨lz, hlz, h⟩ := Out.bind_eq_ok h
        obtain ⟨l1, l2, l3, l4⟩ := lazyBlock_spec ht1 hcand (by omega) hlz
        obtain ⟨mb, hmb, h⟩ := Out.bind_eq_ok h
        obtain ⟨e1, e2, e3, e4⟩ := backExtend_spec _ _ _ l1 (by have := hi.anc; omega) hmb
        obtain ⟨k1, k2, k3, k4, k5⟩ := clampMatch_spec e1
        obtain ⟨q, hq⟩ := emitMatch_spec hc hi k1 (by omega)
          (by rcases k5 with k5 | k5
              · omega
              · rw [k5]; simp only [MAX_MATCH]; omega)
          k2 (by rw [k4, e3]; exact TblLt_mono l4 (by omega)) h
        exact ⟨_, hq⟩
      · -- no match at all: skip ahead
        injection h with h; injection h with h1 h2; injection h2 with h2 h3
        subst h1; subst h2; subst h3
        refine ⟨qs, ⟨by simp only []; have := hi.anc; omega, hi.ancEnd, hi.r0, hi.r1, hi.lit, hi.tk, hi.m, hi.ml,
          hi.rep, hi.valid, hi.den⟩, ?_⟩
        simp only []
        exact TblLt_mono ht1 (by omega)
    · -- a repeat match at srcIdx + 1
      rename_i hge
      obtain ⟨hcand, hr1, hmaxr, _⟩ := hrep (by omega)
      split at h
      · rename_i a x ea ex
        have hne : ¬ rm.1 = 0 := by omega
        simp only [hne, if_false] at ex
        split at h
        · rename_i hax
          have hc2 : Cand c ⟨s.srcIdx, rm.1 - 1, rm.2 + 1⟩ := by
            have hb := hcand.back
            have hd := hcand.dist
            have hf := hcand.fin
            simp only [] at hb hd hf
            refine ⟨by simp only []; omega, by simp only []; omega, by simp only []; omega, ?_⟩
            intro k hk
            simp only [] at hk ⊢
            cases k with
            | zero =>
              rw [Nat.add_zero, Nat.add_zero, Array.getD_eq_getD_getElem?, Array.getD_eq_getD_getElem?, ea, ex, hax.1]
            | succ k =>
              have := hcand.same k (by simp only []; omega)
              simp only [] at this
              have e1 : s.srcIdx + (k + 1) = s.srcIdx + 1 + k := by omega
              have e2 : rm.1 - 1 + (k + 1) = rm.1 + k := by omega
              rw [e1, e2]; exact this
          obtain ⟨q, hq⟩ := emitMatch_spec hc hi hc2 (by simp only []; exact hi.anc) (by simp only []; omega)
            (by simp only []; omega) (by simp only []; exact TblLt_mono ht1 (by omega)) h
          exact ⟨_, hq⟩
        · split at h
          · simp at h
          · rename_i v hv
            obtain ⟨q, hq⟩ := emitMatch_spec hc hi hcand (by simp only []; have := hi.anc; omega) (by simp only []; omega)
              (by simp only []; omega)
              (by simp only []; exact TblLt_set ht1 (by omega) (by omega)) h
            exact ⟨_, hq⟩
      · simp at h

/-- the main loop keeps the invariant -/
theorem fwdLoop_spec {c : Cfg} (hc : CfgOK c) : ∀ (f : Nat) (tbl : Array Nat) (s : FSt) (b : Bufs) (qs : List Seq)
    (r : FSt × Bufs), SInv c s b qs → TblLt tbl s.srcIdx → fwdLoop c f tbl s b = .ok r →
    ∃ qs', SInv c r.1 r.2 qs' := by
  intro f
  induction f with
  | zero =>
    intro tbl s b qs r hi ht h
    unfold fwdLoop at h
    split at h
    · simp at h
    · injection h with h; subst h; exact ⟨qs, hi⟩
  | succ f ih =>
    intro tbl s b qs r hi ht h
    unfold fwdLoop at h
    split at h
    · rename_i hlt
      obtain ⟨x, hx, h⟩ := Out.bind_eq_ok h
      obtain ⟨qs', h1, h2⟩ := fwdStep_spec (tbl' := x.1) (s' := x.2.1) (b' := x.2.2) hc hi ht hlt hx
      exact ih _ _ _ qs' r h1 h2 h
    · injection h with h; subst h; exact ⟨qs, hi⟩

/-- the end of Forward: the output is the serialisation of the token stream plus the final literals -/
theorem fwdFinish_spec {c : Cfg} (hc : CfgOK c) {s : FSt} {b : Bufs} {qs : List Seq} {mm far : Nat} {t : Array Nat}
    (hmm : c.minMatch = mm) (hi : SInv c s b qs) (h : fwdFinish c (flagByte mm far) s.anchor b = .ok t) :
    t = (stream mm far c.src.size qs (c.src.extract s.anchor c.src.size).toList).toArray ∧
      18 ≤ (c.src.extract s.anchor c.src.size).toList.length ∧
      (c.src.extract s.anchor c.src.size).toList.length < LIT_LIMIT ∧
      t.size ≤ c.src.size - c.src.size / 100 := by
  have hsz := hc.size
  have hae := hi.ancEnd
  have hlen : (c.src.extract s.anchor c.src.size).toList.length = c.src.size - s.anchor := by
    simp only [Array.length_toList, Array.size_extract]; omega
  unfold fwdFinish at h
  simp only [] at h
  split at h
  · simp at h
  · split at h
    · simp at h
    · rename_i hlim
      obtain ⟨tk, htk, h⟩ := Out.bind_eq_ok h
      obtain ⟨lit1, hlit1, h⟩ := Out.bind_eq_ok h
      obtain ⟨lit2, hlit2, h⟩ := Out.bind_eq_ok h
      split at h
      · simp at h
      · split at h
        · simp at h
        · rename_i hfit
          split at h
          · simp at h
          · injection h with h
            have h7 : c.src.size - s.anchor ≥ 7 := by omega
            simp only [h7, if_true] at hlit1
            split at hlit1
            · injection hlit1 with hlit1; subst hlit1
              split at hlit2
              · simp at hlit2
              · split at hlit2
                · simp at hlit2
                · injection hlit2 with hlit2; subst hlit2
                  have etk := pushCap_ok htk
                  have e7 : s.anchor + (c.src.size - s.anchor) = c.src.size := by omega
                  have hlitb : litBytes (c.src.extract s.anchor c.src.size).toList =
                      emitLength (c.src.size - s.anchor - 7) ++ (c.src.extract s.anchor c.src.size).toList := by
                    unfold litBytes; rw [hlen]; simp only [h7, if_true]
                  have hft : finTok (c.src.extract s.anchor c.src.size).toList = (min (c.src.size - s.anchor) 7 * 32) % 256 := by
                    unfold finTok; rw [hlen]
                  refine ⟨?_, by omega, by simp only [LIT_LIMIT] at hlim ⊢; omega, by rw [← h]; omega⟩
                  rw [← h]
                  apply Array.ext'
                  unfold stream
                  rw [← hmm, ← hi.lit, ← hi.tk, ← hi.m, ← hi.ml, hlitb, hft, etk, e7]
                  have esz : (b.lit ++ emitLength (c.src.size - s.anchor - 7)).size =
                      b.lit.size + (emitLength (c.src.size - s.anchor - 7)).length := by
                    rw [← Array.length_toList]; simp
                  simp [List.append_assoc, esz, Nat.add_assoc]
            · simp at hlit1

/-- C13_lz_forward_valid: a successful Forward returns the serialisation of a VALID token stream that,
    together with the final literals, denotes the source block; and the output is shorter than the block -/
theorem lzForward_stream {extra : Bool} {dt : Nat} {src t : Array Nat} {dstLen : Nat}
    (hne : src.size ≠ 0) (hd : dstLen ≠ 0) (h : lzForward extra dt src dstLen = .ok t) :
    ∃ (mm far : Nat) (qs : List Seq) (fl : List Nat),
      t = (stream mm far src.size qs fl).toArray ∧ 2 ≤ mm ∧ mm ≤ 9 ∧ far ≤ 1 ∧
      ValidSeqs mm (if far = 0 then MAX_DISTANCE1 else MAX_DISTANCE2) src.size 0 qs ∧
      16 ≤ fl.length ∧ fl.length < LIT_LIMIT ∧ denote [] qs ++ fl = src.toList ∧
      t.size ≤ src.size - src.size / 100 ∧ MIN_BLOCK_LENGTH ≤ src.size := by
  unfold lzForward at h
  simp only [] at h
  have c1 : ¬ (src.size = 0 ∨ dstLen = 0) := by omega
  simp only [c1, if_false] at h
  split at h
  · simp at h
  · split at h
    · simp at h
    · rename_i hsmall
      split at h
      · simp at h
      · obtain ⟨r, hr, h⟩ := Out.bind_eq_ok h
        simp only [MIN_BLOCK_LENGTH] at hsmall
        generalize hfar : decide (¬ src.size - 16 - 2 < 4 * MAX_DISTANCE1) = far at hr h
        generalize hmm : (if dt = DT_DNA then MIN_MATCH6 else MIN_MATCH4) = mm at hr h
        have hmm' : mm = 4 ∨ mm = 6 := by
          rw [← hmm]; split
          · right; rfl
          · left; rfl
        generalize hcfg : (⟨src, extra, mm, if far = true then MAX_DISTANCE2 else MAX_DISTANCE1, src.size - 16 - 2,
          dstLen, max (src.size / 5) 256⟩ : Cfg) = c at hr h
        have hcs : c.src = src := by rw [← hcfg]
        have hcm : c.minMatch = mm := by rw [← hcfg]
        have hcd : c.maxDist = if far = true then MAX_DISTANCE2 else MAX_DISTANCE1 := by rw [← hcfg]
        have hce : c.srcEnd = src.size - 16 - 2 := by rw [← hcfg]
        have hc : CfgOK c := ⟨by rw [hce, hcs]; omega, by rw [hcm]; omega, by rw [hcm]; omega⟩
        have hi0 : SInv c ⟨0, 0, src.size, src.size, 0, 0⟩ ⟨#[], #[], #[], #[], max (src.size / 5) 256, max (src.size / 5) 256⟩ [] :=
          ⟨Nat.le_refl _, Nat.zero_le _, by simp only []; omega, by simp only []; omega, rfl, rfl, rfl, rfl,
            by rw [hcs]; rfl, trivial, by simp [denote]⟩
        obtain ⟨qs, hi⟩ := fwdLoop_spec hc _ _ _ _ [] r hi0 (TblLt_replicate _ _) hr
        have hflag : (if far = true then 1 else 0) + (mm - 2) % 8 * 2 = flagByte mm (if far = true then 1 else 0) := by
          unfold flagByte; rfl
        rw [hflag] at h
        obtain ⟨f1, f2, f3, f4⟩ := fwdFinish_spec hc hcm hi h
        rw [hcs] at f1 f2 f3 f4
        refine ⟨mm, if far = true then 1 else 0, qs, (src.extract r.1.anchor src.size).toList, f1, by omega, by omega,
          by split <;> omega, ?_, by omega, f3, ?_, f4, by simp only [MIN_BLOCK_LENGTH]; omega⟩
        · have hv := hi.valid
          rw [hcm, hcd, hcs] at hv
          have e : (if (if far = true then 1 else 0) = 0 then MAX_DISTANCE1 else MAX_DISTANCE2)
              = (if far = true then MAX_DISTANCE2 else MAX_DISTANCE1) := by
            cases far <;> simp
          rw [e]; exact hv
        · rw [hi.den, hcs]
          have hae := hi.ancEnd
          rw [hce] at hae
          have := take_append_extract src (i := r.1.anchor) (j := src.size) (by omega)
          rw [this, List.take_of_length_le (by simp)]

/-- C13_lz: Inverse restores every block Forward accepted, into any destination at least as large as the block -/
theorem lz_roundtrip {extra : Bool} {dt : Nat} {src t : Array Nat} {dstLen : Nat} (dst0 : Array Nat)
    (hsz : src.size < 4294967296) (hdst : maxEncodedLen src.size ≤ dstLen) (hn : src.size ≤ dst0.size)
    (h : lzForward extra dt src dstLen = .ok t) :
    lzInverse t dst0 = .ok src ∧ t.size ≤ maxEncodedLen src.size := by
  by_cases hne : src.size = 0
  · have ht : t = #[] := by
      unfold lzForward at h
      simp only [hne, true_or, if_true] at h
      injection h with h; exact h.symm
    have hs : src = #[] := Array.eq_empty_of_size_eq_zero hne
    subst ht; subst hs
    exact ⟨by simp [lzInverse], by simp [maxEncodedLen]⟩
  · have hd : dstLen ≠ 0 := by
      unfold maxEncodedLen at hdst; split at hdst <;> omega
    obtain ⟨mm, far, qs, fl, e1, e2, e3, e4, e5, e6, e7, e8, e9, _⟩ := lzForward_stream hne hd h
    have hlen : (denote [] qs).length + fl.length = src.size := by
      rw [← List.length_append, e8, Array.length_toList]
    have hts : t.size = (stream mm far src.size qs fl).length := by rw [e1]; simp
    constructor
    · rw [e1, lzInverse_stream mm far src.size qs fl dst0 ⟨e2, e3⟩ e4 e5 e6 e7 (by omega) (by omega), e8]
    · unfold maxEncodedLen; split <;> omega

end Kanzi.LZ
