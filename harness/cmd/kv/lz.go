package main

// lz: correspondence stream for the LZ77 codec transform.LZXCodec (transform names LZ and LZX): Forward,
// Inverse (bitstream version 6), MaxEncodedLen and the length coding emitLengthLZ / readLengthLZ (through
// the verif-tagged exports); model lean/Kanzi/Model/LZ.lean, driver lean/Kanzi/Drv/LZ.lean (op grammar there).
//
// Exec runs the REAL codec on caller-owned buffers (trCall of trsmall.go: source with cap == len, destination
// dst[:dstLen] pre-filled with 0xAA and followed by a canary) and evaluates the C13 oracle on the real code,
// independently of the Lean model: no panic, source buffer unchanged (success or decline), canary intact, and
// when Forward succeeds into a destination of at least MaxEncodedLen bytes: everything consumed, output length
// <= MaxEncodedLen, Inverse(Forward(x)) == x into destinations of exactly len(x), len(x)+1+len/16 and
// len(x)+70000 bytes, and the same round trip through the LZCodec wrapper (what the transform factory builds).

import (
	"bytes"
	"encoding/hex"
	"fmt"
	"math/rand"
	"strconv"
	"strings"

	"github.com/flanglet/kanzi-go/v2/transform"

	"kverif/internal/gen"
)

func init() {
	registerStream(&Stream{
		Name: "lz",
		Rule: "one op = one LZXCodec.Forward (+ Inverse of its output) / one LZXCodec.Inverse call on a caller-owned block, or one emitLengthLZ+readLengthLZ / readLengthLZ evaluation; LZ and LZX (extra) variants, dataType entries (none, DNA, SMALL_ALPHABET, others); families: tiny blocks around the 24-byte minimum, text, repeated text, periodic data of every period 1..40 (overlapping copies), runs around _LZX_MAX_MATCH, DNA-like data with and without the DNA hint, record-like data reusing two or three distances (repd tokens), matches of every length around the 1/3-byte match-length boundaries, literal runs around 7 / 261 / 65797 (and 2^24 in the thorough tier) between compressible stretches, distances around 256 / 65536 / the two distance limits, blocks around the 262154-byte switch of the distance limit, barely compressible blocks around the 1% rule, incompressible blocks, short destinations; inverse inputs: real outputs into exact / larger / smaller destinations, truncated, mutated (header, tokens, anywhere), extended, forged streams built section by section with arbitrary tokens / distances / lengths, headers with inconsistent section offsets, tiny inputs; length coding: dense windows 0..700, 65000..66600, 2^24-300..2^24+300 and random values, all first bytes for readLengthLZ; distinct_nontrivial = distinct ops with a non-empty argument",
		Gen:  lzGen,
		Exec: lzExec,
	})
}

const (
	lzMaxMatch = 65535 + 254 + 4
	lzGenMul   = 6364136223846793005
	lzGenAdd   = 1442695040888963407
)

// ---- data <-> text (grammar in lean/Kanzi/Drv/LZ.lean)

func lzGenBytes(dst []byte, seed uint64, n int, alpha []byte) []byte {
	x := seed
	for i := 0; i < n; i++ {
		x = x*lzGenMul + lzGenAdd
		k := x >> 33
		if len(alpha) == 0 {
			dst = append(dst, byte(k))
		} else {
			dst = append(dst, alpha[k%uint64(len(alpha))])
		}
	}
	return dst
}

func lzDec(s string) ([]byte, bool) {
	if s == "-" {
		return []byte{}, true
	}
	var out []byte
	for _, c := range strings.Split(s, ",") {
		switch {
		case strings.HasPrefix(c, "~"):
			body := c[1:]
			var alpha []byte
			if k := strings.IndexByte(body, '/'); k >= 0 {
				a, err := hex.DecodeString(body[k+1:])
				if err != nil {
					return nil, false
				}
				alpha, body = a, body[:k]
			}
			p := strings.Split(body, "*")
			if len(p) != 2 {
				return nil, false
			}
			seed, err1 := strconv.ParseUint(p[0], 10, 64)
			n, err2 := strconv.Atoi(p[1])
			if err1 != nil || err2 != nil || n < 0 || n > 1<<26 {
				return nil, false
			}
			out = lzGenBytes(out, seed, n, alpha)
		case strings.IndexByte(c, '^') >= 0:
			p := strings.Split(c, "^")
			if len(p) != 2 {
				return nil, false
			}
			d, err1 := strconv.Atoi(p[0])
			n, err2 := strconv.Atoi(p[1])
			if err1 != nil || err2 != nil || d <= 0 || d > len(out) || n < 0 || n > 1<<26 {
				return nil, false
			}
			for i := 0; i < n; i++ {
				out = append(out, out[len(out)-d])
			}
		case strings.IndexByte(c, '*') >= 0:
			p := strings.Split(c, "*")
			if len(p) != 2 {
				return nil, false
			}
			h, err1 := hex.DecodeString(p[0])
			n, err2 := strconv.Atoi(p[1])
			if err1 != nil || err2 != nil || len(h) != 1 || n < 0 || n > 1<<26 {
				return nil, false
			}
			out = append(out, bytes.Repeat(h, n)...)
		default:
			h, err := hex.DecodeString(c)
			if err != nil {
				return nil, false
			}
			out = append(out, h...)
		}
	}
	return out, true
}

// lzB builds a block together with its compact description
type lzB struct {
	data  []byte
	parts []string
	lastH bool
}

func (b *lzB) hex(x []byte) {
	if len(x) == 0 {
		return
	}
	// long runs inside literal data are described as runs
	i, lit := 0, 0
	flush := func(end int) {
		if end > lit {
			h := hex.EncodeToString(x[lit:end])
			if b.lastH {
				b.parts[len(b.parts)-1] += h
			} else {
				b.parts = append(b.parts, h)
			}
			b.lastH = true
		}
	}
	for i < len(x) {
		j := i
		for j < len(x) && x[j] == x[i] {
			j++
		}
		if j-i >= 12 {
			flush(i)
			b.parts = append(b.parts, fmt.Sprintf("%02x*%d", x[i], j-i))
			b.lastH = false
			lit = j
		}
		i = j
	}
	flush(len(x))
	b.data = append(b.data, x...)
}

func (b *lzB) run(v byte, n int) {
	if n <= 0 {
		return
	}
	b.parts = append(b.parts, fmt.Sprintf("%02x*%d", v, n))
	b.lastH = false
	b.data = append(b.data, bytes.Repeat([]byte{v}, n)...)
}

func (b *lzB) rnd(seed uint64, n int, alpha []byte) {
	if n <= 0 {
		return
	}
	if len(alpha) == 0 {
		b.parts = append(b.parts, fmt.Sprintf("~%d*%d", seed, n))
	} else {
		b.parts = append(b.parts, fmt.Sprintf("~%d*%d/%s", seed, n, hex.EncodeToString(alpha)))
	}
	b.lastH = false
	b.data = lzGenBytes(b.data, seed, n, alpha)
}

func (b *lzB) back(dist, n int) {
	if n <= 0 || dist <= 0 || dist > len(b.data) {
		return
	}
	b.parts = append(b.parts, fmt.Sprintf("%d^%d", dist, n))
	b.lastH = false
	for i := 0; i < n; i++ {
		b.data = append(b.data, b.data[len(b.data)-dist])
	}
}

func (b *lzB) text() string {
	if len(b.parts) == 0 {
		return "-"
	}
	return strings.Join(b.parts, ",")
}

func lzOut(b []byte) string {
	if len(b) <= 64 {
		return fmt.Sprintf("%d %s", len(b), trHex(b))
	}
	h := uint64(14695981039346656037)
	for _, c := range b {
		h = (h ^ uint64(c)) * 1099511628211
	}
	return fmt.Sprintf("%d %s.. #%016x", len(b), trHex(b[:16]), h)
}

func lzMaxLen(n int) int {
	if n <= 1024 {
		return n + 16
	}
	return n + n/64
}

func lzFwdClass(err error) string {
	m := err.Error()
	switch {
	case strings.Contains(m, "output buffer is too small"):
		return "dst"
	case strings.Contains(m, "block too small"):
		return "small"
	case strings.Contains(m, "Small alphabet"):
		return "type"
	case strings.Contains(m, "too many literals"):
		return "lits"
	case strings.Contains(m, "no compression"):
		return "nocomp"
	}
	return "other(" + m + ")"
}

func lzInvClass(err error) string {
	m := err.Error()
	switch {
	case strings.Contains(m, "invalid data"):
		return "data"
	case strings.Contains(m, "invalid distance"):
		return "dist"
	case m == "LZCodec inverse transform failed":
		return "end"
	}
	return "other(" + m + ")"
}

func lzNew(extra bool, dts string) (*transform.LZXCodec, bool) {
	if !extra && dts == "-" {
		t, _ := transform.NewLZXCodec()
		return t, true
	}
	ctx := map[string]any{}
	if extra {
		ctx["lz"] = transform.LZX_TYPE
	} else {
		ctx["lz"] = transform.LZ_TYPE
	}
	if dts != "-" {
		k, err := strconv.Atoi(dts)
		if err != nil || k < 0 || k > 64 {
			return nil, false
		}
		v := rltDataType(k)
		if v == nil {
			return nil, false
		}
		ctx["dataType"] = v
	}
	t, err := transform.NewLZXCodecWithCtx(&ctx)
	return t, err == nil
}

func lzInvLine(res *Result, o trOut, dstLen int) string {
	site := "transform.LZXCodec.Inverse"
	if o.panicMsg != "" {
		trViolate(res, site, "panic", o.panicMsg)
		return "panic"
	}
	if o.inputMod {
		trViolate(res, site, "input-modified", "source buffer changed by the call")
	}
	if o.canary {
		trViolate(res, site, "dst-overrun", "bytes after dst[:len] were written")
	}
	if o.err != nil {
		return "err:" + lzInvClass(o.err)
	}
	if int(o.written) > dstLen {
		trViolate(res, site, "written>len(dst)", fmt.Sprintf("written=%d len(dst)=%d", o.written, dstLen))
		return "overrun"
	}
	return "ok " + lzOut(o.out)
}

func lzExec(op string, res *Result) string {
	w := strings.Fields(op)
	atoi := func(s string) (int, bool) {
		v, err := strconv.Atoi(s)
		return v, err == nil && v >= 0 && v <= 1<<27
	}
	switch {
	case len(w) == 5 && w[0] == "lf":
		dstLen, ok1 := atoi(w[3])
		data, ok2 := lzDec(w[4])
		if !ok1 || !ok2 || (w[1] != "0" && w[1] != "1") {
			return "bad-op"
		}
		extra := w[1] == "1"
		t, ok3 := lzNew(extra, w[2])
		if !ok3 {
			return "bad-op"
		}
		site := "transform.LZXCodec.Forward"
		res.Nontrivial = len(data) > 0
		res.Sample = map[string]any{"op": "lf", "len": len(data), "dst": dstLen, "prefix": op[:min(len(op), 80)]}
		o := trCall(t.Forward, data, dstLen)
		if o.panicMsg != "" {
			trViolate(res, site, "panic", o.panicMsg)
			res.Tags = append(res.Tags, "lf:panic")
			return "panic"
		}
		if o.inputMod {
			trViolate(res, site, "input-modified", "source buffer changed by the call")
		}
		if o.canary {
			trViolate(res, site, "dst-overrun", "bytes after dst[:len] were written")
		}
		if o.err != nil {
			cl := lzFwdClass(o.err)
			res.Tags = append(res.Tags, "lf:declined:"+cl)
			return "declined:" + cl
		}
		if int(o.written) > dstLen {
			trViolate(res, site, "written>len(dst)", fmt.Sprintf("written=%d len(dst)=%d", o.written, dstLen))
			return "overrun"
		}
		res.Tags = append(res.Tags, "lf:ok")
		maxLen := t.MaxEncodedLen(len(data))
		inScope := len(data) > 0 && dstLen >= maxLen
		if inScope {
			if int(o.written) > maxLen {
				trViolate(res, site, "output>MaxEncodedLen", fmt.Sprintf("written=%d max=%d", o.written, maxLen))
			}
			if int(o.read) != len(data) {
				trViolate(res, site, "short-read", fmt.Sprintf("read=%d len=%d with nil error", o.read, len(data)))
			}
			lzTagOutput(res, o.out)
		}
		isite := "transform.LZXCodec.Inverse"
		line := ""
		for k, extraDst := range []int{0, 1 + len(data)/16, 70000} {
			ti, _ := transform.NewLZXCodec()
			b := trCall(ti.Inverse, o.out, len(data)+extraDst)
			if k == 0 {
				var r2 Result
				line = lzInvLine(&r2, b, len(data))
				if r2.Violation != nil && inScope {
					res.Violation = r2.Violation
				}
			}
			if !inScope {
				break
			}
			switch {
			case b.panicMsg != "":
				trViolate(res, isite, "panic", b.panicMsg)
			case b.err != nil:
				trViolate(res, isite, "roundtrip-error", fmt.Sprintf("Inverse(Forward(x)) failed (dst=len+%d): %v", extraDst, b.err))
			case !bytes.Equal(b.out, data):
				trViolate(res, site, "roundtrip-mismatch", fmt.Sprintf("Inverse(Forward(x)) != x (dst=len+%d, got %d bytes, want %d)", extraDst, len(b.out), len(data)))
			case b.inputMod || b.canary:
				trViolate(res, isite, "buffer-integrity", "inverse modified its input or wrote past dst")
			}
		}
		if inScope && len(data) <= 1<<21 {
			// the same block through the wrapper the factory builds for "LZ" / "LZX"
			ctx := map[string]any{"lz": transform.LZ_TYPE}
			if extra {
				ctx["lz"] = transform.LZX_TYPE
			}
			if w[2] != "-" {
				k, _ := strconv.Atoi(w[2])
				ctx["dataType"] = rltDataType(k)
			}
			if wf, err := transform.NewLZCodecWithCtx(&ctx); err == nil {
				f := trCall(wf.Forward, data, dstLen)
				if f.panicMsg != "" || f.err != nil || !bytes.Equal(f.out, o.out) {
					trViolate(res, "transform.LZCodec.Forward", "wrapper-differs", "LZCodec wrapper output differs from LZXCodec")
				} else {
					ctx2 := map[string]any{"lz": ctx["lz"]}
					wi, _ := transform.NewLZCodecWithCtx(&ctx2)
					g := trCall(wi.Inverse, f.out, len(data))
					if g.panicMsg != "" || g.err != nil || !bytes.Equal(g.out, data) {
						trViolate(res, "transform.LZCodec.Inverse", "roundtrip-mismatch", "wrapper round trip failed")
					}
				}
			}
		}
		return "ok " + lzOut(o.out) + " | inv " + line
	case len(w) == 3 && w[0] == "li":
		dstLen, ok1 := atoi(w[1])
		data, ok2 := lzDec(w[2])
		if !ok1 || !ok2 {
			return "bad-op"
		}
		res.Nontrivial = len(data) > 0
		res.Sample = map[string]any{"op": "li", "len": len(data), "dst": dstLen, "prefix": op[:min(len(op), 80)]}
		t, _ := transform.NewLZXCodec()
		o := trCall(t.Inverse, data, dstLen)
		var r2 Result
		line := lzInvLine(&r2, o, dstLen)
		// panics / overruns on forged input are recorded as observations (tags), not as C13 violations:
		// the property speaks about blocks the compressor produced; the block tasks recover panics
		if r2.Violation != nil && (r2.Violation.Symptom == "input-modified" || r2.Violation.Symptom == "dst-overrun") {
			res.Violation = r2.Violation
		}
		res.Tags = append(res.Tags, "li:"+strings.Fields(line)[0])
		if o.panicMsg != "" {
			res.Tags = append(res.Tags, "li:panic:"+lzPanicClass(o.panicMsg))
		}
		return line
	case len(w) == 2 && w[0] == "ll":
		n, ok := atoi(w[1])
		if !ok {
			return "bad-op"
		}
		res.Nontrivial = true
		bs := transform.VerifEmitLengthLZ(n)
		pad := append(append([]byte{}, bs...), 0, 0, 0)
		v, c := transform.VerifReadLengthLZ(pad)
		if n < (1<<24)+255 && (v != n || c != len(bs)) {
			trViolate(res, "transform.readLengthLZ", "length-roundtrip", fmt.Sprintf("n=%d bytes=%x read=%d consumed=%d", n, bs, v, c))
		}
		res.Tags = append(res.Tags, fmt.Sprintf("ll:%dbytes", len(bs)))
		if v != n {
			res.Tags = append(res.Tags, "ll:unrepresentable")
		}
		return fmt.Sprintf("%s %d %d", trHex(bs), v, c)
	case len(w) == 2 && w[0] == "lr":
		b, ok := trUnhex(w[1])
		if !ok || len(b) != 4 {
			return "bad-op"
		}
		res.Nontrivial = true
		v, c := transform.VerifReadLengthLZ(b)
		res.Tags = append(res.Tags, fmt.Sprintf("lr:%dbytes", c))
		return fmt.Sprintf("%d %d", v, c)
	}
	return "bad-op"
}

func lzPanicClass(m string) string {
	switch {
	case strings.Contains(m, "index out of range"):
		return "index"
	case strings.Contains(m, "slice bounds out of range"):
		return "slice"
	}
	return "other"
}

// lzTagOutput walks a real Forward output (token section only) and tags which token shapes occurred
func lzTagOutput(res *Result, out []byte) {
	if len(out) < 13 {
		return
	}
	le := func(i int) int { return int(out[i]) | int(out[i+1])<<8 | int(out[i+2])<<16 | int(out[i+3])<<24 }
	tk, m := le(0), le(4)
	if tk > len(out) || tk+m > len(out) {
		return
	}
	seen := map[string]bool{}
	if out[12]&1 == 1 {
		seen["far"] = true
	}
	for _, t := range out[tk : tk+m] {
		switch t & 0x18 {
		case 0:
			if t&4 == 0 {
				seen["rep0"] = true
			} else {
				seen["rep1"] = true
			}
			if t&3 == 3 {
				seen["rep-mlen-ext"] = true
			}
		case 8:
			seen["d1"] = true
		case 0x10:
			seen["d2"] = true
		default:
			seen["d3"] = true
		}
		if t&0x18 != 0 && t&7 == 7 {
			seen["mlen-ext"] = true
		}
		if t >= 0xE0 {
			seen["lit-ext"] = true
		}
	}
	for k := range seen {
		res.Tags = append(res.Tags, "tok:"+k)
	}
}

// ------------------------------------------------------------------------------------------
// generators

func lzRealForward(data []byte, extra bool, dts string) ([]byte, bool) {
	t, ok := lzNew(extra, dts)
	if !ok || len(data) == 0 {
		return nil, false
	}
	dst := make([]byte, t.MaxEncodedLen(len(data)))
	var n uint
	var err error
	func() {
		defer func() {
			if recover() != nil {
				err = fmt.Errorf("panic")
			}
		}()
		_, n, err = t.Forward(append([]byte{}, data...), dst)
	}()
	if err != nil {
		return nil, false
	}
	return dst[:n], true
}

func lzPut32(b []byte, v int) { b[0], b[1], b[2], b[3] = byte(v), byte(v>>8), byte(v>>16), byte(v>>24) }

// lzForge assembles a stream from its four sections
func lzForge(flag byte, lits, tks, ms, mls []byte) []byte {
	out := make([]byte, 13, 13+len(lits)+len(tks)+len(ms)+len(mls))
	lzPut32(out[0:], 13+len(lits))
	lzPut32(out[4:], len(tks))
	lzPut32(out[8:], len(ms))
	out[12] = flag
	out = append(out, lits...)
	out = append(out, tks...)
	out = append(out, ms...)
	return append(out, mls...)
}

func lzGen(r *rand.Rand, tier string, n int, emit func(op string, tags ...string)) {
	thorough := tier == "thorough"
	scale := 1
	if thorough {
		scale = 6
	}
	seedCtr := uint64(r.Int63())
	nextSeed := func() uint64 { seedCtr = seedCtr*lzGenMul + 12345; return seedCtr >> 20 }
	dnaA := []byte("ACGT")
	lf := func(extra bool, dts string, b *lzB, dst int, fam string) {
		x := "0"
		if extra {
			x = "1"
		}
		emit(fmt.Sprintf("lf %s %s %d %s", x, dts, dst, b.text()), "family:"+fam)
	}
	li := func(data []byte, dst int, fam string) {
		var b lzB
		b.hex(data)
		emit(fmt.Sprintf("li %d %s", dst, b.text()), "family:"+fam)
	}
	// inverse ops derived from the real output of a block
	liFrom := func(b *lzB, extra bool, dts string, fam string) {
		enc, ok := lzRealForward(b.data, extra, dts)
		if !ok || len(enc) > 1<<19 {
			return
		}
		nn := len(b.data)
		li(enc, nn, fam+"-exact")
		for k := 0; k < 2; k++ {
			switch r.Intn(9) {
			case 0:
				li(enc, nn+1+r.Intn(100), fam+"-larger")
			case 1:
				li(enc, nn-1-r.Intn(min(nn-1, 40)), fam+"-smaller")
			case 2:
				m := append([]byte{}, enc...)
				m[r.Intn(len(m))] = []byte{0, 1, 0x1F, 0x20, 0xE0, 0xFF, 0xFE, byte(r.Intn(256))}[r.Intn(8)]
				li(m, nn+r.Intn(2)*80, fam+"-mutated-any")
			case 3:
				m := append([]byte{}, enc...)
				m[r.Intn(13)] ^= byte(1 << uint(r.Intn(8)))
				li(m, nn, fam+"-mutated-header")
			case 4:
				// a token byte
				m := append([]byte{}, enc...)
				tk := int(m[0]) | int(m[1])<<8 | int(m[2])<<16
				cnt := int(m[4]) | int(m[5])<<8 | int(m[6])<<16
				if tk < len(m) && cnt > 0 && tk+cnt <= len(m) {
					m[tk+r.Intn(cnt)] = byte(r.Intn(256))
				}
				li(m, nn+r.Intn(2)*20, fam+"-mutated-token")
			case 5:
				li(enc[:r.Intn(len(enc))], nn, fam+"-truncated")
			case 6:
				li(enc[:len(enc)-1-r.Intn(min(len(enc)-1, 4))], nn, fam+"-truncated-tail")
			case 7:
				li(append(append([]byte{}, enc...), byte(r.Intn(256)), byte(r.Intn(256))), nn, fam+"-extended")
			default:
				li(enc, []int{1, 15, 16, 17, nn - 16, nn - 17, nn / 2}[r.Intn(7)]+0, fam+"-dst-small")
			}
		}
	}
	both := func(b *lzB, dts string, fam string) {
		lf(false, dts, b, lzMaxLen(len(b.data)), fam)
		lf(true, dts, b, lzMaxLen(len(b.data)), fam+"/x")
		if r.Intn(3) == 0 {
			liFrom(b, r.Intn(2) == 0, dts, "li-"+fam)
		}
	}
	// compressible filler described compactly: a little text, then copies of earlier stretches and fresh words
	filler := func(b *lzB, n int) {
		end := len(b.data) + n
		if n <= 0 {
			return
		}
		b.hex(gen.Text(r, min(n, 300+r.Intn(300))))
		for len(b.data) < end {
			left := end - len(b.data)
			if r.Intn(5) == 0 {
				b.hex(gen.Text(r, min(left, 4+r.Intn(30))))
			} else {
				l := min(left, 5+r.Intn(120))
				d := 1 + r.Intn(min(len(b.data), 60000))
				if d < l && r.Intn(3) != 0 {
					d = min(len(b.data), l+r.Intn(500))
				}
				b.back(d, l)
			}
		}
	}

	// ---- 1. tiny blocks and destination variants
	for l := 0; l <= 44; l++ {
		for v := 0; v < 3; v++ {
			var b lzB
			switch v {
			case 0:
				b.run(0x55, l)
			case 1:
				b.hex(gen.Text(r, l))
			default:
				b.hex([]byte("abcdefgh")[:min(l, 8)])
				b.back(min(8, max(l, 1)), l-min(l, 8))
			}
			for _, x := range []bool{false, true} {
				lf(x, "-", &b, lzMaxLen(l), "tiny")
			}
			lf(false, "6", &b, lzMaxLen(l), "tiny-dna-hint")
			lf(false, "-", &b, lzMaxLen(l)-1, "tiny-dst-1")
			lf(false, "-", &b, 0, "tiny-dst0")
		}
	}
	for _, l := range []int{1000, 1023, 1024, 1025, 1026, 1088, 2000} {
		var b lzB
		filler(&b, l)
		for _, d := range []int{-1, 0, 1, 40} {
			lf(r.Intn(2) == 0, "-", &b, lzMaxLen(l)+d, "maxlen-edge")
		}
	}

	// ---- 2. text, repeated text, structured data
	cnt := 260 * scale
	if n > 0 {
		cnt = n
	}
	for i := 0; i < cnt; i++ {
		sz := 24 + r.Intn(1<<uint(5+r.Intn(10)))
		var b lzB
		fam := ""
		dts := "-"
		switch i % 10 {
		case 0:
			b.hex(gen.Text(r, sz))
			fam = "text"
		case 1:
			b.hex(gen.RepText(r, sz))
			fam = "reptext"
		case 2:
			filler(&b, sz)
			fam = "filler"
		case 3:
			b.hex(gen.Runs(r, sz))
			fam = "runs"
		case 4:
			b.hex(gen.DNARepeats(r, sz))
			dts, fam = []string{"-", "6", "6"}[r.Intn(3)], "dna-repeats"
		case 5:
			b.hex(gen.Exe(r, max(sz, 256), r.Intn(2) == 0))
			dts, fam = []string{"-", "3"}[r.Intn(2)], "exe"
		case 6:
			b.hex(gen.Skewed(r, sz, 3, 2))
			fam = "skewed"
		case 7:
			b.hex(gen.UniqWords(r, sz))
			fam = "uniqwords"
		case 8:
			b.hex(gen.Numeric(r, sz))
			dts, fam = []string{"-", "4"}[r.Intn(2)], "numeric"
		default:
			b.hex(gen.Mixed(r, sz, 64+r.Intn(512)))
			fam = "mixed"
		}
		both(&b, dts, fam)
	}
	// DNA-like: 4-letter random (matches are short: minMatch 4 vs 6 matters), with / without hint, small alphabet hint
	for i := 0; i < 40*scale; i++ {
		var b lzB
		sz := 100 + r.Intn(6000)
		for len(b.data) < sz {
			if len(b.data) > 50 && r.Intn(3) == 0 {
				b.back(1+r.Intn(len(b.data)), 4+r.Intn(12))
			} else {
				b.rnd(nextSeed(), 10+r.Intn(200), dnaA)
			}
		}
		for _, dts := range []string{"-", "6", "9", "1"} {
			lf(r.Intn(2) == 0, dts, &b, lzMaxLen(len(b.data)), "dna-rand4")
		}
		if i%4 == 0 {
			liFrom(&b, false, "6", "li-dna")
		}
	}

	// ---- 3. periodic data: every period 1..40 (overlapping copies below 16), a few lengths
	for p := 1; p <= 40; p++ {
		for _, l := range []int{30, 100, 1000 + r.Intn(1000)} {
			var b lzB
			b.rnd(nextSeed(), p, nil)
			b.back(p, l)
			b.rnd(nextSeed(), 20+r.Intn(10), nil)
			both(&b, "-", "periodic")
		}
	}
	// ---- 4. runs and periodic stretches around _LZX_MAX_MATCH
	mm := []int{lzMaxMatch - 2, lzMaxMatch - 1, lzMaxMatch, lzMaxMatch + 1, lzMaxMatch + 2, lzMaxMatch + 8, 2*lzMaxMatch - 1, 2 * lzMaxMatch, 2*lzMaxMatch + 1, 2*lzMaxMatch + 5, 3*lzMaxMatch + 17}
	for _, l := range mm {
		for _, p := range []int{1, 2, 3, 7, 16, 17, 300} {
			if !thorough && p > 3 && r.Intn(3) != 0 {
				continue
			}
			for _, pre := range []int{0, 1, 5, 30} {
				if pre > 1 && r.Intn(2) == 0 {
					continue
				}
				var b lzB
				b.rnd(nextSeed(), pre, nil)
				b.rnd(nextSeed(), p, nil)
				b.back(p, l)
				b.rnd(nextSeed(), 18+r.Intn(12), nil)
				x := r.Intn(2) == 0
				lf(x, "-", &b, lzMaxLen(len(b.data)), "max-match")
				if r.Intn(6) == 0 {
					liFrom(&b, x, "-", "li-max-match")
				}
			}
		}
	}
	// ---- 5. matches of every length around the match-length code boundaries, explicit and repeat distances
	for _, base := range []int{4, 5, 6, 7, 8, 9, 10, 11, 12, 13, 4 + 3 + 254, 4 + 7 + 254, 6 + 3 + 254, 6 + 7 + 254} {
		for d := -3; d <= 3; d++ {
			l := base + d
			if l < 2 {
				continue
			}
			var b lzB
			filler(&b, 400+r.Intn(200))
			b.rnd(nextSeed(), 300+r.Intn(20), nil)
			dist := 40 + r.Intn(200)
			b.back(dist+l, l) // explicit distance, exact length (next byte random)
			b.rnd(nextSeed(), 3+r.Intn(5), nil)
			b.back(dist+l+8, l) // likely the same distance again
			b.rnd(nextSeed(), 2+r.Intn(4), nil)
			filler(&b, 300)
			dts := []string{"-", "-", "6"}[r.Intn(3)]
			both(&b, dts, "match-len-boundary")
		}
	}
	// ---- 6. record-like data: two or three distances reused (repd0 / repd1 tokens), short literals between
	for i := 0; i < 60*scale; i++ {
		var b lzB
		b.rnd(nextSeed(), 200+r.Intn(400), nil)
		ds := []int{8 + r.Intn(150), 20 + r.Intn(150), 3 + r.Intn(40)}
		for k := 0; k < 40+r.Intn(100); k++ {
			b.rnd(nextSeed(), []int{0, 1, 1, 2, 3, 6, 7, 8}[r.Intn(8)], nil)
			d := ds[r.Intn(len(ds))]
			b.back(d, 4+r.Intn(40))
		}
		b.rnd(nextSeed(), 20+r.Intn(10), nil)
		both(&b, []string{"-", "-", "6"}[r.Intn(3)], "repd-records")
	}
	// ---- 7. literal runs of exact sizes between compressible stretches (sandwich)
	var mids []int
	for d := -6; d <= 6; d++ {
		mids = append(mids, 7+d, 254+7+d, 65536+254+7+d)
	}
	if !thorough {
		// keep every size of the small windows, half of the big one
		var m2 []int
		for _, m := range mids {
			if m < 65000 || r.Intn(2) == 0 {
				m2 = append(m2, m)
			}
		}
		mids = m2
	}
	for _, mid := range mids {
		if mid < 0 {
			continue
		}
		for v := 0; v < 2; v++ {
			var b lzB
			filler(&b, 600+r.Intn(300))
			b.rnd(nextSeed(), mid, nil)
			if v == 0 {
				filler(&b, 500+r.Intn(300))
			} else {
				// the run is followed by a long repeat of the filler (a match right after the literals)
				b.back(mid+200+r.Intn(300), 150)
				filler(&b, 300)
			}
			if mid > 60000 {
				// enough compressible data around to stay below the 1% rule
				b.run(byte(r.Intn(256)), 3000)
				filler(&b, 400)
			}
			x := r.Intn(2) == 0
			lf(x, "-", &b, lzMaxLen(len(b.data)), "sandwich")
			if mid < 1000 && r.Intn(3) == 0 {
				liFrom(&b, x, "-", "li-sandwich")
			}
		}
	}
	// trailing literal run of exact sizes (the last token)
	for _, mid := range []int{0, 1, 5, 6, 7, 8, 17, 18, 19, 24, 259, 260, 261, 262, 300} {
		var b lzB
		filler(&b, 900+r.Intn(300))
		b.rnd(nextSeed(), mid, nil)
		both(&b, "-", "trailing-literals")
	}
	// ---- 8. distances around the 1/2/3-byte boundaries and the two limits; blocks around the limit switch
	for _, dist := range []int{1, 2, 15, 16, 17, 254, 255, 256, 257, 65533, 65534, 65535, 65536, 65537, 70000} {
		for _, big := range []bool{false, true} {
			if big && !thorough && r.Intn(2) == 0 {
				continue
			}
			var b lzB
			b.rnd(nextSeed(), 64, nil) // the stretch that is repeated
			if dist > 64 {
				// compressible padding (a run) so that the block is accepted
				b.run(byte(r.Intn(256)), dist-64)
			}
			b.back(dist, min(dist, 40+r.Intn(20)))
			b.rnd(nextSeed(), 30, nil)
			if big {
				b.run(0x11, 262154+18-len(b.data)+r.Intn(3)-1)
			}
			both(&b, "-", "distance-boundary")
		}
	}
	for _, sz := range []int{262152, 262153, 262154, 262155, 262156} {
		var b lzB
		b.rnd(nextSeed(), 100, nil)
		b.run(0x22, 70000)
		b.back(70100, 80) // distance 70100: only reachable with the large limit
		b.rnd(nextSeed(), 40, nil)
		b.run(0x33, sz-len(b.data)-30)
		b.rnd(nextSeed(), 30, nil)
		both(&b, "-", "limit-switch")
	}
	if thorough {
		// distance around 2^24 - 2
		for _, dist := range []int{1<<24 - 3, 1<<24 - 2, 1<<24 - 1, 1 << 24} {
			var b lzB
			b.rnd(nextSeed(), 64, nil)
			b.run(0x44, dist-64)
			b.back(dist, 50)
			b.rnd(nextSeed(), 30, nil)
			lf(false, "-", &b, lzMaxLen(len(b.data)), "distance-2^24")
		}
	}
	// ---- 9. barely compressible: random with a compressible part of about 1% (the final no-compression rule)
	for i := 0; i < 50*scale; i++ {
		var b lzB
		sz := 2000 + r.Intn(30000)
		b.rnd(nextSeed(), sz, nil)
		save := sz/100 + 20 + r.Intn(30) - 15
		b.run(byte(r.Intn(256)), save)
		b.rnd(nextSeed(), 24, nil)
		lf(r.Intn(2) == 0, "-", &b, lzMaxLen(len(b.data)), "one-percent")
	}
	for i := 0; i < 20*scale; i++ {
		var b lzB
		b.rnd(nextSeed(), 24+r.Intn(5000), nil)
		lf(r.Intn(2) == 0, "-", &b, lzMaxLen(len(b.data)), "random")
	}
	// ---- 10. big blocks
	nbig := 6
	if thorough {
		nbig = 40
	}
	for i := 0; i < nbig; i++ {
		var b lzB
		sz := 200000 + r.Intn(400000)
		for len(b.data) < sz {
			switch r.Intn(5) {
			case 0:
				b.rnd(nextSeed(), 1+r.Intn(3000), nil)
			case 1:
				b.run(byte(r.Intn(256)), 1+r.Intn(100000))
			case 2:
				filler(&b, 1000+r.Intn(20000))
			default:
				if len(b.data) > 100 {
					b.back(1+r.Intn(len(b.data)), 4+r.Intn(3000))
				}
			}
		}
		x := i%2 == 0
		lf(x, "-", &b, lzMaxLen(len(b.data)), "big")
		if i%3 == 0 {
			liFrom(&b, x, "-", "li-big")
		}
	}
	// ---- 11. literal runs around 2^24 (thorough tier; one below the limit in the quick tier)
	type lrun struct {
		pre, mid, post int
	}
	runs24 := []lrun{{3 << 20, 1<<24 - 40, 2000}, {3 << 20, 1<<24 + 300, 0}}
	if thorough {
		runs24 = append(runs24, lrun{3 << 20, 1<<24 + 5, 2000}, lrun{3 << 20, 1<<24 + 261, 0}, lrun{3 << 20, 1<<24 - 19, 0},
			lrun{3 << 20, 1<<24 - 18, 0}, lrun{3 << 20, 1<<24 + 262 - 18, 0}, lrun{3 << 20, 1<<24 - 300, 5000})
	}
	for _, q := range runs24 {
		var b lzB
		b.run(0x5A, q.pre)
		b.rnd(nextSeed(), q.mid, nil)
		b.run(0xA5, q.post)
		lf(false, "-", &b, lzMaxLen(len(b.data)), "literals-2^24")
	}

	// ---- 12. forged inverse inputs
	toks := []byte{0x00, 0x03, 0x04, 0x07, 0x08, 0x0F, 0x10, 0x17, 0x18, 0x1F, 0x20, 0x28, 0x3F, 0xC0, 0xC8, 0xE0, 0xE3, 0xE8, 0xEF, 0xF8, 0xFF}
	fcnt := 900 * scale
	for i := 0; i < fcnt; i++ {
		nl := r.Intn(60)
		lits := gen.Random(r, nl)
		if r.Intn(3) == 0 {
			for k := range lits {
				if r.Intn(4) == 0 {
					lits[k] = []byte{0, 1, 253, 254, 255}[r.Intn(5)]
				}
			}
		}
		nt := 1 + r.Intn(6)
		tks := make([]byte, nt)
		for k := range tks {
			if r.Intn(3) == 0 {
				tks[k] = byte(r.Intn(256))
			} else {
				tks[k] = toks[r.Intn(len(toks))]
			}
		}
		if r.Intn(2) == 0 {
			tks[nt-1] = []byte{0xE0, 0x20, 0xC0, 0xE0}[r.Intn(4)]
		}
		ms := gen.Random(r, r.Intn(8))
		for k := range ms {
			if r.Intn(2) == 0 {
				ms[k] = byte(r.Intn(20))
			}
		}
		mls := gen.Random(r, r.Intn(6))
		flag := byte(r.Intn(16))
		if r.Intn(4) != 0 {
			flag = byte((2+r.Intn(4))<<1 | r.Intn(2))
		}
		s := lzForge(flag, lits, tks, ms, mls)
		fam := "li-forged"
		switch r.Intn(8) {
		case 0:
			lzPut32(s[0:], []int{0, 1, 12, 13, 14, len(s), len(s) + 1, len(s) - 1, 1 << 31, 0xFFFFFFFF}[r.Intn(10)])
			fam = "li-forged-tkidx"
		case 1:
			lzPut32(s[4:], []int{0, len(s), len(s) + 1, 0xFFFFFFFF, r.Intn(40)}[r.Intn(5)])
			fam = "li-forged-midx"
		case 2:
			lzPut32(s[8:], []int{0, len(s), len(s) + 1, 0xFFFFFFFF, r.Intn(40)}[r.Intn(5)])
			fam = "li-forged-mlenidx"
		}
		li(s, []int{1, 16, 17, 20, 40, 100, 300, 70000, 300000}[r.Intn(9)], fam)
	}
	// directed: tokens that run off the end, distance 0, distance beyond the output, stale destination bytes
	lit20 := []byte("ABCDEFGHIJKLMNOPQRST")
	for _, dl := range []int{16, 30, 36, 37, 40, 60, 100} {
		li(lzForge(4, lit20, []byte{0xE0}, nil, nil), dl, "li-directed")                                         // literal length byte missing in front
		li(lzForge(4, append([]byte{13}, lit20...), []byte{0xE0}, nil, nil), dl, "li-directed")                  // 20 literals, final
		li(lzForge(4, append([]byte{13}, lit20...), []byte{0xE8, 0xE0}, []byte{0}, nil), dl, "li-directed-dist0") // dist 0
		li(lzForge(4, append([]byte{0}, lit20...), []byte{0xE8, 0x20}, []byte{3}, nil), dl, "li-directed")
		li(lzForge(4, append([]byte{0}, lit20...), []byte{0xE8, 0x20}, []byte{8}, nil), dl, "li-directed-dist>pos")
		li(lzForge(4, append([]byte{0}, lit20...), []byte{0xE0, 0x08}, []byte{3}, nil), dl, "li-directed-repd-initial")
		li(lzForge(4, append([]byte{0}, lit20...), []byte{0xE0}, nil, nil), dl, "li-directed-early-end")
		li(lzForge(4, lit20, []byte{0x08}, []byte{1}, nil), dl, "li-directed-no-token-left")
		li(lzForge(4, append([]byte{13}, lit20...), nil, nil, nil), dl, "li-directed-no-tokens")
		li(lzForge(4, append([]byte{13}, lit20...), []byte{0xEF, 0xE0}, []byte{2}, []byte{255, 0xFF, 0xFF, 0xFF}), dl, "li-directed-huge-mlen")
		li(lzForge(4, append([]byte{255, 0xFF, 0xFF, 0xFF}, lit20...), []byte{0xE0}, nil, nil), dl, "li-directed-huge-litlen")
		li(lzForge(4, append([]byte{13}, lit20...), []byte{0xE0, 0xE0}, nil, nil), dl, "li-directed")
		li(lzForge(4, append([]byte{13}, lit20...), []byte{0xF0, 0x20}, []byte{0, 16}, nil), dl, "li-directed-dist16")
	}
	for l := 0; l <= 14; l++ {
		li(bytes.Repeat([]byte{0}, l), 10, "li-tiny")
		li(gen.Random(r, l), 10, "li-tiny")
	}
	li([]byte{13, 0, 0, 0, 1, 0, 0, 0, 0, 0, 0, 0, 4, 0x20}, 0, "li-dst0")

	// ---- 13. length coding
	for v := 0; v <= 700; v++ {
		emit(fmt.Sprintf("ll %d", v), "family:ll-dense")
	}
	for v := 65000; v <= 66600; v++ {
		if thorough || v > 65700 && v < 65900 || v%7 == 0 {
			emit(fmt.Sprintf("ll %d", v), "family:ll-dense")
		}
	}
	for v := 1<<24 - 300; v <= 1<<24+300; v++ {
		emit(fmt.Sprintf("ll %d", v), "family:ll-dense")
	}
	for i := 0; i < 300*scale; i++ {
		emit(fmt.Sprintf("ll %d", r.Intn(1<<uint(1+r.Intn(25)))), "family:ll-random")
	}
	for b0 := 0; b0 < 256; b0++ {
		for k := 0; k < 2; k++ {
			emit(fmt.Sprintf("lr %02x%02x%02x%02x", b0, r.Intn(256), r.Intn(256), r.Intn(256)), "family:lr")
		}
	}
}
