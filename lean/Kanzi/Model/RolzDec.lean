/-
What `ROLZCodec.Inverse` (v2/transform/ROLZCodec.go) ALLOCATES, as functions of the call's inputs; slice
`rolztotal`, property C03.  The decoding itself is `rolzxInverse` (Model/ROLZX.lean) and `rolzInverse`
(Model/ROLZ1.lean) of slice `rolz`; this file adds the side of the Go code those models keep implicit: the
sizes of the buffers (`make(...)`) of one call, listed in program order, and the tables the codec object
keeps from call to call.  Core Lean only.

Sizes are ELEMENT counts.  `cs` = `_ROLZ_CHUNK_SIZE`, `lpc0` = the `logPosChecks` the codec object was built with,
`srcLen = len(src)`, `dstLen = len(dst)`, `hdr` = the big-endian 32-bit word `src[0:4]`.
-/
import Kanzi.Model.ROLZX
import Kanzi.Model.ROLZ1

namespace Kanzi.ROLZ

/-- the wrapper `ROLZCodec.Inverse` hands the call to its delegate -/
def wrapperPasses (srcLen dstLen : Nat) : Bool :=
  !(srcLen = 0 || dstLen = 0) && !(srcLen < 5) && !(srcLen > MAX_BLOCK_SIZE)

/-- `rolzCodec1.Inverse` passes its first test (`dstEnd <= 0 || dstEnd > len(dst)` with `dstEnd = hdr - 4`) and
    reaches its allocations -/
def rolz1Reaches (srcLen dstLen hdr : Nat) : Bool :=
  wrapperPasses srcLen dstLen && !(hdr ≤ 4 || hdr - 4 > dstLen)

/-- Go `rolzCodec1.Inverse`: the buffers made by ONE call, in program order: `litBuf`, `mLenBuf`, `mIdxBuf`,
    `tkBuf` (`sizeChunk`, `/5`, `/4`, `/4` with `sizeChunk = min(len(dst), CHUNK_SIZE)`) and `this.matches`
    (`_ROLZ_HASH_SIZE << logPosChecks` of the OBJECT, only when the object has none yet: `mLen` = `len(this.matches)`
    before the call).  They are made before the flags byte is validated, hence on failing paths too. -/
def rolz1Allocs (cs lpc0 srcLen dstLen hdr mLen : Nat) : List Nat :=
  if rolz1Reaches srcLen dstLen hdr then
    [min dstLen cs, min dstLen cs / 5, min dstLen cs / 4, min dstLen cs / 4] ++
      (if mLen < lpc0 then [HASH_SIZE * 2 ^ lpc0] else [])
  else []

/-- `len(this.matches)` after a call of `rolzCodec1.Inverse` on an object whose table had `mLen` entries -/
def rolz1MatchesAfter (lpc0 srcLen dstLen hdr mLen : Nat) : Nat :=
  if rolz1Reaches srcLen dstLen hdr && decide (mLen < lpc0) then HASH_SIZE * 2 ^ lpc0 else mLen

/-- `rolzCodec2.Inverse` reaches `newRolzDecoder` -/
def rolzxReaches (srcLen dstLen hdr : Nat) : Bool :=
  wrapperPasses srcLen dstLen && !(hdr = 0 || hdr > dstLen)

/-- Go `rolzCodec2.Inverse`: the buffers made by one call: the two probability tables of `newRolzDecoder`
    (`256 << mLogSize` with `mLogSize = logPosChecks`, `256 << 9`), only when at least 8 bytes follow the header
    (`srcIdx` = 5, or 4 for `bsVersion < 3`; otherwise `newRolzDecoder` panics before its `make`s).
    `this.matches` / `this.counters` are made by the constructor. -/
def rolzxAllocs (lpc bsv srcLen dstLen hdr : Nat) : List Nat :=
  if rolzxReaches srcLen dstLen hdr && decide ((if bsv ≥ 3 then 5 else 4) + 8 ≤ srcLen) then [256 <<< lpc, 256 <<< 9] else []

end Kanzi.ROLZ
