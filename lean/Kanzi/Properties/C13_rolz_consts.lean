/-
Constants of the ROLZ / ROLZX models (`Kanzi/Model/ROLZX.lean`, `Kanzi/Model/ROLZ1.lean`) tied to the values the
Go type checker computes for the named constants of /repo/v2 (`Kanzi/Generated/Consts.lean`, regenerated on
every run) - same mechanism as `Kanzi/Properties/ConstsTie.lean` (the coordinator may move this theorem
there).  `_ROLZ_HASH_MASK` is used in the model as `x / 2^24 * 2^24` (tag) and `x % 2^24` (position): it is the
complement of `_ROLZ_CHUNK_SIZE - 1` in 32 bits.  The literals 16384 / 32768 / 12 of the ANS coders used by
ROLZ are the default chunk size and log range of `ANSRangeCodec.go`.
-/
import Kanzi.Generated.Consts
import Kanzi.Model.ROLZX
import Kanzi.Model.ROLZ1

namespace Kanzi.ConstsTie
open Kanzi.Generated

theorem rolz_consts :
    Consts.transform._ROLZ_CHUNK_SIZE = Kanzi.ROLZ.CHUNK_SIZE ∧
    Consts.transform._ROLZ_CHUNK_SIZE = 2 ^ 24 ∧
    Consts.transform._ROLZ_HASH_MASK = 2 ^ 32 - 2 ^ 24 ∧
    Consts.transform._ROLZ_HASH_SEED = Kanzi.ROLZ.HASH_SEED ∧
    Consts.transform._ROLZ_HASH_SIZE = Kanzi.ROLZ.HASH_SIZE ∧
    Consts.transform._ROLZ_LOG_POS_CHECKS1 = Kanzi.ROLZ.LOG_POS_CHECKS1 ∧
    Consts.transform._ROLZ_LOG_POS_CHECKS2 = Kanzi.ROLZ.LOG_POS_CHECKS2 ∧
    Consts.transform._ROLZ_MAX_BLOCK_SIZE = Kanzi.ROLZ.MAX_BLOCK_SIZE ∧
    Consts.transform._ROLZ_MIN_BLOCK_SIZE = Kanzi.ROLZ.MIN_BLOCK_SIZE ∧
    Consts.transform._ROLZ_MAX_MATCH1 = Kanzi.ROLZ.MAX_MATCH1 ∧
    Consts.transform._ROLZ_MAX_MATCH2 = Kanzi.ROLZ.MAX_MATCH2 ∧
    Consts.transform._ROLZ_MIN_MATCH3 = Kanzi.ROLZ.MIN_MATCH3 ∧
    Consts.transform._ROLZ_MIN_MATCH4 = Kanzi.ROLZ.MIN_MATCH4 ∧
    Consts.transform._ROLZ_MIN_MATCH7 = Kanzi.ROLZ.MIN_MATCH7 ∧
    Consts.transform._ROLZ_DST_MARGIN = Kanzi.ROLZ.DST_MARGIN ∧
    Consts.transform._ROLZ_PSCALE = Kanzi.ROLZ.PSCALE ∧
    Consts.transform._ROLZ_TOP = Kanzi.ROLZ.TOP ∧
    Consts.transform._ROLZ_LITERAL_FLAG = 1 ∧ Consts.transform._ROLZ_MATCH_FLAG = 0 ∧
    Consts.transform._ROLZ_LITERAL_CTX = 1 ∧ Consts.transform._ROLZ_MATCH_CTX = 0 ∧
    Consts.transform._MASK_0_32 = Kanzi.ROLZ.MASK_0_32 ∧ Consts.transform._MASK_0_56 = 2 ^ 56 - 1 ∧
    Consts.entropy._DEFAULT_ANS0_CHUNK_SIZE = 16384 ∧ Consts.entropy._DEFAULT_ANS_LOG_RANGE = 12 ∧
    Consts.internal.DT_DNA = Kanzi.ROLZ.DT_DNA ∧ Consts.internal.DT_EXE = Kanzi.ROLZ.DT_EXE ∧
    Consts.internal.DT_MULTIMEDIA = Kanzi.ROLZ.DT_MULTIMEDIA ∧ Consts.internal.DT_UNDEFINED = Kanzi.ROLZ.DT_UNDEFINED := by
  decide

end Kanzi.ConstsTie
