/-
inverseBiPSIv2, part 10: the decoding loops on the spec tables.  One step at the row of suffix `j`
(`j + 2 <= n`): the fast-bits entry is at or before the bigram of the row, the scan stops exactly at
it, the two bytes written are `s[j]`, `s[j+1]`, and the next row is the row of suffix `j + 2`.
-/
import Kanzi.Proofs.BWTBi9
import Kanzi.Proofs.BWTBi6
import Kanzi.Proofs.BWTBi7

namespace Kanzi.BWT

theorem scan_exact (bk : Array Nat) (hs : bk.size = 65536) (p t : Nat) (ht : t < 65536) (hgt : p < rd bk t)
    (fuel s0 : Nat) (hst : s0 ≤ t) (hfuel : t - s0 < fuel) (hle : ∀ u, s0 ≤ u → u < t → rd bk u ≤ p) :
    scan bk p fuel s0 = .ok t := by
  induction fuel generalizing s0 with
  | zero => omega
  | succ f ih =>
    have hs' : s0 < bk.size := by omega
    simp only [scan, hs', dite_true, rd_eq_getElem hs']
    by_cases he : s0 = t
    · subst he
      rw [if_neg (by omega)]
    · rw [if_pos (hle s0 (Nat.le_refl _) (by omega))]
      have e : (s0 + 1) % 65536 = s0 + 1 := Nat.mod_eq_of_lt (by omega)
      rw [e]
      exact ih (s0 + 1) (by omega) (by omega) (fun u h1 h2 => hle u (by omega) h2)

/-- everything the decoding loops use, on the spec output of `s` -/
structure DecCtx (s : List Nat) (sh : Shared) (v : Nat) : Prop where
  n2 : 2 ≤ s.length
  nlt : s.length < 2 ^ 63
  bytes : ∀ x ∈ s, x < 256
  bksize : sh.buckets.size = 65536
  ends : ∀ kk, kk < 65536 → rd sh.buckets kk = endK (bwtData s).toArray (zpos s + 1) kk
  fbsize : sh.fastBits.size = 131072
  vhi : ∀ t, t < 65536 → cntK (bwtData s).toArray (zpos s + 1) t ≠ 0 →
    (endK (bwtData s).toArray (zpos s + 1) t - 1) >>> sh.shift < v
  fb : ∀ u, u < v → rd sh.fastBits u < 65536 ∧
    cntK (bwtData s).toArray (zpos s + 1) (rd sh.fastBits u) ≠ 0 ∧
    ∀ t, t < rd sh.fastBits u → cntK (bwtData s).toArray (zpos s + 1) t ≠ 0 →
      (endK (bwtData s).toArray (zpos s + 1) t - 1) >>> sh.shift < u
  fblt : ∀ u, rd sh.fastBits u < 65536
  shiftok : s.length >>> sh.shift ≤ MASK_FASTBITS
  dsize : s.length + 1 ≤ sh.data.size
  t2 : ∀ j, j + 2 ≤ s.length →
    startK (bwtData s).toArray (zpos s + 1) (big s j) ≤ rowOf s j ∧
    rowOf s j < endK (bwtData s).toArray (zpos s + 1) (big s j) ∧
    rd sh.data (rowOf s j) = rowS s (j + 2)

variable {s : List Nat} {sh : Shared} {v : Nat}

theorem rowS_of_lt (j : Nat) (hj : j < s.length) : rowS s j = rowOf s j := by
  unfold rowS; rw [if_neg (by omega)]

/-- lookup + scan at the row of suffix `j` return the bigram at `j` -/
theorem decode_bigram (h : DecCtx s sh v) (j : Nat) (hj : j + 2 ≤ s.length) :
    lookup sh (rowOf s j) = .ok (rd sh.fastBits (rowOf s j >>> sh.shift)) ∧
    scan sh.buckets (rowOf s j) 65536 (rd sh.fastBits (rowOf s j >>> sh.shift)) = .ok (big s j) := by
  obtain ⟨h1, h2, _⟩ := h.t2 j hj
  have hk := big_lt s h.bytes j
  generalize hkk : big s j = kk at *
  generalize hp : rowOf s j = p at *
  have hpn : p ≤ s.length := by rw [← hp]; exact (rowOf_bounds s j (by omega)).2
  have hcnt : cntK (bwtData s).toArray (zpos s + 1) kk ≠ 0 := by unfold endK at h2; omega
  have hu : p >>> sh.shift ≤ (endK (bwtData s).toArray (zpos s + 1) kk - 1) >>> sh.shift :=
    shr_mono _ _ _ (by omega)
  have huv : p >>> sh.shift < v := Nat.lt_of_le_of_lt hu (h.vhi kk hk hcnt)
  obtain ⟨f1, f2, f3⟩ := h.fb _ huv
  have hsz : p >>> sh.shift < sh.fastBits.size := by
    have := shr_mono p s.length sh.shift hpn
    have hm := h.shiftok
    unfold MASK_FASTBITS NB_FASTBITS at hm
    have e : (1 <<< 17) - 1 = 131071 := by decide
    rw [e] at hm
    rw [h.fbsize]; omega
  refine ⟨?_, ?_⟩
  · unfold lookup
    have : ¬ p ≥ 2 ^ 63 := by have := h.nlt; omega
    rw [if_neg this, Array.getElem?_eq_getElem hsz, rd_eq_getElem hsz]
    rfl
  · -- the fast-bits entry is at or before kk
    have hle0 : rd sh.fastBits (p >>> sh.shift) ≤ kk := by
      refine Classical.byContradiction fun hgt => ?_
      have := f3 kk (by omega) hcnt
      omega
    apply scan_exact sh.buckets h.bksize p kk hk (by rw [h.ends kk hk]; exact h2) 65536 _ hle0 (by omega)
    intro u hu1 hu2
    rw [h.ends u (by omega)]
    exact Nat.le_trans (endK_le_startK _ _ hu2) h1

theorem Res.bind_ok {α β : Type} (a : α) (f : α → Res β) : (Res.ok a).bind f = f a := rfl

theorem mapRes_ok_map {α β : Type} (f : α → Res β) (g : α → β) (l : List α) (h : ∀ a ∈ l, f a = .ok (g a)) :
    mapRes f l = .ok (l.map g) := by
  induction l with
  | nil => rfl
  | cons a as ih =>
    simp only [mapRes, h a List.mem_cons_self, Res.bind_ok, ih (fun x hx => h x (List.mem_cons_of_mem _ hx)), List.map_cons]

theorem zip_map_map {α β γ : Type} (f : α → β) (g : α → γ) (l : List α) :
    (l.map f).zip (l.map g) = l.map (fun x => (f x, g x)) := by
  induction l with
  | nil => rfl
  | cons a as ih => simp [ih]

/-- concrete lanes for the bases `bs` when the loop index is `i` -/
def lanesAt (s : List Nat) (bs : List Nat) (i : Nat) : List (Nat × Nat) := bs.map (fun b => (rowS s (b + i - 1), b))

theorem big_bytes (hb : ∀ x ∈ s, x < 256) (j : Nat) :
    (big s j >>> 8) % 256 = s.getD j 0 ∧ big s j % 256 = s.getD (j + 1) 0 := by
  have h1 := getD_lt s hb j
  have h2 := getD_lt s hb (j + 1)
  unfold big flat
  rw [Nat.shiftRight_eq_div_pow]
  have : (2 : Nat) ^ 8 = 256 := by decide
  rw [this]
  omega

/-- value of a successful step, 0 otherwise -/
def resVal (r : Res Nat) : Nat := match r with
  | .ok a => a
  | _ => 0

theorem resVal_ok {r : Res Nat} (h : ∃ a, r = .ok a) : r = .ok (resVal r) := by
  obtain ⟨a, rfl⟩ := h; rfl

/-- the first bytes of one iteration: untouched elsewhere; a position all of whose writers carry the
target value holds the target value -/
theorem writeFirst_spec (i : Nat) (tgt : Nat → Nat) (ws : List (Nat × Nat)) (dst : Array Nat)
    (hsz : ∀ w ∈ ws, w.1 + i - 1 < dst.size) :
    ∃ dst', writeFirst i ws dst = .ok dst' ∧ dst'.size = dst.size ∧
      (∀ pos, (∀ w ∈ ws, pos ≠ w.1 + i - 1) → rd dst' pos = rd dst pos) ∧
      (∀ pos, (∃ w ∈ ws, pos = w.1 + i - 1) → (∀ w ∈ ws, pos = w.1 + i - 1 → (w.2 >>> 8) % 256 = tgt pos) →
        rd dst' pos = tgt pos) := by
  induction ws generalizing dst with
  | nil => exact ⟨dst, rfl, rfl, fun _ _ => rfl, by intro pos ⟨w, hw, _⟩; simp at hw⟩
  | cons w ws ih =>
    obtain ⟨b, x⟩ := w
    have hb1 := hsz (b, x) List.mem_cons_self
    simp only at hb1
    have hw : write1 dst (b + i - 1) (x >>> 8) = .ok (dst.setIfInBounds (b + i - 1) ((x >>> 8) % 256)) := by
      unfold write1; rw [if_neg (by omega)]
    obtain ⟨d', r, hs', hu, hc⟩ := ih (dst.setIfInBounds (b + i - 1) ((x >>> 8) % 256)) (by
      intro w hw'; rw [Array.size_setIfInBounds]; exact hsz w (List.mem_cons_of_mem _ hw'))
    refine ⟨d', by simp only [writeFirst, hw, Res.bind_ok, r], by simpa using hs', ?_, ?_⟩
    · intro pos hpos
      rw [hu pos (fun w hw' => hpos w (List.mem_cons_of_mem _ hw')), rd_setIfInBounds]
      have := hpos (b, x) List.mem_cons_self
      simp only at this
      rw [if_neg (by omega)]
    · intro pos hex hall
      by_cases hlater : ∃ w ∈ ws, pos = w.1 + i - 1
      · exact hc pos hlater (fun w hw' hp => hall w (List.mem_cons_of_mem _ hw') hp)
      · have hpb : pos = b + i - 1 := by
          obtain ⟨w, hw', hp⟩ := hex
          rcases List.mem_cons.1 hw' with rfl | hw''
          · exact hp
          · exact absurd ⟨w, hw'', hp⟩ hlater
        rw [hu pos (fun w hw' hp => hlater ⟨w, hw', hp⟩), rd_setIfInBounds, if_pos ⟨hpb.symm, by omega⟩]
        exact hall (b, x) List.mem_cons_self hpb

theorem writeSecond_spec (i : Nat) (tgt : Nat → Nat) (ws : List (Nat × Nat)) (dst : Array Nat)
    (hsz : ∀ w ∈ ws, w.1 + i < dst.size) :
    ∃ dst', writeSecond i ws dst = .ok dst' ∧ dst'.size = dst.size ∧
      (∀ pos, (∀ w ∈ ws, pos ≠ w.1 + i) → rd dst' pos = rd dst pos) ∧
      (∀ pos, (∃ w ∈ ws, pos = w.1 + i) → (∀ w ∈ ws, pos = w.1 + i → w.2 % 256 = tgt pos) →
        rd dst' pos = tgt pos) := by
  induction ws generalizing dst with
  | nil => exact ⟨dst, rfl, rfl, fun _ _ => rfl, by intro pos ⟨w, hw, _⟩; simp at hw⟩
  | cons w ws ih =>
    obtain ⟨b, x⟩ := w
    have hb1 := hsz (b, x) List.mem_cons_self
    simp only at hb1
    have hw : write1 dst (b + i) x = .ok (dst.setIfInBounds (b + i) (x % 256)) := by
      unfold write1; rw [if_neg (by omega)]
    obtain ⟨d', r, hs', hu, hc⟩ := ih (dst.setIfInBounds (b + i) (x % 256)) (by
      intro w hw'; rw [Array.size_setIfInBounds]; exact hsz w (List.mem_cons_of_mem _ hw'))
    refine ⟨d', by simp only [writeSecond, hw, Res.bind_ok, r], by simpa using hs', ?_, ?_⟩
    · intro pos hpos
      rw [hu pos (fun w hw' => hpos w (List.mem_cons_of_mem _ hw')), rd_setIfInBounds]
      have := hpos (b, x) List.mem_cons_self
      simp only at this
      rw [if_neg (by omega)]
    · intro pos hex hall
      by_cases hlater : ∃ w ∈ ws, pos = w.1 + i
      · exact hc pos hlater (fun w hw' hp => hall w (List.mem_cons_of_mem _ hw') hp)
      · have hpb : pos = b + i := by
          obtain ⟨w, hw', hp⟩ := hex
          rcases List.mem_cons.1 hw' with rfl | hw''
          · exact hp
          · exact absurd ⟨w, hw'', hp⟩ hlater
        rw [hu pos (fun w hw' hp => hlater ⟨w, hw', hp⟩), rd_setIfInBounds, if_pos ⟨hpb.symm, by omega⟩]
        exact hall (b, x) List.mem_cons_self hpb

/-- a lane standing at a suffix that still exists (`j = b + i - 1 <= n - 1`): its three table steps
succeed; when the suffix has a bigram they return exactly the bigram and the row two positions on -/
theorem lane_steps (h : DecCtx s sh v) (j : Nat) (hj : j + 1 ≤ s.length) :
    lookup sh (rowOf s j) = .ok (rd sh.fastBits (rowOf s j >>> sh.shift)) ∧
    (∃ r, scan sh.buckets (rowOf s j) 65536 (rd sh.fastBits (rowOf s j >>> sh.shift)) = .ok r) ∧
    next sh (rowOf s j) = .ok (rd sh.data (rowOf s j)) ∧
    (j + 2 ≤ s.length →
      scan sh.buckets (rowOf s j) 65536 (rd sh.fastBits (rowOf s j >>> sh.shift)) = .ok (big s j) ∧
      rd sh.data (rowOf s j) = rowS s (j + 2)) := by
  have hp := rowOf_bounds s j (by omega)
  have hsz : rowOf s j >>> sh.shift < sh.fastBits.size := by
    have := shr_mono (rowOf s j) s.length sh.shift hp.2
    have hm := h.shiftok
    unfold MASK_FASTBITS NB_FASTBITS at hm
    have e : (1 <<< 17) - 1 = 131071 := by decide
    rw [e] at hm
    rw [h.fbsize]; omega
  have hlook : lookup sh (rowOf s j) = .ok (rd sh.fastBits (rowOf s j >>> sh.shift)) := by
    unfold lookup
    have : ¬ rowOf s j ≥ 2 ^ 63 := by have := h.nlt; omega
    rw [if_neg this, Array.getElem?_eq_getElem hsz, rd_eq_getElem hsz]
    rfl
  have hnext : next sh (rowOf s j) = .ok (rd sh.data (rowOf s j)) := by
    have hlt : rowOf s j < sh.data.size := by have := h.dsize; omega
    unfold next
    rw [Array.getElem?_eq_getElem hlt, rd_eq_getElem hlt]; rfl
  refine ⟨hlook, ?_, hnext, ?_⟩
  · -- some bucket end exceeds every row
    have hbsrc : ∀ b ∈ (bwtData s).toArray.toList, b < 256 := by
      simp only [List.toList_toArray]; exact bwtData_lt s h.bytes
    have hs1 : 1 ≤ s.length := by have := h.n2; omega
    have hsize : (bwtData s).toArray.size = s.length := by simp [bwtData_length s hs1]
    have hz := zpos_lt s hs1
    have hlast : (65535 : Nat) < 65536 := Nat.lt_succ_self _
    have htop : rowOf s j < rd sh.buckets 65535 := by
      rw [h.ends 65535 hlast, endK_last _ hbsrc _ ⟨by omega, by rw [hsize]; omega⟩, hsize]; omega
    obtain ⟨r, hr, _⟩ := scan_total sh.buckets h.bksize (rowOf s j) ⟨65535, hlast, htop⟩ _ (h.fblt _)
    exact ⟨r, hr⟩
  · intro hj2
    exact ⟨(decode_bigram h j hj2).2, (h.t2 j hj2).2.2⟩

/-- ONE ITERATION of a decoding loop over the lanes with bases `bs`.  Every lane stands at a suffix that
has a bigram, or (`weak` lanes) at the last suffix while the second byte is not written.  Below position
`n - 1` the lanes write their bytes of `s` and nothing else changes; when no lane is weak the lanes move
two positions forward. -/
theorem lanesIter_spec (h : DecCtx s sh v) (i : Nat) (hi : 1 ≤ i) (second : Bool) (bs : List Nat) (dst : Array Nat)
    (hpre : ∀ b ∈ bs, b + i + 1 ≤ s.length ∨ (b + i ≤ s.length ∧ second = false))
    (hsz : ∀ b ∈ bs, b + i - 1 < dst.size ∧ (second = true → b + i < dst.size)) :
    ∃ lanes' dst', lanesIter sh i second (lanesAt s bs i) dst = .ok (lanes', dst') ∧ dst'.size = dst.size ∧
      ((∀ b ∈ bs, b + i + 1 ≤ s.length) → lanes' = lanesAt s bs (i + 2)) ∧
      ∀ pos, pos < s.length - 1 →
        ((∃ b ∈ bs, pos = b + i - 1 ∨ (second = true ∧ pos = b + i)) → rd dst' pos = s.getD pos 0) ∧
        ((∀ b ∈ bs, pos ≠ b + i - 1 ∧ (second = true → pos ≠ b + i)) → rd dst' pos = rd dst pos) := by
  have hj1 : ∀ b ∈ bs, b + i - 1 + 1 ≤ s.length := by
    intro b hb; rcases hpre b hb with h1 | h1 <;> omega
  have hrow : ∀ b ∈ bs, rowS s (b + i - 1) = rowOf s (b + i - 1) := by
    intro b hb; exact rowS_of_lt _ (by have := hj1 b hb; omega)
  -- scanned value of lane b
  let sv : Nat → Nat := fun b =>
    resVal (scan sh.buckets (rowOf s (b + i - 1)) 65536 (rd sh.fastBits (rowOf s (b + i - 1) >>> sh.shift)))
  have hsv : ∀ b ∈ bs, b + i + 1 ≤ s.length → sv b = big s (b + i - 1) := by
    intro b hb hv
    have := ((lane_steps h (b + i - 1) (hj1 b hb)).2.2.2 (by omega)).1
    simp only [sv, this, resVal]
  have hlook : mapRes (fun l : Nat × Nat => lookup sh l.1) (lanesAt s bs i)
      = .ok ((lanesAt s bs i).map (fun l => rd sh.fastBits (l.1 >>> sh.shift))) := by
    apply mapRes_ok_map
    intro l hl
    obtain ⟨b, hb, rfl⟩ := List.mem_map.1 hl
    simp only
    rw [hrow b hb]
    exact (lane_steps h (b + i - 1) (hj1 b hb)).1
  have hzip : (lanesAt s bs i).zip ((lanesAt s bs i).map (fun l => rd sh.fastBits (l.1 >>> sh.shift)))
      = bs.map (fun b => ((rowS s (b + i - 1), b), rd sh.fastBits (rowS s (b + i - 1) >>> sh.shift))) := by
    simp only [lanesAt, List.map_map]
    exact zip_map_map _ _ bs
  have hscan : mapRes (fun (x : (Nat × Nat) × Nat) => scan sh.buckets x.1.1 65536 x.2)
      (bs.map (fun b => ((rowS s (b + i - 1), b), rd sh.fastBits (rowS s (b + i - 1) >>> sh.shift))))
      = .ok ((bs.map (fun b => ((rowS s (b + i - 1), b), rd sh.fastBits (rowS s (b + i - 1) >>> sh.shift)))).map
          (fun x => sv x.1.2)) := by
    apply mapRes_ok_map
    intro x hx
    obtain ⟨b, hb, rfl⟩ := List.mem_map.1 hx
    simp only
    rw [hrow b hb]
    exact resVal_ok (lane_steps h (b + i - 1) (hj1 b hb)).2.1
  have hws : ((lanesAt s bs i).map (·.2)).zip
      ((bs.map (fun b => ((rowS s (b + i - 1), b), rd sh.fastBits (rowS s (b + i - 1) >>> sh.shift)))).map
          (fun x => sv x.1.2))
      = bs.map (fun b => (b, sv b)) := by
    simp only [lanesAt, List.map_map]
    exact zip_map_map _ _ bs
  obtain ⟨d1, w1, s1, u1, c1⟩ := writeFirst_spec i (fun pos => s.getD pos 0) (bs.map (fun b => (b, sv b))) dst (by
    intro w hw
    obtain ⟨b, hb, rfl⟩ := List.mem_map.1 hw
    exact (hsz b hb).1)
  have hsecond : ∃ d2, (if second = true then writeSecond i (bs.map (fun b => (b, sv b))) d1 else Res.ok d1) = .ok d2 ∧
      d2.size = dst.size ∧
      (∀ pos, (∀ b ∈ bs, second = true → pos ≠ b + i) → rd d2 pos = rd d1 pos) ∧
      (∀ pos, second = true → (∃ b ∈ bs, pos = b + i) → rd d2 pos = s.getD pos 0) := by
    cases hsec : second with
    | false =>
      refine ⟨d1, by simp, s1, fun _ _ => rfl, ?_⟩
      intro pos hh; cases hh
    | true =>
      obtain ⟨d2, w2, s2, u2, c2⟩ := writeSecond_spec i (fun pos => s.getD pos 0) (bs.map (fun b => (b, sv b))) d1 (by
        intro w hw
        obtain ⟨b, hb, rfl⟩ := List.mem_map.1 hw
        rw [s1]
        exact (hsz b hb).2 hsec)
      refine ⟨d2, by simpa using w2, by rw [s2, s1], ?_, ?_⟩
      · intro pos hpos
        apply u2
        intro w hw
        obtain ⟨b, hb, rfl⟩ := List.mem_map.1 hw
        exact hpos b hb rfl
      · intro pos _ ⟨b, hb, hp⟩
        apply c2 pos ⟨(b, sv b), List.mem_map.2 ⟨b, hb, rfl⟩, hp⟩
        intro w hw hpw
        obtain ⟨b', hb', rfl⟩ := List.mem_map.1 hw
        simp only at hpw ⊢
        -- second byte written: the lane is not weak
        have hv : b' + i + 1 ≤ s.length := by
          rcases hpre b' hb' with h1 | h1
          · exact h1
          · rw [hsec] at h1; cases h1.2
        rw [hsv b' hb' hv, (big_bytes h.bytes (b' + i - 1)).2, hpw]
        congr 1; omega
  obtain ⟨d2, w2, s2, u2, c2⟩ := hsecond
  have hnext : mapRes (fun l : Nat × Nat => (next sh l.1).bind fun p => Res.ok (p, l.2)) (lanesAt s bs i)
      = .ok ((lanesAt s bs i).map (fun l => (rd sh.data l.1, l.2))) := by
    apply mapRes_ok_map
    intro l hl
    obtain ⟨b, hb, rfl⟩ := List.mem_map.1 hl
    simp only
    rw [hrow b hb, (lane_steps h (b + i - 1) (hj1 b hb)).2.2.1]
    rfl
  refine ⟨(lanesAt s bs i).map (fun l => (rd sh.data l.1, l.2)), d2, ?_, s2, ?_, ?_⟩
  · unfold lanesIter
    rw [hlook, Res.bind_ok, hzip, hscan, Res.bind_ok, hws, w1, Res.bind_ok, w2, Res.bind_ok, hnext, Res.bind_ok]
  · intro hall
    simp only [lanesAt, List.map_map, Function.comp_def]
    apply List.map_congr_left
    intro b hb
    have hv := hall b hb
    rw [hrow b hb, ((lane_steps h (b + i - 1) (hj1 b hb)).2.2.2 (by omega)).2]
    have e1 : b + i - 1 + 2 = b + i + 1 := by omega
    have e2 : b + (i + 2) - 1 = b + i + 1 := by omega
    rw [e1, e2]
  · intro pos hpos
    constructor
    · rintro ⟨b, hb, hp⟩
      by_cases hs2 : second = true ∧ ∃ b' ∈ bs, pos = b' + i
      · exact c2 pos hs2.1 hs2.2
      · rw [u2 pos (fun b' hb' hsec hp' => hs2 ⟨hsec, b', hb', hp'⟩)]
        have hp1 : ∃ b' ∈ bs, pos = b' + i - 1 := by
          rcases hp with hp | hp
          · exact ⟨b, hb, hp⟩
          · exact absurd ⟨hp.1, b, hb, hp.2⟩ hs2
        obtain ⟨b1, hb1, hp1'⟩ := hp1
        apply c1 pos ⟨(b1, sv b1), List.mem_map.2 ⟨b1, hb1, rfl⟩, hp1'⟩
        intro w hw hpw
        obtain ⟨b', hb', rfl⟩ := List.mem_map.1 hw
        simp only at hpw ⊢
        -- pos < n - 1, so the lane has a bigram
        have hv : b' + i + 1 ≤ s.length := by omega
        rw [hsv b' hb' hv, (big_bytes h.bytes (b' + i - 1)).1, hpw]
    · intro hno
      rw [u2 pos (fun b hb hsec => (hno b hb).2 hsec), u1 pos]
      intro w hw
      obtain ⟨b, hb, rfl⟩ := List.mem_map.1 hw
      exact (hno b hb).1

end Kanzi.BWT
