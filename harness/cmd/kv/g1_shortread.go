package main

// Stream `shortread` (C06): decoding is transparent to the I/O granularity.  A real stream (every
// entropy codec, several transforms) is decoded by the REAL Reader from an io.Reader that hands
// out the compressed bytes in pieces of 1, 7, 8, 13, 1001, 4097, 8191, 65535 bytes, random sizes, and
// adversarial schedules (inside one refill of the input bitstream: an odd-sized piece followed by
// pieces whose own size is a multiple of 8: 5 then 8, 3 then 16, 1 then 4096, ...), with io.EOF
// delivered after or together with the last piece; and on the other side with Read buffers of
// length 0, 1, 7, blocksize-1, blocksize+1, random.  Output and outcome must equal those of the decode
// from a source that returns everything at once.
//
// Scenario line:
//   shortread shape=<name> size=<n> dseed=<s> t=<chain> e=<entropy> bs=<blocksize> j=<writer jobs> rj=<reader jobs>
//             ck=<0|32|64> hl=<0|1> src=<n|rand|adv|pat:a,b,..> eof=<after|with> rsplit=<one|0..|1|7|bsm1|bsp1|rand|zero|pat:..>

import (
	"bytes"
	"fmt"
	"io"
	"math/rand"
	"strconv"
	"strings"
)

type g1PieceReader struct {
	data    []byte
	off     int
	next    func() int
	eofWith bool
	calls   int
	pieces  int
	odd     int // pieces whose size is not a multiple of 8 (other than the last)
}

func (p *g1PieceReader) Read(b []byte) (int, error) {
	p.calls++
	if p.off >= len(p.data) {
		return 0, io.EOF
	}
	if len(b) == 0 {
		return 0, nil
	}
	l := p.next()
	if l <= 0 {
		l = 1
	}
	l = min(l, len(b), len(p.data)-p.off)
	copy(b, p.data[p.off:p.off+l])
	p.off += l
	p.pieces++
	if p.off >= len(p.data) {
		if p.eofWith {
			return l, io.EOF
		}
		return l, nil
	}
	if l&7 != 0 {
		p.odd++
	}
	return l, nil
}

// adversarial schedule: one piece of size not multiple of 8, then 1..3 pieces of sizes that are
// multiples of 8 (so that "last piece was aligned" and "total is aligned" disagree), repeated
func g1AdvSizer(seed int64) func() int {
	r := rand.New(rand.NewSource(seed ^ 0xadadad))
	var queue []int
	return func() int {
		if len(queue) == 0 {
			odd := []int{1, 3, 5, 7, 9, 13, 1001, 4097, 8191, 65535, 2, 4, 6, 12, 20}[r.Intn(15)]
			queue = append(queue, odd)
			for k := 1 + r.Intn(3); k > 0; k-- {
				queue = append(queue, []int{8, 16, 24, 64, 4096, 8192, 65536, 262144}[r.Intn(8)])
			}
		}
		v := queue[0]
		queue = queue[1:]
		return v
	}
}

func shortreadSrcSizer(mode string, bs int, seed int64) func() int {
	switch mode {
	case "adv":
		return g1AdvSizer(seed)
	case "rand":
		r := rand.New(rand.NewSource(seed ^ 0x51ce))
		return func() int {
			switch r.Intn(5) {
			case 0:
				return 1 + r.Intn(16)
			case 1:
				return 1 + r.Intn(1024)
			case 2:
				return 1 + r.Intn(70000)
			case 3:
				return 8 * (1 + r.Intn(1024))
			}
			return 1 + r.Intn(300000)
		}
	}
	return g1Sizer(mode, bs, seed)
}

func shortreadExec(op string, res *Result) string {
	c, err := g1Parse(op)
	if err != nil {
		res.Violation = &Violation{Kind: "input", Site: "harness", Symptom: "bad-scenario", What: err.Error()}
		return "bad-scenario"
	}
	data, err := c.data()
	if err != nil {
		res.Violation = &Violation{Kind: "input", Site: "harness", Symptom: "bad-scenario", What: err.Error()}
		return "bad-scenario"
	}
	return g1Guard(op, res, g1Limit(c.Size), func() string { return shortreadRun(c, data, res) })
}

func shortreadRun(c *g1Cfg, data []byte, res *Result) string {
	src := c.KV["src"]
	if src == "" {
		src = "1"
	}
	eofWith := c.KV["eof"] == "with"
	res.Tags = append(res.Tags, "e:"+strings.ToUpper(c.E), "src:"+strings.SplitN(src, ":", 2)[0], "eof:"+c.KV["eof"], "rsplit:"+strings.SplitN(c.RSplit, ":", 2)[0], "ck:"+strconv.Itoa(c.CK), "rj:"+strconv.Itoa(c.RJ), "hl:"+strconv.FormatBool(c.HL))
	if strings.HasPrefix(src, "pat:") {
		for _, a := range shortreadAdvs {
			if a == src { // the directed adversarial patterns get their own histogram line
				res.Tags = append(res.Tags, "src:"+src)
			}
		}
	}
	for _, t := range strings.Split(strings.ToUpper(c.T), "+") {
		res.Tags = append(res.Tags, "t:"+t)
	}
	comp := g1Compress(data, g1Params{T: c.T, E: c.E, BS: c.BS, J: c.J, CK: c.CK, HL: c.HL, WSplit: "one"})
	if comp.CtorErr != nil {
		res.Tags = append(res.Tags, "outcome:rejected")
		return "rejected"
	}
	if comp.Err != nil {
		res.Tags = append(res.Tags, "outcome:ref-error")
		return "ref-error"
	}
	rp := g1RParams{T: c.T, E: c.E, BS: c.BS, RJ: c.RJ, CK: c.CK, HL: c.HL, RSplit: "one", Seed: c.DSeed}
	ref := g1Decompress(bytes.NewReader(comp.Out), rp, len(data))
	if ref.CtorErr != nil || ref.Problem != "" || !bytes.Equal(ref.Out, data) {
		// the full-read decode already fails: a round-trip (C01) matter, reported by rt
		res.Tags = append(res.Tags, "outcome:ref-error")
		return "ref-error"
	}
	pr := &g1PieceReader{data: comp.Out, next: shortreadSrcSizer(src, c.BS, c.DSeed), eofWith: eofWith}
	rp.RSplit = c.RSplit
	got := g1Decompress(pr, rp, len(data))
	res.Key = strings.Join([]string{strings.ToUpper(c.T), strings.ToUpper(c.E), src, c.KV["eof"], c.RSplit, strconv.Itoa(c.CK), strconv.Itoa(c.RJ), g1SizeClass(len(comp.Out), 262144)}, "|")
	res.Nontrivial = pr.odd > 0 || (c.RSplit != "one" && c.RSplit != "")
	res.Sample = map[string]any{"scenario": c.Raw, "compressed": len(comp.Out), "source_reads": pr.calls, "pieces": pr.pieces, "unaligned_pieces": pr.odd, "reader_reads": got.Reads}
	violate := func(what string) string {
		g1SetViolation(res, &Violation{Kind: "input", Site: "bitstream.DefaultInputBitStream", Symptom: "short-read-dependent",
			What: fmt.Sprintf("%s (source pieces %s, eof %s, %d source reads, %d unaligned pieces; Read buffers %s; the same stream of %d bytes decodes correctly from a source returning everything at once)", what, src, c.KV["eof"], pr.calls, pr.odd, c.RSplit, len(comp.Out))})
		res.Tags = append(res.Tags, "outcome:violation")
		return "violation short-read-dependent"
	}
	if got.CtorErr != nil {
		return violate("Reader constructor failed: " + got.CtorErr.Error())
	}
	if got.Problem != "" {
		return violate(got.Problem + ": " + got.What)
	}
	if i := g1FirstDiff(got.Out, data); i >= 0 {
		return violate(fmt.Sprintf("decoded %d bytes for %d, first difference at offset %d, no error", len(got.Out), len(data), i))
	}
	if pr.off != len(comp.Out) {
		res.Tags = append(res.Tags, "source-not-drained")
	}
	res.Tags = append(res.Tags, "outcome:ok")
	return fmt.Sprintf("ok in=%d comp=%d", len(data), len(comp.Out))
}

var shortreadAdvs = []string{"adv", "pat:5,8", "pat:3,16", "pat:1,4096", "pat:7,8,8", "pat:13,65536", "pat:1,8,16,24", "pat:4,8", "pat:9,262144", "pat:1001,4096,8", "pat:65535,8", "pat:2,8,8,8,8"}

func shortreadGen(r *rand.Rand, tier string, n int, emit func(op string, tags ...string)) {
	thorough := tier == "thorough"
	fixed := []string{"1", "7", "8", "13", "1001", "4097", "8191", "65535"}
	advs := shortreadAdvs
	srcs := append(append(append([]string{}, fixed...), "rand"), advs...)
	rsplits := []string{"one", "zero", "1", "7", "bsm1", "bsp1", "rand", "pat:0,1,7", "13"}
	chains := []string{"NONE", "LZ", "TEXT", "BWT", "RLT+ZRLT", "TEXT+UTF+BWT+RANK+ZRLT", "LZX", "ROLZ", "PACK", "MM", "TEXT+UTF+PACK+MM+LZX", "BWTS", "SRT", "LZP"}
	shapes := []string{"text", "random", "mixedsafe", "reptext", "runs", "wavefull", "skew-250-6", "fib", "base64", "exe-elfsec"}
	mk := func(fam, t, e, src, rs string) {
		bs := pick(r, []int{1024, 4096, 65536, 65536})
		sh := pick(r, shapes)
		size := 3*bs + r.Intn(9*bs)
		if size > 600000 {
			size = 300000 + r.Intn(300000)
		}
		if r.Intn(6) == 0 {
			size = 1 + r.Intn(3000)
		}
		j, rj := 1+r.Intn(4), 1+r.Intn(4)
		if g1Heavy(e) {
			size = min(size, 8000+r.Intn(24000))
			if e != "CM" {
				j, rj = 1, 1+r.Intn(2)
			}
		}
		// byte-sized pieces of a large stream only cost time
		if (src == "1" || rs == "1") && size > 150000 {
			size = 50000 + r.Intn(100000)
		}
		hl := 0
		if r.Intn(6) == 0 {
			hl = 1
		}
		emit(fmt.Sprintf("shortread shape=%s size=%d dseed=%d t=%s e=%s bs=%d j=%d rj=%d ck=%d hl=%d src=%s eof=%s rsplit=%s",
			sh, size, r.Intn(1<<30), t, e, bs, j, rj, pick(r, []int{0, 32, 64}), hl, src, pick(r, []string{"after", "with"}), rs), "family:"+fam)
	}
	reps := 1
	if thorough {
		reps = 12
	}
	for rep := 0; rep < reps; rep++ {
		// every entropy codec x every source schedule
		for _, e := range g1Entropies {
			for _, src := range srcs {
				if g1Heavy(e) && e != "CM" && !thorough && r.Intn(3) != 0 {
					continue
				}
				mk("entropy-x-src", pick(r, chains[:5]), e, src, pick(r, []string{"one", "one", "rand", "zero"}))
			}
		}
		// several transforms x every source schedule
		for _, t := range chains {
			for _, src := range srcs {
				if !thorough && r.Intn(2) == 0 {
					continue
				}
				mk("transform-x-src", t, pick(r, g1LightEntropies), src, pick(r, []string{"one", "one", "rand", "bsm1"}))
			}
		}
		// Read side: buffer lengths 0, 1, 7, bs-1, bs+1, random, against whole and short sources
		for _, rs := range rsplits {
			for _, e := range g1LightEntropies {
				mk("read-buffers", pick(r, chains), e, pick(r, []string{"one", "one", "rand", "adv", "13"}), rs)
			}
		}
	}
	cnt := 150
	if thorough {
		cnt = 4000
	}
	if n > 0 {
		cnt = n
	}
	for k := 0; k < cnt; k++ {
		e := pick(r, g1Entropies)
		if g1Heavy(e) && e != "CM" && r.Intn(3) != 0 {
			e = pick(r, g1LightEntropies)
		}
		src := pick(r, srcs)
		if r.Intn(3) == 0 {
			// random adversarial pattern: odd piece then multiples of 8
			p := []string{strconv.Itoa(1 + 2*r.Intn(40))}
			for i := 1 + r.Intn(3); i > 0; i-- {
				p = append(p, strconv.Itoa(8*(1+r.Intn(1<<uint(r.Intn(14))))))
			}
			src = "pat:" + strings.Join(p, ",")
		}
		mk("random", g1RandomChainSafe(r), e, src, pick(r, rsplits))
	}
}

// chains without the transforms whose forward pass is known to crash on some inputs today
func g1RandomChainSafe(r *rand.Rand) string {
	safe := []string{"BWT", "BWTS", "LZ", "LZX", "LZP", "RLT", "ZRLT", "MTFT", "RANK", "TEXT", "ROLZ", "MM", "PACK", "UTF", "EXE", "DNA"}
	n := 1 + r.Intn(4)
	var toks []string
	for i := 0; i < n; i++ {
		toks = append(toks, pick(r, safe))
	}
	return strings.Join(toks, "+")
}

func init() {
	registerStream(&Stream{
		Name: "shortread",
		Rule: "real streams of every entropy codec (9) and 14 transform chains decoded by the real Reader (jobs 1..4, checksum 0/32/64, header/headerless) from an io.Reader returning pieces of 1, 7, 8, 13, 1001, 4097, 8191, 65535 bytes, random sizes, " +
			"and adversarial schedules (a piece of size not multiple of 8 followed by pieces whose own size is a multiple of 8: 5/8, 3/16, 1/4096, 13/65536, 9/262144, seeded random patterns), io.EOF after or with the last piece; " +
			"Read side with buffer lengths 0, 1, 7, 13, bs-1, bs+1, random; oracle: same bytes and no error as the decode from a source returning everything at once (which itself equals the input); " +
			"distinct_nontrivial = distinct (chain, entropy, source schedule, eof mode, Read schedule, checksum, reader jobs, stream size class) with at least one unaligned source piece before the end or a non-trivial Read schedule",
		Gen:  shortreadGen,
		Exec: shortreadExec,
	})
}
